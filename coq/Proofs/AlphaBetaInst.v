(* Proofs/AlphaBetaInst.v : the two instances of Proofs/AlphaBetaTT.v.

   A. extension trees  -> negamax_tt_sound      (any valid table, any draft)
   B. nominal values   -> negamax_tt_same_depth (ply_unique: the table cannot change the value), iterative deepening *)
Require Import NArith ZArith List Bool Lia Permutation.
Import ListNotations.
Require Import Ink.Spec.Minimax Ink.Model.SearchCore Ink.Proofs.MinimaxProofs Ink.Proofs.AlphaBeta Ink.Proofs.AlphaBetaTT.
Open Scope Z_scope.

Arguments Z.add : simpl never.
Arguments Z.sub : simpl never.
Arguments Z.mul : simpl never.
Arguments Z.opp : simpl never.
Arguments Z.max : simpl never.
Arguments Z.min : simpl never.
Arguments N.eqb : simpl never.

(* ================================================================== *)
(* Facts about extension trees                                          *)
Section Trees.
Variable pos : Type.
Variable succs : pos -> list pos.
Variable noisy_succs : pos -> list pos.
Variable noisy_any : pos -> bool.
Variable static : pos -> Z.
Variable terminal : pos -> Z.
Variable qmeasure : pos -> nat.

Local Notation nm := (Minimax.nm pos succs noisy_succs noisy_any static terminal qmeasure).
Local Notation tree := (Minimax.tree pos).
Local Notation root := (Minimax.root pos).
Local Notation val := (Minimax.val pos succs noisy_succs noisy_any static terminal qmeasure).
Local Notation ext := (Minimax.ext pos succs).
Local Notation nomtree := (Minimax.nomtree pos succs).
Local Notation Leaf := (Minimax.Leaf pos).
Local Notation Node := (Minimax.Node pos).

(* induction over trees with the hypothesis for all children *)
Section TreeInd.
Variable P : tree -> Prop.
Hypothesis HL : forall p, P (Leaf p).
Hypothesis HN : forall p ts, Forall P ts -> P (Node p ts).
Fixpoint tree_ind2 (t : tree) : P t :=
  match t with
  | Minimax.Leaf _ p => HL p
  | Minimax.Node _ p ts =>
      HN p ts ((fix go (l : list tree) : Forall P l :=
                  match l with [] => Forall_nil P | c :: l' => Forall_cons c (tree_ind2 c) (go l') end) ts)
  end.
End TreeInd.

Lemma val_leaf p : val (Leaf p) = nm 0 p.
Proof. reflexivity. Qed.

Lemma val_node_nil p : val (Node p []) = terminal p.
Proof. reflexivity. Qed.

Lemma val_node_cons p c r : val (Node p (c :: r)) = Minimax.maxneg tree val r (- val c).
Proof.
  cbn [Minimax.val]. generalize (- val c). induction r as [|t r IH]; intros acc; cbn [Minimax.maxneg]; [reflexivity|].
  apply IH.
Qed.

Lemma val_node_le p ts u : ts <> [] -> (forall t, In t ts -> - val t <= u) -> val (Node p ts) <= u.
Proof.
  intros Hne H. destruct ts as [|c r]; [contradiction|]. rewrite val_node_cons.
  apply maxneg_le; [apply H; now left|]. intros t Ht. apply H. now right.
Qed.

Lemma val_node_ge p ts t : In t ts -> - val t <= val (Node p ts).
Proof.
  intros Hin. destruct ts as [|c r]; [destruct Hin|]. rewrite val_node_cons.
  destruct Hin as [->|Hin]; [apply maxneg_ge|now apply maxneg_ge_in].
Qed.

Lemma ext_mono : forall t r r', (r <= r')%nat -> ext r' t -> ext r t.
Proof.
  induction t as [p|p ts IH] using tree_ind2; intros r r' Hle He.
  - inversion He as [p0|r0 p0 Hs|]; subst.
    + assert (r = 0%nat) as -> by lia. constructor.
    + now apply Minimax.ext_term.
  - inversion He as [| |r0 p0 ts0 Hne HP HF]; subst. apply Minimax.ext_node; [exact Hne|exact HP|].
    rewrite Forall_forall in *. intros t Ht. apply (IH t Ht (pred r) (pred r')); [lia|]. now apply HF.
Qed.

Lemma nomtree_root r p : root (nomtree r p) = p.
Proof. destruct r; cbn [Minimax.nomtree]; [reflexivity|]. destruct (succs p); reflexivity. Qed.

Lemma nomtree_ext : forall r p, ext r (nomtree r p).
Proof.
  induction r as [|k IH]; intros p; cbn [Minimax.nomtree]; [constructor|].
  destruct (succs p) as [|c l] eqn:E; [now apply Minimax.ext_term|]. rewrite <- E.
  apply Minimax.ext_node.
  - rewrite E. discriminate.
  - rewrite map_map. rewrite (map_ext _ (fun q => q)) by (intros q; apply nomtree_root). now rewrite map_id.
  - cbn [pred]. rewrite Forall_forall. intros t Ht. apply in_map_iff in Ht. destruct Ht as (q & <- & _). apply IH.
Qed.

Lemma maxneg_map (g : pos -> tree) l acc :
  Minimax.maxneg tree val (map g l) acc = Minimax.maxneg pos (fun q => val (g q)) l acc.
Proof. revert acc; induction l as [|c r IH]; intros acc; cbn [map Minimax.maxneg]; [reflexivity|apply IH]. Qed.

Lemma nomtree_val : forall r p, val (nomtree r p) = nm r p.
Proof.
  induction r as [|k IH]; intros p; cbn [Minimax.nomtree]; [reflexivity|].
  destruct (succs p) as [|c l] eqn:E.
  - rewrite val_leaf. rewrite !(MinimaxProofs.nm_nomoves pos succs) by exact E. reflexivity.
  - cbn [map]. rewrite val_node_cons, maxneg_map. rewrite (MinimaxProofs.nm_S pos succs _ _ _ _ _ k p c l E).
    rewrite IH. apply maxneg_ext. intros q _. apply IH.
Qed.

(* ---- a side condition on all positions of a tree (used for the mate band: full-move numbers in range) ---- *)
Variable good : pos -> Prop.
Local Notation allpos := (Minimax.allpos pos good).

Lemma allpos_leaf p : allpos (Leaf p) <-> good p.
Proof. reflexivity. Qed.

Lemma allpos_node p ts : allpos (Node p ts) <-> good p /\ Forall allpos ts.
Proof.
  cbn [Minimax.allpos]. split; intros [H1 H2]; (split; [exact H1|]).
  - induction ts as [|c l IH]; [constructor|]. destruct H2 as [H2 H3]. constructor; [exact H2|now apply IH].
  - induction ts as [|c l IH]; [exact I|]. inversion H2; subst. split; [assumption|now apply IH].
Qed.

Lemma allpos_root t : allpos t -> good (root t).
Proof. destruct t as [p|p ts]; [now rewrite allpos_leaf|rewrite allpos_node; now intros [H _]]. Qed.

Lemma allpos_nomtree_root d p : allpos (nomtree d p) -> good p.
Proof. intros H. apply allpos_root in H. now rewrite nomtree_root in H. Qed.

Lemma allpos_nomtree_S k p q : allpos (nomtree (S k) p) -> In q (succs p) -> allpos (nomtree k q).
Proof.
  cbn [Minimax.nomtree]. intros H Hq. destruct (succs p) as [|c l] eqn:E; [destruct Hq|].
  rewrite <- E in H. rewrite allpos_node in H. destruct H as [_ H]. rewrite Forall_forall in H.
  apply H. apply in_map. now rewrite E.
Qed.

(* admissible values *)
Definition xadm (r : nat) (p : pos) (x : Z) : Prop := exists t, root t = p /\ ext r t /\ allpos t /\ val t = x.

Lemma xadm_nominal r p : allpos (nomtree r p) -> xadm r p (nm r p).
Proof.
  intros H. exists (nomtree r p). split; [apply nomtree_root|]. split; [apply nomtree_ext|].
  split; [exact H|apply nomtree_val].
Qed.

Lemma xadm_term r p : good p -> succs p = [] -> xadm r p (terminal p).
Proof.
  intros Hg H. exists (Leaf p). split; [reflexivity|]. split; [now apply Minimax.ext_term|]. split; [exact Hg|].
  rewrite val_leaf. now apply (MinimaxProofs.nm_nomoves pos succs).
Qed.

Lemma xadm_leaf p : good p -> xadm 0 p (nm 0 p).
Proof. intros Hg. exists (Leaf p). split; [reflexivity|]. split; [constructor|]. split; [exact Hg|reflexivity]. Qed.

Lemma xadm_hit d r p x : (d <= r)%nat -> xadm r p x -> xadm d p x.
Proof.
  intros Hle (t & H1 & H2 & H3 & H4). exists t. split; [exact H1|]. split; [now apply (ext_mono t d r)|].
  split; [exact H3|exact H4].
Qed.

Lemma choose_trees k u : forall l,
  (forall q, In q l -> exists x, xadm k q x /\ - x <= u) ->
  exists ts, map root ts = l /\ Forall (ext k) ts /\ Forall allpos ts /\ (forall t, In t ts -> - val t <= u).
Proof.
  induction l as [|q l IH]; intros H.
  - exists []. split; [reflexivity|]. split; [constructor|]. split; [constructor|intros t []].
  - destruct (H q (or_introl eq_refl)) as (x & (t & R1 & R2 & R3 & R4) & Hx).
    destruct IH as (ts & T1 & T2 & T3 & T4); [intros q' Hq'; apply H; now right|].
    exists (t :: ts). split; [cbn [map]; now rewrite R1, T1|]. split; [now constructor|]. split; [now constructor|].
    intros t' [<-|Ht']; [rewrite R4; exact Hx|now apply T4].
Qed.

Lemma xadm_up k p u : good p -> succs p <> [] ->
  (forall q, In q (succs p) -> exists x, xadm k q x /\ - x <= u) -> exists y, xadm (S k) p y /\ y <= u.
Proof.
  intros Hg Hne H. destruct (choose_trees k u (succs p) H) as (ts & T1 & T2 & T3 & T4).
  exists (val (Node p ts)). split.
  - exists (Node p ts). split; [reflexivity|]. split; [|split; [|reflexivity]].
    + apply Minimax.ext_node; [exact Hne|now rewrite T1|exact T2].
    + rewrite allpos_node. split; [exact Hg|exact T3].
  - apply val_node_le; [|exact T4]. intros ->. cbn [map] in T1. now apply Hne.
Qed.

Lemma xadm_lo k p q x : allpos (nomtree (S k) p) -> In q (succs p) -> xadm k q x -> exists y, xadm (S k) p y /\ - x <= y.
Proof.
  intros Hg Hq (t & R1 & R2 & R3 & R4). destruct (in_split q (succs p) Hq) as (l1 & l2 & E).
  set (ts := map (nomtree k) l1 ++ t :: map (nomtree k) l2).
  assert (Hroots : map root ts = succs p).
  { unfold ts. rewrite map_app. cbn [map]. rewrite !map_map.
    rewrite !(map_ext (fun q0 => root (nomtree k q0)) (fun q0 => q0)) by (intros q0; apply nomtree_root).
    now rewrite !map_id, R1, E. }
  assert (Hsib : forall q', In q' l1 \/ In q' l2 -> In q' (succs p)).
  { intros q' Hq'. rewrite E. apply in_or_app. destruct Hq' as [H|H]; [now left|right; now right]. }
  exists (val (Node p ts)). split.
  - exists (Node p ts). split; [reflexivity|]. split; [|split; [|reflexivity]].
    + apply Minimax.ext_node; [rewrite E; now destruct l1|now rewrite Hroots|].
      cbn [pred]. unfold ts. apply Forall_app. split; [|constructor; [exact R2|]];
        rewrite Forall_forall; intros t' Ht'; apply in_map_iff in Ht'; destruct Ht' as (q' & <- & _); apply nomtree_ext.
    + rewrite allpos_node. split; [now apply (allpos_nomtree_root (S k))|].
      unfold ts. apply Forall_app. split; [|constructor; [exact R3|]];
        rewrite Forall_forall; intros t' Ht'; apply in_map_iff in Ht'; destruct Ht' as (q' & <- & Hq');
        apply (allpos_nomtree_S k p q' Hg); apply Hsib; [now left|now right].
  - rewrite <- R4. apply val_node_ge. unfold ts. apply in_or_app. right. now left.
Qed.

End Trees.

(* ================================================================== *)
(* A. extension-tree soundness of the table-using search                *)
Section InstTrees.
Variable pos : Type.
Variable succs : pos -> list pos.
Variable noisy_succs : pos -> list pos.
Variable noisy_any : pos -> bool.
Variable static : pos -> Z.
Variable terminal : pos -> Z.
Variable qmeasure : pos -> nat.
Variable W : Z.
Hypothesis Hdec : Minimax.qmeasure_dec pos noisy_succs qmeasure.
Variable order_q : pos -> list pos -> list pos.
Hypothesis order_q_perm : forall p l, Permutation l (order_q p l).
Variable order : list pos -> pos -> list pos -> list pos.
Hypothesis order_perm : forall path p l, Permutation l (order path p l).
Variable rep : list pos -> pos -> option Z.
Variable root_empty : pos -> bool.
Hypothesis no_rep : forall path p, rep path p = None.
Variable table : Type.
Variable tt_get : table -> N -> option (entry pos).
Variable tt_put : table -> N -> entry pos -> table.
Variable key : pos -> N.
Variable M : Z.
Hypothesis tt_put_spec : forall t k e k' e',
  tt_get (tt_put t k e) k' = Some e' -> (k' = k /\ e' = e) \/ tt_get t k' = Some e'.
(* the positions the search may visit: closed under legal moves *)
Variable vis : pos -> Prop.
Hypothesis vis_succ : forall p q, vis p -> In q (succs p) -> vis q.
(* an arbitrary side condition carried by all witness trees (fun _ => True is allowed) *)
Variable good : pos -> Prop.
(* no harmful key collision among them: see AlphaBetaTT.entry_key; follows from an injective key
   (AlphaBetaTT.key_inj_entry_key) *)
Hypothesis ext_key : forall e p p', vis p -> vis p' -> key p = key p' ->
  SearchCore.is_mate_score W M (e_value pos e) = false ->
  AlphaBetaTT.entry_ok pos (xadm pos succs noisy_succs noisy_any static terminal qmeasure good) e p ->
  AlphaBetaTT.entry_ok pos (xadm pos succs noisy_succs noisy_any static terminal qmeasure good) e p'.

Local Notation tree := (Minimax.tree pos).
Local Notation root := (Minimax.root pos).
Local Notation val := (Minimax.val pos succs noisy_succs noisy_any static terminal qmeasure).
Local Notation ext := (Minimax.ext pos succs).
Local Notation allpos := (Minimax.allpos pos good).
Local Notation nomtree := (Minimax.nomtree pos succs).
Local Notation xadm := (xadm pos succs noisy_succs noisy_any static terminal qmeasure good).
Local Notation negamax_tt :=
  (SearchCore.negamax_tt pos succs noisy_succs noisy_any static terminal W qmeasure order_q order rep root_empty
                         table tt_get tt_put key M).

(* every entry bounds the value of SOME extension tree of at least its depth; Exact: one tree from each side *)
Definition tt_valid_ext : table -> Prop := AlphaBetaTT.tt_valid pos table tt_get key xadm vis.

Definition xnode (d : nat) (p : pos) : Prop := vis p /\ allpos (nomtree d p).

Theorem negamax_tt_sound : forall d path p a b tt,
  - W <= a -> a < b -> b <= W -> vis p -> allpos (nomtree d p) ->
  AlphaBeta.root_ok pos root_empty path p -> tt_valid_ext tt ->
  let R := negamax_tt d path p a b tt in
  let v := fst (fst R) in
  (a < v -> exists t, root t = p /\ ext d t /\ allpos t /\ v <= val t) /\
  (v < b -> exists t, root t = p /\ ext d t /\ allpos t /\ val t <= v) /\
  tt_valid_ext (snd R).
Proof.
  intros d path p a b tt Hlo Hab Hhi Hvis Hgood Hroot Hval. cbv zeta.
  destruct (AlphaBetaTT.negamax_tt_generic pos succs noisy_succs noisy_any static terminal qmeasure W Hdec
              order_q order_q_perm order order_perm rep root_empty no_rep table tt_get tt_put key M tt_put_spec
              xadm xnode vis) with (d := d) (path := path) (p := p) (a0 := a) (b0 := b) (tt := tt)
    as [[X1 X2] Hval']; try assumption.
  - intros d0 q [Hq _]; exact Hq.
  - intros k q q' [Hq Hg] Hin. split; [exact (vis_succ q q' Hq Hin)|].
    exact (allpos_nomtree_S pos succs good k q q' Hg Hin).
  - intros d0 q [_ Hg] Hs. apply xadm_term; [|exact Hs]. exact (allpos_nomtree_root pos succs good d0 q Hg).
  - intros q [_ Hg]. apply xadm_leaf. exact (allpos_nomtree_root pos succs good 0 q Hg).
  - intros k q u [_ Hg] Hne H. apply xadm_up; [|exact Hne|exact H]. exact (allpos_nomtree_root pos succs good (S k) q Hg).
  - intros k q q' x [_ Hg] Hin Hx.
    now apply (xadm_lo pos succs noisy_succs noisy_any static terminal qmeasure good k q q' x).
  - intros d0 r q x _ Hle Hx. now apply (xadm_hit pos succs noisy_succs noisy_any static terminal qmeasure good d0 r).
  - split; assumption.
  - split; [|split; [|exact Hval']].
    + intros H. destruct (X1 H) as (x & (t & T1 & T2 & T3 & T4) & Hx). exists t. rewrite T4. auto.
    + intros H. destruct (X2 H) as (x & (t & T1 & T2 & T3 & T4) & Hx). exists t. rewrite T4. auto.
Qed.

(* if all (good) extension trees of p of depth >= d agree on the value x (forced mates: Proofs/MateProofs.v), the
   result obeys the fail-soft contract w.r.t. x *)
Corollary negamax_tt_determined : forall d path p a b tt x,
  - W <= a -> a < b -> b <= W -> vis p -> allpos (nomtree d p) ->
  AlphaBeta.root_ok pos root_empty path p -> tt_valid_ext tt ->
  (forall t, root t = p -> ext d t -> allpos t -> val t = x) ->
  ok (fst (fst (negamax_tt d path p a b tt))) x a b.
Proof.
  intros d path p a b tt x Hlo Hab Hhi Hvis Hgood Hroot Hval Hdet.
  destruct (negamax_tt_sound d path p a b tt Hlo Hab Hhi Hvis Hgood Hroot Hval) as (X1 & X2 & _). cbv zeta in X1, X2.
  remember (fst (fst (negamax_tt d path p a b tt))) as v eqn:Ev. clear Ev.
  unfold ok. split; [|split].
  - intros [H1 H2]. destruct (X1 H1) as (t1 & A1 & A2 & A3 & A4). destruct (X2 H2) as (t2 & B1 & B2 & B3 & B4).
    rewrite (Hdet t1 A1 A2 A3) in A4. rewrite (Hdet t2 B1 B2 B3) in B4. lia.
  - intros H. destruct X2 as (t2 & B1 & B2 & B3 & B4); [lia|]. rewrite (Hdet t2 B1 B2 B3) in B4. exact B4.
  - intros H. destruct X1 as (t1 & A1 & A2 & A3 & A4); [lia|]. rewrite (Hdet t1 A1 A2 A3) in A4. lia.
Qed.

End InstTrees.

(* ================================================================== *)
(* B. ply_unique: the table cannot change the value                     *)
Section InstNominal.
Variable pos : Type.
Variable succs : pos -> list pos.
Variable noisy_succs : pos -> list pos.
Variable noisy_any : pos -> bool.
Variable static : pos -> Z.
Variable terminal : pos -> Z.
Variable qmeasure : pos -> nat.
Variable W : Z.
Hypothesis Hdec : Minimax.qmeasure_dec pos noisy_succs qmeasure.
Variable order_q : pos -> list pos -> list pos.
Hypothesis order_q_perm : forall p l, Permutation l (order_q p l).
Variable rep : list pos -> pos -> option Z.
Variable root_empty : pos -> bool.
Hypothesis no_rep : forall path p, rep path p = None.
Variable table : Type.
Variable tt_get : table -> N -> option (entry pos).
Variable tt_put : table -> N -> entry pos -> table.
Variable key : pos -> N.
Variable M : Z.
Hypothesis tt_put_spec : forall t k e k' e',
  tt_get (tt_put t k e) k' = Some e' -> (k' = k /\ e' = e) \/ tt_get t k' = Some e'.
Hypothesis static_bound : forall p, - W < static p < W.
Variable inb : nat -> pos -> Prop.              (* see Proofs/AlphaBeta.v *)
Hypothesis inb_step : forall k p q, inb (S k) p -> In q (succs p) -> inb k q.
Hypothesis terminal_bound : forall d p, inb d p -> succs p = [] -> - W < terminal p < W.

Variable root0 : pos.

Local Notation nm := (Minimax.nm pos succs noisy_succs noisy_any static terminal qmeasure).

(* positions with the same key at the same ply are similar for the remaining depth, and positions similar for
   depth r' have the same values up to depth r' *)
Variable sim : nat -> pos -> pos -> Prop.
Hypothesis sim_nm : forall r' r x y, sim r' x y -> (r <= r')%nat -> nm r x = nm r y.
Hypothesis sim_le : forall r r' x y, (r <= r')%nat -> sim r' x y -> sim r x y.

Local Notation at_ply := (Minimax.at_ply pos succs root0).
Local Notation ply_unique := (fun D => Minimax.ply_unique pos succs key sim D root0).

(* D = depth of the current iteration.  x is admissible for (p, r) when it is THE value nm r p and r does not exceed
   the draft with which p is searched in this iteration *)
Definition nadm (D : nat) (r : nat) (p : pos) (x : Z) : Prop :=
  x = nm r p /\ exists i, at_ply i p /\ (i + r <= D)%nat.
Definition nnode (D : nat) (d : nat) (p : pos) : Prop := exists i, at_ply i p /\ (i + d = D)%nat.
Definition nvis (D : nat) (p : pos) : Prop := exists i, at_ply i p /\ (i <= D)%nat.

(* every entry found for a position at ply i is a correct bound on nm (its depth), and its depth is at most D - i *)
Definition tt_valid_nom (D : nat) : table -> Prop := AlphaBetaTT.tt_valid pos table tt_get key (nadm D) (nvis D).

Lemma ply_unique_le D D' : (D <= D')%nat -> ply_unique D' -> ply_unique D.
Proof.
  intros Hle H i j x y Hi Hj Hx Hy Hk. destruct (H i j x y ltac:(lia) ltac:(lia) Hx Hy Hk) as [E S].
  split; [exact E|]. apply (sim_le (D - i) (D' - i)); [lia|exact S].
Qed.

Lemma tt_valid_nom_empty D tt : (forall k, tt_get tt k = None) -> tt_valid_nom D tt.
Proof. intros H. split; [intros p e _ E|intros k e E]; rewrite H in E; discriminate. Qed.

Lemma nadm_le D D' r p x : (D <= D')%nat -> nadm D r p x -> nadm D' r p x.
Proof. intros Hle [H1 (i & H2 & H3)]. split; [exact H1|]. exists i. split; [exact H2|lia]. Qed.

Lemma nadm_sim D i r p p' x : ply_unique D -> at_ply i p -> (i <= D)%nat -> nvis D p' -> key p = key p' ->
  nadm D r p x -> nadm D r p' x.
Proof.
  intros HU Hi HiD (j & Hj & HjD) Hk [Hx (i0 & Hi0 & Hi0r)].
  destruct (HU i j p p' HiD HjD Hi Hj Hk) as [<- Hs].
  destruct (HU i0 i p p ltac:(lia) HiD Hi0 Hi eq_refl) as [-> _].
  split; [rewrite Hx; apply (sim_nm (D - i)); [exact Hs|lia]|]. exists i. split; [exact Hj|exact Hi0r].
Qed.

Lemma nom_entry_sim D e p p' : ply_unique D -> nvis D p -> nvis D p' -> key p = key p' ->
  AlphaBetaTT.entry_ok pos (nadm D) e p -> AlphaBetaTT.entry_ok pos (nadm D) e p'.
Proof.
  intros HU (i & Hi & HiD) Hp' Hk He. unfold AlphaBetaTT.entry_ok in *.
  assert (T : forall r x, nadm D r p x -> nadm D r p' x) by (intros r x; now apply (nadm_sim D i r p p' x)).
  destruct (e_type pos e).
  - destruct He as [(x1 & A1 & L1) (x2 & A2 & L2)]. split; [exists x1|exists x2]; (split; [now apply T|assumption]).
  - destruct He as (x & A & L). exists x. split; [now apply T|exact L].
  - destruct He as (x & A & L). exists x. split; [now apply T|exact L].
Qed.

Lemma entry_ok_le D D' e p : (D <= D')%nat ->
  AlphaBetaTT.entry_ok pos (nadm D) e p -> AlphaBetaTT.entry_ok pos (nadm D') e p.
Proof.
  intros Hle He. unfold AlphaBetaTT.entry_ok in *. destruct (e_type pos e).
  - destruct He as [(x1 & A1 & L1) (x2 & A2 & L2)].
    split; [exists x1|exists x2]; (split; [now apply (nadm_le D D')|assumption]).
  - destruct He as (x & A & L). exists x. split; [now apply (nadm_le D D')|exact L].
  - destruct He as (x & A & L). exists x. split; [now apply (nadm_le D D')|exact L].
Qed.

Lemma tt_valid_nom_le D D' tt : (D <= D')%nat -> ply_unique D' -> tt_valid_nom D tt -> tt_valid_nom D' tt.
Proof.
  intros Hle HU [V1 V2]. split.
  - intros p e Hp Hget. destruct (V2 _ _ Hget) as (p' & (j & Hj & Hj') & Hk).
    assert (Hp'D : nvis D p') by (exists j; split; assumption).
    assert (Hp'D' : nvis D' p') by (exists j; split; [exact Hj|lia]).
    apply (nom_entry_sim D' e p' p HU Hp'D' Hp Hk). apply (entry_ok_le D D'); [exact Hle|].
    apply V1; [exact Hp'D|]. now rewrite Hk.
  - intros k e Hget. destruct (V2 _ _ Hget) as (p' & (j & Hj & Hj') & Hk).
    exists p'. split; [exists j; split; [exact Hj|lia]|exact Hk].
Qed.

Section OneSearch.
Variable order : list pos -> pos -> list pos -> list pos.
Hypothesis order_perm : forall path p l, Permutation l (order path p l).
Variable D : nat.
Hypothesis HU : ply_unique D.

Local Notation negamax_tt :=
  (SearchCore.negamax_tt pos succs noisy_succs noisy_any static terminal W qmeasure order_q order rep root_empty
                         table tt_get tt_put key M).

Local Notation generic := (AlphaBetaTT.negamax_tt_generic pos succs noisy_succs noisy_any static terminal qmeasure W Hdec
              order_q order_q_perm order order_perm rep root_empty no_rep table tt_get tt_put key M tt_put_spec
              (nadm D) (nnode D) (nvis D)).

Lemma nom_node_vis : forall d p, nnode D d p -> nvis D p.
Proof. intros d p (i & H1 & H2). exists i. split; [exact H1|lia]. Qed.
Lemma nom_entry_key : forall e p p', nvis D p -> nvis D p' -> key p = key p' ->
  SearchCore.is_mate_score W M (e_value pos e) = false ->
  AlphaBetaTT.entry_ok pos (nadm D) e p -> AlphaBetaTT.entry_ok pos (nadm D) e p'.
Proof. intros e p p' Hp Hp' Hk _. now apply nom_entry_sim. Qed.
Lemma nom_node_step : forall k p q, nnode D (S k) p -> In q (succs p) -> nnode D k q.
Proof. intros k p q (i & H1 & H2) Hq. exists (S i). split; [now apply (Minimax.at_ply_S pos succs root0 i p q)|lia]. Qed.
Lemma nom_adm_term : forall d p, nnode D d p -> succs p = [] -> nadm D d p (terminal p).
Proof.
  intros d p (i & H1 & H2) Hs. split; [now rewrite (MinimaxProofs.nm_nomoves pos succs)|].
  exists i. split; [exact H1|lia].
Qed.
Lemma nom_adm_leaf : forall p, nnode D 0 p -> nadm D 0 p (nm 0 p).
Proof. intros p (i & H1 & H2). split; [reflexivity|]. exists i. split; [exact H1|lia]. Qed.
Lemma nom_adm_up : forall k p u, nnode D (S k) p -> succs p <> [] ->
  (forall q, In q (succs p) -> exists x, nadm D k q x /\ - x <= u) -> exists y, nadm D (S k) p y /\ y <= u.
Proof.
  intros k p u (i & H1 & H2) Hne H. exists (nm (S k) p). split; [split; [reflexivity|exists i; split; [exact H1|lia]]|].
  apply (MinimaxProofs.nm_S_le pos succs); [exact Hne|]. intros q Hq.
  destruct (H q Hq) as (x & [-> _] & Hx). exact Hx.
Qed.
Lemma nom_adm_lo : forall k p q x, nnode D (S k) p -> In q (succs p) -> nadm D k q x ->
  exists y, nadm D (S k) p y /\ - x <= y.
Proof.
  intros k p q x (i & H1 & H2) Hq [-> _]. exists (nm (S k) p).
  split; [split; [reflexivity|exists i; split; [exact H1|lia]]|]. now apply (MinimaxProofs.nm_S_ge pos succs).
Qed.
Lemma nom_adm_hit : forall d r p x, nnode D d p -> (d <= r)%nat -> nadm D r p x -> nadm D d p x.
Proof.
  intros d r p x (i & H1 & H2) Hle [Hx (j & H3 & H4)].
  destruct (HU i j p p) as [-> _]; [lia|lia|exact H1|exact H3|reflexivity|].
  assert (r = d) as -> by lia. split; [exact Hx|]. exists j. split; [exact H3|lia].
Qed.

Lemma okx_nom_ok d p v a b : a < b -> AlphaBetaTT.okx pos (nadm D) d p v a b -> ok v (nm d p) a b.
Proof.
  intros Hab [X1 X2]. unfold ok. split; [|split].
  - intros [H1 H2]. destruct (X1 H1) as (x1 & [-> _] & L1). destruct (X2 H2) as (x2 & [-> _] & L2). lia.
  - intros H. destruct X2 as (x2 & [-> _] & L2); [lia|exact L2].
  - intros H. destruct X1 as (x1 & [-> _] & L1); [lia|lia].
Qed.

(* C08_same_depth: the result of the table-using search obeys the plain fail-soft contract w.r.t. nm d p *)
Theorem negamax_tt_same_depth : forall d path p a b tt i,
  - W <= a -> a < b -> b <= W -> at_ply i p -> (i + d = D)%nat ->
  AlphaBeta.root_ok pos root_empty path p -> tt_valid_nom D tt ->
  let R := negamax_tt d path p a b tt in
  ok (fst (fst R)) (nm d p) a b /\ tt_valid_nom D (snd R).
Proof.
  intros d path p a b tt i Hlo Hab Hhi Hat Hid Hroot Hval. cbv zeta.
  destruct (generic nom_node_vis nom_node_step nom_adm_term nom_adm_leaf nom_adm_up nom_adm_lo nom_adm_hit nom_entry_key
              d path p a b tt) as [HX Hval']; try assumption.
  - exists i. split; assumption.
  - split; [now apply okx_nom_ok|exact Hval'].
Qed.

Lemma nm_bound' d p : inb d p -> - W < nm d p < W.
Proof.
  exact (AlphaBeta.nm_bound pos succs noisy_succs noisy_any static terminal qmeasure W static_bound inb inb_step
           terminal_bound d p).
Qed.

(* no entry stored by shallower iterations is usable at the root of iteration D *)
Lemma probe_miss_root D' tt a b : (D' < D)%nat -> tt_valid_nom D' tt ->
  SearchCore.probe pos table tt_get key tt D root0 a b = inr (a, b).
Proof.
  intros Hlt [V1 _]. unfold SearchCore.probe. destruct (tt_get tt (key root0)) as [e|] eqn:E; [|reflexivity].
  assert (Hv : nvis D' root0) by (exists 0%nat; split; [constructor|lia]).
  pose proof (V1 root0 e Hv E) as He.
  assert (Hdepth : (e_depth pos e <= D')%nat).
  { assert (Hany : exists x, nadm D' (e_depth pos e) root0 x).
    { unfold AlphaBetaTT.entry_ok in He. destruct (e_type pos e).
      - destruct He as [(x & A & _) _]. now exists x.
      - destruct He as (x & A & _). now exists x.
      - destruct He as (x & A & _). now exists x. }
    destruct Hany as (x & _ & (j & _ & Hj)). lia. }
  destruct (Nat.leb_spec D (e_depth pos e)) as [H|H]; [lia|reflexivity].
Qed.

(* the root call of one iteration: exact value, and the announced move attains it *)
Theorem root_tt_exact : forall tt D', (D' < D)%nat -> tt_valid_nom D' tt -> root_empty root0 = false -> inb D root0 ->
  let R := negamax_tt D [] root0 (- W) W tt in
  fst (fst R) = nm D root0 /\ tt_valid_nom D (snd R) /\
  (succs root0 <> [] -> exists q rest k, D = S k /\ snd (fst R) = q :: rest /\ In q (succs root0) /\ - nm k q = nm D root0).
Proof.
  intros tt D' Hlt Hval' Hre Hinb. cbv zeta.
  assert (Hval : tt_valid_nom D tt) by (apply (tt_valid_nom_le D' D); [lia|exact HU|exact Hval']).
  pose proof (nm_bound' D root0 Hinb) as HB.
  assert (Hroot : AlphaBeta.root_ok pos root_empty [] root0) by (intros _; exact Hre).
  destruct (negamax_tt_same_depth D [] root0 (- W) W tt 0%nat) as [(O1 & O2 & O3) HV]; try assumption; try lia.
  { constructor. }
  assert (Ev : fst (fst (negamax_tt D [] root0 (- W) W tt)) = nm D root0).
  { remember (fst (fst (negamax_tt D [] root0 (- W) W tt))) as v eqn:E. clear E.
    destruct (Z.le_gt_cases v (- W)) as [H|H]; [specialize (O2 H); lia|].
    destruct (Z.le_gt_cases W v) as [H'|H']; [assert (H'' : v >= W) by lia; specialize (O3 H''); lia|].
    apply O1. lia. }
  split; [exact Ev|]. split; [exact HV|]. intros Hne.
  assert (ED : S (pred D) = D) by lia.
  pose proof (AlphaBetaTT.negamax_tt_best_move pos succs noisy_succs noisy_any static terminal qmeasure W Hdec
              order_q order_q_perm order order_perm rep root_empty no_rep table tt_get tt_put key M tt_put_spec
              (nadm D) (nnode D) (nvis D) nom_node_vis nom_node_step nom_adm_term nom_adm_leaf
              nom_adm_up nom_adm_lo nom_adm_hit nom_entry_key (pred D) [] root0 (- W) W tt) as BM.
  rewrite ED in BM. cbv zeta in BM.
  destruct BM as (q & rest & x & E1 & E2 & [-> _] & E4); try assumption; try lia; try (rewrite Ev; lia).
  - exists 0%nat. split; [constructor|lia].
  - exact (probe_miss_root D' tt (- W) W Hlt Hval').
  - exists q, rest, (pred D). split; [lia|]. split; [exact E1|]. split; [exact E2|].
    rewrite Ev in E4.
    pose proof (MinimaxProofs.nm_S_ge pos succs noisy_succs noisy_any static terminal qmeasure (pred D) root0 q E2) as Hge.
    rewrite ED in Hge. lia.
Qed.

End OneSearch.

(* ---- iterative deepening on one table ---- *)
Variable order_it : nat -> list pos -> pos -> list pos -> list pos.
Hypothesis order_it_perm : forall d path p l, Permutation l (order_it d path p l).

Local Notation iteration :=
  (SearchCore.iteration pos succs noisy_succs noisy_any static terminal W qmeasure order_q order_it rep root_empty
                        table tt_get tt_put key M).
Local Notation deepen :=
  (SearchCore.deepen pos succs noisy_succs noisy_any static terminal W qmeasure order_q order_it rep root_empty
                     table tt_get tt_put key M).
Local Notation go_depth :=
  (SearchCore.go_depth pos succs noisy_succs noisy_any static terminal W qmeasure order_q order_it rep root_empty
                       table tt_get tt_put key M).

Theorem deepen_exact : forall n d tt, (1 <= d)%nat -> ply_unique (d + n)%nat -> tt_valid_nom (pred d) tt ->
  root_empty root0 = false -> inb (d + n)%nat root0 ->
  let R := deepen n d root0 tt in
  fst (fst R) = nm (d + n)%nat root0 /\
  (succs root0 <> [] -> exists q rest k, (d + n)%nat = S k /\ snd (fst R) = q :: rest /\ In q (succs root0) /\
                                         - nm k q = nm (d + n)%nat root0).
Proof.
  induction n as [|n IH]; intros d tt Hd HU Hval Hre Hinb; cbv zeta; cbn [SearchCore.deepen]; cbv zeta.
  - replace (d + 0)%nat with d in * by lia. unfold SearchCore.iteration.
    destruct (root_tt_exact (order_it d) (order_it_perm d) d HU tt (pred d)) as (E1 & _ & E3); try assumption; [lia|].
    split; [exact E1|exact E3].
  - replace (d + S n)%nat with (S d + n)%nat in * by lia. apply IH; [lia|exact HU| |exact Hre|exact Hinb].
    cbn [pred]. unfold SearchCore.iteration.
    assert (HUd : ply_unique d) by (apply (ply_unique_le d (S d + n)); [lia|exact HU]).
    assert (Hvd : tt_valid_nom d tt) by (apply (tt_valid_nom_le (pred d) d); [lia|exact HUd|exact Hval]).
    assert (W0 : - W < W) by (pose proof (static_bound root0); lia).
    destruct (negamax_tt_same_depth (order_it d) (order_it_perm d) d HUd d [] root0 (- W) W tt 0%nat) as [_ E2];
      try assumption; try lia.
    + constructor.
    + intros _; exact Hre.
Qed.

(* `go depth D` on a cleared table *)
Theorem go_depth_exact : forall D tt0, (1 <= D)%nat -> ply_unique D -> (forall k, tt_get tt0 k = None) ->
  root_empty root0 = false -> inb D root0 ->
  let R := go_depth D root0 tt0 in
  fst (fst R) = nm D root0 /\
  (succs root0 <> [] -> exists q rest k, D = S k /\ snd (fst R) = q :: rest /\ In q (succs root0) /\ - nm k q = nm D root0).
Proof.
  intros D tt0 HD HU Hempty Hre Hinb. cbv zeta. unfold SearchCore.go_depth.
  destruct (deepen_exact (pred D) 1 tt0) as [E1 E2]; try assumption; try lia.
  - replace (1 + pred D)%nat with D by lia. exact HU.
  - now apply tt_valid_nom_empty.
  - replace (1 + pred D)%nat with D by lia. exact Hinb.
  - replace (1 + pred D)%nat with D in * by lia. split; [exact E1|exact E2].
Qed.

End InstNominal.

(* C11: the static evaluation is colour-symmetric; terminal scores have the right sign.
   Model: Model/Heuristic.v (heuristic.rs + heuristic/simple.rs).  Nothing of the model is changed here.

   Part 1  mirror / flip_bb (vertical mirror of a bitboard = byte reversal of the u64), bit-level facts
   Part 2  flip : board -> board (mirror, swap colours, side to move, castling rights; e.p. mirrored), involution
   Part 3  the regenerated-table obligation pst_mirror_ok (+ eval_consts_ok) and the model of the const fn
           `mirror_and_flip_sign` of heuristic.rs
   Part 4  piece_square_sum as a sum over the set bits; antisymmetry under the flip
   Part 5  material and game stage are invariant
   Part 6  C11_static_antisymmetric (ongoing branch, fifty-move branch, terminal branch)
   Part 7  terminal scores: sign, band, reported score, monotonicity; the D17 range
   Part 8  the flipped board is in check iff the original is (from tables_attacks_ok: lookups = geometric attacks,
           which commute with the mirror)
   Part 9  search symmetry on the abstract game of Spec/Minimax.v (bisimulation form and involution form) *)
Require Import Ink.Lib.Str.
Require Import NArith ZArith List Bool Lia Arith Permutation.
Require Import ZifyBool.
Import ListNotations.
Require Import Ink.Lib.Bits Ink.Model.Tables Ink.Model.Board Ink.Model.Heuristic.
Require Import Ink.Spec.Attacks.
Require Ink.Spec.Minimax.
Require Import Ink.Proofs.BitFacts Ink.Proofs.AttackProofs Ink.Proofs.AbsProofs Ink.Proofs.MinimaxProofs.
Open Scope N_scope.

Arguments N.add : simpl never.
Arguments N.sub : simpl never.
Arguments N.mul : simpl never.
Arguments N.div : simpl never.
Arguments N.modulo : simpl never.
Arguments N.eqb : simpl never.
Arguments N.ltb : simpl never.
Arguments N.leb : simpl never.
Arguments Z.add : simpl never.
Arguments Z.mul : simpl never.
Arguments Z.sub : simpl never.
Arguments Z.opp : simpl never.
Arguments N.shiftl : simpl never.
Arguments N.shiftr : simpl never.
Arguments N.testbit : simpl never.
Arguments N.pow : simpl never.
Arguments N.land : simpl never.
Arguments N.lor : simpl never.
Arguments N.lxor : simpl never.

(* ================================================================== *)
(* Part 1: the vertical mirror of squares and bitboards                *)
(* ================================================================== *)

(* square s = 8 * rank_index + file  ->  8 * (7 - rank_index) + file *)
Definition mirror (s : N) : N := N.lxor s 56.

Definition byte (x i : N) : N := N.land (N.shiftr x (8 * i)) 255.

(* u64::swap_bytes: byte i (rank index i) goes to byte 7 - i *)
Definition flip_bb (x : N) : N :=
  fold_right (fun i acc => N.lor (N.shiftl (byte x i) (8 * (7 - i))) acc) 0 [0; 1; 2; 3; 4; 5; 6; 7].

Lemma mirror_involutive s : mirror (mirror s) = s.
Proof. unfold mirror. now rewrite N.lxor_assoc, N.lxor_nilpotent, N.lxor_0_r. Qed.

Lemma mirror_inj a b : mirror a = mirror b -> a = b.
Proof. intros H. rewrite <- (mirror_involutive a), H. apply mirror_involutive. Qed.

Lemma mirror_facts s : s < 64 ->
  mirror s < 64 /\ mirror s = 8 * (7 - s / 8) + s mod 8 /\ mirror s mod 8 = s mod 8 /\ mirror s / 8 = 7 - s / 8.
Proof.
  revert s. apply forall_lt64.
  assert (H : forallb (fun s => (mirror s <? 64) && (mirror s =? 8 * (7 - s / 8) + s mod 8)
                               && (mirror s mod 8 =? s mod 8) && (mirror s / 8 =? 7 - s / 8)) sq64 = true)
    by (vm_compute; reflexivity).
  rewrite forallb_forall in H. apply Forall_forall. intros s Hs. specialize (H s Hs).
  apply andb_true_iff in H as [H H4]. apply andb_true_iff in H as [H H3]. apply andb_true_iff in H as [H1 H2].
  apply N.ltb_lt in H1. apply N.eqb_eq in H2, H3, H4. auto.
Qed.

Lemma mirror_lt64 s : s < 64 -> mirror s < 64.
Proof. intros H. apply (mirror_facts s H). Qed.

Lemma ones8 : 255 = N.ones 8.
Proof. reflexivity. Qed.

Lemma testbit_255 j : N.testbit 255 j = (j <? 8).
Proof.
  rewrite ones8. destruct (N.ltb_spec j 8) as [H|H]; [now apply N.ones_spec_low|now apply N.ones_spec_high].
Qed.

Lemma byte_term_spec x i k s :
  N.testbit (N.shiftl (byte x i) k) s = (k <=? s) && (s - k <? 8) && N.testbit x (s - k + 8 * i).
Proof.
  destruct (N.leb_spec k s) as [H|H].
  - rewrite N.shiftl_spec_high by lia. unfold byte. rewrite N.land_spec, N.shiftr_spec by lia.
    rewrite testbit_255. cbn [andb]. apply andb_comm.
  - rewrite N.shiftl_spec_low by lia. reflexivity.
Qed.

Definition flip_term (x s i : N) : bool :=
  (8 * (7 - i) <=? s) && (s - 8 * (7 - i) <? 8) && N.testbit x (s - 8 * (7 - i) + 8 * i).

Lemma flip_fold_spec x s l :
  N.testbit (fold_right (fun i acc => N.lor (N.shiftl (byte x i) (8 * (7 - i))) acc) 0 l) s
  = existsb (flip_term x s) l.
Proof.
  induction l as [|i l IH]; cbn [fold_right existsb]; [apply N.bits_0|].
  rewrite N.lor_spec, IH, byte_term_spec. reflexivity.
Qed.

(* one square: only the byte 7 - s/8 contributes *)
Ltac flip_case x :=
  cbv beta; rewrite flip_fold_spec; unfold flip_term; generalize (N.testbit x);
  let g := fresh "g" in intro g; vm_compute; match goal with |- context[g ?k] => destruct (g k) end; reflexivity.

Lemma flip_bb_low x : forall s, s < 64 -> N.testbit (flip_bb x) s = N.testbit x (mirror s).
Proof.
  apply forall_lt64. unfold flip_bb, sq64.
  repeat (apply Forall_cons; [flip_case x|]). apply Forall_nil.
Qed.

Lemma flip_bb_high x s : 64 <= s -> N.testbit (flip_bb x) s = false.
Proof.
  intros H. unfold flip_bb. rewrite flip_fold_spec.
  apply not_true_is_false. intros E. apply existsb_exists in E. destruct E as (i & Hi & E).
  unfold flip_term in E. apply andb_true_iff in E as [E _]. apply andb_true_iff in E as [_ E].
  apply N.ltb_lt in E. cbn [In] in Hi.
  repeat (destruct Hi as [<-|Hi]; [lia|]). exact Hi.
Qed.

(* the bit-level meaning of the byte reversal, for every x and every s *)
Theorem flip_bb_spec x s : N.testbit (flip_bb x) s = (s <? 64) && N.testbit x (mirror s).
Proof.
  destruct (N.ltb_spec s 64) as [H|H]; [now apply flip_bb_low|now apply flip_bb_high].
Qed.

(* the form asked for *)
Theorem flip_bb_testbit x s : x < 2 ^ 64 -> s < 64 -> N.testbit (flip_bb x) s = N.testbit x (N.lxor s 56).
Proof. intros _ H. exact (flip_bb_low x s H). Qed.

Lemma flip_bb_u64 x : flip_bb x < 2 ^ 64.
Proof. apply lt_pow2_bits. intros i Hi. now apply flip_bb_high. Qed.

Lemma flip_bb_involutive x : x < 2 ^ 64 -> flip_bb (flip_bb x) = x.
Proof.
  intros Hx. apply N.bits_inj. intro s. rewrite flip_bb_spec.
  destruct (N.ltb_spec s 64) as [H|H]; cbn [andb].
  - rewrite flip_bb_low by now apply mirror_lt64. now rewrite mirror_involutive.
  - symmetry. now apply (testbit_small x 64).
Qed.

Lemma flip_bb_lor a b : flip_bb (N.lor a b) = N.lor (flip_bb a) (flip_bb b).
Proof.
  apply N.bits_inj. intro s. rewrite N.lor_spec, !flip_bb_spec, N.lor_spec. now destruct (s <? 64).
Qed.

Lemma flip_bb_land a b : flip_bb (N.land a b) = N.land (flip_bb a) (flip_bb b).
Proof.
  apply N.bits_inj. intro s. rewrite N.land_spec, !flip_bb_spec, N.land_spec.
  destruct (s <? 64); [reflexivity|]. cbn [andb]. reflexivity.
Qed.

Lemma flip_bb_0 : flip_bb 0 = 0.
Proof. reflexivity. Qed.

Lemma flip_bb_bit s : s < 64 -> flip_bb (bit s) = bit (mirror s).
Proof.
  intros Hs. apply N.bits_inj. intro t. rewrite flip_bb_spec, !bit_spec.
  destruct (N.ltb_spec t 64) as [H|H]; cbn [andb].
  - destruct (N.eqb_spec (mirror t) s) as [E|E], (N.eqb_spec t (mirror s)) as [E'|E']; try reflexivity.
    + elim E'. now rewrite <- E, mirror_involutive.
    + elim E. now rewrite E', mirror_involutive.
  - pose proof (mirror_lt64 s Hs). destruct (N.eqb_spec t (mirror s)); [lia|reflexivity].
Qed.

Lemma flip_bb_eq_0 x : x < 2 ^ 64 -> flip_bb x = 0 -> x = 0.
Proof. intros Hx H. rewrite <- (flip_bb_involutive x Hx), H. reflexivity. Qed.

Lemma nz_flip_bb x : x < 2 ^ 64 -> nz (flip_bb x) = nz x.
Proof.
  intros Hx. unfold nz. f_equal. destruct (N.eqb_spec x 0) as [->|Hne]; [reflexivity|].
  apply N.eqb_neq. intros H. apply Hne. now apply flip_bb_eq_0.
Qed.

Lemma land_u64_l a b : a < 2 ^ 64 -> N.land a b < 2 ^ 64.
Proof. intros Ha. apply (sub_lt _ a); [|exact Ha]. intros i H. rewrite N.land_spec in H. now apply andb_true_iff in H. Qed.

Lemma nz_land_flip a b : a < 2 ^ 64 -> nz (N.land (flip_bb a) (flip_bb b)) = nz (N.land a b).
Proof. intros Ha. rewrite <- flip_bb_land. apply nz_flip_bb. now apply land_u64_l. Qed.

(* ---------- the set bits of the mirrored word ---------- *)
Lemma NoDup_map_inj {A B} (f : A -> B) l : (forall a b, f a = f b -> a = b) -> NoDup l -> NoDup (map f l).
Proof.
  intros Hinj. induction 1 as [|a l Hnotin Hnd IH]; cbn [map]; constructor; [|exact IH].
  intros H. apply in_map_iff in H. destruct H as (b & E & Hb). apply Hinj in E. now subst b.
Qed.

Theorem bits_of_flip_perm x : x < 2 ^ 64 -> Permutation (bits_of (flip_bb x)) (map mirror (bits_of x)).
Proof.
  intros Hx. apply NoDup_Permutation.
  - apply NoDup_bits_of.
  - apply NoDup_map_inj; [exact mirror_inj|apply NoDup_bits_of].
  - intros j. rewrite bits_of_spec, flip_bb_spec, in_map_iff. split.
    + intros H. apply andb_true_iff in H as [H1 H2]. exists (mirror j). split; [apply mirror_involutive|].
      now apply bits_of_spec.
    + intros (s & <- & Hs). apply bits_of_spec in Hs. pose proof (testbit_lt64 x s Hx Hs) as Hlt.
      rewrite mirror_involutive, Hs. pose proof (mirror_lt64 s Hlt) as Hm. apply N.ltb_lt in Hm. now rewrite Hm.
Qed.

Theorem popcount_flip_bb x : x < 2 ^ 64 -> popcount (flip_bb x) = popcount x.
Proof.
  intros Hx. rewrite !popcount_length. f_equal.
  rewrite (Permutation_length (bits_of_flip_perm x Hx)). apply map_length.
Qed.

Lemma ctz64_flip_single x : popcount x = 1 -> x < 2 ^ 64 -> ctz64 (flip_bb x) = mirror (ctz64 x).
Proof.
  intros H1 Hx. pose proof (popcount1_ctz_lt64 x H1 Hx) as Hlt.
  rewrite (popcount1_bit x H1) at 1. rewrite flip_bb_bit by exact Hlt. apply ctz64_bit.
Qed.

(* ================================================================== *)
(* Part 2: the colour flip of a board                                  *)
(* ================================================================== *)

Definition flip_p (p : pstate) : pstate :=
  {| pawns := flip_bb (pawns p); knights := flip_bb (knights p); bishops := flip_bb (bishops p);
     rooks := flip_bb (rooks p); queens := flip_bb (queens p); kings := flip_bb (kings p);
     qs := qs p; ks := ks p |}.

(* NO_SQUARE = 0 stays 0 (the engine cannot tell "no e.p. square" from a8) *)
Definition flip_ep (e : N) : N := if e =? 0 then 0 else mirror e.

(* mirror all 12 bitboards, swap the colours (incl. castling rights), swap the side to move, mirror the e.p. square;
   both clocks unchanged *)
Definition flip (b : board) : board :=
  {| white := flip_p (black b); black := flip_p (white b); turn := opposite (turn b);
     ep := flip_ep (ep b); full := full b; half := half b |}.

Definition p_u64 (p : pstate) : Prop :=
  pawns p < 2 ^ 64 /\ knights p < 2 ^ 64 /\ bishops p < 2 ^ 64 /\ rooks p < 2 ^ 64 /\ queens p < 2 ^ 64 /\ kings p < 2 ^ 64.

(* all twelve bitboards are u64 values *)
Definition bbs_u64 (b : board) : Prop := p_u64 (white b) /\ p_u64 (black b).

Lemma flip_p_involutive p : p_u64 p -> flip_p (flip_p p) = p.
Proof.
  intros (H1 & H2 & H3 & H4 & H5 & H6). destruct p. unfold flip_p. cbn [Board.pawns Board.knights Board.bishops Board.rooks Board.queens Board.kings Board.qs Board.ks] in *.
  now rewrite !flip_bb_involutive.
Qed.

Lemma flip_p_u64 p : p_u64 (flip_p p).
Proof. unfold p_u64, flip_p. cbn. repeat split; apply flip_bb_u64. Qed.

Lemma flip_bbs_u64 b : bbs_u64 (flip b).
Proof. split; apply flip_p_u64. Qed.

Lemma flip_ep_involutive e : e <> 56 -> flip_ep (flip_ep e) = e.
Proof.
  intros He. unfold flip_ep. destruct (N.eqb_spec e 0) as [->|H0]; [reflexivity|].
  destruct (N.eqb_spec (mirror e) 0) as [E|E].
  - exfalso. apply He. rewrite <- (mirror_involutive e), E. reflexivity.
  - apply mirror_involutive.
Qed.

(* a1 (= 56) is excluded as e.p. square: its mirror image a8 = 0 is the engine's NO_SQUARE.  (No position reachable
   by a double pawn push has an e.p. square on rank 1 or 8.) *)
Theorem flip_involutive b : bbs_u64 b -> turn b < 2 -> ep b <> 56 -> flip (flip b) = b.
Proof.
  intros [Hw Hb] Ht He. destruct b as [w k t e f h]. unfold flip. cbn [Board.white Board.black Board.turn Board.ep Board.full Board.half] in *.
  rewrite (flip_p_involutive w Hw), (flip_p_involutive k Hb), (flip_ep_involutive e He).
  f_equal. unfold opposite. lia.
Qed.

Lemma wf_bbs_u64 b : wf b = true -> bbs_u64 b.
Proof.
  intros Hwf. unfold bbs_u64, p_u64.
  pose proof (fun c k => wf_bb_u64 b c k Hwf) as H.
  repeat split.
  - exact (H Rules.White Rules.Pawn). - exact (H Rules.White Rules.Knight). - exact (H Rules.White Rules.Bishop).
  - exact (H Rules.White Rules.Rook). - exact (H Rules.White Rules.Queen). - exact (H Rules.White Rules.King).
  - exact (H Rules.Black Rules.Pawn). - exact (H Rules.Black Rules.Knight). - exact (H Rules.Black Rules.Bishop).
  - exact (H Rules.Black Rules.Rook). - exact (H Rules.Black Rules.Queen). - exact (H Rules.Black Rules.King).
Qed.

(* ================================================================== *)
(* Part 3: the obligation on the (regenerated) piece-square tables     *)
(* ================================================================== *)

Definition pieces6 : list N := [0; 1; 2; 3; 4; 5].
Definition stages3 : list N := [0; 1; 2].

(* one [i32; 64] pair: black[mirror sq] = - white[sq] on all 64 squares *)
Definition row_mirror_ok (w k : list Z) : bool :=
  Nat.eqb (length w) 64 && Nat.eqb (length k) 64
  && forallb (fun sq => (nthN k (mirror sq) 0 =? - nthN w sq 0)%Z) sq64.

Definition stage_mirror_ok (w k : list (list Z)) : bool :=
  Nat.eqb (length w) 6 && Nat.eqb (length k) 6
  && forallb (fun p => row_mirror_ok (nthN w p []) (nthN k p [])) pieces6.

(* all 3 x 6 x 64 entries *)
Definition pst_mirror_ok (T : Tables.t) : bool :=
  Nat.eqb (length (pst_white T)) 3 && Nat.eqb (length (pst_black T)) 3
  && forallb (fun st => stage_mirror_ok (nthN (pst_white T) st []) (nthN (pst_black T) st [])) stages3.

(* everything C11 needs from a table set: the mirror relation and draw_score = 0 *)
Definition eval_tables_ok (T : Tables.t) : bool := pst_mirror_ok T && (draw_score T =? 0)%Z.

Lemma in_pieces6 p : p < 6 -> In p pieces6.
Proof. intros H. unfold pieces6. cbn [In]. lia. Qed.
Lemma in_stages3 st : st < 3 -> In st stages3.
Proof. intros H. unfold stages3. cbn [In]. lia. Qed.

Theorem pst_mirror_entry T st p sq : pst_mirror_ok T = true -> st < 3 -> p < 6 -> sq < 64 ->
  nthN (nthN (nthN (pst_black T) st []) p []) (mirror sq) 0%Z
  = (- nthN (nthN (nthN (pst_white T) st []) p []) sq 0)%Z.
Proof.
  intros H Hst Hp Hsq. unfold pst_mirror_ok in H. apply andb_true_iff in H as [_ H].
  rewrite forallb_forall in H. specialize (H st (in_stages3 st Hst)).
  unfold stage_mirror_ok in H. apply andb_true_iff in H as [_ H].
  rewrite forallb_forall in H. specialize (H p (in_pieces6 p Hp)).
  unfold row_mirror_ok in H. apply andb_true_iff in H as [_ H].
  rewrite forallb_forall in H. specialize (H sq (proj2 (sq64_spec sq) Hsq)). now apply Z.eqb_eq in H.
Qed.

Theorem pst_mirror_lengths T st p : pst_mirror_ok T = true -> st < 3 -> p < 6 ->
  length (pst_white T) = 3%nat /\ length (pst_black T) = 3%nat /\
  length (nthN (pst_white T) st []) = 6%nat /\ length (nthN (pst_black T) st []) = 6%nat /\
  length (nthN (nthN (pst_white T) st []) p []) = 64%nat /\ length (nthN (nthN (pst_black T) st []) p []) = 64%nat.
Proof.
  intros H Hst Hp. unfold pst_mirror_ok in H. apply andb_true_iff in H as [H0 H].
  apply andb_true_iff in H0 as [L1 L2]. apply Nat.eqb_eq in L1, L2.
  rewrite forallb_forall in H. specialize (H st (in_stages3 st Hst)).
  unfold stage_mirror_ok in H. apply andb_true_iff in H as [H0 H].
  apply andb_true_iff in H0 as [L3 L4]. apply Nat.eqb_eq in L3, L4.
  rewrite forallb_forall in H. specialize (H p (in_pieces6 p Hp)).
  unfold row_mirror_ok in H. apply andb_true_iff in H as [H0 _].
  apply andb_true_iff in H0 as [L5 L6]. apply Nat.eqb_eq in L5, L6. auto 10.
Qed.

Lemma eval_tables_ok_elim T : eval_tables_ok T = true -> pst_mirror_ok T = true /\ draw_score T = 0%Z.
Proof. unfold eval_tables_ok. intros H. apply andb_true_iff in H as [H1 H2]. apply Z.eqb_eq in H2. auto. Qed.

(* ---------- model of `const fn mirror_and_flip_sign` (heuristic.rs) ---------- *)
Fixpoint upd {A} (l : list A) (i : nat) (v : A) : list A :=
  match l, i with
  | [], _ => []
  | _ :: r, O => v :: r
  | x :: r, S j => x :: upd r j v
  end.
Definition updN {A} (l : list A) (i : N) (v : A) : list A := upd l (N.to_nat i) v.
Definition idx8 : list N := [0; 1; 2; 3; 4; 5; 6; 7].

(* mirror_inner: `result[8 * (8 - rank - 1) + file] = -table[8 * rank + file]`, rank and file from 0 to 7 *)
Definition mirror_inner (table : list Z) : list Z :=
  fold_left (fun result rank =>
      fold_left (fun result file => updN result (8 * (8 - rank - 1) + file) (- nthN table (8 * rank + file) 0)%Z)
                idx8 result)
    idx8 (repeat 0%Z 64).
(* mirror_middle / outer loop: one mirror_inner per table *)
Definition mirror_middle (t : list (list Z)) : list (list Z) := map mirror_inner t.
Definition mirror_and_flip_sign (ts : list (list (list Z))) : list (list (list Z)) := map mirror_middle ts.

(* closed form of the loop *)
Lemma mirror_inner_closed t : length t = 64%nat -> mirror_inner t = map (fun i => (- nthN t (mirror i) 0)%Z) sq64.
Proof.
  intros H.
  do 64 (destruct t as [|? t]; [discriminate H|]). destruct t; [|discriminate H].
  vm_compute. reflexivity.
Qed.

Lemma nthN_map_sq64 {A} (f : N -> A) d : forall j, j < 64 -> nthN (map f sq64) j d = f j.
Proof. apply forall_lt64. unfold sq64. repeat (apply Forall_cons; [reflexivity|]). apply Forall_nil. Qed.

Lemma row_mirror_ok_const_fn w : length w = 64%nat -> row_mirror_ok w (mirror_inner w) = true.
Proof.
  intros H. unfold row_mirror_ok. rewrite (mirror_inner_closed w H), map_length, H.
  cbn [Nat.eqb andb]. change (length sq64) with 64%nat. cbn [Nat.eqb andb].
  apply forallb_forall. intros sq Hsq. apply sq64_spec in Hsq. apply Z.eqb_eq.
  rewrite nthN_map_sq64 by now apply mirror_lt64. now rewrite mirror_involutive.
Qed.

Lemma nthN_map_default {A B} (f : A -> B) l i da db : (N.to_nat i < length l)%nat -> nthN (map f l) i db = f (nthN l i da).
Proof. intros H. unfold nthN. rewrite (nth_indep _ db (f da)) by now rewrite map_length. apply map_nth. Qed.

(* any table set whose black tables are produced by the const fn from well-shaped white tables passes the check *)
Theorem const_fn_gives_mirror_ok T :
  length (pst_white T) = 3%nat ->
  (forall st, st < 3 -> length (nthN (pst_white T) st []) = 6%nat) ->
  (forall st p, st < 3 -> p < 6 -> length (nthN (nthN (pst_white T) st []) p []) = 64%nat) ->
  pst_black T = mirror_and_flip_sign (pst_white T) ->
  pst_mirror_ok T = true.
Proof.
  intros L3 L6 L64 E. unfold pst_mirror_ok. rewrite E. unfold mirror_and_flip_sign at 1. rewrite map_length, L3.
  cbn [Nat.eqb andb]. apply forallb_forall. intros st Hst.
  assert (Hst' : st < 3) by (unfold stages3 in Hst; cbn [In] in Hst; lia).
  unfold mirror_and_flip_sign. rewrite (nthN_map_default mirror_middle (pst_white T) st [] []) by (rewrite L3; lia).
  unfold stage_mirror_ok, mirror_middle. rewrite map_length, (L6 st Hst'). cbn [Nat.eqb andb].
  apply forallb_forall. intros p Hp.
  assert (Hp' : p < 6) by (unfold pieces6 in Hp; cbn [In] in Hp; lia).
  rewrite (nthN_map_default mirror_inner (nthN (pst_white T) st []) p [] []) by (rewrite (L6 st Hst'); lia).
  apply row_mirror_ok_const_fn. now apply L64.
Qed.

(* ================================================================== *)
(* Part 4: piece_square_sum is a sum over the set bits                 *)
(* ================================================================== *)

Fixpoint zsum (l : list Z) : Z := match l with [] => 0%Z | x :: r => (x + zsum r)%Z end.

Lemma fold_sum (g : N -> Z) l : forall a, fold_left (fun sum sq => (sum + g sq)%Z) l a = (a + zsum (map g l))%Z.
Proof.
  induction l as [|x l IH]; intros a; cbn [fold_left map zsum]; [lia|]. rewrite IH. lia.
Qed.

Lemma zsum_perm l l' : Permutation l l' -> zsum l = zsum l'.
Proof. induction 1; cbn [zsum]; lia. Qed.

Lemma zsum_map_opp (g : N -> Z) l : zsum (map (fun s => (- g s)%Z) l) = (- zsum (map g l))%Z.
Proof. induction l as [|x l IH]; cbn [map zsum]; [reflexivity|]. rewrite IH. lia. Qed.

(* sum over s in bits_of occ of tbl[s] *)
Theorem piece_square_sum_as_sum occ tbl :
  piece_square_sum occ tbl = zsum (map (fun s => nthN tbl s 0%Z) (bits_of occ)).
Proof. unfold piece_square_sum. rewrite (fold_sum (fun s => nthN tbl s 0%Z)). lia. Qed.

(* one bitboard against a pair of tables related by the mirror *)
Theorem piece_square_sum_flip occ w k : occ < 2 ^ 64 ->
  (forall s, s < 64 -> nthN k (mirror s) 0%Z = (- nthN w s 0)%Z) ->
  piece_square_sum (flip_bb occ) k = (- piece_square_sum occ w)%Z.
Proof.
  intros Hocc Hrel. rewrite !piece_square_sum_as_sum.
  rewrite (zsum_perm _ _ (Permutation_map _ (bits_of_flip_perm occ Hocc))).
  rewrite map_map, <- zsum_map_opp. f_equal. apply map_ext_in. intros s Hs.
  apply Hrel. apply bits_of_spec in Hs. exact (testbit_lt64 occ s Hocc Hs).
Qed.

Lemma mirror_rel_sym (w k : list Z) :
  (forall s, s < 64 -> nthN k (mirror s) 0%Z = (- nthN w s 0)%Z) ->
  (forall s, s < 64 -> nthN w (mirror s) 0%Z = (- nthN k s 0)%Z).
Proof.
  intros H s Hs. specialize (H (mirror s) (mirror_lt64 s Hs)). rewrite mirror_involutive in H. lia.
Qed.

(* ================================================================== *)
(* Part 5: material and game stage do not change                       *)
(* ================================================================== *)

Theorem piece_value_flip T p : p_u64 p -> piece_value T (flip_p p) = piece_value T p.
Proof.
  intros (H1 & H2 & H3 & H4 & H5 & H6). unfold piece_value, flip_p.
  cbn [Board.pawns Board.knights Board.bishops Board.rooks Board.queens].
  now rewrite !popcount_flip_bb.
Qed.

Theorem game_stage_flip b : bbs_u64 b -> game_stage (flip b) = game_stage b.
Proof.
  intros [(_ & Wn & Wb & _ & Wq & _) (_ & Bn & Bb & _ & Bq & _)]. unfold game_stage, flip, flip_p.
  cbn [Board.white Board.black Board.knights Board.bishops Board.queens].
  rewrite <- !flip_bb_lor. rewrite !nz_flip_bb by assumption.
  rewrite !popcount_flip_bb by (apply lor_lt; assumption).
  destruct (nz (queens (white b))), (nz (queens (black b))),
    (popcount (N.lor (knights (white b)) (bishops (white b))) <=? 1),
    (popcount (N.lor (knights (black b)) (bishops (black b))) <=? 1); reflexivity.
Qed.

Lemma game_stage_cases b : game_stage b = 1 \/ game_stage b = 2.
Proof. unfold game_stage. cbv zeta. destruct (_ || _)%bool; [right|left]; reflexivity. Qed.

(* ================================================================== *)
(* Part 6: the static evaluation is antisymmetric                      *)
(* ================================================================== *)

Definition rows_anti (w k : list (list Z)) : Prop :=
  forall p s, p < 6 -> s < 64 -> nthN (nthN k p []) (mirror s) 0%Z = (- nthN (nthN w p []) s 0)%Z.

Lemma pss_player_flip p w k : p_u64 p -> rows_anti w k ->
  piece_square_sum_for_player (flip_p p) k = (- piece_square_sum_for_player p w)%Z.
Proof.
  intros (H1 & H2 & H3 & H4 & H5 & H6) R. unfold piece_square_sum_for_player, flip_p.
  cbn [Board.pawns Board.knights Board.bishops Board.rooks Board.queens Board.kings].
  change (PAWN - 1) with 0. change (KNIGHT - 1) with 1. change (BISHOP - 1) with 2.
  change (ROOK - 1) with 3. change (QUEEN - 1) with 4. change (KING - 1) with 5.
  rewrite (piece_square_sum_flip _ (nthN w 0 []) (nthN k 0 [])) by (try assumption; intros s Hs; apply R; lia).
  rewrite (piece_square_sum_flip _ (nthN w 1 []) (nthN k 1 [])) by (try assumption; intros s Hs; apply R; lia).
  rewrite (piece_square_sum_flip _ (nthN w 2 []) (nthN k 2 [])) by (try assumption; intros s Hs; apply R; lia).
  rewrite (piece_square_sum_flip _ (nthN w 3 []) (nthN k 3 [])) by (try assumption; intros s Hs; apply R; lia).
  rewrite (piece_square_sum_flip _ (nthN w 4 []) (nthN k 4 [])) by (try assumption; intros s Hs; apply R; lia).
  rewrite (piece_square_sum_flip _ (nthN w 5 []) (nthN k 5 [])) by (try assumption; intros s Hs; apply R; lia).
  lia.
Qed.

Lemma rows_anti_sym w k : rows_anti w k -> rows_anti k w.
Proof. intros R p s Hp Hs. apply (mirror_rel_sym (nthN w p []) (nthN k p [])); [|exact Hs]. intros s' Hs'. now apply R. Qed.

(* the piece-square part alone *)
Theorem piece_square_value_flip T b : pst_mirror_ok T = true -> bbs_u64 b ->
  piece_square_value T (flip b) = (- piece_square_value T b)%Z.
Proof.
  intros HT Hb. pose proof Hb as [Hw Hk]. unfold piece_square_value. cbv zeta. rewrite (game_stage_flip b Hb).
  assert (Hst : game_stage b < 3) by (destruct (game_stage_cases b) as [-> | ->]; lia).
  assert (R : rows_anti (nthN (pst_white T) (game_stage b) []) (nthN (pst_black T) (game_stage b) [])).
  { intros p s Hp Hs. now apply pst_mirror_entry. }
  unfold flip. cbn [Board.white Board.black].
  rewrite (pss_player_flip (black b) _ _ Hk (rows_anti_sym _ _ R)).
  rewrite (pss_player_flip (white b) _ _ Hw R). lia.
Qed.

(* ongoing branch: material + piece-square value *)
Theorem C11_static_ongoing T b : pst_mirror_ok T = true -> bbs_u64 b ->
  evaluate_ongoing T (flip b) = (- evaluate_ongoing T b)%Z.
Proof.
  intros HT Hb. unfold evaluate_ongoing. rewrite (piece_square_value_flip T b HT Hb).
  destruct Hb as [Hw Hk]. unfold flip at 1 2. cbn [Board.white Board.black].
  rewrite (piece_value_flip T _ Hw), (piece_value_flip T _ Hk). lia.
Qed.

Lemma opposite_cases t : t < 2 -> (t = 0 /\ opposite t = 1) \/ (t = 1 /\ opposite t = 0).
Proof. intros H. unfold opposite. lia. Qed.

(* the whole of Heuristic::evaluate.  The check-detection hypothesis is only needed for the terminal branch; it is
   discharged from tables_attacks_ok in Part 8 (C11_static_antisymmetric). *)
Theorem C11_static_antisymmetric_gen T b lr : pst_mirror_ok T = true -> draw_score T = 0%Z -> bbs_u64 b -> turn b < 2 ->
  (lr = false -> is_current_in_check T (flip b) = is_current_in_check T b) ->
  evaluate T (flip b) lr = (- evaluate T b lr)%Z.
Proof.
  intros HT Hd Hb Ht Hc. unfold evaluate. destruct lr.
  - change (half (flip b)) with (half b). destruct (max_half_moves T <=? half b).
    + rewrite Hd. reflexivity.
    + now apply C11_static_ongoing.
  - rewrite (Hc eq_refl). destruct (is_current_in_check T b); [|rewrite Hd; reflexivity].
    change (turn (flip b)) with (opposite (turn b)). change (full (flip b)) with (full b).
    unfold loss_score.
    destruct (opposite_cases (turn b) Ht) as [[-> ->]|[-> ->]];
      change (0 =? WHITE) with true; change (1 =? WHITE) with false; change (1 =? BLACK) with true; cbv iota; lia.
Qed.

(* ================================================================== *)
(* Part 7: terminal scores                                             *)
(* ================================================================== *)

(* search.rs `evaluate`: the value from the point of view of the side to move *)
Definition mover_value (T : Tables.t) (b : board) (lr : bool) : Z := (heuristic_factor (turn b) * evaluate T b lr)%Z.

Lemma to_i32_small n : n < 2 ^ 31 -> to_i32 n = Z.of_N n.
Proof.
  intros H. unfold to_i32. cbv zeta.
  assert (E : n mod 4294967296 = n) by (apply N.mod_small; change (2 ^ 31) with 2147483648 in H; lia).
  rewrite E. change (2 ^ 31) with 2147483648 in H.
  destruct (N.ltb_spec n 2147483648); [reflexivity|lia].
Qed.

(* mover's view and colour flip: the static evaluation from the mover's point of view is the same on both boards *)
Theorem mover_value_flip T b lr : turn b < 2 ->
  evaluate T (flip b) lr = (- evaluate T b lr)%Z -> mover_value T (flip b) lr = mover_value T b lr.
Proof.
  intros Ht E. unfold mover_value. rewrite E. change (turn (flip b)) with (opposite (turn b)).
  unfold heuristic_factor. destruct (opposite_cases (turn b) Ht) as [[-> ->]|[-> ->]]; lia.
Qed.

Section Terminal.
Variable T : Tables.t.
Hypothesis Hdraw : draw_score T = 0%Z.
Local Notation W := (win_score T).

(* the value of a position without legal moves, mover's view: full-move number minus win_score when in check
   (for BOTH colours), 0 otherwise *)
Theorem terminal_value b : turn b < 2 ->
  (is_current_in_check T b = true -> mover_value T b false = (to_i32 (full b) - W)%Z) /\
  (is_current_in_check T b = false -> mover_value T b false = 0%Z).
Proof.
  intros Ht. unfold mover_value, evaluate, heuristic_factor, loss_score.
  split; intros ->; [|rewrite Hdraw; lia].
  assert (turn b = 0 \/ turn b = 1) as [-> | ->] by lia;
    change (0 =? WHITE) with true; change (1 =? WHITE) with false; change (1 =? BLACK) with true; cbv iota; lia.
Qed.

(* C11_terminal.  Ranges (W = win_score, Wq = W quot 2 (i32 division), M = MAX_FULL_MOVES; for the current constants
   W = 2^24, W - Wq = 2^23, M = 2^20):
     full < W        : the mated side's value is negative, the mating side's positive          (sign)
     full < W - Wq   : |value| > W/2, score_from_value reports `Mate`; at the mated position itself the distance is 0,
                       from an ancestor it is negative (C11_reported_mate)
     full < M        : is_checkmate classifies the value (both signs) as a mate score
   full < 2^31 throughout (`fullmove_clock as i32` is then the number itself). *)
Theorem C11_terminal b : turn b < 2 -> full b < 2 ^ 31 -> (0 < W)%Z ->
  let v := mover_value T b false in
  (is_current_in_check T b = true ->
     v = (Z.of_N (full b) - W)%Z /\
     ((Z.of_N (full b) < W)%Z -> (v < 0)%Z /\ (0 < - v)%Z) /\
     ((Z.of_N (full b) < W - Z.quot W 2)%Z ->
        (v < - Z.quot W 2)%Z /\ (Z.quot W 2 < - v)%Z /\ score_from_value T v b = Mate 0) /\
     ((Z.of_N (full b) < max_full_moves T)%Z -> is_checkmate T v = true /\ is_checkmate T (- v) = true)) /\
  (is_current_in_check T b = false ->
     v = 0%Z /\ score_from_value T v b = Cp 0 /\
     ((0 <= max_full_moves T <= W)%Z -> is_checkmate T v = false)).
Proof.
  intros Ht Hf HW v. destruct (terminal_value b Ht) as [Hin Hout]. fold v in Hin, Hout.
  rewrite (to_i32_small _ Hf) in Hin.
  assert (Hq : (0 <= Z.quot W 2)%Z) by (apply Z.quot_pos; lia).
  split; intros Hc.
  - specialize (Hin Hc). split; [exact Hin|]. split; [|split].
    + intros H. lia.
    + intros H. split; [lia|]. split; [lia|].
      unfold score_from_value. rewrite (to_i32_small _ Hf).
      assert (E1 : (Z.quot W 2 <? Z.abs v)%Z = true) by (apply Z.ltb_lt; lia). rewrite E1.
      assert (E2 : (0 <? v)%Z = false) by (apply Z.ltb_ge; lia). rewrite E2. cbn [andb].
      f_equal. rewrite (Z.abs_neq v) by lia. rewrite Hin. lia.
    + intros H. unfold is_checkmate, loss_score. split; apply orb_true_iff; [right|left]; apply Z.ltb_lt; lia.
  - specialize (Hout Hc). split; [exact Hout|]. rewrite Hout. split.
    + unfold score_from_value. cbn [Z.abs]. assert (E : (Z.quot W 2 <? 0)%Z = false) by (apply Z.ltb_ge; lia). now rewrite E.
    + intros H. unfold is_checkmate, loss_score. apply orb_false_iff. split; apply Z.ltb_ge; lia.
Qed.

(* nearer mates are better for the mating side, later mates are better for the mated side *)
Theorem C11_mate_monotone b1 b2 : turn b1 < 2 -> turn b2 < 2 ->
  is_current_in_check T b1 = true -> is_current_in_check T b2 = true ->
  full b1 < full b2 -> full b2 < 2 ^ 31 ->
  (mover_value T b1 false < mover_value T b2 false)%Z /\            (* the mated side *)
  (- mover_value T b2 false < - mover_value T b1 false)%Z.          (* the mating side: nearer mate scores higher *)
Proof.
  intros Ht1 Ht2 Hc1 Hc2 Hlt Hf2.
  rewrite (proj1 (terminal_value b1 Ht1) Hc1), (proj1 (terminal_value b2 Ht2) Hc2).
  rewrite !to_i32_small by lia. lia.
Qed.

(* what the UCI layer reports for a mate score at a ROOT position b0 (search.rs: score_from_value(value, root board)):
   fm = full-move number of the position in which the mate is on the board *)
Theorem C11_reported_mate b0 fm : (0 < W)%Z -> full b0 < 2 ^ 31 -> (fm < W - Z.quot W 2)%Z ->
  score_from_value T (W - fm) b0 = Mate (fm - Z.of_N (full b0) + (if (turn b0 =? WHITE)%N then 1 else 0))%Z /\
  score_from_value T (- (W - fm)) b0 = Mate (- (fm - Z.of_N (full b0)))%Z.
Proof.
  intros HW Hf Hfm. assert (Hq : (0 <= Z.quot W 2)%Z) by (apply Z.quot_pos; lia).
  unfold score_from_value. rewrite (to_i32_small _ Hf). split.
  - assert (E1 : (Z.quot W 2 <? Z.abs (W - fm))%Z = true) by (apply Z.ltb_lt; lia). rewrite E1.
    assert (E2 : (0 <? W - fm)%Z = true) by (apply Z.ltb_lt; lia). rewrite E2. cbn [andb].
    f_equal. rewrite (Z.abs_eq (W - fm)) by lia. rewrite (Z.sgn_pos (W - fm)) by lia.
    destruct (turn b0 =? WHITE); lia.
  - assert (E1 : (Z.quot W 2 <? Z.abs (- (W - fm)))%Z = true) by (apply Z.ltb_lt; lia). rewrite E1.
    assert (E2 : (0 <? - (W - fm))%Z = false) by (apply Z.ltb_ge; lia). rewrite E2. cbn [andb].
    f_equal. rewrite (Z.abs_neq (- (W - fm))) by lia. rewrite (Z.sgn_neg (- (W - fm))) by lia. lia.
Qed.

(* The full-move clock of the colour-flipped game runs half a move out of step (it advances after BLACK's move):
   the mating positions below a white-to-move root b0 carry the clock fm, the corresponding positions below the
   black-to-move twin carry fm + 1 (and fm - 1 the other way round).  The `offset` of score_from_value
   compensates exactly: the REPORTED mate distance is the same.  The losing side's positions are in step. *)
Theorem C11_mate_distance_flip b0 fm : (0 < W)%Z -> turn b0 < 2 -> full b0 < 2 ^ 31 ->
  let d := (if (turn b0 =? WHITE)%N then 1 else -1)%Z in
  (fm < W - Z.quot W 2)%Z -> (fm + d < W - Z.quot W 2)%Z ->
  score_from_value T (W - (fm + d)) (flip b0) = score_from_value T (W - fm) b0 /\
  score_from_value T (- (W - fm)) (flip b0) = score_from_value T (- (W - fm)) b0.
Proof.
  intros HW Ht Hf d H1 H2.
  assert (Hf' : full (flip b0) < 2 ^ 31) by exact Hf.
  destruct (C11_reported_mate b0 fm HW Hf H1) as [-> ->].
  destruct (C11_reported_mate (flip b0) fm HW Hf' H1) as [_ ->].
  destruct (C11_reported_mate (flip b0) (fm + d) HW Hf' H2) as [-> _].
  change (full (flip b0)) with (full b0). change (turn (flip b0)) with (opposite (turn b0)).
  split; [|reflexivity]. f_equal. subst d.
  destruct (opposite_cases (turn b0) Ht) as [[-> ->]|[-> ->]];
    change (0 =? WHITE) with true; change (1 =? WHITE) with false; cbv iota; lia.
Qed.

(* ---- D17 (known finding): outside the ranges the classification is lost, then the sign ---- *)
(* full-move number >= W - Wq (2^23): a checkmate is reported as a centipawn score *)
Theorem C11_terminal_mate_as_cp b : turn b < 2 -> full b < 2 ^ 31 -> (0 < W)%Z ->
  is_current_in_check T b = true -> (W - Z.quot W 2 <= Z.of_N (full b) <= W + Z.quot W 2)%Z ->
  score_from_value T (mover_value T b false) b = Cp (Z.of_N (full b) - W).
Proof.
  intros Ht Hf HW Hc Hr. rewrite (proj1 (terminal_value b Ht) Hc).
  rewrite (to_i32_small _ Hf). unfold score_from_value.
  assert (E : (Z.quot W 2 <? Z.abs (Z.of_N (full b) - W))%Z = false) by (apply Z.ltb_ge; lia). now rewrite E.
Qed.

(* full-move number > W (2^24): the checkmated side gets a POSITIVE value *)
Theorem C11_terminal_sign_flips b : turn b < 2 -> full b < 2 ^ 31 ->
  is_current_in_check T b = true -> (W < Z.of_N (full b))%Z -> (0 < mover_value T b false)%Z.
Proof.
  intros Ht Hf Hc Hr. rewrite (proj1 (terminal_value b Ht) Hc). rewrite (to_i32_small _ Hf). lia.
Qed.

End Terminal.

(* ================================================================== *)
(* Part 8: check detection commutes with the flip                      *)
(* ================================================================== *)

(* a direction seen in the mirror: the file step stays, the rank step changes sign *)
Definition vflip (d : dir) : dir := (fst d, (- snd d)%Z).

Lemma translate_mirror sq d : sq < 64 -> translate (mirror sq) (vflip d) = option_map mirror (translate sq d).
Proof.
  intros Hsq. destruct (mirror_facts sq Hsq) as (_ & _ & Hmod & Hdiv).
  assert (Ha : sq mod 8 < 8) by (apply N.mod_upper_bound; lia).
  assert (Hq : sq / 8 < 8) by (apply N.div_lt_upper_bound; lia).
  destruct (translate sq d) as [t|] eqn:E; cbn [option_map].
  - pose proof (translate_lt64 _ _ _ E) as Ht. destruct (translate_coords _ _ _ E) as [Ef Er].
    destruct (mirror_facts t Ht) as (_ & -> & _ & _).
    assert (Ha' : t mod 8 < 8) by (apply N.mod_upper_bound; lia).
    assert (Hq' : t / 8 < 8) by (apply N.div_lt_upper_bound; lia).
    unfold translate. cbv zeta. rewrite Hmod, Hdiv. unfold vflip. cbn [fst snd].
    remember (sq mod 8) as a. remember (sq / 8) as q. remember (t mod 8) as a'. remember (t / 8) as q'.
    clear Heqa Heqq Heqa' Heqq' E Hmod Hdiv.
    destruct (_ && _)%bool eqn:C; [f_equal; lia|exfalso; lia].
  - unfold translate in E. unfold translate. cbv zeta in E. cbv zeta. rewrite Hmod, Hdiv. unfold vflip. cbn [fst snd].
    remember (sq mod 8) as a. remember (sq / 8) as q. clear Heqa Heqq Hmod Hdiv.
    destruct (((0 <=? Z.of_N a + fst d) && (Z.of_N a + fst d <? 8) && (0 <=? Z.of_N q + snd d) && (Z.of_N q + snd d <? 8))%Z) eqn:C;
      [discriminate E|].
    match goal with |- (if ?c then _ else _) = _ => destruct c eqn:C' end; [exfalso; lia|reflexivity].
Qed.

Lemma flip_bb_sqbit s : s < 64 -> flip_bb (sqbit s) = sqbit (mirror s).
Proof. exact (flip_bb_bit s). Qed.

Lemma ray_mirror n : forall sq d occ, sq < 64 ->
  ray n (mirror sq) (vflip d) (flip_bb occ) = flip_bb (ray n sq d occ).
Proof.
  induction n as [|n IH]; intros sq d occ Hsq; cbn [ray]; [reflexivity|].
  rewrite translate_mirror by exact Hsq. destruct (translate sq d) as [s|] eqn:E; cbn [option_map]; [|reflexivity].
  pose proof (translate_lt64 _ _ _ E) as Hs.
  rewrite flip_bb_low by now apply mirror_lt64. rewrite mirror_involutive.
  destruct (N.testbit occ s).
  - symmetry. now apply flip_bb_sqbit.
  - rewrite flip_bb_lor, flip_bb_sqbit, IH by exact Hs. reflexivity.
Qed.

Theorem ray_attacks_mirror dirs sq occ : sq < 64 ->
  ray_attacks (map vflip dirs) (mirror sq) (flip_bb occ) = flip_bb (ray_attacks dirs sq occ).
Proof.
  intros Hsq. unfold ray_attacks. induction dirs as [|d r IH]; cbn [map fold_right]; [reflexivity|].
  rewrite IH, ray_mirror, flip_bb_lor by exact Hsq. reflexivity.
Qed.

Theorem step_attacks_mirror dirs sq : sq < 64 ->
  step_attacks (map vflip dirs) (mirror sq) = flip_bb (step_attacks dirs sq).
Proof.
  intros Hsq. unfold step_attacks. induction dirs as [|d r IH]; cbn [map fold_right]; [reflexivity|].
  rewrite translate_mirror by exact Hsq. destruct (translate sq d) as [t|] eqn:E; cbn [option_map]; [|exact IH].
  rewrite IH, flip_bb_lor, flip_bb_sqbit by (eapply translate_lt64; exact E). reflexivity.
Qed.

(* the attack sets depend on the SET of directions only *)
Lemma ray_attacks_ext ds ds' sq occ : (forall d, In d ds <-> In d ds') -> ray_attacks ds sq occ = ray_attacks ds' sq occ.
Proof.
  intros H. apply N.bits_inj. intro t. apply eq_iff_eq_true. rewrite !ray_attacks_spec.
  split; intros (d & Hd & Hr); exists d; (split; [now apply H|exact Hr]).
Qed.

Lemma step_attacks_ext ds ds' sq : (forall d, In d ds <-> In d ds') -> step_attacks ds sq = step_attacks ds' sq.
Proof.
  intros H. apply N.bits_inj. intro t. apply eq_iff_eq_true. rewrite !step_meaning.
  split; intros (d & Hd & Hr); exists d; (split; [now apply H|exact Hr]).
Qed.

(* rook, bishop, king and knight patterns are their own mirror images; the white pawn pattern is the mirror image
   of the black one *)
Lemma vflip_ORTH d : In d (map vflip ORTH) <-> In d ORTH.
Proof. vm_compute. tauto. Qed.
Lemma vflip_DIAG d : In d (map vflip DIAG) <-> In d DIAG.
Proof. vm_compute. tauto. Qed.
Lemma vflip_KING d : In d (map vflip KING_DIRS) <-> In d KING_DIRS.
Proof. vm_compute. tauto. Qed.
Lemma vflip_KNIGHT d : In d (map vflip KNIGHT_DIRS) <-> In d KNIGHT_DIRS.
Proof. vm_compute. tauto. Qed.
Lemma vflip_WPAWN : map vflip WPAWN_DIRS = BPAWN_DIRS.
Proof. reflexivity. Qed.
Lemma vflip_BPAWN : map vflip BPAWN_DIRS = WPAWN_DIRS.
Proof. reflexivity. Qed.

Lemma ray_attacks_u64 dirs sq occ : sq < 64 -> ray_attacks dirs sq occ < 2 ^ 64.
Proof.
  intros Hsq. apply lt_pow2_bits. intros i Hi. apply not_true_is_false. intros H.
  pose proof (ray_attacks_lt64 dirs sq occ i Hsq H). lia.
Qed.

Lemma step_attacks_u64 dirs sq : step_attacks dirs sq < 2 ^ 64.
Proof.
  apply lt_pow2_bits. intros i Hi. apply not_true_is_false. intros H.
  pose proof (step_attacks_lt64 dirs sq i H). lia.
Qed.

Lemma full_occ_flip p : full_occ (flip_p p) = flip_bb (full_occ p).
Proof.
  unfold full_occ, flip_p. cbn [Board.pawns Board.knights Board.bishops Board.rooks Board.queens Board.kings].
  now rewrite !flip_bb_lor.
Qed.

Lemma kings_flip_p p : kings (flip_p p) = flip_bb (kings p).
Proof. reflexivity. Qed.

Section CheckFlip.
Variable T : Tables.t.
Hypothesis OK : tables_attacks_ok T = true.

Lemma rook_attacks_flip sq occ : sq < 64 ->
  rook_attacks T (mirror sq) (flip_bb occ) = flip_bb (rook_attacks T sq occ) /\ rook_attacks T sq occ < 2 ^ 64.
Proof.
  intros Hsq. unfold rook_attacks.
  rewrite (proj1 (generic_slider_values T OK (mirror sq) (flip_bb occ) (mirror_lt64 sq Hsq))).
  rewrite (proj1 (generic_slider_values T OK sq occ Hsq)). split; [|now apply ray_attacks_u64].
  rewrite <- ray_attacks_mirror by exact Hsq. apply ray_attacks_ext. intros d. symmetry. apply vflip_ORTH.
Qed.

Lemma bishop_attacks_flip sq occ : sq < 64 ->
  bishop_attacks T (mirror sq) (flip_bb occ) = flip_bb (bishop_attacks T sq occ) /\ bishop_attacks T sq occ < 2 ^ 64.
Proof.
  intros Hsq. unfold bishop_attacks.
  rewrite (proj2 (generic_slider_values T OK (mirror sq) (flip_bb occ) (mirror_lt64 sq Hsq))).
  rewrite (proj2 (generic_slider_values T OK sq occ Hsq)). split; [|now apply ray_attacks_u64].
  rewrite <- ray_attacks_mirror by exact Hsq. apply ray_attacks_ext. intros d. symmetry. apply vflip_DIAG.
Qed.

Lemma leapers_flip sq : sq < 64 ->
  leaper (king_tbl T) (mirror sq) = flip_bb (leaper (king_tbl T) sq) /\
  leaper (knight_tbl T) (mirror sq) = flip_bb (leaper (knight_tbl T) sq) /\
  leaper (wpawn_tbl T) (mirror sq) = flip_bb (leaper (bpawn_tbl T) sq) /\
  leaper (bpawn_tbl T) (mirror sq) = flip_bb (leaper (wpawn_tbl T) sq) /\
  leaper (king_tbl T) sq < 2 ^ 64 /\ leaper (knight_tbl T) sq < 2 ^ 64 /\
  leaper (wpawn_tbl T) sq < 2 ^ 64 /\ leaper (bpawn_tbl T) sq < 2 ^ 64.
Proof.
  intros Hsq. destruct (generic_leapers T OK sq Hsq) as (-> & -> & -> & ->).
  destruct (generic_leapers T OK (mirror sq) (mirror_lt64 sq Hsq)) as (-> & -> & -> & ->).
  rewrite <- !step_attacks_mirror by exact Hsq. rewrite vflip_WPAWN, vflip_BPAWN.
  repeat split; try apply step_attacks_u64.
  - apply step_attacks_ext. intros d. symmetry. apply vflip_KING.
  - apply step_attacks_ext. intros d. symmetry. apply vflip_KNIGHT.
Qed.

(* is the (mirrored) square attacked by the (mirrored, colour-swapped) passive side? *)
Theorem square_in_check_flip c pas sq occ : c < 2 -> sq < 64 ->
  square_in_check T (opposite c) (flip_p pas) (mirror sq) (flip_bb occ) = square_in_check T c pas sq occ.
Proof.
  intros Hc Hsq. unfold square_in_check, flip_p.
  cbn [Board.pawns Board.knights Board.bishops Board.rooks Board.queens Board.kings].
  destruct (rook_attacks_flip sq occ Hsq) as [-> Ur]. destruct (bishop_attacks_flip sq occ Hsq) as [-> Ub].
  destruct (leapers_flip sq Hsq) as (Eki & Ekn & Ewp & Ebp & Uki & Ukn & Uwp & Ubp).
  rewrite Eki, Ekn. rewrite <- !flip_bb_lor.
  rewrite !nz_land_flip by assumption.
  assert (Ep : nz (N.land (leaper (if opposite c =? WHITE then wpawn_tbl T else bpawn_tbl T) (mirror sq)) (flip_bb (pawns pas)))
             = nz (N.land (leaper (if c =? WHITE then wpawn_tbl T else bpawn_tbl T) sq) (pawns pas))).
  { destruct (opposite_cases c Hc) as [[-> ->]|[-> ->]];
      change (0 =? WHITE) with true; change (1 =? WHITE) with false; cbv iota.
    - rewrite Ebp. now apply nz_land_flip.
    - rewrite Ewp. now apply nz_land_flip. }
  rewrite Ep. reflexivity.
Qed.

Theorem in_check_by_bits_flip b c : wf b = true -> c < 2 ->
  in_check_by_bits T (flip b) (opposite c) = in_check_by_bits T b c.
Proof.
  intros Hwf Hc. pose proof (wf_bbs_u64 b Hwf) as [(_ & _ & _ & _ & _ & Kw) (_ & _ & _ & _ & _ & Kb)].
  pose proof (wf_king_count b Rules.White Hwf) as Pw. pose proof (wf_king_count b Rules.Black Hwf) as Pb.
  cbn [pside] in Pw, Pb.
  unfold in_check_by_bits.
  destruct (opposite_cases c Hc) as [[-> E]|[-> E]]; rewrite E;
    change (0 =? WHITE) with true; change (1 =? WHITE) with false; cbv iota;
    unfold flip; cbn [Board.white Board.black]; rewrite !full_occ_flip, <- flip_bb_lor, kings_flip_p.
  - rewrite (ctz64_flip_single _ Pw Kw).
    apply (square_in_check_flip 0 (black b)); [lia|now apply popcount1_ctz_lt64].
  - rewrite (ctz64_flip_single _ Pb Kb).
    apply (square_in_check_flip 1 (white b)); [lia|now apply popcount1_ctz_lt64].
Qed.

(* the twin is in check iff the original is *)
Theorem is_current_in_check_flip b : wf b = true -> is_current_in_check T (flip b) = is_current_in_check T b.
Proof.
  intros Hwf. unfold is_current_in_check. change (turn (flip b)) with (opposite (turn b)).
  apply in_check_by_bits_flip; [exact Hwf|now apply wf_turn].
Qed.

(* C11, static part, all three branches of Heuristic::evaluate, for every well-formed board *)
Theorem C11_static_antisymmetric b lr : pst_mirror_ok T = true -> draw_score T = 0%Z -> wf b = true ->
  evaluate T (flip b) lr = (- evaluate T b lr)%Z.
Proof.
  intros HT Hd Hwf. apply C11_static_antisymmetric_gen; try assumption.
  - now apply wf_bbs_u64.
  - now apply wf_turn.
  - intros _. now apply is_current_in_check_flip.
Qed.

(* the same from the mover's point of view: the twin has the same value *)
Corollary C11_mover_value_symmetric b lr : pst_mirror_ok T = true -> draw_score T = 0%Z -> wf b = true ->
  mover_value T (flip b) lr = mover_value T b lr.
Proof.
  intros HT Hd Hwf. apply mover_value_flip; [now apply wf_turn|now apply C11_static_antisymmetric].
Qed.

End CheckFlip.

(* ================================================================== *)
(* Part 9: search symmetry on the abstract game of Spec/Minimax.v      *)
(* ================================================================== *)
(* Bisimulation form: [sim p p'] relates a position and its twin.  Successor sets are matched element by element
   (as SETS: order and multiplicity are irrelevant), static values agree (mover's view!), terminal values agree on
   positions without moves.  Then every fixed-depth negamax value and every capture-resolution value agree.
   The involution form asked for (fl : pos -> pos) is the special case sim p p' := p' = fl p.

   Chess instantiation (FUTURE WORK, not done here): pos = board, static/terminal = mover_value T b true/false;
   C11_mover_value_symmetric gives `static (flip b) = static b` and, for stalemates, `terminal`.
   CAVEAT found while proving: `succs (flip p) = map flip (succs p)` can NOT hold for the clock-preserving `flip`
   above, because the full-move clock advances after Black's move only: below a white-to-move root the twin's clock
   is one ahead at every position where (originally) Black is to move.  The relational form below is what the
   instantiation has to use (sim b b' := b' = flip b up to the full-move clock, with the clock offset fixed by the
   side to move); static values and stalemate values do not read the full-move clock, but MATE values do:
   they differ by exactly that offset, and C11_mate_distance_flip shows that the REPORTED mate distance
   (score_from_value at the root) is nevertheless the same.  So for chess `sim_terminal` holds on stalemates only and
   the theorem below covers search trees without mate leaves; trees with mate leaves need the shifted version. *)
Section SearchSymmetry.
Open Scope Z_scope.
Variable pos : Type.
Variable succs : pos -> list pos.
Variable noisy_succs : pos -> list pos.
Variable noisy_any : pos -> bool.
Variable static : pos -> Z.
Variable terminal : pos -> Z.
Variable qmeasure : pos -> nat.

Local Notation qsv := (Minimax.qs pos noisy_succs static qmeasure).
Local Notation nmv := (Minimax.nm pos succs noisy_succs noisy_any static terminal qmeasure).

Hypothesis Hdec : Minimax.qmeasure_dec pos noisy_succs qmeasure.

Variable sim : pos -> pos -> Prop.

Definition matched (l l' : list pos) : Prop :=
  (forall q, In q l -> exists q', In q' l' /\ sim q q') /\ (forall q', In q' l' -> exists q, In q l /\ sim q q').

Hypothesis sim_succs : forall p p', sim p p' -> matched (succs p) (succs p').
Hypothesis sim_noisy : forall p p', sim p p' -> matched (noisy_succs p) (noisy_succs p').
Hypothesis sim_any : forall p p', sim p p' -> noisy_any p = noisy_any p'.
Hypothesis sim_static : forall p p', sim p p' -> static p = static p'.
Hypothesis sim_terminal : forall p p', sim p p' -> succs p = [] -> terminal p = terminal p'.

Lemma qs_sim_lt : forall n p p', (qmeasure p < n)%nat -> sim p p' -> qsv p = qsv p'.
Proof.
  induction n as [|n IH]; intros p p' Hn Hs; [lia|].
  destruct (sim_noisy p p' Hs) as [F B]. apply Z.le_antisymm.
  - rewrite (qs_unfold pos noisy_succs static qmeasure Hdec p). apply maxneg_le.
    + rewrite (sim_static p p' Hs). now apply qs_ge_static.
    + intros c Hc. destruct (F c Hc) as (c' & Hc' & Hs').
      rewrite (IH c c'); [|pose proof (Hdec p c Hc); lia|exact Hs'].
      rewrite (qs_unfold pos noisy_succs static qmeasure Hdec p'). now apply maxneg_ge_in.
  - rewrite (qs_unfold pos noisy_succs static qmeasure Hdec p'). apply maxneg_le.
    + rewrite <- (sim_static p p' Hs). now apply qs_ge_static.
    + intros c' Hc'. destruct (B c' Hc') as (c & Hc & Hs').
      rewrite <- (IH c c'); [|pose proof (Hdec p c Hc); lia|exact Hs'].
      rewrite (qs_unfold pos noisy_succs static qmeasure Hdec p). now apply maxneg_ge_in.
Qed.

Theorem qs_sim p p' : sim p p' -> qsv p = qsv p'.
Proof. apply (qs_sim_lt (S (qmeasure p))). lia. Qed.

Lemma sim_nil p p' : sim p p' -> (succs p = [] <-> succs p' = []).
Proof.
  intros Hs. destruct (sim_succs p p' Hs) as [F B]. split; intros E.
  - destruct (succs p') as [|c' r'] eqn:E'; [reflexivity|]. destruct (B c' (or_introl eq_refl)) as (c & Hc & _).
    rewrite E in Hc. destruct Hc.
  - destruct (succs p) as [|c r] eqn:E0; [reflexivity|]. destruct (F c (or_introl eq_refl)) as (c' & Hc' & _).
    rewrite E in Hc'. destruct Hc'.
Qed.

Theorem nm_sim : forall d p p', sim p p' -> nmv d p = nmv d p'.
Proof.
  induction d as [|k IH]; intros p p' Hs; pose proof (sim_nil p p' Hs) as Hnil.
  - destruct (succs p) as [|c r] eqn:E.
    + rewrite !nm_nomoves; [now apply sim_terminal|now apply Hnil|exact E].
    + rewrite !nm_0. unfold Minimax.horizon, Minimax.nomoves. rewrite E.
      destruct (succs p') as [|c' r'] eqn:E'; [destruct Hnil as [_ H]; discriminate (H eq_refl)|].
      rewrite <- (sim_any p p' Hs). destruct (noisy_any p); [now apply qs_sim|now apply sim_static].
  - destruct (succs p) as [|c r] eqn:E.
    + rewrite !nm_nomoves; [now apply sim_terminal|now apply Hnil|exact E].
    + assert (Hne : succs p <> []) by (rewrite E; discriminate).
      assert (Hne' : succs p' <> []) by (intros H; apply Hnil in H; congruence).
      destruct (sim_succs p p' Hs) as [F B]. rewrite <- E in *. apply Z.le_antisymm.
      * apply nm_S_le; [exact Hne|]. intros q Hq. destruct (F q Hq) as (q' & Hq' & Hs').
        rewrite (IH q q' Hs'). now apply nm_S_ge.
      * apply nm_S_le; [exact Hne'|]. intros q' Hq'. destruct (B q' Hq') as (q & Hq & Hs').
        rewrite <- (IH q q' Hs'). now apply nm_S_ge.
Qed.

End SearchSymmetry.

(* the involution form: a colour flip fl that commutes with move generation (up to order) *)
Section SearchSymmetryInvolution.
Open Scope Z_scope.
Variable pos : Type.
Variable succs : pos -> list pos.
Variable noisy_succs : pos -> list pos.
Variable noisy_any : pos -> bool.
Variable static : pos -> Z.
Variable terminal : pos -> Z.
Variable qmeasure : pos -> nat.
Hypothesis Hdec : Minimax.qmeasure_dec pos noisy_succs qmeasure.

Variable fl : pos -> pos.
Hypothesis fl_succs : forall p, Permutation (succs (fl p)) (map fl (succs p)).
Hypothesis fl_noisy : forall p, Permutation (noisy_succs (fl p)) (map fl (noisy_succs p)).
Hypothesis fl_any : forall p, noisy_any (fl p) = noisy_any p.
Hypothesis fl_static : forall p, static (fl p) = static p.                       (* mover's view *)
Hypothesis fl_terminal : forall p, succs p = [] -> terminal (fl p) = terminal p.   (* mover's view *)

Lemma matched_perm_map (f : pos -> list pos) p :
  Permutation (f (fl p)) (map fl (f p)) -> matched pos (fun a b => b = fl a) (f p) (f (fl p)).
Proof.
  intros HP. split.
  - intros q Hq. exists (fl q). split; [|reflexivity].
    apply (Permutation_in _ (Permutation_sym HP)). now apply in_map.
  - intros q' Hq'. apply (Permutation_in _ HP) in Hq'. apply in_map_iff in Hq'. destruct Hq' as (q & <- & Hq).
    exists q. auto.
Qed.

Theorem C11_search_symmetric : forall d p,
  Minimax.nm pos succs noisy_succs noisy_any static terminal qmeasure d (fl p)
  = Minimax.nm pos succs noisy_succs noisy_any static terminal qmeasure d p.
Proof.
  intros d p. symmetry.
  apply (nm_sim pos succs noisy_succs noisy_any static terminal qmeasure Hdec (fun a b => b = fl a)); try reflexivity.
  - intros a b ->. apply (matched_perm_map succs). apply fl_succs.
  - intros a b ->. apply (matched_perm_map noisy_succs). apply fl_noisy.
  - intros a b ->. symmetry. apply fl_any.
  - intros a b ->. symmetry. apply fl_static.
  - intros a b -> H. symmetry. now apply fl_terminal.
Qed.

Theorem C11_qs_symmetric : forall p,
  Minimax.qs pos noisy_succs static qmeasure (fl p) = Minimax.qs pos noisy_succs static qmeasure p.
Proof.
  intros p. symmetry.
  apply (qs_sim pos noisy_succs static qmeasure Hdec (fun a b => b = fl a)); try reflexivity.
  - intros a b ->. apply (matched_perm_map noisy_succs). apply fl_noisy.
  - intros a b ->. symmetry. apply fl_static.
Qed.

End SearchSymmetryInvolution.

(* ================================================================== *)
(* C11_terminal with the current constants spelled out                 *)
(* ================================================================== *)
(* win_score = 2^24 = 16777216, MAX_FULL_MOVES = 2^20 = 1048576, win_score / 2 = 2^23 = 8388608 *)
Theorem C11_terminal_std T : draw_score T = 0%Z -> win_score T = 16777216%Z -> max_full_moves T = 1048576%Z ->
  forall b, turn b < 2 -> full b < 8388608 ->
  let v := mover_value T b false in
  (is_current_in_check T b = true ->
     v = (Z.of_N (full b) - 16777216)%Z /\ (v < -8388608)%Z /\ (8388608 < - v)%Z /\
     score_from_value T v b = Mate 0 /\
     (full b < 1048576 -> is_checkmate T v = true /\ is_checkmate T (- v) = true)) /\
  (is_current_in_check T b = false -> v = 0%Z /\ score_from_value T v b = Cp 0 /\ is_checkmate T v = false).
Proof.
  intros Hd HW HM b Ht Hf v.
  assert (Hf31 : full b < 2 ^ 31) by (change (2 ^ 31) with 2147483648; lia).
  assert (HW0 : (0 < win_score T)%Z) by (rewrite HW; lia).
  destruct (C11_terminal T Hd b Ht Hf31 HW0) as [Hin Hout]. fold v in Hin, Hout.
  rewrite HW, HM in Hin, Hout. change (Z.quot 16777216 2) with 8388608%Z in Hin, Hout.
  split; intros Hc.
  - destruct (Hin Hc) as (E & _ & H2 & H3). destruct H2 as (A & B & C); [lia|].
    split; [exact E|]. split; [exact A|]. split; [exact B|]. split; [exact C|].
    intros Hm. apply H3. lia.
  - destruct (Hout Hc) as (E & S & H3). split; [exact E|]. split; [exact S|]. apply H3. lia.
Qed.

(* ================================================================== *)
(* the twin of a well-formed board is well-formed                      *)
(* ================================================================== *)

Lemma disjoint_all_intro l : forall acc, (forall x, In x l -> N.land acc x = 0) ->
  (forall i j, (i < j < length l)%nat -> N.land (nth i l 0) (nth j l 0) = 0) -> disjoint_all acc l = true.
Proof.
  induction l as [|x r IH]; intros acc Ha Hp; cbn [disjoint_all]; [reflexivity|].
  apply andb_true_iff. split.
  - apply N.eqb_eq. apply Ha. now left.
  - apply IH.
    + intros y Hy. rewrite N.land_lor_distr_l. rewrite (Ha y) by now right.
      destruct (In_nth _ _ 0 Hy) as (j & Hj & <-).
      assert (E : N.land (nth 0 (x :: r) 0) (nth (S j) (x :: r) 0) = 0) by (apply Hp; cbn [length]; lia).
      cbn [nth] in E. rewrite E. reflexivity.
    + intros i j Hij. apply (Hp (S i) (S j)). cbn [length]. lia.
Qed.

Lemma bb_of_flip b c k : bb_of (flip b) c k = flip_bb (bb_of b (Rules.opp c) k).
Proof. destruct c, k; reflexivity. Qed.

Lemma bb_idx_cases i : (i < 12)%nat -> exists c k, i = bb_idx c k.
Proof.
  intros H.
  destruct i as [|i]; [exists Rules.White, Rules.Pawn; reflexivity|].
  destruct i as [|i]; [exists Rules.White, Rules.Knight; reflexivity|].
  destruct i as [|i]; [exists Rules.White, Rules.Bishop; reflexivity|].
  destruct i as [|i]; [exists Rules.White, Rules.Rook; reflexivity|].
  destruct i as [|i]; [exists Rules.White, Rules.Queen; reflexivity|].
  destruct i as [|i]; [exists Rules.White, Rules.King; reflexivity|].
  destruct i as [|i]; [exists Rules.Black, Rules.Pawn; reflexivity|].
  destruct i as [|i]; [exists Rules.Black, Rules.Knight; reflexivity|].
  destruct i as [|i]; [exists Rules.Black, Rules.Bishop; reflexivity|].
  destruct i as [|i]; [exists Rules.Black, Rules.Rook; reflexivity|].
  destruct i as [|i]; [exists Rules.Black, Rules.Queen; reflexivity|].
  destruct i as [|i]; [exists Rules.Black, Rules.King; reflexivity|]. lia.
Qed.

Lemma RANKS_18_flip : flip_bb RANKS_18 = RANKS_18.
Proof. vm_compute. reflexivity. Qed.

Theorem flip_wf b : wf b = true -> wf (flip b) = true.
Proof.
  intros Hwf. pose proof (wf_unpack b Hwf) as (Hu & Hd & Kw & Kb & Ht & He & Hp).
  pose proof (wf_bbs_u64 b Hwf) as [(_ & _ & _ & _ & _ & Uw) (_ & _ & _ & _ & _ & Ub)].
  assert (A : forallb (fun x => x <? 18446744073709551616) (bbs (flip b)) = true).
  { apply forallb_forall. intros x Hx. apply N.ltb_lt. change 18446744073709551616 with (2 ^ 64).
    cbn in Hx. repeat (destruct Hx as [<-|Hx]; [apply flip_bb_u64|]). destruct Hx. }
  assert (B : disjoint_all 0 (bbs (flip b)) = true).
  { apply disjoint_all_intro; [intros x _; apply N.land_0_l|].
    intros i j Hij. change (length (bbs (flip b))) with 12%nat in Hij.
    destruct (bb_idx_cases i) as (c & k & ->); [lia|]. destruct (bb_idx_cases j) as (c' & k' & ->); [lia|].
    rewrite !bbs_nth, !bb_of_flip. rewrite <- flip_bb_land.
    assert (Hne : (Rules.opp c, k) <> (Rules.opp c', k')).
    { intros E. injection E as E1 E2. subst k'. assert (c = c') by (destruct c, c'; cbn in E1; congruence). subst c'. lia. }
    assert (E0 : N.land (bb_of b (Rules.opp c) k) (bb_of b (Rules.opp c') k') = 0).
    { apply N.bits_inj_0. intro sq. rewrite N.land_spec.
      destruct (N.testbit (bb_of b (Rules.opp c) k) sq) eqn:E; [|reflexivity].
      rewrite (bb_disjoint b _ _ _ _ sq Hwf Hne E). reflexivity. }
    rewrite E0. reflexivity. }
  assert (C : (popcount (kings (white (flip b))) =? 1) = true).
  { apply N.eqb_eq. change (kings (white (flip b))) with (flip_bb (kings (black b))). now rewrite popcount_flip_bb. }
  assert (D : (popcount (kings (black (flip b))) =? 1) = true).
  { apply N.eqb_eq. change (kings (black (flip b))) with (flip_bb (kings (white b))). now rewrite popcount_flip_bb. }
  assert (E : (turn (flip b) <? 2) = true).
  { apply N.ltb_lt. change (turn (flip b)) with (opposite (turn b)). unfold opposite. lia. }
  assert (F : (ep (flip b) <? 64) = true).
  { apply N.ltb_lt. change (ep (flip b)) with (flip_ep (ep b)). unfold flip_ep.
    destruct (ep b =? 0); [lia|now apply mirror_lt64]. }
  assert (G : (N.land (N.lor (pawns (white (flip b))) (pawns (black (flip b)))) RANKS_18 =? 0) = true).
  { apply N.eqb_eq. change (pawns (white (flip b))) with (flip_bb (pawns (black b))).
    change (pawns (black (flip b))) with (flip_bb (pawns (white b))).
    rewrite <- flip_bb_lor. rewrite <- RANKS_18_flip at 1. rewrite <- flip_bb_land, N.lor_comm, Hp. reflexivity. }
  unfold wf. rewrite A, B, C, D, E, F, G. reflexivity.
Qed.

(* Proofs for property C15: the UCI command reader (Model.UciParser) against the grammar renderer (Spec.UciSpec). *)
Require Import Ink.Lib.Str.
Require Import NArith ZArith List Bool Lia ZifyBool Arith Permutation.
Require Import Ink.Model.Fen Ink.Model.UciParser Ink.Spec.UciSpec Ink.Driver.RunUci.
Import ListNotations.
Open Scope N_scope.

Arguments N.add : simpl never.
Arguments N.sub : simpl never.
Arguments N.mul : simpl never.
Arguments N.div : simpl never.
Arguments N.modulo : simpl never.
Arguments N.eqb : simpl never.
Arguments N.ltb : simpl never.
Arguments N.leb : simpl never.
Arguments Z.add : simpl never.
Arguments Z.mul : simpl never.

(* ------------------------------------------------------------------ strings *)
Lemma str_eqb_eq : forall a b, str_eqb a b = true <-> a = b.
Proof.
  induction a as [|x a IH]; destruct b as [|y b]; cbn [str_eqb]; split; intro H; try discriminate; try reflexivity.
  - apply andb_true_iff in H. destruct H as [H1 H2]. apply N.eqb_eq in H1. apply IH in H2. subst. reflexivity.
  - inversion H; subst. rewrite N.eqb_refl. cbn. apply IH. reflexivity.
Qed.
Lemma str_eqb_refl : forall a, str_eqb a a = true.
Proof. intro a. apply str_eqb_eq. reflexivity. Qed.
Lemma str_eqb_neq : forall a b, str_eqb a b = false <-> a <> b.
Proof.
  intros a b. split; intro H.
  - intro E. apply str_eqb_eq in E. congruence.
  - destruct (str_eqb a b) eqn:E; [apply str_eqb_eq in E; contradiction | reflexivity].
Qed.
Lemma str_eqb_sym : forall a b, str_eqb a b = str_eqb b a.
Proof.
  intros a b. destruct (str_eqb a b) eqn:E.
  - apply str_eqb_eq in E. subst. symmetry. apply str_eqb_refl.
  - symmetry. apply str_eqb_neq. apply str_eqb_neq in E. congruence.
Qed.
Lemma mem_str_In : forall x l, mem_str x l = true <-> In x l.
Proof.
  intros x l. unfold mem_str. rewrite existsb_exists. split.
  - intros [y [Hy E]]. apply str_eqb_eq in E. subst. exact Hy.
  - intro H. exists x. split; [exact H | apply str_eqb_refl].
Qed.
Lemma mem_str_notIn : forall x l, mem_str x l = false <-> ~ In x l.
Proof.
  intros x l. split; intro H.
  - intro I. apply mem_str_In in I. congruence.
  - destruct (mem_str x l) eqn:E; [apply mem_str_In in E; contradiction | reflexivity].
Qed.

(* ------------------------------------------------------------------ the tokenizer on rendered lines *)
Lemma clean_no_space : forall t, clean t = true -> ~ In 32 t.
Proof.
  intros t H I. unfold clean in H. rewrite forallb_forall in H. apply H in I. discriminate I.
Qed.

Lemma split_on_app_sep : forall t r, ~ In 32 t -> split_on 32 (t ++ 32 :: r) = t :: split_on 32 r.
Proof.
  induction t as [|y t IH]; intros r H; cbn [app split_on].
  - rewrite N.eqb_refl. reflexivity.
  - assert (N.eqb y 32 = false) as E by (apply N.eqb_neq; intro; subst; apply H; left; reflexivity).
    rewrite E. rewrite IH by (intro I; apply H; right; exact I). reflexivity.
Qed.
Lemma split_on_nosep : forall t, ~ In 32 t -> split_on 32 t = [t].
Proof.
  induction t as [|y t IH]; intro H; cbn [split_on]; [reflexivity|].
  assert (N.eqb y 32 = false) as E by (apply N.eqb_neq; intro; subst; apply H; left; reflexivity).
  rewrite E. rewrite IH by (intro I; apply H; right; exact I). reflexivity.
Qed.

Lemma words_space : forall r, words (32 :: r) = words r.
Proof. intro r. unfold words. cbn [split_on]. rewrite N.eqb_refl. reflexivity. Qed.
Lemma words_spaces : forall n r, words (repeat 32 n ++ r) = words r.
Proof. induction n as [|n IH]; intro r; cbn [repeat app]; [reflexivity|]. rewrite words_space. apply IH. Qed.
Lemma words_tok_sep : forall t r, t <> [] -> ~ In 32 t -> words (t ++ 32 :: r) = t :: words r.
Proof.
  intros t r Hne H. unfold words. rewrite split_on_app_sep by exact H. cbn [filter].
  destruct t; [contradiction|]. reflexivity.
Qed.
Lemma words_single : forall t, t <> [] -> ~ In 32 t -> words t = [t].
Proof.
  intros t Hne H. unfold words. rewrite split_on_nosep by exact H. cbn [filter].
  destruct t; [contradiction|]. reflexivity.
Qed.
Lemma words_nil : words [] = [].
Proof. reflexivity. Qed.

Lemma tok_ok_no_space : forall t, tok_ok t -> t <> [] /\ ~ In 32 t.
Proof. intros t [H1 H2]. split; [exact H1 | apply clean_no_space; exact H2]. Qed.

Lemma words_spaced : forall toks gaps, Forall tok_ok toks -> words (spaced toks gaps) = toks.
Proof.
  induction toks as [|t rest IH]; intros gaps H; [reflexivity|].
  inversion H as [|? ? Ht Hrest]; subst. destruct (tok_ok_no_space t Ht) as [Hne Hsp].
  destruct rest as [|t2 rest].
  - cbn [spaced]. apply words_single; assumption.
  - change (spaced (t :: t2 :: rest) gaps) with (t ++ repeat 32 (S (hd 0%nat gaps)) ++ spaced (t2 :: rest) (tl gaps)).
    cbn [repeat app]. rewrite words_tok_sep by assumption. rewrite words_spaces. rewrite IH by exact Hrest. reflexivity.
Qed.

Definition starts_clean (x : str) : Prop := match x with c :: _ => is_whitespace c = false | [] => False end.

Lemma starts_clean_app : forall x y, starts_clean x -> starts_clean (x ++ y).
Proof. intros [|c x] y H; [contradiction | exact H]. Qed.
Lemma tok_starts_clean : forall t, tok_ok t -> starts_clean t.
Proof.
  intros [|c t] [Hne Hc]; [contradiction|]. cbn. cbn [clean forallb] in Hc. apply andb_true_iff in Hc.
  destruct Hc as [Hc _]. apply negb_true_iff in Hc. exact Hc.
Qed.
Lemma tok_ok_rev : forall t, tok_ok t -> tok_ok (rev t).
Proof.
  intros t [Hne Hc]. split.
  - intro E. apply Hne. rewrite <- (rev_involutive t), E. reflexivity.
  - unfold clean in *. rewrite forallb_forall in *. intros c I. apply Hc. apply in_rev. exact I.
Qed.

Lemma spaced_starts : forall toks gaps, Forall tok_ok toks -> toks <> [] -> starts_clean (spaced toks gaps).
Proof.
  intros [|t rest] gaps H Hne; [contradiction|]. inversion H; subst.
  destruct rest as [|t2 rest]; cbn [spaced].
  - apply tok_starts_clean; assumption.
  - apply starts_clean_app. apply tok_starts_clean; assumption.
Qed.
Lemma spaced_ends : forall toks gaps, Forall tok_ok toks -> toks <> [] -> starts_clean (rev (spaced toks gaps)).
Proof.
  induction toks as [|t rest IH]; intros gaps H Hne; [contradiction|]. inversion H as [|? ? Ht Hrest]; subst.
  destruct rest as [|t2 rest].
  - cbn [spaced]. apply tok_starts_clean. apply tok_ok_rev. exact Ht.
  - change (spaced (t :: t2 :: rest) gaps) with (t ++ repeat 32 (S (hd 0%nat gaps)) ++ spaced (t2 :: rest) (tl gaps)).
    rewrite !rev_app_distr. rewrite <- app_assoc. apply starts_clean_app. apply IH; [exact Hrest | discriminate].
Qed.

Lemma trim_start_ws : forall l x, all_ws l -> trim_start (l ++ x) = trim_start x.
Proof.
  induction l as [|c l IH]; intros x H; [reflexivity|]. inversion H; subst. cbn [app trim_start].
  rewrite H2. apply IH. assumption.
Qed.
Lemma trim_start_clean : forall x, starts_clean x -> trim_start x = x.
Proof. intros [|c x] H; [contradiction|]. cbn in H. cbn [trim_start]. rewrite H. reflexivity. Qed.
Lemma all_ws_rev : forall l, all_ws l -> all_ws (rev l).
Proof. intros l H. unfold all_ws in *. rewrite Forall_forall in *. intros c I. apply H. apply in_rev. exact I. Qed.

Lemma trim_sandwich : forall lead body trail, all_ws lead -> all_ws trail -> starts_clean body -> starts_clean (rev body) ->
  trim (lead ++ body ++ trail) = body.
Proof.
  intros lead body trail Hl Ht Hb He. unfold trim, trim_end.
  rewrite trim_start_ws by exact Hl.
  rewrite (trim_start_clean (body ++ trail)) by (apply starts_clean_app; exact Hb).
  rewrite rev_app_distr. rewrite trim_start_ws by (apply all_ws_rev; exact Ht).
  rewrite trim_start_clean by exact He. apply rev_involutive.
Qed.

Theorem tokenize_render_tokens : forall lead trail toks gaps, all_ws lead -> all_ws trail -> Forall tok_ok toks -> toks <> [] ->
  tokenize (lead ++ spaced toks gaps ++ trail) = toks.
Proof.
  intros. unfold tokenize. rewrite trim_sandwich; auto using spaced_starts, spaced_ends. apply words_spaced. assumption.
Qed.

(* ------------------------------------------------------------------ decimal numbers *)
Fixpoint dval (a : N) (l : str) : N := match l with [] => a | c :: r => dval (a * 10 + digit_val c) r end.
Definition all_digits (l : str) : Prop := Forall (fun c => is_ascii_digit c = true) l.

Lemma dval_ge : forall l a, a <= dval a l.
Proof.
  induction l as [|c l IH]; intro a; cbn [dval]; [lia|]. specialize (IH (a * 10 + digit_val c)). lia.
Qed.
Lemma parse_digits_dval : forall maxv l a, all_digits l -> dval a l <= maxv -> parse_digits maxv a l = Some (dval a l).
Proof.
  induction l as [|c l IH]; intros a Hd Hm; cbn [parse_digits dval] in *; [reflexivity|].
  inversion Hd as [|? ? Hc Hl]; subst. rewrite Hc.
  pose proof (dval_ge l (a * 10 + digit_val c)) as Hge.
  assert ((a * 10 + digit_val c <=? maxv) = true) as E by (apply N.leb_le; lia).
  rewrite E. apply IH; assumption.
Qed.
Lemma dval_zeros : forall z l, dval 0 (repeat 48 z ++ l) = dval 0 l.
Proof. induction z as [|z IH]; intro l; cbn [repeat app dval]; [reflexivity|]. exact (IH l). Qed.
Lemma all_digits_zeros : forall z, all_digits (repeat 48 z).
Proof. induction z; cbn [repeat]; constructor; [reflexivity | assumption]. Qed.

Lemma digit_val_48 : forall d, digit_val (48 + d) = d.
Proof. intro d. unfold digit_val. lia. Qed.
Lemma is_digit_48 : forall d, d < 10 -> is_ascii_digit (48 + d) = true.
Proof. intros d H. unfold is_ascii_digit. lia. Qed.

Lemma show_N_aux_spec : forall fuel n tail, fuel <> O -> n < 10 ^ N.of_nat fuel -> all_digits tail ->
  all_digits (show_N_aux fuel n tail) /\ exists k, forall a, dval a (show_N_aux fuel n tail) = dval (a * 10 ^ k + n) tail.
Proof.
  induction fuel as [|fuel IH]; intros n tail Hf Hn Ht; [contradiction|].
  cbn [show_N_aux].
  assert (n mod 10 < 10) as Hm by (apply N.mod_lt; lia).
  assert (all_digits ((48 + n mod 10) :: tail)) as Ht' by (constructor; [apply is_digit_48; exact Hm | exact Ht]).
  destruct (n / 10 =? 0) eqn:E.
  - split; [exact Ht'|]. exists 1. intro a. cbn [dval]. rewrite digit_val_48.
    apply N.eqb_eq in E. apply N.div_small_iff in E; [|lia]. rewrite N.mod_small by exact E.
    rewrite N.pow_1_r. reflexivity.
  - apply N.eqb_neq in E.
    rewrite Nat2N.inj_succ, N.pow_succ_r' in Hn.
    assert (n / 10 < 10 ^ N.of_nat fuel) as Hq by (apply N.div_lt_upper_bound; lia).
    assert (fuel <> O) as Hf'.
    { intro Z0. subst fuel. change (10 ^ N.of_nat 0) with 1 in Hq. apply N.lt_1_r in Hq. exact (E Hq). }
    destruct (IH (n / 10) ((48 + n mod 10) :: tail) Hf' Hq Ht') as [Hd [k Hk]].
    split; [exact Hd|]. exists (N.succ k). intro a. rewrite Hk. cbn [dval]. rewrite digit_val_48.
    f_equal. rewrite N.pow_succ_r'. pose proof (N.div_mod n 10). lia.
Qed.

Lemma show_N_fuel : forall n, n < 10 ^ N.of_nat (S (N.to_nat (N.size n))).
Proof.
  intro n. rewrite Nat2N.inj_succ, N2Nat.id, N.pow_succ_r'.
  pose proof (N.size_gt n) as H1.
  assert (2 ^ N.size n <= 10 ^ N.size n) as H2 by (apply N.pow_le_mono_l; lia).
  assert (0 < 10 ^ N.size n) as H3 by (apply N.neq_0_lt_0; apply N.pow_nonzero; lia).
  lia.
Qed.
Lemma show_N_digits : forall n, all_digits (show_N n).
Proof. intro n. unfold show_N. apply show_N_aux_spec; [discriminate | apply show_N_fuel | constructor]. Qed.
Lemma show_N_dval : forall n, dval 0 (show_N n) = n.
Proof.
  intro n. unfold show_N.
  destruct (show_N_aux_spec (S (N.to_nat (N.size n))) n []) as [_ [k Hk]]; [discriminate | apply show_N_fuel | constructor|].
  rewrite Hk. cbn [dval]. lia.
Qed.
Lemma show_N_aux_nonnil : forall fuel n acc, acc <> [] -> show_N_aux fuel n acc <> [].
Proof.
  induction fuel as [|fuel IH]; intros n acc H; cbn [show_N_aux]; [exact H|].
  destruct (n / 10 =? 0); [discriminate | apply IH; discriminate].
Qed.
Lemma show_N_nonnil : forall n, show_N n <> [].
Proof.
  intro n. unfold show_N. cbn [show_N_aux]. destruct (n / 10 =? 0); [discriminate | apply show_N_aux_nonnil; discriminate].
Qed.

Lemma all_digits_app : forall a b, all_digits a -> all_digits b -> all_digits (a ++ b).
Proof. intros a b Ha Hb. unfold all_digits. apply Forall_app. split; assumption. Qed.

(* zeros ++ show_N v : digits only, non-empty, value v *)
Lemma numeral_facts : forall z v, let x := repeat 48 z ++ show_N v in
  all_digits x /\ x <> [] /\ dval 0 x = v.
Proof.
  intros z v x. subst x. split; [|split].
  - apply all_digits_app; [apply all_digits_zeros | apply show_N_digits].
  - intro E. apply app_eq_nil in E. destruct E as [_ E]. exact (show_N_nonnil v E).
  - rewrite dval_zeros. apply show_N_dval.
Qed.

Lemma parse_unsigned_numeral : forall maxv plus z v, v <= maxv ->
  parse_unsigned maxv ((if plus : bool then [43] else []) ++ repeat 48 z ++ show_N v) = Some v.
Proof.
  intros maxv plus z v Hv. destruct (numeral_facts z v) as [Hd [Hne Hval]].
  set (x := repeat 48 z ++ show_N v) in *.
  assert (parse_digits maxv 0 x = Some v) as Hp.
  { rewrite parse_digits_dval; [rewrite Hval; reflexivity | exact Hd | rewrite Hval; exact Hv]. }
  destruct plus; cbn [app].
  - cbn [parse_unsigned]. change (43 =? 43) with true. cbn iota. destruct x; [contradiction | exact Hp].
  - unfold parse_unsigned. destruct x as [|c r]; [contradiction|].
    inversion Hd as [|? ? Hc _]; subst.
    assert ((c =? 43) = false) as E by (unfold is_ascii_digit in Hc; lia).
    rewrite E. exact Hp.
Qed.

Lemma parse_u64_num : forall st v q, num_style_ok false st v -> v <= U64_MAX ->
  parse_u64_tok (num_text st v :: q) = inr (v, q).
Proof.
  intros st v q Hs Hv. unfold parse_u64_tok, next, num_text. unfold num_style_ok in Hs.
  destruct (ns_neg st) as [n|]; [destruct Hs as [Hs _]; discriminate|].
  unfold parse_u64. rewrite parse_unsigned_numeral by exact Hv. reflexivity.
Qed.

Lemma parse_i64_numeral : forall plus z v, v <= I64_MAX ->
  parse_i64 ((if plus : bool then [43] else []) ++ repeat 48 z ++ show_N v) = Some (Z.of_N v).
Proof.
  intros plus z v Hv. destruct (numeral_facts z v) as [Hd [Hne Hval]].
  set (x := repeat 48 z ++ show_N v) in *.
  assert (parse_digits 9223372036854775807 0 x = Some v) as Hp.
  { rewrite parse_digits_dval; [rewrite Hval; reflexivity | exact Hd | rewrite Hval; exact Hv]. }
  destruct plus; cbn [app].
  - cbn [parse_i64]. change (43 =? 45) with false. change (43 =? 43) with true. cbn iota.
    destruct x; [contradiction|]. rewrite Hp. reflexivity.
  - unfold parse_i64. destruct x as [|c r]; [contradiction|].
    inversion Hd as [|? ? Hc _]; subst.
    assert ((c =? 43) = false) as E1 by (unfold is_ascii_digit in Hc; lia).
    assert ((c =? 45) = false) as E2 by (unfold is_ascii_digit in Hc; lia).
    rewrite E1, E2. rewrite Hp. reflexivity.
Qed.
Lemma parse_i64_negative : forall z n, n <= 9223372036854775808 ->
  parse_i64 ([45] ++ repeat 48 z ++ show_N n) = Some (- Z.of_N n)%Z.
Proof.
  intros z n Hn. destruct (numeral_facts z n) as [Hd [Hne Hval]].
  set (x := repeat 48 z ++ show_N n) in *. cbn [app parse_i64]. change (45 =? 45) with true. cbn iota.
  destruct x as [|c r]; [contradiction|].
  rewrite parse_digits_dval; [rewrite Hval; reflexivity | exact Hd | rewrite Hval; exact Hn].
Qed.

Lemma parse_duration_num : forall st v q, num_style_ok true st v -> v <= I64_MAX ->
  parse_duration (num_text st v :: q) = inr (v, q).
Proof.
  intros st v q Hs Hv. unfold parse_duration, next, num_text. unfold num_style_ok in Hs.
  destruct (ns_neg st) as [n|].
  - destruct Hs as [_ [Hz Hn]]. subst v. rewrite parse_i64_negative by exact Hn.
    f_equal. f_equal. lia.
  - rewrite parse_i64_numeral by exact Hv. f_equal. f_equal. lia.
Qed.

Lemma digit_clean : forall c, is_ascii_digit c = true -> negb (is_whitespace c) = true.
Proof. intro c. unfold is_ascii_digit, is_whitespace. lia. Qed.
Lemma all_digits_clean : forall x, all_digits x -> clean x = true.
Proof.
  intros x H. unfold clean. apply forallb_forall. intros c I. unfold all_digits in H. rewrite Forall_forall in H.
  apply digit_clean. apply H. exact I.
Qed.
Lemma clean_app : forall a b, clean a = true -> clean b = true -> clean (a ++ b) = true.
Proof. intros a b Ha Hb. unfold clean in *. rewrite forallb_app, Ha, Hb. reflexivity. Qed.

Lemma num_text_tok_ok : forall st v, tok_ok (num_text st v).
Proof.
  intros st v. unfold num_text. destruct (ns_neg st) as [n|].
  - destruct (numeral_facts (ns_zeros st) n) as [Hd _]. split; [discriminate|].
    apply clean_app; [reflexivity | apply all_digits_clean; exact Hd].
  - destruct (numeral_facts (ns_zeros st) v) as [Hd [Hne _]]. split.
    + intro E. apply app_eq_nil in E. destruct E as [_ E]. exact (Hne E).
    + apply clean_app; [destruct (ns_plus st); reflexivity | apply all_digits_clean; exact Hd].
Qed.

(* ------------------------------------------------------------------ move texts *)
Definition range64 : list N := map N.of_nat (seq 0 64).
Definition promos : list (option N) := [None; Some 1; Some 2; Some 3; Some 4; Some 5; Some 6].
Definition all_moves : list uci_move :=
  flat_map (fun s => flat_map (fun d => map (fun p => {| um_src := s; um_dst := d; um_promo := p |}) promos) range64) range64.

Definition opt_eqb (a b : option N) : bool :=
  match a, b with Some x, Some y => x =? y | None, None => true | _, _ => false end.
Definition move_check (m : uci_move) : bool :=
  match parse_move (show_move m) with
  | Some m' => (um_src m' =? um_src m) && (um_dst m' =? um_dst m) && opt_eqb (um_promo m') (um_promo m)
  | None => false
  end && clean (show_move m) && nonempty (show_move m) && negb (mem_str (show_move m) GO_TOKENS).

Lemma move_sweep : forallb move_check all_moves = true.
Proof. vm_compute. reflexivity. Qed.

Lemma In_range64 : forall n, n < 64 -> In n range64.
Proof.
  intros n H. unfold range64. apply in_map_iff. exists (N.to_nat n). split; [apply N2Nat.id|].
  apply in_seq. lia.
Qed.
Lemma move_ok_In : forall m, move_ok m -> In m all_moves.
Proof.
  intros [s d p] [Hs [Hd Hp]]. cbn [um_src um_dst um_promo] in *.
  unfold all_moves. apply in_flat_map. exists s. split; [apply In_range64; exact Hs|].
  apply in_flat_map. exists d. split; [apply In_range64; exact Hd|].
  apply in_map_iff. exists p. split; [reflexivity|].
  destruct p as [p|]; [|left; reflexivity].
  assert (p = 1 \/ p = 2 \/ p = 3 \/ p = 4 \/ p = 5 \/ p = 6) as C by lia.
  unfold promos. cbn [In]. intuition (subst; auto).
Qed.

Lemma move_check_all : forall m, move_ok m -> move_check m = true.
Proof. intros m H. pose proof move_sweep as S. rewrite forallb_forall in S. apply S. apply move_ok_In. exact H. Qed.

Lemma move_roundtrip : forall m, move_ok m -> parse_move (show_move m) = Some m.
Proof.
  intros m H. pose proof (move_check_all m H) as C. unfold move_check in C.
  rewrite !andb_true_iff in C. destruct C as [[[C _] _] _].
  destruct (parse_move (show_move m)) as [m'|]; [|discriminate].
  rewrite !andb_true_iff in C. destruct C as [[C1 C2] C3].
  apply N.eqb_eq in C1. apply N.eqb_eq in C2. destruct m' as [s' d' p'], m as [s d p]. cbn [um_src um_dst um_promo] in *.
  subst. f_equal. f_equal. unfold opt_eqb in C3. destruct p' as [x|], p as [y|]; try discriminate; [|reflexivity].
  apply N.eqb_eq in C3. subst. reflexivity.
Qed.
Lemma show_move_tok_ok : forall m, move_ok m -> tok_ok (show_move m).
Proof.
  intros m H. pose proof (move_check_all m H) as C. unfold move_check in C.
  rewrite !andb_true_iff in C. destruct C as [[[_ C1] C2] _]. split; [|exact C1].
  intro E. rewrite E in C2. discriminate.
Qed.
Lemma show_move_not_go_token : forall m, move_ok m -> mem_str (show_move m) GO_TOKENS = false.
Proof.
  intros m H. pose proof (move_check_all m H) as C. unfold move_check in C.
  rewrite !andb_true_iff in C. destruct C as [_ C]. apply negb_true_iff in C. exact C.
Qed.

Lemma square_from_chars_inv : forall f r sq, square_from_chars f r = Some sq ->
  sq < 64 /\ square_fen sq = [f; r] /\ 97 <= f <= 104 /\ 49 <= r <= 56.
Proof.
  intros f r sq H. unfold square_from_chars, square_from_indices, square_from_index in H.
  destruct (f <? 97) eqn:E1; [discriminate|].
  destruct (is_ascii_digit r) eqn:E2; [|discriminate]. cbv zeta in H.
  destruct (f - 97 <? 8) eqn:E3; [|discriminate].
  assert (f = 97 \/ f = 98 \/ f = 99 \/ f = 100 \/ f = 101 \/ f = 102 \/ f = 103 \/ f = 104) as Hf by lia.
  assert (r = 48 \/ r = 49 \/ r = 50 \/ r = 51 \/ r = 52 \/ r = 53 \/ r = 54 \/ r = 55 \/ r = 56 \/ r = 57) as Hr
    by (unfold is_ascii_digit in E2; lia).
  clear E1 E2 E3.
  destruct Hf as [Hf|[Hf|[Hf|[Hf|[Hf|[Hf|[Hf|Hf]]]]]]]; subst f;
  destruct Hr as [Hr|[Hr|[Hr|[Hr|[Hr|[Hr|[Hr|[Hr|[Hr|Hr]]]]]]]]]; subst r;
  vm_compute in H; try discriminate H; inversion H; subst sq; (split; [reflexivity | split; [reflexivity | lia]]).
Qed.

Lemma piece_from_char_inv : forall c p, piece_from_char c = Some p -> 1 <= p <= 6 /\ piece_fen p = to_ascii_lower c.
Proof.
  intros c p H. unfold piece_from_char in H.
  repeat match type of H with
  | (if ?b then _ else _) = _ =>
      let E := fresh "E" in destruct b eqn:E;
      [ inversion H; subst p; apply orb_true_iff in E; destruct E as [E|E]; apply N.eqb_eq in E; subst c;
        (split; [lia | reflexivity]) | ]
  end. discriminate.
Qed.

Lemma lower_id : forall c, 97 <= c \/ c <= 64 -> to_ascii_lower c = c.
Proof.
  intros c H. unfold to_ascii_lower, is_ascii_upper.
  destruct ((65 <=? c) && (c <=? 90)) eqn:E; [lia | reflexivity].
Qed.

Lemma move_exact : forall s m, parse_move s = Some m ->
  (length s = 4%nat \/ length s = 5%nat) /\ show_move m = map to_ascii_lower s /\ move_ok m.
Proof.
  intros s m H. unfold parse_move in H.
  destruct s as [|f1 [|r1 [|f2 [|r2 rest]]]]; try discriminate.
  destruct (square_from_chars f1 r1) as [src|] eqn:E1; [|discriminate].
  destruct (square_from_chars f2 r2) as [dst|] eqn:E2; [|discriminate].
  apply square_from_chars_inv in E1. apply square_from_chars_inv in E2.
  destruct E1 as [S1 [T1 [F1 R1]]]. destruct E2 as [S2 [T2 [F2 R2]]].
  assert (map to_ascii_lower [f1; r1; f2; r2] = [f1; r1; f2; r2]) as L.
  { cbn [map]. rewrite !lower_id by lia. reflexivity. }
  destruct rest as [|c rest].
  - inversion H; subst m. split; [left; reflexivity|]. split.
    + unfold show_move. cbn [um_src um_dst um_promo]. rewrite T1, T2, L. reflexivity.
    + unfold move_ok. cbn [um_src um_dst um_promo]. auto.
  - destruct (piece_from_char c) as [p|] eqn:E3; [|discriminate]. destruct rest; [|discriminate].
    apply piece_from_char_inv in E3. destruct E3 as [P1 P2].
    inversion H; subst m. split; [right; reflexivity|]. split.
    + unfold show_move. cbn [um_src um_dst um_promo]. rewrite T1, T2, P2.
      change (map to_ascii_lower [f1; r1; f2; r2; c]) with (map to_ascii_lower [f1; r1; f2; r2] ++ [to_ascii_lower c]).
      rewrite L. reflexivity.
    + unfold move_ok. cbn [um_src um_dst um_promo]. auto.
Qed.

(* ------------------------------------------------------------------ queue helpers *)
Definition stops_here (stops : list str) (rest : queue) : Prop :=
  match rest with [] => True | t :: _ => mem_str t stops = true end.

Lemma join_space : forall ts t0, join [32] (t0 :: ts) = t0 ++ flat_map (fun t => 32 :: t) ts.
Proof.
  induction ts as [|t1 ts IH]; intro t0.
  - cbn. rewrite app_nil_r. reflexivity.
  - change (join [32] (t0 :: t1 :: ts)) with (t0 ++ [32] ++ join [32] (t1 :: ts)). rewrite IH. reflexivity.
Qed.

Lemma until_loop_app : forall stops ts acc rest,
  Forall (fun t => mem_str t stops = false) ts -> stops_here stops rest ->
  until_loop stops acc (ts ++ rest) = (acc ++ flat_map (fun t => 32 :: t) ts, rest).
Proof.
  induction ts as [|t ts IH]; intros acc rest Hts Hrest.
  - cbn [app flat_map]. rewrite app_nil_r. destruct rest as [|t r]; [reflexivity|].
    cbn [until_loop]. cbn in Hrest. rewrite Hrest. reflexivity.
  - inversion Hts as [|? ? Ht Hts']; subst. cbn [app until_loop]. rewrite Ht.
    rewrite IH by assumption. cbn [flat_map]. rewrite <- !app_assoc. reflexivity.
Qed.

Lemma until_text : forall stops txt rest, text_ok stops txt -> stops_here stops rest ->
  until_one_of_or_end stops (words txt ++ rest) = inr (txt, rest).
Proof.
  intros stops txt rest [Hne [Hj [_ Htl]]] Hrest. cbv zeta in *.
  destruct (words txt) as [|t0 ts]; [contradiction|]. cbn [tl] in Htl.
  unfold until_one_of_or_end. cbn [app next]. rewrite until_loop_app by assumption.
  rewrite <- join_space, Hj. reflexivity.
Qed.

Lemma parse_moves_until_app : forall stops ms rest,
  Forall move_ok ms -> (forall m, move_ok m -> mem_str (show_move m) stops = false) -> stops_here stops rest ->
  parse_moves_until stops (map show_move ms ++ rest) = inr (ms, rest).
Proof.
  induction ms as [|m ms IH]; intros rest Hms Hst Hrest.
  - cbn [map app]. destruct rest as [|t r]; [reflexivity|]. cbn [parse_moves_until]. cbn in Hrest. rewrite Hrest. reflexivity.
  - inversion Hms as [|? ? Hm Hms']; subst. cbn [map app parse_moves_until].
    rewrite (Hst m Hm). rewrite move_roundtrip by exact Hm. rewrite IH by assumption. reflexivity.
Qed.

Lemma words_nonempty : forall x t, In t (words x) -> t <> [].
Proof. intros x t I. unfold words in I. apply filter_In in I. destruct I as [_ I]. destruct t; [discriminate I | discriminate]. Qed.

Lemma text_words_tok_ok : forall stops txt, text_ok stops txt -> Forall tok_ok (words txt).
Proof.
  intros stops txt [_ [_ [Hc _]]]. cbv zeta in Hc. rewrite Forall_forall in *. intros t I. split.
  - apply (words_nonempty txt). exact I.
  - apply Hc. exact I.
Qed.
Lemma moves_tok_ok : forall ms, Forall move_ok ms -> Forall tok_ok (map show_move ms).
Proof.
  intros ms H. rewrite Forall_forall in *. intros t I. apply in_map_iff in I. destruct I as [m [E I]]. subst.
  apply show_move_tok_ok. apply H. exact I.
Qed.

Ltac kw_ok := split; [discriminate | reflexivity].
Ltac kw_cons := apply Forall_cons; [kw_ok|].
Ltac kws_ok := repeat kw_cons; try apply Forall_nil.

(* ------------------------------------------------------------------ the reader on a token list *)
Lemma parse_command_tokens : forall s root q, tokenize s = root :: q -> parse_command s = parse_root root q.
Proof. intros s root q H. unfold parse_command. rewrite H. reflexivity. Qed.

Lemma parse_render : forall c lay, layout_ok lay c -> Forall tok_ok (tokens c lay) -> tokens c lay <> [] ->
  tokenize (render c lay) = tokens c lay.
Proof.
  intros c lay [Hl [Ht _]] Htok Hne. unfold render. apply tokenize_render_tokens; assumption.
Qed.

(* argument-free commands: uci isready ucinewgame stop ponderhit quit *)
Definition simple_command (c : command) : Prop :=
  c = Uci \/ c = IsReady \/ c = UciNewGame \/ c = Stop \/ c = PonderHit \/ c = Quit.

Lemma roundtrip_simple : forall c lay, simple_command c -> layout_ok lay c -> parse_command (render c lay) = inr c.
Proof.
  intros c lay H L.
  destruct H as [H|[H|[H|[H|[H|H]]]]]; subst c;
  (rewrite (parse_command_tokens _ _ [] (parse_render _ lay L ltac:(kws_ok) ltac:(discriminate))); reflexivity).
Qed.

Lemma roundtrip_debug : forall b lay, layout_ok lay (SetDebug b) -> parse_command (render (SetDebug b) lay) = inr (SetDebug b).
Proof.
  intros b lay L.
  assert (Forall tok_ok (tokens (SetDebug b) lay)) as T by (destruct b; cbn [tokens]; kws_ok).
  rewrite (parse_command_tokens _ _ _ (parse_render _ lay L T ltac:(discriminate))). destruct b; reflexivity.
Qed.

Lemma consume_hit : forall t q, consume t (t :: q) = (inr tt, q).
Proof. intros t q. unfold consume, next. rewrite str_eqb_refl. reflexivity. Qed.

Lemma roundtrip_setoption : forall name lay, cmd_ok (SetOption name) -> layout_ok lay (SetOption name) ->
  parse_command (render (SetOption name) lay) = inr (SetOption name).
Proof.
  intros name lay C L. cbn [cmd_ok] in C.
  assert (Forall tok_ok (tokens (SetOption name) lay)) as T.
  { cbn [tokens app]. kws_ok. apply (text_words_tok_ok _ _ C). }
  rewrite (parse_command_tokens _ _ _ (parse_render _ lay L T ltac:(discriminate))).
  change (parse_root (lit "setoption") (lit "name" :: words name)) with (parse_setoption (lit "name" :: words name)).
  unfold parse_setoption. rewrite consume_hit. unfold until_token_or_end.
  rewrite <- (app_nil_r (words name)). rewrite (until_text _ _ [] C I). reflexivity.
Qed.

Lemma stops_here_hd : forall t q, stops_here [t] (t :: q).
Proof. intros t q. cbn. rewrite str_eqb_refl. reflexivity. Qed.

Lemma roundtrip_setoptionvalue : forall name value lay, cmd_ok (SetOptionValue name value) -> layout_ok lay (SetOptionValue name value) ->
  parse_command (render (SetOptionValue name value) lay) = inr (SetOptionValue name value).
Proof.
  intros name value lay [C1 C2] L.
  assert (Forall tok_ok (tokens (SetOptionValue name value) lay)) as T.
  { cbn [tokens app]. kws_ok. apply Forall_app. split; [apply (text_words_tok_ok _ _ C1)|].
    kw_cons. apply (text_words_tok_ok _ _ C2). }
  rewrite (parse_command_tokens _ _ _ (parse_render _ lay L T ltac:(discriminate))).
  change (parse_root (lit "setoption") ?q) with (parse_setoption q).
  unfold parse_setoption. rewrite consume_hit. unfold until_token_or_end. cbn [app].
  rewrite (until_text _ _ _ C1 (stops_here_hd _ _)). rewrite consume_hit. unfold until_end.
  rewrite <- (app_nil_r (words value)). rewrite (until_text _ _ [] C2 I). reflexivity.
Qed.

Lemma roundtrip_registerlater : forall lay, layout_ok lay RegisterLater -> parse_command (render RegisterLater lay) = inr RegisterLater.
Proof.
  intros lay L.
  rewrite (parse_command_tokens _ _ _ (parse_render _ lay L ltac:(kws_ok) ltac:(discriminate))). reflexivity.
Qed.

Lemma roundtrip_register : forall name code lay, cmd_ok (Register name code) -> layout_ok lay (Register name code) ->
  parse_command (render (Register name code) lay) = inr (Register name code).
Proof.
  intros name code lay [C1 C2] L.
  assert (Forall tok_ok (tokens (Register name code) lay)) as T.
  { cbn [tokens app]. kws_ok. apply Forall_app. split; [apply (text_words_tok_ok _ _ C1)|].
    kw_cons. apply (text_words_tok_ok _ _ C2). }
  rewrite (parse_command_tokens _ _ _ (parse_render _ lay L T ltac:(discriminate))).
  change (parse_root (lit "register") ?q) with (parse_register q).
  unfold parse_register. cbn [app peek].
  change (str_eqb (lit "name") (lit "later")) with false. cbn iota.
  rewrite consume_hit. unfold until_token_or_end.
  rewrite (until_text _ _ _ C1 (stops_here_hd _ _)). rewrite consume_hit. unfold until_end.
  rewrite <- (app_nil_r (words code)). rewrite (until_text _ _ [] C2 I). reflexivity.
Qed.

(* position *)
Lemma position_tail : forall lay t ms, Forall move_ok ms ->
  match consume (lit "moves") (moves_tokens lay ms) with
  | (inr _, q3) => match parse_moves_until [] q3 with inl e => inl e | inr (ms', _) => inr (PositionFrom t ms') end
  | (inl UnexpectedEndOfCommand, _) => inr (PositionFrom t [])
  | (inl e, _) => inl e
  end = inr (PositionFrom t ms).
Proof.
  intros lay t ms H. unfold moves_tokens. destruct ms as [|m ms].
  - destruct (lay_moves_kw lay); reflexivity.
  - rewrite consume_hit. rewrite <- (app_nil_r (map show_move (m :: ms))).
    rewrite parse_moves_until_app; [reflexivity | exact H | reflexivity | exact I].
Qed.

Lemma moves_tokens_ok : forall lay ms, Forall move_ok ms -> Forall tok_ok (moves_tokens lay ms).
Proof.
  intros lay ms H. unfold moves_tokens. destruct ms as [|m ms].
  - destruct (lay_moves_kw lay); kws_ok.
  - kw_cons. apply moves_tok_ok; exact H.
Qed.
Lemma moves_tokens_stop : forall lay ms, stops_here [lit "moves"] (moves_tokens lay ms).
Proof.
  intros lay ms. unfold moves_tokens. destruct ms; [destruct (lay_moves_kw lay)|]; try exact I; apply stops_here_hd.
Qed.

Lemma roundtrip_position : forall t ms lay, cmd_ok (PositionFrom t ms) -> layout_ok lay (PositionFrom t ms) ->
  parse_command (render (PositionFrom t ms) lay) = inr (PositionFrom t ms).
Proof.
  intros t ms lay [[f [F1 F2]] [C M]] L.
  assert (Forall tok_ok (tokens (PositionFrom t ms) lay)) as T.
  { cbn [tokens]. kw_cons. apply Forall_app. split; [|apply moves_tokens_ok; exact M].
    destruct (lay_startpos lay && str_eqb t STARTPOS); [kws_ok|].
    kw_cons. apply (text_words_tok_ok _ _ C). }
  rewrite (parse_command_tokens _ _ _ (parse_render _ lay L T ltac:(discriminate))).
  change (parse_root (lit "position") ?q) with (parse_position q).
  unfold parse_position. destruct (lay_startpos lay && str_eqb t STARTPOS) eqn:E.
  - apply andb_true_iff in E. destruct E as [_ E]. apply str_eqb_eq in E.
    cbn [app next]. change (str_eqb (lit "startpos") (lit "fen")) with false.
    change (str_eqb (lit "startpos") (lit "startpos")) with true. cbn iota.
    rewrite <- E. apply position_tail. exact M.
  - cbn [app next]. change (str_eqb (lit "fen") (lit "fen")) with true. cbn iota.
    unfold until_token_or_end. rewrite (until_text _ _ _ C (moves_tokens_stop _ _)).
    rewrite F1, F2. apply position_tail. exact M.
Qed.

(* ------------------------------------------------------------------ go: fuel *)
Lemma parse_moves_until_len : forall stops q ms q', parse_moves_until stops q = inr (ms, q') -> (length q' <= length q)%nat.
Proof.
  induction q as [|t r IH]; intros ms q' H; cbn [parse_moves_until] in H.
  - inversion H; subst. apply Nat.le_refl.
  - destruct (mem_str t stops); [inversion H; subst; apply Nat.le_refl|].
    destruct (parse_move t); [|discriminate].
    destruct (parse_moves_until stops r) as [e|[ms0 q0]] eqn:E; [discriminate|].
    inversion H; subst. specialize (IH _ _ eq_refl). cbn [length]. lia.
Qed.
Lemma parse_duration_len : forall q d q', parse_duration q = inr (d, q') -> (length q' <= length q)%nat.
Proof.
  intros [|t r] d q' H; cbn in H; [discriminate|]. destruct (parse_i64 t); [|discriminate]. inversion H; subst. cbn [length]. lia.
Qed.
Lemma parse_u64_tok_len : forall q d q', parse_u64_tok q = inr (d, q') -> (length q' <= length q)%nat.
Proof.
  intros [|t r] d q' H; cbn in H; [discriminate|]. destruct (parse_u64 t); [|discriminate]. inversion H; subst. cbn [length]. lia.
Qed.

Lemma go_step_len : forall g t q g' q', go_step g t q = inr (g', q') -> (length q' <= length q)%nat.
Proof.
  intros g t q g' q' H. unfold go_step in H.
  repeat match type of H with
  | (if ?b then _ else _) = _ => destruct b
  end;
  try discriminate;
  try (inversion H; subst; apply Nat.le_refl);
  try (destruct (parse_duration q) as [e|[d q0]] eqn:E; [discriminate|]; inversion H; subst; exact (parse_duration_len _ _ _ E));
  try (destruct (parse_u64_tok q) as [e|[d q0]] eqn:E; [discriminate|]; inversion H; subst; exact (parse_u64_tok_len _ _ _ E)).
  destruct (parse_moves_until GO_TOKENS q) as [e|[ms q0]] eqn:E; [discriminate|]. inversion H; subst.
  exact (parse_moves_until_len _ _ _ _ E).
Qed.

Lemma go_loop_fuel : forall f1 f2 g v q, (length q < f1)%nat -> (length q < f2)%nat -> go_loop f1 g v q = go_loop f2 g v q.
Proof.
  induction f1 as [|f1 IH]; intros f2 g v q H1 H2; [lia|]. destruct f2 as [|f2]; [lia|].
  cbn [go_loop]. destruct q as [|t q1]; [reflexivity|]. cbn [next].
  destruct (mem_str t v); [reflexivity|].
  destruct (go_step g t q1) as [e|[g' q']] eqn:E; [reflexivity|].
  apply go_step_len in E. cbn [length] in *. apply IH; lia.
Qed.
Lemma go_loop_enough : forall fuel g v q, (length q < fuel)%nat -> go_loop fuel g v q <> None.
Proof.
  induction fuel as [|fuel IH]; intros g v q H; [lia|].
  cbn [go_loop]. destruct q as [|t q1]; [discriminate|]. cbn [next].
  destruct (mem_str t v); [discriminate|].
  destruct (go_step g t q1) as [e|[g' q']] eqn:E; [discriminate|].
  apply go_step_len in E. cbn [length] in *. apply IH; lia.
Qed.

Definition go_run (g : go) (v : list str) (q : queue) : option (parser_error + command) := go_loop (S (length q)) g v q.
Definition go_out (o : option (parser_error + command)) : parser_error + command :=
  match o with Some r => r | None => inl UnexpectedEndOfCommand end.

Lemma parse_go_run : forall q, parse_go q = go_out (go_run GO_EMPTY [] q).
Proof. reflexivity. Qed.
Lemma go_loop_S : forall f g v t q, go_loop (S f) g v (t :: q) =
  if mem_str t v then Some (inl (DuplicatedToken t))
  else match go_step g t q with inl e => Some (inl e) | inr (g', q') => go_loop f g' (t :: v) q' end.
Proof. reflexivity. Qed.
Lemma go_run_nil : forall g v, go_run g v [] = Some (inr (Go g)).
Proof. reflexivity. Qed.
Lemma go_run_dup : forall g v t q, mem_str t v = true -> go_run g v (t :: q) = Some (inl (DuplicatedToken t)).
Proof. intros g v t q H. unfold go_run. cbn [go_loop next]. rewrite H. reflexivity. Qed.
Lemma go_run_err : forall g v t q e, mem_str t v = false -> go_step g t q = inl e -> go_run g v (t :: q) = Some (inl e).
Proof. intros g v t q e H E. unfold go_run. cbn [go_loop next]. rewrite H, E. reflexivity. Qed.
Lemma go_run_cons : forall g v t q g' q', mem_str t v = false -> go_step g t q = inr (g', q') ->
  go_run g v (t :: q) = go_run g' (t :: v) q'.
Proof.
  intros g v t q g' q' H E. unfold go_run. cbn [length]. rewrite go_loop_S. rewrite H, E.
  apply go_step_len in E. apply go_loop_fuel; lia.
Qed.

(* ------------------------------------------------------------------ go: one parameter *)
Definition go_set (src acc : go) (k : gokey) : go :=
  match k with
  | KSearchMoves => set_search_moves acc (search_moves src)
  | KPonder => set_ponder acc (ponder src)
  | KWtime => set_wtime acc (wtime src)
  | KBtime => set_btime acc (btime src)
  | KWinc => set_winc acc (winc src)
  | KBinc => set_binc acc (binc src)
  | KMovesToGo => set_moves_to_go acc (moves_to_go src)
  | KDepth => set_depth acc (depth src)
  | KNodes => set_nodes acc (nodes src)
  | KMate => set_mate acc (mate src)
  | KMoveTime => set_movetime acc (movetime src)
  | KInfinite => set_infinite acc (infinite src)
  end.

Definition item_args (lay : layout) (g : go) (k : gokey) : list str := tl (item_tokens lay g k).
Lemma item_tokens_cons : forall lay g k, item_tokens lay g k = key_token k :: item_args lay g k.
Proof. intros lay g k. unfold item_args. destruct k; cbn [item_tokens]; try reflexivity; destruct (go_value g _); reflexivity. Qed.

Lemma key_token_go_token : forall k, mem_str (key_token k) GO_TOKENS = true.
Proof. destruct k; reflexivity. Qed.
Lemma key_token_inj : forall a b, key_token a = key_token b -> a = b.
Proof. intros a b H. destruct a, b; try reflexivity; discriminate H. Qed.
Lemma key_token_tok_ok : forall k, tok_ok (key_token k).
Proof. destruct k; kw_ok. Qed.

Definition num_ok (lay : layout) (g : go) : Prop :=
  forall k v, go_value g k = Some v -> num_style_ok (is_duration k) (lay_num lay k) v.

Lemma go_step_item : forall lay g acc k rest, go_ok g -> num_ok lay g -> key_allowed g k ->
  (k = KSearchMoves -> stops_here GO_TOKENS rest) ->
  go_step acc (key_token k) (item_args lay g k ++ rest) = inr (go_set g acc k, rest).
Proof.
  intros lay g acc k rest G NS A R.
  destruct G as [Gm [G1 [G2 [G3 [G4 [G5 [G6 [G7 [G8 G9]]]]]]]]].
  destruct k; unfold item_args; cbn [item_tokens tl go_value key_allowed key_required] in *.
  - change (go_step acc (key_token KSearchMoves) ?q) with
      (match parse_moves_until GO_TOKENS q with inl e => inl e | inr (ms, q') => inr (set_search_moves acc ms, q') end).
    rewrite parse_moves_until_app; [reflexivity | exact Gm | exact show_move_not_go_token | apply R; reflexivity].
  - cbn [app]. change (go_step acc (key_token KPonder) rest) with (@inr parser_error _ (set_ponder acc true, rest)).
    cbn [go_set]. rewrite A. reflexivity.
  - pose proof (NS KWtime) as S. cbn [go_value is_duration] in S. destruct (wtime g) as [v|] eqn:E; [|contradiction].
    cbn [tl app].
    change (go_step acc (key_token KWtime) ?q) with
      (match parse_duration q with inl e => inl e | inr (d, q') => inr (set_wtime acc (Some d), q') end).
    rewrite parse_duration_num; [cbn [go_set]; rewrite E; reflexivity | apply S; reflexivity | exact G1].
  - pose proof (NS KBtime) as S. cbn [go_value is_duration] in S. destruct (btime g) as [v|] eqn:E; [|contradiction].
    cbn [tl app].
    change (go_step acc (key_token KBtime) ?q) with
      (match parse_duration q with inl e => inl e | inr (d, q') => inr (set_btime acc (Some d), q') end).
    rewrite parse_duration_num; [cbn [go_set]; rewrite E; reflexivity | apply S; reflexivity | exact G2].
  - pose proof (NS KWinc) as S. cbn [go_value is_duration] in S. destruct (winc g) as [v|] eqn:E; [|contradiction].
    cbn [tl app].
    change (go_step acc (key_token KWinc) ?q) with
      (match parse_duration q with inl e => inl e | inr (d, q') => inr (set_winc acc (Some d), q') end).
    rewrite parse_duration_num; [cbn [go_set]; rewrite E; reflexivity | apply S; reflexivity | exact G3].
  - pose proof (NS KBinc) as S. cbn [go_value is_duration] in S. destruct (binc g) as [v|] eqn:E; [|contradiction].
    cbn [tl app].
    change (go_step acc (key_token KBinc) ?q) with
      (match parse_duration q with inl e => inl e | inr (d, q') => inr (set_binc acc (Some d), q') end).
    rewrite parse_duration_num; [cbn [go_set]; rewrite E; reflexivity | apply S; reflexivity | exact G4].
  - pose proof (NS KMovesToGo) as S. cbn [go_value is_duration] in S. destruct (moves_to_go g) as [v|] eqn:E; [|contradiction].
    cbn [tl app].
    change (go_step acc (key_token KMovesToGo) ?q) with
      (match parse_u64_tok q with inl e => inl e | inr (d, q') => inr (set_moves_to_go acc (Some d), q') end).
    rewrite parse_u64_num; [cbn [go_set]; rewrite E; reflexivity | apply S; reflexivity | exact G6].
  - pose proof (NS KDepth) as S. cbn [go_value is_duration] in S. destruct (depth g) as [v|] eqn:E; [|contradiction].
    cbn [tl app].
    change (go_step acc (key_token KDepth) ?q) with
      (match parse_u64_tok q with inl e => inl e | inr (d, q') => inr (set_depth acc (Some d), q') end).
    rewrite parse_u64_num; [cbn [go_set]; rewrite E; reflexivity | apply S; reflexivity | exact G7].
  - pose proof (NS KNodes) as S. cbn [go_value is_duration] in S. destruct (nodes g) as [v|] eqn:E; [|contradiction].
    cbn [tl app].
    change (go_step acc (key_token KNodes) ?q) with
      (match parse_u64_tok q with inl e => inl e | inr (d, q') => inr (set_nodes acc (Some d), q') end).
    rewrite parse_u64_num; [cbn [go_set]; rewrite E; reflexivity | apply S; reflexivity | exact G8].
  - pose proof (NS KMate) as S. cbn [go_value is_duration] in S. destruct (mate g) as [v|] eqn:E; [|contradiction].
    cbn [tl app].
    change (go_step acc (key_token KMate) ?q) with
      (match parse_u64_tok q with inl e => inl e | inr (d, q') => inr (set_mate acc (Some d), q') end).
    rewrite parse_u64_num; [cbn [go_set]; rewrite E; reflexivity | apply S; reflexivity | exact G9].
  - pose proof (NS KMoveTime) as S. cbn [go_value is_duration] in S. destruct (movetime g) as [v|] eqn:E; [|contradiction].
    cbn [tl app].
    change (go_step acc (key_token KMoveTime) ?q) with
      (match parse_duration q with inl e => inl e | inr (d, q') => inr (set_movetime acc (Some d), q') end).
    rewrite parse_duration_num; [cbn [go_set]; rewrite E; reflexivity | apply S; reflexivity | exact G5].
  - cbn [app]. change (go_step acc (key_token KInfinite) rest) with (@inr parser_error _ (set_infinite acc true, rest)).
    cbn [go_set]. rewrite A. reflexivity.
Qed.

(* ------------------------------------------------------------------ go: a sequence of parameters in any order *)
Definition ends_with_searchmoves (order : list gokey) : Prop := exists pre, order = pre ++ [KSearchMoves].

Lemma items_stop : forall lay g order rest, stops_here GO_TOKENS rest \/ order <> [] ->
  stops_here GO_TOKENS (flat_map (item_tokens lay g) order ++ rest).
Proof.
  intros lay g [|k order] rest H.
  - destruct H as [H|H]; [exact H | contradiction].
  - cbn [flat_map]. rewrite item_tokens_cons. cbn [app stops_here]. apply key_token_go_token.
Qed.

Lemma go_run_items : forall lay g, go_ok g -> num_ok lay g ->
  forall order acc visited rest,
  NoDup order -> (forall k, In k order -> key_allowed g k /\ ~ In (key_token k) visited) ->
  (ends_with_searchmoves order -> stops_here GO_TOKENS rest) ->
  go_run acc visited (flat_map (item_tokens lay g) order ++ rest) =
  go_run (fold_left (go_set g) order acc) (rev (map key_token order) ++ visited) rest.
Proof.
  intros lay g G NS. induction order as [|k order IH]; intros acc visited rest ND HA HR; [reflexivity|].
  inversion ND as [|? ? Hk ND']; subst.
  cbn [flat_map]. rewrite item_tokens_cons. rewrite <- !app_assoc. cbn [app].
  destruct (HA k (or_introl eq_refl)) as [Ak Vk].
  rewrite (go_run_cons acc visited (key_token k) _ (go_set g acc k) (flat_map (item_tokens lay g) order ++ rest)).
  - rewrite IH.
    + cbn [fold_left map rev]. rewrite <- app_assoc. reflexivity.
    + exact ND'.
    + intros k' I. destruct (HA k' (or_intror I)) as [A V]. split; [exact A|].
      intros [E|E]; [apply key_token_inj in E; subst; contradiction | contradiction].
    + intros [pre E]. apply HR. exists (k :: pre). rewrite E. reflexivity.
  - apply mem_str_notIn. exact Vk.
  - apply go_step_item; try assumption. intro E. apply items_stop.
    destruct order as [|k2 order]; [left; apply HR; exists []; rewrite E; reflexivity | right; discriminate].
Qed.

(* the fields of a Go, indexed by parameter *)
Inductive fval := FMoves (l : list uci_move) | FFlag (b : bool) | FNum (o : option N).
Definition field (k : gokey) (a : go) : fval :=
  match k with
  | KSearchMoves => FMoves (search_moves a) | KPonder => FFlag (ponder a) | KInfinite => FFlag (infinite a)
  | _ => FNum (go_value a k)
  end.
Lemma go_ext : forall a b, (forall k, field k a = field k b) -> a = b.
Proof.
  intros a b H. destruct a, b.
  pose proof (H KSearchMoves) as H1. pose proof (H KPonder) as H2. pose proof (H KWtime) as H3. pose proof (H KBtime) as H4.
  pose proof (H KWinc) as H5. pose proof (H KBinc) as H6. pose proof (H KMovesToGo) as H7. pose proof (H KDepth) as H8.
  pose proof (H KNodes) as H9. pose proof (H KMate) as H10. pose proof (H KMoveTime) as H11. pose proof (H KInfinite) as H12.
  cbn in *. congruence.
Qed.
Lemma field_set_same : forall g acc k, field k (go_set g acc k) = field k g.
Proof. intros g acc k. destruct k; reflexivity. Qed.
Lemma field_set_other : forall g acc k k', k <> k' -> field k' (go_set g acc k) = field k' acc.
Proof. intros g acc k k' H. destruct k, k'; try reflexivity; contradiction. Qed.

Definition gokey_eq_dec : forall a b : gokey, {a = b} + {a <> b}.
Proof. decide equality. Defined.

Lemma field_fold : forall g order acc k,
  field k (fold_left (go_set g) order acc) = if in_dec gokey_eq_dec k order then field k g else field k acc.
Proof.
  intros g. induction order as [|k0 order IH]; intros acc k; [reflexivity|].
  cbn [fold_left]. rewrite IH.
  destruct (in_dec gokey_eq_dec k order) as [I|I]; destruct (in_dec gokey_eq_dec k (k0 :: order)) as [J|J]; try reflexivity.
  - exfalso. apply J. right. exact I.
  - destruct J as [J|J]; [subst; apply field_set_same | contradiction].
  - apply field_set_other. intro E. apply J. left. exact E.
Qed.

Lemma field_absent : forall g k, ~ key_required g k -> field k GO_EMPTY = field k g.
Proof.
  intros g k H. destruct k; cbn [field key_required go_value GO_EMPTY search_moves ponder infinite wtime btime winc binc
                                   moves_to_go depth nodes mate movetime] in *.
  - destruct (search_moves g); [reflexivity | exfalso; apply H; discriminate].
  - destruct (ponder g); [exfalso; apply H; reflexivity | reflexivity].
  - destruct (wtime g); [exfalso; apply H; discriminate | reflexivity].
  - destruct (btime g); [exfalso; apply H; discriminate | reflexivity].
  - destruct (winc g); [exfalso; apply H; discriminate | reflexivity].
  - destruct (binc g); [exfalso; apply H; discriminate | reflexivity].
  - destruct (moves_to_go g); [exfalso; apply H; discriminate | reflexivity].
  - destruct (depth g); [exfalso; apply H; discriminate | reflexivity].
  - destruct (nodes g); [exfalso; apply H; discriminate | reflexivity].
  - destruct (mate g); [exfalso; apply H; discriminate | reflexivity].
  - destruct (movetime g); [exfalso; apply H; discriminate | reflexivity].
  - destruct (infinite g); [exfalso; apply H; reflexivity | reflexivity].
Qed.

Lemma fold_order : forall g order, (forall k, key_required g k -> In k order) -> fold_left (go_set g) order GO_EMPTY = g.
Proof.
  intros g order H. apply go_ext. intro k. rewrite field_fold.
  destruct (in_dec gokey_eq_dec k order) as [I|I]; [reflexivity|].
  apply field_absent. intro R. apply I. apply H. exact R.
Qed.

Lemma item_tokens_ok : forall lay g k, go_ok g -> Forall tok_ok (item_tokens lay g k).
Proof.
  intros lay g k G. destruct G as [Gm _].
  destruct k; cbn [item_tokens]; try (destruct (go_value g _)); repeat (apply Forall_cons; [first [apply key_token_tok_ok | apply num_text_tok_ok]|]);
  try apply Forall_nil.
  apply moves_tok_ok. exact Gm.
Qed.
Lemma items_tokens_ok : forall lay g order, go_ok g -> Forall tok_ok (flat_map (item_tokens lay g) order).
Proof.
  intros lay g order G. induction order as [|k order IH]; [constructor|]. cbn [flat_map]. apply Forall_app.
  split; [apply item_tokens_ok; exact G | exact IH].
Qed.

Theorem roundtrip_go : forall g lay, cmd_ok (Go g) -> layout_ok lay (Go g) -> parse_command (render (Go g) lay) = inr (Go g).
Proof.
  intros g lay G L.
  assert (Forall tok_ok (tokens (Go g) lay)) as T by (cbn [tokens]; kw_cons; apply items_tokens_ok; exact G).
  rewrite (parse_command_tokens _ _ _ (parse_render _ lay L T ltac:(discriminate))).
  destruct L as [_ [_ [ND [Hreq [Hall Hnum]]]]].
  change (parse_root (lit "go") ?q) with (parse_go q). rewrite parse_go_run.
  rewrite <- (app_nil_r (flat_map (item_tokens lay g) (lay_order lay))).
  rewrite (go_run_items lay g G Hnum); [| exact ND | | intros _; exact I].
  - rewrite go_run_nil. cbn [go_out]. rewrite fold_order by exact Hreq. reflexivity.
  - intros k I. split; [apply Hall; exact I | intros []].
Qed.

Theorem roundtrip : forall c lay, cmd_ok c -> layout_ok lay c -> parse_command (render c lay) = inr c.
Proof.
  intros c lay C L. destruct c.
  - apply roundtrip_simple; [unfold simple_command; tauto | exact L].
  - apply roundtrip_debug; exact L.
  - apply roundtrip_simple; [unfold simple_command; tauto | exact L].
  - apply roundtrip_setoption; assumption.
  - apply roundtrip_setoptionvalue; assumption.
  - apply roundtrip_registerlater; exact L.
  - apply roundtrip_register; assumption.
  - apply roundtrip_simple; [unfold simple_command; tauto | exact L].
  - apply roundtrip_position; assumption.
  - apply roundtrip_go; assumption.
  - apply roundtrip_simple; [unfold simple_command; tauto | exact L].
  - apply roundtrip_simple; [unfold simple_command; tauto | exact L].
  - apply roundtrip_simple; [unfold simple_command; tauto | exact L].
Qed.

(* ------------------------------------------------------------------ rejected lines *)
Lemma parse_empty : forall s, tokenize s = [] -> parse_command s = inl UnexpectedEndOfCommand.
Proof. intros s H. unfold parse_command. rewrite H. reflexivity. Qed.

Lemma parse_unknown : forall s w rest, tokenize s = w :: rest -> ~ In w COMMANDS -> parse_command s = inl (UnknownCommand w).
Proof.
  intros s w rest H N. rewrite (parse_command_tokens _ _ _ H). unfold parse_root.
  repeat match goal with
  | |- (if str_eqb w ?l then _ else _) = _ =>
      let E := fresh "E" in destruct (str_eqb w l) eqn:E;
      [ exfalso; apply N; apply str_eqb_eq in E; subst w; unfold COMMANDS; cbn [map In]; tauto | ]
  end. reflexivity.
Qed.

(* a line is never read as a command other than the one named by its first word *)
Definition command_word (c : command) : str :=
  match c with
  | Uci => lit "uci" | SetDebug _ => lit "debug" | IsReady => lit "isready" | SetOption _ | SetOptionValue _ _ => lit "setoption"
  | RegisterLater | Register _ _ => lit "register" | UciNewGame => lit "ucinewgame" | PositionFrom _ _ => lit "position"
  | Go _ => lit "go" | Stop => lit "stop" | PonderHit => lit "ponderhit" | Quit => lit "quit"
  end.

Lemma go_loop_result : forall fuel g v q r, go_loop fuel g v q = Some (inr r) -> exists g', r = Go g'.
Proof.
  induction fuel as [|fuel IH]; intros g v q r H; [discriminate|]. cbn [go_loop] in H.
  destruct (next q) as [e|[t q1]]; [inversion H; eexists; reflexivity|].
  destruct (mem_str t v); [discriminate|]. destruct (go_step g t q1) as [e|[g' q']]; [discriminate|].
  exact (IH _ _ _ _ H).
Qed.

Lemma parse_root_word : forall root q c, parse_root root q = inr c -> root = command_word c.
Proof.
  intros root q c H. unfold parse_root in H.
  repeat match type of H with
  | (if str_eqb root ?l then _ else _) = _ =>
      let E := fresh "E" in destruct (str_eqb root l) eqn:E; [apply str_eqb_eq in E; subst root | clear E]
  end; try discriminate; try (inversion H; subst c; reflexivity).
  - unfold parse_go in H. destruct (go_loop (S (length q)) GO_EMPTY [] q) as [[e|r]|] eqn:E; try discriminate.
    inversion H; subst. apply go_loop_result in E. destruct E as [g' E]. subst. reflexivity.
  - unfold parse_position in H. destruct (next q) as [e|[t q1]]; [discriminate|].
    match type of H with (match ?x with _ => _ end) = _ => destruct x as [e|[ft q2]] end; [discriminate|].
    destruct (consume (lit "moves") q2) as [[e|u] q3].
    + destruct e; try discriminate. inversion H; reflexivity.
    + destruct (parse_moves_until [] q3) as [e|[ms q4]]; [discriminate|]. inversion H; reflexivity.
  - unfold parse_register in H. destruct (peek q) as [e|t]; [discriminate|].
    destruct (str_eqb t (lit "later")); [inversion H; reflexivity|].
    destruct (consume (lit "name") q) as [[e|u] q1]; [discriminate|].
    destruct (until_token_or_end (lit "code") q1) as [e|[nm q2]]; [discriminate|].
    destruct (consume (lit "code") q2) as [[e|u2] q3]; [discriminate|].
    destruct (until_end q3) as [e|[cd q4]]; [discriminate|]. inversion H; reflexivity.
  - unfold parse_setoption in H. destruct (consume (lit "name") q) as [[e|u] q1]; [discriminate|].
    destruct (until_token_or_end (lit "value") q1) as [e|[nm q2]]; [discriminate|].
    destruct (consume (lit "value") q2) as [[e|u2] q3].
    + destruct e; try discriminate. inversion H; reflexivity.
    + destruct (until_end q3) as [e|[vl q4]]; [discriminate|]. inversion H; reflexivity.
  - unfold parse_debug in H. destruct (next q) as [e|[t q1]]; [discriminate|].
    destruct (str_eqb t (lit "on")); [inversion H; reflexivity|].
    destruct (str_eqb t (lit "off")); [inversion H; reflexivity | discriminate].
Qed.

Theorem parse_first_word : forall s c, parse_command s = inr c -> exists rest, tokenize s = command_word c :: rest.
Proof.
  intros s c H. unfold parse_command in H. destruct (tokenize s) as [|root q]; [discriminate|].
  cbn [next] in H. apply parse_root_word in H. subst. exists q. reflexivity.
Qed.

(* Proofs for property C14 (SAN).
   Part 1: facts about Rules.legal_moves (where moves come from, ranges, pawn / king geometry).
   Part 2: the move text is uniquely decomposable into letter / origin / capture mark / target / promotion.
   Part 3: the standard text is an acceptable text (san_denotes), and it is acceptable for no other legal move
           (denotes_unique) -- hence two legal moves never share their SAN and the spec reader returns the move.
   Part 4: lemmas about Model/Notation.v uci_to_pgn that need no model-vs-rules equivalence, and the
           equivalence of the implementation's disambiguation table with the standard rule. *)
Require Import Ink.Lib.Str.
Require Import NArith ZArith List Bool Lia.
Require Import Ink.Spec.Rules Ink.Spec.SanSpec.
Import ListNotations.
Open Scope Z_scope.

Arguments N.add : simpl never.
Arguments N.sub : simpl never.
Arguments N.mul : simpl never.
Arguments N.div : simpl never.
Arguments N.modulo : simpl never.
Arguments N.eqb : simpl never.
Arguments N.ltb : simpl never.
Arguments N.leb : simpl never.
Arguments Z.add : simpl never.
Arguments Z.mul : simpl never.
Arguments Z.sub : simpl never.
Arguments Z.div : simpl never.
Arguments Z.modulo : simpl never.
Arguments Z.eqb : simpl never.
Arguments Z.ltb : simpl never.
Arguments Z.leb : simpl never.
Arguments Z.abs : simpl never.
Arguments Z.to_N : simpl never.

(* ================================================================ Part 1 *)

Lemma squares_In : forall s, In s squares <-> 0 <= s < 64.
Proof.
  intros s. unfold squares. rewrite in_map_iff. split.
  - intros [n [<- Hn]]. apply in_seq in Hn. lia.
  - intros H. exists (Z.to_nat s). split; [lia|]. apply in_seq. lia.
Qed.

Lemma color_eqb_eq : forall a b, color_eqb a b = true <-> a = b.
Proof. destruct a, b; simpl; split; congruence. Qed.
Lemma kind_eqb_eq : forall a b, kind_eqb a b = true <-> a = b.
Proof. destruct a, b; simpl; split; congruence. Qed.
Lemma color_eqb_refl : forall a, color_eqb a a = true.
Proof. destruct a; reflexivity. Qed.
Lemma kind_eqb_refl : forall a, kind_eqb a a = true.
Proof. destruct a; reflexivity. Qed.

Lemma on_board_iff : forall f r, on_board f r = true <-> (0 <= f < 8 /\ 0 <= r < 8).
Proof. intros. unfold on_board. rewrite !andb_true_iff, !Z.leb_le, !Z.ltb_lt. lia. Qed.

Lemma file_sq_of : forall f r, 0 <= f < 8 -> fileZ (sq_of f r) = f.
Proof.
  intros. unfold fileZ, sq_of. replace (f + 8 * r) with (f + r * 8) by lia. rewrite Z.mod_add by lia. apply Z.mod_small; lia.
Qed.
Lemma row_sq_of : forall f r, 0 <= f < 8 -> rowZ (sq_of f r) = r.
Proof.
  intros. unfold rowZ, sq_of. replace (f + 8 * r) with (f + r * 8) by lia. rewrite Z.div_add by lia. rewrite Z.div_small; lia.
Qed.
Lemma sq_of_range : forall f r, 0 <= f < 8 -> 0 <= r < 8 -> 0 <= sq_of f r < 64.
Proof. intros. unfold sq_of. lia. Qed.
Lemma sq_decomp : forall s, s = sq_of (fileZ s) (rowZ s).
Proof. intros. unfold sq_of, fileZ, rowZ. pose proof (Z.div_mod s 8). lia. Qed.
Lemma file_row_range : forall s, 0 <= s < 64 -> 0 <= fileZ s < 8 /\ 0 <= rowZ s < 8.
Proof.
  intros. unfold fileZ, rowZ. split; [apply Z.mod_pos_bound; lia|].
  split; [apply Z.div_pos; lia | apply Z.div_lt_upper_bound; lia].
Qed.
Lemma sq_eq : forall s s', fileZ s = fileZ s' -> rowZ s = rowZ s' -> s = s'.
Proof. intros. rewrite (sq_decomp s), (sq_decomp s'). congruence. Qed.

Lemma step_targets_In : forall f r ds t, In t (step_targets f r ds) ->
  exists d, In d ds /\ on_board (f + fst d) (r + snd d) = true /\ t = sq_of (f + fst d) (r + snd d).
Proof.
  intros f r ds t H. unfold step_targets in H. apply in_flat_map in H. destruct H as [d [Hd Ht]].
  exists d. destruct (on_board (f + fst d) (r + snd d)) eqn:E; simpl in Ht; [|contradiction].
  destruct Ht as [<- | []]. auto.
Qed.

Lemma slide_In : forall p n f r d t, In t (slide p n f r d) -> 0 <= t < 64.
Proof.
  induction n; intros f r d t H; simpl in H; [contradiction|].
  destruct (on_board (f + fst d) (r + snd d)) eqn:E; [|contradiction].
  apply on_board_iff in E.
  destruct (get p (sq_of (f + fst d) (r + snd d))).
  - destruct H as [<- | []]. apply sq_of_range; lia.
  - destruct H as [<- | H]. apply sq_of_range; lia. eauto.
Qed.

Lemma step_targets_range : forall f r ds t, In t (step_targets f r ds) -> 0 <= t < 64.
Proof.
  intros. apply step_targets_In in H. destruct H as [d [_ [E ->]]]. apply on_board_iff in E. apply sq_of_range; lia.
Qed.

Lemma attacked_from_range : forall p s pc t, In t (attacked_from p s pc) -> 0 <= t < 64.
Proof.
  intros p s pc t H. unfold attacked_from in H.
  destruct (snd pc); try (eapply step_targets_range; eassumption);
    apply in_flat_map in H; destruct H as [d [_ H]]; eapply slide_In; eassumption.
Qed.

Lemma pawn_to_In : forall c s t m, In m (pawn_to c s t) -> from m = s /\ to m = t.
Proof.
  intros c s t m H. unfold pawn_to in H. destruct (rowZ t =? last_row c).
  - apply in_map_iff in H. destruct H as [k [<- _]]. auto.
  - destruct H as [<- | []]. auto.
Qed.

Ltac top_if H := match type of H with In _ (if ?c then _ else _) => destruct c eqn:? end.

(* where legal moves come from *)
Lemma legal_origin : forall p m, In m (legal_moves p) ->
  exists k, 0 <= from m < 64 /\ get p (from m) = Some (to_move p, k) /\ In m (piece_moves p (from m) (to_move p, k)).
Proof.
  intros p m H. unfold legal_moves in H. apply filter_In in H. destruct H as [H _].
  unfold pseudo_moves in H. apply in_flat_map in H. destruct H as [s [Hs H]].
  apply squares_In in Hs.
  destruct (get p s) as [[c k]|] eqn:G; [|contradiction].
  simpl in H. destruct (color_eqb c (to_move p)) eqn:C; [|contradiction].
  apply color_eqb_eq in C. subst c.
  assert (F : from m = s).
  { unfold piece_moves in H. cbn [fst snd] in H. destruct k.
    - apply in_app_or in H. destruct H as [H|H].
      + top_if H; [|contradiction].
        apply in_app_or in H. destruct H as [H|H]; [apply pawn_to_In in H; tauto|].
        top_if H; [|contradiction].
        destruct H as [<- | []]. reflexivity.
      + apply in_flat_map in H. destruct H as [t [_ H]].
        top_if H; [|contradiction].
        apply pawn_to_In in H. tauto.
    - apply in_map_iff in H. destruct H as [t [<- _]]. reflexivity.
    - apply in_map_iff in H. destruct H as [t [<- _]]. reflexivity.
    - apply in_map_iff in H. destruct H as [t [<- _]]. reflexivity.
    - apply in_map_iff in H. destruct H as [t [<- _]]. reflexivity.
    - apply in_app_or in H. destruct H as [H|H].
      + apply in_map_iff in H. destruct H as [t [<- _]]. reflexivity.
      + top_if H; [|contradiction].
        apply in_app_or in H. destruct H as [H|H].
        * top_if H; [|contradiction]. destruct H as [<- | []]. reflexivity.
        * top_if H; [|contradiction]. destruct H as [<- | []]. reflexivity. }
  exists k. rewrite F. auto.
Qed.

Lemma home_row_range : forall c, 0 <= home_row c < 8.
Proof. destruct c; simpl; lia. Qed.

(* non-pawn moves: no promotion, target on the board *)
Lemma nonpawn_move : forall p s c k m, In m (piece_moves p s (c, k)) -> k <> Pawn -> prom m = None /\ 0 <= to m < 64.
Proof.
  intros p s c k m H Hk. unfold piece_moves in H. cbn [fst snd] in H.
  assert (G : forall l, In m (map (fun t => {| from := s; to := t; prom := None |}) (filter (fun t => negb (own p c t)) l)) ->
              (forall t, In t l -> 0 <= t < 64) -> prom m = None /\ 0 <= to m < 64).
  { intros l Hm Hl. apply in_map_iff in Hm. destruct Hm as [t [<- Ht]]. apply filter_In in Ht. simpl. split; [reflexivity|]. apply Hl. tauto. }
  destruct k; try congruence;
    try (apply (G _ H); intros t Ht; eapply attacked_from_range; eassumption).
  apply in_app_or in H. destruct H as [H|H].
  - apply (G _ H); intros t Ht; eapply attacked_from_range; eassumption.
  - pose proof (home_row_range c).
    top_if H; [|contradiction].
    apply in_app_or in H. destruct H as [H|H]; (top_if H; [|contradiction]); destruct H as [<- | []]; cbn [prom to];
      (split; [reflexivity | apply sq_of_range; lia]).
Qed.

(* a king move over two files is one of the two castling moves from the e-square of the home row *)
Lemma king_two_files : forall p s c m, In m (piece_moves p s (c, King)) -> 0 <= s < 64 ->
  Z.abs (fileZ (to m) - fileZ s) = 2 ->
  s = sq_of 4 (home_row c) /\ (to m = sq_of 6 (home_row c) \/ to m = sq_of 2 (home_row c)) /\ prom m = None.
Proof.
  intros p s c m H Hs Habs. unfold piece_moves in H. cbn [fst snd] in H.
  apply in_app_or in H. destruct H as [H|H].
  - exfalso. apply in_map_iff in H. destruct H as [t [<- Ht]]. apply filter_In in Ht. destruct Ht as [Ht _].
    unfold attacked_from in Ht. cbn [snd] in Ht. apply step_targets_In in Ht. destruct Ht as [d [Hd [E ->]]].
    apply on_board_iff in E. cbn [to] in Habs. rewrite file_sq_of in Habs by lia.
    simpl in Hd. repeat (destruct Hd as [<- | Hd]; [simpl in Habs; lia|]). contradiction.
  - top_if H; [|contradiction].
    apply andb_true_iff in Heqb. destruct Heqb as [E _]. apply Z.eqb_eq in E.
    split; [exact E|].
    apply in_app_or in H. destruct H as [H|H]; (top_if H; [|contradiction]); destruct H as [<- | []]; cbn [prom to]; auto.
Qed.

(* pawn moves: a push (same file, target empty) or a capture-shaped move (adjacent file, one row ahead) *)
Definition pawn_push (p : pos) (c : color) (s : Z) (m : mv) : Prop :=
  fileZ (to m) = fileZ s /\ empty p (to m) = true /\
  (rowZ (to m) = rowZ s + forward c \/
   (rowZ (to m) = rowZ s + 2 * forward c /\ empty p (sq_of (fileZ s) (rowZ s + forward c)) = true)).
Definition pawn_diag (p : pos) (c : color) (s : Z) (m : mv) : Prop :=
  (fileZ (to m) = fileZ s - 1 \/ fileZ (to m) = fileZ s + 1) /\ rowZ (to m) = rowZ s + forward c /\
  (enemy p c (to m) = true \/ epsq p = Some (to m)).

Lemma forward_range : forall c, forward c = -1 \/ forward c = 1.
Proof. destruct c; simpl; auto. Qed.

Lemma pawn_move_inv : forall p s c m, In m (piece_moves p s (c, Pawn)) -> 0 <= s < 64 ->
  0 <= to m < 64 /\ (pawn_push p c s m \/ pawn_diag p c s m).
Proof.
  intros p s c m H Hs. unfold piece_moves in H. cbn [fst snd] in H.
  pose proof (file_row_range s Hs) as [Hf Hr].
  apply in_app_or in H. destruct H as [H|H].
  - top_if H; [|contradiction].
    apply andb_true_iff in Heqb. destruct Heqb as [Hob Hemp]. apply on_board_iff in Hob.
    apply in_app_or in H. destruct H as [H|H].
    + apply pawn_to_In in H. destruct H as [_ Ht]. split; [rewrite Ht; apply sq_of_range; lia|].
      left. unfold pawn_push. rewrite Ht, file_sq_of, row_sq_of by lia. auto.
    + top_if H; [|contradiction].
      apply andb_true_iff in Heqb. destruct Heqb as [Hst Hemp2]. apply Z.eqb_eq in Hst.
      destruct H as [<- | []]. cbn [to].
      assert (0 <= rowZ s + forward c + forward c < 8) by (rewrite Hst; destruct c; simpl; lia).
      split; [apply sq_of_range; lia|].
      left. unfold pawn_push. cbn [to]. rewrite file_sq_of, row_sq_of by lia. split; [reflexivity|]. split; [exact Hemp2|].
      right. split; [lia | exact Hemp].
  - apply in_flat_map in H. destruct H as [t [Ht H]].
    top_if H; [|contradiction].
    apply pawn_to_In in H. destruct H as [_ Hto].
    unfold attacked_from in Ht. cbn [fst snd] in Ht. apply step_targets_In in Ht. destruct Ht as [d [Hd [E Ht]]].
    apply on_board_iff in E.
    split; [rewrite Hto, Ht; apply sq_of_range; lia|].
    right. unfold pawn_diag. rewrite Hto.
    assert (enemy p c t = true \/ epsq p = Some t) as Hcap.
    { apply orb_true_iff in Heqb. destruct Heqb as [Hb|Hb]; [auto|]. right. destruct (epsq p); [|discriminate]. apply Z.eqb_eq in Hb. congruence. }
    split; [|split]; [| | exact Hcap]; rewrite Ht.
    + rewrite file_sq_of by lia. simpl in Hd. destruct Hd as [<- | [<- | []]]; simpl; lia.
    + rewrite row_sq_of by lia. simpl in Hd. destruct Hd as [<- | [<- | []]]; simpl; lia.
Qed.

(* ================================================================ Part 2: the text *)
Open Scope N_scope.

Definition filec (c : N) : Prop := 97 <= c <= 104.
Definition rankc (c : N) : Prop := 49 <= c <= 56.
Definition upperc (c : N) : Prop := c = 66 \/ c = 75 \/ c = 78 \/ c = 80 \/ c = 81 \/ c = 82.     (* B K N P Q R *)

Definition Lshape (l : str) : Prop := l = [] \/ exists u, l = [u] /\ upperc u.
Definition Hshape (l : str) : Prop :=
  l = [] \/ (exists f, l = [f] /\ filec f) \/ (exists r, l = [r] /\ rankc r) \/ (exists f r, l = [f; r] /\ filec f /\ rankc r).
Definition Xshape (l : str) : Prop := l = [] \/ l = [120].
Definition Tshape (l : str) : Prop := exists f r, l = [f; r] /\ filec f /\ rankc r.
Definition Pshape (l : str) : Prop := l = [] \/ exists u, l = [61; u] /\ upperc u.

Ltac shapes :=
  repeat match goal with
         | H : Lshape _ |- _ => destruct H as [-> | [? [-> ?]]]
         | H : Hshape _ |- _ => destruct H as [-> | [[? [-> ?]] | [[? [-> ?]] | [? [? [-> [? ?]]]]]]]
         | H : Xshape _ |- _ => destruct H as [-> | ->]
         | H : Tshape _ |- _ => destruct H as [? [? [-> [? ?]]]]
         | H : Pshape _ |- _ => destruct H as [-> | [? [-> ?]]]
         end.

Ltac clash := unfold filec, rankc, upperc in *; lia.

(* the five parts of a move text are determined by the text *)
Lemma text_decompose : forall L H X T P L' H' X' T' P',
  Lshape L -> Hshape H -> Xshape X -> Tshape T -> Pshape P ->
  Lshape L' -> Hshape H' -> Xshape X' -> Tshape T' -> Pshape P' ->
  L ++ H ++ X ++ T ++ P = L' ++ H' ++ X' ++ T' ++ P' ->
  L = L' /\ H = H' /\ X = X' /\ T = T' /\ P = P'.
Proof.
  intros L H X T P L' H' X' T' P' HL HH HX HT HP HL' HH' HX' HT' HP' E.
  apply (f_equal (@rev N)) in E. rewrite !rev_app_distr in E. rewrite <- !app_assoc in E.
  (* peel the promotion and the target off the reversed text *)
  assert (E1 : P = P' /\ T = T' /\ rev X ++ rev H ++ rev L = rev X' ++ rev H' ++ rev L').
  { destruct HT as [f [r [-> [Hf Hr]]]]. destruct HT' as [f' [r' [-> [Hf' Hr']]]].
    destruct HP as [-> | [u [-> Hu]]]; destruct HP' as [-> | [u' [-> Hu']]]; cbn [rev app] in E.
    - injection E as -> -> E. auto.
    - injection E as -> _ _. exfalso. clash.
    - injection E as <- _ _. exfalso. clash.
    - injection E as -> -> -> E. auto. }
  destruct E1 as [-> [-> E1]]. clear E.
  assert (E2 : X = X' /\ rev H ++ rev L = rev H' ++ rev L').
  { destruct HX as [-> | ->]; destruct HX' as [-> | ->]; cbn [rev app] in E1.
    - auto.
    - exfalso. shapes; cbn [rev app] in E1; try discriminate; injection E1; intros; subst; clash.
    - exfalso. shapes; cbn [rev app] in E1; try discriminate; injection E1; intros; subst; clash.
    - injection E1 as E1. auto. }
  destruct E2 as [-> E2].
  assert (E3 : H = H' /\ L = L').
  { shapes; cbn [rev app] in E2; try discriminate; try (injection E2; intros; subst; first [ split; reflexivity | exfalso; clash ]); auto. }
  destruct E3 as [-> ->]. auto.
Qed.

Lemma file_chr_filec : forall s, (0 <= s < 64)%Z -> filec (file_chr s).
Proof. intros s H. destruct (file_row_range s H) as [Hf _]. unfold filec, file_chr. lia. Qed.
Lemma rank_chr_rankc : forall s, (0 <= s < 64)%Z -> rankc (rank_chr s).
Proof. intros s H. destruct (file_row_range s H) as [_ Hr]. unfold rankc, rank_chr. lia. Qed.
Lemma file_chr_inj : forall s s', (0 <= s < 64)%Z -> (0 <= s' < 64)%Z -> file_chr s = file_chr s' -> fileZ s = fileZ s'.
Proof. intros s s' H H' E. destruct (file_row_range s H), (file_row_range s' H'). unfold file_chr in E. lia. Qed.
Lemma rank_chr_inj : forall s s', (0 <= s < 64)%Z -> (0 <= s' < 64)%Z -> rank_chr s = rank_chr s' -> rowZ s = rowZ s'.
Proof. intros s s' H H' E. destruct (file_row_range s H), (file_row_range s' H'). unfold rank_chr in E. lia. Qed.

Lemma kind_upper_upperc : forall k, upperc (kind_upper k).
Proof. destruct k; unfold upperc, kind_upper; simpl; cbv; tauto. Qed.
Lemma kind_upper_inj : forall k k', kind_upper k = kind_upper k' -> k = k'.
Proof. destruct k, k'; intros E; try reflexivity; cbv in E; discriminate. Qed.

Lemma sq_text_eq : forall t, sq_text t = [file_chr t; rank_chr t].
Proof. reflexivity. Qed.
Lemma sq_text_Tshape : forall t, (0 <= t < 64)%Z -> Tshape (sq_text t).
Proof. intros. exists (file_chr t), (rank_chr t). auto using file_chr_filec, rank_chr_rankc. Qed.
Lemma sq_text_inj : forall t t', (0 <= t < 64)%Z -> (0 <= t' < 64)%Z -> sq_text t = sq_text t' -> t = t'.
Proof.
  intros t t' H H' E. rewrite !sq_text_eq in E. injection E as Ef Er.
  apply sq_eq; [apply file_chr_inj | apply rank_chr_inj]; auto.
Qed.

Lemma promo_text_Pshape : forall m, Pshape (promo_text m).
Proof. intros m. unfold promo_text, Pshape. destruct (prom m); [right; eauto using kind_upper_upperc | auto]. Qed.
Lemma promo_text_inj : forall m m', promo_text m = promo_text m' -> prom m = prom m'.
Proof.
  intros m m'. unfold promo_text. destruct (prom m), (prom m'); intros E; try discriminate; try reflexivity.
  injection E as E. apply kind_upper_inj in E. congruence.
Qed.

Lemma letter_Lshape : forall p m, Lshape (letter p m).
Proof.
  intros. unfold letter, Lshape. destruct (get p (from m)) as [[c k]|]; [|auto].
  destruct k; auto; right; eexists; (split; [reflexivity | apply kind_upper_upperc]).
Qed.

Lemma capture_mark_Xshape : forall p m, Xshape (capture_mark p m).
Proof. intros. unfold capture_mark, Xshape. destruct (is_capture p m); auto. Qed.
Lemma marks_Xshape : forall p m x, In x (marks p m) -> Xshape x.
Proof. intros p m x. unfold marks, Xshape. destruct (is_capture p m); simpl; intuition. Qed.

Lemma hints_Hshape : forall s h, (0 <= s < 64)%Z -> In h (hints s) -> Hshape h.
Proof.
  intros s h Hs Hh. pose proof (file_chr_filec s Hs). pose proof (rank_chr_rankc s Hs).
  unfold hints in Hh. simpl in Hh. unfold Hshape.
  destruct Hh as [<- | [<- | [<- | [<- | []]]]]; eauto 8.
Qed.

Lemma disamb_hint : forall p m, In (disamb p m) (hints (from m)).
Proof.
  intros. unfold disamb, hints. destruct (rivals p m); [simpl; auto|].
  destruct (negb _); [simpl; auto|]. destruct (negb _); simpl; auto.
Qed.
Lemma origin_hint : forall p m, In (origin p m) (hints (from m)).
Proof.
  intros. unfold origin. destruct (get p (from m)) as [[c k]|]; try apply disamb_hint.
  destruct k; try apply disamb_hint. destruct (is_capture p m); simpl; auto.
Qed.

(* ================================================================ Part 3: the standard text denotes its move and no other *)
Open Scope Z_scope.

Lemma mv_ext : forall a b, from a = from b -> to a = to b -> prom a = prom b -> a = b.
Proof. destruct a, b; simpl; congruence. Qed.

Lemma legal_facts : forall p m, In m (legal_moves p) ->
  exists k, 0 <= from m < 64 /\ 0 <= to m < 64 /\ get p (from m) = Some (to_move p, k) /\
            In m (piece_moves p (from m) (to_move p, k)) /\ (k <> Pawn -> prom m = None).
Proof.
  intros p m H. destruct (legal_origin p m H) as [k [Hf [Hg Hm]]]. exists k.
  assert (0 <= to m < 64 /\ (k <> Pawn -> prom m = None)) as [Ht Hp].
  { destruct k; try (destruct (nonpawn_move _ _ _ _ _ Hm); [congruence|]; split; auto).
    destruct (pawn_move_inv _ _ _ _ Hm Hf) as [Ht _]. split; [exact Ht | congruence]. }
  auto.
Qed.

Lemma ep_consistent_of_legal : forall p, legal_pos p = true -> ep_consistent p = true.
Proof. intros p H. unfold legal_pos in H. apply andb_true_iff in H. tauto. Qed.

Lemma forward_opp : forall c, forward (opp c) = - forward c.
Proof. destruct c; reflexivity. Qed.
Lemma color_opp_neq : forall c, color_eqb (opp c) c = false.
Proof. destruct c; reflexivity. Qed.

Lemma hint_file_only : forall s s', 0 <= s < 64 -> 0 <= s' < 64 -> In [file_chr s] (hints s') -> fileZ s = fileZ s'.
Proof.
  intros s s' Hs Hs' H. pose proof (file_chr_filec s Hs). pose proof (rank_chr_rankc s' Hs').
  simpl in H. destruct H as [H | [H | [H | [H | []]]]]; try discriminate; injection H as H.
  - apply file_chr_inj; auto.
  - exfalso. rewrite H in *. clash.
Qed.
Lemma hint_rank_only : forall s s', 0 <= s < 64 -> 0 <= s' < 64 -> In [rank_chr s] (hints s') -> rowZ s = rowZ s'.
Proof.
  intros s s' Hs Hs' H. pose proof (rank_chr_rankc s Hs). pose proof (file_chr_filec s' Hs').
  simpl in H. destruct H as [H | [H | [H | [H | []]]]]; try discriminate; injection H as H.
  - exfalso. rewrite H in *. clash.
  - apply rank_chr_inj; auto.
Qed.
Lemma hint_both : forall s s', 0 <= s < 64 -> 0 <= s' < 64 -> In [file_chr s; rank_chr s] (hints s') -> s = s'.
Proof.
  intros s s' Hs Hs' H. simpl in H. destruct H as [H | [H | [H | [H | []]]]]; try discriminate. injection H as Hf Hr.
  apply sq_eq; [apply file_chr_inj | apply rank_chr_inj]; auto.
Qed.

(* two pawn moves to one square: the standard origin of the first is a true hint of the second only if they start
   from the same square.  Uses the e.p. consistency of a legal position: nobody can PUSH onto the e.p. square. *)
Lemma pawn_same_origin : forall p m m',
  ep_consistent p = true ->
  0 <= from m < 64 -> 0 <= from m' < 64 ->
  get p (from m) = Some (to_move p, Pawn) -> get p (from m') = Some (to_move p, Pawn) ->
  In m (piece_moves p (from m) (to_move p, Pawn)) -> In m' (piece_moves p (from m') (to_move p, Pawn)) ->
  to m = to m' -> In (origin p m) (hints (from m')) -> from m = from m'.
Proof.
  intros p m m' Hep Hs Hs' Hg Hg' Hm Hm' Hto Hor.
  set (c := to_move p) in *.
  destruct (pawn_move_inv _ _ _ _ Hm Hs) as [Ht Hshape].
  destruct (pawn_move_inv _ _ _ _ Hm' Hs') as [Ht' Hshape'].
  unfold origin in Hor. rewrite Hg in Hor.
  assert (Hcap : is_capture p m = negb (empty p (to m)) || is_ep_capture p m) by reflexivity.
  assert (Hepc : is_ep_capture p m = match epsq p with Some e => (to m =? e) && negb (fileZ (to m) =? fileZ (from m)) | None => false end).
  { unfold is_ep_capture. rewrite Hg. reflexivity. }
  destruct (is_capture p m) eqn:Cap.
  - (* a capture: prefixed by its file *)
    apply hint_file_only in Hor; auto.
    assert (D : pawn_diag p c (from m) m).
    { destruct Hshape as [[Hf [He _]] | D]; [|exact D]. exfalso.
      rewrite He in Hcap. rewrite Hepc in Hcap. destruct (epsq p); [|discriminate].
      rewrite <- Hf in Hcap. rewrite Z.eqb_refl in Hcap. simpl in Hcap. rewrite andb_false_r in Hcap. discriminate. }
    destruct D as [Df [Dr _]].
    destruct Hshape' as [[Hf' _] | [_ [Dr' _]]].
    + exfalso. rewrite <- Hto in Hf'. lia.
    + apply sq_eq; [exact Hor | rewrite <- Hto in Dr'; lia].
  - (* not a capture: a push onto an empty square *)
    symmetry in Hcap. apply orb_false_iff in Hcap. destruct Hcap as [Hemp Hnoep]. apply negb_false_iff in Hemp.
    assert (P : pawn_push p c (from m) m).
    { destruct Hshape as [P | [Df [_ [En | Ep]]]]; [exact P | exfalso..].
      - unfold enemy in En. unfold empty in Hemp. destruct (get p (to m)) as [[? ?]|]; discriminate.
      - rewrite Hepc, Ep, Z.eqb_refl in Hnoep. simpl in Hnoep.
        apply negb_false_iff in Hnoep. apply Z.eqb_eq in Hnoep. lia. }
    destruct P as [Pf [_ Pr]].
    assert (Gs : forall s, 0 <= s < 64 -> get p s = Some (c, Pawn) -> empty p (sq_of (fileZ s) (rowZ s)) = false).
    { intros s _ G. rewrite <- sq_decomp. unfold empty. rewrite G. reflexivity. }
    destruct Hshape' as [[Pf' [_ Pr']] | [Df' [Dr' [En | Ep]]]].
    + (* two pushes on one file *)
      rewrite <- Hto in Pf', Pr'.
      apply sq_eq; [lia|].
      destruct Pr as [Pr | [Pr Pe]]; destruct Pr' as [Pr' | [Pr' Pe']]; try lia; exfalso.
      * (* m single, m' double: the square m' jumps over is m's origin *)
        replace (sq_of (fileZ (from m')) (rowZ (from m') + forward c)) with (sq_of (fileZ (from m)) (rowZ (from m))) in Pe'
          by (f_equal; lia).
        rewrite (Gs _ Hs Hg) in Pe'. discriminate.
      * replace (sq_of (fileZ (from m)) (rowZ (from m) + forward c)) with (sq_of (fileZ (from m')) (rowZ (from m'))) in Pe
          by (f_equal; lia).
        rewrite (Gs _ Hs' Hg') in Pe. discriminate.
    + exfalso. rewrite <- Hto in En. unfold enemy in En. unfold empty in Hemp. destruct (get p (to m)) as [[? ?]|]; discriminate.
    + (* m' captures en passant on the square m pushes to: impossible in a consistent position *)
      exfalso. rewrite <- Hto in Ep.
      unfold ep_consistent in Hep. rewrite Ep in Hep. fold c in Hep.
      rewrite !andb_true_iff in Hep. destruct Hep as [[[_ Hpc] _] _].
      rewrite forward_opp in Hpc.
      unfold is_piece in Hpc.
      destruct Pr as [Pr | [Pr Pe]].
      * replace (sq_of (fileZ (to m)) (rowZ (to m) + - forward c)) with (sq_of (fileZ (from m)) (rowZ (from m))) in Hpc
          by (f_equal; lia).
        rewrite <- sq_decomp, Hg in Hpc. rewrite color_opp_neq in Hpc. discriminate.
      * replace (sq_of (fileZ (to m)) (rowZ (to m) + - forward c)) with (sq_of (fileZ (from m)) (rowZ (from m) + forward c)) in Hpc
          by (f_equal; lia).
        unfold empty in Pe. destruct (get p (sq_of (fileZ (from m)) (rowZ (from m) + forward c))); discriminate.
Qed.

Lemma piece_eqb_refl : forall a, piece_eqb a a = true.
Proof. intros [c k]. unfold piece_eqb. simpl. rewrite color_eqb_refl, kind_eqb_refl. reflexivity. Qed.

(* two like pieces to one square: the standard origin of the first is a true hint of the second only if they are the
   same piece.  This is the correctness of the file / rank / file+rank rule. *)
Lemma piece_same_origin : forall p m m' k,
  In m' (legal_moves p) -> 0 <= from m < 64 -> 0 <= from m' < 64 ->
  get p (from m) = Some (to_move p, k) -> get p (from m') = Some (to_move p, k) ->
  to m = to m' -> In (disamb p m) (hints (from m')) -> from m = from m'.
Proof.
  intros p m m' k Hl Hs Hs' Hg Hg' Hto Hd.
  destruct (Z.eq_dec (from m) (from m')) as [|Hne]; [assumption|]. exfalso.
  assert (Hr : In m' (rivals p m)).
  { unfold rivals. apply filter_In. split; [exact Hl|].
    unfold same_piece. rewrite Hg, Hg', piece_eqb_refl. simpl.
    rewrite Hto, Z.eqb_refl. simpl. apply negb_true_iff. apply Z.eqb_neq. congruence. }
  unfold disamb in Hd. remember (rivals p m) as rs eqn:R. destruct rs as [|r0 rs]; [contradiction|].
  destruct (existsb (fun r => fileZ (from r) =? fileZ (from m)) (r0 :: rs)) eqn:Ef; cbn [negb] in Hd.
  - destruct (existsb (fun r => rowZ (from r) =? rowZ (from m)) (r0 :: rs)) eqn:Er; cbn [negb] in Hd.
    + apply hint_both in Hd; auto.
    + apply hint_rank_only in Hd; auto.
      assert (existsb (fun r => rowZ (from r) =? rowZ (from m)) (r0 :: rs) = true); [|congruence].
      apply existsb_exists. exists m'. split; [exact Hr|]. apply Z.eqb_eq. auto.
  - apply hint_file_only in Hd; auto.
    assert (existsb (fun r => fileZ (from r) =? fileZ (from m)) (r0 :: rs) = true); [|congruence].
    apply existsb_exists. exists m'. split; [exact Hr|]. apply Z.eqb_eq. auto.
Qed.

Lemma castle_text_chars : forall m c, In c (castle_text m) -> c = 79%N \/ c = 45%N.
Proof.
  intros m c H. unfold castle_text in H. destruct (fileZ (from m) <? fileZ (to m)); simpl in H; intuition.
Qed.

Lemma is_castling_inv : forall p m k, get p (from m) = Some (to_move p, k) -> is_castling p m = true ->
  k = King /\ Z.abs (fileZ (to m) - fileZ (from m)) = 2.
Proof.
  intros p m k Hg H. unfold is_castling in H. rewrite Hg in H. destruct k; try discriminate. split; [reflexivity|]. apply Z.eqb_eq. exact H.
Qed.

Lemma bodies_noncastle_In : forall p m b, is_castling p m = false -> In b (bodies p m) ->
  exists h x, In h (hints (from m)) /\ In x (marks p m) /\ b = letter p m ++ h ++ x ++ sq_text (to m) ++ promo_text m.
Proof.
  intros p m b Hc H. unfold bodies in H. rewrite Hc in H. apply in_flat_map in H. destruct H as [h [Hh H]].
  apply in_map_iff in H. destruct H as [x [<- Hx]]. eauto.
Qed.

Lemma letter_eq_kind : forall p m m' k k', get p (from m) = Some (to_move p, k) -> get p (from m') = Some (to_move p, k') ->
  letter p m = letter p m' -> k = k'.
Proof.
  intros p m m' k k' Hg Hg' E. unfold letter in E. rewrite Hg, Hg' in E.
  destruct k, k'; try reflexivity; try discriminate; injection E as E; apply kind_upper_inj in E; exact E.
Qed.

(* THE uniqueness theorem: the standard body of a legal move is an acceptable body of no other legal move *)
Theorem body_bodies_inj : forall p m m', legal_pos p = true -> In m (legal_moves p) -> In m' (legal_moves p) ->
  In (body p m) (bodies p m') -> m = m'.
Proof.
  intros p m m' Hlp Hm Hm' Hb.
  destruct (legal_facts p m Hm) as [k [Hf [Ht [Hg [Hpm Hpr]]]]].
  destruct (legal_facts p m' Hm') as [k' [Hf' [Ht' [Hg' [Hpm' Hpr']]]]].
  unfold body in Hb.
  destruct (is_castling p m) eqn:Cm; destruct (is_castling p m') eqn:Cm'.
  - (* both castle *)
    unfold bodies in Hb. rewrite Cm' in Hb. destruct Hb as [Hb | []].
    destruct (is_castling_inv _ _ _ Hg Cm) as [-> A]. destruct (is_castling_inv _ _ _ Hg' Cm') as [-> A'].
    destruct (king_two_files _ _ _ _ Hpm Hf A) as [Fs [Ft Fp]].
    destruct (king_two_files _ _ _ _ Hpm' Hf' A') as [Fs' [Ft' Fp']].
    pose proof (home_row_range (to_move p)) as Hh.
    apply mv_ext; [congruence | | congruence].
    unfold castle_text in Hb. rewrite Fs, Fs' in Hb.
    destruct Ft as [Ft | Ft]; destruct Ft' as [Ft' | Ft']; rewrite Ft, Ft' in *; try reflexivity; exfalso;
      rewrite !file_sq_of in Hb by lia; cbv in Hb; discriminate.
  - (* castling text against an ordinary body: no file letter in O-O *)
    exfalso. destruct (bodies_noncastle_In _ _ _ Cm' Hb) as [h [x [_ [_ E]]]].
    assert (Hin : In (file_chr (to m')) (castle_text m)).
    { rewrite E. rewrite sq_text_eq. apply in_or_app. right. apply in_or_app. right. apply in_or_app. right. simpl. auto. }
    apply castle_text_chars in Hin. pose proof (file_chr_filec _ Ht'). destruct Hin as [Hin | Hin]; rewrite Hin in *; clash.
  - exfalso. unfold bodies in Hb. rewrite Cm' in Hb. destruct Hb as [Hb | []].
    assert (Hin : In (file_chr (to m)) (castle_text m')).
    { rewrite Hb. rewrite sq_text_eq. apply in_or_app. right. apply in_or_app. right. apply in_or_app. right. simpl. auto. }
    apply castle_text_chars in Hin. pose proof (file_chr_filec _ Ht). destruct Hin as [Hin | Hin]; rewrite Hin in *; clash.
  - destruct (bodies_noncastle_In _ _ _ Cm' Hb) as [h [x [Hh [Hx E]]]].
    pose proof (origin_hint p m) as Ho.
    apply text_decompose in E;
      eauto using letter_Lshape, hints_Hshape, capture_mark_Xshape, marks_Xshape, sq_text_Tshape, promo_text_Pshape.
    destruct E as [EL [EH [EX [ET EP]]]].
    assert (k = k') by exact (letter_eq_kind p m m' k k' Hg Hg' EL). subst k'.
    apply sq_text_inj in ET; auto. apply promo_text_inj in EP.
    apply mv_ext; auto.
    rewrite <- EH in Hh.
    destruct k.
    + apply (pawn_same_origin p); auto using ep_consistent_of_legal.
    + unfold origin in Hh. rewrite Hg in Hh. eapply (piece_same_origin p); eauto.
    + unfold origin in Hh. rewrite Hg in Hh. eapply (piece_same_origin p); eauto.
    + unfold origin in Hh. rewrite Hg in Hh. eapply (piece_same_origin p); eauto.
    + unfold origin in Hh. rewrite Hg in Hh. eapply (piece_same_origin p); eauto.
    + unfold origin in Hh. rewrite Hg in Hh. eapply (piece_same_origin p); eauto.
Qed.

(* ---------- boolean equalities ---------- *)
Lemma str_eqb_eq : forall a b, str_eqb a b = true <-> a = b.
Proof.
  induction a as [|x a IH]; destruct b as [|y b]; simpl; split; intros H; try reflexivity; try discriminate.
  - apply andb_true_iff in H. destruct H as [H1 H2]. apply N.eqb_eq in H1. apply IH in H2. congruence.
  - injection H as -> ->. rewrite N.eqb_refl. simpl. apply IH. reflexivity.
Qed.
Lemma mem_str_In : forall x l, mem_str x l = true <-> In x l.
Proof.
  intros. unfold mem_str. rewrite existsb_exists. split.
  - intros [y [Hy E]]. apply str_eqb_eq in E. congruence.
  - intros H. exists x. split; [exact H | apply str_eqb_eq; reflexivity].
Qed.
Lemma kind_opt_eqb_eq : forall a b, kind_opt_eqb a b = true <-> a = b.
Proof.
  destruct a as [a|], b as [b|]; simpl; split; intros H; try reflexivity; try discriminate.
  - apply kind_eqb_eq in H. congruence.
  - injection H as ->. apply kind_eqb_refl.
Qed.
Lemma mv_eqb_eq : forall a b, mv_eqb a b = true <-> a = b.
Proof.
  intros a b. unfold mv_eqb. rewrite !andb_true_iff, !Z.eqb_eq, kind_opt_eqb_eq. split.
  - intros [[H1 H2] H3]. apply mv_ext; assumption.
  - intros ->. auto.
Qed.
Lemma existsb_mv_In : forall m l, existsb (mv_eqb m) l = true <-> In m l.
Proof.
  intros. rewrite existsb_exists. split.
  - intros [y [Hy E]]. apply mv_eqb_eq in E. congruence.
  - intros H. exists m. split; [exact H | apply mv_eqb_eq; reflexivity].
Qed.

(* ---------- the tail ---------- *)
Definition nomark (l : str) : Prop := forall c, In c l -> is_mark c = false.

Lemma is_mark_false : forall c, (c <> 43 /\ c <> 35 /\ c <> 33 /\ c <> 63)%N -> is_mark c = false.
Proof. intros c H. unfold is_mark. rewrite !orb_false_iff, !N.eqb_neq. tauto. Qed.

Lemma nomark_app : forall a b, nomark a -> nomark b -> nomark (a ++ b).
Proof. intros a b Ha Hb c H. apply in_app_or in H. destruct H; auto. Qed.

Lemma shapes_nomark : forall L H X T P, Lshape L -> Hshape H -> Xshape X -> Tshape T -> Pshape P -> nomark (L ++ H ++ X ++ T ++ P).
Proof.
  intros L H X T P HL HH HX HT HP.
  repeat apply nomark_app; shapes; intros c Hc; simpl in Hc; apply is_mark_false;
    repeat (destruct Hc as [<- | Hc]; [clash|]); contradiction.
Qed.

Lemma castle_text_nomark : forall m, nomark (castle_text m).
Proof. intros m c H. apply castle_text_chars in H. apply is_mark_false. lia. Qed.

Lemma split_marks_spec : forall a b, nomark a -> match b with [] => True | c :: _ => is_mark c = true end ->
  split_marks (a ++ b) = (a, b).
Proof.
  induction a as [|x a IH]; intros b Ha Hb.
  - simpl. destruct b as [|c r]; [reflexivity|]. simpl. rewrite Hb. reflexivity.
  - simpl. rewrite (Ha x (or_introl eq_refl)). rewrite IH; [reflexivity | | exact Hb].
    intros c Hc. apply Ha. right. exact Hc.
Qed.

Lemma body_in_bodies : forall p m, In (body p m) (bodies p m).
Proof.
  intros p m. unfold body, bodies. destruct (is_castling p m); [simpl; auto|].
  apply in_flat_map. exists (origin p m). split; [apply origin_hint|].
  apply in_map_iff. exists (capture_mark p m). split; [reflexivity|].
  unfold capture_mark, marks. destruct (is_capture p m); simpl; auto.
Qed.

Lemma body_nomark : forall p m, In m (legal_moves p) -> nomark (body p m).
Proof.
  intros p m Hm. destruct (legal_facts p m Hm) as [k [Hf [Ht _]]].
  unfold body. destruct (is_castling p m); [apply castle_text_nomark|].
  apply shapes_nomark;
    eauto using letter_Lshape, hints_Hshape, origin_hint, capture_mark_Xshape, sq_text_Tshape, promo_text_Pshape.
Qed.

Lemma split_san : forall p m, In m (legal_moves p) -> split_marks (san p m) = (body p m, check_mark p m).
Proof.
  intros p m Hm. unfold san. apply split_marks_spec; [apply body_nomark; exact Hm|].
  unfold check_mark. destruct (gives_mate p m); [reflexivity|]. destruct (gives_check p m); [reflexivity | exact I].
Qed.

Lemma tail_ok_check_mark : forall p m, tail_ok (check_mark p m) = true.
Proof. intros. unfold check_mark. destruct (gives_mate p m); [reflexivity|]. destruct (gives_check p m); reflexivity. Qed.

(* ---------- the theorems ---------- *)
Theorem san_denotes : forall p m, In m (legal_moves p) -> denotes p (san p m) m = true.
Proof.
  intros p m Hm. unfold denotes. rewrite split_san by exact Hm.
  rewrite (proj2 (existsb_mv_In m _) Hm), (proj2 (mem_str_In _ _) (body_in_bodies p m)), tail_ok_check_mark. reflexivity.
Qed.

Theorem denotes_unique : forall p m m', legal_pos p = true -> In m (legal_moves p) ->
  denotes p (san p m) m' = true -> m' = m.
Proof.
  intros p m m' Hlp Hm H. unfold denotes in H. rewrite split_san in H by exact Hm.
  rewrite !andb_true_iff in H. destruct H as [Hm' [Hb _]].
  apply existsb_mv_In in Hm'. apply mem_str_In in Hb. symmetry. eapply body_bodies_inj; eassumption.
Qed.

Theorem san_unambiguous : forall p m m', legal_pos p = true -> In m (legal_moves p) -> In m' (legal_moves p) ->
  san p m = san p m' -> m = m'.
Proof.
  intros p m m' Hlp Hm Hm' E. symmetry. apply (denotes_unique p m m' Hlp Hm). rewrite E. apply san_denotes. exact Hm'.
Qed.

Lemma dedup_single : forall m l, (forall x, In x l -> x = m) -> In m l -> dedup l = [m].
Proof.
  induction l as [|x r IH]; intros Hall Hin; [contradiction|].
  assert (x = m) by (apply Hall; left; reflexivity). subst x. simpl.
  destruct (existsb (mv_eqb m) r) eqn:E.
  - apply IH; [intros y Hy; apply Hall; right; exact Hy | apply existsb_mv_In; exact E].
  - destruct r as [|y r]; [reflexivity|]. exfalso.
    assert (y = m) by (apply Hall; right; left; reflexivity). subst y.
    simpl in E. rewrite (proj2 (mv_eqb_eq m m) eq_refl) in E. discriminate.
Qed.

Theorem roundtrip_spec : forall p m, legal_pos p = true -> In m (legal_moves p) -> parse_san p (san p m) = POk m.
Proof.
  intros p m Hlp Hm. unfold parse_san. rewrite (dedup_single m); [reflexivity | |].
  - intros x Hx. apply filter_In in Hx. destruct Hx as [_ Hx]. eapply denotes_unique; eassumption.
  - apply filter_In. split; [exact Hm | apply san_denotes; exact Hm].
Qed.

(* what the reader's answers mean *)
Theorem parse_san_ok : forall p s m, parse_san p s = POk m ->
  In m (legal_moves p) /\ denotes p s m = true /\ forall m', denotes p s m' = true -> m' = m.
Proof.
  intros p s m H. unfold parse_san in H.
  remember (filter (denotes p s) (legal_moves p)) as l eqn:L.
  assert (D : forall x, In x l <-> In x (dedup l)).
  { clear. induction l as [|y r IH]; intros x; simpl; [tauto|].
    destruct (existsb (mv_eqb y) r) eqn:E.
    - rewrite <- IH. split; [|tauto]. intros [<- | Hx]; [apply existsb_mv_In; exact E | exact Hx].
    - simpl. rewrite <- IH. tauto. }
  destruct (dedup l) as [|a [|b r]] eqn:E; try discriminate. injection H as ->.
  assert (Hin : In m l) by (apply D; left; reflexivity).
  rewrite L in Hin. apply filter_In in Hin. destruct Hin as [Hl Hd]. split; [exact Hl|]. split; [exact Hd|].
  intros m' Hd'. assert (In m' l).
  { rewrite L. apply filter_In. split; [|exact Hd']. unfold denotes in Hd'. apply andb_true_iff in Hd'. apply existsb_mv_In. tauto. }
  apply D in H. destruct H as [<- | []]. reflexivity.
Qed.

Theorem parse_san_err : forall p s, parse_san p s = PErr -> forall m, denotes p s m = false.
Proof.
  intros p s H m. unfold parse_san in H. destruct (denotes p s m) eqn:Hd; [|reflexivity]. exfalso.
  assert (Hin : In m (filter (denotes p s) (legal_moves p))).
  { apply filter_In. split; [|exact Hd]. unfold denotes in Hd. apply andb_true_iff in Hd. apply existsb_mv_In. tauto. }
  remember (filter (denotes p s) (legal_moves p)) as l. clear Heql.
  assert (dedup l <> []).
  { clear H. induction l as [|y r IH]; [contradiction|]. simpl. destruct (existsb (mv_eqb y) r) eqn:E; [|discriminate].
    apply IH. destruct Hin as [<- | Hin]; [apply existsb_mv_In; exact E | exact Hin]. }
  destruct (dedup l) as [|a [|b r]]; try discriminate. congruence.
Qed.

(* Proofs/RepetitionProofs.v : the SEARCH-LEVEL part of property C10.

   Proofs/HistoryProofs.v relates the repetition counter (Model/History.v) to the specification of a threefold
   repetition (Spec/Draws.v).  This file connects both to the model of the search (Model/Search.v):

     1. ply clocks          one move advances the ply clock by one (ranges stated);
     2. frames              which parts of the search touch `s_history` / `s_contempt` (only the node prelude);
     3. leaf value          the repetition leaf returns draw_score + (+1/-1) * contempt, never at the root;
     4. fifty-move rule     the one place where the search values a position with legal moves as a draw;
     5. game history        what `set_position_from` leaves in the history;
     6. line recorded       the invariant of `negamax` on `s_history` (game + current line below the node's index);
     7. leaf iff threefold  the repetition leaf is taken exactly on a threefold repetition of the path;
     8. contempt            the contempt factor is never written: it is the constant of `Search::new`;
     9. root                every iteration of iterative deepening starts from the invariant and hands it on;
    10. the theorems with their hypotheses bundled ([search_family]);
    11. a computed example (a knight shuffle) and a computed counterexample outside the stated clock range.

   Hypotheses.  Sections 1-5, 7, 8 need none beyond what each statement says (5: the C13 hypothesis that the boards
   of the game are closed under legal moves and satisfy C03).  Sections 6 and 9 use: the C03 family of
   Proofs/SearchProofs.v (make/unmake are inverse on the boards met), the side conditions of C06_incremental on
   those boards -- so that the hash handed down the recursion IS the Zobrist hash of the board: C06 is threaded
   through, "passed hash = hash of the board" is proved, not assumed -- a full-move number >= 1, and "no u16 wrap
   of the ply clock within the remaining depth".

   Not covered here (and not a property of the draw test itself): a value that was computed below a repetition
   leaf and stored in the transposition table by an ANCESTOR is reused on other paths (graph-history interaction);
   the statements are about nodes that reach the draw test, which always comes before the table probe. *)
Require Import Ink.Lib.Str.
Require Import NArith ZArith List Bool Lia Arith.
Require Import Ink.Lib.Bits Ink.Model.Tables Ink.Model.Board Ink.Model.Fen Ink.Model.Notation Ink.Model.History.
Require Import Ink.Model.Heuristic Ink.Model.UciTx Ink.Model.Search.
Require Ink.Model.HashTable.
Require Import Ink.Spec.Draws.
Require Import Ink.Proofs.HistoryProofs Ink.Proofs.SearchProofs.
Require Ink.Proofs.ZobristProofs Ink.Proofs.UciMovesProofs Ink.Proofs.MakeUnmake.
Require Ink.Gen.Tables.
Import ListNotations.
Open Scope N_scope.

Arguments N.add : simpl never.
Arguments N.sub : simpl never.
Arguments N.mul : simpl never.
Arguments N.div : simpl never.
Arguments N.modulo : simpl never.
Arguments N.eqb : simpl never.
Arguments N.ltb : simpl never.
Arguments N.leb : simpl never.
Arguments Z.add : simpl never.
Arguments Z.mul : simpl never.
Arguments Z.opp : simpl never.
Arguments Z.max : simpl never.
Arguments Z.ltb : simpl never.
Arguments Z.leb : simpl never.

(* ================================================================================================ *)
(* 1. ply clocks                                                                                     *)

(* side to move is a colour and the full-move number is at least 1 (every FEN of a real game) *)
Definition clock_ok (b : board) : Prop := turn b < 2 /\ 1 <= full b.

(* the value before the `as u16` cast *)
Definition ply_count (b : board) : N := 2 * (full b - 1) + turn b.

Lemma ply_clock_w_count b : ply_clock_w b = ply_count b mod 65536.
Proof. reflexivity. Qed.

Lemma make_fields b m b' : make b m = Some b' ->
  turn b' = opposite (turn b) /\ full b' = full b + turn b /\ half b' = (if half_reset m then 0 else half b + 1).
Proof.
  unfold make. cbv zeta.
  destruct (castle m); [destruct (castle_squares (dst m)) as [[rf rt]|]; [|discriminate]
                       |destruct (ep_attack m); [|destruct (negb (promo m =? NO_PIECE))]];
  destruct (is_white_turn b); intros [= <-]; repeat split.
Qed.

(* one move: the un-cast count goes up by exactly one *)
Lemma ply_count_make b m b' : clock_ok b -> make b m = Some b' -> clock_ok b' /\ ply_count b' = ply_count b + 1.
Proof.
  intros [Ht Hf] Hm. destruct (make_fields b m b' Hm) as (E1 & E2 & _).
  unfold clock_ok, ply_count, opposite in *. rewrite E1, E2. lia.
Qed.

Lemma ply_clock_make_mod b m b' : clock_ok b -> make b m = Some b' ->
  clock_ok b' /\ ply_clock_w b' = (ply_clock_w b + 1) mod 65536.
Proof.
  intros Hc Hm. destruct (ply_count_make b m b' Hc Hm) as [Hc' E]. split; [exact Hc'|].
  rewrite !ply_clock_w_count, E. now rewrite N.add_mod_idemp_l by discriminate.
Qed.

(* ... and so does the u16 ply clock as long as it does not wrap: ply_clock_w b <> 65535 *)
Lemma ply_clock_make b m b' : clock_ok b -> make b m = Some b' -> ply_clock_w b < 65535 ->
  clock_ok b' /\ ply_clock_w b' = ply_clock_w b + 1.
Proof.
  intros Hc Hm Hw. destruct (ply_clock_make_mod b m b' Hc Hm) as [Hc' E]. split; [exact Hc'|].
  rewrite E. apply N.mod_small. lia.
Qed.

(* the range in terms of the full-move number: no u16 wrap (and a fortiori no u32 wrap) *)
Lemma ply_clock_make_range b m b' : clock_ok b -> make b m = Some b' -> 2 * (full b - 1) + turn b + 1 < 65536 ->
  ply_clock_w b = 2 * (full b - 1) + turn b /\ ply_clock_w b' = 2 * (full b - 1) + turn b + 1.
Proof.
  intros Hc Hm Hr. destruct (ply_count_make b m b' Hc Hm) as [_ E].
  rewrite !ply_clock_w_count, E. unfold ply_count. rewrite !N.mod_small by lia. split; reflexivity.
Qed.

(* Board.ply_clock (the debug-profile version with its panics) agrees whenever it does not panic *)
Lemma ply_clock_option b v : ply_clock b = Some v -> v = ply_clock_w b.
Proof.
  unfold ply_clock, ply_clock_w. destruct (full b =? 0); [discriminate|]. cbv zeta.
  destruct (4294967296 <=? _); [discriminate|]. now intros [= <-].
Qed.

Lemma ply_clock_w_lt b : ply_clock_w b < 65536.
Proof. unfold ply_clock_w. apply N.mod_lt. discriminate. Qed.

(* ================================================================================================ *)
(* 2. frames: who touches the history and the contempt factor                                        *)

(* [hc st st']: same history, same contempt factor *)
Definition hc (st st' : sstate) : Prop := s_history st' = s_history st /\ s_contempt st' = s_contempt st.

Lemma hc_refl st : hc st st.
Proof. split; reflexivity. Qed.
Lemma hc_trans a b c : hc a b -> hc b c -> hc a c.
Proof. intros [A1 A2] [B1 B2]. split; congruence. Qed.
Lemma do_unmake_hc st m : hc st (do_unmake st m).
Proof. unfold do_unmake. destruct (unmake _ _); split; reflexivity. Qed.

Section Frames.
Variable T : Tables.t.

Lemma qs_loop_hc (rec : Z -> Z -> N -> sstate -> vmove * sstate) :
  (forall a b z st, hc st (snd (rec a b z st))) ->
  forall moves beta zph alpha bm bc st, hc st (snd (qs_loop T rec moves beta zph alpha bm bc st)).
Proof.
  intros Hrec moves. induction moves as [|mv rest IH]; intros beta zph alpha bm bc st; cbn [qs_loop]; [apply hc_refl|].
  destruct (make (s_board st) mv) as [b1|].
  - destruct (is_valid T b1); cbn [negb].
    + set (st2 := set_q_nodes (set_board st b1) (s_q_nodes (set_board st b1) + 1)).
      assert (E2 : exists zpx st3, (match zobrist_xor T mv with Some (_, p) => (p, st2) | None => (0, set_panicked st2 true) end) = (zpx, st3)
                                   /\ hc st st3).
      { destruct (zobrist_xor T mv) as [[x p]|]; eexists; eexists; (split; [reflexivity|split; reflexivity]). }
      destruct E2 as (zpx & st3 & -> & O3).
      pose proof (Hrec (- beta)%Z (- alpha)%Z (N.lxor zph zpx) st3) as O4.
      destruct (rec (- beta)%Z (- alpha)%Z (N.lxor zph zpx) st3) as [child st4]. cbn [snd] in O4.
      assert (E5 : hc st (do_unmake st4 mv)).
      { eapply hc_trans; [|apply do_unmake_hc]. eapply hc_trans; eassumption. }
      destruct (beta <=? - vm_value child)%Z; [exact E5|].
      destruct (alpha <? - vm_value child)%Z; (eapply hc_trans; [exact E5|apply IH]).
    + eapply hc_trans; [|apply IH]. eapply hc_trans; [|apply do_unmake_hc]. split; reflexivity.
  - eapply hc_trans; [|apply IH]. split; reflexivity.
Qed.

Lemma quiescence_hc fuel : forall alpha beta zph st, hc st (snd (quiescence T fuel alpha beta zph st)).
Proof.
  induction fuel as [|k IH]; intros alpha beta zph st; cbn [quiescence]; [split; reflexivity|].
  cbv zeta. destruct (beta <=? _)%Z; [apply hc_refl|]. apply qs_loop_hc. exact IH.
Qed.

Lemma any_move_legal_hc moves : forall st, hc st (snd (any_move_legal T moves st)).
Proof.
  induction moves as [|mv rest IH]; intro st; cbn [any_move_legal]; [apply hc_refl|].
  destruct (make (s_board st) mv) as [b1|].
  - cbv zeta. assert (E1 : hc st (do_unmake (set_board st b1) mv)).
    { eapply hc_trans; [|apply do_unmake_hc]. split; reflexivity. }
    destruct (is_valid T b1); [exact E1|]. eapply hc_trans; [exact E1|apply IH].
  - eapply hc_trans; [|apply IH]. split; reflexivity.
Qed.

Lemma leaf_node_hc color alpha beta zph buffer st : hc st (snd (leaf_node T color alpha beta zph buffer st)).
Proof.
  unfold leaf_node. pose proof (any_move_legal_hc buffer st) as E1.
  destruct (any_move_legal T buffer st) as [legal st1]. cbn [snd] in E1.
  destruct (legal && _); [|exact E1]. eapply hc_trans; [exact E1|apply quiescence_hc].
Qed.

Section WithOracle.
Variable orc : oracle.

Lemma fold_apply_msg_hc l : forall st, hc st (fold_left apply_msg l st).
Proof.
  induction l as [|m r IH]; intro st; cbn [fold_left]; [apply hc_refl|].
  eapply hc_trans; [|apply IH]. destruct m; split; reflexivity.
Qed.

Lemma poll_block_hc st : hc st (snd (poll_block T orc st)).
Proof.
  unfold poll_block, generate_info, read_clock. cbv zeta.
  destruct (fold_apply_msg_hc (inbox orc (s_drains st)) st) as [F1 F2].
  destruct (should_check_flags orc st); [|apply hc_refl].
  unfold check_messages.
  destruct (abort_at orc) as [[n mode]|]; [destruct (n =? _); [destruct (mode =? 1)|]|]; cbv beta iota zeta; sproj;
  try (destruct (g_movetime _) as [mt|]; [destruct (mt <? _)|]); cbn [fst snd]; unfold hc; sproj; rewrite ?F1, ?F2;
  split; reflexivity.
Qed.

(* the node prelude: the ONLY write to the history is `set(ply_clock, hash)`; the contempt factor is only read *)
Lemma node_prelude_hist ply rd a0 b0 zh st :
  let r := node_prelude T orc ply rd a0 b0 zh st in
  s_contempt (snd r) = s_contempt st /\
  (s_history (snd r) = s_history st \/ s_history (snd r) = hset (s_history st) (ply_clock_w (s_board st)) zh) /\
  (forall alpha beta ttm buffer, fst r = PreGo alpha beta ttm buffer ->
     s_history (snd r) = hset (s_history st) (ply_clock_w (s_board st)) zh).
Proof.
  unfold node_prelude. pose proof (poll_block_ext T orc st) as [Hb _]. pose proof (poll_block_hc st) as [Hh Hc].
  destruct (poll_block T orc st) as [[r|] st1]; cbn [snd] in Hb, Hh, Hc.
  - cbn [fst snd]. split; [exact Hc|]. split; [now left|discriminate].
  - cbv zeta. sproj. rewrite Hb, Hh. unfold visit. cbv zeta.
    destruct (_ && _).
    + cbn [fst snd]; sproj. split; [exact Hc|]. split; [now right|discriminate].
    + destruct (tt_probe _ _ _ _ _) as [r|[[alpha beta] ttm]].
      * cbn [fst snd]; sproj. split; [exact Hc|]. split; [now right|discriminate].
      * destruct ((ply =? 0) && is_nil _); cbn [fst snd]; sproj; (split; [exact Hc|]); (split; [now right|]);
          [discriminate|reflexivity].
Qed.

(* ================================================================================================ *)
(* 3. the repetition leaf and its value                                                              *)

(* "the node takes the repetition leaf": the poll at the top of search_negamax lets the node run, and the
   draw test `ply > 0 && count_repetitions(ply_clock, halfmove_clock as u16) >= 3` succeeds on the history
   in which the node has just stored its own hash.  Defined from the model's own [visit]. *)
Definition repetition_flag (ply zh : N) (st : sstate) : bool :=
  snd (visit (s_history st) ply (ply_clock_w (s_board st)) zh (half (s_board st))).

Definition repetition_leaf_taken (ply zh : N) (st : sstate) : Prop :=
  fst (poll_block T orc st) = None /\ repetition_flag ply zh st = true.

Definition contempt_sign (ply : N) : Z := if N.even ply then 1%Z else (-1)%Z.

(* what the prelude does, by cases on the poll and on the flag *)
Lemma node_prelude_cases ply rd a0 b0 zh st :
  match fst (poll_block T orc st) with
  | Some r => fst (node_prelude T orc ply rd a0 b0 zh st) = PreReturn r
  | None =>
      if repetition_flag ply zh st
      then fst (node_prelude T orc ply rd a0 b0 zh st)
           = PreReturn (leaf (draw_score T + contempt_sign ply * s_contempt st)%Z)
      else True
  end.
Proof.
  unfold node_prelude, repetition_flag. pose proof (poll_block_ext T orc st) as [Hb _].
  pose proof (poll_block_hc st) as [Hh Hc].
  destruct (poll_block T orc st) as [[r|] st1]; cbn [fst snd] in *; [reflexivity|].
  cbv zeta. sproj. rewrite Hb, Hh.
  destruct (visit _ _ _ _ _) as [h' rep]. cbn [snd]. destruct rep; [|exact I].
  cbn [fst]. sproj. rewrite Hc. reflexivity.
Qed.

Lemma negamax_unfold d ply a0 b0 ispv zh zph st :
  negamax T orc d ply a0 b0 ispv zh zph st =
  match node_prelude T orc ply (N.of_nat d) a0 b0 zh st with
  | (PreReturn r, st3) => (r, st3)
  | (PreGo alpha beta tt_move buffer, st3) =>
      match d with
      | O => leaf_node T (turn (s_board st)) alpha beta zph buffer st3
      | S d' => interior_node T (negamax T orc d' (ply + 1)) (turn (s_board st)) ply (N.of_nat d) a0 ispv zh zph
                              alpha beta tt_move buffer st3
      end
  end.
Proof. destruct d; reflexivity. Qed.

(* C10_leaf_value: the value is the draw score plus/minus the contempt factor, there is no move and no
   continuation; the board is not consulted (the right-hand side does not mention it) *)
Lemma leaf_value d ply a0 b0 ispv zh zph st :
  repetition_leaf_taken ply zh st ->
  fst (negamax T orc d ply a0 b0 ispv zh zph st) = VM (draw_score T + contempt_sign ply * s_contempt st)%Z None None.
Proof.
  intros [Hp Hf]. rewrite negamax_unfold.
  pose proof (node_prelude_cases ply (N.of_nat d) a0 b0 zh st) as H. rewrite Hp, Hf in H.
  destruct (node_prelude T orc ply (N.of_nat d) a0 b0 zh st) as [[r|al be ttm buf] st3]; cbn [fst] in H; [|discriminate].
  injection H as ->. reflexivity.
Qed.

(* irrespective of material: two states, ANY two boards -- if both take the leaf at the same ply parity with
   the same contempt factor, the values coincide *)
Lemma leaf_value_any_board d d' ply ply' a0 b0 a0' b0' ispv ispv' zh zh' zph zph' st st' :
  repetition_leaf_taken ply zh st -> repetition_leaf_taken ply' zh' st' ->
  N.even ply = N.even ply' -> s_contempt st = s_contempt st' ->
  fst (negamax T orc d ply a0 b0 ispv zh zph st) = fst (negamax T orc d' ply' a0' b0' ispv' zh' zph' st').
Proof.
  intros H1 H2 He Hc. rewrite (leaf_value d _ a0 b0 ispv _ zph _ H1), (leaf_value d' _ a0' b0' ispv' _ zph' _ H2).
  unfold contempt_sign. now rewrite He, Hc.
Qed.

(* the root never takes it *)
Lemma root_never_leaf zh st : repetition_flag 0 zh st = false.
Proof. unfold repetition_flag. apply visit_root. Qed.

Lemma root_never_leaf_taken zh st : ~ repetition_leaf_taken 0 zh st.
Proof. intros [_ H]. rewrite root_never_leaf in H. discriminate. Qed.

End WithOracle.
End Frames.

(* the repetition test reads the entry at the start index and entries below it, nothing above: stale entries
   written by sibling lines at higher ply clocks are invisible *)
Lemma occurrences_ext k k' i hm : (forall j, j <= i -> k j = k' j) -> occurrences k i hm = occurrences k' i hm.
Proof.
  intro H. unfold occurrences. rewrite (H i) by lia. apply countb_ext. intros j Hj.
  apply window_In in Hj. rewrite (H j) by lia. reflexivity.
Qed.

Lemma count_reads_below h h' i hm : (forall j, j <= i -> hget h j = hget h' j) ->
  count_repetitions h i hm = count_repetitions h' i hm.
Proof. intro H. rewrite !count_total. now rewrite (occurrences_ext (hget h) (hget h') i hm H). Qed.

Lemma visit_reads_below h h' d p key hm : (forall j, j < p -> hget h j = hget h' j) ->
  snd (visit h d p key hm) = snd (visit h' d p key hm).
Proof.
  intro H. unfold visit, count_repetitions_u32. cbn [snd]. f_equal. f_equal. apply count_reads_below.
  intros j Hj. rewrite !hget_hset. destruct (N.eqb_spec j p); [reflexivity|]. apply H. lia.
Qed.

(* ================================================================================================ *)
(* 4. the fifty-move rule in the search                                                              *)

(* the fifty-move branch of Heuristic::evaluate, as a predicate on its arguments (History.fifty_branch) *)
Definition fifty_branch_taken (T : Tables.t) (b : board) (legal_moves_remaining : bool) : bool :=
  fifty_branch (max_half_moves T) (half b) legal_moves_remaining.

(* [evaluate] by branches: the fifty-move branch is the ONLY one that reads the half-move clock *)
Lemma evaluate_branches T b lm :
  evaluate T b lm =
  if fifty_branch_taken T b lm then draw_score T
  else if lm then evaluate_ongoing T b
  else if is_current_in_check T b then
         if turn b =? WHITE then (loss_score T + to_i32 (full b))%Z
         else if turn b =? BLACK then (win_score T - to_i32 (full b))%Z else draw_score T
       else draw_score T.
Proof.
  unfold evaluate, fifty_branch_taken, fifty_branch. destruct lm; cbn [andb]; [|reflexivity].
  destruct (max_half_moves T <=? half b); reflexivity.
Qed.

Lemma fifty_taken_iff T b lm : fifty_branch_taken T b lm = true <-> lm = true /\ max_half_moves T <= half b.
Proof. apply fifty_iff. Qed.

(* a position without legal moves (mate / stalemate) is never valued by the fifty-move branch *)
Lemma fifty_not_terminal T b : fifty_branch_taken T b false = false.
Proof. reflexivity. Qed.

(* below the limit a position with legal moves gets its ordinary evaluation *)
Lemma evaluate_before_limit T b : half b < max_half_moves T -> evaluate T b true = evaluate_ongoing T b.
Proof.
  intro H. rewrite evaluate_branches.
  destruct (fifty_branch_taken T b true) eqn:E; [|reflexivity]. apply fifty_taken_iff in E. lia.
Qed.

(* from the limit on it is the draw score, whatever the material *)
Lemma evaluate_from_limit T b : max_half_moves T <= half b -> evaluate T b true = draw_score T.
Proof.
  intro H. rewrite evaluate_branches.
  destruct (fifty_branch_taken T b true) eqn:E; [reflexivity|].
  assert (E' : fifty_branch_taken T b true = true) by (apply fifty_taken_iff; split; [reflexivity|exact H]). congruence.
Qed.

(* with the constant of the current tree (C10_max_half_gen): 100 plies, never earlier *)
Lemma fifty_in_search_gen b :
  (fifty_branch_taken Ink.Gen.Tables.tables b true = true <-> 100 <= half b) /\
  (fifty_branch_taken Ink.Gen.Tables.tables b true = true -> evaluate Ink.Gen.Tables.tables b true = draw_score Ink.Gen.Tables.tables) /\
  (half b < 100 -> evaluate Ink.Gen.Tables.tables b true = evaluate_ongoing Ink.Gen.Tables.tables b).
Proof.
  assert (E : max_half_moves Ink.Gen.Tables.tables = 100) by reflexivity.
  split; [|split].
  - rewrite fifty_taken_iff, E. tauto.
  - intro H. apply fifty_taken_iff in H as [_ H]. now apply evaluate_from_limit.
  - intro H. apply evaluate_before_limit. rewrite E. exact H.
Qed.

(* where the search calls [evaluate]:
   - the horizon leaf (`is_max_ply`) without a capture to look at: evaluate(board, legal_moves_remaining);
   - the stand-pat value of the capture search: evaluate(board, true);
   - an interior node whose loop met no legal move: evaluate(board, false)  -- never the fifty-move branch.
   The first, spelled out: the value of a quiet horizon leaf with a legal move is the fifty-move draw score
   exactly from the limit on. *)
Lemma leaf_node_quiet_value T color alpha beta zph buffer st st1 :
  any_move_legal T buffer st = (true, st1) -> is_any_move_non_quiescent buffer = false ->
  fst (leaf_node T color alpha beta zph buffer st) =
  leaf (heuristic_factor color *
        (if fifty_branch_taken T (s_board st1) true then draw_score T else evaluate_ongoing T (s_board st1)))%Z.
Proof.
  intros E Hq. unfold leaf_node. rewrite E, Hq. cbn [andb fst]. unfold evaluate_for. now rewrite evaluate_branches.
Qed.

Lemma leaf_node_terminal_value T color alpha beta zph buffer st st1 :
  any_move_legal T buffer st = (false, st1) ->
  fst (leaf_node T color alpha beta zph buffer st) = leaf (evaluate_for T color (s_board st1) false) /\
  fifty_branch_taken T (s_board st1) false = false.
Proof. intros E. unfold leaf_node. rewrite E. cbn [andb fst]. split; reflexivity. Qed.

Lemma quiescence_stand_pat T k alpha beta zph st :
  (beta <=? evaluate_for T (turn (s_board st)) (s_board st) true)%Z = true ->
  quiescence T (S k) alpha beta zph st = (leaf beta, st).
Proof. intro H. cbn [quiescence]. cbv zeta. now rewrite H. Qed.

(* ================================================================================================ *)
(* 5. the game history recorded by `set_position_from`                                               *)

Lemma last_cons {A} (x : A) l d : last (x :: l) d = last l x.
Proof.
  revert x d. induction l as [|y r IH]; intros x d; [reflexivity|].
  change (last (x :: y :: r) d) with (last (y :: r) d). now rewrite (IH y d), (IH y x).
Qed.

Lemma wf_turn b : wf b = true -> turn b < 2.
Proof. unfold wf. rewrite !andb_true_iff. intros [[[_ H] _] _]. now apply N.ltb_lt. Qed.

(* consecutive boards of a line: each is `make` of its predecessor *)
Fixpoint chain (b : board) (bs : list board) : Prop :=
  match bs with [] => True | b2 :: r => (exists m, make b m = Some b2) /\ chain b2 r end.

(* along ANY line the un-cast ply count goes up by one per ply (no range needed) ... *)
Lemma chain_counts bs : forall b, chain b bs -> clock_ok b ->
  forall i B, nth_error (b :: bs) i = Some B -> clock_ok B /\ ply_count B = ply_count b + N.of_nat i.
Proof.
  induction bs as [|b2 r IH]; intros b Hch Hok i B Hi.
  - destruct i as [|i]; [|destruct i; discriminate]. injection Hi as <-. split; [exact Hok|]. cbn. lia.
  - destruct i as [|i]; [injection Hi as <-; split; [exact Hok|cbn; lia]|].
    destruct Hch as [[m Hm] Hch]. destruct (ply_count_make b m b2 Hok Hm) as [Hok2 E2].
    cbn [nth_error] in Hi. destruct (IH b2 Hch Hok2 i B Hi) as [HB EB]. split; [exact HB|]. rewrite EB, E2. lia.
Qed.

(* ... hence the u16 ply clocks are consecutive as long as the last one is below 2^16 *)
Lemma chain_clocks bs b : chain b bs -> clock_ok b -> ply_count b + N.of_nat (length bs) < 65536 ->
  forall i B, nth_error (b :: bs) i = Some B -> ply_clock_w B = ply_clock_w b + N.of_nat i.
Proof.
  intros Hch Hok Hr i B Hi. destruct (chain_counts bs b Hch Hok i B Hi) as [_ E].
  assert (Hlt : (i < length (b :: bs))%nat) by (apply nth_error_Some; congruence). cbn [length] in Hlt.
  rewrite !ply_clock_w_count, E. rewrite !N.mod_small by lia. reflexivity.
Qed.

Section Game.
Variable T : Tables.t.

(* the positions of the game exactly as the model threads them: [find_uci] hands back a board (the one it was
   given whenever make/unmake are inverse, C13) and the move is made on THAT board *)
Inductive game_line : board -> list str -> list move -> list board -> Prop :=
| GL_nil b : game_line b [] [] []
| GL_cons b u rest m b1 b2 ms bs :
    find_uci T b u = (inr m, Some b1) -> make b1 m = Some b2 -> game_line b2 rest ms bs ->
    game_line b (u :: rest) (m :: ms) (b2 :: bs).

(* a game of legal moves: P_{i+1} = make P_i m_i *)
Inductive legal_line : board -> list move -> list board -> Prop :=
| LL_nil b : legal_line b [] []
| LL_cons b m b2 ms bs :
    In m (gen_pseudo T b) -> make b m = Some b2 -> is_valid T b2 = true -> legal_line b2 ms bs ->
    legal_line b (m :: ms) (b2 :: bs).

Lemma legal_line_chain b ms bs : legal_line b ms bs -> chain b bs.
Proof. induction 1 as [|b m b2 ms bs _ Hm _ _ IH]; cbn [chain]; [exact I|]. split; [now exists m|exact IH]. Qed.

Lemma legal_line_length b ms bs : legal_line b ms bs -> length bs = length ms.
Proof. induction 1; cbn [length]; congruence. Qed.

Lemma legal_line_functional b ms bs : legal_line b ms bs -> forall bs', legal_line b ms bs' -> bs' = bs.
Proof.
  induction 1 as [|x m x2 ms bs _ Hm _ _ IH]; intros bs' LL'; inversion LL'; subst; [reflexivity|].
  match goal with H1 : make x m = Some ?y |- _ => rewrite Hm in H1; injection H1 as <- end. f_equal. now apply IH.
Qed.

(* every board is stored at its own ply clock, oldest first *)
Definition record_boards (h : hist) (bs : list board) : hist :=
  fold_left (fun h B => hset h (ply_clock_w B) (zobrist_hash T B)) bs h.

Lemma play_moves_spec moves : forall b h played_rev bE hE played,
  play_moves T b h moves played_rev = PosOk bE hE played ->
  exists ms bs, game_line b moves ms bs /\ played = rev played_rev ++ ms /\ bE = last bs b /\ hE = record_boards h bs.
Proof.
  induction moves as [|u rest IH]; intros b h pr bE hE played; cbn [play_moves].
  - intros [= <- <- <-]. exists [], []. split; [constructor|]. rewrite app_nil_r. repeat split.
  - destruct (find_uci T b u) as [[e|m] [b1|]] eqn:Ef; try discriminate.
    destruct (make b1 m) as [b2|] eqn:Em; [|discriminate].
    intro H. apply IH in H as (ms & bs & GL & -> & -> & ->).
    exists (m :: ms), (b2 :: bs). split; [econstructor; eassumption|].
    cbn [rev]. rewrite <- app_assoc. cbn [app]. rewrite last_cons. repeat split.
Qed.

(* with consecutive ply clocks this is [record_from] *)
Lemma record_boards_record_from bs : forall h base,
  (forall i B, nth_error bs i = Some B -> ply_clock_w B = base + N.of_nat i) ->
  record_boards h bs = record_from h base (map (zobrist_hash T) bs).
Proof.
  unfold record_boards. induction bs as [|B r IH]; intros h base Hc; cbn [fold_left map record_from]; [reflexivity|].
  rewrite (Hc O B eq_refl). change (N.of_nat 0) with 0. rewrite N.add_0_r. apply IH.
  intros i B' Hi. rewrite (Hc (S i) B' Hi). lia.
Qed.

(* the general statement: no hypothesis at all *)
Lemma position_result_general f moves b h played :
  position_result T f moves = PosOk b h played ->
  exists bs, game_line (board_of_fen f) moves played bs /\ b = last bs (board_of_fen f) /\
             h = record_boards hempty (board_of_fen f :: bs).
Proof.
  unfold position_result. cbv zeta. intro H. apply play_moves_spec in H as (ms & bs & GL & -> & -> & ->).
  exists bs. cbn [rev app]. repeat split. exact GL.
Qed.

(* [G n]: a family of sets of boards on which C03 holds (UciMovesProofs.good: wf, rights_wf, half < 4096) and such
   that a legal move leads from G (S n) into G n -- n = number of moves still to be played.  (A set closed under
   legal moves, the hypothesis `Hpres` of C13, is the constant family; the index is what makes the clock bound
   `half < 4096` satisfiable: Proofs/ChessInstance.v, good_chess.) *)
Section Closed.
Variable G : nat -> board -> Prop.
Hypothesis HT : MakeUnmake.tables_castle_ok T = true.
Hypothesis G_good : forall n x, G n x -> UciMovesProofs.good x.
Hypothesis G_closed : forall n x m x',
  G (S n) x -> In m (gen_pseudo T x) -> make x m = Some x' -> is_valid T x' = true -> G n x'.

Lemma game_line_legal b us ms bs : game_line b us ms bs -> G (length us) b -> legal_line b ms bs /\ length ms = length us.
Proof.
  induction 1 as [|b u rest m b1 b2 ms bs Hf Hm _ IH]; intro Hg; [split; [constructor|reflexivity]|].
  cbn [length] in Hg.
  destruct (UciMovesProofs.find_uci_cases T HT b u (G_good _ b Hg)) as [(e & E)|(m' & b1' & E & Hin & Hmk & Hv)];
    rewrite E in Hf; [discriminate|].
  injection Hf as <- <-. rewrite Hmk in Hm. injection Hm as <-.
  destruct (IH (G_closed _ b m' b1' Hg Hin Hmk Hv)) as [IH1 IH2].
  split; [econstructor; eassumption|cbn [length]; congruence].
Qed.

(* C10_game_history_recorded *)
Theorem game_history_recorded f moves b h played :
  let P0 := board_of_fen f in
  G (length moves) P0 -> 1 <= full P0 -> ply_count P0 + N.of_nat (length moves) < 65536 ->
  position_result T f moves = PosOk b h played ->
  exists bs,
    legal_line P0 played bs /\ length played = length moves /\ b = last bs P0 /\
    (forall i B, nth_error (P0 :: bs) i = Some B -> ply_clock_w B = ply_clock_w P0 + N.of_nat i) /\
    h = record_from hempty (ply_clock_w P0) (map (zobrist_hash T) (P0 :: bs)).
Proof.
  intros P0 HG Hfull Hr H. apply position_result_general in H as (bs & GL & -> & ->). fold P0 in GL |- *.
  destruct (game_line_legal P0 moves played bs GL HG) as [LL Hlen].
  assert (Hok : clock_ok P0) by (split; [apply wf_turn; apply (G_good _ P0 HG)|exact Hfull]).
  assert (Hclk : forall i B, nth_error (P0 :: bs) i = Some B -> ply_clock_w B = ply_clock_w P0 + N.of_nat i).
  { apply chain_clocks; [eapply legal_line_chain; exact LL|exact Hok|].
    rewrite (legal_line_length _ _ _ LL), Hlen. exact Hr. }
  exists bs. split; [exact LL|]. split; [exact Hlen|]. split; [reflexivity|]. split; [exact Hclk|].
  apply record_boards_record_from. exact Hclk.
Qed.

End Closed.

Lemma set_position_from_ok f moves st b h played : position_result T f moves = PosOk b h played ->
  s_board (set_position_from T f moves st) = b /\ s_history (set_position_from T f moves st) = h /\
  s_pmoves (set_position_from T f moves st) = played /\ s_contempt (set_position_from T f moves st) = s_contempt st.
Proof. intro H. unfold set_position_from. rewrite H. repeat split. Qed.

End Game.

(* ================================================================================================ *)
(* 6. the invariant of `negamax` on the history                                                      *)

(* [agree_lt c h h']: h' and h hold the same entries at all indices below c *)
Definition agree_lt (c : N) (h h' : hist) : Prop := forall j, j < c -> hget h' j = hget h j.

Lemma agree_lt_refl c h : agree_lt c h h.
Proof. intros j _. reflexivity. Qed.

Section LineInv.
Variable T : Tables.t.

(* entries base, base+1, ... hold the hashes of the boards of l *)
Fixpoint holds_fromb (h : hist) (base : N) (l : list board) : bool :=
  match l with [] => true | B :: r => (hget h base =? zobrist_hash T B) && holds_fromb h (base + 1) r end.

(* The invariant at the moment a node is entered.  [prefix] = the boards BEFORE the node's board, oldest first:
   the positions of the game (from the FEN on) followed by the positions of the current line above the node.
   - the hash handed to the node is the Zobrist hash of its board;
   - the node's ply clock is base + |prefix| (so: consecutive clocks, no u16 wrap);
   - the history holds the hash of prefix[i] at index base + i;
   - nothing has been written below base (the position command starts from an empty history: all 0).
   Entries above base + |prefix| are unconstrained (stale entries of sibling lines). *)
Definition line_invb (base : N) (prefix : list board) (zh : N) (st : sstate) : bool :=
  (zh =? zobrist_hash T (s_board st)) && (ply_clock_w (s_board st) =? base + N.of_nat (length prefix))
  && holds_fromb (s_history st) base prefix
  && forallb (fun j => hget (s_history st) j =? 0) (below base).
Definition line_inv (base : N) (prefix : list board) (zh : N) (st : sstate) : Prop :=
  line_invb base prefix zh st = true.

Lemma holds_fromb_spec l : forall h base, holds_fromb h base l = true <->
  forall i B, nth_error l i = Some B -> hget h (base + N.of_nat i) = zobrist_hash T B.
Proof.
  induction l as [|A r IH]; intros h base; cbn [holds_fromb].
  - split; [intros _ i B Hi; destruct i; discriminate|reflexivity].
  - rewrite andb_true_iff, N.eqb_eq, IH. split.
    + intros [H0 Hr] i B Hi. destruct i as [|i].
      * injection Hi as <-. change (N.of_nat 0) with 0. now rewrite N.add_0_r.
      * cbn [nth_error] in Hi. specialize (Hr i B Hi). replace (base + N.of_nat (S i)) with (base + 1 + N.of_nat i) by lia.
        exact Hr.
    + intro H. split.
      * specialize (H O A eq_refl). change (N.of_nat 0) with 0 in H. now rewrite N.add_0_r in H.
      * intros i B Hi. specialize (H (S i) B Hi). replace (base + N.of_nat (S i)) with (base + 1 + N.of_nat i) in H by lia.
        exact H.
Qed.

Lemma line_inv_spec base prefix zh st : line_inv base prefix zh st <->
  zh = zobrist_hash T (s_board st) /\ ply_clock_w (s_board st) = base + N.of_nat (length prefix) /\
  (forall i B, nth_error prefix i = Some B -> hget (s_history st) (base + N.of_nat i) = zobrist_hash T B) /\
  (forall j, j < base -> hget (s_history st) j = 0).
Proof.
  unfold line_inv, line_invb. rewrite !andb_true_iff, !N.eqb_eq, holds_fromb_spec, forallb_forall.
  assert (Z : (forall x, In x (below base) -> (hget (s_history st) x =? 0) = true) <->
              (forall j, j < base -> hget (s_history st) j = 0)).
  { split; intros H j Hj; [apply N.eqb_eq; apply H; now apply below_In|apply N.eqb_eq; apply H; now apply below_In]. }
  rewrite Z. tauto.
Qed.

(* after the node has stored its hash the history holds the whole path, the node included *)
Lemma line_inv_after_set base prefix zh st :
  line_inv base prefix zh st ->
  forall i B, nth_error (prefix ++ [s_board st]) i = Some B ->
  hget (hset (s_history st) (ply_clock_w (s_board st)) zh) (base + N.of_nat i) = zobrist_hash T B.
Proof.
  intro H. apply line_inv_spec in H as (Ez & Ec & Hh & _). intros i B Hi.
  destruct (Nat.lt_ge_cases i (length prefix)) as [Hlt|Hge].
  - rewrite nth_error_app1 in Hi by exact Hlt. rewrite hget_hset_other by lia. now apply Hh.
  - rewrite nth_error_app2 in Hi by exact Hge.
    destruct (i - length prefix)%nat as [|k] eqn:Ek; [|destruct k; discriminate].
    injection Hi as <-. replace (base + N.of_nat i) with (ply_clock_w (s_board st)) by lia.
    rewrite hget_hset_same. exact Ez.
Qed.

End LineInv.

Section Line.
Variable T : Tables.t.

(* the hypotheses of C09 (Proofs/SearchProofs.v, [C03_family]) ... *)
Variable good : nat -> board -> Prop.
Variable Q : nat.
Hypothesis inverse : forall n b m, good (S n) b -> In m (gen_pseudo T b) ->
  exists b', make b m = Some b' /\ unmake b' m = Some b /\ (is_valid T b' = true -> good n b').
Hypothesis good_mono : forall n b, good (S n) b -> good n b.
Hypothesis qfuel_bound : forall n b, good n b -> (qfuel b <= Q)%nat.
(* ... plus the side conditions of C06_incremental on every board from which the search plays a move, and a
   full-move number of at least 1 *)
Hypothesis good_zob : forall n b, good (S n) b ->
  wf b = true /\ ZobristProofs.castle_wf b = true /\ ZobristProofs.ep_wf b = true /\ 1 <= full b.
Hypothesis Hrows : ZobristProofs.keys_rows_ok T = true.
Hypothesis Hmask : ZobristProofs.gen_masks_ok T = true.

(* one ply down: the incrementally updated hash is the hash of the child (C06), its clock is one more *)
Lemma child_facts n b mv b1 : good (S n) b -> In mv (gen_pseudo T b) -> make b mv = Some b1 -> ply_clock_w b < 65535 ->
  (exists zx zpx, zobrist_xor T mv = Some (zx, zpx) /\ zobrist_hash T b1 = N.lxor (zobrist_hash T b) zx) /\
  ply_clock_w b1 = ply_clock_w b + 1.
Proof.
  intros Hg Hin Hmk Hw. destruct (good_zob n b Hg) as (Hwf & Hcw & Hew & Hfull).
  split.
  - destruct (ZobristProofs.xor_no_panic T b mv Hwf Hcw Hmask Hin) as (zx & zpx & Ezx).
    exists zx, zpx. split; [exact Ezx|].
    exact (proj1 (ZobristProofs.incremental T b mv b1 zx zpx Hrows Hmask Hwf Hcw Hew Hin Hmk Ezx)).
  - assert (Hok : clock_ok b) by (split; [now apply wf_turn|exact Hfull]).
    exact (proj2 (ply_clock_make b mv b1 Hok Hmk Hw)).
Qed.

Section Loop.
(* [rec'] is the recursion (the real search one ply deeper), [rec] anything that agrees with it on the states
   that satisfy [child_pre]: the conclusion "the loop with rec = the loop with rec'" says that the loop hands
   ONLY such states to the recursion. *)
Variables rec rec' : Z -> Z -> bool -> N -> N -> sstate -> vmove * sstate.
Variable n : nat.
Variable Qb : board.          (* the board of the node *)
Variable H0 : hist.           (* the history right after the node stored its own hash *)
Variable ct : Z.

Definition child_pre (zh' : N) (st2 : sstate) : Prop :=
  good n (s_board st2) /\ zh' = zobrist_hash T (s_board st2) /\ ply_clock_w (s_board st2) = ply_clock_w Qb + 1 /\
  agree_lt (ply_clock_w Qb + 1) H0 (s_history st2) /\ s_contempt st2 = ct.

Hypothesis Hagree : forall a b pv zh' zph st2, child_pre zh' st2 -> rec a b pv zh' zph st2 = rec' a b pv zh' zph st2.
Hypothesis Hpost : forall a b pv zh' zph st2, child_pre zh' st2 ->
  s_board (snd (rec' a b pv zh' zph st2)) = s_board st2 /\
  s_contempt (snd (rec' a b pv zh' zph st2)) = ct /\
  agree_lt (ply_clock_w Qb + 1) (s_history st2) (s_history (snd (rec' a b pv zh' zph st2))).
Hypothesis HQ : good (S n) Qb.
Hypothesis Hc : ply_clock_w Qb < 65535.

(* between two children: the node's board is back, entries up to the node's own index are as the node left them *)
Definition loop_st (st : sstate) : Prop :=
  s_board st = Qb /\ s_contempt st = ct /\ agree_lt (ply_clock_w Qb + 1) H0 (s_history st).

Lemma nm_loop_line moves : (forall m, In m moves -> In m (gen_pseudo T Qb)) ->
  forall ispv pvm zph rd beta alpha bv bm bc lg st, loop_st st ->
  nm_loop T rec moves ispv pvm (zobrist_hash T Qb) zph rd beta alpha bv bm bc lg st
  = nm_loop T rec' moves ispv pvm (zobrist_hash T Qb) zph rd beta alpha bv bm bc lg st /\
  loop_st (snd (nm_loop T rec' moves ispv pvm (zobrist_hash T Qb) zph rd beta alpha bv bm bc lg st)).
Proof.
  induction moves as [|mv rest IH]; intros Hin ispv pvm zph rd beta alpha bv bm bc lg st Hst; cbn [nm_loop].
  - split; [reflexivity|exact Hst].
  - assert (Hmv : In mv (gen_pseudo T Qb)) by (apply Hin; now left).
    assert (Hrest : forall m, In m rest -> In m (gen_pseudo T Qb)) by (intros; apply Hin; now right).
    specialize (IH Hrest).
    destruct (inverse n Qb mv HQ Hmv) as (b1 & Hmk & Hun & Hg1).
    destruct Hst as (Hb & Hct & Hag).
    rewrite Hb, Hmk.
    destruct (is_valid T b1) eqn:Hv; cbn [negb].
    + destruct (child_facts n Qb mv b1 HQ Hmv Hmk Hc) as ((zx & zpx & Ezx & Ehash) & Eclk).
      rewrite Ezx. cbv beta iota.
      assert (Hpre : child_pre (N.lxor (zobrist_hash T Qb) zx) (set_board st b1)).
      { unfold child_pre. sproj. split; [exact (Hg1 eq_refl)|]. split; [now rewrite Ehash|]. split; [exact Eclk|].
        split; [exact Hag|exact Hct]. }
      rewrite (Hagree (- beta)%Z (- alpha)%Z (ispv && opt_move_eqb pvm mv) _ (N.lxor zph zpx) _ Hpre).
      destruct (Hpost (- beta)%Z (- alpha)%Z (ispv && opt_move_eqb pvm mv) _ (N.lxor zph zpx) _ Hpre) as (B3 & C3 & A3).
      destruct (rec' (- beta)%Z (- alpha)%Z (ispv && opt_move_eqb pvm mv) (N.lxor (zobrist_hash T Qb) zx) (N.lxor zph zpx)
                     (set_board st b1)) as [child st3].
      cbn [snd] in B3, C3, A3. sproj.
      assert (Hun3 : unmake (s_board st3) mv = Some Qb) by (rewrite B3; exact Hun).
      assert (L4 : loop_st (do_unmake st3 mv)).
      { unfold do_unmake. rewrite Hun3. unfold loop_st. sproj. split; [reflexivity|]. split; [exact C3|].
        intros j Hj. rewrite (A3 j Hj). exact (Hag j Hj). }
      destruct (s_stop st3); [split; [reflexivity|exact L4]|].
      destruct (bv <? - vm_value child)%Z; cbv zeta iota beta.
      * destruct (beta <=? _)%Z.
        -- cbn [fst snd]. split; [reflexivity|]. destruct L4 as (L1 & L2 & L3). unfold loop_st. sproj. repeat split; assumption.
        -- apply IH. exact L4.
      * destruct (beta <=? _)%Z.
        -- cbn [fst snd]. split; [reflexivity|]. destruct L4 as (L1 & L2 & L3). unfold loop_st. sproj. repeat split; assumption.
        -- apply IH. exact L4.
    + apply IH. unfold do_unmake. sproj. rewrite Hun. unfold loop_st. sproj. repeat split; assumption.
Qed.

Lemma interior_node_line color ply rd a0 ispv zph alpha beta ttm buffer st :
  (forall m, In m buffer -> In m (gen_pseudo T Qb)) -> loop_st st ->
  interior_node T rec color ply rd a0 ispv (zobrist_hash T Qb) zph alpha beta ttm buffer st
  = interior_node T rec' color ply rd a0 ispv (zobrist_hash T Qb) zph alpha beta ttm buffer st /\
  loop_st (snd (interior_node T rec' color ply rd a0 ispv (zobrist_hash T Qb) zph alpha beta ttm buffer st)).
Proof.
  intros Hin Hst. unfold interior_node. cbv zeta.
  match goal with |- context [nm_loop T rec' ?mv ?a ?b ?c ?d ?e ?f ?g ?h ?i ?j ?k st] =>
    destruct (nm_loop_line mv (fun m Hm => Hin m (sort_moves_in _ _ _ _ _ Hm)) a b d e f g h i j k st Hst) as [E L];
    rewrite E; destruct (nm_loop T rec' mv a b c d e f g h i j k st) as [[r|bv bm bc lg] st4] end;
  cbn [snd] in L.
  - split; [reflexivity|exact L].
  - destruct (negb lg); [split; [reflexivity|exact L]|].
    destruct (negb _); (split; [reflexivity|]); [|exact L].
    destruct L as (L1 & L2 & L3). unfold loop_st. sproj. repeat split; assumption.
Qed.

End Loop.

Variable orc : oracle.

(* The search with a run-time assertion of the invariant at the entry of EVERY node: when the assertion fails
   the node does not search but returns [bad st] (anything).  [prefix] is ghost state: the path above the node. *)
Fixpoint negamax_asserting (bad : sstate -> vmove * sstate) (base : N) (prefix : list board)
         (d : nat) (ply : N) (alpha_original beta_original : Z) (is_pv : bool) (zh zph : N) (st : sstate)
  : vmove * sstate :=
  if line_invb T base prefix zh st then
    match node_prelude T orc ply (N.of_nat d) alpha_original beta_original zh st with
    | (PreReturn r, st3) => (r, st3)
    | (PreGo alpha beta tt_move buffer, st3) =>
        match d with
        | O => leaf_node T (turn (s_board st)) alpha beta zph buffer st3
        | S d' => interior_node T (negamax_asserting bad base (prefix ++ [s_board st]) d' (ply + 1))
                                (turn (s_board st)) ply (N.of_nat d) alpha_original is_pv zh zph alpha beta tt_move buffer st3
        end
    end
  else bad st.

Lemma negamax_asserting_unfold bad base prefix d ply a0 b0 ispv zh zph st :
  negamax_asserting bad base prefix d ply a0 b0 ispv zh zph st =
  if line_invb T base prefix zh st then
    match node_prelude T orc ply (N.of_nat d) a0 b0 zh st with
    | (PreReturn r, st3) => (r, st3)
    | (PreGo alpha beta tt_move buffer, st3) =>
        match d with
        | O => leaf_node T (turn (s_board st)) alpha beta zph buffer st3
        | S d' => interior_node T (negamax_asserting bad base (prefix ++ [s_board st]) d' (ply + 1))
                                (turn (s_board st)) ply (N.of_nat d) a0 ispv zh zph alpha beta tt_move buffer st3
        end
    end
  else bad st.
Proof. destruct d; reflexivity. Qed.

(* C10_line_recorded.  From a node that satisfies the invariant, with C03/C06 on the boards below it and no u16
   wrap of the ply clock within the remaining depth:
   (a) the asserting search IS the search, whatever [bad] is: every node visited below satisfies the invariant
       for its own path (the invariant is inductive along the recursion: `prefix ++ [board]` one ply down);
   (b) when the node returns, the board and the contempt factor are back and NO entry below the node's own ply
       clock has changed: siblings only ever overwrite entries at or above their own index. *)
Theorem line_recorded d : forall bad base prefix ply a0 b0 ispv zh zph st,
  line_inv T base prefix zh st -> good (d + S Q)%nat (s_board st) ->
  base + N.of_nat (length prefix) + N.of_nat d < 65536 ->
  negamax_asserting bad base prefix d ply a0 b0 ispv zh zph st = negamax T orc d ply a0 b0 ispv zh zph st /\
  s_board (snd (negamax T orc d ply a0 b0 ispv zh zph st)) = s_board st /\
  s_contempt (snd (negamax T orc d ply a0 b0 ispv zh zph st)) = s_contempt st /\
  agree_lt (ply_clock_w (s_board st)) (s_history st) (s_history (snd (negamax T orc d ply a0 b0 ispv zh zph st))).
Proof.
  induction d as [|d' IH]; intros bad base prefix ply a0 b0 ispv zh zph st Hinv Hg Hr;
  pose proof (negamax_ext T good Q inverse good_mono qfuel_bound orc _ ply a0 b0 ispv zh zph st Hg) as [Bd _];
  rewrite negamax_asserting_unfold, negamax_unfold; rewrite Hinv;
  (match goal with |- context [node_prelude T orc ply ?rd a0 b0 zh st] =>
     pose proof (node_prelude_ext T orc ply rd a0 b0 zh st) as [[B3 _] Hbuf];
     pose proof (node_prelude_hist T orc ply rd a0 b0 zh st) as (C3 & Hh & HhGo);
     rewrite negamax_unfold in Bd;
     destruct (node_prelude T orc ply rd a0 b0 zh st) as [[r|al be ttm buf] st3] end);
  cbn [fst snd] in *.
  - split; [reflexivity|]. split; [exact Bd|]. split; [exact C3|].
    destruct Hh as [-> | ->]; intros j Hj; [reflexivity|apply hget_hset_other; lia].
  - split; [reflexivity|]. split; [exact Bd|].
    destruct (leaf_node_hc T (turn (s_board st)) al be zph buf st3) as [Hl1 Hl2].
    split; [congruence|]. rewrite Hl1, (HhGo _ _ _ _ eq_refl). intros j Hj. apply hget_hset_other. lia.
  - split; [reflexivity|]. split; [exact Bd|]. split; [exact C3|].
    destruct Hh as [-> | ->]; intros j Hj; [reflexivity|apply hget_hset_other; lia].
  - specialize (HhGo _ _ _ _ eq_refl).
    pose proof (line_inv_after_set T base prefix zh st Hinv) as Hpath.
    apply line_inv_spec in Hinv as (Ezh & Eclk & Hhold & Hzero).
    assert (Hlt : ply_clock_w (s_board st) < 65535) by lia.
    assert (HQ : good (S (d' + S Q)) (s_board st)) by exact Hg.
    assert (Hst3 : loop_st (s_board st) (s_history st3) (s_contempt st) st3).
    { split; [exact B3|]. split; [exact C3|]. apply agree_lt_refl. }
    assert (Hin : forall m, In m buf -> In m (gen_pseudo T (s_board st))) by (intros m Hm; eapply Hbuf; [reflexivity|exact Hm]).
    assert (Hchild : forall zh' st2, child_pre (d' + S Q) (s_board st) (s_history st3) (s_contempt st) zh' st2 ->
              line_inv T base (prefix ++ [s_board st]) zh' st2 /\ good (d' + S Q)%nat (s_board st2) /\
              base + N.of_nat (length (prefix ++ [s_board st])) + N.of_nat d' < 65536).
    { intros zh' st2 (P1 & P2 & P3 & P4 & P5). split; [|split; [exact P1|rewrite app_length; cbn [length]; lia]].
      apply line_inv_spec. split; [exact P2|]. split; [rewrite app_length; cbn [length]; lia|]. split.
      - intros i B Hi.
        assert (Hi' : (i < length (prefix ++ [s_board st]))%nat) by (apply nth_error_Some; congruence).
        rewrite app_length in Hi'. cbn [length] in Hi'.
        rewrite (P4 (base + N.of_nat i)) by lia. rewrite HhGo. apply Hpath. exact Hi.
      - intros j Hj. rewrite (P4 j) by lia. rewrite HhGo. rewrite hget_hset_other by lia. now apply Hzero. }
    subst zh.
    destruct (interior_node_line
                (negamax_asserting bad base (prefix ++ [s_board st]) d' (ply + 1)) (negamax T orc d' (ply + 1))
                (d' + S Q)%nat (s_board st) (s_history st3) (s_contempt st)) with
      (color := turn (s_board st)) (ply := ply) (rd := N.of_nat (S d')) (a0 := a0) (ispv := ispv) (zph := zph)
      (alpha := al) (beta := be) (ttm := ttm) (buffer := buf) (st := st3) as [E L].
    + intros a b pv zh' zph' st2 Hpre. destruct (Hchild zh' st2 Hpre) as (I1 & I2 & I3).
      exact (proj1 (IH bad base (prefix ++ [s_board st]) (ply + 1) a b pv zh' zph' st2 I1 I2 I3)).
    + intros a b pv zh' zph' st2 Hpre. destruct (Hchild zh' st2 Hpre) as (I1 & I2 & I3).
      destruct (IH bad base (prefix ++ [s_board st]) (ply + 1) a b pv zh' zph' st2 I1 I2 I3) as (_ & J1 & J2 & J3).
      destruct Hpre as (_ & _ & P3 & _ & P5). rewrite P3 in J3. split; [exact J1|]. split; [congruence|exact J3].
    + exact HQ.
    + exact Hlt.
    + exact Hin.
    + exact Hst3.
    + split; [exact E|]. destruct L as (L1 & L2 & L3). split; [exact L1|]. split; [exact L2|].
      intros j Hj. rewrite (L3 j) by lia. rewrite HhGo. apply hget_hset_other. lia.
Qed.

End Line.

(* ================================================================================================ *)
(* 7. the repetition leaf is taken exactly on a threefold repetition                                 *)

Lemma nth_errorN_nat (l : list N) : forall d, nth_errorN d l = nth_error l (N.to_nat d).
Proof.
  induction l as [|a r IH]; intro d; cbn [nth_errorN].
  - destruct (N.to_nat d); reflexivity.
  - destruct (N.eqb_spec d 0) as [->|Hnz]; [reflexivity|]. rewrite IH.
    replace (N.to_nat d) with (S (N.to_nat (d - 1))) by lia. reflexivity.
Qed.

(* [holds_game] from an oldest-first indexing *)
Lemma holds_game_index k i keys : lenN keys <= i + 1 ->
  (forall j x, nth_error keys j = Some x -> k (i + 1 - lenN keys + N.of_nat j) = x) -> holds_game k i keys.
Proof.
  intros Hlen Hidx. split; [exact Hlen|]. intros d x H. apply nth_errorN_rev in H as [H Hlt].
  rewrite nth_errorN_nat in H. apply Hidx in H.
  replace (i - d) with (i + 1 - lenN keys + N.of_nat (N.to_nat (lenN keys - 1 - d))) by lia. exact H.
Qed.

Lemma take_all : forall l n, lenN l <= n -> take n l = l.
Proof.
  unfold lenN. induction l as [|a r IH]; intros n H; cbn [take]; [reflexivity|]. cbn [length] in H.
  destruct (N.eqb_spec n 0); [lia|]. f_equal. apply IH. lia.
Qed.

(* a half-move clock reaching back beyond the first key counts the same as one reaching exactly to it *)
Lemma earlier_equal_long keys hm : lenN keys <= hm + 1 -> earlier_equal keys hm = earlier_equal keys (lenN keys - 1).
Proof.
  intro H. unfold earlier_equal. assert (Hl : lenN (rev keys) = lenN keys) by (unfold lenN; now rewrite rev_length).
  destruct (rev keys) as [|cur prevs]; [reflexivity|]. unfold earlier_equal_rev, lenN in *. cbn [length] in Hl.
  rewrite !take_all by (unfold lenN; lia). reflexivity.
Qed.

(* the window of the code reaching below index i - hm0 finds nothing there if nothing there equals the entry *)
Lemma occurrences_short k i hm hm0 : hm0 <= hm -> (forall j, j < i - hm0 -> k j <> k i) ->
  occurrences k i hm = occurrences k i hm0.
Proof.
  intros Hle Hne. unfold occurrences, window. rewrite !countb_filter. apply countb_ext. intros j Hj.
  apply below_In in Hj. destruct (N.eqb_spec (k j) (k i)) as [E|E]; [|now rewrite !andb_false_r].
  rewrite !andb_true_r.
  assert (Hge : i - hm0 <= j). { destruct (N.le_gt_cases (i - hm0) j) as [H|H]; [exact H|]. exfalso. exact (Hne j H E). }
  unfold in_window. f_equal.
  destruct (N.leb_spec (i - hm) j); destruct (N.leb_spec (i - hm0) j); try reflexivity; lia.
Qed.

Section Threefold.
Variable T : Tables.t.

(* the keys of the path: hashes of the game positions, then of the line, then of the node; oldest first *)
Definition line_keys (prefix : list board) (Qb : board) : list N := map (zobrist_hash T) (prefix ++ [Qb]).

Lemma line_keys_len prefix Qb : lenN (line_keys prefix Qb) = N.of_nat (length prefix) + 1.
Proof. unfold lenN, line_keys. rewrite map_length, app_length. cbn [length]. lia. Qed.

Lemma line_keys_ne prefix Qb : line_keys prefix Qb <> [].
Proof. unfold line_keys. destruct prefix; discriminate. Qed.

Lemma line_holds_game base prefix zh st : line_inv T base prefix zh st ->
  holds_game (hget (hset (s_history st) (ply_clock_w (s_board st)) zh)) (ply_clock_w (s_board st))
             (line_keys prefix (s_board st)).
Proof.
  intro Hinv. pose proof (line_inv_after_set T base prefix zh st Hinv) as Hpath.
  apply line_inv_spec in Hinv as (_ & Ec & _ & _).
  apply holds_game_index; rewrite line_keys_len; [lia|].
  intros j x Hj. unfold line_keys in Hj. rewrite nth_error_map in Hj.
  destruct (nth_error (prefix ++ [s_board st]) j) as [B|] eqn:EB; [|discriminate]. injection Hj as <-.
  replace (ply_clock_w (s_board st) + 1 - (N.of_nat (length prefix) + 1) + N.of_nat j) with (base + N.of_nat j) by lia.
  now apply Hpath.
Qed.

(* C10_leaf_iff_threefold, as asked: the clock does not reach back before the FEN *)
Theorem leaf_iff_threefold base prefix ply zh st :
  line_inv T base prefix zh st ->
  let keys := line_keys prefix (s_board st) in
  let hm := half (s_board st) mod 65536 in
  hm + 1 <= lenN keys -> parity_ok_keys keys -> no_dist2_keys keys ->
  (repetition_flag ply zh st = true <-> 0 < ply /\ threefold keys hm).
Proof.
  intros Hinv keys hm Hhm Hp Hd. unfold repetition_flag. rewrite visit_spec. cbn [snd].
  rewrite andb_true_iff, N.ltb_lt, N.leb_le.
  change ((ply_clock_w (s_board st), zh) :: s_history st) with (hset (s_history st) (ply_clock_w (s_board st)) zh).
  fold hm.
  rewrite (window_all_keys _ _ keys hm (line_keys_ne _ _) (line_holds_game base prefix zh st Hinv) Hhm Hp Hd).
  unfold threefold. tauto.
Qed.

(* the general case: when the half-move clock of the FEN reaches back beyond the first recorded position the
   window of the code runs over entries below [base]; they are 0 (invariant), so -- provided the hash of the
   current position is not 0 -- the count is that of the recorded positions, which is what [threefold] counts
   ([take] stops at the end of the list) *)
Theorem leaf_iff_threefold_gen base prefix ply zh st :
  line_inv T base prefix zh st ->
  let keys := line_keys prefix (s_board st) in
  let hm := half (s_board st) mod 65536 in
  zh <> 0 -> parity_ok_keys keys -> no_dist2_keys keys ->
  (repetition_flag ply zh st = true <-> 0 < ply /\ threefold keys hm).
Proof.
  intros Hinv keys hm Hz Hp Hd.
  destruct (N.le_gt_cases (hm + 1) (lenN keys)) as [Hs|Hl]; [now apply (leaf_iff_threefold base prefix)|].
  unfold repetition_flag. rewrite visit_spec. cbn [snd]. rewrite andb_true_iff, N.ltb_lt, N.leb_le.
  pose proof (line_holds_game base prefix zh st Hinv) as Hhold.
  pose proof (line_keys_len prefix (s_board st)) as Hlen. fold keys in Hlen.
  pose proof Hinv as Hinv'. apply line_inv_spec in Hinv' as (_ & Ec & _ & Hzero).
  change ((ply_clock_w (s_board st), zh) :: s_history st) with (hset (s_history st) (ply_clock_w (s_board st)) zh).
  set (c := ply_clock_w (s_board st)) in *. fold hm.
  rewrite (occurrences_short _ c hm (lenN keys - 1)).
  - rewrite (window_all_keys _ _ keys (lenN keys - 1) (line_keys_ne _ _) Hhold) by (try assumption; lia).
    unfold threefold. rewrite (earlier_equal_long keys hm) by lia. tauto.
  - lia.
  - intros j Hj. rewrite hget_hset_same, hget_hset_other by lia. rewrite Hzero by lia. congruence.
Qed.

(* in terms of the node: poll, then the leaf *)
Corollary leaf_taken_iff_threefold orc base prefix ply zh st :
  line_inv T base prefix zh st ->
  let keys := line_keys prefix (s_board st) in
  let hm := half (s_board st) mod 65536 in
  hm + 1 <= lenN keys \/ zh <> 0 -> parity_ok_keys keys -> no_dist2_keys keys ->
  (repetition_leaf_taken T orc ply zh st <-> fst (poll_block T orc st) = None /\ 0 < ply /\ threefold keys hm).
Proof.
  intros Hinv keys hm Hc Hp Hd. unfold repetition_leaf_taken.
  destruct Hc as [Hc|Hc].
  - now rewrite (leaf_iff_threefold base prefix ply zh st Hinv Hc Hp Hd).
  - now rewrite (leaf_iff_threefold_gen base prefix ply zh st Hinv Hc Hp Hd).
Qed.

(* ---- from the position command to the root of the search ---- *)
Lemma nth_error_last {A} (l : list A) d : l <> [] -> nth_error l (length l - 1) = Some (last l d).
Proof.
  intro Hne. rewrite (app_removelast_last d Hne) at 1 2. rewrite app_length. cbn [length].
  rewrite nth_error_app2 by lia. replace (length (removelast l) + 1 - 1 - length (removelast l))%nat with O by lia.
  reflexivity.
Qed.

Theorem position_root_inv (G : nat -> board -> Prop) f moves b h played st :
  MakeUnmake.tables_castle_ok T = true ->
  (forall n x, G n x -> UciMovesProofs.good x) ->
  (forall n x m x', G (S n) x -> In m (gen_pseudo T x) -> make x m = Some x' -> is_valid T x' = true -> G n x') ->
  let P0 := board_of_fen f in
  G (length moves) P0 -> 1 <= full P0 -> ply_count P0 + N.of_nat (length moves) < 65536 ->
  position_result T f moves = PosOk b h played ->
  exists bs, legal_line T P0 played bs /\ b = last bs P0 /\
    line_inv T (ply_clock_w P0) (removelast (P0 :: bs)) (zobrist_hash T b) (set_position_from T f moves st).
Proof.
  intros HT Hgood Hclosed P0 HG Hfull Hr H.
  destruct (set_position_from_ok T f moves st b h played H) as (Sb & Sh & _ & _).
  destruct (game_history_recorded T G HT Hgood Hclosed f moves b h played HG Hfull Hr H) as (bs & LL & Hlen & Eb & Hclk & Eh).
  fold P0 in LL, Eb, Hclk, Eh.
  exists bs. split; [exact LL|]. split; [exact Eb|].
  assert (Hne : P0 :: bs <> []) by discriminate.
  pose proof (app_removelast_last P0 Hne) as Hsplit. rewrite last_cons, <- Eb in Hsplit.
  assert (Hl : length (P0 :: bs) = (length (removelast (P0 :: bs)) + 1)%nat).
  { rewrite Hsplit at 1. rewrite app_length. reflexivity. }
  destruct (record_from_spec (map (zobrist_hash T) (P0 :: bs)) hempty (ply_clock_w P0)) as (Grec & Orec).
  apply line_inv_spec. rewrite Sb, Sh, Eh. split; [reflexivity|]. split; [|split].
  - pose proof (nth_error_last (P0 :: bs) P0 Hne) as Hlast. rewrite last_cons, <- Eb in Hlast.
    rewrite (Hclk _ _ Hlast). rewrite Hl. f_equal. lia.
  - intros i B Hi.
    assert (Hi' : nth_error (P0 :: bs) i = Some B).
    { rewrite Hsplit. rewrite nth_error_app1; [exact Hi|]. apply nth_error_Some. congruence. }
    apply Grec. rewrite nth_errorN_nat, Nat2N.id, nth_error_map, Hi'. reflexivity.
  - intros j Hj. rewrite Orec by (left; exact Hj). reflexivity.
Qed.

End Threefold.

(* ================================================================================================ *)
(* 8. the contempt factor is a constant of the engine: no command and no search ever changes it       *)

Section Contempt.
Variable T : Tables.t.

Definition cf (st st' : sstate) : Prop := s_contempt st' = s_contempt st.

Lemma nm_loop_cf (rec : Z -> Z -> bool -> N -> N -> sstate -> vmove * sstate) :
  (forall a b pv z zp st, cf st (snd (rec a b pv z zp st))) ->
  forall moves ispv pvm zh zph rd beta alpha bv bm bc lg st,
  cf st (snd (nm_loop T rec moves ispv pvm zh zph rd beta alpha bv bm bc lg st)).
Proof.
  unfold cf. intros Hrec moves. induction moves as [|mv rest IH]; intros ispv pvm zh zph rd beta alpha bv bm bc lg st; cbn [nm_loop]; [reflexivity|].
  destruct (make (s_board st) mv) as [b1|].
  - destruct (is_valid T b1); cbn [negb].
    + assert (E2 : exists zx zpx st2, (match zobrist_xor T mv with Some (x, p) => (x, p, set_board st b1) | None => (0, 0, set_panicked (set_board st b1) true) end) = (zx, zpx, st2)
                                   /\ s_contempt st2 = s_contempt st).
      { destruct (zobrist_xor T mv) as [[x p]|]; do 3 eexists; (split; reflexivity). }
      destruct E2 as (zx & zpx & st2 & -> & O2).
      pose proof (Hrec (- beta)%Z (- alpha)%Z (ispv && opt_move_eqb pvm mv) (N.lxor zh zx) (N.lxor zph zpx) st2) as O3.
      destruct (rec (- beta)%Z (- alpha)%Z (ispv && opt_move_eqb pvm mv) (N.lxor zh zx) (N.lxor zph zpx) st2) as [child st3].
      cbn [snd] in O3.
      assert (E4 : s_contempt (do_unmake st3 mv) = s_contempt st).
      { rewrite (proj2 (do_unmake_hc st3 mv)). congruence. }
      destruct (s_stop st3); [exact E4|].
      destruct (bv <? - vm_value child)%Z; cbv zeta iota beta;
        (destruct (beta <=? _)%Z; [exact E4|rewrite IH; exact E4]).
    + rewrite IH. rewrite (proj2 (do_unmake_hc _ mv)). reflexivity.
  - rewrite IH. reflexivity.
Qed.

Lemma interior_node_cf rec :
  (forall a b pv z zp st, cf st (snd (rec a b pv z zp st))) ->
  forall color ply rd a0 ispv zh zph alpha beta ttm buffer st,
  cf st (snd (interior_node T rec color ply rd a0 ispv zh zph alpha beta ttm buffer st)).
Proof.
  intros Hrec color ply rd a0 ispv zh zph alpha beta ttm buffer st. unfold interior_node. cbv zeta.
  match goal with |- context [nm_loop T rec ?mv ?a ?b ?c ?d ?e ?f ?g ?h ?i ?j ?k st] =>
    pose proof (nm_loop_cf rec Hrec mv a b c d e f g h i j k st) as HL;
    destruct (nm_loop T rec mv a b c d e f g h i j k st) as [[r|bv bm bc lg] st4] end;
  cbn [snd] in HL; [exact HL|].
  destruct (negb lg); [exact HL|]. destruct (negb _); exact HL.
Qed.

Section WithOracle.
Variable orc : oracle.

Lemma negamax_cf d : forall ply a0 b0 ispv zh zph st, cf st (snd (negamax T orc d ply a0 b0 ispv zh zph st)).
Proof.
  induction d as [|d' IH]; intros ply a0 b0 ispv zh zph st; rewrite negamax_unfold;
  (match goal with |- context [node_prelude T orc ply ?rd a0 b0 zh st] =>
     pose proof (node_prelude_hist T orc ply rd a0 b0 zh st) as (C3 & _ & _);
     destruct (node_prelude T orc ply rd a0 b0 zh st) as [[r|alpha beta ttm buffer] st3] end);
  cbn [fst snd] in C3; try exact C3.
  - unfold cf. rewrite (proj2 (leaf_node_hc T _ alpha beta zph buffer st3)). exact C3.
  - unfold cf. rewrite (interior_node_cf (negamax T orc d' (ply + 1)) (fun a b pv z zp s => IH (ply + 1) a b pv z zp s)). exact C3.
Qed.

Lemma id_step_cf mt a : s_contempt (id_st (un (id_step T orc mt a))) = s_contempt (id_st a).
Proof.
  unfold id_step. cbv zeta.
  match goal with |- context [negamax T orc ?d ?p ?x ?y ?v ?z ?w (id_st a)] =>
    pose proof (negamax_cf d p x y v z w (id_st a)) as C1;
    destruct (negamax T orc d p x y v z w (id_st a)) as [current st1] end.
  cbn [snd] in C1. unfold cf in C1. unfold read_clock, generate_info. cbv beta iota zeta. sproj.
  destruct (s_stop st1 || match vm_mv current with Some _ => false | None => true end);
    cbn [negb orb]; cbv beta iota zeta; unfold read_clock; cbv beta iota zeta; sproj.
  - cbn [un id_st]. sproj. exact C1.
  - match goal with |- context [if ?c then inr ?x else inl ?y] => replace (un (if c then inr x else inl y)) with x by (destruct c; reflexivity) end.
    cbn [id_st]. sproj. exact C1.
Qed.

Lemma try_set_pv_cf st : s_contempt (try_set_pv_from_continuation st) = s_contempt st.
Proof.
  unfold try_set_pv_from_continuation.
  repeat (match goal with |- context [match ?x with _ => _ end] => destruct x end); reflexivity.
Qed.

Lemma best_move_cf st : s_contempt (snd (best_move T orc st)) = s_contempt st.
Proof.
  unfold best_move. cbv zeta.
  set (st1 := set_killers _ _).
  set (st2 := if s_try_prev_pv st1 then try_set_pv_from_continuation st1 else st1).
  assert (F2 : s_contempt st2 = s_contempt st).
  { subst st2. destruct (s_try_prev_pv st1); [rewrite try_set_pv_cf|]; reflexivity. }
  set (st3 := match g_movetime (s_go st2) with None => _ | Some _ => st2 end).
  assert (F3 : s_contempt st3 = s_contempt st).
  { subst st3. destruct (g_movetime (s_go st2)); [exact F2|]. sproj. exact F2. }
  clearbody st3. clear F2.
  set (a0 := {| id_depth := 1; id_fuel := 1; id_best := None; id_uci_pv := None; id_score := None; id_log := []; id_st := st3 |}).
  set (p := match _ with Npos p => p | N0 => xH end).
  pose proof (iter_until_ind (fun a => s_contempt (id_st a) = s_contempt st) (fun b => s_contempt (id_st b) = s_contempt st)
                             (id_step T orc (g_movetime (s_go st3)))) as HL.
  assert (Hstep : forall a, s_contempt (id_st a) = s_contempt st ->
            match id_step T orc (g_movetime (s_go st3)) a with
            | inl a' => s_contempt (id_st a') = s_contempt st | inr b => s_contempt (id_st b) = s_contempt st end).
  { intros a Ha. pose proof (id_step_cf (g_movetime (s_go st3)) a) as H.
    destruct (id_step T orc (g_movetime (s_go st3)) a); cbn [un] in H; congruence. }
  specialize (HL Hstep p a0 F3).
  destruct (iter_until p _ a0) as [x|x]; unfold read_clock; cbv beta iota zeta; cbn [snd]; sproj; exact HL.
Qed.

End WithOracle.

Lemma run_command_cf st c : s_contempt (run_command T st c) = s_contempt st.
Proof.
  unfold run_command. destruct (s_quit st); [reflexivity|].
  destruct c; try reflexivity.
  - unfold set_position_from. destruct (position_result T f moves); reflexivity.
  - unfold go, go_full. cbv zeta.
    match goal with |- context [best_move T o ?s] =>
      pose proof (best_move_cf o s) as H; destruct (best_move T o s) as [[[bm pm] log] st2] end.
    cbn [snd] in H |- *. sproj. rewrite H. unfold reset_for_go. destruct (s_reset_next _); reflexivity.
  - destruct (print_fen (s_board st)); reflexivity.
Qed.

Lemma run_commands_cf cmds : forall st, s_contempt (run_commands T cmds st) = s_contempt st.
Proof.
  unfold run_commands. induction cmds as [|c r IH]; intro st; cbn [fold_left]; [reflexivity|].
  rewrite IH. apply run_command_cf.
Qed.

(* whatever the session, the factor is the one the engine was created with *)
Theorem contempt_fixed cmds : s_contempt (run_commands T cmds (init_state T)) = contempt T.
Proof. rewrite run_commands_cf. reflexivity. Qed.

End Contempt.

(* ================================================================================================ *)
(* 9. the root: one iteration of iterative deepening keeps the invariant                              *)

Lemma line_inv_frame T base prefix zh st st' :
  line_inv T base prefix zh st -> s_board st' = s_board st ->
  agree_lt (ply_clock_w (s_board st)) (s_history st) (s_history st') -> line_inv T base prefix zh st'.
Proof.
  intros H Hb Ha. apply line_inv_spec in H as (Ez & Ec & Hh & Hz). apply line_inv_spec. rewrite Hb.
  split; [exact Ez|]. split; [exact Ec|]. split.
  - intros i B Hi. assert (Hi' : (i < length prefix)%nat) by (apply nth_error_Some; congruence).
    rewrite Ha by lia. now apply Hh.
  - intros j Hj. rewrite Ha by lia. now apply Hz.
Qed.

Section Root.
Variable T : Tables.t.
Variable orc : oracle.

(* what an iteration does to the state besides the root call: clock readings, the PV, an `info` line *)
Lemma id_step_frame mt a :
  s_board (id_st (un (id_step T orc mt a))) = s_board (snd (root_call T orc a)) /\
  s_history (id_st (un (id_step T orc mt a))) = s_history (snd (root_call T orc a)).
Proof.
  unfold id_step, root_call. cbv zeta.
  match goal with |- context [negamax T orc ?d ?p ?x ?y ?v ?z ?w (id_st a)] =>
    destruct (negamax T orc d p x y v z w (id_st a)) as [current st1] end.
  cbn [snd]. unfold read_clock, generate_info. cbv beta iota zeta. sproj.
  destruct (s_stop st1 || match vm_mv current with Some _ => false | None => true end);
    cbn [negb orb]; cbv beta iota zeta; unfold read_clock; cbv beta iota zeta; sproj.
  - cbn [un id_st]. sproj. split; reflexivity.
  - match goal with |- context [if ?c then inr ?x else inl ?y] => replace (un (if c then inr x else inl y)) with x by (destruct c; reflexivity) end.
    cbn [id_st]. sproj. split; reflexivity.
Qed.

Variable good : nat -> board -> Prop.
Variable Q : nat.
Hypothesis inverse : forall n b m, good (S n) b -> In m (gen_pseudo T b) ->
  exists b', make b m = Some b' /\ unmake b' m = Some b /\ (is_valid T b' = true -> good n b').
Hypothesis good_mono : forall n b, good (S n) b -> good n b.
Hypothesis qfuel_bound : forall n b, good n b -> (qfuel b <= Q)%nat.
Hypothesis good_zob : forall n b, good (S n) b ->
  wf b = true /\ ZobristProofs.castle_wf b = true /\ ZobristProofs.ep_wf b = true /\ 1 <= full b.
Hypothesis Hrows : ZobristProofs.keys_rows_ok T = true.
Hypothesis Hmask : ZobristProofs.gen_masks_ok T = true.

(* the root call of an iteration starts from the invariant (hash = from-scratch hash: `zobrist_hash()` is what
   `go` passes), every node below it satisfies it, and the state handed to the next iteration satisfies it again *)
Theorem root_iteration_inv mt a base prefix :
  line_inv T base prefix (zobrist_hash T (s_board (id_st a))) (id_st a) ->
  good (id_fuel a + S Q)%nat (s_board (id_st a)) ->
  base + N.of_nat (length prefix) + N.of_nat (id_fuel a) < 65536 ->
  (forall bad, negamax_asserting T orc bad base prefix (id_fuel a) 0 (loss_score T) (win_score T)
                 (match s_pv (id_st a) with Some _ => true | None => false end)
                 (zobrist_hash T (s_board (id_st a))) (pawn_hash T (s_board (id_st a))) (id_st a) = root_call T orc a) /\
  s_board (id_st (id_next T orc mt a)) = s_board (id_st a) /\
  line_inv T base prefix (zobrist_hash T (s_board (id_st (id_next T orc mt a)))) (id_st (id_next T orc mt a)).
Proof.
  intros Hinv Hg Hr. unfold id_next. destruct (id_step_frame mt a) as [Fb Fh].
  pose proof (fun bad => line_recorded T good Q inverse good_mono qfuel_bound good_zob Hrows Hmask orc (id_fuel a) bad base prefix 0
                (loss_score T) (win_score T) (match s_pv (id_st a) with Some _ => true | None => false end)
                (zobrist_hash T (s_board (id_st a))) (pawn_hash T (s_board (id_st a))) (id_st a) Hinv Hg Hr) as HL.
  fold (root_call T orc a) in HL.
  split; [intro bad; exact (proj1 (HL bad))|].
  destruct (HL (fun s => (leaf 0, s))) as (_ & B1 & _ & A1).
  split; [congruence|]. rewrite Fb, B1.
  apply (line_inv_frame T base prefix _ (id_st a)); [exact Hinv|congruence|]. rewrite Fh. exact A1.
Qed.

End Root.

(* ================================================================================================ *)
(* 10. the statements with their hypotheses spelled out (pinned in Properties/C10.v)                  *)

(* everything section 6 assumes, in one place:
   - [C03_family] (Proofs/SearchProofs.v): on [good (S n)] boards make/unmake are inverse for every generated
     move and a child that passes `is_valid` is [good n]; [Q] bounds the fuel of the capture search;
   - on the same boards the side conditions of C06_incremental hold (wf, castle_wf, ep_wf) and the full-move
     number is at least 1;
   - the key tables have the shape C06 needs (true of the generated tables: C06_keys_ok_gen). *)
Definition search_family (T : Tables.t) (good : nat -> board -> Prop) (Q : nat) : Prop :=
  C03_family T good Q /\
  (forall n b, good (S n) b ->
     wf b = true /\ ZobristProofs.castle_wf b = true /\ ZobristProofs.ep_wf b = true /\ 1 <= full b) /\
  ZobristProofs.keys_rows_ok T = true /\ ZobristProofs.gen_masks_ok T = true.

Theorem line_recorded_thm : forall T good Q, search_family T good Q ->
  forall orc d bad base prefix ply a0 b0 ispv zh zph st,
  line_inv T base prefix zh st -> good (d + S Q)%nat (s_board st) ->
  base + N.of_nat (length prefix) + N.of_nat d < 65536 ->
  negamax_asserting T orc bad base prefix d ply a0 b0 ispv zh zph st = negamax T orc d ply a0 b0 ispv zh zph st /\
  s_board (snd (negamax T orc d ply a0 b0 ispv zh zph st)) = s_board st /\
  s_contempt (snd (negamax T orc d ply a0 b0 ispv zh zph st)) = s_contempt st /\
  agree_lt (ply_clock_w (s_board st)) (s_history st) (s_history (snd (negamax T orc d ply a0 b0 ispv zh zph st))).
Proof.
  intros T good Q ((H1 & H2 & H3) & H4 & H5 & H6) orc d. exact (line_recorded T good Q H1 H2 H3 H4 H5 H6 orc d).
Qed.

Theorem root_iteration_inv_thm : forall T good Q, search_family T good Q ->
  forall orc mt a base prefix,
  line_inv T base prefix (zobrist_hash T (s_board (id_st a))) (id_st a) ->
  good (id_fuel a + S Q)%nat (s_board (id_st a)) ->
  base + N.of_nat (length prefix) + N.of_nat (id_fuel a) < 65536 ->
  (forall bad, negamax_asserting T orc bad base prefix (id_fuel a) 0 (loss_score T) (win_score T)
                 (match s_pv (id_st a) with Some _ => true | None => false end)
                 (zobrist_hash T (s_board (id_st a))) (pawn_hash T (s_board (id_st a))) (id_st a) = root_call T orc a) /\
  s_board (id_st (id_next T orc mt a)) = s_board (id_st a) /\
  line_inv T base prefix (zobrist_hash T (s_board (id_st (id_next T orc mt a)))) (id_st (id_next T orc mt a)).
Proof.
  intros T good Q ((H1 & H2 & H3) & H4 & H5 & H6) orc mt a. exact (root_iteration_inv T orc good Q H1 H2 H3 H4 H5 H6 mt a).
Qed.

(* ================================================================================================ *)
(* 11. a concrete line (computed): 1.Nf3 Nf6 2.Ng1 Ng8 3.Nf3 Nf6 4.Ng1, Black to move                 *)

Definition ex_T := Ink.Gen.Tables.tables.
Definition ex_fen (s : str) : fen :=
  match fen_from_str s with
  | inr f => f
  | inl _ => {| f_text := []; f_placement := []; f_color := []; f_castle := []; f_ep := []; f_half := None; f_full := None |}
  end.
Definition ex_orc : oracle := {| abort_at := None; poll := 100000; inbox := fun _ => []; elapsed := fun _ => 1 |}.
Definition ex_moves : list str := map lit ["g1f3"; "g8f6"; "f3g1"; "f6g8"; "g1f3"; "g8f6"; "f3g1"]%string.
Definition ex_root : sstate := set_position_from ex_T (ex_fen STARTPOS) ex_moves (init_state ex_T).
Fixpoint ex_boards (b : board) (us : list str) : list board :=
  match us with
  | [] => [b]
  | u :: r => match find_uci ex_T b u with
              | (inr m, _) => match make b m with Some b2 => b :: ex_boards b2 r | None => [b] end
              | _ => [b]
              end
  end.
Definition ex_path : list board := ex_boards (board_of_fen (ex_fen STARTPOS)) ex_moves.     (* P0 .. P7 *)
(* ... Ng8 (f6 = 21, g8 = 6): the start position for the third time, one ply below the root *)
Definition ex_child : option (sstate * N) :=
  match find (fun m => (src m =? 21) && (dst m =? 6)) (gen_pseudo ex_T (s_board ex_root)) with
  | Some m => match make (s_board ex_root) m with
              | Some b1 => Some (set_board ex_root b1, zobrist_hash ex_T b1)
              | None => None
              end
  | None => None
  end.
Definition ex_poison (s : sstate) : vmove * sstate := (leaf 12345, set_panicked s true).

(* the root satisfies the invariant with the game as prefix; one ply down the leaf is taken and is worth
   draw_score - contempt = -50 whatever the depth; at the root (ply 0) the same test is off; at an even ply it
   is +50; and a two-ply search with a poisoned assertion is the two-ply search *)
Example knight_shuffle :
  length ex_path = 8%nat /\
  line_invb ex_T 0 (removelast ex_path) (zobrist_hash ex_T (s_board ex_root)) ex_root = true /\
  match ex_child with
  | Some (st, zh) =>
      repetition_flag 1 zh st = true /\ repetition_flag 0 zh st = false /\
      fst (negamax ex_T ex_orc 0 1 (-100000)%Z 100000%Z false zh 0 st) = VM (-50)%Z None None /\
      fst (negamax ex_T ex_orc 2 1 (-100000)%Z 100000%Z false zh 0 st) = VM (-50)%Z None None /\
      fst (negamax ex_T ex_orc 0 2 (-100000)%Z 100000%Z false zh 0 st) = VM 50%Z None None
  | None => False
  end /\
  (let zh := zobrist_hash ex_T (s_board ex_root) in
   let zp := pawn_hash ex_T (s_board ex_root) in
   let r := negamax ex_T ex_orc 2 0 (loss_score ex_T) (win_score ex_T) false zh zp ex_root in
   let r' := negamax_asserting ex_T ex_orc ex_poison 0 (removelast ex_path) 2 0 (loss_score ex_T) (win_score ex_T) false zh zp ex_root in
   (vm_value (fst r), s_nm_nodes (snd r), s_panicked (snd r)) = (vm_value (fst r'), s_nm_nodes (snd r'), s_panicked (snd r')) /\
   s_panicked (snd r) = false).
Proof. vm_compute. repeat split. Qed.

(* outside the stated range: a FEN with full-move number 0 and Black to move is accepted by the reader; the
   ply clock (saturating_sub) then goes 1, 0, 1: the third position overwrites the first *)
Example clock_fullmove_zero :
  let b0 := board_of_fen (ex_fen (lit "4k3/8/8/8/8/8/8/4K3 b - - 0 0")) in
  full b0 = 0 /\ ply_clock_w b0 = 1 /\
  match find (fun m => (src m =? 4) && (dst m =? 3)) (gen_pseudo ex_T b0) with          (* Ke8-d8 *)
  | Some m => match make b0 m with
              | Some b1 => ply_clock_w b1 = 0
              | None => False
              end
  | None => False
  end.
Proof. vm_compute. repeat split. Qed.

(* C06 - Zobrist hashes: incremental update = recomputation; the hash is a function of the position key;
   single-component differences change it.  Model: Model/Board.v (zobrist_hash, pawn_hash, zobrist_xor, make,
   gen_pseudo).  Only lemmas here; the pinned statements are in Properties/C06.v. *)
Require Import NArith ZArith List Bool Lia Permutation.
Require Import Ink.Lib.Bits Ink.Model.Tables Ink.Model.Board.
Import ListNotations.
Open Scope N_scope.

Arguments N.add : simpl never.
Arguments N.sub : simpl never.
Arguments N.mul : simpl never.
Arguments N.div : simpl never.
Arguments N.modulo : simpl never.
Arguments N.eqb : simpl never.
Arguments N.ltb : simpl never.
Arguments N.leb : simpl never.
Arguments N.lxor : simpl never.
Arguments N.lor : simpl never.
Arguments N.land : simpl never.
Arguments N.ldiff : simpl never.
Arguments N.shiftl : simpl never.
Arguments N.shiftr : simpl never.
Arguments N.testbit : simpl never.

(* ================================================================================================ *)
(* 0. A reflexive decision procedure for equalities between xor-expressions (lxor is AC with unit 0
      and every element is its own inverse).                                                          *)
(* ================================================================================================ *)
Inductive xe := X0 | XA (i : nat) | XX (a b : xe).

Fixpoint xden (env : list N) (e : xe) : N :=
  match e with X0 => 0 | XA i => nth i env 0 | XX a b => N.lxor (xden env a) (xden env b) end.

(* insertion into a strictly sorted list, cancelling equal atoms *)
Fixpoint xins (i : nat) (l : list nat) : list nat :=
  match l with
  | [] => [i]
  | j :: r => match Nat.compare i j with Eq => r | Lt => i :: l | Gt => j :: xins i r end
  end.
Fixpoint xflat (e : xe) (acc : list nat) : list nat :=
  match e with X0 => acc | XA i => xins i acc | XX a b => xflat a (xflat b acc) end.
Definition bx (env : list N) (l : list nat) : N := fold_right (fun i acc => N.lxor (nth i env 0) acc) 0 l.

Lemma lxor_swap a b c : N.lxor a (N.lxor b c) = N.lxor b (N.lxor a c).
Proof. now rewrite <- !N.lxor_assoc, (N.lxor_comm a b). Qed.

Lemma xins_ok env i l : bx env (xins i l) = N.lxor (nth i env 0) (bx env l).
Proof.
  induction l as [|j r IH]; cbn [xins bx fold_right]; [reflexivity|].
  destruct (Nat.compare_spec i j) as [->|H|H]; cbn [bx fold_right].
  - now rewrite <- N.lxor_assoc, N.lxor_nilpotent, N.lxor_0_l.
  - reflexivity.
  - fold (bx env (xins i r)). rewrite IH. fold (bx env r). apply lxor_swap.
Qed.

Lemma xflat_ok env e : forall acc, bx env (xflat e acc) = N.lxor (xden env e) (bx env acc).
Proof.
  induction e as [|i|a IHa b IHb]; intros acc; cbn [xflat xden].
  - now rewrite N.lxor_0_l.
  - apply xins_ok.
  - now rewrite IHa, IHb, N.lxor_assoc.
Qed.

Lemma xor_ac_sound env e1 e2 : xflat e1 [] = xflat e2 [] -> xden env e1 = xden env e2.
Proof.
  intros H. pose proof (xflat_ok env e1 []) as H1. pose proof (xflat_ok env e2 []) as H2.
  cbn [bx fold_right] in H1, H2. rewrite N.lxor_0_r in H1, H2. now rewrite <- H1, <- H2, H.
Qed.

Ltac x_mem a l := match l with | nil => constr:(false) | cons a _ => constr:(true) | cons _ ?r => x_mem a r end.
Ltac x_add a l := match x_mem a l with true => l | false => constr:(cons a l) end.
Ltac x_atoms e l :=
  match e with
  | N.lxor ?a ?b => let l1 := x_atoms a l in x_atoms b l1
  | N0 => l
  | _ => x_add e l
  end.
Ltac x_idx a l := match l with | cons a _ => constr:(O) | cons _ ?r => let n := x_idx a r in constr:(S n) end.
Ltac x_reify e l :=
  match e with
  | N.lxor ?a ?b => let x := x_reify a l in let y := x_reify b l in constr:(XX x y)
  | N0 => constr:(X0)
  | _ => let n := x_idx e l in constr:(XA n)
  end.
Ltac xor_ac :=
  match goal with
  | |- ?a = ?b =>
      let l0 := x_atoms a (@nil N) in let l := x_atoms b l0 in
      let ea := x_reify a l in let eb := x_reify b l in
      let H := fresh in
      assert (H : xden l ea = xden l eb) by (apply xor_ac_sound; vm_compute; reflexivity);
      cbv [xden nth] in H; exact H
  end.

Example xor_ac_demo : forall a b c d, N.lxor (N.lxor a (N.lxor b 0)) (N.lxor c (N.lxor d b)) = N.lxor d (N.lxor c a).
Proof. intros. xor_ac. Qed.

(* ================================================================================================ *)
(* 1. (a) hash_for_occ is a big xor over the set bits                                                *)
(* ================================================================================================ *)
Definition big_xor (f : N -> N) (l : list N) : N := fold_left (fun acc x => N.lxor acc (f x)) l 0.

Lemma fold_xor_acc (f : N -> N) l : forall a k,
  fold_left (fun acc x => N.lxor acc (f x)) l (N.lxor a k) = N.lxor (fold_left (fun acc x => N.lxor acc (f x)) l a) k.
Proof.
  induction l as [|x r IH]; intros a k; cbn [fold_left]; [reflexivity|].
  rewrite <- IH. f_equal. xor_ac.
Qed.

Lemma fold_xor_perm (f : N -> N) l l' : Permutation l l' -> forall a,
  fold_left (fun acc x => N.lxor acc (f x)) l a = fold_left (fun acc x => N.lxor acc (f x)) l' a.
Proof.
  induction 1 as [|x l l' _ IH|x y l|l l' l'' _ IH1 _ IH2]; intros a; cbn [fold_left].
  - reflexivity.
  - apply IH.
  - f_equal. xor_ac.
  - now rewrite IH1.
Qed.

Lemma big_xor_perm f l l' : Permutation l l' -> big_xor f l = big_xor f l'.
Proof. intros H. apply fold_xor_perm, H. Qed.

Lemma big_xor_cons f x l : big_xor f (x :: l) = N.lxor (big_xor f l) (f x).
Proof. unfold big_xor. cbn [fold_left]. apply fold_xor_acc. Qed.

Lemma hash_for_occ_big_xor T occ p c : hash_for_occ T occ p c = big_xor (fun s => ps_hash T p s c) (bits_of occ).
Proof. reflexivity. Qed.

Lemma bits_pos_NoDup p : forall i, NoDup (bits_pos p i).
Proof.
  induction p as [q IH|q IH|]; intros i; cbn [bits_pos].
  - constructor; [|apply IH]. rewrite bits_pos_spec. lia.
  - apply IH.
  - constructor; [intros []|constructor].
Qed.
Lemma bits_of_NoDup n : NoDup (bits_of n).
Proof. destruct n; cbn [bits_of]; [constructor|apply bits_pos_NoDup]. Qed.

Lemma testbit_clear x s i : N.testbit (clear x (bit s)) i = N.testbit x i && negb (i =? s).
Proof. unfold clear. now rewrite N.ldiff_spec, bit_spec. Qed.
Lemma testbit_set x s i : N.testbit (N.lor x (bit s)) i = N.testbit x i || (i =? s).
Proof. now rewrite N.lor_spec, bit_spec. Qed.

Lemma bits_of_set_perm occ s : N.testbit occ s = false -> Permutation (bits_of (N.lor occ (bit s))) (s :: bits_of occ).
Proof.
  intros H. apply NoDup_Permutation.
  - apply bits_of_NoDup.
  - constructor; [|apply bits_of_NoDup]. rewrite bits_of_spec. congruence.
  - intros i. cbn [In]. rewrite !bits_of_spec, testbit_set.
    destruct (N.eqb_spec i s) as [->|Hne]; [rewrite orb_true_r; tauto|rewrite orb_false_r].
    split; [tauto|intros [E|E]; [congruence|exact E]].
Qed.

Lemma bits_of_clear_perm occ s : N.testbit occ s = true -> Permutation (bits_of occ) (s :: bits_of (clear occ (bit s))).
Proof.
  intros H. apply NoDup_Permutation.
  - apply bits_of_NoDup.
  - constructor; [|apply bits_of_NoDup]. rewrite bits_of_spec, testbit_clear, N.eqb_refl. cbn. now rewrite andb_false_r.
  - intros i. cbn [In]. rewrite !bits_of_spec, testbit_clear.
    destruct (N.eqb_spec i s) as [->|Hne]; cbn [negb]; [rewrite andb_false_r; split; [now left|intros _; exact H]|rewrite andb_true_r].
    split; [tauto|intros [E|E]; [congruence|exact E]].
Qed.

(* set a bit that was clear / clear a bit that was set: the hash changes by exactly that piece-square key *)
Lemma hash_for_occ_set T occ s p c : N.testbit occ s = false ->
  hash_for_occ T (N.lor occ (bit s)) p c = N.lxor (hash_for_occ T occ p c) (ps_hash T p s c).
Proof.
  intros H. rewrite !hash_for_occ_big_xor, (big_xor_perm _ _ _ (bits_of_set_perm occ s H)).
  exact (big_xor_cons (fun x => ps_hash T p x c) s (bits_of occ)).
Qed.

Lemma hash_for_occ_clear T occ s p c : N.testbit occ s = true ->
  hash_for_occ T (clear occ (bit s)) p c = N.lxor (hash_for_occ T occ p c) (ps_hash T p s c).
Proof.
  intros H. rewrite !hash_for_occ_big_xor, (big_xor_perm _ _ _ (bits_of_clear_perm occ s H)).
  rewrite (big_xor_cons (fun x => ps_hash T p x c) s). xor_ac.
Qed.

Lemma clear_absent x s : N.testbit x s = false -> clear x (bit s) = x.
Proof.
  intros H. apply N.bits_inj. intros i. rewrite testbit_clear.
  destruct (N.eqb_spec i s) as [->|]; cbn [negb]; [now rewrite andb_false_r|now rewrite andb_true_r].
Qed.
Lemma set_present x s : N.testbit x s = true -> N.lor x (bit s) = x.
Proof.
  intros H. apply N.bits_inj. intros i. rewrite testbit_set.
  destruct (N.eqb_spec i s) as [->|]; [now rewrite orb_true_r|now rewrite orb_false_r].
Qed.

(* ================================================================================================ *)
(* 2. Side conditions on the regenerated tables                                                      *)
(* ================================================================================================ *)
Definition all_zero (l : list N) : bool := forallb (N.eqb 0) l.

(* shape of the key tables; rows 0 and 7 (NO_PIECE of either colour) are zero, so that xoring the key of
   "no captured piece" is a no-op, as the Rust relies on *)
Definition keys_rows_ok (T : Tables.t) : bool :=
  Nat.eqb (length (zob_ps T)) 14 && forallb (fun r => Nat.eqb (length r) 64) (zob_ps T)
  && Nat.eqb (length (zob_ep T)) 8
  && all_zero (nthN (zob_ps T) 0 []) && all_zero (nthN (zob_ps T) 7 []).

(* what the incremental update needs from move generation, as far as it depends on constant masks:
   - the castling EMPTY masks cover the square the ROOK lands on (d1/f1/d8/f8): otherwise castling would be
     generated with an own rook already there, `rooks |= d1` would be a no-op and the delta would still xor the key;
   - a8 (= NO_SQUARE = 0) is on RANK_8, so that "target == en_passant_square" is never taken for an e.p. capture
     when there is no e.p. square (a pawn capturing on a8 promotes instead) *)
Definition gen_masks_ok (T : Tables.t) : bool :=
  N.testbit (wq_empty T) D1 && N.testbit (wk_empty T) F1 && N.testbit (bq_empty T) D8 && N.testbit (bk_empty T) F8
  && N.testbit (rank_mask T 8) 0.

Lemma all_zero_nth l : all_zero l = true -> forall n, nth n l 0 = 0.
Proof.
  induction l as [|x r IH]; intros H n; destruct n; cbn [nth]; try reflexivity;
    cbn [all_zero forallb] in H; apply andb_true_iff in H as [H1 H2].
  - symmetry. now apply N.eqb_eq.
  - now apply IH.
Qed.

Lemma ps_hash_nopiece T : keys_rows_ok T = true -> forall s c, c < 2 -> ps_hash T NO_PIECE s c = 0.
Proof.
  unfold keys_rows_ok. intros H s c Hc. repeat (apply andb_true_iff in H as [H ?]).
  assert (c = 0 \/ c = 1) as [->| ->] by lia; unfold ps_hash, NO_PIECE, nthN at 1;
    [change (0 + 7 * 0) with 0|change (0 + 7 * 1) with 7]; now apply all_zero_nth.
Qed.

(* ================================================================================================ *)
(* 3. Per-side hash components and how the primitive updates change them                             *)
(* ================================================================================================ *)
Definition gate (c : bool) (x : N) : N := if c then x else 0.
Lemma xif_gate c h x : xif c h x = N.lxor h (gate c x).
Proof. destruct c; cbn [xif gate]; [reflexivity|now rewrite N.lxor_0_r]. Qed.

Definition NPH T (p : pstate) (c : N) : N :=
  N.lxor (N.lxor (N.lxor (N.lxor (hash_for_occ T (kings p) KING c) (hash_for_occ T (queens p) QUEEN c))
    (hash_for_occ T (rooks p) ROOK c)) (hash_for_occ T (bishops p) BISHOP c)) (hash_for_occ T (knights p) KNIGHT c).
Definition PH T (p : pstate) (c : N) : N := hash_for_occ T (pawns p) PAWN c.
Definition RH T (qw kw qk kk : bool) : N :=
  N.lxor (N.lxor (N.lxor (gate qw (zob_wq T)) (gate kw (zob_wk T))) (gate qk (zob_bq T))) (gate kk (zob_bk T)).
Definition SE T (tn e : N) : N := N.lxor (zob_side T * (1 - tn)) (gate (negb (e =? NO_SQUARE)) (ep_hash T e)).
(* the key of (piece, square, colour) as seen by the non-pawn part / the pawn part *)
Definition npk T (piece s c : N) : N := if piece =? PAWN then 0 else ps_hash T piece s c.
Definition pk T (piece s c : N) : N := if piece =? PAWN then ps_hash T PAWN s c else 0.

Lemma if_gate (c : bool) h x : (if c then N.lxor h x else h) = N.lxor h (gate c x).
Proof. destruct c; cbn [gate]; [reflexivity|now rewrite N.lxor_0_r]. Qed.

Lemma pawn_hash_nf T b : pawn_hash T b = N.lxor (N.lxor (PH T (white b) WHITE) (PH T (black b) BLACK)) (SE T (turn b) (ep b)).
Proof. unfold pawn_hash, PH, SE. cbv zeta. rewrite if_gate. xor_ac. Qed.

Lemma zobrist_hash_nf T b : zobrist_hash T b =
  N.lxor (N.lxor (N.lxor (NPH T (white b) WHITE) (NPH T (black b) BLACK))
                 (RH T (qs (white b)) (ks (white b)) (qs (black b)) (ks (black b)))) (pawn_hash T b).
Proof. unfold zobrist_hash, NPH, RH. cbv zeta. rewrite !if_gate. xor_ac. Qed.

Ltac piece_cases p :=
  let H := fresh in
  assert (H : p = 0 \/ p = 1 \/ p = 2 \/ p = 3 \/ p = 4 \/ p = 5 \/ p = 6) by lia;
  destruct H as [H|[H|[H|[H|[H|[H|H]]]]]]; subst p.

Lemma occ_of_set_rights p a b x : occ_of (set_rights p a b) x = occ_of p x.
Proof. destruct x as [|q]; [reflexivity|]; do 3 (try destruct q as [q|q|]); reflexivity. Qed.

Lemma occ_of_set_occ_same p x v : 1 <= x <= 6 -> occ_of (set_occ p x v) x = v.
Proof. intros H. piece_cases x; try lia; reflexivity. Qed.

Lemma qs_set_occ p x v : qs (set_occ p x v) = qs p.
Proof. destruct x as [|q]; [reflexivity|]; do 3 (try destruct q as [q|q|]); reflexivity. Qed.
Lemma ks_set_occ p x v : ks (set_occ p x v) = ks p.
Proof. destruct x as [|q]; [reflexivity|]; do 3 (try destruct q as [q|q|]); reflexivity. Qed.

Ltac eval_eqb :=
  unfold KING, QUEEN, ROOK, BISHOP, KNIGHT, PAWN, NO_PIECE;
  repeat match goal with
  | |- context [N.eqb ?a ?b] =>
      let v := eval vm_compute in (N.eqb a b) in
      match v with true => idtac | false => idtac end; change (N.eqb a b) with v
  end.

Lemma NPH_or T p x s c : 1 <= x <= 6 -> N.testbit (occ_of p x) s = false ->
  NPH T (or_occ p x (bit s)) c = N.lxor (NPH T p c) (npk T x s c).
Proof.
  intros Hx H. unfold or_occ. piece_cases x; try lia; cbn [occ_of] in H; unfold NPH, npk;
    cbn [set_occ occ_of kings queens rooks bishops knights];
    rewrite ?(hash_for_occ_set T _ _ _ _ H); eval_eqb; cbv iota; xor_ac.
Qed.
Lemma PH_or T p x s c : 1 <= x <= 6 -> N.testbit (occ_of p x) s = false ->
  PH T (or_occ p x (bit s)) c = N.lxor (PH T p c) (pk T x s c).
Proof.
  intros Hx H. unfold or_occ. piece_cases x; try lia; cbn [occ_of] in H; unfold PH, pk;
    cbn [set_occ occ_of pawns];
    rewrite ?(hash_for_occ_set T _ _ _ _ H); eval_eqb; cbv iota; xor_ac.
Qed.
Lemma NPH_clr T p x s c : 1 <= x <= 6 -> N.testbit (occ_of p x) s = true ->
  NPH T (clr_occ p x (bit s)) c = N.lxor (NPH T p c) (npk T x s c).
Proof.
  intros Hx H. unfold clr_occ. piece_cases x; try lia; cbn [occ_of] in H; unfold NPH, npk;
    cbn [set_occ occ_of kings queens rooks bishops knights];
    rewrite ?(hash_for_occ_clear T _ _ _ _ H); eval_eqb; cbv iota; xor_ac.
Qed.
Lemma PH_clr T p x s c : 1 <= x <= 6 -> N.testbit (occ_of p x) s = true ->
  PH T (clr_occ p x (bit s)) c = N.lxor (PH T p c) (pk T x s c).
Proof.
  intros Hx H. unfold clr_occ. piece_cases x; try lia; cbn [occ_of] in H; unfold PH, pk;
    cbn [set_occ occ_of pawns];
    rewrite ?(hash_for_occ_clear T _ _ _ _ H); eval_eqb; cbv iota; xor_ac.
Qed.

Lemma occ_of_clr_same p x m : 1 <= x <= 6 -> occ_of (clr_occ p x m) x = clear (occ_of p x) m.
Proof. intros H. unfold clr_occ. now apply occ_of_set_occ_same. Qed.
Lemma occ_of_set_occ_other p x y v : x <> y -> occ_of (set_occ p x v) y = occ_of p y.
Proof.
  intros H. destruct x as [|q]; [reflexivity|]. do 3 (try destruct q as [q|q|]); try reflexivity;
  (destruct y as [|r]; [reflexivity|]; do 3 (try destruct r as [r|r|]); try reflexivity; congruence).
Qed.

Lemma nz_land_bit x s : nz (N.land x (bit s)) = N.testbit x s.
Proof.
  unfold nz. destruct (N.testbit x s) eqn:E.
  - apply negb_true_iff, N.eqb_neq. intros H0.
    assert (N.testbit (N.land x (bit s)) s = true) by (now rewrite N.land_spec, bit_spec, N.eqb_refl, E).
    rewrite H0, N.bits_0 in H. discriminate.
  - apply negb_false_iff, N.eqb_eq, N.bits_inj_0. intros i. rewrite N.land_spec, bit_spec.
    destruct (N.eqb_spec i s) as [->|]; [now rewrite E|apply andb_false_r].
Qed.
Lemma nz_land_bit' x s : nz (N.land (bit s) x) = N.testbit x s.
Proof. rewrite N.land_comm. apply nz_land_bit. Qed.

Lemma piece_at_spec p t :
  piece_at p t = NO_PIECE \/ (1 <= piece_at p t <= 6 /\ N.testbit (occ_of p (piece_at p t)) t = true).
Proof.
  unfold piece_at, piece_at_mask. rewrite !nz_land_bit.
  destruct (N.testbit (pawns p) t) eqn:E1; [right; split; [unfold PAWN; lia|exact E1]|].
  destruct (N.testbit (knights p) t) eqn:E2; [right; split; [unfold KNIGHT; lia|exact E2]|].
  destruct (N.testbit (bishops p) t) eqn:E3; [right; split; [unfold BISHOP; lia|exact E3]|].
  destruct (N.testbit (rooks p) t) eqn:E4; [right; split; [unfold ROOK; lia|exact E4]|].
  destruct (N.testbit (queens p) t) eqn:E5; [right; split; [unfold QUEEN; lia|exact E5]|].
  destruct (N.testbit (kings p) t) eqn:E6; [right; split; [unfold KING; lia|exact E6]|].
  now left.
Qed.

Section Updates.
Variable T : Tables.t.
Hypothesis Hrows : keys_rows_ok T = true.

Lemma npk_nopiece s c : c < 2 -> npk T NO_PIECE s c = 0.
Proof. intros Hc. unfold npk. change (NO_PIECE =? PAWN) with false. cbv iota. now apply ps_hash_nopiece. Qed.
Lemma pk_nopiece s c : pk T NO_PIECE s c = 0.
Proof. reflexivity. Qed.

(* removing whatever stands on t (possibly nothing) *)
Lemma NPH_capture p t c : c < 2 -> NPH T (clr_occ p (piece_at p t) (bit t)) c = N.lxor (NPH T p c) (npk T (piece_at p t) t c).
Proof.
  intros Hc. destruct (piece_at_spec p t) as [E|[H1 H2]].
  - rewrite E, npk_nopiece by assumption. unfold clr_occ. cbn [set_occ NO_PIECE]. now rewrite N.lxor_0_r.
  - now apply NPH_clr.
Qed.
Lemma PH_capture p t c : PH T (clr_occ p (piece_at p t) (bit t)) c = N.lxor (PH T p c) (pk T (piece_at p t) t c).
Proof.
  destruct (piece_at_spec p t) as [E|[H1 H2]].
  - rewrite E, pk_nopiece. unfold clr_occ. cbn [set_occ NO_PIECE]. now rewrite N.lxor_0_r.
  - now apply PH_clr.
Qed.

(* moving a piece of kind x from s to t inside one side's state *)
Lemma NPH_move p x s t c : 1 <= x <= 6 -> N.testbit (occ_of p x) s = true -> N.testbit (occ_of p x) t = false ->
  NPH T (or_occ (clr_occ p x (bit s)) x (bit t)) c = N.lxor (N.lxor (NPH T p c) (npk T x s c)) (npk T x t c).
Proof.
  intros Hx Hs Ht. rewrite NPH_or, NPH_clr; try assumption; [reflexivity|].
  rewrite occ_of_clr_same, testbit_clear, Ht by assumption. reflexivity.
Qed.
Lemma PH_move p x s t c : 1 <= x <= 6 -> N.testbit (occ_of p x) s = true -> N.testbit (occ_of p x) t = false ->
  PH T (or_occ (clr_occ p x (bit s)) x (bit t)) c = N.lxor (N.lxor (PH T p c) (pk T x s c)) (pk T x t c).
Proof.
  intros Hx Hs Ht. rewrite PH_or, PH_clr; try assumption; [reflexivity|].
  rewrite occ_of_clr_same, testbit_clear, Ht by assumption. reflexivity.
Qed.

(* a pawn leaves s, a piece of kind y <> PAWN appears on t *)
Lemma NPH_promote p y s t c : 2 <= y <= 6 -> N.testbit (pawns p) s = true -> N.testbit (occ_of p y) t = false ->
  NPH T (or_occ (clr_occ p PAWN (bit s)) y (bit t)) c = N.lxor (NPH T p c) (ps_hash T y t c).
Proof.
  intros Hy Hs Ht. rewrite NPH_or, NPH_clr; try assumption; try (unfold PAWN; lia).
  - unfold npk. replace (y =? PAWN) with false by (symmetry; apply N.eqb_neq; unfold PAWN; lia).
    change (PAWN =? PAWN) with true. cbv iota. now rewrite N.lxor_0_r.
  - unfold clr_occ. rewrite occ_of_set_occ_other by (unfold PAWN; lia). exact Ht.
Qed.
Lemma PH_promote p y s t c : 2 <= y <= 6 -> N.testbit (pawns p) s = true -> N.testbit (occ_of p y) t = false ->
  PH T (or_occ (clr_occ p PAWN (bit s)) y (bit t)) c = N.lxor (PH T p c) (ps_hash T PAWN s c).
Proof.
  intros Hy Hs Ht. rewrite PH_or, PH_clr; try assumption; try (unfold PAWN; lia).
  - unfold pk. replace (y =? PAWN) with false by (symmetry; apply N.eqb_neq; unfold PAWN; lia).
    change (PAWN =? PAWN) with true. cbv iota. now rewrite N.lxor_0_r.
  - unfold clr_occ. rewrite occ_of_set_occ_other by (unfold PAWN; lia). exact Ht.
Qed.

Lemma NPH_capture_sr p a b t c : c < 2 ->
  NPH T (clr_occ (set_rights p a b) (piece_at p t) (bit t)) c = N.lxor (NPH T p c) (npk T (piece_at p t) t c).
Proof. intros Hc. exact (NPH_capture (set_rights p a b) t c Hc). Qed.
Lemma PH_capture_sr p a b t c :
  PH T (clr_occ (set_rights p a b) (piece_at p t) (bit t)) c = N.lxor (PH T p c) (pk T (piece_at p t) t c).
Proof. exact (PH_capture (set_rights p a b) t c). Qed.
Lemma NPH_move_sr p a b x s t c : 1 <= x <= 6 -> N.testbit (occ_of p x) s = true -> N.testbit (occ_of p x) t = false ->
  NPH T (or_occ (clr_occ (set_rights p a b) x (bit s)) x (bit t)) c = N.lxor (N.lxor (NPH T p c) (npk T x s c)) (npk T x t c).
Proof. intros. apply (NPH_move (set_rights p a b)); rewrite ?occ_of_set_rights; assumption. Qed.
Lemma PH_move_sr p a b x s t c : 1 <= x <= 6 -> N.testbit (occ_of p x) s = true -> N.testbit (occ_of p x) t = false ->
  PH T (or_occ (clr_occ (set_rights p a b) x (bit s)) x (bit t)) c = N.lxor (N.lxor (PH T p c) (pk T x s c)) (pk T x t c).
Proof. intros. apply (PH_move (set_rights p a b)); rewrite ?occ_of_set_rights; assumption. Qed.
Lemma NPH_promote_sr p a b y s t c : 2 <= y <= 6 -> N.testbit (pawns p) s = true -> N.testbit (occ_of p y) t = false ->
  NPH T (or_occ (clr_occ (set_rights p a b) 1 (bit s)) y (bit t)) c = N.lxor (NPH T p c) (ps_hash T y t c).
Proof. intros. apply (NPH_promote (set_rights p a b)); rewrite ?occ_of_set_rights; assumption. Qed.
Lemma PH_promote_sr p a b y s t c : 2 <= y <= 6 -> N.testbit (pawns p) s = true -> N.testbit (occ_of p y) t = false ->
  PH T (or_occ (clr_occ (set_rights p a b) 1 (bit s)) y (bit t)) c = N.lxor (PH T p c) (ps_hash T 1 s c).
Proof. intros. apply (PH_promote (set_rights p a b)); rewrite ?occ_of_set_rights; assumption. Qed.

Lemma NPH_castle_sr p a b rf ksq rt kd c :
  N.testbit (rooks p) rf = true -> N.testbit (kings p) ksq = true ->
  N.testbit (rooks p) rt = false -> N.testbit (kings p) kd = false ->
  NPH T (do_castle (set_rights p a b) rf ksq rt kd) c =
  N.lxor (N.lxor (N.lxor (N.lxor (NPH T p c) (ps_hash T ROOK rf c)) (ps_hash T ROOK rt c)) (ps_hash T KING ksq c)) (ps_hash T KING kd c).
Proof.
  intros H1 H2 H3 H4. unfold do_castle, or_occ, clr_occ, NPH. cbn [set_occ occ_of ROOK KING set_rights kings queens rooks bishops knights].
  rewrite !hash_for_occ_set by (rewrite testbit_clear, ?H3, ?H4; reflexivity).
  rewrite (hash_for_occ_clear T _ _ _ _ H2), (hash_for_occ_clear T _ _ _ _ H1).
  unfold ROOK, KING. xor_ac.
Qed.
Lemma PH_castle_sr p a b rf ksq rt kd c : PH T (do_castle (set_rights p a b) rf ksq rt kd) c = PH T p c.
Proof. reflexivity. Qed.
Lemma qs_do_castle p rf ksq rt kd : qs (do_castle p rf ksq rt kd) = qs p. Proof. reflexivity. Qed.
Lemma ks_do_castle p rf ksq rt kd : ks (do_castle p rf ksq rt kd) = ks p. Proof. reflexivity. Qed.

End Updates.

(* castling-right bookkeeping: a right is "lost" only when it was held *)
Lemma gate_lost (l q : bool) K : (l = true -> q = true) -> gate (if l then false else q) K = N.lxor (gate q K) (gate l K).
Proof. destruct l, q; cbn [gate]; intros H; try reflexivity; try (now rewrite N.lxor_nilpotent); try (now rewrite N.lxor_0_r). discriminate H; reflexivity. Qed.

Definition flags_ok (b : board) (m : move) : Prop :=
  (self_lost_qs m = true -> qs (active b) = true) /\ (self_lost_ks m = true -> ks (active b) = true) /\
  (opp_lost_qs m = true -> qs (passive b) = true) /\ (opp_lost_ks m = true -> ks (passive b) = true).

Definition inc_concl T (b : board) (m : move) : Prop :=
  forall b' dx dp, make b m = Some b' -> zobrist_xor T m = Some (dx, dp) ->
    zobrist_hash T b' = N.lxor (zobrist_hash T b) dx /\ pawn_hash T b' = N.lxor (pawn_hash T b) dp.

Lemma NPH_set_rights T p a b c : NPH T (set_rights p a b) c = NPH T p c. Proof. reflexivity. Qed.
Lemma PH_set_rights T p a b c : PH T (set_rights p a b) c = PH T p c. Proof. reflexivity. Qed.
Lemma qs_set_rights p a b : qs (set_rights p a b) = a. Proof. reflexivity. Qed.
Lemma ks_set_rights p a b : ks (set_rights p a b) = b. Proof. reflexivity. Qed.
Arguments clr_occ : simpl never.
Arguments or_occ : simpl never.
Arguments set_occ : simpl never.
Arguments set_rights : simpl never.
Arguments do_castle : simpl never.

Lemma qs_or_occ p x m : qs (or_occ p x m) = qs p. Proof. apply qs_set_occ. Qed.
Lemma ks_or_occ p x m : ks (or_occ p x m) = ks p. Proof. apply ks_set_occ. Qed.
Lemma qs_clr_occ p x m : qs (clr_occ p x m) = qs p. Proof. apply qs_set_occ. Qed.
Lemma ks_clr_occ p x m : ks (clr_occ p x m) = ks p. Proof. apply ks_set_occ. Qed.

Ltac eval_eqb_in H :=
  unfold KING, QUEEN, ROOK, BISHOP, KNIGHT, PAWN, NO_PIECE, WHITE, BLACK, NO_SQUARE, A1, C1, D1, E1, F1, G1, H1, A8, C8, D8, E8, F8, G8, H8 in H;
  repeat match type of H with
  | context [N.eqb ?a ?b] =>
      let v := eval vm_compute in (N.eqb a b) in
      match v with true => idtac | false => idtac end; change (N.eqb a b) with v in H
  end.
Ltac eval_eqb_goal :=
  unfold KING, QUEEN, ROOK, BISHOP, KNIGHT, PAWN, NO_PIECE, WHITE, BLACK, NO_SQUARE, A1, C1, D1, E1, F1, G1, H1, A8, C8, D8, E8, F8, G8, H8;
  repeat match goal with
  | |- context [N.eqb ?a ?b] =>
      let v := eval vm_compute in (N.eqb a b) in
      match v with true => idtac | false => idtac end; change (N.eqb a b) with v
  end; cbv iota.
Ltac projs_in H :=
  cbn [castle ep_attack promo side prev_ep piece_moved piece_attacked src dst turn ep
      self_lost_qs self_lost_ks opp_lost_qs opp_lost_ks next_ep half_reset white black full half negb] in H.
Ltac projs :=
  cbn [castle ep_attack promo side prev_ep piece_moved piece_attacked src dst turn ep
      self_lost_qs self_lost_ks opp_lost_qs opp_lost_ks next_ep half_reset white black full half negb].
Ltac norm_in H := unfold active, passive, is_white_turn, opposite in H; projs_in H; eval_eqb_in H; cbv iota in H.
Ltac norm_goal := unfold active, passive, is_white_turn, opposite, castle_hash; projs; eval_eqb_goal; cbn [negb];
  change (1 - 0) with 1; change (1 - 1) with 0; cbv iota.

Ltac rights_simpl :=
  rewrite ?qs_do_castle, ?ks_do_castle, ?qs_or_occ, ?ks_or_occ, ?qs_clr_occ, ?ks_clr_occ, ?qs_set_rights, ?ks_set_rights,
    ?NPH_set_rights, ?PH_set_rights;
  unfold RH, SE; rewrite ?xif_gate; rewrite ?gate_lost by assumption;
  rewrite ?N.mul_1_r, ?N.mul_0_r.
Ltac two_lt := unfold WHITE, BLACK; lia.

Lemma inc_ordinary T b m : keys_rows_ok T = true -> turn b < 2 ->
  castle m = false -> ep_attack m = false -> promo m = NO_PIECE ->
  side m = turn b -> prev_ep m = ep b -> flags_ok b m ->
  1 <= piece_moved m <= 6 ->
  N.testbit (occ_of (active b) (piece_moved m)) (src m) = true ->
  N.testbit (occ_of (active b) (piece_moved m)) (dst m) = false ->
  piece_attacked m = piece_at (passive b) (dst m) ->
  inc_concl T b m.
Proof.
  intros Hrows Htn Hc He Hp Hs Hpe Hfl Hpm Hsrc Hdst Hpa b' dx dp.
  destruct b as [w k tn e f h]. destruct m as [pm pa l1 l2 l3 l4 cs ea s t hr ph pe ne pr sd mv].
  unfold flags_ok in Hfl. projs_in Hc. projs_in He. projs_in Hp. projs_in Hs. projs_in Hpe. projs_in Hpa. projs_in Hpm. projs_in Htn.
  subst cs ea pr sd pe pa.
  assert (tn = 0 \/ tn = 1) as [->| ->] by lia.
  all: norm_in Hfl; norm_in Hsrc; norm_in Hdst; destruct Hfl as (F1 & F2 & F3 & F4);
    unfold make, zobrist_xor, is_promotion; norm_goal; intros [= <-];
    destruct (pm =? 1) eqn:Epm; destruct (piece_at _ t =? 1) eqn:Epa; intros [= <- <-];
    rewrite !zobrist_hash_nf, !pawn_hash_nf; projs;
    rewrite (NPH_move_sr T), (PH_move_sr T), (NPH_capture_sr T Hrows), (PH_capture_sr T) by (assumption || two_lt);
    rights_simpl; unfold npk, pk; eval_eqb_goal; rewrite ?Epm, ?Epa; split; xor_ac.
Qed.

Lemma inc_promo T b m : keys_rows_ok T = true -> turn b < 2 ->
  castle m = false -> ep_attack m = false -> 2 <= promo m <= 6 ->
  side m = turn b -> prev_ep m = ep b -> flags_ok b m ->
  N.testbit (pawns (active b)) (src m) = true ->
  N.testbit (occ_of (active b) (promo m)) (dst m) = false ->
  piece_attacked m = piece_at (passive b) (dst m) ->
  inc_concl T b m.
Proof.
  intros Hrows Htn Hc He Hp Hs Hpe Hfl Hsrc Hdst Hpa b' dx dp.
  destruct b as [w k tn e f h]. destruct m as [pm pa l1 l2 l3 l4 cs ea s t hr ph pe ne pr sd mv].
  unfold flags_ok in Hfl. projs_in Hc. projs_in He. projs_in Hp. projs_in Hs. projs_in Hpe. projs_in Hpa. projs_in Htn.
  subst cs ea sd pe pa.
  assert (Hpr0 : (pr =? 0) = false) by (apply N.eqb_neq; lia).
  assert (tn = 0 \/ tn = 1) as [->| ->] by lia.
  all: norm_in Hfl; norm_in Hsrc; norm_in Hdst; destruct Hfl as (F1 & F2 & F3 & F4);
    unfold make, zobrist_xor, is_promotion; norm_goal; rewrite Hpr0; cbn [negb]; cbv iota; intros [= <-];
    destruct (piece_at _ t =? 1) eqn:Epa; intros [= <- <-];
    rewrite !zobrist_hash_nf, !pawn_hash_nf; projs;
    rewrite (NPH_promote_sr T), (PH_promote_sr T), (NPH_capture_sr T Hrows), (PH_capture_sr T) by (assumption || two_lt);
    rights_simpl; unfold npk, pk; eval_eqb_goal; rewrite ?Epa; split; xor_ac.
Qed.

Lemma shiftl_bit_8 t : t + 8 < 64 -> w64 (N.shiftl (bit t) 8) = bit (t + 8).
Proof.
  intros H. unfold bit, w64. rewrite N.shiftl_shiftl, N.shiftl_1_l. apply N.mod_small.
  change 18446744073709551616 with (2 ^ 64). apply N.pow_lt_mono_r; lia.
Qed.
Lemma shiftr_bit_8 t : 8 <= t -> N.shiftr (bit t) 8 = bit (t - 8).
Proof. intros H. unfold bit. now rewrite N.shiftr_shiftl_l. Qed.

Lemma inc_ep T b m : keys_rows_ok T = true -> turn b < 2 ->
  castle m = false -> ep_attack m = true ->
  side m = turn b -> prev_ep m = ep b -> flags_ok b m ->
  N.testbit (pawns (active b)) (src m) = true ->
  N.testbit (pawns (active b)) (dst m) = false ->
  (turn b = 0 -> dst m + 8 < 64 /\ N.testbit (pawns (passive b)) (dst m + 8) = true) ->
  (turn b = 1 -> 8 <= dst m /\ N.testbit (pawns (passive b)) (dst m - 8) = true) ->
  inc_concl T b m.
Proof.
  intros Hrows Htn Hc He Hs Hpe Hfl Hsrc Hdst Hv0 Hv1 b' dx dp.
  destruct b as [w k tn e f h]. destruct m as [pm pa l1 l2 l3 l4 cs ea s t hr ph pe ne pr sd mv].
  unfold flags_ok in Hfl. projs_in Hc. projs_in He. projs_in Hs. projs_in Hpe. projs_in Htn. projs_in Hv0. projs_in Hv1.
  subst cs ea sd pe.
  assert (tn = 0 \/ tn = 1) as [->| ->] by lia.
  - destruct (Hv0 eq_refl) as [Hv Hvb]. clear Hv0 Hv1.
    norm_in Hfl; norm_in Hsrc; norm_in Hdst; norm_in Hvb; destruct Hfl as (F1 & F2 & F3 & F4).
    unfold make, zobrist_xor, is_promotion; norm_goal. rewrite shiftl_bit_8 by assumption. intros [= <-] [= <- <-].
    rewrite !zobrist_hash_nf, !pawn_hash_nf; projs.
    rewrite (NPH_move_sr T), (PH_move_sr T) by (assumption || (unfold PAWN; lia)).
    rewrite (NPH_clr T (set_rights k _ _)), (PH_clr T (set_rights k _ _)) by (assumption || lia).
    rights_simpl; unfold npk, pk; eval_eqb_goal. split; xor_ac.
  - destruct (Hv1 eq_refl) as [Hv Hvb]. clear Hv0 Hv1.
    norm_in Hfl; norm_in Hsrc; norm_in Hdst; norm_in Hvb; destruct Hfl as (F1 & F2 & F3 & F4).
    unfold make, zobrist_xor, is_promotion; norm_goal. rewrite shiftr_bit_8 by assumption. intros [= <-] [= <- <-].
    rewrite !zobrist_hash_nf, !pawn_hash_nf; projs.
    rewrite (NPH_move_sr T), (PH_move_sr T) by (assumption || (unfold PAWN; lia)).
    rewrite (NPH_clr T (set_rights w _ _)), (PH_clr T (set_rights w _ _)) by (assumption || lia).
    rights_simpl; unfold npk, pk; eval_eqb_goal. split; xor_ac.
Qed.

Lemma inc_castle T b m rf rt : keys_rows_ok T = true -> turn b < 2 ->
  castle m = true -> side m = turn b -> prev_ep m = ep b -> flags_ok b m ->
  In (turn b, src m, dst m, rf, rt) [(0, E1, C1, A1, D1); (0, E1, G1, H1, F1); (1, E8, C8, A8, D8); (1, E8, G8, H8, F8)] ->
  N.testbit (rooks (active b)) rf = true -> N.testbit (kings (active b)) (src m) = true ->
  N.testbit (rooks (active b)) rt = false -> N.testbit (kings (active b)) (dst m) = false ->
  inc_concl T b m.
Proof.
  intros Hrows Htn Hc Hs Hpe Hfl Hin H1 H2 H3 H4 b' dx dp.
  destruct b as [w k tn e f h]. destruct m as [pm pa l1 l2 l3 l4 cs ea s t hr ph pe ne pr sd mv].
  unfold flags_ok in Hfl. projs_in Hc. projs_in Hs. projs_in Hpe. projs_in Htn. projs_in Hin.
  subst cs sd pe.
  cbn [In] in Hin. destruct Hin as [E|[E|[E|[E|[]]]]]; injection E as <- <- <- <- <-.
  all: norm_in Hfl; norm_in H1; norm_in H2; norm_in H3; norm_in H4; destruct Hfl as (F1 & F2 & F3 & F4);
    unfold make, zobrist_xor, castle_squares; norm_goal; cbn [orb]; cbv iota; intros [= <-] [= <- <-];
    rewrite !zobrist_hash_nf, !pawn_hash_nf; projs;
    rewrite (NPH_castle_sr T), (PH_castle_sr T) by assumption;
    rights_simpl; eval_eqb_goal; split; xor_ac.
Qed.

(* ================================================================================================ *)
(* 4. What move generation guarantees about a generated move                                         *)
(* ================================================================================================ *)
(* board-side conditions that [wf] does not contain:
   - castle_wf: a castling right is only held while king and rook stand on their home squares
     (FEN parsing does not check this; every position reached by play from such a position has it);
   - ep_wf: when an e.p. square is set, the pawn that can be captured stands directly behind it
     (seen from the side to move).  FEN parsing does not check this either. *)
Definition castle_wf (b : board) : bool :=
  implb (qs (white b)) (N.testbit (kings (white b)) E1 && N.testbit (rooks (white b)) A1) &&
  implb (ks (white b)) (N.testbit (kings (white b)) E1 && N.testbit (rooks (white b)) H1) &&
  implb (qs (black b)) (N.testbit (kings (black b)) E8 && N.testbit (rooks (black b)) A8) &&
  implb (ks (black b)) (N.testbit (kings (black b)) E8 && N.testbit (rooks (black b)) H8).

Definition ep_wf (b : board) : bool :=
  (ep b =? NO_SQUARE) ||
  (if turn b =? WHITE then (ep b + 8 <? 64) && N.testbit (pawns (black b)) (ep b + 8)
   else (8 <=? ep b) && N.testbit (pawns (white b)) (ep b - 8)).

Definition mk_move T (b : board) (source target piece_active : N) (is_castle is_ep : bool) (promote_to ep_opportunity : N) : move :=
  let wt := is_white_turn b in
  let act := active b in let pas := passive b in
  let d_castle := if wt then 0 else 56 in
  let ep_off := if is_ep then 8 else 0 in
  let attack_sq := if wt then target + ep_off else target - ep_off in
  let piece_att := piece_at pas attack_sq in
  let olq := qs pas && (target =? A8 + d_castle) in
  let olk := negb olq && ks pas && (target =? H8 + d_castle) in
  {| piece_moved := piece_active; piece_attacked := piece_att;
     self_lost_ks := ks act && ((source =? H1 - d_castle) || (source =? E1 - d_castle));
     self_lost_qs := qs act && ((source =? A1 - d_castle) || (source =? E1 - d_castle));
     opp_lost_ks := olk; opp_lost_qs := olq;
     castle := is_castle; ep_attack := is_ep;
     src := source; dst := target;
     half_reset := (piece_active =? PAWN) || negb (piece_att =? NO_PIECE);
     prev_half := half b mod 4096;
     prev_ep := ep b; next_ep := ep_opportunity; promo := promote_to; side := turn b;
     mvvlva := mvv_lva T piece_active piece_att |}.

Lemma make_move_nq T b s t p ic ie pr epo : make_move T b false s t p ic ie pr epo = [mk_move T b s t p ic ie pr epo].
Proof. unfold make_move, mk_move. cbv zeta. now rewrite andb_false_r. Qed.

Lemma mk_move_flags_ok T b s t p ic ie pr epo : flags_ok b (mk_move T b s t p ic ie pr epo).
Proof.
  unfold flags_ok, mk_move. cbv zeta. cbn [self_lost_qs self_lost_ks opp_lost_qs opp_lost_ks].
  repeat split; intros H; repeat (apply andb_true_iff in H as [H ?]); assumption.
Qed.

Lemma mk_move_attacked_noep T b s t p ic pr epo :
  piece_attacked (mk_move T b s t p ic false pr epo) = piece_at (passive b) t.
Proof. unfold mk_move. cbv zeta. cbn [piece_attacked]. rewrite N.add_0_r, N.sub_0_r. now destruct (is_white_turn b). Qed.

Inductive gen_kind T (b : board) (m : move) : Prop :=
| GK_ord s t p epo : m = mk_move T b s t p false false NO_PIECE epo -> 1 <= p <= 6 ->
    N.testbit (occ_of (active b) p) s = true -> N.testbit (full_occ (active b)) t = false -> gen_kind T b m
| GK_promo s t q : m = mk_move T b s t PAWN false false q NO_SQUARE -> 2 <= q <= 5 ->
    N.testbit (pawns (active b)) s = true -> N.testbit (full_occ (active b)) t = false -> gen_kind T b m
| GK_ep s : m = mk_move T b s (ep b) PAWN false true NO_PIECE NO_SQUARE -> ep b <> NO_SQUARE ->
    N.testbit (pawns (active b)) s = true -> N.testbit (full_occ (active b)) (ep b) = false -> gen_kind T b m
| GK_castle s t rf rt : m = mk_move T b s t KING true false NO_PIECE NO_SQUARE ->
    In (turn b, s, t, rf, rt) [(0, E1, C1, A1, D1); (0, E1, G1, H1, F1); (1, E8, C8, A8, D8); (1, E8, G8, H8, F8)] ->
    N.testbit (rooks (active b)) rf = true -> N.testbit (kings (active b)) s = true ->
    N.testbit (rooks (active b)) rt = false -> N.testbit (kings (active b)) t = false -> gen_kind T b m.

(* --- generic generator lemmas --- *)
Lemma testbit_clear_gen x a i : N.testbit (clear x a) i = N.testbit x i && negb (N.testbit a i).
Proof. unfold clear. apply N.ldiff_spec. Qed.

Lemma in_gen_attacks T b s occ p m : In m (gen_attacks T b false s occ p) ->
  exists t, N.testbit occ t = true /\ m = mk_move T b s t p false false NO_PIECE NO_SQUARE.
Proof.
  unfold gen_attacks. rewrite in_flat_map. intros (t & Ht & Hm). rewrite bits_of_spec in Ht.
  rewrite make_move_nq in Hm. destruct Hm as [<-|[]]. now exists t.
Qed.

Lemma in_sliding T b po ao fo lookup p m : In m (sliding_moves T b false po ao fo lookup p) ->
  exists s t, N.testbit po s = true /\ N.testbit ao t = false /\ m = mk_move T b s t p false false NO_PIECE NO_SQUARE.
Proof.
  unfold sliding_moves. rewrite in_flat_map. intros (s & Hs & Hm). rewrite bits_of_spec in Hs.
  apply in_gen_attacks in Hm as (t & Ht & ->). rewrite testbit_clear_gen in Ht.
  apply andb_true_iff in Ht as [_ Ht]. apply negb_true_iff in Ht. now exists s, t.
Qed.

Lemma in_single T b po ao tbl p m : In m (single_moves T b false po ao tbl p) ->
  exists s t, N.testbit po s = true /\ N.testbit ao t = false /\ m = mk_move T b s t p false false NO_PIECE NO_SQUARE.
Proof.
  unfold single_moves. rewrite in_flat_map. intros (s & Hs & Hm). rewrite bits_of_spec in Hs.
  apply in_gen_attacks in Hm as (t & Ht & ->). rewrite testbit_clear_gen in Ht.
  apply andb_true_iff in Ht as [_ Ht]. apply negb_true_iff in Ht. now exists s, t.
Qed.

Lemma in_promotions T b s t m : In m (pawn_promotions T b s t) ->
  exists q, 2 <= q <= 5 /\ m = mk_move T b s t PAWN false false q NO_SQUARE.
Proof.
  unfold pawn_promotions. rewrite !make_move_nq. cbn [app In].
  intros [<-|[<-|[<-|[<-|[]]]]]; eexists; (split; [|reflexivity]); unfold QUEEN, ROOK, BISHOP, KNIGHT; lia.
Qed.

(* --- u64 facts --- *)
Lemma lt64_high x i : x < 18446744073709551616 -> 64 <= i -> N.testbit x i = false.
Proof.
  intros Hx Hi. rewrite <- (N.mod_small x (2 ^ 64)) by exact Hx. now apply N.mod_pow2_bits_high.
Qed.

Lemma full_occ_false p t : N.testbit (full_occ p) t = false ->
  forall x, N.testbit (occ_of p x) t = false.
Proof.
  unfold full_occ. rewrite !N.lor_spec. intros H. repeat (apply orb_false_iff in H as [H ?]).
  intros x. destruct x as [|q]; [apply N.bits_0|]. do 3 (try destruct q as [q|q|]); cbn [occ_of]; try assumption; apply N.bits_0.
Qed.

Lemma wf_parts b : wf b = true ->
  Forall (fun x => x < 18446744073709551616) (bbs b) /\ turn b < 2 /\ ep b < 64.
Proof.
  unfold wf. intros H. do 6 (apply andb_true_iff in H as [H ?]).
  repeat split; try (apply N.ltb_lt; assumption).
  apply Forall_forall. intros x Hx. apply N.ltb_lt. exact (proj1 (forallb_forall _ _) H x Hx).
Qed.

Lemma wf_full_occ_64 b : wf b = true -> N.testbit (full_occ (white b)) 64 = false /\ N.testbit (full_occ (black b)) 64 = false.
Proof.
  intros H. apply wf_parts in H as (H & _ & _). unfold bbs in H.
  repeat match goal with H : Forall _ (_ :: _) |- _ => inversion H; clear H; subst end.
  unfold full_occ. rewrite !N.lor_spec. rewrite !lt64_high by (assumption || lia). split; reflexivity.
Qed.

(* --- single-bit-or-zero values and trailing zeros --- *)
Definition pow2z (x : N) : Prop := x = 0 \/ exists k, x = bit k.

Lemma bit_pos k : exists p, bit k = N.pos p /\ ctz_pos p = k.
Proof.
  unfold bit. induction k as [|k IH] using N.peano_ind.
  - exists 1%positive. split; reflexivity.
  - destruct IH as (p & Hp & Hc). exists (p~0)%positive. rewrite N.shiftl_succ_r, Hp. split; [reflexivity|].
    cbn [ctz_pos]. now rewrite Hc.
Qed.
Lemma ctz64_bit k : ctz64 (bit k) = k.
Proof. destruct (bit_pos k) as (p & -> & H). exact H. Qed.

Lemma pow2z_bit k : pow2z (bit k). Proof. right. now exists k. Qed.
Lemma pow2z_shiftr8 x : pow2z x -> pow2z (N.shiftr x 8).
Proof.
  intros [->|[k ->]]; [left; apply N.shiftr_0_l|].
  destruct (N.le_gt_cases 8 k) as [H|H].
  - right. exists (k - 8). now apply shiftr_bit_8.
  - left. unfold bit. rewrite N.shiftr_shiftl_r by lia. apply N.shiftr_eq_0. cbn. lia.
Qed.
Lemma pow2z_shl8 x : pow2z x -> pow2z (w64 (N.shiftl x 8)).
Proof.
  intros [->|[k ->]]; [left; reflexivity|].
  destruct (N.lt_ge_cases (k + 8) 64) as [H|H].
  - right. exists (k + 8). now apply shiftl_bit_8.
  - left. unfold bit, w64. rewrite N.shiftl_shiftl, N.shiftl_1_l. change 18446744073709551616 with (2 ^ 64).
    replace (k + 8) with (64 + (k + 8 - 64)) by lia. rewrite N.pow_add_r, N.mul_comm. apply N.mod_mul. discriminate.
Qed.

Lemma pow2z_target x full : pow2z x -> nz (N.land x full) = false -> N.testbit full 64 = false ->
  N.testbit full (ctz64 x) = false.
Proof.
  intros [->|[k ->]] H H64; [exact H64|]. rewrite ctz64_bit. now rewrite nz_land_bit' in H.
Qed.

Lemma popcount_pos_ge1 p : 1 <= popcount_pos p.
Proof. induction p; cbn [popcount_pos]; lia. Qed.
Lemma popcount_pos_1_unique p : popcount_pos p = 1 -> forall a b, Pos.testbit p a = true -> Pos.testbit p b = true -> a = b.
Proof.
  induction p as [q IH|q IH|]; cbn [popcount_pos]; intros H a b Ha Hb.
  - pose proof (popcount_pos_ge1 q). lia.
  - destruct a as [|a], b as [|b]; cbn [Pos.testbit] in Ha, Hb; try discriminate.
    specialize (IH H _ _ Ha Hb). rewrite <- (N.succ_pos_pred a), <- (N.succ_pos_pred b). now rewrite IH.
  - destruct a as [|a], b as [|b]; cbn [Pos.testbit] in Ha, Hb; try discriminate. reflexivity.
Qed.
Lemma popcount_1_unique x a b : popcount x = 1 -> N.testbit x a = true -> N.testbit x b = true -> a = b.
Proof.
  destruct x as [|p]; cbn [popcount]; [discriminate|]. intros H. unfold N.testbit. now apply popcount_pos_1_unique.
Qed.
Lemma wf_kings b : wf b = true -> popcount (kings (white b)) = 1 /\ popcount (kings (black b)) = 1.
Proof.
  unfold wf. intros H. do 3 (apply andb_true_iff in H as [H _]). apply andb_true_iff in H as [H K2].
  apply andb_true_iff in H as [_ K1]. split; now apply N.eqb_eq.
Qed.

Lemma empty_mask_false fo mask sq : nz (N.land fo mask) = false -> N.testbit mask sq = true -> N.testbit fo sq = false.
Proof.
  unfold nz. intros H Hm. apply negb_false_iff, N.eqb_eq in H.
  assert (E : N.testbit (N.land fo mask) sq = false) by (rewrite H; apply N.bits_0).
  rewrite N.land_spec, Hm, andb_true_r in E. exact E.
Qed.

Lemma active_full_64 b : wf b = true -> N.testbit (N.lor (full_occ (active b)) (full_occ (passive b))) 64 = false.
Proof.
  intros H. apply wf_full_occ_64 in H as [H1 H2]. unfold active, passive. rewrite N.lor_spec.
  destruct (is_white_turn b); rewrite H1, H2; reflexivity.
Qed.

Lemma gen_pseudo_kind T b m : wf b = true -> castle_wf b = true -> gen_masks_ok T = true ->
  In m (gen_pseudo T b) -> gen_kind T b m.
Proof.
  intros Hwf Hcw Hmask. unfold gen_pseudo, gen_common. cbv zeta. rewrite !in_app_iff.
  pose proof (active_full_64 b Hwf) as H64.
  unfold gen_masks_ok in Hmask.
  apply andb_true_iff in Hmask as [Hmask M5]. apply andb_true_iff in Hmask as [Hmask M4].
  apply andb_true_iff in Hmask as [Hmask M3]. apply andb_true_iff in Hmask as [M1 M2].
  pose proof (wf_kings b Hwf) as [PK1 PK2].
  intros [[H|[H|[H|[H|[H|[H|[H|H]]]]]]]|H].
  - apply in_sliding in H as (s & t & Hs & Ht & ->). eapply GK_ord; [reflexivity|unfold QUEEN; lia|exact Hs|exact Ht].
  - apply in_sliding in H as (s & t & Hs & Ht & ->). eapply GK_ord; [reflexivity|unfold QUEEN; lia|exact Hs|exact Ht].
  - apply in_sliding in H as (s & t & Hs & Ht & ->). eapply GK_ord; [reflexivity|unfold BISHOP; lia|exact Hs|exact Ht].
  - apply in_sliding in H as (s & t & Hs & Ht & ->). eapply GK_ord; [reflexivity|unfold ROOK; lia|exact Hs|exact Ht].
  - apply in_single in H as (s & t & Hs & Ht & ->). eapply GK_ord; [reflexivity|unfold KNIGHT; lia|exact Hs|exact Ht].
  - apply in_single in H as (s & t & Hs & Ht & ->). eapply GK_ord; [reflexivity|unfold KING; lia|exact Hs|exact Ht].
  - (* pawn attacks *)
    unfold pawn_attacks in H. cbv zeta in H. rewrite in_flat_map in H. destruct H as (s & Hs & H).
    rewrite bits_of_spec in Hs. unfold gen_pawn_attacks in H. rewrite in_flat_map in H. destruct H as (t & Ht & H).
    rewrite bits_of_spec, testbit_clear_gen in Ht. apply andb_true_iff in Ht as [_ Ht]. apply negb_true_iff in Ht.
    cbv zeta in H. destruct (nz (N.land (bit t) (RANK_8 T)) || nz (N.land (bit t) (RANK_1 T))) eqn:E.
    + apply in_promotions in H as (q & Hq & ->). eapply GK_promo; [reflexivity|exact Hq|exact Hs|exact Ht].
    + rewrite make_move_nq in H. destruct H as [<-|[]]. destruct (N.eqb_spec t (ep b)) as [->|Hne].
      * eapply GK_ep; [reflexivity| |exact Hs|exact Ht].
        intros E0. apply orb_false_iff in E as [E _]. rewrite E0, nz_land_bit' in E. unfold RANK_8, NO_SQUARE in E. congruence.
      * eapply GK_ord; [reflexivity|unfold PAWN; lia|exact Hs|exact Ht].
  - (* pawn pushes *)
    unfold pawn_moves in H. cbv zeta in H. rewrite in_flat_map in H. destruct H as (s & Hs & H).
    rewrite bits_of_spec in Hs.
    set (fo := N.lor (full_occ (active b)) (full_occ (passive b))) in *.
    set (single := if is_white_turn b then N.shiftr (bit s) 8 else w64 (N.shiftl (bit s) 8)) in *.
    assert (Hp1 : pow2z single) by (unfold single; destruct (is_white_turn b); [apply pow2z_shiftr8|apply pow2z_shl8]; apply pow2z_bit).
    assert (Hact : forall x, N.testbit fo x = false -> N.testbit (full_occ (active b)) x = false).
    { intros x Hx. unfold fo in Hx. rewrite N.lor_spec in Hx. now apply orb_false_iff in Hx as [Hx _]. }
    destruct (nz (N.land single fo)) eqn:E1; [destruct H|].
    destruct (nz (N.land single (if is_white_turn b then RANK_8 T else RANK_1 T))) eqn:E2.
    + apply in_promotions in H as (q & Hq & ->). eapply GK_promo; [reflexivity|exact Hq|exact Hs|].
      apply Hact. now apply pow2z_target.
    + rewrite in_app_iff in H. destruct H as [H|H].
      * rewrite make_move_nq in H. destruct H as [<-|[]]. eapply GK_ord; [reflexivity|unfold PAWN; lia|exact Hs|].
        apply Hact. now apply pow2z_target.
      * set (double := if is_white_turn b then N.shiftr single 8 else w64 (N.shiftl single 8)) in *.
        assert (Hp2 : pow2z double) by (unfold double; destruct (is_white_turn b); [apply pow2z_shiftr8|apply pow2z_shl8]; exact Hp1).
        destruct (nz (N.land (bit s) (if is_white_turn b then RANK_2 T else RANK_7 T)) && negb (nz (N.land double fo))) eqn:E3; [|destruct H].
        apply andb_true_iff in E3 as [_ E3]. apply negb_true_iff in E3.
        rewrite make_move_nq in H. destruct H as [<-|[]]. eapply GK_ord; [reflexivity|unfold PAWN; lia|exact Hs|].
        apply Hact. now apply pow2z_target.
  - (* castling *)
    set (fo := N.lor (full_occ (active b)) (full_occ (passive b))) in *.
    assert (Hact : forall x sq, N.testbit fo sq = false -> N.testbit (occ_of (active b) x) sq = false).
    { intros x sq Hx. unfold fo in Hx. rewrite N.lor_spec in Hx. apply orb_false_iff in Hx as [Hx _]. now apply full_occ_false. }
    unfold castle_wf in Hcw. apply andb_true_iff in Hcw as [Hcw W4]. apply andb_true_iff in Hcw as [Hcw W3].
    apply andb_true_iff in Hcw as [Hcw W2].
    unfold castle_moves in H. destruct (is_white_turn b) eqn:Ew.
    + assert (Htn : turn b = 0) by (now apply N.eqb_eq in Ew).
      assert (Ea : active b = white b) by (unfold active; now rewrite Ew).
      rewrite in_app_iff in H. destruct H as [H|H].
      * destruct (qs (white b) && negb (nz (N.land fo (wq_empty T))) && negb (occupancy_in_check T WHITE (black b) fo (wq_check T))) eqn:E; [|destruct H].
        apply andb_true_iff in E as [E _]. apply andb_true_iff in E as [Eq Ee]. apply negb_true_iff in Ee.
        rewrite make_move_nq in H. destruct H as [<-|[]]. rewrite Eq in Hcw. cbn [implb] in Hcw. apply andb_true_iff in Hcw as [K R].
        eapply (GK_castle T b _ E1 C1 A1 D1); [reflexivity|rewrite Htn; cbn [In]; tauto|rewrite Ea; exact R|rewrite Ea; exact K| |].
        -- apply (Hact ROOK). eapply empty_mask_false; eassumption.
        -- rewrite Ea. destruct (N.testbit (kings _) C1) eqn:EK; [exfalso|reflexivity].
           pose proof (popcount_1_unique _ _ _ PK1 K EK) as EE. discriminate EE.
      * destruct (ks (white b) && negb (nz (N.land fo (wk_empty T))) && negb (occupancy_in_check T WHITE (black b) fo (wk_check T))) eqn:E; [|destruct H].
        apply andb_true_iff in E as [E _]. apply andb_true_iff in E as [Eq Ee]. apply negb_true_iff in Ee.
        rewrite make_move_nq in H. destruct H as [<-|[]].
        match goal with Hk : implb (ks (white b)) _ = true |- _ => rewrite Eq in Hk; cbn [implb] in Hk; apply andb_true_iff in Hk as [K R] end.
        eapply (GK_castle T b _ E1 G1 H1 F1); [reflexivity|rewrite Htn; cbn [In]; tauto|rewrite Ea; exact R|rewrite Ea; exact K| |].
        -- apply (Hact ROOK). eapply empty_mask_false; eassumption.
        -- rewrite Ea. destruct (N.testbit (kings _) G1) eqn:EK; [exfalso|reflexivity].
           pose proof (popcount_1_unique _ _ _ PK1 K EK) as EE. discriminate EE.
    + assert (Htn : turn b = 1).
      { apply N.eqb_neq in Ew. apply wf_parts in Hwf as (_ & Hlt & _). unfold WHITE in Ew. lia. }
      assert (Ea : active b = black b) by (unfold active; now rewrite Ew).
      rewrite in_app_iff in H. destruct H as [H|H].
      * destruct (qs (black b) && negb (nz (N.land fo (bq_empty T))) && negb (occupancy_in_check T BLACK (white b) fo (bq_check T))) eqn:E; [|destruct H].
        apply andb_true_iff in E as [E _]. apply andb_true_iff in E as [Eq Ee]. apply negb_true_iff in Ee.
        rewrite make_move_nq in H. destruct H as [<-|[]].
        match goal with Hk : implb (qs (black b)) _ = true |- _ => rewrite Eq in Hk; cbn [implb] in Hk; apply andb_true_iff in Hk as [K R] end.
        eapply (GK_castle T b _ E8 C8 A8 D8); [reflexivity|rewrite Htn; cbn [In]; tauto|rewrite Ea; exact R|rewrite Ea; exact K| |].
        -- apply (Hact ROOK). eapply empty_mask_false; eassumption.
        -- rewrite Ea. destruct (N.testbit (kings _) C8) eqn:EK; [exfalso|reflexivity].
           pose proof (popcount_1_unique _ _ _ PK2 K EK) as EE. discriminate EE.
      * destruct (ks (black b) && negb (nz (N.land fo (bk_empty T))) && negb (occupancy_in_check T BLACK (white b) fo (bk_check T))) eqn:E; [|destruct H].
        apply andb_true_iff in E as [E _]. apply andb_true_iff in E as [Eq Ee]. apply negb_true_iff in Ee.
        rewrite make_move_nq in H. destruct H as [<-|[]].
        match goal with Hk : implb (ks (black b)) _ = true |- _ => rewrite Eq in Hk; cbn [implb] in Hk; apply andb_true_iff in Hk as [K R] end.
        eapply (GK_castle T b _ E8 G8 H8 F8); [reflexivity|rewrite Htn; cbn [In]; tauto|rewrite Ea; exact R|rewrite Ea; exact K| |].
        -- apply (Hact ROOK). eapply empty_mask_false; eassumption.
        -- rewrite Ea. destruct (N.testbit (kings _) G8) eqn:EK; [exfalso|reflexivity].
           pose proof (popcount_1_unique _ _ _ PK2 K EK) as EE. discriminate EE.
Qed.

(* ================================================================================================ *)
(* 5. (b) C06_incremental                                                                           *)
(* ================================================================================================ *)
Theorem incremental : forall T b m b' dx dp,
  keys_rows_ok T = true -> gen_masks_ok T = true ->
  wf b = true -> castle_wf b = true -> ep_wf b = true ->
  In m (gen_pseudo T b) -> make b m = Some b' -> zobrist_xor T m = Some (dx, dp) ->
  zobrist_hash T b' = N.lxor (zobrist_hash T b) dx /\ pawn_hash T b' = N.lxor (pawn_hash T b) dp.
Proof.
  intros T b m b' dx dp Hrows Hmask Hwf Hcw Hew Hin Hmk Hzx.
  pose proof (wf_parts b Hwf) as (_ & Htn & Hep).
  revert b' dx dp Hmk Hzx. change (inc_concl T b m).
  destruct (gen_pseudo_kind T b m Hwf Hcw Hmask Hin) as [s t p epo -> Hp Hs Ht|s t q -> Hq Hs Ht|s -> Hne Hs Ht|s t rf rt -> Hl H1 H2 H3 H4].
  - apply inc_ordinary; try assumption; try reflexivity.
    + apply mk_move_flags_ok.
    + now apply full_occ_false.
    + apply mk_move_attacked_noep.
  - apply inc_promo; try assumption; try reflexivity.
    + cbn [promo mk_move]. lia.
    + apply mk_move_flags_ok.
    + now apply full_occ_false.
    + apply mk_move_attacked_noep.
  - unfold ep_wf in Hew. apply N.eqb_neq in Hne. rewrite Hne in Hew. cbn [orb] in Hew.
    apply inc_ep; try assumption; try reflexivity.
    + apply mk_move_flags_ok.
    + apply (full_occ_false _ _ Ht PAWN).
    + intros E0. cbn [dst mk_move]. unfold passive, is_white_turn. rewrite E0 in Hew |- *.
      change (0 =? WHITE) with true in *. cbv iota in *. apply andb_true_iff in Hew as [A B]. apply N.ltb_lt in A. now split.
    + intros E1. cbn [dst mk_move]. unfold passive, is_white_turn. rewrite E1 in Hew |- *.
      change (1 =? WHITE) with false in *. cbv iota in *. apply andb_true_iff in Hew as [A B]. apply N.leb_le in A. now split.
  - apply (inc_castle T b _ rf rt); try assumption; try reflexivity.
    apply mk_move_flags_ok.
Qed.

(* zobrist_xor never takes its panic arm on a generated move *)
Lemma zobrist_xor_some T m : (castle m = true -> castle_squares (dst m) <> None) ->
  exists dx dp, zobrist_xor T m = Some (dx, dp).
Proof.
  intros H. unfold zobrist_xor. cbv zeta. destruct (castle m).
  - destruct (castle_squares (dst m)) as [[rf rt]|]; [do 2 eexists; reflexivity|]. now destruct (H eq_refl).
  - destruct (ep_attack m); [do 2 eexists; reflexivity|].
    destruct (is_promotion m), (piece_moved m =? PAWN), (piece_attacked m =? PAWN); do 2 eexists; reflexivity.
Qed.

Lemma gen_kind_xor_some T b m : gen_kind T b m -> exists dx dp, zobrist_xor T m = Some (dx, dp).
Proof.
  intros K. apply zobrist_xor_some. destruct K as [s t p epo -> _ _ _|s t q -> _ _ _|s -> _ _ _|s t rf rt -> Hl _ _ _ _];
    cbn [castle dst mk_move]; try discriminate.
  intros _. cbn [In] in Hl. destruct Hl as [E|[E|[E|[E|[]]]]]; inversion E; subst; vm_compute; discriminate.
Qed.

Lemma xor_no_panic : forall T b m,
  wf b = true -> castle_wf b = true -> gen_masks_ok T = true -> In m (gen_pseudo T b) ->
  exists dx dp, zobrist_xor T m = Some (dx, dp).
Proof. intros T b m Hw Hc Hm Hin. exact (gen_kind_xor_some T b m (gen_pseudo_kind T b m Hw Hc Hm Hin)). Qed.

(* ================================================================================================ *)
(* 6. (c) the hash is a function of the position key                                                 *)
(* ================================================================================================ *)
Definition rights (b : board) : list bool := [qs (white b); ks (white b); qs (black b); ks (black b)].
Definition ep_key (b : board) : option N := if ep b =? NO_SQUARE then None else Some (ep b mod 8).
(* placement (12 bitboards), side to move, the four rights, e.p. FILE if any: no clocks, no e.p. rank *)
Definition key_of (b : board) : list N * N * list bool * option N := (bbs b, turn b, rights b, ep_key b).
Definition pawn_key_of (b : board) : N * N * N * option N := (pawns (white b), pawns (black b), turn b, ep_key b).

Lemma ep_term_eq T e1 e2 :
  (if e1 =? NO_SQUARE then None else Some (e1 mod 8)) = (if e2 =? NO_SQUARE then None else Some (e2 mod 8)) ->
  gate (negb (e1 =? NO_SQUARE)) (ep_hash T e1) = gate (negb (e2 =? NO_SQUARE)) (ep_hash T e2).
Proof.
  destruct (e1 =? NO_SQUARE), (e2 =? NO_SQUARE); intros H; try discriminate; [reflexivity|].
  injection H as H. cbn [negb gate]. unfold ep_hash. now rewrite H.
Qed.

Lemma pawn_function_of_key T b1 b2 : pawn_key_of b1 = pawn_key_of b2 -> pawn_hash T b1 = pawn_hash T b2.
Proof.
  unfold pawn_key_of, ep_key. intros H. injection H as Hw Hk Ht He. rewrite !pawn_hash_nf. unfold PH, SE.
  now rewrite Hw, Hk, Ht, (ep_term_eq T _ _ He).
Qed.

Lemma key_pawn_key b1 b2 : key_of b1 = key_of b2 -> pawn_key_of b1 = pawn_key_of b2.
Proof.
  unfold key_of, pawn_key_of, bbs. intros H. injection H. intros. congruence.
Qed.

Lemma function_of_key T b1 b2 : key_of b1 = key_of b2 -> zobrist_hash T b1 = zobrist_hash T b2.
Proof.
  intros H. pose proof (pawn_function_of_key T b1 b2 (key_pawn_key b1 b2 H)) as Hp.
  rewrite !zobrist_hash_nf, Hp. unfold key_of, bbs, rights in H. injection H. intros. unfold NPH. congruence.
Qed.

Lemma function_of_key_both : forall T b1 b2,
  (key_of b1 = key_of b2 -> zobrist_hash T b1 = zobrist_hash T b2) /\
  (pawn_key_of b1 = pawn_key_of b2 -> pawn_hash T b1 = pawn_hash T b2).
Proof. intros T b1 b2. split; [exact (function_of_key T b1 b2)|exact (pawn_function_of_key T b1 b2)]. Qed.

(* two lines of play from b: every step is a generated move made from a board satisfying the side conditions *)
Definition good (b : board) : bool := wf b && castle_wf b && ep_wf b.

Inductive line T : board -> list move -> board -> Prop :=
| line_nil b : line T b [] b
| line_cons b m b' ms e : good b = true -> In m (gen_pseudo T b) -> make b m = Some b' -> line T b' ms e ->
    line T b (m :: ms) e.

(* thread the two hashes through the moves the way the engine does: hash ^= xor, pawn_hash ^= pawn_xor *)
Fixpoint thread T (h : N * N) (ms : list move) : option (N * N) :=
  match ms with
  | [] => Some h
  | m :: r => match zobrist_xor T m with
              | Some (dx, dp) => thread T (N.lxor (fst h) dx, N.lxor (snd h) dp) r
              | None => None
              end
  end.

Lemma line_thread T b ms e : keys_rows_ok T = true -> gen_masks_ok T = true -> line T b ms e ->
  thread T (zobrist_hash T b, pawn_hash T b) ms = Some (zobrist_hash T e, pawn_hash T e).
Proof.
  intros Hrows Hmask. induction 1 as [b|b m b' ms e Hg Hin Hmk _ IH]; [reflexivity|].
  unfold good in Hg. apply andb_true_iff in Hg as [Hg He]. apply andb_true_iff in Hg as [Hw Hc].
  destruct (gen_kind_xor_some T b m (gen_pseudo_kind T b m Hw Hc Hmask Hin)) as (dx & dp & Hx).
  cbn [thread]. rewrite Hx. cbn [fst snd].
  destruct (incremental T b m b' dx dp Hrows Hmask Hw Hc He Hin Hmk Hx) as [<- <-]. exact IH.
Qed.

Theorem transpositions : forall T b ms1 ms2 e1 e2,
  keys_rows_ok T = true -> gen_masks_ok T = true ->
  line T b ms1 e1 -> line T b ms2 e2 -> key_of e1 = key_of e2 ->
  thread T (zobrist_hash T b, pawn_hash T b) ms1 = thread T (zobrist_hash T b, pawn_hash T b) ms2 /\
  thread T (zobrist_hash T b, pawn_hash T b) ms1 = Some (zobrist_hash T e1, pawn_hash T e1).
Proof.
  intros T b ms1 ms2 e1 e2 Hrows Hmask L1 L2 Hk.
  rewrite (line_thread T b ms1 e1 Hrows Hmask L1), (line_thread T b ms2 e2 Hrows Hmask L2).
  now rewrite (function_of_key T e1 e2 Hk), (pawn_function_of_key T e1 e2 (key_pawn_key e1 e2 Hk)).
Qed.

(* ================================================================================================ *)
(* 7. (d) the keys are non-zero and pairwise distinct; single-component differences change the hash   *)
(* ================================================================================================ *)
Inductive ktag := KPs (p c s : N) | KEp (f : N) | KWq | KWk | KBq | KBk | KSide.
Definition kval T (k : ktag) : N :=
  match k with
  | KPs p c s => ps_hash T p s c
  | KEp f => nthN (zob_ep T) f 0
  | KWq => zob_wq T | KWk => zob_wk T | KBq => zob_bq T | KBk => zob_bk T | KSide => zob_side T
  end.
Definition N_range (n : nat) : list N := map N.of_nat (seq 0 n).
Definition all_tags : list ktag :=
  flat_map (fun c => flat_map (fun p => map (fun s => KPs p c s) (N_range 64)) [1; 2; 3; 4; 5; 6]) [0; 1]
  ++ map KEp (N_range 8) ++ [KWq; KWk; KBq; KBk; KSide].
Fixpoint nodupb (l : list N) : bool :=
  match l with [] => true | x :: r => negb (existsb (N.eqb x) r) && nodupb r end.
(* 0 is put in front: all 781 keys are non-zero and pairwise distinct *)
Definition keys_ok (T : Tables.t) : bool := nodupb (0 :: map (kval T) all_tags).

Lemma nodupb_NoDup l : nodupb l = true -> NoDup l.
Proof.
  induction l as [|x r IH]; cbn [nodupb]; intros H; constructor; apply andb_true_iff in H as [H1 H2]; [|now apply IH].
  intros Hin. apply negb_true_iff in H1. assert (existsb (N.eqb x) r = true); [|congruence].
  apply existsb_exists. exists x. split; [exact Hin|apply N.eqb_refl].
Qed.

Lemma NoDup_map_inj {A B} (f : A -> B) l : NoDup (map f l) -> forall a b, In a l -> In b l -> f a = f b -> a = b.
Proof.
  induction l as [|x r IH]; cbn [map In]; intros H a b Ha Hb E; [destruct Ha|].
  inversion H as [|? ? Hn Hr]; subst. destruct Ha as [->|Ha], Hb as [->|Hb]; try reflexivity.
  - exfalso. apply Hn. rewrite E. now apply in_map.
  - exfalso. apply Hn. rewrite <- E. now apply in_map.
  - now apply IH.
Qed.

Lemma keys_inj T : keys_ok T = true -> forall k1 k2, In k1 all_tags -> In k2 all_tags -> kval T k1 = kval T k2 -> k1 = k2.
Proof.
  intros H. apply nodupb_NoDup in H. apply NoDup_cons_iff in H as [_ H]. now apply NoDup_map_inj.
Qed.
Lemma keys_nz T : keys_ok T = true -> forall k, In k all_tags -> kval T k <> 0.
Proof.
  intros H k Hk E. apply nodupb_NoDup in H. apply NoDup_cons_iff in H as [Hn _]. apply Hn. rewrite <- E. now apply in_map.
Qed.

Lemma in_N_range n s : s < N.of_nat n -> In s (N_range n).
Proof.
  intros H. unfold N_range. apply in_map_iff. exists (N.to_nat s). split; [apply N2Nat.id|]. apply in_seq. lia.
Qed.
Lemma in_tags_ps p c s : 1 <= p <= 6 -> c < 2 -> s < 64 -> In (KPs p c s) all_tags.
Proof.
  intros Hp Hc Hs. unfold all_tags. apply in_or_app. left. apply in_flat_map. exists c. split.
  - assert (c = 0 \/ c = 1) as [->| ->] by lia; cbn [In]; tauto.
  - apply in_flat_map. exists p. split.
    + piece_cases p; try lia; cbn [In]; tauto.
    + apply in_map. now apply in_N_range.
Qed.
Lemma in_tags_ep f : f < 8 -> In (KEp f) all_tags.
Proof. intros H. unfold all_tags. apply in_or_app. right. apply in_or_app. left. apply in_map. now apply in_N_range. Qed.
Lemma in_tags_misc k : In k [KWq; KWk; KBq; KBk; KSide] -> In k all_tags.
Proof. intros H. unfold all_tags. apply in_or_app. right. apply in_or_app. now right. Qed.

(* --- the contribution of one square --- *)
Definition clr_sq_p (p : pstate) (s : N) : pstate :=
  {| pawns := clear (pawns p) (bit s); knights := clear (knights p) (bit s); bishops := clear (bishops p) (bit s);
     rooks := clear (rooks p) (bit s); queens := clear (queens p) (bit s); kings := clear (kings p) (bit s);
     qs := qs p; ks := ks p |}.
Definition clr_sq (b : board) (s : N) : board :=
  {| white := clr_sq_p (white b) s; black := clr_sq_p (black b) s; turn := turn b; ep := ep b; full := full b; half := half b |}.

Definition cell_p T (p : pstate) (s c : N) : N :=
  N.lxor (N.lxor (N.lxor (N.lxor (N.lxor
    (gate (N.testbit (pawns p) s) (ps_hash T 1 s c)) (gate (N.testbit (knights p) s) (ps_hash T 2 s c)))
    (gate (N.testbit (bishops p) s) (ps_hash T 3 s c))) (gate (N.testbit (rooks p) s) (ps_hash T 4 s c)))
    (gate (N.testbit (queens p) s) (ps_hash T 5 s c))) (gate (N.testbit (kings p) s) (ps_hash T 6 s c)).
Definition cell T (b : board) (s : N) : N := N.lxor (cell_p T (white b) s 0) (cell_p T (black b) s 1).

Lemma hfo_split T x s p c :
  hash_for_occ T x p c = N.lxor (hash_for_occ T (clear x (bit s)) p c) (gate (N.testbit x s) (ps_hash T p s c)).
Proof.
  destruct (N.testbit x s) eqn:E; cbn [gate].
  - rewrite hash_for_occ_clear by exact E. xor_ac.
  - rewrite clear_absent by exact E. now rewrite N.lxor_0_r.
Qed.

Lemma hash_cell_split T b s : zobrist_hash T b = N.lxor (zobrist_hash T (clr_sq b s)) (cell T b s).
Proof.
  rewrite !zobrist_hash_nf, !pawn_hash_nf. unfold NPH, PH, cell, cell_p, clr_sq, clr_sq_p.
  cbn [white black turn ep pawns knights bishops rooks queens kings qs ks].
  rewrite (hfo_split T (kings (white b)) s), (hfo_split T (queens (white b)) s), (hfo_split T (rooks (white b)) s),
    (hfo_split T (bishops (white b)) s), (hfo_split T (knights (white b)) s), (hfo_split T (pawns (white b)) s),
    (hfo_split T (kings (black b)) s), (hfo_split T (queens (black b)) s), (hfo_split T (rooks (black b)) s),
    (hfo_split T (bishops (black b)) s), (hfo_split T (knights (black b)) s), (hfo_split T (pawns (black b)) s).
  unfold KING, QUEEN, ROOK, BISHOP, KNIGHT, PAWN, WHITE, BLACK. xor_ac.
Qed.

(* --- wf: at most one of the twelve bitboards has a given square --- *)
Lemma disjoint_all_bits s l : forall acc, disjoint_all acc l = true ->
  Forall (fun t => N.testbit acc s && t = false) (map (fun y => N.testbit y s) l) /\
  ForallOrdPairs (fun a b => a && b = false) (map (fun y => N.testbit y s) l).
Proof.
  induction l as [|x r IH]; intros acc H; cbn [map]; [split; constructor|].
  cbn [disjoint_all] in H. apply andb_true_iff in H as [H0 H]. apply N.eqb_eq in H0.
  destruct (IH _ H) as [F P].
  assert (Hax : N.testbit acc s && N.testbit x s = false).
  { rewrite <- N.land_spec, H0. apply N.bits_0. }
  assert (F1 : Forall (fun t => N.testbit acc s && t = false) (map (fun y => N.testbit y s) r)).
  { eapply Forall_impl; [|exact F]. cbv beta. intros t Ht. rewrite N.lor_spec in Ht. destruct (N.testbit acc s); [exact Ht|reflexivity]. }
  assert (F2 : Forall (fun t => N.testbit x s && t = false) (map (fun y => N.testbit y s) r)).
  { eapply Forall_impl; [|exact F]. cbv beta. intros t Ht. rewrite N.lor_spec in Ht. destruct (N.testbit x s); [now rewrite orb_true_r in Ht|reflexivity]. }
  split; constructor; assumption.
Qed.

Definition unitv (n i : nat) : list bool := map (Nat.eqb i) (seq 0 n).
Definition zerov (n : nat) : list bool := map (fun _ => false) (seq 0 n).

Lemma amo_cases (l : list bool) : ForallOrdPairs (fun a b => a && b = false) l ->
  l = zerov (length l) \/ exists i, (i < length l)%nat /\ l = unitv (length l) i.
Proof.
  induction l as [|a r IH]; intros H; [now left|].
  inversion H as [|? ? F P]; subst. cbn [length]. destruct a.
  - right. exists O. split; [lia|]. unfold unitv. cbn [seq map Nat.eqb]. f_equal.
    rewrite <- seq_shift, map_map. cbn [Nat.eqb].
    clear -F. induction r as [|b r IH]; [reflexivity|]. inversion F; subst. cbn [length seq map]. cbn [andb] in *. subst b.
    f_equal. rewrite <- seq_shift, map_map. now apply IH.
  - destruct (IH P) as [E|(i & Hi & E)].
    + left. unfold zerov. cbn [seq map]. f_equal. rewrite <- seq_shift, map_map. exact E.
    + right. exists (S i). split; [lia|]. unfold unitv. cbn [seq map Nat.eqb]. f_equal.
      rewrite <- seq_shift, map_map. cbn [Nat.eqb]. exact E.
Qed.

Lemma wf_square_cases b s : wf b = true ->
  let l := map (fun y => N.testbit y s) (bbs b) in l = zerov 12 \/ exists i, (i < 12)%nat /\ l = unitv 12 i.
Proof.
  intros H. unfold wf in H. do 5 (apply andb_true_iff in H as [H _]). apply andb_true_iff in H as [_ H].
  destruct (disjoint_all_bits s _ _ H) as [_ P]. apply amo_cases in P. exact P.
Qed.

Definition content (b : board) (s : N) : N * N := (piece_at (white b) s, piece_at (black b) s).

Lemma cell_content T b s : wf b = true ->
  (cell T b s = 0 /\ content b s = (NO_PIECE, NO_PIECE)) \/
  exists p c, cell T b s = ps_hash T p s c /\ 1 <= p <= 6 /\ c < 2 /\
              content b s = match c with 0 => (p, NO_PIECE) | _ => (NO_PIECE, p) end.
Proof.
  intros H. destruct (wf_square_cases b s H) as [E|(i & Hi & E)]; unfold bbs in E; cbn [map] in E.
  - left. injection E as E1 E2 E3 E4 E5 E6 E7 E8 E9 E10 E11 E12.
    unfold cell, cell_p, content, piece_at, piece_at_mask. rewrite !nz_land_bit.
    rewrite E1, E2, E3, E4, E5, E6, E7, E8, E9, E10, E11, E12. cbn [gate]. split; reflexivity.
  - right. do 12 (destruct i as [|i]; [injection E as E1 E2 E3 E4 E5 E6 E7 E8 E9 E10 E11 E12;
      unfold cell, cell_p, content, piece_at, piece_at_mask; rewrite !nz_land_bit;
      rewrite E1, E2, E3, E4, E5, E6, E7, E8, E9, E10, E11, E12; cbn [gate];
      do 2 eexists; split; [rewrite ?N.lxor_0_l, ?N.lxor_0_r; reflexivity|split; [lia|split; [lia|reflexivity]]]|]).
    lia.
Qed.

(* --- exactly one component differs --- *)
Definition same_off (s : N) (x y : N) : Prop := forall i, i <> s -> N.testbit x i = N.testbit y i.

Inductive differ_in_exactly_one_component (b1 b2 : board) : Prop :=
| Diff_square (s : N) :                                  (* the content of exactly one square *)
    s < 64 -> Forall2 (same_off s) (bbs b1) (bbs b2) -> content b1 s <> content b2 s ->
    turn b1 = turn b2 -> rights b1 = rights b2 -> ep_key b1 = ep_key b2 -> differ_in_exactly_one_component b1 b2
| Diff_side :                                            (* the side to move *)
    bbs b1 = bbs b2 -> turn b1 <> turn b2 -> rights b1 = rights b2 -> ep_key b1 = ep_key b2 ->
    differ_in_exactly_one_component b1 b2
| Diff_right (l1 l2 : list bool) (x y : bool) :          (* exactly one of the four castling rights *)
    bbs b1 = bbs b2 -> turn b1 = turn b2 -> rights b1 = l1 ++ x :: l2 -> rights b2 = l1 ++ y :: l2 -> x <> y ->
    ep_key b1 = ep_key b2 -> differ_in_exactly_one_component b1 b2
| Diff_ep :                                              (* the e.p. file: none vs some, or two different files *)
    bbs b1 = bbs b2 -> turn b1 = turn b2 -> rights b1 = rights b2 -> ep_key b1 <> ep_key b2 ->
    differ_in_exactly_one_component b1 b2.

Lemma same_off_clear s x y : same_off s x y -> clear x (bit s) = clear y (bit s).
Proof.
  intros H. apply N.bits_inj. intros i. rewrite !testbit_clear.
  destruct (N.eqb_spec i s) as [->|Hne]; cbn [negb]; [now rewrite !andb_false_r|now rewrite (H i Hne)].
Qed.

Lemma lxor_cancel_l a b c : N.lxor a b = N.lxor a c -> b = c.
Proof.
  intros H. apply (f_equal (N.lxor a)) in H. rewrite <- !N.lxor_assoc, N.lxor_nilpotent, !N.lxor_0_l in H. exact H.
Qed.

(* derive [k1 = k2] from an equation between two xor expressions that differ (mod AC, x^x=0) by k1 ^ k2 *)
Ltac xor_residue H k1 k2 :=
  match type of H with
  | ?A = ?B =>
      let E := fresh in
      assert (E : N.lxor A B = N.lxor k1 k2) by xor_ac;
      apply N.lxor_eq_0_iff in H; rewrite E in H; apply N.lxor_eq in H
  end.

Theorem single_component : forall T b1 b2,
  keys_ok T = true -> keys_rows_ok T = true -> wf b1 = true -> wf b2 = true ->
  differ_in_exactly_one_component b1 b2 -> zobrist_hash T b1 <> zobrist_hash T b2.
Proof.
  intros T b1 b2 Hk Hrows Hw1 Hw2 D Heq.
  destruct D as [s Hs Hoff Hc Ht Hr He|Hb Ht Hr He|l1 l2 x y Hb Ht Hr1 Hr2 Hxy He|Hb Ht Hr He].
  - (* one square *)
    rewrite (hash_cell_split T b1 s), (hash_cell_split T b2 s) in Heq.
    assert (Hbase : zobrist_hash T (clr_sq b1 s) = zobrist_hash T (clr_sq b2 s)).
    { apply function_of_key. unfold key_of, clr_sq, clr_sq_p, bbs, rights, ep_key in *.
      cbn [white black turn ep pawns knights bishops rooks queens kings qs ks].
      repeat match goal with H : Forall2 _ (_ :: _) (_ :: _) |- _ => inversion H; clear H; subst end.
      repeat match goal with H : same_off _ _ _ |- _ => apply same_off_clear in H; rewrite H; clear H end.
      congruence. }
    rewrite Hbase in Heq. apply lxor_cancel_l in Heq.
    destruct (cell_content T b1 s Hw1) as [[C1 K1]|(p1 & c1 & C1 & Hp1 & Hc1 & K1)];
    destruct (cell_content T b2 s Hw2) as [[C2 K2]|(p2 & c2 & C2 & Hp2 & Hc2 & K2)].
    + apply Hc. congruence.
    + rewrite C1, C2 in Heq. symmetry in Heq. revert Heq. apply (keys_nz T Hk (KPs p2 c2 s)). now apply in_tags_ps.
    + rewrite C1, C2 in Heq. revert Heq. apply (keys_nz T Hk (KPs p1 c1 s)). now apply in_tags_ps.
    + rewrite C1, C2 in Heq.
      assert (E : KPs p1 c1 s = KPs p2 c2 s) by (apply (keys_inj T Hk); [now apply in_tags_ps|now apply in_tags_ps|exact Heq]).
      injection E as -> ->. apply Hc. congruence.
  - (* side to move *)
    pose proof (wf_parts b1 Hw1) as (_ & T1 & _). pose proof (wf_parts b2 Hw2) as (_ & T2 & _).
    assert (Hkk : key_of {| white := white b1; black := black b1; turn := turn b2; ep := ep b1; full := full b1; half := half b1 |} = key_of b2)
      by (unfold key_of, ep_key, rights, bbs in *; cbn [white black turn ep]; congruence).
    apply (function_of_key T) in Hkk. rewrite <- Hkk in Heq. rewrite !zobrist_hash_nf, !pawn_hash_nf in Heq.
    cbn [white black turn ep] in Heq. unfold SE in Heq.
    apply (keys_nz T Hk KSide); [apply in_tags_misc; cbn [In]; tauto|]. cbn [kval].
    assert (turn b1 = 0 /\ turn b2 = 1 \/ turn b1 = 1 /\ turn b2 = 0) as [[E1 E2]|[E1 E2]] by lia; rewrite E1, E2 in Heq;
      change (1 - 0) with 1 in Heq; change (1 - 1) with 0 in Heq; rewrite N.mul_1_r, N.mul_0_r in Heq.
    + xor_residue Heq (zob_side T) 0. exact Heq.
    + xor_residue Heq 0 (zob_side T). now symmetry.
  - (* one castling right *)
    assert (Hx : (x = true /\ y = false) \/ (x = false /\ y = true)) by (destruct x, y; try congruence; tauto).
    rewrite !zobrist_hash_nf in Heq.
    assert (Hp : pawn_hash T b1 = pawn_hash T b2).
    { apply pawn_function_of_key. unfold pawn_key_of, bbs in *. injection Hb. intros. congruence. }
    rewrite Hp in Heq. unfold bbs in Hb. injection Hb. intros. unfold NPH in Heq.
    repeat match goal with H : _ (white b1) = _ (white b2) |- _ => rewrite H in Heq; clear H
                      | H : _ (black b1) = _ (black b2) |- _ => rewrite H in Heq; clear H end.
    unfold rights in Hr1, Hr2. unfold RH in Heq.
    destruct l1 as [|a1 [|a2 [|a3 [|a4 l1]]]]; cbn [app] in Hr1, Hr2.
    + injection Hr1 as R1 R2. injection Hr2 as S1 S2. rewrite <- R2 in S2. injection S2 as S2 S3 S4.
      rewrite R1, S1, S2, S3, S4 in Heq.
      apply (keys_nz T Hk KWq); [apply in_tags_misc; cbn [In]; tauto|]. cbn [kval].
      destruct Hx as [[-> ->]|[-> ->]]; cbn [gate] in Heq; [xor_residue Heq (zob_wq T) 0; exact Heq|xor_residue Heq 0 (zob_wq T); now symmetry].
    + injection Hr1 as R1 R2 R3. injection Hr2 as S1 S2 S3. rewrite <- R3 in S3. injection S3 as S3 S4.
      rewrite R1, S1, R2, S2, S3, S4 in Heq.
      apply (keys_nz T Hk KWk); [apply in_tags_misc; cbn [In]; tauto|]. cbn [kval].
      destruct Hx as [[-> ->]|[-> ->]]; cbn [gate] in Heq; [xor_residue Heq (zob_wk T) 0; exact Heq|xor_residue Heq 0 (zob_wk T); now symmetry].
    + injection Hr1 as R1 R2 R3 R4. injection Hr2 as S1 S2 S3 S4. rewrite <- R4 in S4. injection S4 as S4.
      rewrite R1, S1, R2, S2, R3, S3, S4 in Heq.
      apply (keys_nz T Hk KBq); [apply in_tags_misc; cbn [In]; tauto|]. cbn [kval].
      destruct Hx as [[-> ->]|[-> ->]]; cbn [gate] in Heq; [xor_residue Heq (zob_bq T) 0; exact Heq|xor_residue Heq 0 (zob_bq T); now symmetry].
    + injection Hr1 as R1 R2 R3 R4 R5. injection Hr2 as S1 S2 S3 S4 S5.
      rewrite R1, S1, R2, S2, R3, S3, R4, S4 in Heq.
      apply (keys_nz T Hk KBk); [apply in_tags_misc; cbn [In]; tauto|]. cbn [kval].
      destruct Hx as [[-> ->]|[-> ->]]; cbn [gate] in Heq; [xor_residue Heq (zob_bk T) 0; exact Heq|xor_residue Heq 0 (zob_bk T); now symmetry].
    + exfalso. apply (f_equal (@length bool)) in Hr1. cbn [length] in Hr1. rewrite app_length in Hr1. cbn [length] in Hr1. lia.
  - (* e.p. file *)
    assert (Hkk : key_of {| white := white b1; black := black b1; turn := turn b1; ep := ep b2; full := full b1; half := half b1 |} = key_of b2)
      by (unfold key_of, ep_key, rights, bbs in *; cbn [white black turn ep]; congruence).
    apply (function_of_key T) in Hkk. rewrite <- Hkk in Heq. rewrite !zobrist_hash_nf, !pawn_hash_nf in Heq.
    cbn [white black turn ep] in Heq. unfold SE in Heq. unfold ep_key in He. unfold ep_hash in Heq.
    assert (M1 : ep b1 mod 8 < 8) by (apply N.mod_lt; discriminate). assert (M2 : ep b2 mod 8 < 8) by (apply N.mod_lt; discriminate).
    destruct (ep b1 =? NO_SQUARE), (ep b2 =? NO_SQUARE); cbn [negb gate] in Heq.
    + now apply He.
    + xor_residue Heq 0 (nthN (zob_ep T) (ep b2 mod 8) 0). symmetry in Heq. revert Heq. apply (keys_nz T Hk (KEp _)). now apply in_tags_ep.
    + xor_residue Heq (nthN (zob_ep T) (ep b1 mod 8) 0) 0. revert Heq. apply (keys_nz T Hk (KEp _)). now apply in_tags_ep.
    + xor_residue Heq (nthN (zob_ep T) (ep b1 mod 8) 0) (nthN (zob_ep T) (ep b2 mod 8) 0).
      assert (E : KEp (ep b1 mod 8) = KEp (ep b2 mod 8)) by (apply (keys_inj T Hk); [now apply in_tags_ep|now apply in_tags_ep|exact Heq]).
      injection E as E. apply He. now rewrite E.
Qed.

(* ================================================================================================ *)
(* 8. The regenerated tables satisfy the side conditions (re-checked on every run)                   *)
(* ================================================================================================ *)
Require Ink.Gen.Tables.
Lemma gen_keys_ok : keys_ok Ink.Gen.Tables.tables = true.
Proof. vm_compute. reflexivity. Qed.
Lemma gen_keys_rows_ok : keys_rows_ok Ink.Gen.Tables.tables = true.
Proof. vm_compute. reflexivity. Qed.
Lemma gen_gen_masks_ok : gen_masks_ok Ink.Gen.Tables.tables = true.
Proof. vm_compute. reflexivity. Qed.
Lemma gen_tables_ok : keys_ok Ink.Gen.Tables.tables = true /\ keys_rows_ok Ink.Gen.Tables.tables = true /\
  gen_masks_ok Ink.Gen.Tables.tables = true.
Proof. split; [exact gen_keys_ok|split; [exact gen_keys_rows_ok|exact gen_gen_masks_ok]]. Qed.

(* Proofs/SearchRefine.v : the executable search model (Model/Search.v, validated against the engine by exact
   differential runs) REFINES the abstract mirrors of Model/SearchCore.v instantiated with the chess game of
   Proofs/ChessGame.v; the abstract soundness theorems of C08 (Proofs/AlphaBeta*.v) then transfer to the concrete
   search.

   Everything is relative to
     * C03 as an indexed family  [good], [Q]  (Proofs/SearchProofs.v: C03_family T good Q), with
       [good_sane : good n b -> sane b = true]  (sane = wf && castle_wf && ep_wf = ZobristProofs.good);
     * [stat], the static evaluation of the abstract game: any function that agrees with the engine's on good boards
       (closed forms at the end: the engine's own for parts A and B, [static_sat] for C and D, because the abstract
       theorems ask for  - W < static p < W  on ALL positions, which is false for the raw evaluation of junk boards);
     * parts C, D: an oracle that never interrupts (abort_at = None, every inbox empty), `go` parameters without time
       control and without searchmoves ([SI]: the stop flag is never raised, polls only emit `info`), the table
       conditions gen_masks_ok / keys_rows_ok (true for the generated tables), and
         half-move clock + depth < 6     then the repetition leaf cannot fire, whatever the history holds
                                         ([visit_norep]: fewer than two earlier indices are inspected);
         ND (from depth 2 on)            distinct legal moves lead to distinct positions: the abstract ordering oracle
                                         is indexed by the PATH OF POSITIONS, so siblings must differ.

   Part A  quiescence      value (quiescence ..) = fst (qs_ab ..)                  -> clamp alpha beta (qs b)
   Part B  horizon node    value (leaf_node ..)  = fst (horizon_ab ..)             -> horizon b inside the window
   Part C  negamax         [negamax_refine]: value (negamax ..) = fst (fst (negamax_tt ..)) for SOME ordering oracle
                           that is a permutation ([node_ok]); the concrete table is related to the abstract one
                           (the same HashTable structure: capacity, FIFO queue, keys) entry by entry: depth, value,
                           bound type ([TR]); the incremental hash handed down equals zobrist_hash of the board
   Part D  go depth        [go_refine]: every iteration in the log of `go` is the abstract iteration of its depth on the
                           abstract table left by the earlier ones;  [depth1_concrete], [go_depth_concrete]: exact
                           values nm d root and best moves, by root_exact / go_depth_exact;  [all_exact_full]: with a
                           legal move at the root no iteration is aborted, so all max(dd,1) iterations are reported.

   How the ordering oracle is found.  The concrete order depends on the evolving state (stored pv, table move, killers),
   the abstract one is a function of the path.  [nm_loop_refine] builds it child by child: the oracle of the first child
   (induction hypothesis, for the state in which that child is searched) is used below that child ([under]), the oracle
   of the remaining loop elsewhere; [negamax_tt_ext] says the mirror only consults the oracle below the node it is
   called on. *)
Require Import Ink.Lib.Str.
Require Import NArith ZArith List Bool Lia Arith Permutation.
Require Import Ink.Lib.Bits Ink.Model.Tables Ink.Model.Board Ink.Model.Fen Ink.Model.Notation Ink.Model.History.
Require Import Ink.Model.Heuristic Ink.Model.UciTx Ink.Model.Search.
Require Ink.Model.HashTable.
Require Ink.Spec.Minimax Ink.Model.SearchCore Ink.Proofs.MinimaxProofs Ink.Proofs.AlphaBeta Ink.Proofs.AlphaBetaTT
        Ink.Proofs.AlphaBetaInst.
Require Ink.Proofs.ZobristProofs Ink.Proofs.HistoryProofs Ink.Spec.Draws Ink.Spec.FifoMap.
Require Import Ink.Proofs.HashTableProofs Ink.Proofs.SearchProofs Ink.Proofs.ChessGame.
Import ListNotations.
Open Scope N_scope.

Arguments N.add : simpl never.
Arguments N.sub : simpl never.
Arguments N.mul : simpl never.
Arguments N.div : simpl never.
Arguments N.modulo : simpl never.
Arguments N.eqb : simpl never.
Arguments N.ltb : simpl never.
Arguments N.leb : simpl never.
Arguments Z.add : simpl never.
Arguments Z.mul : simpl never.
Arguments Z.opp : simpl never.
Arguments Z.max : simpl never.
Arguments Z.min : simpl never.
Arguments Z.ltb : simpl never.
Arguments Z.leb : simpl never.
Arguments Z.gtb : simpl never.
Arguments Z.geb : simpl never.

(* ================================================================== *)
(* the stable sort is a permutation                                    *)
Lemma insert_desc_perm key x l : Permutation (x :: l) (insert_desc key x l).
Proof.
  induction l as [|y r IH]; cbn [insert_desc]; [apply Permutation_refl|].
  destruct (key x <? key y)%Z; [|apply Permutation_refl].
  eapply Permutation_trans; [apply perm_swap|]. now constructor.
Qed.

Lemma sort_moves_perm l pv tt k : Permutation l (sort_moves l pv tt k).
Proof.
  unfold sort_moves. induction l as [|x r IH]; cbn [fold_right]; [constructor|].
  eapply Permutation_trans; [|apply insert_desc_perm]. now constructor.
Qed.

(* decidable equality of boards: used to let an ordering oracle recognise the list it is asked to sort *)
Definition pstate_eq_dec (a b : pstate) : {a = b} + {a <> b}.
Proof. decide equality; try apply N.eq_dec; apply bool_dec. Defined.
Definition board_eq_dec (a b : board) : {a = b} + {a <> b}.
Proof. decide equality; try apply N.eq_dec; apply pstate_eq_dec. Defined.

Lemma Zgeb_leb a b : (a >=? b)%Z = (b <=? a)%Z.
Proof. apply Z.geb_leb. Qed.
Lemma Zgtb_ltb a b : (a >? b)%Z = (b <? a)%Z.
Proof. apply Z.gtb_ltb. Qed.


(* ================================================================== *)
(* generic facts used by Part C                                        *)

(* ---- the table-using mirror depends on the ordering oracle only below the node it is called on ---- *)
Section OrderExt.
Variable pos : Type.
Variable pos_eq_dec : forall a b : pos, {a = b} + {a <> b}.
Variable succs : pos -> list pos.
Variable noisy_succs : pos -> list pos.
Variable noisy_any : pos -> bool.
Variable static : pos -> Z.
Variable terminal : pos -> Z.
Variable W : Z.
Variable qfuel : pos -> nat.
Variable order_q : pos -> list pos -> list pos.
Variable rep : list pos -> pos -> option Z.
Variable root_empty : pos -> bool.
Variable table : Type.
Variable tt_get : table -> N -> option (SearchCore.entry pos).
Variable tt_put : table -> N -> SearchCore.entry pos -> table.
Variable key : pos -> N.
Variable M : Z.

Local Notation ntt o := (SearchCore.negamax_tt pos succs noisy_succs noisy_any static terminal W qfuel order_q o rep root_empty
                           table tt_get tt_put key M).
Local Notation loop_tt := (SearchCore.loop_tt pos table).

(* (path', q) is the node (path0, p) or lies below it *)
Definition desc (path0 : list pos) (p : pos) (path' : list pos) (q : pos) : Prop :=
  exists pre, q :: path' = pre ++ p :: path0.

Lemma desc_refl path0 p : desc path0 p path0 p.
Proof. exists []. reflexivity. Qed.

Lemma desc_step path0 p c path' q : desc (p :: path0) c path' q -> desc path0 p path' q.
Proof. intros (pre & E). exists (pre ++ [c]). rewrite E, <- app_assoc. reflexivity. Qed.

Lemma desc_length path0 p path' q : desc path0 p path' q -> (length path0 <= length path')%nat.
Proof. intros (pre & E). apply (f_equal (@length pos)) in E. cbn [length] in E. rewrite app_length in E. cbn [length] in E. lia. Qed.

(* the ancestor of (path', q) one ply below (path0, p) *)
Lemma desc_child path0 p c path' q : desc (p :: path0) c path' q ->
  nth_error (rev (q :: path')) (S (length path0)) = Some c.
Proof.
  intros (pre & E). rewrite E, rev_app_distr. cbn [rev]. rewrite <- !app_assoc. cbn [app].
  rewrite nth_error_app2 by (rewrite rev_length; lia). rewrite rev_length.
  replace (S (length path0) - length path0)%nat with 1%nat by lia. reflexivity.
Qed.

Definition under (path0 : list pos) (c : pos) (path' : list pos) (q : pos) : bool :=
  match nth_error (rev (q :: path')) (S (length path0)) with
  | Some x => if pos_eq_dec x c then true else false
  | None => false
  end.

Lemma under_desc path0 p c path' q : desc (p :: path0) c path' q -> under path0 c path' q = true.
Proof. intros H. unfold under. rewrite (desc_child _ _ _ _ _ H). destruct (pos_eq_dec c c); [reflexivity|contradiction]. Qed.

Lemma under_other path0 p c c' path' q : c' <> c -> desc (p :: path0) c' path' q -> under path0 c path' q = false.
Proof. intros Hne H. unfold under. rewrite (desc_child _ _ _ _ _ H). destruct (pos_eq_dec c' c); [contradiction|reflexivity]. Qed.

Lemma loop_tt_ext (f g : pos -> Z -> Z -> table -> SearchCore.tres pos table) l :
  (forall c, In c l -> forall a b t, f c a b t = g c a b t) ->
  forall alpha beta best bpv tt, loop_tt f l alpha beta best bpv tt = loop_tt g l alpha beta best bpv tt.
Proof.
  induction l as [|c r IH]; intros H alpha beta best bpv tt; cbn [SearchCore.loop_tt]; [reflexivity|].
  rewrite (H c (or_introl eq_refl)). cbv zeta.
  destruct (_ >=? beta)%Z; [reflexivity|]. apply IH. intros c' Hc'. apply H. now right.
Qed.

Lemma negamax_tt_ext o1 o2 : forall d path0 p,
  (forall path' q l, desc path0 p path' q -> o1 path' q l = o2 path' q l) ->
  forall a b tt, ntt o1 d path0 p a b tt = ntt o2 d path0 p a b tt.
Proof.
  induction d as [|k IH]; intros path0 p H a b tt; cbn [SearchCore.negamax_tt]; [reflexivity|].
  destruct (SearchCore.rep_leaf pos rep path0 p); [reflexivity|].
  destruct (SearchCore.probe pos table tt_get key tt (S k) p a b) as [r|[alpha beta]]; [reflexivity|].
  destruct (SearchCore.is_root pos path0 && root_empty p); [reflexivity|].
  destruct (succs p) as [|c0 r0] eqn:Es; [reflexivity|].
  rewrite (H path0 p (c0 :: r0) (desc_refl path0 p)).
  rewrite (loop_tt_ext (ntt o1 k (p :: path0)) (ntt o2 k (p :: path0)) (o2 path0 p (c0 :: r0))); [reflexivity|].
  intros c _ a' b' t'. apply IH. intros path' q l Hd. apply H. eapply desc_step. exact Hd.
Qed.

(* ---- depth 1 from an empty table: the table-using mirror is the table-free one ---- *)
Local Notation nab o := (SearchCore.negamax_ab pos succs noisy_succs noisy_any static terminal W qfuel order_q o rep root_empty).

Lemma negamax_tt_0_miss o path p a b tt : tt_get tt (key p) = None -> ntt o 0 path p a b tt = (nab o 0 path p a b, tt).
Proof.
  intros H. cbn [SearchCore.negamax_tt SearchCore.negamax_ab].
  destruct (SearchCore.rep_leaf pos rep path p); [reflexivity|].
  unfold SearchCore.probe. rewrite H. destruct (SearchCore.is_root pos path && root_empty p); reflexivity.
Qed.

Lemma loop_tt_pure (f : pos -> Z -> Z -> table -> SearchCore.tres pos table) (g : pos -> Z -> Z -> SearchCore.res pos) l tt :
  (forall c a b, In c l -> f c a b tt = (g c a b, tt)) ->
  forall alpha beta best bpv, loop_tt f l alpha beta best bpv tt = (SearchCore.loop pos g l alpha beta best bpv, tt).
Proof.
  induction l as [|c r IH]; intros H alpha beta best bpv; cbn [SearchCore.loop_tt SearchCore.loop]; [reflexivity|].
  rewrite (H c _ _ (or_introl eq_refl)). cbn [fst snd]. cbv zeta.
  destruct (_ >=? beta)%Z; [reflexivity|]. apply IH. intros c' a b Hc'. apply H. now right.
Qed.

Lemma negamax_tt_1_empty o p a b tt : (forall k, tt_get tt k = None) -> fst (ntt o 1 [] p a b tt) = nab o 1 [] p a b.
Proof.
  intros H. cbn [SearchCore.negamax_tt SearchCore.negamax_ab].
  destruct (SearchCore.rep_leaf pos rep [] p); [reflexivity|].
  unfold SearchCore.probe. rewrite H. destruct (SearchCore.is_root pos [] && root_empty p); [reflexivity|].
  destruct (succs p) as [|c0 r0]; [reflexivity|].
  rewrite (loop_tt_pure (ntt o 0 [p]) (nab o 0 [p])); [|intros c a' b' Hc; apply negamax_tt_0_miss; apply H].
  cbn [fst snd]. symmetry. apply surjective_pairing.
Qed.

End OrderExt.

(* ---- two hash tables with the same keys, queue and capacity and related values ---- *)
Section TableRel.
Variables V1 V2 : Type.
Variable ER : V1 -> V2 -> Prop.

Definition MR (m1 : list (FifoMap.K * V1)) (m2 : list (FifoMap.K * V2)) : Prop :=
  Forall2 (fun x y => fst x = fst y /\ ER (snd x) (snd y)) m1 m2.
Definition HR_tab (t1 : HashTable.ht V1) (t2 : HashTable.ht V2) : Prop :=
  HashTable.cap V1 t1 = HashTable.cap V2 t2 /\ HashTable.q V1 t1 = HashTable.q V2 t2 /\
  MR (HashTable.m V1 t1) (HashTable.m V2 t2).

Lemma MR_find k m1 m2 : MR m1 m2 ->
  match HashTable.find V1 k m1, HashTable.find V2 k m2 with
  | Some a, Some b => ER a b
  | None, None => True
  | _, _ => False
  end.
Proof.
  induction 1 as [|[k1 v1] [k2 v2] r1 r2 [Hk Hv] _ IH]; cbn [HashTable.find]; [exact I|].
  cbn [fst snd] in Hk, Hv. subst k2. destruct (N.eqb k k1); [exact Hv|exact IH].
Qed.

Lemma MR_remove k m1 m2 : MR m1 m2 -> MR (HashTable.remove V1 k m1) (HashTable.remove V2 k m2).
Proof.
  induction 1 as [|[k1 v1] [k2 v2] r1 r2 [Hk Hv] _ IH]; cbn [HashTable.remove]; [constructor|].
  cbn [fst snd] in Hk, Hv. subst k2. destruct (N.eqb k k1); [exact IH|]. constructor; [split; [reflexivity|exact Hv]|exact IH].
Qed.

Lemma MR_length m1 m2 : MR m1 m2 -> length m1 = length m2.
Proof. induction 1; cbn [length]; congruence. Qed.

Lemma HR_get t1 t2 k : HR_tab t1 t2 ->
  match HashTable.get V1 t1 k, HashTable.get V2 t2 k with
  | Some a, Some b => ER a b
  | None, None => True
  | _, _ => False
  end.
Proof. intros (_ & _ & H). unfold HashTable.get. now apply MR_find. Qed.

Definition put1 (t : HashTable.ht V1) k v := match HashTable.put V1 t k v with Some t' => t' | None => t end.
Definition put2 (t : HashTable.ht V2) k v := match HashTable.put V2 t k v with Some t' => t' | None => t end.

Lemma HR_put t1 t2 k v1 v2 : HR_tab t1 t2 -> ER v1 v2 -> HR_tab (put1 t1 k v1) (put2 t2 k v2).
Proof.
  intros (Hc & Hq & Hm) Hv. unfold put1, put2, HashTable.put. cbv zeta.
  pose proof (MR_find k _ _ Hm) as Hf.
  assert (Hins : MR (HashTable.insert V1 k v1 (HashTable.m V1 t1)) (HashTable.insert V2 k v2 (HashTable.m V2 t2))).
  { unfold HashTable.insert. constructor; [split; [reflexivity|exact Hv]|now apply MR_remove]. }
  rewrite <- Hc, <- Hq, <- (MR_length _ _ Hins).
  assert (Hw : (match HashTable.find V1 k (HashTable.m V1 t1) with None => true | Some _ => false end) =
               (match HashTable.find V2 k (HashTable.m V2 t2) with None => true | Some _ => false end)).
  { destruct (HashTable.find V1 k (HashTable.m V1 t1)), (HashTable.find V2 k (HashTable.m V2 t2)); try reflexivity; contradiction. }
  rewrite <- Hw.
  destruct (Nat.ltb _ _).
  - destruct (if match HashTable.find V1 k (HashTable.m V1 t1) with None => true | Some _ => false end
              then HashTable.q V1 t1 ++ [k] else HashTable.q V1 t1) as [|h tl].
    + split; [exact Hc|split; [exact Hq|exact Hm]].
    + split; [reflexivity|split; [reflexivity|]]. cbn [HashTable.m]. now apply MR_remove.
  - split; [reflexivity|split; [reflexivity|exact Hins]].
Qed.

Lemma HR_clear t1 t2 : HashTable.cap V1 t1 = HashTable.cap V2 t2 -> HR_tab (HashTable.clear V1 t1) (HashTable.clear V2 t2).
Proof. intros H. split; [exact H|split; [reflexivity|constructor]]. Qed.

End TableRel.

(* get after put, for any value type *)
Lemma ht_put_spec (V : Type) (t : HashTable.ht V) k e k' e' :
  HashTable.get V (put1 V t k e) k' = Some e' -> (k' = k /\ e' = e) \/ HashTable.get V t k' = Some e'.
Proof.
  unfold put1, HashTable.put, HashTable.get.
  assert (Hins : forall x, HashTable.find V k' (HashTable.insert V k e (HashTable.m V t)) = Some x ->
                           (k' = k /\ x = e) \/ HashTable.find V k' (HashTable.m V t) = Some x).
  { intro x. unfold HashTable.insert. cbn [HashTable.find]. destruct (N.eqb_spec k' k) as [->|Hne].
    - intros [= <-]. now left.
    - rewrite find_remove_other by exact Hne. now right. }
  destruct (Nat.ltb _ _).
  - cbv zeta. match goal with |- context [match ?q with [] => None | _ :: _ => _ end] => destruct q as [|h tl] end; [intro H0; now right|].
    cbn [HashTable.m]. intro H. apply Hins. destruct (N.eq_dec k' h) as [->|Hne].
    + rewrite find_remove_same in H. discriminate.
    + rewrite find_remove_other in H by exact Hne. exact H.
  - cbn [HashTable.m]. apply Hins.
Qed.

(* ---- no repetition leaf while the half-move clock is below 6: at most one earlier index is inspected ---- *)
Lemma succ_mod2 x : (x + 1) mod 2 <> x mod 2.
Proof.
  rewrite <- !N.bit0_mod, !N.bit0_odd, N.add_1_r, N.odd_succ, <- N.negb_odd. destruct (N.odd x); discriminate.
Qed.

Lemma countb_below_single (g : N -> bool) c : (forall x, g x = true -> x = c) -> forall n, Draws.countb g (Draws.below n) <= 1.
Proof.
  intros Hg. induction n as [|n IH] using N.peano_ind; [rewrite HistoryProofs.below_0; cbn; lia|].
  rewrite HistoryProofs.below_succ. cbn [Draws.countb]. destruct (g n) eqn:E; [|lia].
  apply Hg in E. subst n.
  assert (Z0 : Draws.countb g (Draws.below c) = 0).
  { clear IH. assert (H : forall l, (forall x, In x l -> x < c) -> Draws.countb g l = 0).
    { induction l as [|y r IHl]; intros Hl; cbn [Draws.countb]; [reflexivity|].
      destruct (g y) eqn:Ey; [apply Hg in Ey; specialize (Hl y (or_introl eq_refl)); lia|].
      rewrite IHl; [reflexivity|]. intros x Hx. apply Hl. now right. }
    apply H. intros x Hx. now apply HistoryProofs.below_In. }
  lia.
Qed.

Lemma occurrences_small (k : N -> N) i hm : hm < 6 -> Draws.occurrences k i hm <= 1.
Proof.
  intros Hhm. unfold Draws.occurrences, Draws.window. rewrite HistoryProofs.countb_filter.
  apply (countb_below_single _ (i - 4)). intros x Hx. apply andb_true_iff in Hx as [Hw _].
  apply HistoryProofs.in_window_iff in Hw as (Hp & H4 & Hlo).
  assert (C : x = i - 4 \/ (x = i - 5 /\ 5 <= i)) by lia. destruct C as [C|[C Hi]]; [exact C|exfalso].
  subst x. replace i with (i - 5 + 1 + 2 * 2) in Hp at 2 by lia. rewrite N.mod_add in Hp by discriminate.
  symmetry in Hp. now apply succ_mod2 in Hp.
Qed.

Lemma visit_norep h ply pc zh hm : hm < 6 -> snd (visit h ply pc zh hm) = false.
Proof.
  intros Hhm. rewrite HistoryProofs.visit_spec. cbn [snd].
  assert (Hm : hm mod 65536 < 6) by (rewrite N.mod_small; lia).
  pose proof (occurrences_small (hget ((pc, zh) :: h)) pc (hm mod 65536) Hm) as Ho.
  destruct (N.leb_spec 2 (Draws.occurrences (hget ((pc, zh) :: h)) pc (hm mod 65536))); [lia|apply andb_false_r].
Qed.
Section Refine.
Variable T : Tables.t.
Hypothesis HT : ZobristProofs.gen_masks_ok T = true.

(* C03 as an indexed family, see Proofs/SearchProofs.v *)
Variable good : nat -> board -> Prop.
Variable Q : nat.
Hypothesis inverse : forall n b m, good (S n) b -> In m (gen_pseudo T b) ->
  exists b', make b m = Some b' /\ unmake b' m = Some b /\ (is_valid T b' = true -> good n b').
Hypothesis good_mono : forall n b, good (S n) b -> good n b.
Hypothesis qfuel_bound : forall n b, good n b -> (qfuel b <= Q)%nat.
(* ... on boards that are well formed, with consistent castling rights and e.p. square *)
Hypothesis good_sane : forall n b, good n b -> sane b = true.

Local Notation succs := (ChessGame.succs T).
Local Notation noisy_succs := (ChessGame.noisy_succs T).
Local Notation noisy_any := (ChessGame.noisy_any T).
(* the static evaluation of the abstract game: any function that agrees with the engine's on good boards (the engine's
   own, or the engine's saturated into (-W, W): the abstract theorems ask for a bound on ALL positions) *)
Variable stat : board -> Z.
Hypothesis stat_good : forall n b, good n b -> stat b = ChessGame.static T b.
Local Notation static := stat.
Local Notation terminal := (ChessGame.terminal T).
Local Notation children := (ChessGame.children T).
Local Notation Hdec := (chess_qmeasure_dec T HT).

Lemma good_le' n m b : (m <= n)%nat -> good n b -> good m b.
Proof. induction 1 as [|k Hle IH]; [tauto|]. intro H. apply IH. now apply good_mono. Qed.

(* ================================================================== *)
(* Part A : quiescence                                                 *)

(* the ordering oracle of the capture search: MvvLvaMoveOrder::sort(buffer, None, None, None) *)
Definition order_q (b : board) (l : list board) : list board :=
  if list_eq_dec board_eq_dec l (noisy_succs b)
  then (if sane b then children b (sort_moves (gen_nonquiet T b) None None None) else [])
  else l.

Lemma order_q_perm : forall p l, Permutation l (order_q p l).
Proof.
  intros p l. unfold order_q. destruct (list_eq_dec board_eq_dec l (noisy_succs p)) as [->|_]; [|apply Permutation_refl].
  unfold ChessGame.noisy_succs, noisy_succs_raw. destruct (sane p); [|constructor].
  apply children_perm, sort_moves_perm.
Qed.

Lemma order_q_noisy b : sane b = true ->
  order_q b (noisy_succs b) = children b (sort_moves (gen_nonquiet T b) None None None).
Proof.
  intros Hs. unfold order_q. destruct (list_eq_dec board_eq_dec (noisy_succs b) (noisy_succs b)) as [_|N]; [|contradiction].
  now rewrite Hs.
Qed.

Local Notation qs_abC := (SearchCore.qs_ab board noisy_succs static order_q).

Lemma do_unmake_board st m b : unmake (s_board st) m = Some b -> s_board (do_unmake st m) = b.
Proof. unfold do_unmake. now intros ->. Qed.

(* the `for mv in buffer` loop of search_quiescence against SearchCore.qloop over the legal children *)
Lemma qs_loop_refine (rec : Z -> Z -> N -> sstate -> vmove * sstate) (f : board -> Z -> Z -> SearchCore.res board) n b :
  good (S n) b ->
  forall moves, (forall m, In m moves -> In m (gen_pseudo T b)) ->
  (forall c, In c (children b moves) -> forall a be z st, s_board st = c ->
      s_board (snd (rec a be z st)) = c /\ vm_value (fst (rec a be z st)) = fst (f c a be)) ->
  forall beta zph alpha bm bc st bpv, s_board st = b ->
    s_board (snd (qs_loop T rec moves beta zph alpha bm bc st)) = b /\
    vm_value (fst (qs_loop T rec moves beta zph alpha bm bc st)) = fst (SearchCore.qloop board f (children b moves) alpha beta bpv).
Proof.
  intros Hgood moves. induction moves as [|mv rest IH]; intros Hin Hrec beta zph alpha bm bc st bpv Hb;
    cbn [qs_loop ChessGame.children SearchCore.qloop].
  - split; [exact Hb|reflexivity].
  - assert (Hmv : In mv (gen_pseudo T b)) by (apply Hin; now left).
    assert (Hrest : forall m, In m rest -> In m (gen_pseudo T b)) by (intros; apply Hin; now right).
    destruct (inverse n b mv Hgood Hmv) as (b1 & Hmk & Hun & Hg1).
    rewrite Hb, Hmk. cbn [ChessGame.children] in Hrec. rewrite Hmk in Hrec.
    destruct (is_valid T b1) eqn:Hv; cbn [negb].
    + set (st2 := set_q_nodes (set_board st b1) (s_q_nodes (set_board st b1) + 1)).
      assert (E2 : exists zpx st3, (match zobrist_xor T mv with Some (_, p) => (p, st2) | None => (0, set_panicked st2 true) end) = (zpx, st3)
                                   /\ s_board st3 = b1).
      { destruct (zobrist_xor T mv) as [[x p]|]; eexists; eexists; (split; reflexivity). }
      destruct E2 as (zpx & st3 & -> & B3).
      destruct (Hrec b1 (or_introl eq_refl) (- beta)%Z (- alpha)%Z (N.lxor zph zpx) st3 B3) as [B4 V4].
      destruct (rec (- beta)%Z (- alpha)%Z (N.lxor zph zpx) st3) as [child st4]. cbn [fst snd] in B4, V4.
      assert (B5 : s_board (do_unmake st4 mv) = b) by (apply do_unmake_board; rewrite B4; exact Hun).
      cbn [SearchCore.qloop]. rewrite V4. rewrite Zgeb_leb, Zgtb_ltb.
      destruct (beta <=? - fst (f b1 (- beta)%Z (- alpha)%Z))%Z; [cbn [fst snd]; split; [exact B5|reflexivity]|].
      assert (Hrec' : forall c, In c (children b rest) -> forall a be z st, s_board st = c ->
                  s_board (snd (rec a be z st)) = c /\ vm_value (fst (rec a be z st)) = fst (f c a be)).
      { intros c Hc. apply Hrec. now right. }
      destruct (alpha <? - fst (f b1 (- beta)%Z (- alpha)%Z))%Z; apply IH; assumption.
    + assert (B1 : s_board (do_unmake (set_board st b1) mv) = b) by (apply do_unmake_board; exact Hun).
      apply IH; assumption.
Qed.

Lemma children_nil_perm b l l' : Permutation l l' -> children b l = [] -> children b l' = [].
Proof. intros HP E. apply Permutation_nil. rewrite <- E. apply Permutation_sym. now apply children_perm. Qed.

Lemma evaluate_for_static b : evaluate_for T (turn b) b true = ChessGame.static T b.
Proof. reflexivity. Qed.
Lemma evaluate_for_terminal b : evaluate_for T (turn b) b false = terminal b.
Proof. reflexivity. Qed.

Lemma quiescence_step k fa alpha beta zph st :
  good (S k) (s_board st) -> (qmeasure (s_board st) <= fa)%nat ->
  (forall c fa' a be z st', In c (noisy_succs (s_board st)) -> (qmeasure c <= fa')%nat -> s_board st' = c ->
      s_board (snd (quiescence T k a be z st')) = c /\
      vm_value (fst (quiescence T k a be z st')) = fst (qs_abC fa' c a be)) ->
  s_board (snd (quiescence T (S k) alpha beta zph st)) = s_board st /\
  vm_value (fst (quiescence T (S k) alpha beta zph st)) = fst (qs_abC fa (s_board st) alpha beta).
Proof.
  intros Hg Hfa Hrec. set (b := s_board st) in *.
  assert (Hs : sane b = true) by (eapply good_sane; exact Hg).
  cbn [quiescence]. cbv zeta. fold b. rewrite evaluate_for_static, <- (stat_good _ _ Hg).
  assert (Ea : fst (qs_abC fa b alpha beta) =
               if (beta <=? static b)%Z then beta
               else match fa with
                    | O => Z.max alpha (static b)
                    | S ka => fst (SearchCore.qloop board (qs_abC ka) (order_q b (noisy_succs b)) (Z.max alpha (static b)) beta [])
                    end).
  { destruct fa; cbn [SearchCore.qs_ab]; rewrite Zgeb_leb; destruct (beta <=? static b)%Z; reflexivity. }
  rewrite Ea. destruct (beta <=? static b)%Z; [split; reflexivity|].
  assert (Hin : forall m, In m (sort_moves (gen_nonquiet T b) None None None) -> In m (gen_pseudo T b)).
  { intros m Hm. apply gen_nonquiet_incl. eapply sort_moves_in. exact Hm. }
  assert (Hch : forall c, In c (children b (sort_moves (gen_nonquiet T b) None None None)) -> In c (noisy_succs b)).
  { intros c Hc. rewrite (noisy_succs_sane T b Hs). unfold noisy_succs_raw.
    eapply Permutation_in; [apply Permutation_sym, children_perm, sort_moves_perm|exact Hc]. }
  destruct fa as [|ka].
  - assert (Hnil : children b (sort_moves (gen_nonquiet T b) None None None) = []).
    { destruct (children b (sort_moves (gen_nonquiet T b) None None None)) as [|c r] eqn:E; [reflexivity|exfalso].
      pose proof (Hdec b c (Hch c (or_introl eq_refl))). lia. }
    destruct (qs_loop_refine (quiescence T k) (fun _ _ _ => (0%Z, [])) k b Hg _ Hin) with
      (beta := beta) (zph := zph) (alpha := Z.max alpha (static b)) (bm := @None move) (bc := @None vmove) (st := st) (bpv := @nil board)
      as [B V]; [rewrite Hnil; intros c []|reflexivity|].
    split; [exact B|]. rewrite V, Hnil. reflexivity.
  - rewrite (order_q_noisy b Hs).
    apply (qs_loop_refine (quiescence T k) (qs_abC ka) k b Hg _ Hin); [|reflexivity].
    intros c Hc a be z st' Hb'. apply Hrec; [now apply Hch| |exact Hb'].
    pose proof (Hdec b c (Hch c Hc)). lia.
Qed.

Lemma quiescence_refine : forall k fa alpha beta zph st,
  good (S k) (s_board st) -> (qmeasure (s_board st) <= k)%nat -> (qmeasure (s_board st) <= fa)%nat ->
  s_board (snd (quiescence T (S k) alpha beta zph st)) = s_board st /\
  vm_value (fst (quiescence T (S k) alpha beta zph st)) = fst (qs_abC fa (s_board st) alpha beta).
Proof.
  induction k as [|k IH]; intros fa alpha beta zph st Hg Hk Hfa; apply quiescence_step; try assumption.
  - intros c fa' a be z st' Hc. pose proof (Hdec _ _ Hc). lia.
  - intros c fa' a be z st' Hc Hfa' Hb'. rewrite <- Hb'. apply IH; rewrite Hb'; [| |exact Hfa'].
    + assert (Hs : sane (s_board st) = true) by (eapply good_sane; exact Hg).
      rewrite (noisy_succs_sane T _ Hs) in Hc. unfold noisy_succs_raw in Hc. apply children_in in Hc as (m & Hm & Hmk & Hv).
      destruct (inverse (S k) (s_board st) m Hg (gen_nonquiet_incl T _ _ Hm)) as (b1 & Hmk1 & _ & Hg1).
      rewrite Hmk in Hmk1. injection Hmk1 as <-. apply Hg1. exact Hv.
    + pose proof (Hdec _ _ Hc). lia.
Qed.

(* (a) the concrete capture search computes the abstract mirror ... *)
Theorem quiescence_refines fuel alpha beta zph st :
  good fuel (s_board st) -> (qmeasure (s_board st) < fuel)%nat ->
  vm_value (fst (quiescence T fuel alpha beta zph st)) =
  fst (SearchCore.qs_ab board noisy_succs static order_q (qmeasure (s_board st)) (s_board st) alpha beta).
Proof.
  intros Hg Hf. destruct fuel as [|k]; [lia|]. apply quiescence_refine; [exact Hg|lia|lia].
Qed.

(* ... hence the exact capture-resolution value, clamped into the window *)
Theorem quiescence_concrete fuel alpha beta zph st :
  good fuel (s_board st) -> (qmeasure (s_board st) < fuel)%nat -> (alpha < beta)%Z ->
  vm_value (fst (quiescence T fuel alpha beta zph st)) =
  AlphaBeta.clamp alpha beta (Minimax.qs board noisy_succs static qmeasure (s_board st)).
Proof.
  intros Hg Hf Hab. rewrite quiescence_refines by assumption.
  apply (AlphaBeta.qs_ab_clamp board noisy_succs static qmeasure Hdec order_q order_q_perm); [lia|exact Hab].
Qed.

(* ================================================================== *)
(* Part B : the horizon node                                           *)

Lemma any_move_legal_spec moves : forall b, good 1 b -> (forall m, In m moves -> In m (gen_pseudo T b)) ->
  forall st, s_board st = b ->
  s_board (snd (any_move_legal T moves st)) = b /\
  fst (any_move_legal T moves st) = negb (is_nil (children b moves)).
Proof.
  intros b Hg. induction moves as [|mv rest IH]; intros Hin st Hb; cbn [any_move_legal ChessGame.children].
  - split; [exact Hb|reflexivity].
  - destruct (inverse 0%nat b mv Hg (Hin mv (or_introl eq_refl))) as (b1 & Hmk & Hun & _).
    rewrite Hb, Hmk. cbv zeta.
    assert (B1 : s_board (do_unmake (set_board st b1) mv) = b) by (apply do_unmake_board; exact Hun).
    destruct (is_valid T b1); [split; [exact B1|reflexivity]|].
    apply IH; [intros; apply Hin; now right|exact B1].
Qed.

Local Notation horizon_abC :=
  (SearchCore.horizon_ab board succs noisy_succs noisy_any static terminal qmeasure order_q).

(* (b) `if is_max_ply { ... }` computes the abstract horizon mirror *)
Theorem leaf_node_refine alpha beta zph st :
  good (S Q) (s_board st) ->
  s_board (snd (leaf_node T (turn (s_board st)) alpha beta zph (gen_pseudo T (s_board st)) st)) = s_board st /\
  vm_value (fst (leaf_node T (turn (s_board st)) alpha beta zph (gen_pseudo T (s_board st)) st)) =
  fst (horizon_abC (s_board st) alpha beta).
Proof.
  intros Hg. set (b := s_board st). unfold leaf_node.
  assert (Hg1 : good 1 b) by (eapply good_le'; [|exact Hg]; lia).
  destruct (any_move_legal_spec (gen_pseudo T b) b Hg1 (fun m H => H) st eq_refl) as [B1 L1].
  destruct (any_move_legal T (gen_pseudo T b) st) as [legal st1]. cbn [fst snd] in B1, L1.
  unfold SearchCore.horizon_ab. fold (succs b) in L1.
  change (is_any_move_non_quiescent (gen_pseudo T b)) with (noisy_any b).
  destruct (succs b) as [|c r] eqn:Es; cbn [is_nil negb] in L1; subst legal; cbn [andb].
  - cbn [fst snd vm_value leaf]. rewrite B1. split; [reflexivity|apply evaluate_for_terminal].
  - destruct (noisy_any b).
    + rewrite B1.
      assert (Hs : sane b = true) by (eapply good_sane; exact Hg).
      assert (Hwf : wf b = true) by (apply (sane_elim b Hs)).
      pose proof (qmeasure_lt_qfuel b Hwf) as Hlt.
      assert (Hgq : good (qfuel b) b).
      { eapply good_le'; [|exact Hg]. pose proof (qfuel_bound _ _ Hg) as Hq. fold b in Hq. lia. }
      destruct (qfuel b) as [|k] eqn:Ek; [lia|].
      rewrite <- B1 in Hgq, Hlt |- *.
      destruct (quiescence_refine k (qmeasure (s_board st1)) alpha beta zph st1 Hgq) as [B2 V2]; [lia|lia|].
      split; assumption.
    + cbn [fst snd vm_value leaf]. rewrite B1. split; [reflexivity|rewrite (stat_good (S Q) b Hg); apply evaluate_for_static].
Qed.

Lemma ok_inside v x a b : AlphaBeta.ok v x a b -> (a < x < b)%Z -> v = x.
Proof.
  unfold AlphaBeta.ok. intros (H1 & H2 & H3) Hx.
  destruct (Z.le_gt_cases v a) as [L|L]; [specialize (H2 L); lia|].
  destruct (Z.le_gt_cases b v) as [G|G]; [assert (G' : (v >= b)%Z) by lia; specialize (H3 G'); lia|].
  apply H1. lia.
Qed.

Local Notation horizonC := (Minimax.horizon board succs noisy_succs noisy_any static terminal qmeasure).

(* ... hence the exact horizon value whenever the window contains it *)
Theorem leaf_node_concrete alpha beta zph st :
  good (S Q) (s_board st) -> (alpha < horizonC (s_board st) < beta)%Z ->
  vm_value (fst (leaf_node T (turn (s_board st)) alpha beta zph (gen_pseudo T (s_board st)) st)) = horizonC (s_board st).
Proof.
  intros Hg Hw. destruct (leaf_node_refine alpha beta zph st Hg) as [_ V]. rewrite V.
  pose proof (AlphaBeta.horizon_ab_ok board succs noisy_succs noisy_any static terminal qmeasure Hdec order_q order_q_perm
                (s_board st) alpha beta) as Hok.
  rewrite (MinimaxProofs.nm_0 board succs) in Hok. apply (ok_inside _ _ alpha beta); [apply Hok; lia|exact Hw].
Qed.

(* ================================================================== *)
(* Part C : search_negamax against the table-using mirror              *)

Hypothesis HK : ZobristProofs.keys_rows_ok T = true.
(* distinct legal moves lead to distinct positions (the abstract ordering oracle is indexed by the PATH of positions,
   SearchCore.v: "a search visits every path at most once"); needed from depth 2 on *)
Definition ND : Prop := forall n b, good n b -> NoDup (succs b).

(* an oracle that never interrupts *)
Variable orc : oracle.
Hypothesis quiet_abort : abort_at orc = None.
Hypothesis quiet_inbox : forall k, inbox orc k = [].

(* ---- the abstract transposition table: the same HashTable, entries without the stored move ---- *)
Definition aentry : Type := SearchCore.entry board.
Definition atable : Type := HashTable.ht aentry.
Definition a_get (t : atable) (k : N) : option aentry := HashTable.get aentry t k.
Definition a_put (t : atable) (k : N) (e : aentry) : atable := put1 aentry t k e.

Lemma a_put_spec : forall t k e k' e', a_get (a_put t k e) k' = Some e' -> (k' = k /\ e' = e) \/ a_get t k' = Some e'.
Proof. intros t k e k' e'. apply ht_put_spec. Qed.

Definition conv_type (t : node_type) : SearchCore.ntype :=
  match t with Exact => SearchCore.Exact | Lowerbound => SearchCore.Lower | Upperbound => SearchCore.Upper end.

Definition ER (ce : tt_entry) (ae : aentry) : Prop :=
  SearchCore.e_depth board ae = N.to_nat (te_depth ce) /\ SearchCore.e_value board ae = te_value ce /\
  SearchCore.e_type board ae = conv_type (te_type ce) /\ vm_value (te_mv ce) = te_value ce.

Definition TR (ct : HashTable.ht tt_entry) (at_ : atable) : Prop := HR_tab tt_entry aentry ER ct at_.

Definition W : Z := win_score T.
Definition Mx : Z := max_full_moves T.
Definition rep0 (path : list board) (p : board) : option Z := None.
Definition root_empty (b : board) : bool := is_nil (gen_pseudo T b).

Local Notation nttC o :=
  (SearchCore.negamax_tt board succs noisy_succs noisy_any static terminal W qmeasure order_q o rep0 root_empty
     atable a_get a_put (zobrist_hash T) Mx).
Local Notation probeC := (SearchCore.probe board atable a_get (zobrist_hash T)).

(* what has to hold of the state for polls to be without effect on values *)
Definition SI (st : sstate) : Prop :=
  s_stop st = false /\ g_movetime (s_go st) = None /\ g_searchmoves (s_go st) = [].

Lemma poll_block_quiet st : g_movetime (s_go st) = None ->
  fst (poll_block T orc st) = None /\ s_board (snd (poll_block T orc st)) = s_board st /\
  s_tt (snd (poll_block T orc st)) = s_tt st /\ s_stop (snd (poll_block T orc st)) = s_stop st /\
  s_go (snd (poll_block T orc st)) = s_go st.
Proof.
  intros Hmt. unfold poll_block, generate_info, read_clock. cbv zeta.
  destruct (should_check_flags orc st); [|repeat split; reflexivity].
  unfold check_messages. rewrite quiet_abort, quiet_inbox. cbn [fold_left]. cbv beta iota zeta. sproj.
  rewrite Hmt. cbn [fst snd]. sproj. repeat split; reflexivity.
Qed.

Lemma leb_N_nat d x : (N.of_nat d <=? x) = (d <=? N.to_nat x)%nat.
Proof. destruct (N.leb_spec (N.of_nat d) x), (Nat.leb_spec d (N.to_nat x)); try reflexivity; lia. Qed.

Lemma tt_probe_refine st at_ d b a0 b0 : TR (s_tt st) at_ ->
  match tt_probe st (zobrist_hash T b) (N.of_nat d) a0 b0, probeC at_ d b a0 b0 with
  | inl v, inl res => vm_value v = fst res
  | inr (al, be, _), inr (al', be') => al = al' /\ be = be'
  | _, _ => False
  end.
Proof.
  intros HTR. unfold tt_probe, SearchCore.probe, a_get.
  pose proof (HR_get _ _ ER _ _ (zobrist_hash T b) HTR) as Hg.
  destruct (HashTable.get tt_entry (s_tt st) (zobrist_hash T b)) as [ce|], (HashTable.get aentry at_ (zobrist_hash T b)) as [ae|];
    try contradiction; [|split; reflexivity].
  destruct Hg as (Hd & Hv & Ht & Hm). rewrite leb_N_nat, Hd.
  destruct (d <=? N.to_nat (te_depth ce))%nat; [|split; reflexivity].
  rewrite Ht, Hv. destruct (te_type ce); cbn [conv_type].
  - cbn [fst]. exact Hm.
  - rewrite Zgeb_leb. destruct (b0 <=? Z.max a0 (te_value ce))%Z; [cbn [fst]; exact Hm|split; reflexivity].
  - rewrite Zgeb_leb. destruct (Z.min b0 (te_value ce) <=? a0)%Z; [cbn [fst]; exact Hm|split; reflexivity].
Qed.

Lemma probe_miss_abs ct at_ d b a0 b0 n : TR ct at_ -> tt_le n ct -> n < N.of_nat d -> probeC at_ d b a0 b0 = inr (a0, b0).
Proof.
  intros HTR Hle Hn. unfold SearchCore.probe, a_get.
  pose proof (HR_get _ _ ER _ _ (zobrist_hash T b) HTR) as Hg.
  destruct (HashTable.get tt_entry ct (zobrist_hash T b)) as [ce|] eqn:Ec, (HashTable.get aentry at_ (zobrist_hash T b)) as [ae|];
    try contradiction; [|reflexivity].
  destruct Hg as (Hd & _). specialize (Hle _ _ Ec). rewrite Hd.
  destruct (Nat.leb_spec d (N.to_nat (te_depth ce))); [lia|reflexivity].
Qed.

Lemma filter_search_moves_nil st l : g_searchmoves (s_go st) = [] -> filter_search_moves st l = l.
Proof. unfold filter_search_moves. now intros ->. Qed.

Lemma rep_leaf0 path p : SearchCore.rep_leaf board rep0 path p = None.
Proof. unfold SearchCore.rep_leaf, rep0. destruct (SearchCore.is_root board path); reflexivity. Qed.

Lemma node_prelude_refine ply d a0 b0 st at_ path :
  SI st -> TR (s_tt st) at_ -> half (s_board st) < 6 -> SearchCore.is_root board path = (ply =? 0) ->
  let r := node_prelude T orc ply (N.of_nat d) a0 b0 (zobrist_hash T (s_board st)) st in
  (s_board (snd r) = s_board st /\ s_tt (snd r) = s_tt st /\ s_stop (snd r) = s_stop st /\ s_go (snd r) = s_go st) /\
  match probeC at_ d (s_board st) a0 b0 with
  | inl res => exists v, fst r = PreReturn v /\ vm_value v = fst res
  | inr (alpha, beta) =>
      if SearchCore.is_root board path && root_empty (s_board st) then fst r = PreReturn (leaf 0)
      else exists ttm, fst r = PreGo alpha beta ttm (gen_pseudo T (s_board st))
  end.
Proof.
  intros (Hstop & Hmt & Hsm) HTR Hhalf Hroot. unfold node_prelude.
  destruct (poll_block_quiet st Hmt) as (Hp & B1 & T1 & S1 & G1).
  destruct (poll_block T orc st) as [o st1]. cbn [fst snd] in Hp, B1, T1, S1, G1. subst o.
  cbv zeta. sproj. rewrite B1.
  pose proof (visit_norep (s_history st1) ply (ply_clock_w (s_board st)) (zobrist_hash T (s_board st)) (half (s_board st)) Hhalf) as Hv.
  destruct (visit (s_history st1) ply (ply_clock_w (s_board st)) (zobrist_hash T (s_board st)) (half (s_board st))) as [h' rp].
  cbn [snd] in Hv. subst rp.
  set (st3 := set_history (set_nm_nodes st1 (s_nm_nodes st1 + 1)) h').
  assert (F3 : s_board st3 = s_board st /\ s_tt st3 = s_tt st /\ s_stop st3 = s_stop st /\ s_go st3 = s_go st).
  { subst st3. sproj. repeat split; assumption. }
  destruct F3 as (B3 & T3 & S3 & G3).
  assert (HTR3 : TR (s_tt st3) at_) by (rewrite T3; exact HTR).
  pose proof (tt_probe_refine st3 at_ d (s_board st) a0 b0 HTR3) as Hpr.
  destruct (tt_probe st3 (zobrist_hash T (s_board st)) (N.of_nat d) a0 b0) as [v|[[al be] ttm]],
           (probeC at_ d (s_board st) a0 b0) as [res|[al' be']]; try contradiction.
  - cbn [fst snd]. split; [repeat split; assumption|]. exists v. split; [reflexivity|exact Hpr].
  - destruct Hpr as [-> ->]. rewrite (filter_search_moves_nil st3) by (rewrite G3; exact Hsm).
    rewrite Hroot. unfold root_empty.
    assert (Eb : (if ply =? 0 then gen_pseudo T (s_board st) else gen_pseudo T (s_board st)) = gen_pseudo T (s_board st))
      by (destruct (ply =? 0); reflexivity).
    rewrite Eb.
    destruct ((ply =? 0) && is_nil (gen_pseudo T (s_board st))); cbn [fst snd];
      (split; [repeat split; assumption|]); [reflexivity|]. exists ttm. reflexivity.
Qed.

Lemma make_half b m b' : make b m = Some b' -> half b' <= half b + 1.
Proof.
  unfold make. cbv zeta.
  match goal with |- match ?x with _ => _ end = _ -> _ => destruct x as [[a p]|] end; [|discriminate].
  intros [= <-]. destruct (is_white_turn b); cbn [half]; destruct (half_reset m); lia.
Qed.

Lemma child_hash b m b1 : sane b = true -> In m (gen_pseudo T b) -> make b m = Some b1 ->
  exists zx zpx, zobrist_xor T m = Some (zx, zpx) /\ zobrist_hash T b1 = N.lxor (zobrist_hash T b) zx.
Proof.
  intros Hs Hin Hmk. destruct (sane_elim b Hs) as (Hwf & Hcw & Hew).
  destruct (ZobristProofs.xor_no_panic T b m Hwf Hcw HT Hin) as (zx & zpx & Hx).
  exists zx, zpx. split; [exact Hx|].
  exact (proj1 (ZobristProofs.incremental T b m b1 zx zpx HK HT Hwf Hcw Hew Hin Hmk Hx)).
Qed.

Lemma is_mate_eq v : is_checkmate T v = SearchCore.is_mate_score W Mx v.
Proof. unfold is_checkmate, SearchCore.is_mate_score, W, Mx, loss_score. rewrite Zgtb_ltb. reflexivity. Qed.

Lemma succ_not_root ply : (ply + 1 =? 0) = false.
Proof. apply N.eqb_neq. lia. Qed.

(* the best move of a node and the head of the abstract chain *)
Definition HRm (b : board) (bm : option move) (bpv : list board) : Prop :=
  match bpv with [] => True | q :: _ => exists m, bm = Some m /\ make b m = Some q end.

(* "depth k refines": the induction hypothesis of the main theorem *)
Definition node_ok (k : nat) : Prop :=
  forall ply path st a0 b0 ispv zph at_,
  good (k + S Q) (s_board st) -> SI st -> TR (s_tt st) at_ -> half (s_board st) + N.of_nat k < 6 ->
  SearchCore.is_root board path = (ply =? 0) ->
  exists o, (forall path' q l, Permutation l (o path' q l)) /\
    let r := negamax T orc k ply a0 b0 ispv (zobrist_hash T (s_board st)) zph st in
    let R := nttC o k path (s_board st) a0 b0 at_ in
    s_board (snd r) = s_board st /\ s_stop (snd r) = false /\ s_go (snd r) = s_go st /\
    vm_value (fst r) = fst (fst R) /\ TR (s_tt (snd r)) (snd R) /\
    ((1 <= k)%nat -> forall n, tt_le n (s_tt st) -> n < N.of_nat k -> HRm (s_board st) (vm_mv (fst r)) (snd (fst R))).

Lemma loop_tt_cons (f : board -> Z -> Z -> atable -> SearchCore.tres board atable) c r alpha beta best bpv tt :
  SearchCore.loop_tt board atable f (c :: r) alpha beta best bpv tt =
  let cr := f c (- beta)%Z (- alpha)%Z tt in
  let v := (- fst (fst cr))%Z in
  let best' := if (v >? best)%Z then v else best in
  let bpv' := if (v >? best)%Z then c :: snd (fst cr) else bpv in
  if (Z.max alpha best' >=? beta)%Z then ((best', bpv'), snd cr)
  else SearchCore.loop_tt board atable f r (Z.max alpha best') beta best' bpv' (snd cr).
Proof. reflexivity. Qed.

Lemma do_unmake_frame st m : s_tt (do_unmake st m) = s_tt st /\ s_stop (do_unmake st m) = s_stop st /\ s_go (do_unmake st m) = s_go st.
Proof. destruct (do_unmake_qframe st m) as (H1 & _ & H3 & H4). auto. Qed.

Lemma nm_loop_refine k (IHk : node_ok k) path0 b ply :
  good (S (k + S Q)) b -> half b + N.of_nat (S k) < 6 ->
  forall moves, (forall m, In m moves -> In m (gen_pseudo T b)) -> (k = 0%nat \/ NoDup (children b moves)) ->
  forall ispv pvm zph rd beta alpha bv bm bc lg st at_ bpv,
  s_board st = b -> SI st -> TR (s_tt st) at_ -> HRm b bm bpv ->
  exists o, (forall path' q l, Permutation l (o path' q l)) /\
    let r := nm_loop T (negamax T orc k (ply + 1)) moves ispv pvm (zobrist_hash T b) zph rd beta alpha bv bm bc lg st in
    let R := SearchCore.loop_tt board atable (nttC o k (b :: path0)) (children b moves) alpha beta bv bpv at_ in
    s_board (snd r) = b /\ s_stop (snd r) = false /\ s_go (snd r) = s_go st /\ TR (s_tt (snd r)) (snd R) /\
    exists bm' bc' lg', fst r = LDone (fst (fst R)) bm' bc' lg' /\ lg' = lg || negb (is_nil (children b moves)) /\
                        HRm b bm' (snd (fst R)).
Proof.
  intros Hgood Hhalf moves. induction moves as [|mv rest IH];
    intros Hin Hnd ispv pvm zph rd beta alpha bv bm bc lg st at_ bpv Hb HSI HTR HH.
  - exists (fun _ _ l => l). split; [intros; apply Permutation_refl|].
    cbn [nm_loop ChessGame.children SearchCore.loop_tt fst snd is_nil negb]. destruct HSI as (Hs & _).
    split; [exact Hb|split; [exact Hs|split; [reflexivity|split; [exact HTR|]]]].
    exists bm, bc, lg. rewrite orb_false_r. split; [reflexivity|split; [reflexivity|exact HH]].
  - subst b.
    assert (Hmv : In mv (gen_pseudo T (s_board st))) by (apply Hin; now left).
    assert (Hrest : forall m, In m rest -> In m (gen_pseudo T (s_board st))) by (intros; apply Hin; now right).
    destruct (inverse (k + S Q)%nat (s_board st) mv Hgood Hmv) as (b1 & Hmk & Hun & Hg1).
    cbn [nm_loop ChessGame.children]. cbn [ChessGame.children] in Hnd. rewrite Hmk. rewrite Hmk in Hnd.
    destruct HSI as (Hstop & Hmt & Hsm).
    destruct (is_valid T b1) eqn:Hv; cbn [negb].
    + (* a legal move *)
      assert (Hnd' : k = 0%nat \/ NoDup (children (s_board st) rest)).
      { destruct Hnd as [E|Hnd]; [now left|right]. now inversion Hnd. }
      assert (Hnotin : k = 0%nat \/ ~ In b1 (children (s_board st) rest)).
      { destruct Hnd as [E|Hnd]; [now left|right]. now inversion Hnd. }
      assert (Hsane : sane (s_board st) = true) by (eapply good_sane; exact Hgood).
      destruct (child_hash (s_board st) mv b1 Hsane Hmv Hmk) as (zx & zpx & Hzx & Hzh).
      rewrite Hzx. rewrite <- Hzh.
      set (st1 := set_board st b1).
      assert (HSI1 : SI st1) by (repeat split; assumption).
      assert (Hh1 : half (s_board st1) + N.of_nat k < 6).
      { change (s_board st1) with b1. pose proof (make_half _ _ _ Hmk). rewrite Nat2N.inj_succ in Hhalf. lia. }
      destruct (IHk (ply + 1) (s_board st :: path0) st1 (- beta)%Z (- alpha)%Z (ispv && opt_move_eqb pvm mv) (N.lxor zph zpx) at_
                  (Hg1 eq_refl) HSI1 HTR Hh1) as (oc & Hpc & Hc).
      { cbn [SearchCore.is_root]. symmetry. apply succ_not_root. }
      cbv zeta in Hc. change (s_board st1) with b1 in Hc.
      destruct Hc as (B3 & S3 & G3 & V3 & T3 & _).
      destruct (negamax T orc k (ply + 1) (- beta)%Z (- alpha)%Z (ispv && opt_move_eqb pvm mv) (zobrist_hash T b1) (N.lxor zph zpx) st1)
        as [child st3]. cbn [fst snd] in B3, S3, G3, V3, T3.
      rewrite S3.
      set (Rc := nttC oc k (s_board st :: path0) b1 (- beta)%Z (- alpha)%Z at_) in *.
      assert (B4 : s_board (do_unmake st3 mv) = s_board st) by (apply do_unmake_board; rewrite B3; exact Hun).
      destruct (do_unmake_frame st3 mv) as (T4 & S4 & G4).
      set (cv := (- vm_value child)%Z).
      assert (Ecv : cv = (- fst (fst Rc))%Z) by (unfold cv; now rewrite V3).
      set (bv' := if (bv <? cv)%Z then cv else bv).
      set (bpv' := if (bv <? cv)%Z then b1 :: snd (fst Rc) else bpv).
      assert (Etriple : (if (bv <? cv)%Z then (cv, Some mv, Some child) else (bv, bm, bc)) =
                        (bv', (if (bv <? cv)%Z then Some mv else bm), (if (bv <? cv)%Z then Some child else bc))).
      { unfold bv'. destruct (bv <? cv)%Z; reflexivity. }
      rewrite Etriple. cbv beta iota zeta.
      assert (HH' : HRm (s_board st) (if (bv <? cv)%Z then Some mv else bm) bpv').
      { unfold bpv'. destruct (bv <? cv)%Z; [|exact HH]. cbn [HRm]. exists mv. split; [reflexivity|exact Hmk]. }
      destruct (beta <=? Z.max alpha bv')%Z eqn:Ecut.
      * (* cutoff *)
        exists oc. split; [exact Hpc|]. cbv zeta. rewrite loop_tt_cons. cbv zeta. fold Rc.
        rewrite <- Ecv, Zgtb_ltb. fold bv'. rewrite Zgeb_leb, Ecut.
        cbn [fst snd]. sproj. rewrite T4, S4, G4.
        split; [exact B4|split; [exact S3|split; [exact G3|split; [exact T3|]]]].
        eexists _, _, _. split; [reflexivity|]. split; [now rewrite orb_true_r|]. exact HH'.
      * (* next move *)
        assert (HSI4 : SI (do_unmake st3 mv)).
        { split; [rewrite S4; exact S3|]. rewrite G4, G3. split; assumption. }
        assert (HTR4 : TR (s_tt (do_unmake st3 mv)) (snd Rc)) by (rewrite T4; exact T3).
        destruct (IH Hrest Hnd' ispv pvm zph rd beta (Z.max alpha bv') bv' (if (bv <? cv)%Z then Some mv else bm)
                     (if (bv <? cv)%Z then Some child else bc) true (do_unmake st3 mv) (snd Rc) bpv' B4 HSI4 HTR4 HH')
          as (orr & Hpr & Hr).
        cbv zeta in Hr.
        set (o := fun path' q l => if under board board_eq_dec path0 b1 path' q then oc path' q l else orr path' q l).
        exists o. split; [intros path' q l; unfold o; destruct (under _ _ _ _ _ _); [apply Hpc|apply Hpr]|].
        cbv zeta. rewrite loop_tt_cons. cbv zeta.
        assert (Eoc : forall a be t, nttC o k (s_board st :: path0) b1 a be t = nttC oc k (s_board st :: path0) b1 a be t).
        { intros a be t. apply negamax_tt_ext. intros path' q l Hd. unfold o.
          now rewrite (under_desc board board_eq_dec path0 (s_board st) b1 path' q Hd). }
        rewrite Eoc. fold Rc. rewrite <- Ecv, Zgtb_ltb. fold bv'. fold bpv'. rewrite Zgeb_leb, Ecut.
        assert (Eor : forall al be bst pv t,
                  SearchCore.loop_tt board atable (nttC o k (s_board st :: path0)) (children (s_board st) rest) al be bst pv t =
                  SearchCore.loop_tt board atable (nttC orr k (s_board st :: path0)) (children (s_board st) rest) al be bst pv t).
        { intros al be bst pv t. apply loop_tt_ext. intros c Hc a be' t'. destruct Hnotin as [E0|Hnotin].
          - subst k. reflexivity.
          - apply negamax_tt_ext. intros path' q l Hd. unfold o.
            assert (Hne : c <> b1) by (intros ->; contradiction).
            now rewrite (under_other board board_eq_dec path0 (s_board st) b1 c path' q Hne Hd). }
        rewrite Eor.
        destruct Hr as (B5 & S5 & G5 & T5 & bm' & bc' & lg' & E5 & L5 & H5).
        split; [exact B5|split; [exact S5|split; [rewrite G5, G4, G3; reflexivity|split; [exact T5|]]]].
        exists bm', bc', lg'. split; [exact E5|]. split; [|exact H5]. rewrite L5. cbn [is_nil negb orb]. now rewrite orb_true_r.
    + (* the move leaves the king in check: taken back at once *)
      assert (B1 : s_board (do_unmake (set_board st b1) mv) = s_board st) by (apply do_unmake_board; exact Hun).
      destruct (do_unmake_frame (set_board st b1) mv) as (T1 & S1 & G1).
      assert (HSI1 : SI (do_unmake (set_board st b1) mv)).
      { split; [rewrite S1; exact Hstop|]. rewrite G1. split; assumption. }
      assert (HTR1 : TR (s_tt (do_unmake (set_board st b1) mv)) at_) by (rewrite T1; exact HTR).
      destruct (IH Hrest Hnd ispv pvm zph rd beta alpha bv bm bc lg (do_unmake (set_board st b1) mv) at_ bpv B1 HSI1 HTR1 HH)
        as (orr & Hpr & Hr).
      exists orr. split; [exact Hpr|]. cbv zeta in Hr |- *.
      destruct Hr as (B5 & S5 & G5 & T5 & Hrest').
      split; [exact B5|split; [exact S5|split; [rewrite G5, G1; reflexivity|split; [exact T5|exact Hrest']]]].
Qed.

Definition id_order (path : list board) (q : board) (l : list board) : list board := l.

Lemma node_ok_0 : node_ok 0.
Proof.
  intros ply path st a0 b0 ispv zph at_ Hg HSI HTR Hhalf Hroot.
  exists id_order. split; [intros; apply Permutation_refl|]. cbv zeta.
  cbn [negamax SearchCore.negamax_tt]. cbv zeta. rewrite rep_leaf0.
  assert (Hh : half (s_board st) < 6) by lia.
  destruct (node_prelude_refine ply 0 a0 b0 st at_ path HSI HTR Hh Hroot) as ((B3 & T3 & S3 & G3) & Hpre).
  destruct HSI as (Hstop & Hmt & Hsm).
  change (N.of_nat 0) with 0 in *.
  destruct (node_prelude T orc ply 0 a0 b0 (zobrist_hash T (s_board st)) st) as [pr st3]. cbn [fst snd] in *.
  destruct (probeC at_ 0 (s_board st) a0 b0) as [res|[alpha beta]].
  - destruct Hpre as (v & -> & Hv). cbn [fst snd].
    split; [exact B3|split; [congruence|split; [exact G3|split; [exact Hv|split; [rewrite T3; exact HTR|lia]]]]].
  - destruct (SearchCore.is_root board path && root_empty (s_board st)).
    + subst pr. cbn [fst snd vm_value leaf].
      split; [exact B3|split; [congruence|split; [exact G3|split; [reflexivity|split; [rewrite T3; exact HTR|lia]]]]].
    + destruct Hpre as (ttm & ->).
      assert (Hg3 : good (S Q) (s_board st3)) by (rewrite B3; exact Hg).
      destruct (leaf_node_refine alpha beta zph st3 Hg3) as [B4 V4].
      rewrite B3 in B4, V4.
      destruct (leaf_node_qframe T (turn (s_board st)) alpha beta zph (gen_pseudo T (s_board st)) st3) as (T4 & _ & S4 & G4).
      cbn [fst snd].
      split; [exact B4|split; [congruence|split; [congruence|split; [exact V4|split; [rewrite T4, T3; exact HTR|lia]]]]].
Qed.

Lemma children_sorted_perm b pv tt kl : Permutation (succs b) (children b (sort_moves (gen_pseudo T b) pv tt kl)).
Proof. unfold ChessGame.succs. apply children_perm, sort_moves_perm. Qed.

Lemma node_ok_S k : (k = 0%nat \/ ND) -> node_ok k -> node_ok (S k).
Proof.
  intros HND IHk ply path st a0 b0 ispv zph at_ Hg HSI HTR Hhalf Hroot.
  assert (Hh : half (s_board st) < 6) by lia.
  destruct (node_prelude_refine ply (S k) a0 b0 st at_ path HSI HTR Hh Hroot) as ((B3 & T3 & S3 & G3) & Hpre).
  assert (HSI0 := HSI). destruct HSI as (Hstop & Hmt & Hsm).
  cbn [negamax]. cbv zeta.
  destruct (node_prelude T orc ply (N.of_nat (S k)) a0 b0 (zobrist_hash T (s_board st)) st) as [pr st3] eqn:Epre.
  cbn [fst snd] in B3, T3, S3, G3, Hpre.
  destruct (probeC at_ (S k) (s_board st) a0 b0) as [res|[alpha beta]] eqn:Eprobe.
  - (* the table answers *)
    exists id_order. split; [intros; apply Permutation_refl|].
    cbn [SearchCore.negamax_tt]. rewrite rep_leaf0, Eprobe.
    destruct Hpre as (v & -> & Hv). cbn [fst snd].
    split; [exact B3|split; [congruence|split; [exact G3|split; [exact Hv|split; [rewrite T3; exact HTR|]]]]].
    intros _ n Hle Hn. rewrite (probe_miss_abs _ _ (S k) (s_board st) a0 b0 n HTR Hle Hn) in Eprobe. discriminate.
  - destruct (SearchCore.is_root board path && root_empty (s_board st)) eqn:Eroot.
    + (* root without pseudo-legal move *)
      exists id_order. split; [intros; apply Permutation_refl|].
      cbn [SearchCore.negamax_tt]. rewrite rep_leaf0, Eprobe, Eroot. subst pr. cbn [fst snd vm_value vm_mv leaf HRm].
      split; [exact B3|split; [congruence|split; [exact G3|split; [reflexivity|split; [rewrite T3; exact HTR|]]]]].
      intros; exact I.
    + destruct Hpre as (ttm & ->).
      unfold interior_node. cbv zeta.
      set (pvm := if ispv then match s_pv st3 with Some l => nth_error l (N.to_nat ply) | None => None end else None).
      set (kl := killer_get (s_killers st3) (N.of_nat (S k))).
      set (sorted := sort_moves (gen_pseudo T (s_board st)) pvm ttm kl).
      assert (Hperm : Permutation (succs (s_board st)) (children (s_board st) sorted)) by apply children_sorted_perm.
      assert (Hnd : k = 0%nat \/ NoDup (children (s_board st) sorted)).
      { destruct HND as [E|HND]; [now left|right]. eapply Permutation_NoDup; [exact Hperm|]. eapply HND. exact Hg. }
      assert (HSI3 : SI st3) by (split; [congruence|rewrite G3; split; assumption]).
      assert (HTR3 : TR (s_tt st3) at_) by (rewrite T3; exact HTR).
      destruct (nm_loop_refine k IHk path (s_board st) ply Hg Hhalf sorted
                  (fun m Hm => sort_moves_in _ _ _ _ _ Hm) Hnd ispv pvm zph (N.of_nat (S k)) beta alpha (loss_score T)
                  None None false st3 at_ [] B3 HSI3 HTR3 I) as (ol & Hpl & Hl).
      cbv zeta in Hl.
      set (o := fun (path' : list board) (q : board) (l : list board) =>
                  if Nat.eqb (length path') (length path)
                  then (if list_eq_dec board_eq_dec l (succs (s_board st)) then children (s_board st) sorted else l)
                  else ol path' q l).
      exists o. split.
      { intros path' q l. unfold o. destruct (Nat.eqb _ _); [|apply Hpl].
        destruct (list_eq_dec board_eq_dec l (succs (s_board st))) as [->|_]; [exact Hperm|apply Permutation_refl]. }
      assert (Eo : forall X al be bst pv t,
                 SearchCore.loop_tt board atable (nttC o k (s_board st :: path)) X al be bst pv t =
                 SearchCore.loop_tt board atable (nttC ol k (s_board st :: path)) X al be bst pv t).
      { intros X al be bst pv t. apply loop_tt_ext. intros c _ a be' t'. apply negamax_tt_ext. intros path' q l Hd. unfold o.
        apply desc_length in Hd. cbn [length] in Hd.
        destruct (Nat.eqb_spec (length path') (length path)) as [E|_]; [lia|reflexivity]. }
      cbn [SearchCore.negamax_tt]. rewrite rep_leaf0, Eprobe, Eroot.
      destruct Hl as (B5 & S5 & G5 & T5 & bm' & bc' & lg' & E5 & L5 & H5).
      destruct (nm_loop T (negamax T orc k (ply + 1)) sorted ispv pvm (zobrist_hash T (s_board st)) zph (N.of_nat (S k)) beta alpha
                  (loss_score T) None None false st3) as [lr st4]. cbn [fst snd] in B5, S5, G5, T5, E5. subst lr.
      destruct (succs (s_board st)) as [|c0 r0] eqn:Es.
      * (* no legal move *)
        apply Permutation_nil in Hperm. rewrite Hperm in L5, T5. cbn [is_nil negb orb] in L5. subst lg'. cbn [negb].
        cbn [SearchCore.loop_tt snd] in T5. cbn [fst snd vm_value vm_mv leaf HRm]. rewrite B5.
        split; [reflexivity|split; [exact S5|split; [congruence|split; [apply evaluate_for_terminal|split; [exact T5|]]]]].
        intros; exact I.
      * (* the move loop ran *)
        assert (Hne : children (s_board st) sorted <> []).
        { intros E. rewrite E in Hperm. apply Permutation_sym, Permutation_nil in Hperm. discriminate. }
        assert (Elg : lg' = true).
        { rewrite L5. destruct (children (s_board st) sorted); [contradiction|reflexivity]. }
        clear L5. subst lg'. cbn [negb].
        assert (Eord : o path (s_board st) (c0 :: r0) = children (s_board st) sorted).
        { unfold o. rewrite Nat.eqb_refl. destruct (list_eq_dec board_eq_dec (c0 :: r0) (c0 :: r0)); [reflexivity|contradiction]. }
        rewrite Eord, Eo. change (- W)%Z with (loss_score T).
        set (LR := SearchCore.loop_tt board atable (nttC ol k (s_board st :: path)) (children (s_board st) sorted) alpha beta
                     (loss_score T) [] at_) in *.
        rewrite is_mate_eq. unfold SearchCore.store.
        destruct (SearchCore.is_mate_score W Mx (fst (fst LR))); cbn [negb fst snd vm_value vm_mv].
        -- split; [exact B5|split; [exact S5|split; [congruence|split; [reflexivity|split; [exact T5|]]]]].
           intros; exact H5.
        -- sproj. split; [exact B5|split; [exact S5|split; [congruence|split; [reflexivity|split; [|intros; exact H5]]]]].
           apply (HR_put tt_entry aentry ER); [exact T5|].
           unfold ER. cbn [SearchCore.e_depth SearchCore.e_value SearchCore.e_type te_depth te_value te_type te_mv vm_value].
           split; [now rewrite Nat2N.id|split; [reflexivity|split; [|reflexivity]]].
           unfold SearchCore.node_type. rewrite Zgeb_leb.
           destruct (fst (fst LR) <=? a0)%Z; [reflexivity|]. destruct (beta <=? fst (fst LR))%Z; reflexivity.
Qed.

(* (c)/(d), node level: the concrete search_negamax computes the table-using mirror for some ordering oracle *)
Theorem negamax_refine K : ((K <= 1)%nat \/ ND) -> forall k, (k <= K)%nat -> node_ok k.
Proof.
  intros H. induction k as [|k IH]; intros Hk; [exact node_ok_0|].
  apply node_ok_S; [destruct H as [H|H]; [left; lia|right; exact H]|apply IH; lia].
Qed.

(* ================================================================== *)
(* Part D : iterative deepening                                        *)

Local Notation iterC oit :=
  (SearchCore.iteration board succs noisy_succs noisy_any static terminal W qmeasure order_q oit rep0 root_empty
     atable a_get a_put (zobrist_hash T) Mx).
Local Notation deepenC oit :=
  (SearchCore.deepen board succs noisy_succs noisy_any static terminal W qmeasure order_q oit rep0 root_empty
     atable a_get a_put (zobrist_hash T) Mx).
Local Notation godC oit :=
  (SearchCore.go_depth board succs noisy_succs noisy_any static terminal W qmeasure order_q oit rep0 root_empty
     atable a_get a_put (zobrist_hash T) Mx).

Definition oracle_it : Type := nat -> list board -> board -> list board -> list board.

(* the abstract table after the iterations 1 .. j *)
Fixpoint tt_at (oit : oracle_it) (root : board) (tt0 : atable) (j : nat) : atable :=
  match j with O => tt0 | S j' => snd (iterC oit (S j') root (tt_at oit root tt0 j')) end.

Lemma deepen_tt_at oit root tt0 : forall n d,
  deepenC oit n (S d) root (tt_at oit root tt0 d) = iterC oit (S d + n) root (tt_at oit root tt0 (d + n)).
Proof.
  induction n as [|n IH]; intros d; cbn [SearchCore.deepen].
  - now rewrite !Nat.add_0_r.
  - change (snd (iterC oit (S d) root (tt_at oit root tt0 d))) with (tt_at oit root tt0 (S d)).
    rewrite IH. now rewrite !Nat.add_succ_r.
Qed.

Lemma god_tt_at oit root tt0 d : godC oit (S d) root tt0 = iterC oit (S d) root (tt_at oit root tt0 d).
Proof.
  unfold SearchCore.go_depth. cbn [pred]. change tt0 with (tt_at oit root tt0 0) at 1.
  rewrite deepen_tt_at. reflexivity.
Qed.

Lemma iter_ext (o o' : oracle_it) d root tt : o d = o' d -> iterC o d root tt = iterC o' d root tt.
Proof. unfold SearchCore.iteration. now intros ->. Qed.

Lemma tt_at_ext (o o' : oracle_it) root tt0 j : (forall d, (1 <= d <= j)%nat -> o d = o' d) ->
  tt_at o root tt0 j = tt_at o' root tt0 j.
Proof.
  induction j as [|j IH]; intros H; cbn [tt_at]; [reflexivity|].
  rewrite IH by (intros d Hd; apply H; lia). rewrite (iter_ext o o' (S j)) by (apply H; lia). reflexivity.
Qed.

(* one iteration of `best_move` *)
Lemma id_step_refine a at_ :
  node_ok (id_fuel a) -> SI (id_st a) -> TR (s_tt (id_st a)) at_ -> good (id_fuel a + S Q) (s_board (id_st a)) ->
  half (s_board (id_st a)) + N.of_nat (id_fuel a) < 6 ->
  exists o, (forall path' q l, Permutation l (o path' q l)) /\
    let R := nttC o (id_fuel a) [] (s_board (id_st a)) (- W)%Z W at_ in
    let a' := id_next T orc None a in
    (exists it, id_log a' = it :: id_log a /\ it_depth it = id_depth a /\ vm_value (it_result it) = fst (fst R) /\
       it_aborted it = (match vm_mv (it_result it) with Some _ => false | None => true end) /\
       ((1 <= id_fuel a)%nat -> forall n, tt_le n (s_tt (id_st a)) -> n < N.of_nat (id_fuel a) ->
          HRm (s_board (id_st a)) (vm_mv (it_result it)) (snd (fst R)))) /\
    id_fuel a' = S (id_fuel a) /\ id_depth a' = id_depth a + 1 /\
    s_board (id_st a') = s_board (id_st a) /\ SI (id_st a') /\ TR (s_tt (id_st a')) (snd R) /\
    (forall n, N.of_nat (id_fuel a) <= n -> tt_le n (s_tt (id_st a)) -> tt_le n (s_tt (id_st a'))).
Proof.
  intros Hok HSI HTR Hg Hh.
  destruct (Hok 0 [] (id_st a) (loss_score T) (win_score T)
              (match s_pv (id_st a) with Some _ => true | None => false end) (pawn_hash T (s_board (id_st a))) at_
              Hg HSI HTR Hh eq_refl) as (o & Hpo & Hr).
  exists o. split; [exact Hpo|]. cbv zeta in Hr |- *.
  change (loss_score T) with (- W)%Z in Hr. change (win_score T) with W in Hr.
  assert (Hinv : forall n, N.of_nat (id_fuel a) <= n -> tt_le n (s_tt (id_st a)) ->
            tt_le n (s_tt (snd (negamax T orc (id_fuel a) 0 (- W)%Z W (match s_pv (id_st a) with Some _ => true | None => false end)
                                    (zobrist_hash T (s_board (id_st a))) (pawn_hash T (s_board (id_st a))) (id_st a))))).
  { intros n Hn. exact (proj2 (negamax_inv2 T orc n (id_fuel a) 0 (- W)%Z W _ _ _ (id_st a) Hn)). }
  destruct Hr as (B1 & S1 & G1 & V1 & T1 & H1).
  destruct HSI as (Hstop & Hmt & Hsm).
  unfold id_next, id_step. cbv zeta.
  change (loss_score T) with (- W)%Z. change (win_score T) with W.
  destruct (negamax T orc (id_fuel a) 0 (- W)%Z W (match s_pv (id_st a) with Some _ => true | None => false end)
              (zobrist_hash T (s_board (id_st a))) (pawn_hash T (s_board (id_st a))) (id_st a)) as [current st1].
  cbn [fst snd] in B1, S1, G1, V1, T1, H1, Hinv.
  unfold generate_info, read_clock. cbv beta iota zeta. sproj. rewrite S1. cbn [orb].
  destruct (vm_mv current) as [mv0|] eqn:Emv;
    cbn [negb orb]; cbv beta iota zeta; sproj; cbn [un id_log id_fuel id_depth id_st]; sproj;
    (split; [eexists; split; [reflexivity|]; cbn [it_depth it_result it_aborted]; rewrite ?Emv;
             split; [reflexivity|split; [exact V1|split; [reflexivity|exact H1]]]|]);
    (split; [reflexivity|split; [reflexivity|split; [exact B1|split; [|split; [exact T1|exact Hinv]]]]]);
    (unfold SI; sproj; split; [exact S1|rewrite G1; split; assumption]).
Qed.


(* what is known after the iterations recorded in the log: [root], [tt0] and the bound [D] are fixed *)
Definition log_ok (D : nat) (root : board) (tt0 : atable) (oit : oracle_it) (j : nat) (it : iter_rec) : Prop :=
  exists d, it_depth it = N.of_nat (S d) /\ (S d <= j)%nat /\
    it_aborted it = (match vm_mv (it_result it) with Some _ => false | None => true end) /\
    let R := iterC oit (S d) root (tt_at oit root tt0 d) in
    vm_value (it_result it) = fst (fst R) /\ HRm root (vm_mv (it_result it)) (snd (fst R)).

Definition loop_ok (D : nat) (root : board) (tt0 : atable) (a : idstate) : Prop :=
  (length (id_log a) <= D)%nat ->
  exists oit : oracle_it, (forall d path q l, Permutation l (oit d path q l)) /\
    id_fuel a = S (length (id_log a)) /\ id_depth a = N.of_nat (S (length (id_log a))) /\
    s_board (id_st a) = root /\ SI (id_st a) /\
    TR (s_tt (id_st a)) (tt_at oit root tt0 (length (id_log a))) /\
    tt_le (N.of_nat (length (id_log a))) (s_tt (id_st a)) /\
    (match id_log a with [] => True | it :: _ => it_depth it = N.of_nat (length (id_log a)) end) /\
    Forall (log_ok D root tt0 oit (length (id_log a))) (id_log a).

Lemma loop_ok_step D root tt0 a :
  (forall k, (k <= D)%nat -> node_ok k) -> good (D + S Q) root -> half root + N.of_nat D < 6 ->
  loop_ok D root tt0 a -> loop_ok D root tt0 (id_next T orc None a).
Proof.
  intros Hok Hg Hh Ha Hlen.
  assert (Hlog : exists it, id_log (id_next T orc None a) = it :: id_log a).
  { destruct (C03_family_empty T) as (E1 & E2 & E3).
    pose proof (id_step_spec T _ _ E1 E2 E3 orc None a) as Hs. cbv zeta in Hs.
    destruct Hs as ((it & Hl & _) & _). exists it. exact Hl. }
  destruct Hlog as (it0 & Hlog0). rewrite Hlog0 in Hlen. cbn [length] in Hlen.
  destruct Ha as (oit & Hp & Hf & Hd & Hb & HSI & HTR & Hle & _ & Hall); [lia|].
  set (j := length (id_log a)) in *.
  assert (Hg' : good (id_fuel a + S Q) (s_board (id_st a))).
  { rewrite Hf, Hb. eapply good_le'; [|exact Hg]. lia. }
  assert (Hh' : half (s_board (id_st a)) + N.of_nat (id_fuel a) < 6) by (rewrite Hf, Hb; lia).
  assert (Hokj : node_ok (id_fuel a)) by (apply Hok; rewrite Hf; lia).
  destruct (id_step_refine a (tt_at oit root tt0 j) Hokj HSI HTR Hg' Hh') as (o & Hpo & Hr).
  cbv zeta in Hr. destruct Hr as ((it & Hl & Hdep & Hv & Hab & HH) & Hf' & Hd' & Hb' & HSI' & HTR' & Hinv).
  rewrite Hf, Hb in *.
  set (oit' := fun d : nat => if Nat.eqb d (S j) then o else oit d).
  assert (Eold : forall d, (1 <= d <= j)%nat -> oit d = oit' d).
  { intros d Hdj. unfold oit'. destruct (Nat.eqb_spec d (S j)); [lia|reflexivity]. }
  assert (Enew : oit' (S j) = o) by (unfold oit'; now rewrite Nat.eqb_refl).
  assert (Ett : forall d, (d <= j)%nat -> tt_at oit' root tt0 d = tt_at oit root tt0 d).
  { intros d Hdj. symmetry. apply tt_at_ext. intros d' Hd'j. apply Eold. lia. }
  assert (Eit : iterC oit' (S j) root (tt_at oit' root tt0 j) = nttC o (S j) [] root (- W)%Z W (tt_at oit root tt0 j)).
  { rewrite Ett by lia. unfold SearchCore.iteration. now rewrite Enew. }
  exists oit'. rewrite Hl. cbn [length]. fold j.
  split; [intros d path q l; unfold oit'; destruct (Nat.eqb d (S j)); [apply Hpo|apply Hp]|].
  split; [exact Hf'|]. split; [rewrite Hd', Hd, !Nat2N.inj_succ; lia|].
  split; [exact Hb'|]. split; [exact HSI'|].
  split; [cbn [tt_at]; rewrite Eit; exact HTR'|].
  split.
  { apply Hinv; [lia|]. eapply tt_le_mono; [|exact Hle]. lia. }
  split; [rewrite Hdep; exact Hd|].
  constructor.
  - exists j. split; [rewrite Hdep; exact Hd|]. split; [lia|]. split; [exact Hab|]. cbv zeta. rewrite Eit. split; [exact Hv|].
    apply (HH ltac:(lia) (N.of_nat j)); [exact Hle|lia].
  - eapply Forall_impl; [|exact Hall]. intros it' (d & H1 & H2 & H2' & H3). exists d. split; [exact H1|]. split; [lia|]. split; [exact H2'|].
    cbv zeta in H3 |- *. rewrite Ett by lia. rewrite <- (iter_ext oit oit' (S d)) by (apply Eold; lia). exact H3.
Qed.

Lemma try_set_pv_stop st : s_stop (try_set_pv_from_continuation st) = s_stop st.
Proof.
  unfold try_set_pv_from_continuation.
  repeat (match goal with |- context [match ?x with _ => _ end] => destruct x end); reflexivity.
Qed.

Lemma calc_time_none st : g_wtime (s_go st) = None -> g_btime (s_go st) = None -> calculate_max_thinking_time st = None.
Proof. intros H1 H2. unfold calculate_max_thinking_time. rewrite H1, H2. destruct (turn (s_board st) =? WHITE); reflexivity. Qed.

Definition tt0_of (st : sstate) : atable := HashTable.new aentry (HashTable.cap tt_entry (s_tt st)).

Lemma best_move_refine st D :
  (forall k, (k <= D)%nat -> node_ok k) -> s_stop st = false -> g_movetime (s_go st) = None -> g_wtime (s_go st) = None -> g_btime (s_go st) = None ->
  g_searchmoves (s_go st) = [] ->
  good (D + S Q) (s_board st) -> half (s_board st) + N.of_nat D < 6 ->
  let log := snd (fst (best_move T orc st)) in
  (length log <= D)%nat ->
  (exists oit : oracle_it, (forall d path q l, Permutation l (oit d path q l)) /\
    Forall (log_ok D (s_board st) (tt0_of st) oit (length log)) log) /\
  (match log with [] => True | it :: _ => it_depth it = N.of_nat (length log) end).
Proof.
  intros Hok Hstop Hmt Hw Hb Hsm Hg Hh. unfold best_move. cbv zeta.
  set (st1 := set_killers _ _).
  set (st2 := if s_try_prev_pv st1 then try_set_pv_from_continuation st1 else st1).
  assert (F2 : s_board st2 = s_board st /\ s_go st2 = s_go st /\ s_tt st2 = HashTable.clear tt_entry (s_tt st) /\ s_stop st2 = false).
  { subst st2. destruct (s_try_prev_pv st1); [|repeat split; assumption].
    destruct (try_set_pv_frame st1) as (B & _ & G & TT). rewrite (try_set_pv_stop st1). repeat split; assumption. }
  destruct F2 as (B2 & G2 & T2 & S2).
  assert (Hmt2 : g_movetime (s_go st2) = None) by (rewrite G2; exact Hmt).
  rewrite Hmt2. rewrite (calc_time_none st2) by (rewrite G2; assumption). cbn [option_map].
  set (st3 := set_go st2 (set_movetime (s_go st2) None)).
  assert (F3 : s_board st3 = s_board st /\ SI st3 /\ s_tt st3 = HashTable.clear tt_entry (s_tt st)).
  { subst st3. sproj. split; [exact B2|]. split; [|exact T2]. unfold SI. sproj. cbn [g_movetime g_searchmoves set_movetime].
    rewrite G2. repeat split; assumption. }
  destruct F3 as (B3 & HSI3 & T3).
  assert (Hmt3 : g_movetime (s_go st3) = None) by reflexivity. rewrite Hmt3.
  set (a0 := {| id_depth := 1; id_fuel := 1; id_best := None; id_uci_pv := None; id_score := None; id_log := []; id_st := st3 |}).
  set (p := match match g_depth (s_go st2) with Some dd => N.max dd 1 | None => 999999 end with Npos p => p | N0 => xH end).
  assert (I0 : loop_ok D (s_board st) (tt0_of st) a0).
  { intros _. exists (fun _ => id_order). split; [intros; apply Permutation_refl|]. cbn [a0 id_log id_fuel id_depth id_st length tt_at].
    split; [reflexivity|]. split; [reflexivity|]. split; [exact B3|]. split; [exact HSI3|].
    split; [rewrite T3; split; [reflexivity|split; [reflexivity|constructor]]|]. split; [rewrite T3; apply tt_le_clear|]. split; [exact I|constructor]. }
  pose proof (iter_until_ind (loop_ok D (s_board st) (tt0_of st)) (loop_ok D (s_board st) (tt0_of st))
                (id_step T orc None)) as HL.
  specialize (HL (fun a Ha => ltac:(
     pose proof (loop_ok_step D (s_board st) (tt0_of st) a Hok Hg Hh Ha) as Hn; unfold id_next in Hn;
     destruct (id_step T orc None a); exact Hn)) p a0 I0).
  unfold read_clock. cbv beta iota zeta.
  set (fin := match iter_until p (id_step T orc None) a0 with inl a => a | inr a => a end) in *.
  assert (Hfin : loop_ok D (s_board st) (tt0_of st) fin).
  { subst fin. destruct (iter_until p (id_step T orc None) a0); exact HL. }
  cbn [fst snd]. intros Hlen. destruct (Hfin Hlen) as (oit & Hp & _ & _ & _ & _ & _ & _ & Hhd & Hall).
  split; [exists oit; split; [exact Hp|exact Hall]|exact Hhd].
Qed.

(* how many iterations run: all of them, unless one is aborted *)
Lemma iter_until_count (step : idstate -> idstate + idstate) :
  (forall a, match step a with
             | inl a' => exists it, id_log a' = it :: id_log a
             | inr b => exists it, id_log b = it :: id_log a /\ it_aborted it = true
             end) ->
  forall p a, match iter_until p step a with
              | inl a' => length (id_log a') = (length (id_log a) + Pos.to_nat p)%nat
              | inr b => exists it r, id_log b = it :: r /\ it_aborted it = true
              end.
Proof.
  intros Hs. induction p as [q IH|q IH|]; intros a; cbn [iter_until].
  - pose proof (Hs a) as H0. destruct (step a) as [a1|b1]; [|destruct H0 as (it & E & A); now exists it, (id_log a)].
    destruct H0 as (it0 & E0). pose proof (IH a1) as H1. destruct (iter_until q step a1) as [a2|b2]; [|exact H1].
    pose proof (IH a2) as H2. destruct (iter_until q step a2) as [a3|b3]; [|exact H2].
    rewrite H2, H1, E0, Pos2Nat.inj_xI. cbn [length]. lia.
  - pose proof (IH a) as H1. destruct (iter_until q step a) as [a1|b1]; [|exact H1].
    pose proof (IH a1) as H2. destruct (iter_until q step a1) as [a2|b2]; [|exact H2].
    rewrite H2, H1, Pos2Nat.inj_xO. lia.
  - pose proof (Hs a) as H0. destruct (step a) as [a1|b1].
    + destruct H0 as (it & E). rewrite E. cbn [length]. lia.
    + destruct H0 as (it & E & A). now exists it, (id_log a).
Qed.

Lemma id_step_log a :
  match id_step T orc None a with
  | inl a' => exists it, id_log a' = it :: id_log a
  | inr b => exists it, id_log b = it :: id_log a /\ it_aborted it = true
  end.
Proof.
  unfold id_step. cbv zeta.
  destruct (negamax T orc (id_fuel a) 0 (loss_score T) (win_score T) (match s_pv (id_st a) with Some _ => true | None => false end)
              (zobrist_hash T (s_board (id_st a))) (pawn_hash T (s_board (id_st a))) (id_st a)) as [current st1].
  unfold generate_info, read_clock. cbv beta iota zeta. sproj.
  destruct (s_stop st1 || match vm_mv current with Some _ => false | None => true end);
    cbn [negb orb]; cbv beta iota zeta; sproj; cbn [id_log]; eexists; [split|]; reflexivity.
Qed.

(* a `go depth dd` whose newest iteration is not aborted has run max(dd,1) iterations *)
Lemma best_move_full_length st dd :
  g_movetime (s_go st) = None -> g_wtime (s_go st) = None -> g_btime (s_go st) = None -> g_depth (s_go st) = Some dd ->
  let log := snd (fst (best_move T orc st)) in
  (forall it r, log = it :: r -> it_aborted it = false) ->
  length log = Pos.to_nat (match N.max dd 1 with Npos q => q | N0 => xH end).
Proof.
  intros Hmt Hw Hb Hd. unfold best_move. cbv zeta.
  set (st1 := set_killers _ _).
  set (st2 := if s_try_prev_pv st1 then try_set_pv_from_continuation st1 else st1).
  assert (G2 : s_go st2 = s_go st).
  { subst st2. destruct (s_try_prev_pv st1); [|reflexivity]. destruct (try_set_pv_frame st1) as (_ & _ & G & _). exact G. }
  assert (Hmt2 : g_movetime (s_go st2) = None) by (rewrite G2; exact Hmt).
  rewrite Hmt2. rewrite (calc_time_none st2) by (rewrite G2; assumption). cbn [option_map].
  set (st3 := set_go st2 (set_movetime (s_go st2) None)).
  assert (Hmt3 : g_movetime (s_go st3) = None) by reflexivity. rewrite Hmt3. rewrite G2, Hd.
  set (a0 := {| id_depth := 1; id_fuel := 1; id_best := None; id_uci_pv := None; id_score := None; id_log := []; id_st := st3 |}).
  set (p := match N.max dd 1 with Npos q => q | N0 => xH end).
  pose proof (iter_until_count (id_step T orc None) id_step_log p a0) as HC.
  unfold read_clock. cbv beta iota zeta. cbn [fst snd].
  destruct (iter_until p (id_step T orc None) a0) as [x|x]; intros Hna.
  - rewrite HC. reflexivity.
  - destruct HC as (it & r & E & A). rewrite (Hna it r E) in A. discriminate.
Qed.

Lemma reset_for_go_facts st :
  s_board (reset_for_go st) = s_board st /\ s_go (reset_for_go st) = s_go st /\ s_stop (reset_for_go st) = false /\
  tt0_of (reset_for_go st) = tt0_of st.
Proof. unfold reset_for_go, tt0_of. destruct (s_reset_next st); sproj; repeat split; reflexivity. Qed.

(* the whole `go`: every iteration recorded in the log computed the abstract iteration of its depth, on the abstract
   table left by the iterations before it *)
Definition rec_ok (D : nat) (root : board) (tt0 : atable) (oit : oracle_it) (it : iter_rec) : Prop :=
  exists d, it_depth it = N.of_nat (S d) /\ (S d <= D)%nat /\
    it_aborted it = (match vm_mv (it_result it) with Some _ => false | None => true end) /\
    let R := godC oit (S d) root tt0 in
    vm_value (it_result it) = fst (fst R) /\ HRm root (vm_mv (it_result it)) (snd (fst R)).

Theorem go_refine g st D :
  (forall k, (k <= D)%nat -> node_ok k) ->
  g_movetime g = None -> g_wtime g = None -> g_btime g = None -> g_searchmoves g = [] ->
  good (D + S Q) (s_board st) -> half (s_board st) + N.of_nat D < 6 ->
  (length (fst (go_full T orc g st)) <= D)%nat ->
  (exists oit : oracle_it, (forall d path q l, Permutation l (oit d path q l)) /\
     Forall (rec_ok D (s_board st) (tt0_of st) oit) (fst (go_full T orc g st))) /\
  (match fst (go_full T orc g st) with [] => True | it :: _ => it_depth it = N.of_nat (length (fst (go_full T orc g st))) end).
Proof.
  intros Hok Hmt Hw Hb Hsm Hg Hh. unfold go_full. cbv zeta.
  set (st0 := set_reads (set_drains (set_go st g) 0) 0).
  destruct (reset_for_go_facts st0) as (B1 & G1 & S1 & E1).
  change (s_board st0) with (s_board st) in B1. change (s_go st0) with g in G1. change (tt0_of st0) with (tt0_of st) in E1.
  pose proof (best_move_refine (reset_for_go st0) D Hok S1) as HB.
  rewrite G1, B1, E1 in HB. specialize (HB Hmt Hw Hb Hsm Hg Hh). cbv zeta in HB.
  destruct (best_move T orc (reset_for_go st0)) as [[[bm pm] log] st2]. cbn [fst snd] in HB |- *.
  intros Hlen. destruct (HB Hlen) as ((oit & Hp & Hall) & Hhd). split; [|exact Hhd]. exists oit. split; [exact Hp|].
  eapply Forall_impl; [|exact Hall]. intros it (d & H1 & H2 & H2' & H3). exists d. split; [exact H1|]. split; [lia|]. split; [exact H2'|].
  cbv zeta in H3 |- *. rewrite god_tt_at. exact H3.
Qed.

Lemma go_full_length g st dd :
  g_movetime g = None -> g_wtime g = None -> g_btime g = None -> g_depth g = Some dd ->
  (forall it r, fst (go_full T orc g st) = it :: r -> it_aborted it = false) ->
  length (fst (go_full T orc g st)) = Pos.to_nat (match N.max dd 1 with Npos q => q | N0 => xH end).
Proof.
  intros Hmt Hw Hb Hd. unfold go_full. cbv zeta.
  set (st0 := set_reads (set_drains (set_go st g) 0) 0).
  destruct (reset_for_go_facts st0) as (_ & G1 & _ & _). change (s_go st0) with g in G1.
  pose proof (best_move_full_length (reset_for_go st0) dd) as HB. rewrite G1 in HB. specialize (HB Hmt Hw Hb Hd). cbv zeta in HB.
  destruct (best_move T orc (reset_for_go st0)) as [[[bm pm] log] st2]. cbn [fst snd] in HB |- *. exact HB.
Qed.

(* ================================================================== *)
(* transfer of the abstract exactness theorems                         *)
Section Transfer.
Hypothesis static_bound : forall p, (- W < static p < W)%Z.

(* "every position without legal move within d plies has a terminal value strictly inside (loss, win)" *)
Fixpoint inb (d : nat) (b : board) : Prop :=
  (succs b = [] -> (- W < terminal b < W)%Z) /\
  match d with O => True | S k => forall q, In q (succs b) -> inb k q end.

Lemma inb_step : forall k p q, inb (S k) p -> In q (succs p) -> inb k q.
Proof. intros k p q [_ H] Hq. now apply H. Qed.
Lemma inb_terminal : forall d p, inb d p -> succs p = [] -> (- W < terminal p < W)%Z.
Proof. intros d p H. destruct d; now destruct H. Qed.
Lemma inb_le : forall d p, inb (S d) p -> inb d p.
Proof.
  induction d as [|d IH]; intros p [H1 H2]; cbn [inb]; (split; [exact H1|]); [exact I|].
  intros q Hq. apply IH. now apply H2.
Qed.
Lemma inb_le' d d' p : (d <= d')%nat -> inb d' p -> inb d p.
Proof. induction 1 as [|k _ IH]; [tauto|]. intros H. apply IH. now apply inb_le. Qed.

Local Notation nmC := (Minimax.nm board succs noisy_succs noisy_any static terminal qmeasure).

Lemma tt0_empty st : forall k, a_get (tt0_of st) k = None.
Proof. reflexivity. Qed.

Lemma HRm_cons b bm q rest : HRm b bm (q :: rest) -> exists m, bm = Some m /\ make b m = Some q.
Proof. exact (fun H => H). Qed.

Definition depth_of (dd : N) : nat := Pos.to_nat (match N.max dd 1 with Npos q => q | N0 => xH end).

Lemma depth_of_pos dd : (1 <= depth_of dd)%nat.
Proof. unfold depth_of. lia. Qed.

(* what is reported for one iteration: the exact value of its depth, and a move attaining it *)
Definition exact_rec (root : board) (d : nat) (it : iter_rec) : Prop :=
  it_depth it = N.of_nat (S d) /\ vm_value (it_result it) = nmC (S d) root /\
  (succs root <> [] -> it_aborted it = false /\
     exists m q, vm_mv (it_result it) = Some m /\ make root m = Some q /\ In q (succs root) /\ (- nmC d q)%Z = nmC (S d) root).

(* every iteration is exact => when there is a legal move, `go depth dd` runs all its iterations *)
Lemma all_exact_full g st dd :
  g_movetime g = None -> g_wtime g = None -> g_btime g = None -> g_depth g = Some dd ->
  Forall (fun it => exists d, (S d <= depth_of dd)%nat /\ exact_rec (s_board st) d it) (fst (go_full T orc g st)) ->
  (match fst (go_full T orc g st) with [] => True | it :: _ => it_depth it = N.of_nat (length (fst (go_full T orc g st))) end) ->
  succs (s_board st) <> [] ->
  exists it rest, fst (go_full T orc g st) = it :: rest /\ exact_rec (s_board st) (pred (depth_of dd)) it.
Proof.
  intros Hmt Hw Hb Hd Hall Hhd Hne.
  assert (Hlen : length (fst (go_full T orc g st)) = depth_of dd).
  { apply go_full_length; try assumption. intros it r E. rewrite E in Hall. inversion Hall as [|? ? (d & _ & _ & _ & H) _]; subst.
    now destruct (H Hne). }
  pose proof (depth_of_pos dd) as Hpos.
  destruct (fst (go_full T orc g st)) as [|it rest] eqn:E; [cbn [length] in Hlen; lia|].
  exists it, rest. split; [reflexivity|]. inversion Hall as [|? ? (d & Hd1 & Hex) _]; subst.
  rewrite Hlen in Hhd. destruct Hex as (Hdep & Hrest). rewrite Hdep in Hhd. apply Nat2N.inj in Hhd.
  replace (pred (depth_of dd)) with d by lia. split; [exact Hdep|exact Hrest].
Qed.

(* (c) `go depth 1`: no hypothesis on position keys, none on the injectivity of make *)
Theorem depth1_concrete g st :
  g_depth g = Some 1 -> g_movetime g = None -> g_wtime g = None -> g_btime g = None -> g_searchmoves g = [] ->
  good (1 + S Q) (s_board st) -> half (s_board st) < 5 ->
  root_empty (s_board st) = false -> inb 1 (s_board st) ->
  Forall (exact_rec (s_board st) 0) (fst (go_full T orc g st)) /\
  (succs (s_board st) <> [] -> exists it, fst (go_full T orc g st) = [it] /\ exact_rec (s_board st) 0 it).
Proof.
  intros Hd Hmt Hw Hb Hsm Hg Hh Hre Hinb.
  pose proof (go_full_len T good Q inverse good_mono qfuel_bound orc g st 1 Hd) as Hlen. change (Pos.to_nat _) with 1%nat in Hlen.
  destruct (go_refine g st 1 (negamax_refine 1 (or_introl (le_n 1))) Hmt Hw Hb Hsm Hg) as ((oit & Hp & Hall) & Hhd);
    [change (N.of_nat 1) with 1; lia|exact Hlen|].
  assert (HF : Forall (exact_rec (s_board st) 0) (fst (go_full T orc g st))).
  { eapply Forall_impl; [|exact Hall]. intros it (d & H1 & H2 & Hab & H3). assert (d = 0%nat) by lia. subst d.
    cbv zeta in H3. destruct H3 as [V HH]. split; [exact H1|].
    unfold SearchCore.go_depth in V, HH. cbn [pred SearchCore.deepen] in V, HH. unfold SearchCore.iteration in V, HH.
    rewrite (negamax_tt_1_empty board succs noisy_succs noisy_any static terminal W qmeasure order_q rep0 root_empty
               atable a_get a_put (zobrist_hash T) Mx (oit 1%nat) (s_board st) (- W)%Z W (tt0_of st) (tt0_empty st)) in V, HH.
    destruct (AlphaBeta.root_exact board succs noisy_succs noisy_any static terminal qmeasure W Hdec order_q order_q_perm
                (oit 1%nat) (Hp 1%nat) rep0 root_empty (fun _ _ => eq_refl) static_bound inb inb_step inb_terminal
                1%nat (s_board st) Hre Hinb) as [Ev _].
    split; [rewrite V; exact Ev|]. intros Hne.
    destruct (AlphaBeta.root_best_move board succs noisy_succs noisy_any static terminal qmeasure W Hdec order_q order_q_perm
                (oit 1%nat) (Hp 1%nat) rep0 root_empty (fun _ _ => eq_refl) static_bound inb inb_step inb_terminal
                0%nat (s_board st) Hre Hinb Hne) as (q & pv' & E1 & E2 & E3 & _).
    rewrite E1 in HH. destruct (HRm_cons _ _ _ _ HH) as (m & Hm & Hmk). rewrite Hab, Hm. split; [reflexivity|].
    exists m, q. repeat split; assumption. }
  split; [exact HF|]. intros Hne.
  destruct (all_exact_full g st 1 Hmt Hw Hb Hd) as (it & rest & E & Hex); [|exact Hhd|exact Hne|].
  { eapply Forall_impl; [|exact HF]. intros it H. exists 0%nat. split; [unfold depth_of; cbn; lia|exact H]. }
  exists it. split; [|exact Hex]. rewrite E in Hlen |- *. destruct rest; [reflexivity|cbn [length] in Hlen; lia].
Qed.

(* (d) `go depth dd` *)
Variable sim : nat -> board -> board -> Prop.
Hypothesis sim_nm : forall r' r x y, sim r' x y -> (r <= r')%nat -> nmC r x = nmC r y.
Hypothesis sim_le : forall r r' x y, (r <= r')%nat -> sim r' x y -> sim r x y.

Theorem go_depth_concrete g st dd :
  g_depth g = Some dd ->
  ((depth_of dd <= 1)%nat \/ ND) ->
  g_movetime g = None -> g_wtime g = None -> g_btime g = None -> g_searchmoves g = [] ->
  good (depth_of dd + S Q) (s_board st) -> half (s_board st) + N.of_nat (depth_of dd) < 6 ->
  Minimax.ply_unique board succs (zobrist_hash T) sim (depth_of dd) (s_board st) ->
  root_empty (s_board st) = false -> inb (depth_of dd) (s_board st) ->
  Forall (fun it => exists d, (S d <= depth_of dd)%nat /\ exact_rec (s_board st) d it) (fst (go_full T orc g st)) /\
  (succs (s_board st) <> [] ->
     exists it rest, fst (go_full T orc g st) = it :: rest /\ exact_rec (s_board st) (pred (depth_of dd)) it).
Proof.
  intros Hd HND Hmt Hw Hb Hsm Hg Hh HU Hre Hinb. set (D := depth_of dd) in *.
  pose proof (go_full_len T good Q inverse good_mono qfuel_bound orc g st dd Hd) as Hlen. fold (depth_of dd) in Hlen. fold D in Hlen.
  destruct (go_refine g st D (negamax_refine D HND) Hmt Hw Hb Hsm Hg Hh Hlen) as ((oit & Hp & Hall) & Hhd).
  assert (HF : Forall (fun it => exists d, (S d <= D)%nat /\ exact_rec (s_board st) d it) (fst (go_full T orc g st))).
  { eapply Forall_impl; [|exact Hall]. intros it (d & H1 & H2 & Hab & H3). exists d. split; [exact H2|]. split; [exact H1|].
    cbv zeta in H3. destruct H3 as [V HH].
    assert (HU' : Minimax.ply_unique board succs (zobrist_hash T) sim (S d) (s_board st)).
    { intros i j x y Hi Hj Hx Hy Hk. destruct (HU i j x y ltac:(lia) ltac:(lia) Hx Hy Hk) as [E S']. split; [exact E|].
      eapply sim_le; [|exact S']. lia. }
    destruct (AlphaBetaInst.go_depth_exact board succs noisy_succs noisy_any static terminal qmeasure W Hdec order_q order_q_perm
                rep0 root_empty (fun _ _ => eq_refl) atable a_get a_put (zobrist_hash T) Mx a_put_spec static_bound
                inb inb_step inb_terminal (s_board st) sim sim_nm sim_le oit Hp (S d) (tt0_of st) ltac:(lia) HU' (tt0_empty st) Hre
                (inb_le' (S d) D _ H2 Hinb)) as [Ev Hbm].
    split; [rewrite V; exact Ev|]. intros Hne.
    destruct (Hbm Hne) as (q & rest & k & Ek & E1 & E2 & E3). injection Ek as <-.
    rewrite E1 in HH. destruct (HRm_cons _ _ _ _ HH) as (m & Hm & Hmk). rewrite Hab, Hm. split; [reflexivity|].
    exists m, q. repeat split; assumption. }
  split; [exact HF|]. intros Hne. exact (all_exact_full g st dd Hmt Hw Hb Hd HF Hhd Hne).
Qed.

End Transfer.
End Refine.

(* ================================================================== *)
(* closed forms: the hypotheses packaged as in Proofs/SearchProofs.v (C03_family), the static evaluation instantiated *)

(* the engine's static evaluation saturated into (loss_score, win_score): equal to it wherever it is in range *)
Definition static_sat (T : Tables.t) (b : board) : Z :=
  Z.max (- (win_score T - 1)) (Z.min (win_score T - 1) (ChessGame.static T b)).

Lemma static_sat_bound T : (0 < win_score T)%Z -> forall b, (- W T < static_sat T b < W T)%Z.
Proof. intros H b. unfold static_sat, W. lia. Qed.

Lemma static_sat_eq T b : (- win_score T < ChessGame.static T b < win_score T)%Z -> static_sat T b = ChessGame.static T b.
Proof. intros H. unfold static_sat. lia. Qed.

(* an oracle that never interrupts the search *)
Definition quiet (orc : oracle) : Prop := abort_at orc = None /\ forall k, inbox orc k = [].
(* `go depth ..` without time control and without `searchmoves` *)
Definition plain_go (g : go_params) : Prop :=
  g_movetime g = None /\ g_wtime g = None /\ g_btime g = None /\ g_searchmoves g = [].

Section Closed.
Variable T : Tables.t.
Hypothesis HT : ZobristProofs.gen_masks_ok T = true.
Variable good : nat -> board -> Prop.
Variable Q : nat.
Hypothesis HF : C03_family T good Q.
Hypothesis good_sane : forall n b, good n b -> sane b = true.

Local Notation succs := (ChessGame.succs T).
Local Notation noisy_succs := (ChessGame.noisy_succs T).
Local Notation noisy_any := (ChessGame.noisy_any T).
Local Notation terminal := (ChessGame.terminal T).

(* (a) *)
Theorem quiescence_refines_closed : forall fuel alpha beta zph st,
  good fuel (s_board st) -> (qmeasure (s_board st) < fuel)%nat ->
  vm_value (fst (quiescence T fuel alpha beta zph st)) =
  fst (SearchCore.qs_ab board noisy_succs (ChessGame.static T) (order_q T) (qmeasure (s_board st)) (s_board st) alpha beta).
Proof.
  destruct HF as (H1 & _ & _). intros. apply (quiescence_refines T HT good H1 good_sane (ChessGame.static T) (fun _ _ _ => eq_refl)); assumption.
Qed.

Theorem quiescence_concrete_closed : forall fuel alpha beta zph st,
  good fuel (s_board st) -> (qmeasure (s_board st) < fuel)%nat -> (alpha < beta)%Z ->
  vm_value (fst (quiescence T fuel alpha beta zph st)) =
  AlphaBeta.clamp alpha beta (Minimax.qs board noisy_succs (ChessGame.static T) qmeasure (s_board st)).
Proof.
  destruct HF as (H1 & _ & _). intros. apply (quiescence_concrete T HT good H1 good_sane (ChessGame.static T) (fun _ _ _ => eq_refl)); assumption.
Qed.

(* (b) *)
Theorem leaf_node_refines_closed : forall alpha beta zph st,
  good (S Q) (s_board st) ->
  vm_value (fst (leaf_node T (turn (s_board st)) alpha beta zph (gen_pseudo T (s_board st)) st)) =
  fst (SearchCore.horizon_ab board succs noisy_succs noisy_any (ChessGame.static T) terminal qmeasure (order_q T) (s_board st) alpha beta).
Proof.
  destruct HF as (H1 & H2 & H3). intros alpha beta zph st Hg.
  exact (proj2 (leaf_node_refine T HT good Q H1 H2 H3 good_sane (ChessGame.static T) (fun _ _ _ => eq_refl) alpha beta zph st Hg)).
Qed.

Theorem leaf_node_concrete_closed : forall alpha beta zph st,
  good (S Q) (s_board st) ->
  (alpha < Minimax.horizon board succs noisy_succs noisy_any (ChessGame.static T) terminal qmeasure (s_board st) < beta)%Z ->
  vm_value (fst (leaf_node T (turn (s_board st)) alpha beta zph (gen_pseudo T (s_board st)) st)) =
  Minimax.horizon board succs noisy_succs noisy_any (ChessGame.static T) terminal qmeasure (s_board st).
Proof.
  destruct HF as (H1 & H2 & H3). intros.
  apply (leaf_node_concrete T HT good Q H1 H2 H3 good_sane (ChessGame.static T) (fun _ _ _ => eq_refl)); assumption.
Qed.

(* (c), (d) *)
Hypothesis HK : ZobristProofs.keys_rows_ok T = true.
Hypothesis HW : (0 < win_score T)%Z.
(* on the boards of the search the static evaluation is strictly inside (loss_score, win_score) *)
Hypothesis good_static : forall n b, good n b -> (- win_score T < ChessGame.static T b < win_score T)%Z.

Local Notation stat := (static_sat T).
Local Notation nmC := (Minimax.nm board succs noisy_succs noisy_any stat terminal qmeasure).

Lemma stat_good : forall n b, good n b -> stat b = ChessGame.static T b.
Proof. intros n b H. apply static_sat_eq. eapply good_static. exact H. Qed.

(* node level: search_negamax computes the table-using mirror, for some ordering oracle that is a permutation *)
Theorem negamax_refines_closed : forall orc, quiet orc -> forall K, ((K <= 1)%nat \/ ND T good) -> forall k, (k <= K)%nat ->
  node_ok T good Q stat orc k.
Proof.
  destruct HF as (H1 & H2 & H3). intros orc [Qa Qi]. exact (negamax_refine T HT good Q H1 H2 H3 good_sane stat stat_good HK orc Qa Qi).
Qed.

Theorem depth1_concrete_closed : forall orc, quiet orc -> forall g st, g_depth g = Some 1 -> plain_go g ->
  good (1 + S Q) (s_board st) -> half (s_board st) < 5 ->
  root_empty T (s_board st) = false -> inb T 1 (s_board st) ->
  Forall (exact_rec T stat (s_board st) 0) (fst (go_full T orc g st)) /\
  (succs (s_board st) <> [] -> exists it, fst (go_full T orc g st) = [it] /\ exact_rec T stat (s_board st) 0 it).
Proof.
  destruct HF as (H1 & H2 & H3). intros orc [Qa Qi] g st Hd (G1 & G2 & G3 & G4).
  exact (depth1_concrete T HT good Q H1 H2 H3 good_sane stat stat_good HK orc Qa Qi (static_sat_bound T HW) g st Hd G1 G2 G3 G4).
Qed.

Theorem go_depth_concrete_closed : forall orc, quiet orc ->
  forall sim : nat -> board -> board -> Prop,
  (forall r' r x y, sim r' x y -> (r <= r')%nat -> nmC r x = nmC r y) ->
  (forall r r' x y, (r <= r')%nat -> sim r' x y -> sim r x y) ->
  forall g st dd, g_depth g = Some dd -> ((depth_of dd <= 1)%nat \/ ND T good) -> plain_go g ->
  good (depth_of dd + S Q) (s_board st) -> half (s_board st) + N.of_nat (depth_of dd) < 6 ->
  Minimax.ply_unique board succs (zobrist_hash T) sim (depth_of dd) (s_board st) ->
  root_empty T (s_board st) = false -> inb T (depth_of dd) (s_board st) ->
  Forall (fun it => exists d, (S d <= depth_of dd)%nat /\ exact_rec T stat (s_board st) d it) (fst (go_full T orc g st)) /\
  (succs (s_board st) <> [] ->
     exists it rest, fst (go_full T orc g st) = it :: rest /\ exact_rec T stat (s_board st) (pred (depth_of dd)) it).
Proof.
  destruct HF as (H1 & H2 & H3). intros orc [Qa Qi] sim S1 S2 g st dd Hd HND (G1 & G2 & G3 & G4).
  exact (go_depth_concrete T HT good Q H1 H2 H3 good_sane stat stat_good HK orc Qa Qi (static_sat_bound T HW) sim S1 S2
           g st dd Hd HND G1 G2 G3 G4).
Qed.

End Closed.

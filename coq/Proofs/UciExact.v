(* C13 (exactness part): the UCI move-text entry points of Model/Notation.v (find_uci, make_uci, make_all_uci,
   uci_to_pgn) against the RULES (Spec/Rules.v).

   A text is accepted exactly when, after trimming, it is the UCI text (Rules.uci) of a member of
   Rules.legal_moves (abs b); the move found is the generator move with that abstraction; the board reached is the
   successor of the rules; every other text is an error that leaves the board as it was (MoveIsNotValid exactly when
   the text denotes a pseudo-legal move that leaves the own king in check, MoveDoesNotExist otherwise).

   Side conditions
     tables_attacks_ok T, tables_movegen_ok T      as in Properties/C01_C02.v (Gen: SweepAll.tables_ok, gen_tables_movegen_ok)
     wf b, legal_pos (abs b) = true                the position invariant (C02_legal_pos_iff)
     half b < 4096                                 the 12-bit PREVIOUS_HALFMOVE field of the packed move: the take-back inside
                                                   find_uci / uci_to_pgn restores `half b mod 4096` (C03).  NECESSARY, see
                                                   clock_bound_needed_* below.  For a list of n texts: half b + n < 4096.

   Built on: C01 (MoveGenProofs: C01_pseudo_members, NoDup_pseudo, legal_bridge), C02 (MakeProofs: C02_step,
   gen_mfacts, legal_pos_iff), C03 (MakeUnmake: C03_unmake_make). *)
Require Import Ink.Lib.Str.
Require Import NArith ZArith List Bool Lia.
Require Import ZifyBool ZifyN.
Import ListNotations.
Require Import Ink.Lib.Bits Ink.Model.Tables Ink.Model.Board Ink.Model.Fen Ink.Model.Notation Ink.Spec.Rules.
Require Import Ink.Proofs.Abs Ink.Proofs.AttackProofs Ink.Proofs.AbsProofs Ink.Proofs.CheckProofs.
Require Import Ink.Proofs.GenShape Ink.Proofs.MakeUnmake Ink.Proofs.MoveGenProofs Ink.Proofs.MakeProofs.
Open Scope N_scope.

Arguments N.add : simpl never.
Arguments N.sub : simpl never.
Arguments N.mul : simpl never.
Arguments N.div : simpl never.
Arguments N.modulo : simpl never.
Arguments N.eqb : simpl never.
Arguments N.ltb : simpl never.
Arguments N.leb : simpl never.
Arguments Z.add : simpl never.
Arguments Z.mul : simpl never.
Arguments Z.div : simpl never.
Arguments Z.modulo : simpl never.

(* ================================================================== *)
(* 1. text                                                             *)
(* ================================================================== *)
Lemma str_eqb_true_iff : forall a b, str_eqb a b = true <-> a = b.
Proof.
  induction a as [|x a IH]; intros [|y b]; cbn [str_eqb]; split; intros H; try discriminate; try reflexivity.
  - apply andb_true_iff in H as [H1 H2]. apply N.eqb_eq in H1. apply IH in H2. now subst.
  - injection H as -> ->. rewrite N.eqb_refl. cbn [andb]. now apply IH.
Qed.

Lemma sq_text_N x : sq_text (Z.of_N x) = square_text x.
Proof.
  unfold sq_text, square_text, fileZ, rowZ. change 8%Z with (Z.of_N 8).
  rewrite <- N2Z.inj_mod, <- N2Z.inj_div, !N2Z.id. reflexivity.
Qed.

Lemma sq_text_inj z z' : (0 <= z < 64)%Z -> (0 <= z' < 64)%Z -> sq_text z = sq_text z' -> z = z'.
Proof.
  intros Hz Hz' E. unfold sq_text, fileZ, rowZ in E. injection E as E1 E2.
  pose proof (Z.div_mod z 8 ltac:(lia)) as D. pose proof (Z.div_mod z' 8 ltac:(lia)) as D'.
  pose proof (Z.mod_pos_bound z 8 ltac:(lia)) as M. pose proof (Z.mod_pos_bound z' 8 ltac:(lia)) as M'.
  assert (Q : (0 <= z / 8 < 8)%Z) by (split; [apply Z.div_pos; lia|apply Z.div_lt_upper_bound; lia]).
  assert (Q' : (0 <= z' / 8 < 8)%Z) by (split; [apply Z.div_pos; lia|apply Z.div_lt_upper_bound; lia]).
  remember (z / 8)%Z as q. remember (z' / 8)%Z as q'. remember (z mod 8)%Z as r. remember (z' mod 8)%Z as r'.
  lia.
Qed.

Lemma kind_letter_inj k k' : kind_letter k = kind_letter k' -> k = k'.
Proof. destruct k, k'; cbn [kind_letter]; intros H; try reflexivity; discriminate. Qed.

Definition on64 (u : mv) : Prop := (0 <= from u < 64)%Z /\ (0 <= to u < 64)%Z.

Lemma uci_inj u u' : on64 u -> on64 u' -> Rules.uci u = Rules.uci u' -> u = u'.
Proof.
  intros [Hf Ht] [Hf' Ht'] E. unfold Rules.uci in E.
  assert (S2 : forall z, exists a c, sq_text z = [a; c]) by (intros z; unfold sq_text; eauto).
  destruct (S2 (from u)) as (a1 & c1 & E1). destruct (S2 (to u)) as (a2 & c2 & E2).
  destruct (S2 (from u')) as (a1' & c1' & E1'). destruct (S2 (to u')) as (a2' & c2' & E2').
  rewrite E1, E2, E1', E2' in E. cbn [app] in E. injection E as -> -> -> -> E.
  rewrite <- E1' in E1. rewrite <- E2' in E2.
  apply sq_text_inj in E1; [|assumption|assumption]. apply sq_text_inj in E2; [|assumption|assumption].
  assert (E3 : prom u = prom u').
  { destruct (prom u) as [k|], (prom u') as [k'|]; try discriminate; [|reflexivity].
    injection E as E. now rewrite (kind_letter_inj k k' E). }
  destruct u as [uf ut up], u' as [uf' ut' up']. cbn [from to prom] in *. now subst.
Qed.

Lemma uci_length u : length (Rules.uci u) = match prom u with Some _ => 5%nat | None => 4%nat end.
Proof. unfold Rules.uci, sq_text. destruct (prom u); reflexivity. Qed.

(* the text of a move without / with a promotion letter *)
Definition text4 (u : mv) : str := sq_text (from u) ++ sq_text (to u).
Definition text5 (u : mv) (k : kind) : str := sq_text (from u) ++ sq_text (to u) ++ [kind_letter k].

Lemma uci_text4 u : prom u = None -> Rules.uci u = text4 u.
Proof. intros H. unfold Rules.uci, text4. rewrite H. now rewrite app_nil_r. Qed.

Lemma uci_text5 u k : prom u = Some k -> Rules.uci u = text5 u k.
Proof. intros H. unfold Rules.uci, text5. now rewrite H. Qed.

Lemma uci_eq_text4 u v : on64 u -> on64 v -> Rules.uci v = text4 u -> from v = from u /\ to v = to u /\ prom v = None.
Proof.
  intros Hu Hv E.
  assert (P : prom v = None).
  { apply (f_equal (@length N)) in E. rewrite uci_length in E. unfold text4, sq_text in E. cbn [length app] in E.
    destruct (prom v); [discriminate|reflexivity]. }
  pose (u0 := {| from := from u; to := to u; prom := None |}).
  assert (E0 : Rules.uci v = Rules.uci u0) by (rewrite E; unfold u0, Rules.uci, text4; cbn [from to prom]; now rewrite app_nil_r).
  apply uci_inj in E0; [|assumption|exact Hu]. rewrite E0. cbn [from to prom]. auto.
Qed.

Lemma uci_eq_text5 u k v : on64 u -> on64 v -> Rules.uci v = text5 u k -> from v = from u /\ to v = to u /\ prom v = Some k.
Proof.
  intros Hu Hv E. pose (u0 := {| from := from u; to := to u; prom := Some k |}).
  assert (E0 : Rules.uci v = Rules.uci u0) by (rewrite E; reflexivity).
  apply uci_inj in E0; [|assumption|exact Hu]. rewrite E0. cbn [from to prom]. auto.
Qed.

(* ================================================================== *)
(* 2. the rules: a promotion piece is given exactly on a pawn move to the last row *)
(* ================================================================== *)
Lemma rowZ_sq_of f r : (0 <= f < 8)%Z -> rowZ (sq_of f r) = r.
Proof.
  intros Hf. unfold rowZ, sq_of. replace (f + 8 * r)%Z with (r * 8 + f)%Z by lia.
  rewrite Z.div_add_l by lia. rewrite Z.div_small by lia. lia.
Qed.

Lemma pawn_to_in c s t u : In u (pawn_to c s t) -> from u = s /\ to u = t /\ (prom u <> None <-> rowZ t = last_row c).
Proof.
  unfold pawn_to. destruct (rowZ t =? last_row c)%Z eqn:E.
  - apply Z.eqb_eq in E. unfold promo_kinds. cbn [map]. intros H.
    repeat (destruct H as [<-|H]; [cbn [from to prom]; repeat split; auto; discriminate|]). destruct H.
  - apply Z.eqb_neq in E. intros [<-|[]]. cbn [from to prom].
    split; [reflexivity|split; [reflexivity|split; [intros H; now elim H|intros H; contradiction]]].
Qed.

Lemma in_map_plain s (l : list Z) u : In u (map (fun t => {| from := s; to := t; prom := None |}) l) -> from u = s /\ prom u = None.
Proof. intros H. apply in_map_iff in H as (t & <- & _). auto. Qed.

Lemma piece_moves_prom p s c k u : In u (piece_moves p s (c, k)) ->
  from u = s /\ (prom u <> None <-> k = Pawn /\ rowZ (to u) = last_row c).
Proof.
  assert (Plain : forall l, In u (map (fun t => {| from := s; to := t; prom := None |}) l) -> k <> Pawn ->
            from u = s /\ (prom u <> None <-> k = Pawn /\ rowZ (to u) = last_row c)).
  { intros l H Hk. apply in_map_plain in H as [H1 H2]. split; [exact H1|]. rewrite H2. split; [intros H; now elim H|intros [H _]; contradiction]. }
  unfold piece_moves. cbn [fst snd]. destruct k.
  - (* pawn *)
    pose proof (Z.mod_pos_bound s 8 ltac:(lia)) as Hf. fold (fileZ s) in Hf.
    intros H. apply in_app_or in H as [H|H].
    + destruct (on_board (fileZ s) (rowZ s + forward c) && empty p (sq_of (fileZ s) (rowZ s + forward c))); [|destruct H].
      apply in_app_or in H as [H|H].
      * apply pawn_to_in in H as (H1 & H2 & H3). split; [exact H1|]. rewrite H2.
        split; [intros X; split; [reflexivity|now apply H3]|intros [_ X]; now apply H3].
      * destruct ((rowZ s =? start_row c)%Z && empty p (sq_of (fileZ s) (rowZ s + forward c + forward c))) eqn:E; [|destruct H].
        destruct H as [<-|[]]. cbn [from to prom]. split; [reflexivity|].
        apply andb_true_iff in E as [E _]. apply Z.eqb_eq in E. rewrite rowZ_sq_of by exact Hf.
        split; [intros H; now elim H|]. intros [_ H]. exfalso. rewrite E in H. destruct c; cbn [start_row forward last_row] in H; lia.
    + apply in_flat_map in H as (t & _ & H).
      destruct (enemy p c t || match epsq p with Some e => (e =? t)%Z | None => false end); [|destruct H].
      apply pawn_to_in in H as (H1 & H2 & H3). split; [exact H1|]. rewrite H2.
        split; [intros X; split; [reflexivity|now apply H3]|intros [_ X]; now apply H3].
  - intros H. apply (Plain _ H). discriminate.
  - intros H. apply (Plain _ H). discriminate.
  - intros H. apply (Plain _ H). discriminate.
  - intros H. apply (Plain _ H). discriminate.
  - intros H. apply in_app_or in H as [H|H]; [apply (Plain _ H); discriminate|].
    assert (Q : from u = s /\ prom u = None).
    { destruct ((s =? sq_of 4 (home_row c))%Z && negb (attacked p (sq_of 4 (home_row c)) (opp c))); [|destruct H].
      apply in_app_or in H as [H|H].
      - match type of H with In _ (if ?x then _ else _) => destruct x end; [|destruct H]. destruct H as [<-|[]]. auto.
      - match type of H with In _ (if ?x then _ else _) => destruct x end; [|destruct H]. destruct H as [<-|[]]. auto. }
    destruct Q as [Q1 Q2]. split; [exact Q1|]. rewrite Q2. split; [intros H0; now elim H0|intros [H0 _]; discriminate].
Qed.

(* membership in pseudo_moves: the piece on the origin square, of the side to move *)
Lemma pseudo_moves_origin p u : In u (pseudo_moves p) ->
  exists k, get p (from u) = Some (to_move p, k) /\ (prom u <> None <-> k = Pawn /\ rowZ (to u) = last_row (to_move p)).
Proof.
  unfold pseudo_moves. intros H. apply in_flat_map in H as (s & _ & H).
  destruct (get p s) as [[c k]|] eqn:G; [|destruct H]. cbn [fst] in H.
  destruct (color_eqb c (to_move p)) eqn:C; [|destruct H].
  assert (c = to_move p) by (destruct c, (to_move p); try reflexivity; discriminate). subst c.
  apply piece_moves_prom in H as [H1 H2]. exists k. rewrite H1. auto.
Qed.

(* two pseudo-legal moves with the same origin and target agree on whether a promotion piece is given *)
Lemma pseudo_prom_agree p u v : In u (pseudo_moves p) -> In v (pseudo_moves p) -> from v = from u -> to v = to u ->
  (prom u = None <-> prom v = None).
Proof.
  intros Hu Hv Ef Et. apply pseudo_moves_origin in Hu as (k & G & P). apply pseudo_moves_origin in Hv as (k' & G' & P').
  rewrite Ef, G in G'. injection G' as <-. rewrite Et in P'.
  destruct (prom u), (prom v); split; intros H; try reflexivity; try discriminate; exfalso.
  - assert (A : @None kind <> None) by (first [apply P; apply P'; discriminate|apply P'; apply P; discriminate]). now elim A.
  - assert (A : @None kind <> None) by (first [apply P; apply P'; discriminate|apply P'; apply P; discriminate]). now elim A.
Qed.

(* ================================================================== *)
(* 3. list facts                                                       *)
(* ================================================================== *)
Lemma find_first_some {A} (f : A -> bool) l x : find_first f l = Some x -> In x l /\ f x = true.
Proof.
  induction l as [|y r IH]; cbn [find_first]; [discriminate|]. destruct (f y) eqn:E.
  - intros [= ->]. split; [now left|exact E].
  - intros H. apply IH in H as [H1 H2]. split; [now right|exact H2].
Qed.

Lemma find_first_none {A} (f : A -> bool) l : find_first f l = None -> forall x, In x l -> f x = false.
Proof.
  induction l as [|y r IH]; cbn [find_first]; intros H x Hx; [destruct Hx|]. destruct (f y) eqn:E; [discriminate|].
  destruct Hx as [<-|Hx]; [exact E|now apply IH].
Qed.

Lemma legal_is_pseudo p u : In u (legal_moves p) -> In u (pseudo_moves p).
Proof. unfold legal_moves. intros H. now apply filter_In in H as [H _]. Qed.

Lemma movegen_ranks T : tables_movegen_ok T = true -> tables_ranks_ok T = true.
Proof.
  intros H. destruct (tables_movegen_elim T H) as (H1 & H2 & H7 & H8 & _).
  unfold tables_ranks_ok. rewrite H1, H2, H7, H8. reflexivity.
Qed.

(* ================================================================== *)
(* 4. one text on one board                                            *)
(* ================================================================== *)
(* the rules' reading of a list of move texts: us is the line of legal moves the texts denote *)
Fixpoint legal_text_line (p : pos) (ss : list str) (us : list mv) : Prop :=
  match ss, us with
  | [], [] => True
  | s :: r, u :: ur => In u (legal_moves p) /\ Rules.uci u = trim s /\ legal_text_line (Rules.apply p u) r ur
  | _, _ => False
  end.

Lemma legal_text_line_meaning p :
  (legal_text_line p [] [] <-> True) /\
  (forall s r u ur, legal_text_line p (s :: r) (u :: ur) <->
                    In u (legal_moves p) /\ Rules.uci u = trim s /\ legal_text_line (Rules.apply p u) r ur) /\
  (forall s r, ~ legal_text_line p (s :: r) []) /\ (forall u ur, ~ legal_text_line p [] (u :: ur)).
Proof. cbn [legal_text_line]. repeat split; auto; intros; tauto. Qed.

Section Exact.
Variable T : Tables.t.
Hypothesis OK : tables_attacks_ok T = true.
Hypothesis MK : tables_movegen_ok T = true.

Lemma gen_move_facts b m : wf b = true -> legal_pos (abs b) = true -> In m (gen_pseudo T b) ->
  src m < 64 /\ dst m < 64 /\ (promo m = NO_PIECE \/ In (promo m) PROMO_PIECES).
Proof.
  intros Hwf Hl Hin. apply (legal_pos_iff T OK b Hwf) in Hl as (Hr & He & Hv).
  apply gen_pseudo_cases in Hin as (s & t & pc & ic & ie & pr & epo & Hc & ->).
  destruct (gen_mfacts T OK (tables_movegen_castle T MK) (movegen_ranks T MK) b Hwf Hr He Hv s t pc ic ie pr epo Hc)
    as (k & _ & M & _).
  destruct M as [Ms Mt _ _ _ _ _ _ _ Mpr _].
  split; [exact Ms|]. split; [exact Mt|]. destruct Mpr as [Mpr|[_ Mpr]]; [left|right]; exact Mpr.
Qed.

Lemma to_uci_spec m : src m < 64 -> dst m < 64 -> (promo m = NO_PIECE \/ In (promo m) PROMO_PIECES) ->
  to_uci m = Rules.uci (uci_of m) /\ on64 (uci_of m).
Proof.
  intros Hs Ht Hp. split.
  - unfold to_uci, Rules.uci, uci_of, square_str. cbn [from to prom]. rewrite !sq_text_N.
    apply N.ltb_lt in Hs, Ht. rewrite Hs, Ht. f_equal. f_equal.
    destruct Hp as [->|Hp]; [reflexivity|]. unfold PROMO_PIECES in Hp.
    destruct Hp as [<-|[<-|[<-|[<-|[]]]]]; reflexivity.
  - unfold on64, uci_of. cbn [from to]. clear Hp. lia.
Qed.

Lemma gen_text b m : wf b = true -> legal_pos (abs b) = true -> In m (gen_pseudo T b) ->
  to_uci m = Rules.uci (uci_of m) /\ on64 (uci_of m).
Proof. intros Hwf Hl Hin. destruct (gen_move_facts b m Hwf Hl Hin) as (A & B & C). now apply to_uci_spec. Qed.

Lemma pseudo_on64 b u : wf b = true -> legal_pos (abs b) = true -> In u (pseudo_moves (abs b)) -> on64 u.
Proof.
  intros Hwf Hl Hu. destruct (legal_pos_conditions b Hwf Hl) as [Hr Heb].
  apply (C01_pseudo_members T OK MK b Hwf Hr Heb) in Hu. apply in_map_iff in Hu as (m & <- & Hm).
  now apply (gen_text b m Hwf Hl Hm).
Qed.

(* the shared first half of find_uci and uci_to_pgn *)
Lemma lookup_cases b s : wf b = true -> legal_pos (abs b) = true ->
  (find_first (fun m => str_eqb (to_uci m) (trim s)) (gen_pseudo T b) = None /\
   forall u, In u (pseudo_moves (abs b)) -> Rules.uci u <> trim s) \/
  (exists m b1,
     find_first (fun m => str_eqb (to_uci m) (trim s)) (gen_pseudo T b) = Some m /\
     In m (gen_pseudo T b) /\ Rules.uci (uci_of m) = trim s /\
     (forall u, In u (pseudo_moves (abs b)) -> Rules.uci u = trim s -> u = uci_of m) /\
     In (uci_of m) (pseudo_moves (abs b)) /\
     make b m = Some b1 /\ (half b < 4096 -> unmake b1 m = Some b) /\ is_valid T b1 = legal (abs b) (uci_of m) /\
     abs b1 = Rules.apply (abs b) (uci_of m) /\ wf b1 = true /\
     (is_valid T b1 = true -> legal_pos (abs b1) = true) /\ half b1 <= half b + 1).
Proof.
  intros Hwf Hl. destruct (legal_pos_conditions b Hwf Hl) as [Hr Heb].
  pose proof Hl as Hl'. apply (legal_pos_iff T OK b Hwf) in Hl' as (_ & He & Hv).
  pose proof (tables_movegen_castle T MK) as HC. pose proof (movegen_ranks T MK) as HR.
  pose proof (C01_pseudo_members T OK MK b Hwf Hr Heb) as PM.
  destruct (find_first (fun m => str_eqb (to_uci m) (trim s)) (gen_pseudo T b)) as [m|] eqn:F.
  - right. apply find_first_some in F as [Hin Hf]. apply str_eqb_true_iff in Hf.
    destruct (gen_text b m Hwf Hl Hin) as [Tx O64]. rewrite Tx in Hf.
    destruct (C02_step T OK HC HR b m Hwf Hr He Hv Hin) as (b1 & Hm & Habs & Hwf1 & Hr1 & He1).
    exists m, b1. split; [reflexivity|]. split; [exact Hin|]. split; [exact Hf|]. split; [|split; [|split; [|split; [|split]]]].
    + intros u Hu E. apply PM in Hu. apply in_map_iff in Hu as (m' & <- & Hm').
      destruct (gen_text b m' Hwf Hl Hm') as [_ O64']. apply uci_inj; [exact O64'|exact O64|]. now rewrite E, Hf.
    + apply PM. now apply in_map.
    + exact Hm.
    + intros Hh. destruct (C03_unmake_make T HC b m Hwf Hr Hin Hh) as (b1' & Hm' & Hun). rewrite Hm in Hm'. now injection Hm' as <-.
    + assert (Hmake : forall m0, In m0 (gen_pseudo T b) ->
                exists b', make b m0 = Some b' /\ wf b' = true /\ abs b' = Rules.apply (abs b) (uci_of m0)).
      { intros m0 H0. destruct (C02_step T OK HC HR b m0 Hwf Hr He Hv H0) as (b' & E & A & W & _). exists b'. auto. }
      pose proof (legal_bridge T OK b Hwf Hmake m Hin) as LB. unfold is_move_legal in LB. now rewrite Hm in LB.
    + split; [exact Habs|]. split; [exact Hwf1|]. split.
      * intros Hv1. apply (legal_pos_iff T OK b1 Hwf1). repeat split; assumption.
      * destruct (make_meta b m b1 Hm) as (-> & _). destruct (half_reset m); [apply N.le_0_l|apply N.le_refl].
  - left. split; [reflexivity|]. intros u Hu E. apply PM in Hu. apply in_map_iff in Hu as (m' & <- & Hm').
    destruct (gen_text b m' Hwf Hl Hm') as [Tx _].
    pose proof (find_first_none _ _ F m' Hm') as N. cbv beta in N. rewrite Tx, E in N.
    assert (Y : str_eqb (trim s) (trim s) = true) by now apply str_eqb_true_iff. rewrite Y in N. discriminate.
Qed.

(* ---------- find_uci ---------- *)
Theorem find_uci_exact b s : wf b = true -> legal_pos (abs b) = true -> half b < 4096 ->
  (exists m, find_uci T b s = (inr m, Some b) /\ In m (gen_legal T b) /\
             In (uci_of m) (legal_moves (abs b)) /\ Rules.uci (uci_of m) = trim s) \/
  (find_uci T b s = (inl MoveIsNotValid, Some b) /\
   (forall u, In u (legal_moves (abs b)) -> Rules.uci u <> trim s) /\
   (exists u, In u (pseudo_moves (abs b)) /\ Rules.uci u = trim s)) \/
  (find_uci T b s = (inl MoveDoesNotExist, Some b) /\
   forall u, In u (pseudo_moves (abs b)) -> Rules.uci u <> trim s).
Proof.
  intros Hwf Hl Hh. unfold find_uci. cbv zeta.
  destruct (lookup_cases b s Hwf Hl) as [[F N]|(m & b1 & F & Hin & Tx & Un & Ps & Hm & Hun & Hv & _)]; rewrite F.
  - right. right. split; [reflexivity|exact N].
  - rewrite Hm, (Hun Hh). destruct (is_valid T b1) eqn:V; cbn [negb].
    + left. exists m. split; [reflexivity|]. split; [|split; [|exact Tx]].
      * unfold gen_legal. apply filter_In. split; [exact Hin|]. unfold is_move_legal. now rewrite Hm.
      * unfold legal_moves. apply filter_In. split; [exact Ps|now symmetry].
    + right. left. split; [reflexivity|]. split.
      * intros u Hu E. pose proof Hu as Hu'. unfold legal_moves in Hu'. apply filter_In in Hu' as [Hp Lg].
        rewrite (Un u Hp E) in Lg. rewrite <- Hv in Lg. discriminate.
      * exists (uci_of m). split; assumption.
Qed.

(* ---------- make_uci ---------- *)
Theorem make_uci_exact b s : wf b = true -> legal_pos (abs b) = true -> half b < 4096 ->
  (exists u b', In u (legal_moves (abs b)) /\ Rules.uci u = trim s /\ make_uci T b s = (inr tt, Some b') /\
                abs b' = Rules.apply (abs b) u /\ wf b' = true /\ legal_pos (abs b') = true) \/
  (make_uci T b s = (inl MoveIsNotValid, Some b) /\
   (forall u, In u (legal_moves (abs b)) -> Rules.uci u <> trim s) /\
   (exists u, In u (pseudo_moves (abs b)) /\ Rules.uci u = trim s)) \/
  (make_uci T b s = (inl MoveDoesNotExist, Some b) /\
   forall u, In u (pseudo_moves (abs b)) -> Rules.uci u <> trim s).
Proof.
  intros Hwf Hl Hh. unfold make_uci, find_uci. cbv zeta.
  destruct (lookup_cases b s Hwf Hl) as [[F N]|(m & b1 & F & Hin & Tx & Un & Ps & Hm & Hun & Hv & Ha & Hw & Hlp & _)]; rewrite F.
  - right. right. split; [reflexivity|exact N].
  - rewrite Hm, (Hun Hh). destruct (is_valid T b1) eqn:V; cbn [negb].
    + left. exists (uci_of m), b1. split; [|split; [exact Tx|]].
      * unfold legal_moves. apply filter_In. split; [exact Ps|now symmetry].
      * rewrite Hm. split; [reflexivity|]. split; [exact Ha|]. split; [exact Hw|now apply Hlp].
    + right. left. split; [reflexivity|]. split.
      * intros u Hu E. pose proof Hu as Hu'. unfold legal_moves in Hu'. apply filter_In in Hu' as [Hp Lg].
        rewrite (Un u Hp E) in Lg. rewrite <- Hv in Lg. discriminate.
      * exists (uci_of m). split; assumption.
Qed.

Theorem make_uci_iff b s : wf b = true -> legal_pos (abs b) = true -> half b < 4096 ->
  (fst (make_uci T b s) = inr tt <-> exists u, In u (legal_moves (abs b)) /\ Rules.uci u = trim s).
Proof.
  intros Hwf Hl Hh. destruct (make_uci_exact b s Hwf Hl Hh) as [(u & b' & Hu & Tx & E & _)|[(E & N & _)|(E & N)]]; rewrite E; cbn [fst].
  - split; [intros _; now exists u|reflexivity].
  - split; [discriminate|]. intros (u & Hu & Tx). now elim (N u Hu).
  - split; [discriminate|]. intros (u & Hu & Tx). now elim (N u (legal_is_pseudo _ _ Hu)).
Qed.

Theorem make_uci_accept b s u : wf b = true -> legal_pos (abs b) = true -> half b < 4096 ->
  In u (legal_moves (abs b)) -> Rules.uci u = trim s ->
  exists b', make_uci T b s = (inr tt, Some b') /\ abs b' = Rules.apply (abs b) u /\ wf b' = true /\ legal_pos (abs b') = true.
Proof.
  intros Hwf Hl Hh Hu Tx.
  destruct (make_uci_exact b s Hwf Hl Hh) as [(u0 & b' & Hu0 & Tx0 & E & R)|[(E & N & _)|(E & N)]].
  - assert (u0 = u).
    { apply uci_inj; [apply (pseudo_on64 b u0 Hwf Hl); now apply legal_is_pseudo|apply (pseudo_on64 b u Hwf Hl); now apply legal_is_pseudo|].
      now rewrite Tx0, Tx. }
    subst u0. exists b'. split; [exact E|exact R].
  - now elim (N u Hu).
  - now elim (N u (legal_is_pseudo _ _ Hu)).
Qed.

Theorem make_uci_reject b s : wf b = true -> legal_pos (abs b) = true -> half b < 4096 ->
  (forall u, In u (legal_moves (abs b)) -> Rules.uci u <> trim s) ->
  exists e, make_uci T b s = (inl e, Some b) /\
            (e = MoveIsNotValid <-> exists u, In u (pseudo_moves (abs b)) /\ Rules.uci u = trim s).
Proof.
  intros Hwf Hl Hh N.
  destruct (make_uci_exact b s Hwf Hl Hh) as [(u0 & b' & Hu0 & Tx0 & _)|[(E & _ & P)|(E & N')]].
  - now elim (N u0 Hu0).
  - exists MoveIsNotValid. split; [exact E|]. split; [intros _; exact P|reflexivity].
  - exists MoveDoesNotExist. split; [exact E|]. split; [discriminate|]. intros (u & Hu & Tx). now elim (N' u Hu).
Qed.

(* ---------- the promotion letter is required exactly for promotions ---------- *)
Theorem promo_letter_missing b s u k : wf b = true -> legal_pos (abs b) = true -> half b < 4096 ->
  In u (pseudo_moves (abs b)) -> prom u = Some k -> trim s = text4 u ->
  make_uci T b s = (inl MoveDoesNotExist, Some b) /\ find_uci T b s = (inl MoveDoesNotExist, Some b).
Proof.
  intros Hwf Hl Hh Hu Hp Tx.
  assert (N : forall v, In v (pseudo_moves (abs b)) -> Rules.uci v <> trim s).
  { intros v Hv E. rewrite Tx in E.
    destruct (uci_eq_text4 u v (pseudo_on64 b u Hwf Hl Hu) (pseudo_on64 b v Hwf Hl Hv) E) as (Ef & Et & Pv).
    apply (pseudo_prom_agree (abs b) u v Hu Hv Ef Et) in Pv. rewrite Hp in Pv. discriminate. }
  split.
  - destruct (make_uci_exact b s Hwf Hl Hh) as [(u0 & b' & Hu0 & Tx0 & _)|[(_ & _ & (v & Hv & E))|(E & _)]].
    + now elim (N u0 (legal_is_pseudo _ _ Hu0)).
    + now elim (N v Hv).
    + exact E.
  - destruct (find_uci_exact b s Hwf Hl Hh) as [(m & _ & _ & Hu0 & Tx0)|[(_ & _ & (v & Hv & E))|(E & _)]].
    + now elim (N _ (legal_is_pseudo _ _ Hu0)).
    + now elim (N v Hv).
    + exact E.
Qed.

Theorem promo_letter_superfluous b s u k : wf b = true -> legal_pos (abs b) = true -> half b < 4096 ->
  In u (pseudo_moves (abs b)) -> prom u = None -> trim s = text5 u k ->
  make_uci T b s = (inl MoveDoesNotExist, Some b) /\ find_uci T b s = (inl MoveDoesNotExist, Some b).
Proof.
  intros Hwf Hl Hh Hu Hp Tx.
  assert (N : forall v, In v (pseudo_moves (abs b)) -> Rules.uci v <> trim s).
  { intros v Hv E. rewrite Tx in E.
    destruct (uci_eq_text5 u k v (pseudo_on64 b u Hwf Hl Hu) (pseudo_on64 b v Hwf Hl Hv) E) as (Ef & Et & Pv).
    apply (pseudo_prom_agree (abs b) u v Hu Hv Ef Et) in Hp. rewrite Hp in Pv. discriminate. }
  split.
  - destruct (make_uci_exact b s Hwf Hl Hh) as [(u0 & b' & Hu0 & Tx0 & _)|[(_ & _ & (v & Hv & E))|(E & _)]].
    + now elim (N u0 (legal_is_pseudo _ _ Hu0)).
    + now elim (N v Hv).
    + exact E.
  - destruct (find_uci_exact b s Hwf Hl Hh) as [(m & _ & _ & Hu0 & Tx0)|[(_ & _ & (v & Hv & E))|(E & _)]].
    + now elim (N _ (legal_is_pseudo _ _ Hu0)).
    + now elim (N v Hv).
    + exact E.
Qed.

(* ---------- uci_to_pgn ---------- *)
Theorem uci_to_pgn_exact b s : wf b = true -> legal_pos (abs b) = true -> half b < 4096 ->
  (exists m text, uci_to_pgn T b s = (inr text, Some b) /\ In m (gen_legal T b) /\
                  In (uci_of m) (legal_moves (abs b)) /\ Rules.uci (uci_of m) = trim s) \/
  (uci_to_pgn T b s = (inl MoveIsNotValid, Some b) /\
   (forall u, In u (legal_moves (abs b)) -> Rules.uci u <> trim s) /\
   (exists u, In u (pseudo_moves (abs b)) /\ Rules.uci u = trim s)) \/
  (uci_to_pgn T b s = (inl MoveDoesNotExist, Some b) /\
   forall u, In u (pseudo_moves (abs b)) -> Rules.uci u <> trim s).
Proof.
  intros Hwf Hl Hh. unfold uci_to_pgn. cbv zeta.
  destruct (lookup_cases b s Hwf Hl) as [[F N]|(m & b1 & F & Hin & Tx & Un & Ps & Hm & Hun & Hv & _)]; rewrite F.
  - right. right. split; [reflexivity|exact N].
  - rewrite Hm, (Hun Hh). destruct (is_valid T b1) eqn:V; cbn [negb].
    + left. exists m. eexists. split; [reflexivity|]. split; [|split; [|exact Tx]].
      * unfold gen_legal. apply filter_In. split; [exact Hin|]. unfold is_move_legal. now rewrite Hm.
      * unfold legal_moves. apply filter_In. split; [exact Ps|now symmetry].
    + right. left. split; [reflexivity|]. split.
      * intros u Hu E. pose proof Hu as Hu'. unfold legal_moves in Hu'. apply filter_In in Hu' as [Hp Lg].
        rewrite (Un u Hp E) in Lg. rewrite <- Hv in Lg. discriminate.
      * exists (uci_of m). split; assumption.
Qed.

Theorem uci_to_pgn_iff b s : wf b = true -> legal_pos (abs b) = true -> half b < 4096 ->
  ((exists text, fst (uci_to_pgn T b s) = inr text) <-> exists u, In u (legal_moves (abs b)) /\ Rules.uci u = trim s) /\
  snd (uci_to_pgn T b s) = Some b.
Proof.
  intros Hwf Hl Hh. destruct (uci_to_pgn_exact b s Hwf Hl Hh) as [(m & text & E & _ & Hu & Tx)|[(E & N & _)|(E & N)]]; rewrite E; cbn [fst snd].
  - split; [|reflexivity]. split; [intros _; now exists (uci_of m)|intros _; now exists text].
  - split; [|reflexivity]. split; [intros (t & H); discriminate|]. intros (u & Hu & Tx). now elim (N u Hu).
  - split; [|reflexivity]. split; [intros (t & H); discriminate|]. intros (u & Hu & Tx). now elim (N u (legal_is_pseudo _ _ Hu)).
Qed.

Theorem find_uci_iff b s : wf b = true -> legal_pos (abs b) = true -> half b < 4096 ->
  ((exists m, fst (find_uci T b s) = inr m) <-> exists u, In u (legal_moves (abs b)) /\ Rules.uci u = trim s) /\
  (forall m, fst (find_uci T b s) = inr m ->
     In m (gen_legal T b) /\ In (uci_of m) (legal_moves (abs b)) /\ Rules.uci (uci_of m) = trim s /\
     forall u, In u (legal_moves (abs b)) -> Rules.uci u = trim s -> u = uci_of m) /\
  snd (find_uci T b s) = Some b.
Proof.
  intros Hwf Hl Hh. destruct (find_uci_exact b s Hwf Hl Hh) as [(m & E & Hg & Hu & Tx)|[(E & N & _)|(E & N)]]; rewrite E; cbn [fst snd].
  - split; [|split; [|reflexivity]].
    + split; [intros _; now exists (uci_of m)|intros _; now exists m].
    + intros m0 [= <-]. split; [exact Hg|]. split; [exact Hu|]. split; [exact Tx|]. intros u Hu' Tx'.
      apply uci_inj; [apply (pseudo_on64 b u Hwf Hl); now apply legal_is_pseudo|apply (pseudo_on64 b _ Hwf Hl); now apply legal_is_pseudo|].
      now rewrite Tx, Tx'.
  - split; [|split; [|reflexivity]]; [|intros m0; discriminate].
    split; [intros (t & H); discriminate|]. intros (u & Hu & Tx). now elim (N u Hu).
  - split; [|split; [|reflexivity]]; [|intros m0; discriminate].
    split; [intros (t & H); discriminate|]. intros (u & Hu & Tx). now elim (N u (legal_is_pseudo _ _ Hu)).
Qed.

(* ---------- the verdict alone does not depend on the half-move clock ---------- *)
Theorem verdict_any_clock b s : wf b = true -> legal_pos (abs b) = true ->
  ((exists m, fst (find_uci T b s) = inr m) <-> exists u, In u (legal_moves (abs b)) /\ Rules.uci u = trim s) /\
  (fst (make_uci T b s) = inr tt <-> exists u, In u (legal_moves (abs b)) /\ Rules.uci u = trim s) /\
  ((exists text, fst (uci_to_pgn T b s) = inr text) <-> exists u, In u (legal_moves (abs b)) /\ Rules.uci u = trim s).
Proof.
  intros Hwf Hl.
  assert (Core : ((exists m, fst (find_uci T b s) = inr m) <-> exists u, In u (legal_moves (abs b)) /\ Rules.uci u = trim s) /\
                 ((exists text, fst (uci_to_pgn T b s) = inr text) <-> exists u, In u (legal_moves (abs b)) /\ Rules.uci u = trim s)).
  { unfold find_uci, uci_to_pgn. cbv zeta.
    destruct (lookup_cases b s Hwf Hl) as [[F N]|(m & b1 & F & Hin & Tx & Un & Ps & Hm & _ & Hv & _)]; rewrite F.
    - cbn [fst]. split; (split; [intros (x & H); discriminate|]); intros (u & Hu & E); now elim (N u (legal_is_pseudo _ _ Hu)).
    - rewrite Hm. destruct (is_valid T b1) eqn:V; cbn [negb fst].
      + assert (Hum : In (uci_of m) (legal_moves (abs b))) by (unfold legal_moves; apply filter_In; split; [exact Ps|now symmetry]).
        split; (split; intros _; [now exists (uci_of m)|eexists; reflexivity]).
      + split; (split; [intros (x & H); discriminate|]); intros (u & Hu & E);
          pose proof Hu as Hu'; unfold legal_moves in Hu'; apply filter_In in Hu' as [Hp Lg];
          rewrite (Un u Hp E) in Lg; rewrite <- Hv in Lg; discriminate. }
  destruct Core as [C1 C2]. split; [exact C1|]. split; [|exact C2].
  rewrite <- C1. unfold make_uci. destruct (find_uci T b s) as [[e|m] [b'|]]; cbn [fst];
    (split; [try discriminate; intros _; eexists; reflexivity|try reflexivity; intros (m0 & H); discriminate]).
Qed.

(* ---------- make_all_uci ---------- *)
Lemma make_all_uci_aux_exact ss : forall b made b0,
  wf b = true -> legal_pos (abs b) = true -> half b + N.of_nat (length ss) <= 4096 ->
  unmake_all (Some b) made = Some b0 ->
  (exists us b', legal_text_line (abs b) ss us /\ (forall us', legal_text_line (abs b) ss us' -> us' = us) /\
                 make_all_uci_aux T b ss made = (inr tt, Some b') /\
                 abs b' = fold_left Rules.apply us (abs b) /\ wf b' = true /\ legal_pos (abs b') = true) \/
  (exists e, make_all_uci_aux T b ss made = (inl e, Some b0) /\ forall us, ~ legal_text_line (abs b) ss us).
Proof.
  induction ss as [|s r IH]; intros b made b0 Hwf Hl Hh Hback.
  - left. exists [], b. cbn [legal_text_line make_all_uci_aux fold_left]. split; [exact I|]. split.
    + intros [|u ur] H; [reflexivity|destruct H].
    + repeat split; assumption.
  - assert (Hh0 : half b < 4096) by (cbn [length] in Hh; clear - Hh; lia).
    cbn [make_all_uci_aux]. unfold find_uci. cbv zeta.
    destruct (lookup_cases b s Hwf Hl) as [[F N]|(m & b1 & F & Hin & Tx & Un & Ps & Hm & Hun & Hv & Ha & Hw & Hlp & Hh1)]; rewrite F.
    + right. exists MoveDoesNotExist. split; [now rewrite Hback|].
      intros [|u ur] L; [exact L|]. destruct L as (Hu & Tx & _). exact (N u (legal_is_pseudo _ _ Hu) Tx).
    + rewrite Hm, (Hun Hh0). destruct (is_valid T b1) eqn:V; cbn [negb].
      * rewrite Hm.
        assert (Hh2 : half b1 + N.of_nat (length r) <= 4096) by (cbn [length] in Hh; clear - Hh Hh1; lia).
        assert (Hback1 : unmake_all (Some b1) (m :: made) = Some b0) by (cbn [unmake_all]; now rewrite (Hun Hh0)).
        assert (Hum : In (uci_of m) (legal_moves (abs b))).
        { unfold legal_moves. apply filter_In. split; [exact Ps|now symmetry]. }
        destruct (IH b1 (m :: made) b0 Hw (Hlp eq_refl) Hh2 Hback1) as [(us & b' & L & U & E & A & W & LP)|(e & E & NL)].
        -- left. exists (uci_of m :: us), b'. cbn [legal_text_line fold_left]. rewrite <- Ha.
           split; [repeat split; assumption|]. split; [|repeat split; assumption].
           intros [|u ur] L'; [destruct L'|]. destruct L' as (Hu & Tx' & L').
           pose proof (Un u (legal_is_pseudo _ _ Hu) Tx') as ->. rewrite <- Ha in L'. now rewrite (U ur L').
        -- right. exists e. split; [exact E|]. intros [|u ur] L'; [exact L'|]. destruct L' as (Hu & Tx' & L').
           pose proof (Un u (legal_is_pseudo _ _ Hu) Tx') as ->. rewrite <- Ha in L'. exact (NL ur L').
      * right. exists MoveIsNotValid. split; [now rewrite Hback|].
        intros [|u ur] L; [exact L|]. destruct L as (Hu & Tx' & _).
        pose proof Hu as Hu'. unfold legal_moves in Hu'. apply filter_In in Hu' as [Hp Lg].
        rewrite (Un u Hp Tx') in Lg. rewrite <- Hv in Lg. discriminate.
Qed.

Theorem make_all_uci_exact b ss :
  wf b = true -> legal_pos (abs b) = true -> half b + N.of_nat (length ss) <= 4096 ->
  (exists us b', legal_text_line (abs b) ss us /\ (forall us', legal_text_line (abs b) ss us' -> us' = us) /\
                 make_all_uci T b ss = (inr tt, Some b') /\
                 abs b' = fold_left Rules.apply us (abs b) /\ wf b' = true /\ legal_pos (abs b') = true) \/
  (exists e, make_all_uci T b ss = (inl e, Some b) /\ forall us, ~ legal_text_line (abs b) ss us).
Proof. intros Hwf Hl Hh. unfold make_all_uci. now apply make_all_uci_aux_exact. Qed.

Theorem make_all_uci_iff b ss :
  wf b = true -> legal_pos (abs b) = true -> half b + N.of_nat (length ss) <= 4096 ->
  (fst (make_all_uci T b ss) = inr tt <-> exists us, legal_text_line (abs b) ss us).
Proof.
  intros Hwf Hl Hh. destruct (make_all_uci_exact b ss Hwf Hl Hh) as [(us & b' & L & _ & E & _)|(e & E & NL)]; rewrite E; cbn [fst].
  - split; [intros _; now exists us|reflexivity].
  - split; [discriminate|]. intros (us & L). now elim (NL us).
Qed.

Theorem make_all_uci_accept b ss us :
  wf b = true -> legal_pos (abs b) = true -> half b + N.of_nat (length ss) <= 4096 ->
  legal_text_line (abs b) ss us ->
  exists b', make_all_uci T b ss = (inr tt, Some b') /\ abs b' = fold_left Rules.apply us (abs b) /\
             wf b' = true /\ legal_pos (abs b') = true.
Proof.
  intros Hwf Hl Hh L. destruct (make_all_uci_exact b ss Hwf Hl Hh) as [(us0 & b' & _ & U & E & R)|(e & _ & NL)].
  - rewrite (U us L). now exists b'.
  - now elim (NL us).
Qed.

Theorem make_all_uci_reject b ss :
  wf b = true -> legal_pos (abs b) = true -> half b + N.of_nat (length ss) <= 4096 ->
  (forall us, ~ legal_text_line (abs b) ss us) -> exists e, make_all_uci T b ss = (inl e, Some b).
Proof.
  intros Hwf Hl Hh NL. destruct (make_all_uci_exact b ss Hwf Hl Hh) as [(us0 & b' & L & _)|(e & E & _)].
  - now elim (NL us0).
  - now exists e.
Qed.

Theorem make_all_uci_all_or_nothing_exact b ss e :
  wf b = true -> legal_pos (abs b) = true -> half b + N.of_nat (length ss) <= 4096 ->
  fst (make_all_uci T b ss) = inl e -> snd (make_all_uci T b ss) = Some b.
Proof.
  intros Hwf Hl Hh. destruct (make_all_uci_exact b ss Hwf Hl Hh) as [(us0 & b' & _ & _ & E & _)|(e' & E & _)]; rewrite E; cbn [fst snd].
  - discriminate.
  - reflexivity.
Qed.

End Exact.

(* ================================================================== *)
(* 5. the half-move-clock bound is necessary (tables of the current tree) *)
(* ================================================================== *)
Require Ink.Gen.Tables Ink.Gen.SweepAll.

(* white bishop d1 pinned by the rook a1; half-move clock 4096 = 2^12 *)
Definition cx_clock_board : board := board_of_text (lit "4k3/8/8/8/8/8/8/r2BK3 w - - 4096 1").

(* a rejected text does NOT leave the board as it was: the clock comes back as 0 *)
Lemma clock_bound_needed_reject :
  wf cx_clock_board = true /\ legal_pos (abs cx_clock_board) = true /\ half cx_clock_board = 4096 /\
  exists b', find_uci Ink.Gen.Tables.tables cx_clock_board (lit "d1e2") = (inl MoveIsNotValid, Some b') /\
             half b' = 0 /\ b' <> cx_clock_board.
Proof.
  split; [vm_compute; reflexivity|]. split; [vm_compute; reflexivity|]. split; [vm_compute; reflexivity|].
  eexists. split; [vm_compute; reflexivity|]. split; [reflexivity|]. intros H. apply (f_equal half) in H. vm_compute in H. discriminate.
Qed.

(* an accepted text does NOT reach the successor of the rules: clock 1 instead of 4097 *)
Lemma clock_bound_needed_accept :
  exists b', make_uci Ink.Gen.Tables.tables cx_clock_board (lit "e1e2") = (inr tt, Some b') /\
             halfc (abs b') = 1 /\
             halfc (Rules.apply (abs cx_clock_board) {| from := 60; to := 52; prom := None |}) = 4097.
Proof.
  eexists. split; [vm_compute; reflexivity|]. split; vm_compute; reflexivity.
Qed.

(* C18: the model of engine_core/src/engine/table.rs (Model/HashTable.v) refines the
   bounded FIFO map (Spec/FifoMap.v), never takes the panic branch, and keeps its
   representation invariant.  Plus readable facts about the spec itself. *)
Require Import NArith List Bool Arith Lia.
Import ListNotations.
Require Import Ink.Spec.FifoMap Ink.Model.HashTable.

Arguments N.eqb : simpl never.

Section HashTableProofs.
Variable V : Type.

Notation find := (HashTable.find V).
Notation remove := (HashTable.remove V).
Notation insert := (HashTable.insert V).
Notation ht := (HashTable.ht V).
Notation cap := (HashTable.cap V).
Notation q := (HashTable.q V).
Notation m := (HashTable.m V).
Notation len := (HashTable.len V).
Notation get := (HashTable.get V).
Notation new := (HashTable.new V).
Notation mput := (HashTable.put V).
Notation mstep := (HashTable.step V).
Notation mrun := (HashTable.run V).
Notation fifo := (FifoMap.fifo V).
Notation lookup := (FifoMap.lookup V).
Notation update := (FifoMap.update V).
Notation sput := (FifoMap.put V).
Notation sstep := (FifoMap.step V).
Notation srun := (FifoMap.run V).
Notation keys := (map (@fst K V)).

(* ------------------------------------------------------------------ *)
(* association-list facts (model side)                                 *)
(* ------------------------------------------------------------------ *)

Lemma find_remove_same k mm : find k (remove k mm) = None.
Proof.
  induction mm as [|[k' v] r IH]; cbn; [reflexivity|].
  destruct (N.eqb_spec k k'); [exact IH|]. cbn.
  destruct (N.eqb_spec k k'); [contradiction|exact IH].
Qed.

Lemma find_remove_other k k' mm : k <> k' -> find k (remove k' mm) = find k mm.
Proof.
  intros H. induction mm as [|[k2 v] r IH]; cbn; [reflexivity|].
  destruct (N.eqb_spec k' k2) as [->|]; cbn.
  - destruct (N.eqb_spec k k2); [contradiction|exact IH].
  - destruct (N.eqb_spec k k2); [reflexivity|exact IH].
Qed.

Lemma find_None_notin k mm : find k mm = None <-> ~ In k (keys mm).
Proof.
  induction mm as [|[k' v] r IH]; cbn; [tauto|].
  destruct (N.eqb_spec k k') as [->|]; [split; [discriminate|tauto]|].
  rewrite IH. split; [intros H [E|E]; [congruence|tauto]|tauto].
Qed.

Lemma find_Some_in k mm : find k mm <> None <-> In k (keys mm).
Proof.
  rewrite find_None_notin. split; [|tauto].
  intros H. destruct (in_dec N.eq_dec k (keys mm)); [assumption|tauto].
Qed.

Lemma remove_notin k mm : ~ In k (keys mm) -> remove k mm = mm.
Proof.
  induction mm as [|[k' v] r IH]; cbn; [reflexivity|]. intros H.
  destruct (N.eqb_spec k k') as [->|]; [tauto|]. f_equal. apply IH. tauto.
Qed.

Lemma in_remove k k' mm : In k (keys (remove k' mm)) <-> In k (keys mm) /\ k <> k'.
Proof.
  induction mm as [|[k2 v] r IH]; cbn; [tauto|].
  destruct (N.eqb_spec k' k2) as [->|]; cbn; rewrite IH; split; intros; try tauto.
  - destruct H as [[H|H] H2]; [congruence|tauto].
  - destruct H as [H|H]; [subst; split; [tauto|congruence]|tauto].
Qed.

Lemma NoDup_remove k mm : NoDup (keys mm) -> NoDup (keys (remove k mm)).
Proof.
  induction mm as [|[k2 v] r IH]; cbn; [constructor|]. intros H. inversion H; subst.
  destruct (N.eqb_spec k k2); [auto|]. cbn. constructor; [rewrite in_remove; tauto|auto].
Qed.

Lemma length_remove_in k mm :
  NoDup (keys mm) -> In k (keys mm) -> S (length (remove k mm)) = length mm.
Proof.
  induction mm as [|[k2 v] r IH]; cbn; [tauto|]. intros H Hin. inversion H; subst.
  destruct (N.eqb_spec k k2) as [->|].
  - now rewrite remove_notin.
  - cbn. f_equal. apply IH; [assumption|]. destruct Hin; [congruence|assumption].
Qed.

Lemma NoDup_snoc (A : Type) (l : list A) (a : A) : NoDup l -> ~ In a l -> NoDup (l ++ [a]).
Proof.
  induction l as [|b l IH]; cbn; intros H Hn.
  - constructor; [tauto|constructor].
  - inversion H; subst. constructor.
    + rewrite in_app_iff. cbn. intros [E|[E|[]]]; [tauto|subst; tauto].
    + apply IH; tauto.
Qed.

(* ------------------------------------------------------------------ *)
(* facts about the spec's own list functions                           *)
(* ------------------------------------------------------------------ *)

Lemma lookup_find k s : lookup k s = find k s.
Proof. induction s as [|[k' v] r IH]; cbn; [reflexivity|]. now rewrite IH. Qed.

Lemma lookup_None_notin k s : lookup k s = None <-> ~ In k (keys s).
Proof. rewrite lookup_find. apply find_None_notin. Qed.

Lemma lookup_Some_in k s : lookup k s <> None <-> In k (keys s).
Proof. rewrite lookup_find. apply find_Some_in. Qed.

Lemma lookup_app_last x s k v :
  lookup x (s ++ [(k, v)]) =
  match lookup x s with Some y => Some y | None => if N.eqb x k then Some v else None end.
Proof.
  induction s as [|[k' v'] r IH]; cbn; [reflexivity|].
  destruct (N.eqb x k'); [reflexivity|exact IH].
Qed.

Lemma find_app_notin x (s : list (K * V)) k v :
  find x (s ++ [(k, v)]) =
  match find x s with Some y => Some y | None => if N.eqb x k then Some v else None end.
Proof. rewrite <- !lookup_find. apply lookup_app_last. Qed.

(* update: defined iff the key is present; keeps the key order; changes one value *)
Lemma supd_spec k v s :
  match update k v s with
  | Some s' => In k (keys s) /\ keys s' = keys s /\
               (forall x, lookup x s' = if N.eqb x k then Some v else lookup x s)
  | None => ~ In k (keys s)
  end.
Proof.
  induction s as [|[k' v'] r IH]; cbn; [tauto|].
  destruct (N.eqb_spec k k') as [->|Hne].
  - split; [tauto|]. split; [reflexivity|]. intros x. cbn. destruct (N.eqb_spec x k'); reflexivity.
  - destruct (update k v r) as [r'|].
    + destruct IH as (I1 & I2 & I3). split; [tauto|]. split; [cbn; now rewrite I2|]. intros x. cbn.
      destruct (N.eqb_spec x k') as [->|]; [destruct (N.eqb_spec k' k); [congruence|reflexivity]|apply I3].
    + intros [E|E]; [congruence|tauto].
Qed.

Lemma update_length k v s s' : update k v s = Some s' -> length s' = length s.
Proof.
  intros H. pose proof (supd_spec k v s) as P. rewrite H in P. destruct P as (_ & P & _).
  rewrite <- (map_length (@fst K V) s'), P. apply map_length.
Qed.

(* ------------------------------------------------------------------ *)
(* refinement relation                                                 *)
(* ------------------------------------------------------------------ *)

Definition Rc (qq : list K) (mm : list (K * V)) (s : fifo) : Prop :=
  qq = keys s /\ NoDup qq /\ (forall k, find k mm = lookup k s) /\
  length mm = length s /\ NoDup (keys mm).

Definition R (t : ht) (s : fifo) : Prop := Rc (q t) (m t) s.

Lemma R_unfold t s :
  R t s <->
  q t = map fst s /\ NoDup (q t) /\ (forall k, find k (m t) = lookup k s) /\
  length (m t) = length s /\ NoDup (map fst (m t)).
Proof. reflexivity. Qed.

Lemma R_new c : R (new c) [].
Proof. repeat split; cbn; constructor. Qed.

Lemma R_clear t : R (HashTable.clear V t) [].
Proof. repeat split; cbn; constructor. Qed.

(* HashMap::insert + conditional push_back  ~  update-or-append *)
Lemma insert_Rc qq mm s k v :
  Rc qq mm s ->
  Rc (if match find k mm with None => true | Some _ => false end then qq ++ [k] else qq)
     (insert k v mm)
     (match update k v s with Some s' => s' | None => s ++ [(k, v)] end).
Proof.
  intros (Hq & Hnd & Hf & Hl & Hm).
  pose proof (supd_spec k v s) as P. unfold HashTable.insert.
  destruct (update k v s) as [s'|] eqn:Hu.
  - destruct P as (Pin & Pk & Pl).
    assert (Hin : In k (keys mm)) by (apply find_Some_in; rewrite Hf; now apply lookup_Some_in).
    destruct (find k mm) eqn:Hfk; [|apply find_None_notin in Hfk; tauto].
    unfold Rc. split; [congruence|]. split; [assumption|]. split; [|split].
    + intros x. cbn. rewrite Pl. destruct (N.eqb_spec x k); [reflexivity|].
      rewrite find_remove_other by assumption. apply Hf.
    + cbn. rewrite length_remove_in by assumption. rewrite Hl. symmetry. eapply update_length; eassumption.
    + cbn. constructor; [rewrite in_remove; tauto|now apply NoDup_remove].
  - assert (Hfk : find k mm = None) by (rewrite Hf; now apply lookup_None_notin).
    rewrite Hfk. assert (Hn : ~ In k (keys mm)) by now apply find_None_notin.
    rewrite (remove_notin k mm Hn).
    unfold Rc. split; [|split; [|split; [|split]]].
    + rewrite map_app. cbn. congruence.
    + apply NoDup_snoc; [assumption|]. rewrite Hq. assumption.
    + intros x. cbn. rewrite lookup_app_last, <- Hf.
      destruct (N.eqb_spec x k) as [->|]; [now rewrite Hfk|]. now destruct (find x mm).
    + cbn. rewrite app_length. cbn. lia.
    + cbn. constructor; assumption.
Qed.

(* pop_front + HashMap::remove  ~  tl *)
Lemma evict_Rc qq mm s :
  Rc qq mm s -> (0 < length mm)%nat ->
  exists h tl', qq = h :: tl' /\ Rc tl' (remove h mm) (tl s).
Proof.
  intros (Hq & Hnd & Hf & Hl & Hm) Hpos.
  destruct s as [|[h vh] sr]; [cbn in Hl; lia|].
  cbn in Hq. exists h, (keys sr). split; [assumption|].
  subst qq. inversion Hnd as [|? ? Hnh Hnd']; subst. cbn [tl].
  assert (Hin : In h (keys mm)).
  { apply find_Some_in. rewrite Hf. cbn. rewrite N.eqb_refl. discriminate. }
  unfold Rc. split; [reflexivity|]. split; [assumption|]. split; [|split].
  - intros x. destruct (N.eq_dec x h) as [->|Hne].
    + rewrite find_remove_same. symmetry. now apply lookup_None_notin.
    + rewrite find_remove_other by assumption. rewrite Hf. cbn.
      destruct (N.eqb_spec x h); [contradiction|reflexivity].
  - pose proof (length_remove_in h mm Hm Hin). cbn in Hl. lia.
  - now apply NoDup_remove.
Qed.

Lemma put_refines t s k v :
  R t s ->
  exists t', mput t k v = Some t' /\ cap t' = cap t /\ R t' (sput (cap t) s k v).
Proof.
  intros HR. pose proof (insert_Rc _ _ _ k v HR) as H1.
  unfold HashTable.put, FifoMap.put.
  set (q1 := if match find k (m t) with None => true | Some _ => false end then q t ++ [k] else q t) in *.
  set (m1 := insert k v (m t)) in *.
  set (s1 := match update k v s with Some s' => s' | None => s ++ [(k, v)] end) in *.
  assert (Hl : length m1 = length s1) by (destruct H1 as (_ & _ & _ & Hl & _); exact Hl).
  rewrite <- Hl.
  destruct (Nat.ltb_spec (cap t) (length m1)) as [Hlt|Hge].
  - destruct (evict_Rc _ _ _ H1) as (h & tl' & Eq & HR'); [lia|].
    rewrite Eq. eexists. split; [reflexivity|]. split; [reflexivity|exact HR'].
  - eexists. split; [reflexivity|]. split; [reflexivity|exact H1].
Qed.

Lemma step_refines t s o :
  R t s ->
  exists t', mstep t o = Some (t', snd (sstep (cap t) s o)) /\ cap t' = cap t /\
             R t' (fst (sstep (cap t) s o)).
Proof.
  intros HR. destruct o as [k v|k| |]; cbn [HashTable.step FifoMap.step fst snd].
  - destruct (put_refines t s k v HR) as (t' & E & Hc & HR'). rewrite E.
    exists t'. split; [reflexivity|]. split; assumption.
  - exists t. unfold HashTable.get. destruct HR as (Hq & Hn & Hf & Hl & Hm). rewrite Hf.
    split; [reflexivity|]. split; [reflexivity|]. repeat split; assumption.
  - eexists. split; [reflexivity|]. split; [reflexivity|apply R_clear].
  - exists t. unfold HashTable.len. destruct HR as (Hq & Hn & Hf & Hl & Hm). rewrite Hl.
    split; [reflexivity|]. split; [reflexivity|]. repeat split; assumption.
Qed.

Lemma run_refines ops : forall t s,
  R t s ->
  exists t', mrun t ops = Some (t', snd (srun (cap t) s ops)) /\ cap t' = cap t /\
             R t' (fst (srun (cap t) s ops)).
Proof.
  induction ops as [|o r IH]; intros t s HR.
  - exists t. cbn. auto.
  - destruct (step_refines t s o HR) as (t1 & E1 & Hc1 & HR1).
    destruct (IH t1 _ HR1) as (t2 & E2 & Hc2 & HR2).
    cbn [HashTable.run FifoMap.run]. rewrite E1.
    destruct (sstep (cap t) s o) as [s1 x] eqn:Es. cbn [fst snd] in *.
    rewrite Hc1 in *. rewrite E2.
    destruct (srun (cap t) s1 r) as [s2 xs] eqn:Er. cbn [fst snd] in *.
    exists t2. split; [reflexivity|]. split; [congruence|assumption].
Qed.

(* ------------------------------------------------------------------ *)
(* the spec's own invariant: distinct keys, size within capacity        *)
(* ------------------------------------------------------------------ *)

Definition sinv (c : nat) (s : fifo) : Prop := NoDup (keys s) /\ (length s <= c)%nat.

Lemma tl_length (A : Type) (l : list A) : length (tl l) = (length l - 1)%nat.
Proof. destruct l; cbn; lia. Qed.

Lemma NoDup_tl (A : Type) (l : list A) : NoDup l -> NoDup (tl l).
Proof. destruct l; cbn; [auto|]. intros H. now inversion H. Qed.

Lemma keys_tl (s : fifo) : keys (tl s) = tl (keys s).
Proof. now destruct s. Qed.

Lemma sput_sinv c s k v : sinv c s -> sinv c (sput c s k v).
Proof.
  intros [Hn Hl]. unfold FifoMap.put.
  pose proof (supd_spec k v s) as P.
  set (s1 := match update k v s with Some s' => s' | None => s ++ [(k, v)] end).
  assert (H1 : NoDup (keys s1) /\ (length s1 <= S (length s))%nat).
  { subst s1. destruct (update k v s) as [s'|] eqn:Hu.
    - destruct P as (_ & Pk & _). rewrite Pk. split; [assumption|].
      rewrite (update_length _ _ _ _ Hu). lia.
    - rewrite map_app, app_length. cbn. split; [now apply NoDup_snoc|lia]. }
  destruct H1 as [Hn1 Hl1].
  destruct (Nat.ltb_spec c (length s1)).
  - split; [rewrite keys_tl; now apply NoDup_tl|rewrite tl_length; lia].
  - split; assumption.
Qed.

Lemma sstep_sinv c s o : sinv c s -> sinv c (fst (sstep c s o)).
Proof.
  intros H. destruct o; cbn; try assumption.
  - now apply sput_sinv.
  - split; [constructor|cbn; lia].
Qed.

Lemma srun_sinv c ops : forall s, sinv c s -> sinv c (fst (srun c s ops)).
Proof.
  induction ops as [|o r IH]; intros s H; [exact H|].
  cbn. pose proof (sstep_sinv c s o H) as H1.
  destruct (sstep c s o) as [s1 x]. cbn in H1. specialize (IH s1 H1).
  destruct (srun c s1 r) as [s2 xs]. exact IH.
Qed.

Lemma sinv_nil c : sinv c [].
Proof. split; [constructor|cbn; lia]. Qed.

(* ------------------------------------------------------------------ *)
(* main statements                                                      *)
(* ------------------------------------------------------------------ *)

Definition reachable (c : nat) (s : fifo) : Prop := exists ops, s = fst (srun c [] ops).

Lemma no_panic : forall (c : nat) (ops : list (op V)), (1 <= c)%nat ->
  exists t outs, mrun (new c) ops = Some (t, outs).
Proof.
  intros c ops _. destruct (run_refines ops (new c) [] (R_new c)) as (t & E & _). eauto.
Qed.

Lemma refines : forall (c : nat) (ops : list (op V)), (1 <= c)%nat ->
  exists t outs, mrun (new c) ops = Some (t, outs) /\
    outs = snd (srun c [] ops) /\
    exists s, s = fst (srun c [] ops) /\
      q t = map fst s /\ NoDup (q t) /\ (forall k, find k (m t) = lookup k s) /\
      length (m t) = length s /\ NoDup (map fst (m t)).
Proof.
  intros c ops _. destruct (run_refines ops (new c) [] (R_new c)) as (t & E & _ & HR).
  cbn [HashTable.cap HashTable.new] in *. exists t, (snd (srun c [] ops)).
  split; [exact E|]. split; [reflexivity|]. eexists. split; [reflexivity|exact HR].
Qed.

Lemma invariant : forall (c : nat) (ops : list (op V)), (1 <= c)%nat ->
  exists t outs, mrun (new c) ops = Some (t, outs) /\
    NoDup (q t) /\ (forall k, In k (q t) <-> find k (m t) <> None) /\
    (len t <= c)%nat /\ len t = length (q t) /\ cap t = c.
Proof.
  intros c ops _. destruct (run_refines ops (new c) [] (R_new c)) as (t & E & Hc & HR).
  cbn [HashTable.cap HashTable.new] in *.
  destruct (srun_sinv c ops [] (sinv_nil c)) as [_ Hle].
  destruct HR as (Hq & Hn & Hf & Hl & Hm).
  exists t, (snd (srun c [] ops)). split; [exact E|]. split; [assumption|].
  split; [|split; [|split]].
  - intros k. rewrite Hq, Hf. symmetry. apply lookup_Some_in.
  - unfold HashTable.len. lia.
  - unfold HashTable.len. rewrite Hq, map_length. assumption.
  - assumption.
Qed.

(* the three statements hold for capacity 0 as well (nothing is ever retained);
   kept for the record, the pinned theorems use 1 <= c *)
Lemma run_total : forall (c : nat) (ops : list (op V)),
  exists t, mrun (new c) ops = Some (t, snd (srun c [] ops)) /\ R t (fst (srun c [] ops)).
Proof.
  intros c ops. destruct (run_refines ops (new c) [] (R_new c)) as (t & E & _ & HR). eauto.
Qed.

(* ------------------------------------------------------------------ *)
(* readable facts about the SPEC (what "bounded FIFO map" means)        *)
(* ------------------------------------------------------------------ *)

(* the three cases of put on a state within capacity *)
Lemma sput_present c s k v :
  (length s <= c)%nat -> In k (keys s) ->
  exists s', update k v s = Some s' /\ sput c s k v = s' /\ keys s' = keys s /\
             length s' = length s /\
             (forall x, lookup x s' = if N.eqb x k then Some v else lookup x s).
Proof.
  intros Hl Hin. pose proof (supd_spec k v s) as P. unfold FifoMap.put.
  destruct (update k v s) as [s'|] eqn:Hu; [|tauto].
  destruct P as (_ & Pk & Pl). pose proof (update_length _ _ _ _ Hu) as Hl'.
  exists s'. split; [reflexivity|]. split; [|auto].
  destruct (Nat.ltb_spec c (length s')); [lia|reflexivity].
Qed.

Lemma sput_absent_room c s k v :
  (length s < c)%nat -> ~ In k (keys s) -> sput c s k v = s ++ [(k, v)].
Proof.
  intros Hl Hn. pose proof (supd_spec k v s) as P. unfold FifoMap.put.
  destruct (update k v s) as [s'|]; [tauto|].
  destruct (Nat.ltb_spec c (length (s ++ [(k, v)]))) as [H|H]; [|reflexivity].
  rewrite app_length in H. cbn in H. lia.
Qed.

Lemma sput_absent_full c s k v :
  (1 <= c)%nat -> length s = c -> ~ In k (keys s) -> sput c s k v = tl s ++ [(k, v)].
Proof.
  intros Hc Hl Hn. pose proof (supd_spec k v s) as P. unfold FifoMap.put.
  destruct (update k v s) as [s'|]; [tauto|].
  destruct (Nat.ltb_spec c (length (s ++ [(k, v)]))) as [H|H].
  - destruct s; [cbn in Hl; lia|reflexivity].
  - rewrite app_length in H. cbn in H. lia.
Qed.

(* (a) a lookup right after a put sees the value *)
Lemma spec_put_get c s k v :
  (1 <= c)%nat -> (length s <= c)%nat -> lookup k (sput c s k v) = Some v.
Proof.
  intros Hc Hl. destruct (in_dec N.eq_dec k (keys s)) as [Hin|Hn].
  - destruct (sput_present c s k v Hl Hin) as (s' & _ & -> & _ & _ & Pl).
    rewrite Pl, N.eqb_refl. reflexivity.
  - assert (Hnone : forall s0, ~ In k (keys s0) -> lookup k (s0 ++ [(k, v)]) = Some v).
    { intros s0 H0. rewrite lookup_app_last, N.eqb_refl.
      apply lookup_None_notin in H0. now rewrite H0. }
    destruct (Nat.eq_dec (length s) c) as [E|E].
    + rewrite sput_absent_full by assumption. apply Hnone.
      rewrite keys_tl. intros H. apply Hn. destruct (keys s); [assumption|now right].
    + rewrite sput_absent_room by (assumption || lia). now apply Hnone.
Qed.

Lemma spec_put_then_get c ops k v :
  (1 <= c)%nat ->
  snd (srun c (fst (srun c [] ops)) [Put k v; Get k]) = [OUnit; OGet (Some v)].
Proof.
  intros Hc. destruct (srun_sinv c ops [] (sinv_nil c)) as [_ Hl].
  cbn. now rewrite spec_put_get.
Qed.

(* a put never disturbs another key, except for the one evicted head *)
Lemma spec_put_other c s k v x :
  (1 <= c)%nat -> sinv c s -> x <> k ->
  lookup x (sput c s k v) =
  if andb (Nat.eqb (length s) c)
          (andb (match lookup k s with None => true | Some _ => false end)
                (match s with (h, _) :: _ => N.eqb x h | [] => false end))
  then None else lookup x s.
Proof.
  intros Hc [Hnd Hl] Hx. destruct (in_dec N.eq_dec k (keys s)) as [Hin|Hn].
  - destruct (sput_present c s k v Hl Hin) as (s' & _ & -> & _ & _ & Pl).
    rewrite Pl. apply N.eqb_neq in Hx. rewrite Hx.
    apply lookup_Some_in in Hin. destruct (lookup k s); [|congruence].
    cbn. now rewrite andb_false_r.
  - assert (Hk : lookup k s = None) by now apply lookup_None_notin. rewrite Hk. cbn [andb].
    destruct (Nat.eqb_spec (length s) c) as [E|E]; cbn [andb].
    + rewrite sput_absent_full by assumption. rewrite lookup_app_last.
      apply N.eqb_neq in Hx. rewrite Hx.
      destruct s as [|[h vh] sr]; [reflexivity|]. cbn [tl lookup].
      destruct (N.eqb_spec x h) as [->|Hne]; [|now destruct (lookup x sr)].
      cbn in Hnd. inversion Hnd; subst.
      assert (Hh : lookup h sr = None) by now apply lookup_None_notin. now rewrite Hh.
    + rewrite sput_absent_room by (assumption || lia). rewrite lookup_app_last.
      apply N.eqb_neq in Hx. rewrite Hx. now destruct (lookup x s).
Qed.

(* (b) re-putting a present key: same key order (age not refreshed), same size *)
Lemma spec_reput_keeps_order c s k v :
  (length s <= c)%nat -> In k (keys s) ->
  keys (sput c s k v) = keys s /\ length (sput c s k v) = length s.
Proof.
  intros Hl Hin. destruct (sput_present c s k v Hl Hin) as (s' & _ & -> & Pk & Pl' & _). auto.
Qed.

(* (c) full map, new key: exactly the oldest key goes, the new key is the newest *)
Lemma spec_evicts_oldest c s k v :
  (1 <= c)%nat -> length s = c -> ~ In k (keys s) ->
  keys (sput c s k v) = tl (keys s) ++ [k] /\ length (sput c s k v) = c.
Proof.
  intros Hc Hl Hn. rewrite sput_absent_full by assumption.
  rewrite map_app, keys_tl, app_length, tl_length. cbn. split; [reflexivity|lia].
Qed.

(* not full, new key: nothing goes, the new key is the newest *)
Lemma spec_appends_when_room c s k v :
  (length s < c)%nat -> ~ In k (keys s) ->
  keys (sput c s k v) = keys s ++ [k] /\ length (sput c s k v) = S (length s).
Proof.
  intros Hl Hn. rewrite sput_absent_room by assumption.
  rewrite map_app, app_length. cbn. split; [reflexivity|lia].
Qed.

(* (d) clear empties *)
Lemma spec_clear_empties c s :
  fst (sstep c s Clear) = [] /\ forall k, lookup k (fst (sstep c s Clear)) = None.
Proof. split; reflexivity. Qed.

(* (e) size within capacity, keys distinct, in every reachable state *)
Lemma spec_length_le_cap c ops : (length (fst (srun c [] ops)) <= c)%nat.
Proof. exact (proj2 (srun_sinv c ops [] (sinv_nil c))). Qed.

Lemma spec_keys_nodup c ops : NoDup (keys (fst (srun c [] ops))).
Proof. exact (proj1 (srun_sinv c ops [] (sinv_nil c))). Qed.

(* Len reports the real number of entries, Get is lookup: by definition of step *)
Lemma spec_len_get c s k :
  snd (sstep c s Len) = OLen (length s) /\ snd (sstep c s (Get k)) = OGet (lookup k s).
Proof. split; reflexivity. Qed.

End HashTableProofs.

(* Proofs/HistoryProofs.v : Model/History.v against Spec/Draws.v (repetition core of C10). *)
Require Import NArith ZArith List Bool Lia.
Import ListNotations.
Require Import Ink.Spec.Draws Ink.Model.History.
Open Scope N_scope.

Arguments N.add : simpl never.
Arguments N.sub : simpl never.
Arguments N.mul : simpl never.
Arguments N.div : simpl never.
Arguments N.modulo : simpl never.
Arguments N.eqb : simpl never.
Arguments N.ltb : simpl never.
Arguments N.leb : simpl never.
Arguments Z.add : simpl never.
Arguments Z.mul : simpl never.
Ltac Zify.zify_post_hook ::= Z.to_euclidean_division_equations.

(* ------------------------------------------------------------------ *)
(* array semantics of hset / hget                                       *)

Lemma hget_hset_same h i v : hget (hset h i v) i = v.
Proof. unfold hset. cbn [hget]. now rewrite N.eqb_refl. Qed.

Lemma hget_hset_other h i v j : j <> i -> hget (hset h i v) j = hget h j.
Proof. intro Hne. unfold hset. cbn [hget]. destruct (N.eqb_spec j i); [contradiction|reflexivity]. Qed.

Lemma hget_hset h i v j : hget (hset h i v) j = if j =? i then v else hget h j.
Proof. reflexivity. Qed.

(* unwritten entries read as 0, for any index *)
Lemma hget_hempty j : hget hempty j = 0.
Proof. reflexivity. Qed.

(* ------------------------------------------------------------------ *)
(* below / countb / window                                              *)

Lemma below_0 : below 0 = [].
Proof. reflexivity. Qed.

Lemma below_succ n : below (N.succ n) = n :: below n.
Proof. unfold below. now rewrite N.peano_rect_succ. Qed.

Lemma below_pos n : 0 < n -> below n = (n - 1) :: below (n - 1).
Proof. intro H. rewrite <- below_succ. f_equal. lia. Qed.

Lemma below_In n : forall j, In j (below n) <-> j < n.
Proof.
  induction n as [|n IH] using N.peano_ind; intro j.
  - rewrite below_0. cbn. lia.
  - rewrite below_succ. cbn [In]. rewrite IH. lia.
Qed.

Lemma filter_nil {A} (p : A -> bool) l : (forall x, In x l -> p x = false) -> filter p l = [].
Proof.
  induction l as [|a l IH]; intro H; [reflexivity|]. cbn [filter].
  rewrite (H a (or_introl eq_refl)). apply IH. intros x Hx. apply H. now right.
Qed.

Lemma countb_ext f g l : (forall x, In x l -> f x = g x) -> countb f l = countb g l.
Proof.
  induction l as [|a l IH]; intro H; [reflexivity|]. cbn [countb].
  rewrite (H a (or_introl eq_refl)). f_equal. apply IH. intros x Hx. apply H. now right.
Qed.

Lemma countb_filter f p l : countb f (filter p l) = countb (fun x => p x && f x) l.
Proof.
  induction l as [|a l IH]; [reflexivity|]. cbn [filter countb].
  destruct (p a); cbn [countb andb]; rewrite IH; reflexivity.
Qed.

Lemma in_window_iff i hm j :
  in_window i hm j = true <-> (j mod 2 = i mod 2 /\ j + 4 <= i /\ i - hm <= j).
Proof.
  unfold in_window. rewrite !andb_true_iff, N.eqb_eq, !N.leb_le. tauto.
Qed.

(* the window, characterised by membership ... *)
Lemma window_In i hm j :
  In j (window i hm) <-> (j mod 2 = i mod 2 /\ j + 4 <= i /\ i - hm <= j).
Proof.
  unfold window. rewrite filter_In, below_In, in_window_iff. lia.
Qed.

(* ... and order: strictly descending *)
Lemma below_desc n : forall j, j < n -> exists l1 l2, below n = l1 ++ j :: l2 /\ (forall x, In x l2 -> x < j) /\ (forall x, In x l1 -> j < x).
Proof.
  induction n as [|n IH] using N.peano_ind; intros j Hj; [lia|].
  rewrite below_succ. destruct (N.eq_dec j n) as [->|Hne].
  - exists [], (below n). split; [reflexivity|]. split; [intro x; apply below_In|intros x []].
  - destruct (IH j ltac:(lia)) as (l1 & l2 & E & H2 & H1). exists (n :: l1), l2. rewrite E.
    split; [reflexivity|]. split; [exact H2|]. intros x [<-|Hx]; [lia|auto].
Qed.

Lemma window_small i hm : i < 4 -> window i hm = [].
Proof.
  intro H. unfold window. apply filter_nil. intros x _.
  destruct (in_window i hm x) eqn:E; [|reflexivity]. apply in_window_iff in E. lia.
Qed.

Lemma filter_below_cut (p : N -> bool) m : forall n, m <= n ->
  (forall x, m <= x < n -> p x = false) -> filter p (below n) = filter p (below m).
Proof.
  induction n as [|n IH] using N.peano_ind; intros Hle Hp.
  - replace m with 0 by lia. reflexivity.
  - destruct (N.eq_dec m (N.succ n)) as [->|Hne]; [reflexivity|].
    rewrite below_succ. cbn [filter]. rewrite Hp by lia. apply IH; [lia|]. intros x Hx. apply Hp. lia.
Qed.

(* ------------------------------------------------------------------ *)
(* the loop                                                             *)

Section Loop.
Variable h : hist.
Variable i hm : N.
Let z := hget h i.
Let lo := i - hm.
Let cnt := countb (fun j => hget h j =? z).

(* a negative index ends the loop *)
Lemma count_loop_neg fuel (cur : Z) reps :
  (cur < 0)%Z -> count_loop (S fuel) h z (Z.of_N lo) cur reps = Some reps.
Proof.
  intro H. cbn [count_loop]. destruct (Z.leb_spec (Z.of_N lo) cur); [lia|reflexivity].
Qed.

Lemma window_step cur :
  cur mod 2 = i mod 2 -> cur + 4 <= i -> lo <= cur -> 2 <= cur ->
  filter (in_window i hm) (below (cur + 1)) = cur :: filter (in_window i hm) (below (cur - 2 + 1)).
Proof.
  intros Hp H4 Hlo H2.
  replace (cur + 1) with (N.succ cur) by lia. rewrite below_succ.
  replace cur with (N.succ (cur - 1)) at 2 by lia. rewrite below_succ.
  replace (cur - 2 + 1) with (cur - 1) by lia.
  cbn [filter].
  assert (E1 : in_window i hm cur = true) by (apply in_window_iff; unfold lo in Hlo; lia).
  assert (E2 : in_window i hm (cur - 1) = false).
  { destruct (in_window i hm (cur - 1)) eqn:E; [|reflexivity]. apply in_window_iff in E. lia. }
  now rewrite E1, E2.
Qed.

Lemma window_last cur :
  cur mod 2 = i mod 2 -> cur + 4 <= i -> lo <= cur -> cur < 2 ->
  filter (in_window i hm) (below (cur + 1)) = [cur].
Proof.
  intros Hp H4 Hlo H2.
  replace (cur + 1) with (N.succ cur) by lia. rewrite below_succ. cbn [filter].
  assert (E1 : in_window i hm cur = true) by (apply in_window_iff; unfold lo in Hlo; lia).
  rewrite E1. f_equal. apply filter_nil. intros x Hx. apply below_In in Hx.
  destruct (in_window i hm x) eqn:E; [|reflexivity]. apply in_window_iff in E. lia.
Qed.

Lemma window_stop cur :
  cur < lo -> filter (in_window i hm) (below (cur + 1)) = [].
Proof.
  intro H. apply filter_nil. intros x Hx. apply below_In in Hx.
  destruct (in_window i hm x) eqn:E; [|reflexivity]. apply in_window_iff in E. unfold lo in H. lia.
Qed.

Lemma count_loop_spec : forall fuel cur reps,
  (N.to_nat (cur / 2) + 2 <= fuel)%nat ->
  cur mod 2 = i mod 2 -> cur + 4 <= i -> 1 <= reps <= 2 ->
  count_loop fuel h z (Z.of_N lo) (Z.of_N cur) reps
  = Some (N.min 3 (reps + cnt (filter (in_window i hm) (below (cur + 1))))).
Proof.
  induction fuel as [|fuel IH]; intros cur reps Hf Hp H4 Hr; [lia|].
  cbn [count_loop].
  destruct (Z.leb_spec (Z.of_N lo) (Z.of_N cur)) as [Hle|Hgt].
  - rewrite N2Z.id.
    assert (Hlo : lo <= cur) by lia.
    destruct (N.lt_ge_cases cur 2) as [Hsm|Hbig].
    + (* last element: the next index is negative *)
      rewrite (window_last cur Hp H4 Hlo Hsm). unfold cnt. cbn [countb].
      destruct fuel as [|fuel]; [lia|].
      destruct (hget h cur =? z).
      * destruct (N.leb_spec 3 (reps + 1)); [f_equal; lia|].
        rewrite count_loop_neg by lia. f_equal; lia.
      * rewrite count_loop_neg by lia. f_equal; lia.
    + rewrite (window_step cur Hp H4 Hlo Hbig). unfold cnt. cbn [countb]. fold cnt.
      replace (Z.of_N cur - 2)%Z with (Z.of_N (cur - 2)) by lia.
      assert (Hf' : (N.to_nat ((cur - 2) / 2) + 2 <= fuel)%nat).
      { assert ((cur - 2) / 2 + 1 = cur / 2) by lia. lia. }
      assert (Hp' : (cur - 2) mod 2 = i mod 2) by lia.
      destruct (hget h cur =? z).
      * destruct (N.leb_spec 3 (reps + 1)); [f_equal; lia|].
        rewrite IH by (try assumption; lia). f_equal; lia.
      * rewrite IH by (try assumption; lia). f_equal; lia.
  - rewrite window_stop by lia. unfold cnt. cbn [countb]. f_equal; lia.
Qed.

End Loop.

(* extra fuel changes nothing: the fuel is only a termination device *)
Lemma count_loop_fuel h z mn : forall fuel cur reps r,
  count_loop fuel h z mn cur reps = Some r -> forall k, count_loop (fuel + k) h z mn cur reps = Some r.
Proof.
  induction fuel as [|fuel IH]; intros cur reps r E k; [discriminate|].
  cbn [count_loop plus] in *.
  destruct (mn <=? cur)%Z; [|exact E].
  destruct (hget h (Z.to_N cur) =? z).
  - destruct (3 <=? reps + 1); [exact E|]. now apply IH.
  - now apply IH.
Qed.

(* ------------------------------------------------------------------ *)
(* count_repetitions                                                    *)

Lemma max0_sub (i hm : N) : Z.max 0 (Z.of_N i - Z.of_N hm) = Z.of_N (i - hm).
Proof. lia. Qed.

Lemma count_fuel_small h i hm : i < 4 -> count_repetitions_fuel h i hm = Some 0.
Proof. intro H. unfold count_repetitions_fuel. destruct (N.ltb_spec i 4); [reflexivity|lia]. Qed.

Lemma count_fuel_exact h i hm : 4 <= i ->
  count_repetitions_fuel h i hm = Some (N.min 3 (1 + occurrences (hget h) i hm)).
Proof.
  intros H4. unfold count_repetitions_fuel.
  destruct (N.ltb_spec i 4); [lia|].
  cbv zeta. rewrite max0_sub.
  replace (Z.of_N i - 4)%Z with (Z.of_N (i - 4)) by lia.
  rewrite count_loop_spec with (i := i) (hm := hm).
  - unfold occurrences, window. replace (i - 4 + 1) with (i - 3) by lia.
    (* indices i-3 .. i-1 are not in the window *)
    rewrite (filter_below_cut (in_window i hm) (i - 3) i); [reflexivity|lia|].
    intros x Hx. destruct (in_window i hm x) eqn:E; [|reflexivity]. apply in_window_iff in E. lia.
  - assert ((i - 4) / 2 + 2 = i / 2) by lia. lia.
  - lia.
  - lia.
  - lia.
Qed.

(* the fuel is never exhausted: the option-free [count_repetitions] is the loop's result *)
Lemma count_repetitions_fuel_some h i hm :
  count_repetitions_fuel h i hm = Some (count_repetitions h i hm).
Proof.
  unfold count_repetitions. destruct (N.lt_ge_cases i 4) as [Hs|Hb].
  - now rewrite count_fuel_small.
  - now rewrite count_fuel_exact.
Qed.

Lemma count_no_panic h i hm : count_repetitions_fuel h i hm <> None.
Proof. rewrite count_repetitions_fuel_some. discriminate. Qed.

Lemma count_small h i hm : i < 4 -> count_repetitions h i hm = 0.
Proof. intro H. unfold count_repetitions. now rewrite count_fuel_small. Qed.

Lemma count_exact h i hm : 4 <= i ->
  count_repetitions h i hm = N.min 3 (1 + occurrences (hget h) i hm).
Proof. intro H. unfold count_repetitions. now rewrite count_fuel_exact. Qed.

Lemma count_total h i hm :
  count_repetitions h i hm = if i <? 4 then 0 else N.min 3 (1 + occurrences (hget h) i hm).
Proof.
  destruct (N.ltb_spec i 4); [now apply count_small|now apply count_exact].
Qed.

Lemma count_ge3_iff h i hm :
  3 <= count_repetitions h i hm <-> 2 <= occurrences (hget h) i hm.
Proof.
  rewrite count_total.
  destruct (N.ltb_spec i 4) as [Hs|Hs]; [|lia].
  unfold occurrences. rewrite window_small by exact Hs. cbn [countb]. lia.
Qed.

Lemma count_le3 h i hm : count_repetitions h i hm <= 3.
Proof. rewrite count_total. destruct (i <? 4); lia. Qed.

(* the `as u16` cast of the caller *)
Lemma count_u32_small h i hm : hm < 65536 -> count_repetitions_u32 h i hm = count_repetitions h i hm.
Proof. intro H. unfold count_repetitions_u32. now rewrite N.mod_small. Qed.

(* search_negamax step *)
Lemma visit_spec h d p key hm :
  visit h d p key hm =
  ((p, key) :: h, (0 <? d) && (2 <=? occurrences (hget ((p, key) :: h)) p (hm mod 65536))).
Proof.
  unfold visit, hset, count_repetitions_u32. f_equal. f_equal.
  pose proof (count_ge3_iff ((p, key) :: h) p (hm mod 65536)) as G.
  set (c := count_repetitions _ _ _) in *. set (o := occurrences _ _ _) in *.
  destruct (N.leb_spec 3 c); destruct (N.leb_spec 2 o); try reflexivity; lia.
Qed.

(* the root of the search never takes the repetition leaf (fix 47e8879) *)
Lemma visit_root h p key hm : snd (visit h 0 p key hm) = false.
Proof. reflexivity. Qed.

(* ------------------------------------------------------------------ *)
(* spec level: the window sees every repetition                         *)

Lemma window_all k i hm : parity_ok k i hm -> no_dist2 k i hm ->
  occurrences k i hm = all_occurrences k i hm.
Proof.
  intros Hpar Hd2. unfold occurrences, all_occurrences, window. rewrite !countb_filter.
  apply countb_ext. intros j Hj. apply below_In in Hj.
  destruct (N.eqb_spec (k j) (k i)) as [E|E]; [|now rewrite !andb_false_r].
  rewrite !andb_true_r.
  destruct (N.leb_spec (i - hm) j) as [Hlo|Hlo].
  - apply in_window_iff.
    assert (Hev : (i - j) mod 2 <> 1) by (intro Ho; exact (Hpar j Hj Hlo Ho E)).
    assert (Hn2 : j + 2 <> i) by (intro E2; apply (Hd2 j E2); [lia|exact E]).
    lia.
  - destruct (in_window i hm j) eqn:W; [|reflexivity]. apply in_window_iff in W. lia.
Qed.

(* ---- lists of keys ---- *)

Lemma range_take : forall prevs (k : N -> N) i hm f,
  lenN prevs <= i -> hm <= lenN prevs ->
  (forall d x, nth_errorN d prevs = Some x -> k (i - 1 - d) = x) ->
  countb (fun j => f (k j)) (filter (fun j => i - hm <=? j) (below i)) = countb f (take hm prevs).
Proof.
  unfold lenN. induction prevs as [|x r IH]; intros k i hm f Hlen Hhm Hk.
  - cbn in Hhm. assert (hm = 0) by lia. subst hm. rewrite N.sub_0_r.
    rewrite filter_nil; [reflexivity|]. intros y Hy. apply below_In in Hy.
    destruct (N.leb_spec i y); [lia|reflexivity].
  - cbn [length] in Hlen, Hhm. cbn [take]. destruct (N.eqb_spec hm 0) as [->|Hnz].
    + rewrite N.sub_0_r. rewrite filter_nil; [reflexivity|]. intros y Hy. apply below_In in Hy.
      destruct (N.leb_spec i y); [lia|reflexivity].
    + rewrite (below_pos i) by lia. cbn [filter].
      destruct (N.leb_spec (i - hm) (i - 1)); [|lia]. cbn [countb].
      assert (E0 : k (i - 1) = x).
      { specialize (Hk 0 x). cbn [nth_errorN] in Hk. rewrite N.eqb_refl in Hk.
        rewrite N.sub_0_r in Hk. now apply Hk. }
      rewrite E0. f_equal.
      rewrite <- (IH k (i - 1) (hm - 1) f); [| lia | lia |].
      * f_equal. apply filter_ext. intro y. replace (i - 1 - (hm - 1)) with (i - hm) by lia. reflexivity.
      * intros d y Hd. specialize (Hk (d + 1) y). cbn [nth_errorN] in Hk.
        destruct (N.eqb_spec (d + 1) 0); [lia|]. replace (d + 1 - 1) with d in Hk by lia.
        replace (i - 1 - 1 - d) with (i - 1 - (d + 1)) by lia. now apply Hk.
Qed.

Lemma nth_errorN_lt : forall l d x, nth_errorN d l = Some x -> d < lenN l.
Proof.
  unfold lenN. induction l as [|a l IH]; intros d x E; [discriminate|]. cbn [nth_errorN length] in *.
  destruct (N.eqb_spec d 0); [lia|]. apply IH in E. lia.
Qed.

Lemma all_occurrences_rev k i cur prevs hm :
  lenN prevs <= i -> hm <= lenN prevs -> k i = cur ->
  (forall d x, nth_errorN d prevs = Some x -> k (i - 1 - d) = x) ->
  all_occurrences k i hm = earlier_equal_rev cur prevs hm.
Proof.
  intros Hlen Hhm Hcur Hk. unfold all_occurrences, earlier_equal_rev. rewrite Hcur.
  rewrite <- (range_take prevs k i hm (N.eqb cur)) by assumption.
  apply countb_ext. intros. apply N.eqb_sym.
Qed.

Lemma hyps_rev k i cur prevs hm :
  lenN prevs <= i -> hm <= lenN prevs -> k i = cur ->
  (forall d x, nth_errorN d prevs = Some x -> k (i - 1 - d) = x) ->
  parity_ok_rev cur prevs -> no_dist2_rev cur prevs ->
  parity_ok k i hm /\ no_dist2 k i hm.
Proof.
  intros Hlen Hhm Hcur Hk Hp Hd.
  assert (Hex : forall d, d < lenN prevs -> exists x, nth_errorN d prevs = Some x).
  { clear. unfold lenN. induction prevs as [|a l IH]; intros d Hd; cbn [length] in Hd; [lia|].
    cbn [nth_errorN]. destruct (N.eqb_spec d 0); [eauto|]. apply IH. lia. }
  split.
  - intros j Hj Hlo Hodd E.
    destruct (Hex (i - 1 - j)) as [x Hx]; [lia|].
    pose proof (Hk _ _ Hx) as Hkx. replace (i - 1 - (i - 1 - j)) with j in Hkx by lia.
    apply (Hp _ _ Hx); [lia|]. congruence.
  - intros j Hj H2 E.
    destruct (Hex 1) as [x Hx]; [lia|].
    pose proof (Hk _ _ Hx) as Hkx. replace (i - 1 - 1) with j in Hkx by lia.
    apply (Hd _ Hx). congruence.
Qed.

(* game list (oldest first) held by the history function k, current position at index i *)
Lemma window_all_keys k i keys hm :
  keys <> [] -> holds_game k i keys -> hm + 1 <= lenN keys ->
  parity_ok_keys keys -> no_dist2_keys keys ->
  occurrences k i hm = earlier_equal keys hm.
Proof.
  intros Hne [Hlen Hk] Hhm Hp Hd.
  unfold parity_ok_keys, no_dist2_keys, earlier_equal in *.
  assert (Hl : lenN (rev keys) = lenN keys) by (unfold lenN; now rewrite rev_length).
  destruct (rev keys) as [|cur prevs] eqn:R.
  { apply (f_equal (@rev N)) in R. rewrite rev_involutive in R. cbn in R. contradiction. }
  unfold lenN in *. cbn [length] in Hl.
  assert (Hcur : k i = cur).
  { specialize (Hk 0 cur). cbn [nth_errorN] in Hk. rewrite N.eqb_refl, N.sub_0_r in Hk. now apply Hk. }
  assert (Hk' : forall d x, nth_errorN d prevs = Some x -> k (i - 1 - d) = x).
  { intros d x Hx. specialize (Hk (d + 1) x). cbn [nth_errorN] in Hk.
    destruct (N.eqb_spec (d + 1) 0); [lia|]. replace (d + 1 - 1) with d in Hk by lia.
    replace (i - 1 - d) with (i - (d + 1)) by lia. now apply Hk. }
  assert (PD : parity_ok k i hm /\ no_dist2 k i hm).
  { apply (hyps_rev k i cur prevs hm); try assumption; unfold lenN; lia. }
  destruct PD as [P D]. rewrite window_all by assumption.
  apply all_occurrences_rev; try assumption; unfold lenN; lia.
Qed.

(* ------------------------------------------------------------------ *)
(* set_position_from: the recorded game is held by the array            *)

Lemma record_from_spec : forall keys h base,
  (forall d x, nth_errorN d keys = Some x -> hget (record_from h base keys) (base + d) = x) /\
  (forall j, j < base \/ base + lenN keys <= j -> hget (record_from h base keys) j = hget h j).
Proof.
  unfold lenN. induction keys as [|a r IH]; intros h base.
  - split; [discriminate|reflexivity].
  - cbn [record_from]. destruct (IH (hset h base a) (base + 1)) as (G & O). cbn [length].
    split.
    + intros d x Hd. cbn [nth_errorN] in Hd. destruct (N.eqb_spec d 0) as [->|Hnz].
      * injection Hd as <-. rewrite O by lia. rewrite N.add_0_r. apply hget_hset_same.
      * replace (base + d) with (base + 1 + (d - 1)) by lia. now apply G.
    + intros j Hj. rewrite O by lia. apply hget_hset_other. lia.
Qed.

Lemma nth_errorN_app : forall l d a,
  nth_errorN d (l ++ [a]) = if d <? lenN l then nth_errorN d l else if d =? lenN l then Some a else None.
Proof.
  unfold lenN. induction l as [|b l IH]; intros d a.
  - cbn [app nth_errorN length]. change (N.of_nat 0) with 0.
    destruct (N.ltb_spec d 0); [lia|]. reflexivity.
  - cbn [app nth_errorN length]. rewrite IH.
    destruct (N.eqb_spec d 0) as [->|Hnz].
    + destruct (N.ltb_spec 0 (N.of_nat (S (length l)))); [reflexivity|lia].
    + destruct (N.ltb_spec (d - 1) (N.of_nat (length l))); destruct (N.ltb_spec d (N.of_nat (S (length l)))); try lia; try reflexivity.
      destruct (N.eqb_spec (d - 1) (N.of_nat (length l))); destruct (N.eqb_spec d (N.of_nat (S (length l)))); try lia; reflexivity.
Qed.

Lemma nth_errorN_rev : forall l d x,
  nth_errorN d (rev l) = Some x -> nth_errorN (lenN l - 1 - d) l = Some x /\ d < lenN l.
Proof.
  intros l d x H. split; [|apply nth_errorN_lt in H; unfold lenN in *; now rewrite rev_length in H].
  revert d x H. induction l as [|a l IH] using rev_ind; intros d x H; [discriminate|].
  rewrite rev_app_distr in H. cbn [rev app nth_errorN] in H.
  assert (Hl : lenN (l ++ [a]) = lenN l + 1) by (unfold lenN; rewrite app_length; cbn; lia).
  rewrite Hl, nth_errorN_app.
  destruct (N.eqb_spec d 0) as [->|Hnz].
  - injection H as <-. replace (lenN l + 1 - 1 - 0) with (lenN l) by lia.
    destruct (N.ltb_spec (lenN l) (lenN l)); [lia|]. now rewrite N.eqb_refl.
  - pose proof (nth_errorN_lt _ _ _ H) as Hlt. unfold lenN in Hlt. rewrite rev_length in Hlt. fold (lenN l) in Hlt.
    apply IH in H. replace (lenN l + 1 - 1 - d) with (lenN l - 1 - (d - 1)) by lia.
    destruct (N.ltb_spec (lenN l - 1 - (d - 1)) (lenN l)); [exact H|lia].
Qed.

Lemma record_from_holds keys h base :
  keys <> [] -> holds_game (hget (record_from h base keys)) (base + lenN keys - 1) keys.
Proof.
  intros Hne. destruct (record_from_spec keys h base) as (G & _).
  assert (1 <= lenN keys) by (unfold lenN; destruct keys; [contradiction|cbn; lia]).
  split; [lia|]. intros d x Hd. apply nth_errorN_rev in Hd as [Hd Hlt].
  apply G in Hd. replace (base + lenN keys - 1 - d) with (base + (lenN keys - 1 - d)) by lia. exact Hd.
Qed.

(* end to end for the game history: position command, then the count at the current position *)
Lemma history_threefold keys h base hm :
  keys <> [] -> hm + 1 <= lenN keys -> hm < 65536 ->
  parity_ok_keys keys -> no_dist2_keys keys ->
  (3 <= count_repetitions_u32 (record_from h base keys) (base + lenN keys - 1) hm <-> threefold keys hm).
Proof.
  intros Hne Hhm H16 Hp Hd.
  rewrite count_u32_small by exact H16.
  rewrite count_ge3_iff.
  rewrite (window_all_keys _ _ keys hm Hne (record_from_holds keys h base Hne) Hhm Hp Hd).
  unfold threefold. reflexivity.
Qed.

(* ------------------------------------------------------------------ *)
(* D16 is fixed: indices >= 5000 are ordinary indices                   *)

Lemma hset_beyond_initial_len h i v j : INITIAL_LEN <= i ->
  hget (hset h i v) j = if j =? i then v else hget h j.
Proof. intros _. apply hget_hset. Qed.

(* the `as u16` cast: a half-move clock of 65536 + 8 inspects the window of 8 *)
Lemma u16_cast h i hm : count_repetitions_u32 h i (65536 + hm) = count_repetitions_u32 h i hm.
Proof.
  unfold count_repetitions_u32. f_equal.
  rewrite N.add_mod by discriminate. rewrite N.mod_same by discriminate. rewrite N.add_0_l.
  now rewrite N.mod_mod by discriminate.
Qed.

(* ------------------------------------------------------------------ *)
(* fifty-move rule                                                      *)

Lemma fifty_iff mx half lm : fifty_branch mx half lm = true <-> lm = true /\ mx <= half.
Proof. unfold fifty_branch. rewrite andb_true_iff, N.leb_le. tauto. Qed.

Lemma fifty_100 half : fifty_branch 100 half true = true -> 100 <= half.
Proof. intro H. now apply fifty_iff in H. Qed.

Lemma fifty_100_iff half : fifty_branch 100 half true = true <-> 100 <= half.
Proof. rewrite fifty_iff. tauto. Qed.

Lemma fifty_never_early half lm : half < 100 -> fifty_branch 100 half lm = false.
Proof.
  intro H. destruct (fifty_branch 100 half lm) eqn:E; [|reflexivity]. apply fifty_iff in E. lia.
Qed.

(* ------------------------------------------------------------------ *)
(* the repository's own unit test (zobrist_history.rs, mod test)         *)

Definition unit_test_history : hist :=
  record_from hempty 0 [123; 4312; 1; 2; 3; 4; 1; 2; 3; 4; 1].

Example unit_test_8 : count_repetitions unit_test_history 10 8 = 3.
Proof. vm_compute. reflexivity. Qed.
Example unit_test_7 : count_repetitions unit_test_history 10 7 = 2.
Proof. vm_compute. reflexivity. Qed.
Example unit_test_6 : count_repetitions unit_test_history 10 6 = 2.
Proof. vm_compute. reflexivity. Qed.
Example unit_test_window_8 : window 10 8 = [6; 4; 2].
Proof. vm_compute. reflexivity. Qed.
Example unit_test_window_7 : window 10 7 = [6; 4].
Proof. vm_compute. reflexivity. Qed.
(* a FEN half-move clock of 65544 is cast to 8; one of 65536 to 0 (the window disappears) *)
Example unit_test_cast_65544 : count_repetitions_u32 unit_test_history 10 65544 = 3.
Proof. vm_compute. reflexivity. Qed.
Example unit_test_cast_65536 : count_repetitions_u32 unit_test_history 10 65536 = 1.
Proof. vm_compute. reflexivity. Qed.
Example unit_test_nocast_65536 : count_repetitions unit_test_history 10 65536 = 3.
Proof. vm_compute. reflexivity. Qed.

(* Historic defect D16 (fixed in /repo commit aca2b0d).  With `history: [u64; 5000]` both `set(5000, _)` and
   `count_repetitions(5000, _)` were array-index-out-of-bounds panics that killed the search thread (FEN with
   full-move number >= 2501).  Now index 5000 and the last u16 index behave like every other index: the write is
   read back, unwritten entries are 0, the window reaches down to index 0. *)
Example historic_D16 :
  count_repetitions_fuel hempty 5000 0 = Some 1 /\
  hget (hset hempty 5000 7) 5000 = 7 /\
  count_repetitions (hset (hset (hset hempty 4992 7) 4996 7) 5000 7) 5000 8 = 3 /\
  count_repetitions (hset (hset (hset hempty 4992 7) 4996 7) 5000 7) 5000 7 = 2 /\
  count_repetitions (hset (hset (hset hempty 65527 7) 65531 7) 65535 7) 65535 8 = 3 /\
  count_repetitions (hset (hset (hset hempty 65527 7) 65531 9) 65535 7) 65535 65535 = 2 /\
  count_repetitions hempty 65535 65535 = 3.
Proof. vm_compute. repeat split. Qed.

(* the two hypotheses on key sequences are satisfiable together with a threefold repetition
   (a four-ply shuffle played twice): the chess-level statements are not vacuous *)
Example hyps_satisfiable :
  let keys := [11; 12; 13; 14; 11; 12; 13; 14; 11] in
  parity_ok_keys keys /\ no_dist2_keys keys /\ threefold keys 8 /\ ~ threefold keys 7.
Proof.
  cbv zeta. unfold parity_ok_keys, no_dist2_keys, threefold. cbn [rev app].
  split; [|split; [|split]].
  - intros d x H Hd. pose proof (nth_errorN_lt _ _ _ H) as Hlt. unfold lenN in Hlt. cbn [length] in Hlt.
    assert (C : d = 0 \/ d = 1 \/ d = 2 \/ d = 3 \/ d = 4 \/ d = 5 \/ d = 6 \/ d = 7) by lia.
    destruct C as [->|[->|[->|[->|[->|[->|[->| ->]]]]]]]; vm_compute in H, Hd; congruence.
  - intros x H. vm_compute in H. congruence.
  - vm_compute. discriminate.
  - vm_compute. intro H. now apply H.
Qed.


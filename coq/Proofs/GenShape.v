(* The shape of every move the generator can emit: which call of Bitboard::make_move produced it and
   under which conditions.  Used by the make/unmake round trip (Proofs/MakeUnmake.v) and by the range lemma
   for the packed Move (Proofs/LayoutProofs.v). *)
Require Import NArith ZArith List Bool Lia.
Require Import Ink.Lib.Bits Ink.Model.Tables Ink.Model.Board Ink.Proofs.BitFacts.
Import ListNotations.
Open Scope N_scope.

(* ---------- what wf gives ---------- *)
Definition bb_bounded (p : pstate) : Prop :=
  pawns p < 2 ^ 64 /\ knights p < 2 ^ 64 /\ bishops p < 2 ^ 64 /\ rooks p < 2 ^ 64 /\ queens p < 2 ^ 64 /\ kings p < 2 ^ 64.

Lemma wf_elim b : wf b = true ->
  bb_bounded (white b) /\ bb_bounded (black b) /\ turn b < 2 /\ ep b < 64 /\
  N.land (N.lor (pawns (white b)) (pawns (black b))) RANKS_18 = 0.
Proof.
  unfold wf. intros H. rewrite !andb_true_iff in H.
  destruct H as ((((((Hb & _) & _) & _) & Ht) & He) & Hp).
  cbn [bbs forallb] in Hb. rewrite !andb_true_iff in Hb.
  destruct Hb as (A1 & A2 & A3 & A4 & A5 & A6 & B1 & B2 & B3 & B4 & B5 & B6 & _).
  unfold bb_bounded. rewrite <- !two64.
  repeat match goal with X : (_ <? _) = true |- _ => apply N.ltb_lt in X end.
  apply N.eqb_eq in Hp. repeat split; assumption.
Qed.

Lemma full_occ_lt p : bb_bounded p -> full_occ p < 2 ^ 64.
Proof. intros (H1 & H2 & H3 & H4 & H5 & H6). unfold full_occ. repeat apply lor_lt; assumption. Qed.

Lemma occ_of_lt p k : bb_bounded p -> occ_of p k < 2 ^ 64.
Proof.
  intros (H1 & H2 & H3 & H4 & H5 & H6).
  assert (Z : 0 < 2 ^ 64) by (apply N.neq_0_lt_0; apply N.pow_nonzero; lia).
  destruct k as [|[[[?|?|]|[?|?|]|]|[[?|?|]|[?|?|]|]|]]; cbn [occ_of]; assumption.
Qed.

Lemma occ_of_sub_full p k : sub (occ_of p k) (full_occ p).
Proof.
  intros i H. unfold full_occ. rewrite !N.lor_spec.
  destruct k as [|[[[?|?|]|[?|?|]|]|[[?|?|]|[?|?|]|]|]]; cbn [occ_of] in H;
    try (rewrite N.bits_0 in H; discriminate); rewrite H; rewrite ?orb_true_r; reflexivity.
Qed.

Lemma turn_cases b : turn b < 2 -> turn b = 0 \/ turn b = 1.
Proof. lia. Qed.

Lemma active_bounded b : wf b = true -> bb_bounded (active b).
Proof. intros H. destruct (wf_elim b H) as (Hw & Hb & _). unfold active. destruct (is_white_turn b); assumption. Qed.

Lemma passive_bounded b : wf b = true -> bb_bounded (passive b).
Proof. intros H. destruct (wf_elim b H) as (Hw & Hb & _). unfold passive. destruct (is_white_turn b); assumption. Qed.

(* pawns stand on ranks 2..7 *)
Lemma pawn_square_range b s : wf b = true -> N.testbit (pawns (active b)) s = true -> 8 <= s < 56.
Proof.
  intros H Hs. destruct (wf_elim b H) as (Hw & Hb & _ & _ & Hp).
  assert (Hu : N.testbit (N.lor (pawns (white b)) (pawns (black b))) s = true).
  { rewrite N.lor_spec. unfold active in Hs. destruct (is_white_turn b); rewrite Hs; [reflexivity|apply orb_true_r]. }
  assert (Hlt : s < 64).
  { apply (testbit_lt (N.lor (pawns (white b)) (pawns (black b))) 64 s); [|exact Hu].
    apply lor_lt; [apply Hw|apply Hb]. }
  assert (Hr : N.testbit RANKS_18 s = false).
  { destruct (N.testbit RANKS_18 s) eqn:E; [|reflexivity].
    rewrite (land_0_testbit _ _ s Hp E) in Hu. discriminate. }
  assert (Hlo : forall k, k < 8 -> N.testbit RANKS_18 k = true).
  { intros k Hk. change RANKS_18 with (N.lor (N.ones 8) (N.shiftl (N.ones 8) 56)).
    rewrite N.lor_spec, N.ones_spec_low by exact Hk. reflexivity. }
  assert (Hhi : forall k, 56 <= k < 64 -> N.testbit RANKS_18 k = true).
  { intros k Hk. change RANKS_18 with (N.lor (N.ones 8) (N.shiftl (N.ones 8) 56)).
    rewrite N.lor_spec, N.shiftl_spec_high by lia. rewrite (N.ones_spec_low 8 (k - 56)) by lia. apply orb_true_r. }
  destruct (N.lt_ge_cases s 8) as [A|A]; [rewrite (Hlo s A) in Hr; discriminate|].
  destruct (N.lt_ge_cases s 56) as [B|B]; [lia|]. rewrite (Hhi s) in Hr by lia. discriminate.
Qed.

Section WithTables.
Variable T : Tables.t.

(* ---------- the record built by Bitboard::make_move ---------- *)
Definition mk (b : board) (source target piece_active : N) (is_castle is_ep : bool) (promote_to ep_opportunity : N) : move :=
  let wt := is_white_turn b in
  let act := active b in let pas := passive b in
  let d_castle := if wt then 0 else 56 in
  let ep_off := if is_ep then 8 else 0 in
  let attack_sq := if wt then target + ep_off else target - ep_off in
  let piece_att := piece_at pas attack_sq in
  let olq := qs pas && (target =? A8 + d_castle) in
  let olk := negb olq && ks pas && (target =? H8 + d_castle) in
  {| piece_moved := piece_active; piece_attacked := piece_att;
     self_lost_ks := ks act && ((source =? H1 - d_castle) || (source =? E1 - d_castle));
     self_lost_qs := qs act && ((source =? A1 - d_castle) || (source =? E1 - d_castle));
     opp_lost_ks := olk; opp_lost_qs := olq;
     castle := is_castle; ep_attack := is_ep;
     src := source; dst := target;
     half_reset := (piece_active =? PAWN) || negb (piece_att =? NO_PIECE);
     prev_half := half b mod 4096;
     prev_ep := ep b; next_ep := ep_opportunity; promo := promote_to; side := turn b;
     mvvlva := mvv_lva T piece_active piece_att |}.

Lemma make_move_false b s t pc ic ie pr epo : make_move T b false s t pc ic ie pr epo = [mk b s t pc ic ie pr epo].
Proof. unfold make_move, mk. cbv zeta. rewrite andb_false_r. reflexivity. Qed.

(* the quiescence filter only drops moves *)
Lemma make_move_true_incl b s t pc ic ie pr epo :
  incl (make_move T b true s t pc ic ie pr epo) (make_move T b false s t pc ic ie pr epo).
Proof.
  rewrite make_move_false. unfold make_move, mk. cbv zeta.
  match goal with |- context [if ?c then [] else _] => destruct c end; [intros x []|apply incl_refl].
Qed.

(* ---------- the generation cases ---------- *)
Definition PROMO_PIECES : list N := [QUEEN; ROOK; BISHOP; KNIGHT].

Definition piece_attack_sets (b : board) (s : N) : list (N * N) :=
  let fo := N.lor (full_occ (active b)) (full_occ (passive b)) in
  [ (QUEEN, rook_attacks T s fo); (QUEEN, bishop_attacks T s fo); (BISHOP, bishop_attacks T s fo);
    (ROOK, rook_attacks T s fo); (KNIGHT, leaper (knight_tbl T) s); (KING, leaper (king_tbl T) s) ].

Definition pawn_capture_set (b : board) (s : N) : N :=
  let tbl := if is_white_turn b then wpawn_tbl T else bpawn_tbl T in
  let ep_bit := clear (bit (ep b)) (N.lor (RANK_1 T) (RANK_8 T)) in
  clear (N.land (leaper tbl s) (N.lor (full_occ (passive b)) ep_bit)) (full_occ (active b)).

Definition single_push (b : board) (s : N) : N :=
  if is_white_turn b then N.shiftr (bit s) 8 else w64 (N.shiftl (bit s) 8).
Definition double_push (b : board) (s : N) : N :=
  if is_white_turn b then N.shiftr (single_push b s) 8 else w64 (N.shiftl (single_push b s) 8).
Definition promote_rank (b : board) : N := if is_white_turn b then RANK_8 T else RANK_1 T.
Definition double_rank (b : board) : N := if is_white_turn b then RANK_2 T else RANK_7 T.
Definition all_occ (b : board) : N := N.lor (full_occ (active b)) (full_occ (passive b)).

Inductive gen_case (b : board) : N -> N -> N -> bool -> bool -> N -> N -> Prop :=
| gc_piece s t pc att :
    In (pc, att) (piece_attack_sets b s) ->
    N.testbit (occ_of (active b) pc) s = true ->
    N.testbit (clear att (full_occ (active b))) t = true ->
    gen_case b s t pc false false NO_PIECE NO_SQUARE
| gc_capture_promo s t pr :
    N.testbit (pawns (active b)) s = true ->
    N.testbit (pawn_capture_set b s) t = true ->
    nz (N.land (bit t) (RANK_8 T)) || nz (N.land (bit t) (RANK_1 T)) = true ->
    In pr PROMO_PIECES ->
    gen_case b s t PAWN false false pr NO_SQUARE
| gc_capture s t :
    N.testbit (pawns (active b)) s = true ->
    N.testbit (pawn_capture_set b s) t = true ->
    nz (N.land (bit t) (RANK_8 T)) || nz (N.land (bit t) (RANK_1 T)) = false ->
    gen_case b s t PAWN false (t =? ep b) NO_PIECE NO_SQUARE
| gc_push_promo s pr :
    N.testbit (pawns (active b)) s = true ->
    N.land (single_push b s) (all_occ b) = 0 ->
    nz (N.land (single_push b s) (promote_rank b)) = true ->
    In pr PROMO_PIECES ->
    gen_case b s (ctz64 (single_push b s)) PAWN false false pr NO_SQUARE
| gc_push s :
    N.testbit (pawns (active b)) s = true ->
    N.land (single_push b s) (all_occ b) = 0 ->
    nz (N.land (single_push b s) (promote_rank b)) = false ->
    gen_case b s (ctz64 (single_push b s)) PAWN false false NO_PIECE NO_SQUARE
| gc_double s :
    N.testbit (pawns (active b)) s = true ->
    N.land (single_push b s) (all_occ b) = 0 ->
    nz (N.land (single_push b s) (promote_rank b)) = false ->
    nz (N.land (bit s) (double_rank b)) = true ->
    N.land (double_push b s) (all_occ b) = 0 ->
    gen_case b s (ctz64 (double_push b s)) PAWN false false NO_PIECE (ctz64 (single_push b s))
| gc_castle_wq :
    is_white_turn b = true -> qs (white b) = true -> N.land (all_occ b) (wq_empty T) = 0 ->
    gen_case b E1 C1 KING true false NO_PIECE NO_SQUARE
| gc_castle_wk :
    is_white_turn b = true -> ks (white b) = true -> N.land (all_occ b) (wk_empty T) = 0 ->
    gen_case b E1 G1 KING true false NO_PIECE NO_SQUARE
| gc_castle_bq :
    is_white_turn b = false -> qs (black b) = true -> N.land (all_occ b) (bq_empty T) = 0 ->
    gen_case b E8 C8 KING true false NO_PIECE NO_SQUARE
| gc_castle_bk :
    is_white_turn b = false -> ks (black b) = true -> N.land (all_occ b) (bk_empty T) = 0 ->
    gen_case b E8 G8 KING true false NO_PIECE NO_SQUARE.

Definition generated (b : board) (m : move) : Prop :=
  exists s t pc ic ie pr epo, gen_case b s t pc ic ie pr epo /\ m = mk b s t pc ic ie pr epo.

Lemma nz_false x : nz x = false -> x = 0.
Proof. unfold nz. intros H. apply negb_false_iff in H. now apply N.eqb_eq in H. Qed.
Lemma nz_true x : nz x = true -> x <> 0.
Proof. unfold nz. intros H. apply negb_true_iff in H. now apply N.eqb_neq in H. Qed.

Lemma in_singleton {A} (x y : A) : In x [y] -> x = y.
Proof. intros [H|[]]. now symmetry. Qed.

Lemma make_move_in b nq s t pc ic ie pr epo m :
  In m (make_move T b nq s t pc ic ie pr epo) -> m = mk b s t pc ic ie pr epo.
Proof.
  intros H. apply in_singleton. rewrite <- make_move_false.
  destruct nq; [now apply make_move_true_incl|exact H].
Qed.

Lemma gen_attacks_in b nq s att pc m : In m (gen_attacks T b nq s att pc) ->
  exists t, N.testbit att t = true /\ m = mk b s t pc false false NO_PIECE NO_SQUARE.
Proof.
  unfold gen_attacks. intros H. apply in_flat_map in H as (t & Ht & Hm).
  exists t. split; [now apply bits_of_spec|]. now apply make_move_in in Hm.
Qed.

Lemma sliding_in b nq pocc ao fo lookup pc m : In m (sliding_moves T b nq pocc ao fo lookup pc) ->
  exists s t, N.testbit pocc s = true /\ N.testbit (clear (lookup s fo) ao) t = true /\
              m = mk b s t pc false false NO_PIECE NO_SQUARE.
Proof.
  unfold sliding_moves. intros H. apply in_flat_map in H as (s & Hs & Hm).
  apply gen_attacks_in in Hm as (t & Ht & ->). exists s, t. split; [now apply bits_of_spec|]. split; [exact Ht|reflexivity].
Qed.

Lemma single_in b nq pocc ao tbl pc m : In m (single_moves T b nq pocc ao tbl pc) ->
  exists s t, N.testbit pocc s = true /\ N.testbit (clear (leaper tbl s) ao) t = true /\
              m = mk b s t pc false false NO_PIECE NO_SQUARE.
Proof.
  unfold single_moves. intros H. apply in_flat_map in H as (s & Hs & Hm).
  apply gen_attacks_in in Hm as (t & Ht & ->). exists s, t. split; [now apply bits_of_spec|]. split; [exact Ht|reflexivity].
Qed.

Lemma pawn_promotions_in b s t m : In m (pawn_promotions T b s t) ->
  exists pr, In pr PROMO_PIECES /\ m = mk b s t PAWN false false pr NO_SQUARE.
Proof.
  unfold pawn_promotions, PROMO_PIECES. intros H.
  repeat (apply in_app_or in H as [H|H]); apply make_move_in in H;
    [exists QUEEN|exists ROOK|exists BISHOP|exists KNIGHT]; (split; [cbn [In]; tauto|exact H]).
Qed.

Lemma pawn_attacks_in b m :
  In m (pawn_attacks T b (pawns (active b)) (full_occ (active b)) (full_occ (passive b))) -> generated b m.
Proof.
  unfold pawn_attacks. intros H. apply in_flat_map in H as (s & Hs & Hm). apply bits_of_spec in Hs.
  unfold gen_pawn_attacks in Hm. apply in_flat_map in Hm as (t & Ht & Hm). apply bits_of_spec in Ht.
  change (N.testbit (pawn_capture_set b s) t = true) in Ht.
  destruct (nz (N.land (bit t) (RANK_8 T)) || nz (N.land (bit t) (RANK_1 T))) eqn:E.
  - apply pawn_promotions_in in Hm as (pr & Hpr & ->).
    exists s, t, PAWN, false, false, pr, NO_SQUARE. split; [|reflexivity]. now apply gc_capture_promo.
  - apply make_move_in in Hm. subst m.
    exists s, t, PAWN, false, (t =? ep b), NO_PIECE, NO_SQUARE. split; [|reflexivity]. now apply gc_capture.
Qed.

Lemma pawn_moves_in b nq m :
  In m (pawn_moves T b nq (pawns (active b)) (all_occ b)) -> generated b m.
Proof.
  unfold pawn_moves. intros H. apply in_flat_map in H as (s & Hs & Hm). apply bits_of_spec in Hs.
  change (if is_white_turn b then N.shiftr (bit s) 8 else w64 (N.shiftl (bit s) 8)) with (single_push b s) in Hm.
  change (if is_white_turn b then RANK_8 T else RANK_1 T) with (promote_rank b) in Hm.
  cbv zeta in Hm.
  destruct (nz (N.land (single_push b s) (all_occ b))) eqn:E1; [destruct Hm|]. apply nz_false in E1.
  destruct (nz (N.land (single_push b s) (promote_rank b))) eqn:E2.
  - apply pawn_promotions_in in Hm as (pr & Hpr & ->).
    exists s, (ctz64 (single_push b s)), PAWN, false, false, pr, NO_SQUARE. split; [|reflexivity]. now apply gc_push_promo.
  - apply in_app_or in Hm as [Hm|Hm].
    + apply make_move_in in Hm. subst m.
      exists s, (ctz64 (single_push b s)), PAWN, false, false, NO_PIECE, NO_SQUARE. split; [|reflexivity]. now apply gc_push.
    + change (if is_white_turn b then N.shiftr (single_push b s) 8 else w64 (N.shiftl (single_push b s) 8))
        with (double_push b s) in Hm.
      change (if is_white_turn b then RANK_2 T else RANK_7 T) with (double_rank b) in Hm.
      destruct (nz (N.land (bit s) (double_rank b))) eqn:E3; cbn [andb] in Hm; [|destruct Hm].
      destruct (nz (N.land (double_push b s) (all_occ b))) eqn:E4; cbn [negb] in Hm; [destruct Hm|]. apply nz_false in E4.
      apply make_move_in in Hm. subst m.
      exists s, (ctz64 (double_push b s)), PAWN, false, false, NO_PIECE, (ctz64 (single_push b s)).
      split; [|reflexivity]. now apply gc_double.
Qed.

Lemma castle_moves_in b m : In m (castle_moves T b (all_occ b)) -> generated b m.
Proof.
  unfold castle_moves. intros H. destruct (is_white_turn b) eqn:Ewt; apply in_app_or in H as [H|H].
  - destruct (qs (white b)) eqn:Eq; cbn [andb] in H; [|destruct H].
    destruct (nz (N.land (all_occ b) (wq_empty T))) eqn:En; cbn [andb negb] in H; [destruct H|]. apply nz_false in En.
    destruct (negb _) in H; [|destruct H]. apply make_move_in in H. subst m.
    exists E1, C1, KING, true, false, NO_PIECE, NO_SQUARE. split; [|reflexivity]. now apply gc_castle_wq.
  - destruct (ks (white b)) eqn:Eq; cbn [andb] in H; [|destruct H].
    destruct (nz (N.land (all_occ b) (wk_empty T))) eqn:En; cbn [andb negb] in H; [destruct H|]. apply nz_false in En.
    destruct (negb _) in H; [|destruct H]. apply make_move_in in H. subst m.
    exists E1, G1, KING, true, false, NO_PIECE, NO_SQUARE. split; [|reflexivity]. now apply gc_castle_wk.
  - destruct (qs (black b)) eqn:Eq; cbn [andb] in H; [|destruct H].
    destruct (nz (N.land (all_occ b) (bq_empty T))) eqn:En; cbn [andb negb] in H; [destruct H|]. apply nz_false in En.
    destruct (negb _) in H; [|destruct H]. apply make_move_in in H. subst m.
    exists E8, C8, KING, true, false, NO_PIECE, NO_SQUARE. split; [|reflexivity]. now apply gc_castle_bq.
  - destruct (ks (black b)) eqn:Eq; cbn [andb] in H; [|destruct H].
    destruct (nz (N.land (all_occ b) (bk_empty T))) eqn:En; cbn [andb negb] in H; [destruct H|]. apply nz_false in En.
    destruct (negb _) in H; [|destruct H]. apply make_move_in in H. subst m.
    exists E8, G8, KING, true, false, NO_PIECE, NO_SQUARE. split; [|reflexivity]. now apply gc_castle_bk.
Qed.

Lemma piece_case b s t pc att m :
  In (pc, att) (piece_attack_sets b s) -> N.testbit (occ_of (active b) pc) s = true ->
  N.testbit (clear att (full_occ (active b))) t = true -> m = mk b s t pc false false NO_PIECE NO_SQUARE ->
  generated b m.
Proof.
  intros H1 H2 H3 ->. exists s, t, pc, false, false, NO_PIECE, NO_SQUARE. split; [|reflexivity].
  exact (gc_piece b s t pc att H1 H2 H3).
Qed.

Lemma gen_common_cases b nq m : In m (gen_common T b nq) -> generated b m.
Proof.
  unfold gen_common. cbv zeta. fold (all_occ b). intros H.
  repeat (apply in_app_or in H as [H|H]).
  - apply sliding_in in H as (s & t & Hs & Ht & Hm).
    apply (piece_case b s t QUEEN (rook_attacks T s (all_occ b))); try assumption. unfold piece_attack_sets. fold (all_occ b). cbn [In]. tauto.
  - apply sliding_in in H as (s & t & Hs & Ht & Hm).
    apply (piece_case b s t QUEEN (bishop_attacks T s (all_occ b))); try assumption. unfold piece_attack_sets. fold (all_occ b). cbn [In]. tauto.
  - apply sliding_in in H as (s & t & Hs & Ht & Hm).
    apply (piece_case b s t BISHOP (bishop_attacks T s (all_occ b))); try assumption. unfold piece_attack_sets. fold (all_occ b). cbn [In]. tauto.
  - apply sliding_in in H as (s & t & Hs & Ht & Hm).
    apply (piece_case b s t ROOK (rook_attacks T s (all_occ b))); try assumption. unfold piece_attack_sets. fold (all_occ b). cbn [In]. tauto.
  - apply single_in in H as (s & t & Hs & Ht & Hm).
    apply (piece_case b s t KNIGHT (leaper (knight_tbl T) s)); try assumption. unfold piece_attack_sets. cbn [In]. tauto.
  - apply single_in in H as (s & t & Hs & Ht & Hm).
    apply (piece_case b s t KING (leaper (king_tbl T) s)); try assumption. unfold piece_attack_sets. cbn [In]. tauto.
  - now apply pawn_attacks_in.
  - now apply (pawn_moves_in b nq).
Qed.

Theorem gen_pseudo_cases b m : In m (gen_pseudo T b) -> generated b m.
Proof.
  unfold gen_pseudo. intros H. apply in_app_or in H as [H|H]; [now apply (gen_common_cases b false)|].
  now apply castle_moves_in.
Qed.

Theorem gen_nonquiet_cases b m : In m (gen_nonquiet T b) -> generated b m.
Proof. apply gen_common_cases. Qed.

End WithTables.

(* GLUE: the hypotheses left open between the finished pieces are discharged for the concrete chess model.

   * [C03_family T good Q] (Proofs/SearchProofs.v; the only hypothesis of the C09 / C07 theorems) holds for
       good_chess T n b := wf b /\ rights_wf b /\ ep_free b /\ is_valid T b /\ half b + n < 4096      and Q = 129
     for every table set that passes the five boolean table checks [tables_chess_ok]:
       inverse part        C03_unmake_make (Proofs/MakeUnmake.v)
       "children are good" make_preserves (Proofs/Preserve.v), which rests on C04 (tables_attacks_ok) and the
                           symmetry lemmas of C05 for "a valid position has no pseudo-legal king capture"
       qfuel <= 129        a u64 has at most 64 set bits (wf does not bound the number of pieces by 32, so the tighter
                           Q = 65 is not available from wf alone; nothing depends on the value of Q except the range
                           of half-move clocks that is covered).
   * the tables dumped from the current /repo pass the checks: [gen_tables_chess_ok] (vm_compute + Gen/SweepAll).
   * instances for those tables: C09_*_chess, C07_*_chess.
     RANGE OF CLOCKS COVERED: a go that runs at most D iterations is covered for boards with
         half b + D + 130 < 4096        (D + 130 = D + S Q: D plies of main search, up to 129 plies of capture search,
                                         one ply of slack of the search theorems)
     e.g. `go depth 20` on any board with half-move clock <= 3945.
   * hypothesis Hpres of Proofs/UciMovesProofs.v: as stated there (good = wf /\ rights_wf /\ half < 4096 preserved by
     every legal move) it is FALSE (a board with the side not to move in check may capture the king; clock 4095);
     [make_all_uci_all_or_nothing_chess] proves the theorem it was used for from good_chess instead. *)
Require Import Ink.Lib.Str.
Require Import NArith ZArith List Bool Lia Arith.
Require Import Ink.Lib.Bits Ink.Model.Tables Ink.Model.Board Ink.Model.Fen Ink.Model.Notation.
Require Import Ink.Model.UciTx Ink.Model.Search.
Require Import Ink.Proofs.AbsProofs Ink.Proofs.BitFacts Ink.Proofs.GenShape Ink.Proofs.MakeUnmake.
Require Import Ink.Proofs.AttackProofs Ink.Proofs.LayoutProofs Ink.Proofs.Preserve.
Require Import Ink.Proofs.SearchProofs.
Require Ink.Proofs.UciMovesProofs.
Require Ink.Gen.Tables Ink.Gen.SweepAll.
Import ListNotations.
Open Scope N_scope.

Arguments N.add : simpl never.
Arguments N.sub : simpl never.
Arguments N.mul : simpl never.
Arguments N.div : simpl never.
Arguments N.modulo : simpl never.
Arguments N.eqb : simpl never.
Arguments N.ltb : simpl never.
Arguments N.leb : simpl never.
Arguments N.pow : simpl never.

(* ---------- the table conditions, bundled ---------- *)
Definition tables_chess_ok (T : Tables.t) : bool :=
  tables_castle_ok T && tables_attacks_ok T && tables_bounded T && tables_geom_ok T && tables_rank18_ok T.

Lemma tables_chess_ok_elim T : tables_chess_ok T = true ->
  tables_castle_ok T = true /\ tables_attacks_ok T = true /\ tables_bounded T = true /\
  tables_geom_ok T = true /\ tables_rank18_ok T = true.
Proof. unfold tables_chess_ok. rewrite !andb_true_iff. tauto. Qed.

(* ---------- the invariant ---------- *)
Definition good_chess (T : Tables.t) (n : nat) (b : board) : Prop :=
  wf b = true /\ rights_wf b = true /\ ep_free b = true /\ is_valid T b = true /\ half b + N.of_nat n < 4096.

Definition good_chessb (T : Tables.t) (n : nat) (b : board) : bool :=
  wf b && rights_wf b && ep_free b && is_valid T b && (half b + N.of_nat n <? 4096).

Lemma good_chessb_spec T n b : good_chessb T n b = true <-> good_chess T n b.
Proof. unfold good_chessb, good_chess. rewrite !andb_true_iff, N.ltb_lt. tauto. Qed.

Lemma good_chess_S T n b : good_chess T (S n) b -> good_chess T n b.
Proof. intros (H1 & H2 & H3 & H4 & H5). repeat split; try assumption. rewrite Nat2N.inj_succ in H5. clear - H5. lia. Qed.

Lemma good_chess_le T n m b : (m <= n)%nat -> good_chess T n b -> good_chess T m b.
Proof. intros Hle (H1 & H2 & H3 & H4 & H5). repeat split; try assumption. clear - Hle H5. lia. Qed.

(* ---------- the fuel of the capture search ---------- *)
Lemma length_sq64 : length sq64 = 64%nat.
Proof. reflexivity. Qed.

Lemma popcount_le_64 x : x < 2 ^ 64 -> popcount x <= 64.
Proof.
  intros Hx. rewrite popcount_length.
  assert (L : (length (bits_of x) <= length sq64)%nat).
  { apply NoDup_incl_length; [apply NoDup_bits_of|]. intros i Hi. apply sq64_spec. exact (bits_of_lt x 64 i Hi Hx). }
  rewrite length_sq64 in L. lia.
Qed.

Lemma qfuel_wf b : wf b = true -> (qfuel b <= 129)%nat.
Proof.
  intros Hwf. destruct (wf_elim b Hwf) as (Bw & Bb & _).
  assert (H : N.lor (full_occ (white b)) (full_occ (black b)) < 2 ^ 64) by (apply lor_lt; now apply full_occ_lt).
  apply popcount_le_64 in H. unfold qfuel. lia.
Qed.

(* ---------- C03_family for chess ---------- *)
Section Chess.
Variable T : Tables.t.
Hypothesis HT : tables_chess_ok T = true.

Lemma good_chess_step n b m b' :
  good_chess T (S n) b -> In m (gen_pseudo T b) -> make b m = Some b' -> is_valid T b' = true -> good_chess T n b'.
Proof.
  destruct (tables_chess_ok_elim T HT) as (HC & OK & HB & HG & HR).
  intros (Hwf & Hr & Hep & Hv & Hh) Hin Hmk Hv'.
  destruct (make_preserves T HC OK HB HG HR b m b' Hwf Hr Hep Hv Hin Hmk) as (W & R & E & Hh').
  repeat split; try assumption. rewrite Nat2N.inj_succ in Hh. clear - Hh Hh'. lia.
Qed.

Theorem chess_C03_family : C03_family T (good_chess T) 129.
Proof.
  destruct (tables_chess_ok_elim T HT) as (HC & _).
  split; [|split].
  - intros n b m Hg Hin. pose proof Hg as (Hwf & Hr & _ & _ & Hh).
    assert (Hh' : half b < 4096) by (clear - Hh; lia).
    destruct (C03_unmake_make T HC b m Hwf Hr Hin Hh') as (b' & Hmk & Hun).
    exists b'. split; [exact Hmk|]. split; [exact Hun|]. intros Hv'. exact (good_chess_step n b m b' Hg Hin Hmk Hv').
  - intros n b. apply good_chess_S.
  - intros n b (Hwf & _). now apply qfuel_wf.
Qed.

(* ---------- Hpres of Proofs/UciMovesProofs.v, discharged ---------- *)
Lemma chess_good_uci n b : good_chess T n b -> UciMovesProofs.good b.
Proof. intros (Hwf & Hr & _ & _ & Hh). repeat split; try assumption. clear - Hh. lia. Qed.

Lemma chess_visited_good ss : forall b, good_chess T (length ss) b -> UciMovesProofs.visited_good T b ss.
Proof.
  destruct (tables_chess_ok_elim T HT) as (HC & _).
  induction ss as [|s r IH]; intros b Hg; cbn [UciMovesProofs.visited_good];
    (split; [exact (chess_good_uci _ b Hg)|]); [exact I|].
  destruct (UciMovesProofs.find_uci_cases T HC b s (chess_good_uci _ b Hg)) as [(e' & ->)|(m & b1 & -> & Hin & H1 & Hval)];
    [exact I|].
  rewrite H1. apply IH. cbn [length] in Hg. exact (good_chess_step _ b m b1 Hg Hin H1 Hval).
Qed.

(* make_all_uci is all-or-nothing on every good_chess board whose clock leaves room for the whole list *)
Theorem make_all_uci_all_or_nothing_chess b ss e : good_chess T (length ss) b ->
  fst (make_all_uci T b ss) = inl e -> snd (make_all_uci T b ss) = Some b.
Proof.
  destruct (tables_chess_ok_elim T HT) as (HC & _).
  intros Hg. apply (UciMovesProofs.make_all_uci_all_or_nothing_checked T HC). now apply chess_visited_good.
Qed.

(* ... and never reaches a panic arm *)
Theorem make_all_uci_total_chess b ss : good_chess T (length ss) b -> exists b', snd (make_all_uci T b ss) = Some b'.
Proof.
  destruct (tables_chess_ok_elim T HT) as (HC & _).
  intros Hg. unfold make_all_uci. apply (UciMovesProofs.make_all_uci_aux_some T HC ss b [] b); [now apply chess_visited_good|reflexivity].
Qed.

(* ---------- the search theorems without the abstract family ---------- *)
Theorem C09_negamax_board_chess_T orc d ply alpha beta is_pv zh zph st :
  good_chess T (d + 130) (s_board st) ->
  s_board (snd (negamax T orc d ply alpha beta is_pv zh zph st)) = s_board st.
Proof. exact (C09_negamax_board_thm T (good_chess T) 129 chess_C03_family orc d ply alpha beta is_pv zh zph st). Qed.

Theorem C09_quiescence_board_chess_T fuel alpha beta zph st :
  good_chess T fuel (s_board st) -> s_board (snd (quiescence T fuel alpha beta zph st)) = s_board st.
Proof. exact (C09_quiescence_board_thm T (good_chess T) 129 chess_C03_family fuel alpha beta zph st). Qed.

Theorem C09_go_board_chess_T orc g st D :
  (length (fst (go_full T orc g st)) <= D)%nat -> good_chess T (D + 130) (s_board st) ->
  s_board (go T orc g st) = s_board st.
Proof. exact (C09_go_board_thm T (good_chess T) 129 chess_C03_family orc g st D). Qed.

Theorem C09_go_depth_board_chess_T orc g st dd : g_depth g = Some dd ->
  good_chess T (Pos.to_nat (match N.max dd 1 with Npos q => q | N0 => xH end) + 130) (s_board st) ->
  s_board (go T orc g st) = s_board st.
Proof. exact (C09_go_depth_board_thm T (good_chess T) 129 chess_C03_family orc g st dd). Qed.

Theorem C09_sessions_chess_T cmds st :
  session_ok T (good_chess T) 129 cmds st -> s_quit (run_commands T cmds st) = false ->
  s_board (run_commands T cmds st) = fold_left (track T) cmds (s_board st).
Proof. exact (C09_sessions_thm T (good_chess T) 129 chess_C03_family cmds st). Qed.

Theorem C07_bestmove_legal_chess_T orc g st D :
  (length (fst (go_full T orc g st)) <= D)%nat -> good_chess T (D + 130) (s_board st) ->
  forall u, announced (fst (go_full T orc g st)) = Some u ->
  exists m, u = uci_of_move m /\ In m (gen_pseudo T (s_board st)) /\ is_move_legal T (s_board st) m = true /\
            (g_searchmoves g = [] \/ existsb (umove_eqb (uci_of_move m)) (g_searchmoves g) = true).
Proof. exact (C07_bestmove_legal_thm T (good_chess T) 129 chess_C03_family orc g st D). Qed.

Theorem C07_no_legal_move_null_chess_T orc g st D :
  (length (fst (go_full T orc g st)) <= D)%nat -> good_chess T (D + 130) (s_board st) ->
  (forall m, In m (root_moves T g (s_board st)) -> is_move_legal T (s_board st) m = false) ->
  announced (fst (go_full T orc g st)) = None.
Proof. exact (C07_no_legal_move_null_thm T (good_chess T) 129 chess_C03_family orc g st D). Qed.

End Chess.

(* ================= the tables of the current /repo ================= *)
Notation gen_tables := Ink.Gen.Tables.tables.

Lemma gen_tables_rank18_ok : tables_rank18_ok gen_tables = true.
Proof. vm_compute. reflexivity. Qed.

Lemma gen_tables_chess_ok : tables_chess_ok gen_tables = true.
Proof.
  unfold tables_chess_ok.
  rewrite gen_tables_castle_ok, Ink.Gen.SweepAll.tables_ok, gen_tables_bounded, gen_tables_geom_ok, gen_tables_rank18_ok.
  reflexivity.
Qed.

Theorem gen_chess_C03_family : C03_family gen_tables (good_chess gen_tables) 129.
Proof. exact (chess_C03_family gen_tables gen_tables_chess_ok). Qed.

Theorem make_preserves_gen : forall b m b',
  wf b = true -> rights_wf b = true -> ep_free b = true -> is_valid gen_tables b = true ->
  In m (gen_pseudo gen_tables b) -> make b m = Some b' ->
  wf b' = true /\ rights_wf b' = true /\ ep_free b' = true /\ half b' <= half b + 1.
Proof.
  exact (make_preserves gen_tables gen_tables_castle_ok Ink.Gen.SweepAll.tables_ok gen_tables_bounded
                        gen_tables_geom_ok gen_tables_rank18_ok).
Qed.

Theorem C09_negamax_board_chess : forall orc d ply alpha beta is_pv zh zph st,
  good_chess gen_tables (d + 130) (s_board st) ->
  s_board (snd (negamax gen_tables orc d ply alpha beta is_pv zh zph st)) = s_board st.
Proof. exact (C09_negamax_board_chess_T gen_tables gen_tables_chess_ok). Qed.

Theorem C09_quiescence_board_chess : forall fuel alpha beta zph st,
  good_chess gen_tables fuel (s_board st) ->
  s_board (snd (quiescence gen_tables fuel alpha beta zph st)) = s_board st.
Proof. exact (C09_quiescence_board_chess_T gen_tables gen_tables_chess_ok). Qed.

Theorem C09_go_board_chess : forall orc g st D,
  (length (fst (go_full gen_tables orc g st)) <= D)%nat -> good_chess gen_tables (D + 130) (s_board st) ->
  s_board (go gen_tables orc g st) = s_board st.
Proof. exact (C09_go_board_chess_T gen_tables gen_tables_chess_ok). Qed.

Theorem C09_go_depth_board_chess : forall orc g st dd, g_depth g = Some dd ->
  good_chess gen_tables (Pos.to_nat (match N.max dd 1 with Npos q => q | N0 => xH end) + 130) (s_board st) ->
  s_board (go gen_tables orc g st) = s_board st.
Proof. exact (C09_go_depth_board_chess_T gen_tables gen_tables_chess_ok). Qed.

Theorem C09_sessions_chess : forall cmds st,
  session_ok gen_tables (good_chess gen_tables) 129 cmds st -> s_quit (run_commands gen_tables cmds st) = false ->
  s_board (run_commands gen_tables cmds st) = fold_left (track gen_tables) cmds (s_board st).
Proof. exact (C09_sessions_chess_T gen_tables gen_tables_chess_ok). Qed.

Theorem C07_bestmove_legal_chess : forall orc g st D,
  (length (fst (go_full gen_tables orc g st)) <= D)%nat -> good_chess gen_tables (D + 130) (s_board st) ->
  forall u, announced (fst (go_full gen_tables orc g st)) = Some u ->
  exists m, u = uci_of_move m /\ In m (gen_pseudo gen_tables (s_board st)) /\
            is_move_legal gen_tables (s_board st) m = true /\
            (g_searchmoves g = [] \/ existsb (umove_eqb (uci_of_move m)) (g_searchmoves g) = true).
Proof. exact (C07_bestmove_legal_chess_T gen_tables gen_tables_chess_ok). Qed.

Theorem C07_no_legal_move_null_chess : forall orc g st D,
  (length (fst (go_full gen_tables orc g st)) <= D)%nat -> good_chess gen_tables (D + 130) (s_board st) ->
  (forall m, In m (root_moves gen_tables g (s_board st)) -> is_move_legal gen_tables (s_board st) m = false) ->
  announced (fst (go_full gen_tables orc g st)) = None.
Proof. exact (C07_no_legal_move_null_chess_T gen_tables gen_tables_chess_ok). Qed.

Theorem make_all_uci_all_or_nothing_gen : forall b ss e, good_chess gen_tables (length ss) b ->
  fst (make_all_uci gen_tables b ss) = inl e -> snd (make_all_uci gen_tables b ss) = Some b.
Proof. exact (make_all_uci_all_or_nothing_chess gen_tables gen_tables_chess_ok). Qed.

(* ================= the hypotheses are satisfiable ================= *)
(* start position, clock 0: covered for every go of up to 3965 iterations *)
Example good_chess_startpos : good_chess gen_tables 3965 (board_of_text STARTPOS).
Proof. apply good_chessb_spec. vm_compute. reflexivity. Qed.

Example good_chess_kiwipete :
  good_chess gen_tables 3965 (board_of_text (lit "r3k2r/p1ppqpb1/bn2pnp1/3PN3/1p2P3/2N2Q1p/PPPBBPPP/R3K2R w KQkq - 0 1")).
Proof. apply good_chessb_spec. vm_compute. reflexivity. Qed.

(* a position with a real e.p. square and clock 0 *)
Example good_chess_ep :
  good_chess gen_tables 3965 (board_of_text (lit "rnbqkbnr/ppp1p1pp/8/3pPp2/8/8/PPPP1PPP/RNBQKBNR w KQkq f6 0 3")).
Proof. apply good_chessb_spec. vm_compute. reflexivity. Qed.

(* ep_free is needed for wf of the successor: the FEN-accepted board of C03_bogus_ep_still_restored (black knight ON
   the e.p. square e6) satisfies everything else, and after d5xe6 e.p. two bitboards share e6 *)
Lemma ep_free_needed : exists b m b',
  wf b = true /\ rights_wf b = true /\ is_valid gen_tables b = true /\ ep_free b = false /\
  In m (gen_pseudo gen_tables b) /\ make b m = Some b' /\ is_valid gen_tables b' = true /\ wf b' = false.
Proof.
  exists cx_ep_board, cx_ep_move, (after_make cx_ep_board cx_ep_move).
  split; [vm_compute; reflexivity|]. split; [vm_compute; reflexivity|]. split; [vm_compute; reflexivity|].
  split; [vm_compute; reflexivity|]. split; [apply pick_move_In; vm_compute; reflexivity|].
  split; [vm_compute; reflexivity|]. split; vm_compute; reflexivity.
Qed.

(* is_valid is needed: with the side not to move in check the generator captures the king *)
Definition cx_invalid_board : board := board_of_text (lit "4k3/8/8/8/8/8/8/4K2r b - - 0 1").
Definition cx_invalid_move : move := pick_move cx_invalid_board (fun m => piece_attacked m =? KING).

Lemma is_valid_needed : exists b m b',
  wf b = true /\ rights_wf b = true /\ ep_free b = true /\ is_valid gen_tables b = false /\
  In m (gen_pseudo gen_tables b) /\ make b m = Some b' /\ wf b' = false.
Proof.
  exists cx_invalid_board, cx_invalid_move, (after_make cx_invalid_board cx_invalid_move).
  split; [vm_compute; reflexivity|]. split; [vm_compute; reflexivity|]. split; [vm_compute; reflexivity|].
  split; [vm_compute; reflexivity|]. split; [apply pick_move_In; vm_compute; reflexivity|].
  split; vm_compute; reflexivity.
Qed.

Print Assumptions gen_chess_C03_family.
Print Assumptions make_preserves_gen.
Print Assumptions C09_go_board_chess.
Print Assumptions C07_bestmove_legal_chess.
Print Assumptions make_all_uci_all_or_nothing_gen.

(* C13 (no-side-effect part): find_uci, make_uci, make_all_uci and uci_to_pgn of Model/Notation.v leave the
   board they were given behind whenever they do not (or must not) play a move.  All statements are corollaries
   of C03_unmake_make (Proofs/MakeUnmake.v) and therefore carry its hypotheses, bundled as `good`:
     wf b, rights_wf b (castling rights imply king and rook at home), half b < 4096
   and `tables_castle_ok T` on the tables.

   make_all_uci plays several moves, so the hypotheses must hold for every board on the way.  That `good` is
   preserved by a LEGAL move is NOT proved here: it is the explicit hypothesis `Hpres` of
   make_all_uci_all_or_nothing.  (It needs "a position in which the side not to move is not in check has no
   pseudo-legal king capture", i.e. soundness of the attack tables, which belongs to the move-generation
   properties; and the clock bound needs `half` to stay below 4096 along the line.) *)
Require Import Ink.Lib.Str.
Require Import NArith ZArith List Bool Lia.
Require Import Ink.Lib.Bits Ink.Model.Tables Ink.Model.Board Ink.Model.Fen Ink.Model.Notation.
Require Import Ink.Proofs.BitFacts Ink.Proofs.GenShape Ink.Proofs.MakeUnmake.
Import ListNotations.
Open Scope N_scope.

Definition good (b : board) : Prop := wf b = true /\ rights_wf b = true /\ half b < 4096.

Definition goodb (b : board) : bool := wf b && rights_wf b && (half b <? 4096).
Lemma goodb_spec b : goodb b = true -> good b.
Proof.
  unfold goodb, good. rewrite !andb_true_iff. intros ((H1 & H2) & H3). apply N.ltb_lt in H3. repeat split; assumption.
Qed.

Section Uci.
Variable T : Tables.t.
Hypothesis HT : tables_castle_ok T = true.

Lemma good_roundtrip b m : good b -> In m (gen_pseudo T b) -> exists b1, make b m = Some b1 /\ unmake b1 m = Some b.
Proof. intros (Hwf & Hr & Hh) Hin. exact (C03_unmake_make T HT b m Hwf Hr Hin Hh). Qed.

(* ---------- find_uci ---------- *)
(* complete description of the result *)
Lemma find_uci_cases b s : good b ->
  (exists e, find_uci T b s = (inl e, Some b)) \/
  (exists m b1, find_uci T b s = (inr m, Some b) /\ In m (gen_pseudo T b) /\ make b m = Some b1 /\ is_valid T b1 = true).
Proof.
  intros Hg. unfold find_uci. cbv zeta.
  destruct (find_first (fun m => str_eqb (to_uci m) (trim s)) (gen_pseudo T b)) as [m|] eqn:E.
  - apply find_first_In in E. destruct (good_roundtrip b m Hg E) as (b1 & H1 & H2). rewrite H1.
    destruct (is_valid T b1) eqn:Ev; cbn [negb]; rewrite H2.
    + right. exists m, b1. repeat split; assumption.
    + left. now exists MoveIsNotValid.
  - left. now exists MoveDoesNotExist.
Qed.

(* whatever the text, accepted or rejected: the board is left as it was *)
Theorem find_uci_board b s : good b -> snd (find_uci T b s) = Some b.
Proof.
  intros Hg. destruct (find_uci_cases b s Hg) as [(e & ->)|(m & b1 & -> & _)]; reflexivity.
Qed.

(* idempotence: asking again gives the same answer and the same board *)
Corollary find_uci_idempotent b s : good b ->
  exists r, find_uci T b s = (r, Some b) /\ forall b', snd (find_uci T b s) = Some b' -> find_uci T b' s = (r, Some b).
Proof.
  intros Hg. pose proof (find_uci_board b s Hg) as Hb.
  exists (fst (find_uci T b s)). split.
  - rewrite <- Hb. now destruct (find_uci T b s).
  - intros b' Hb'. rewrite Hb in Hb'. injection Hb' as <-. rewrite <- Hb. now destruct (find_uci T b s).
Qed.

(* ---------- make_uci ---------- *)
Theorem make_uci_error_board b s e : good b -> fst (make_uci T b s) = inl e -> snd (make_uci T b s) = Some b.
Proof.
  intros Hg. unfold make_uci.
  destruct (find_uci_cases b s Hg) as [(e' & ->)|(m & b1 & -> & _ & H1 & _)]; cbn [fst snd].
  - reflexivity.
  - discriminate.
Qed.

(* and when it succeeds, exactly one legal generated move has been played *)
Theorem make_uci_success b s : good b -> fst (make_uci T b s) = inr tt ->
  exists m b1, In m (gen_pseudo T b) /\ make b m = Some b1 /\ is_valid T b1 = true /\ snd (make_uci T b s) = Some b1.
Proof.
  intros Hg. unfold make_uci.
  destruct (find_uci_cases b s Hg) as [(e' & ->)|(m & b1 & -> & Hin & H1 & Hv)]; cbn [fst snd].
  - discriminate.
  - intros _. exists m, b1. repeat split; assumption.
Qed.

(* ---------- make_all_uci : all or nothing ---------- *)
(* every board the call visits is good.  Decidable (visited_goodb), so it can be checked on concrete input. *)
Fixpoint visited_good (b : board) (ss : list str) : Prop :=
  good b /\
  match ss with
  | [] => True
  | s :: r => match find_uci T b s with
              | (inr m, _) => match make b m with Some b1 => visited_good b1 r | None => True end
              | (inl _, _) => True
              end
  end.

Lemma visited_good_head b ss : visited_good b ss -> good b.
Proof. destruct ss; intros [H _]; exact H. Qed.

Lemma make_all_uci_aux_error ss : forall b made b0 e,
  visited_good b ss -> unmake_all (Some b) made = Some b0 ->
  fst (make_all_uci_aux T b ss made) = inl e -> snd (make_all_uci_aux T b ss made) = Some b0.
Proof.
  induction ss as [|s r IH]; intros b made b0 e Hv Hback; cbn [make_all_uci_aux].
  - cbn [fst]. discriminate.
  - destruct Hv as [Hg Hv]. destruct (find_uci_cases b s Hg) as [(e' & E)|(m & b1 & E & Hin & H1 & Hval)]; rewrite E in *.
    + cbn [fst snd]. intros _. exact Hback.
    + rewrite H1 in *. apply IH; [exact Hv|].
      cbn [unmake_all]. destruct (good_roundtrip b m Hg Hin) as (b1' & H1' & H2').
      rewrite H1 in H1'. injection H1' as <-. rewrite H2'. exact Hback.
Qed.

Theorem make_all_uci_all_or_nothing_checked b ss e : visited_good b ss ->
  fst (make_all_uci T b ss) = inl e -> snd (make_all_uci T b ss) = Some b.
Proof. intros Hv. unfold make_all_uci. apply make_all_uci_aux_error; [exact Hv|reflexivity]. Qed.

(* the panic arms (None) are never reached *)
Theorem make_all_uci_aux_some ss : forall b made b0,
  visited_good b ss -> unmake_all (Some b) made = Some b0 -> exists b', snd (make_all_uci_aux T b ss made) = Some b'.
Proof.
  induction ss as [|s r IH]; intros b made b0 Hv Hback; cbn [make_all_uci_aux].
  - now exists b.
  - destruct Hv as [Hg Hv]. destruct (find_uci_cases b s Hg) as [(e' & E)|(m & b1 & E & Hin & H1 & Hval)]; rewrite E in *.
    + cbn [snd]. now exists b0.
    + rewrite H1 in *. apply (IH b1 (m :: made) b0 Hv).
      cbn [unmake_all]. destruct (good_roundtrip b m Hg Hin) as (b1' & H1' & H2').
      rewrite H1 in H1'. injection H1' as <-. rewrite H2'. exact Hback.
Qed.

Fixpoint visited_goodb (b : board) (ss : list str) : bool :=
  goodb b &&
  match ss with
  | [] => true
  | s :: r => match find_uci T b s with
              | (inr m, _) => match make b m with Some b1 => visited_goodb b1 r | None => true end
              | (inl _, _) => true
              end
  end.

Lemma visited_goodb_spec ss : forall b, visited_goodb b ss = true -> visited_good b ss.
Proof.
  induction ss as [|s r IH]; intros b H; cbn [visited_goodb visited_good] in *;
    apply andb_true_iff in H as [Hg H]; (split; [now apply goodb_spec|]); [exact I|].
  destruct (find_uci T b s) as [[e|m] ob]; [exact I|].
  destruct (make b m) as [b1|]; [now apply IH|exact I].
Qed.

Section AllOrNothing.
(* NOT PROVED HERE, taken as a hypothesis: a legal move leads from a good board to a good board *)
Hypothesis Hpres : forall b m b1,
  good b -> In m (gen_pseudo T b) -> make b m = Some b1 -> is_valid T b1 = true -> good b1.

Lemma pres_visited_good ss : forall b, good b -> visited_good b ss.
Proof.
  induction ss as [|s r IH]; intros b Hg; cbn [visited_good]; (split; [exact Hg|]); [exact I|].
  destruct (find_uci_cases b s Hg) as [(e' & ->)|(m & b1 & -> & Hin & H1 & Hval)]; [exact I|].
  rewrite H1. apply IH. exact (Hpres b m b1 Hg Hin H1 Hval).
Qed.

Theorem make_all_uci_all_or_nothing b ss e : good b ->
  fst (make_all_uci T b ss) = inl e -> snd (make_all_uci T b ss) = Some b.
Proof. intros Hg. apply make_all_uci_all_or_nothing_checked. now apply pres_visited_good. Qed.

End AllOrNothing.

(* ---------- uci_to_pgn ---------- *)
Theorem uci_to_pgn_board b s : good b -> snd (uci_to_pgn T b s) = Some b.
Proof.
  intros Hg. unfold uci_to_pgn. cbv zeta.
  destruct (find_first (fun m => str_eqb (to_uci m) (trim s)) (gen_pseudo T b)) as [m|] eqn:E; [|reflexivity].
  apply find_first_In in E. destruct (good_roundtrip b m Hg E) as (b1 & H1 & H2). rewrite H1.
  destruct (negb (is_valid T b1)); cbn [snd]; exact H2.
Qed.

Corollary uci_to_pgn_idempotent b s : good b ->
  forall b', snd (uci_to_pgn T b s) = Some b' -> uci_to_pgn T b' s = uci_to_pgn T b s.
Proof. intros Hg b' Hb'. rewrite (uci_to_pgn_board b s Hg) in Hb'. now injection Hb' as <-. Qed.

End Uci.

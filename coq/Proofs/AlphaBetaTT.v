(* Proofs/AlphaBetaTT.v : Part 3 of the C08 proofs - negamax WITH the transposition table (SearchCore.negamax_tt).

   An entry is used whenever its stored depth is AT LEAST the remaining draft, so a node may be valued by a deeper
   search than the nominal one.  Moreover the probe narrows the window with a bound that was obtained for one tree
   while the search below explores another one, and the result is classified against alpha_ORIGINAL.  The result of a
   node is therefore in general NOT the exact value of one single game tree; what is true (and proved here) is the
   two-sided statement

       okx d p v a b :=   (a < v -> some admissible value x of (p, depth >= d) has v <= x)
                       /\ (v < b -> some admissible value x of (p, depth >= d) has x <= v)

   The theorem is proved once, generically in the notion of "admissible value" [adm r p x], which has to be closed under
   the two composition rules adm_up / adm_lo and under re-use at a smaller draft where the search re-uses it (adm_hit).
   Two instances (Proofs/AlphaBetaInst.v):
     - extension trees : adm r p x := exists t, root t = p /\ ext r t /\ val t = x          (no condition on the table)
     - nominal         : adm r p x := x = nm r p /\ "r is not larger than the draft p is searched with", usable when no
                         position occurs at two different plies (ply_unique): then okx is the usual fail-soft contract
                         with respect to nm d p. *)
Require Import NArith ZArith List Bool Lia Permutation.
Import ListNotations.
Require Import Ink.Spec.Minimax Ink.Model.SearchCore Ink.Proofs.MinimaxProofs Ink.Proofs.AlphaBeta.
Open Scope Z_scope.

Arguments Z.add : simpl never.
Arguments Z.sub : simpl never.
Arguments Z.mul : simpl never.
Arguments Z.opp : simpl never.
Arguments Z.max : simpl never.
Arguments Z.min : simpl never.
Arguments N.eqb : simpl never.

Section Generic.
Variable pos : Type.
Variable succs : pos -> list pos.
Variable noisy_succs : pos -> list pos.
Variable noisy_any : pos -> bool.
Variable static : pos -> Z.
Variable terminal : pos -> Z.
Variable qmeasure : pos -> nat.
Variable W : Z.
Hypothesis Hdec : Minimax.qmeasure_dec pos noisy_succs qmeasure.

Variable order_q : pos -> list pos -> list pos.
Hypothesis order_q_perm : forall p l, Permutation l (order_q p l).
Variable order : list pos -> pos -> list pos -> list pos.
Hypothesis order_perm : forall path p l, Permutation l (order path p l).
Variable rep : list pos -> pos -> option Z.
Variable root_empty : pos -> bool.
Hypothesis no_rep : forall path p, rep path p = None.

(* the table: any store whose lookups return what was put for that key or an older entry (eviction is allowed) *)
Variable table : Type.
Variable tt_get : table -> N -> option (entry pos).
Variable tt_put : table -> N -> entry pos -> table.
Variable key : pos -> N.
Variable M : Z.
Hypothesis tt_put_spec : forall t k e k' e',
  tt_get (tt_put t k e) k' = Some e' -> (k' = k /\ e' = e) \/ tt_get t k' = Some e'.

Local Notation nm := (Minimax.nm pos succs noisy_succs noisy_any static terminal qmeasure).
Local Notation horizon_ab := (SearchCore.horizon_ab pos succs noisy_succs noisy_any static terminal qmeasure order_q).
Local Notation probe := (SearchCore.probe pos table tt_get key).
Local Notation loop_tt := (SearchCore.loop_tt pos table).
Local Notation store := (SearchCore.store pos W table tt_put key M).
Local Notation negamax_tt :=
  (SearchCore.negamax_tt pos succs noisy_succs noisy_any static terminal W qmeasure order_q order rep root_empty
                         table tt_get tt_put key M).
Local Notation root_ok := (AlphaBeta.root_ok pos root_empty).

(* ---- admissible values ---- *)
Variable adm : nat -> pos -> Z -> Prop.
Variable node_ok : nat -> pos -> Prop.      (* "p may be searched with remaining draft d" *)
Variable vis : pos -> Prop.                 (* positions the search can visit *)
Hypothesis node_vis : forall d p, node_ok d p -> vis p.
Hypothesis node_step : forall k p q, node_ok (S k) p -> In q (succs p) -> node_ok k q.
Hypothesis adm_term : forall d p, node_ok d p -> succs p = [] -> adm d p (terminal p).
Hypothesis adm_leaf : forall p, node_ok 0 p -> adm 0 p (nm 0 p).
Hypothesis adm_up : forall k p u, node_ok (S k) p -> succs p <> [] ->
  (forall q, In q (succs p) -> exists x, adm k q x /\ - x <= u) -> exists y, adm (S k) p y /\ y <= u.
Hypothesis adm_lo : forall k p q x, node_ok (S k) p -> In q (succs p) -> adm k q x ->
  exists y, adm (S k) p y /\ - x <= y.
Hypothesis adm_hit : forall d r p x, node_ok d p -> (d <= r)%nat -> adm r p x -> adm d p x.

Definition okx (d : nat) (p : pos) (v a b : Z) : Prop :=
  (a < v -> exists x, adm d p x /\ v <= x) /\ (v < b -> exists x, adm d p x /\ x <= v).

Definition entry_ok (e : entry pos) (p : pos) : Prop :=
  match e_type pos e with
  | Exact => (exists x, adm (e_depth pos e) p x /\ e_value pos e <= x) /\
             (exists x, adm (e_depth pos e) p x /\ x <= e_value pos e)
  | Lower => exists x, adm (e_depth pos e) p x /\ e_value pos e <= x
  | Upper => exists x, adm (e_depth pos e) p x /\ x <= e_value pos e
  end.

(* every entry found under the key of a visitable position is a valid bound for it, and every entry belongs to some
   visitable position (the second half is what lets a table be carried over to a search with a larger vis) *)
(* What "no harmful key collision" means here.  Two visitable positions with the same key need not be equal (the
   Zobrist key ignores the clocks): it is enough that a bound with a NON-MATE value that is valid for one of them is
   valid for the other.  Mate scores depend on the full-move number, which is exactly why the code does not store them
   (l.479).  With an injective key this is trivial (key_inj_entry_key below). *)
Hypothesis entry_key : forall e p p', vis p -> vis p' -> key p = key p' ->
  SearchCore.is_mate_score W M (e_value pos e) = false -> entry_ok e p -> entry_ok e p'.

Definition tt_valid (tt : table) : Prop :=
  (forall p e, vis p -> tt_get tt (key p) = Some e -> entry_ok e p) /\
  (forall k e, tt_get tt k = Some e -> exists p, vis p /\ key p = k).

Lemma ok_okx d p v x a b : a < b -> ok v x a b -> adm d p x -> okx d p v a b.
Proof.
  intros Hab (O1 & O2 & O3) Hx. split; intros H; exists x; (split; [exact Hx|]).
  - destruct (Z.lt_ge_cases v b) as [Hb|Hb]; [rewrite O1 by lia; lia|]. assert (Hb' : v >= b) by lia. specialize (O3 Hb'). lia.
  - destruct (Z.lt_ge_cases a v) as [Ha|Ha]; [rewrite O1 by lia; lia|]. specialize (O2 Ha). lia.
Qed.

Lemma okx_exact d p v a b : adm d p v -> okx d p v a b.
Proof. intros H. split; intros _; exists v; (split; [exact H|lia]). Qed.

(* narrowing the window by valid bounds keeps the contract with respect to the ORIGINAL window *)
Lemma okx_widen d p v a0 b0 alpha beta :
  a0 <= alpha -> beta <= b0 ->
  (a0 < alpha -> exists x, adm d p x /\ alpha <= x) ->
  (beta < b0 -> exists x, adm d p x /\ x <= beta) ->
  okx d p v alpha beta -> okx d p v a0 b0.
Proof.
  intros Ha Hb HL HU [X1 X2]. split; intros H.
  - destruct (Z.lt_ge_cases alpha v) as [H'|H']; [exact (X1 H')|].
    destruct HL as (x & Hx & Hle); [lia|]. exists x. split; [exact Hx|lia].
  - destruct (Z.lt_ge_cases v beta) as [H'|H']; [exact (X2 H')|].
    destruct HU as (x & Hx & Hle); [lia|]. exists x. split; [exact Hx|lia].
Qed.

(* ---- the probe ---- *)
Lemma probe_spec tt d p a0 b0 : a0 < b0 -> node_ok d p -> tt_valid tt ->
  match probe tt d p a0 b0 with
  | inl r => okx d p (fst r) a0 b0
  | inr (alpha, beta) =>
      a0 <= alpha /\ alpha < beta /\ beta <= b0 /\
      (a0 < alpha -> exists x, adm d p x /\ alpha <= x) /\
      (beta < b0 -> exists x, adm d p x /\ x <= beta)
  end.
Proof.
  intros Hab Hnode Hval. unfold SearchCore.probe.
  assert (Hnone : a0 <= a0 /\ a0 < b0 /\ b0 <= b0 /\
            (a0 < a0 -> exists x, adm d p x /\ a0 <= x) /\ (b0 < b0 -> exists x, adm d p x /\ x <= b0)).
  { split; [lia|]. split; [lia|]. split; [lia|]. split; intros H; lia. }
  destruct (tt_get tt (key p)) as [e|] eqn:Eg; [|exact Hnone].
  destruct (Nat.leb_spec d (e_depth pos e)) as [Hd|Hd]; [|exact Hnone].
  pose proof (proj1 Hval p e (node_vis d p Hnode) Eg) as He. unfold entry_ok in He.
  assert (Hhit : forall x, adm (e_depth pos e) p x -> adm d p x) by (intros x; now apply adm_hit).
  destruct (e_type pos e).
  - cbn [fst]. destruct He as [(x1 & A1 & L1) (x2 & A2 & L2)].
    split; intros _; [exists x1|exists x2]; (split; [now apply Hhit|lia]).
  - destruct He as (x & A & L).
    destruct (Z.geb_spec (Z.max a0 (e_value pos e)) b0) as [Hc|Hc].
    + cbn [fst]. split; intros H; [exists x; split; [now apply Hhit|lia]|lia].
    + split; [lia|]. split; [lia|]. split; [lia|]. split; [|intros H; lia].
      intros H. exists x. split; [now apply Hhit|lia].
  - destruct He as (x & A & L).
    destruct (Z.geb_spec a0 (Z.min b0 (e_value pos e))) as [Hc|Hc].
    + cbn [fst]. split; intros H; [lia|exists x; split; [now apply Hhit|lia]].
    + split; [lia|]. split; [lia|]. split; [lia|]. split; [intros H; lia|].
      intros H. exists x. split; [now apply Hhit|lia].
Qed.

(* ---- the move loop ---- *)
Lemma loop_tt_ok (k : nat) (Q : pos -> Prop) (f : pos -> Z -> Z -> table -> tres pos table) (l : list pos) :
  (forall c a b tt, In c l -> - W <= a -> a < b -> b <= W -> tt_valid tt ->
     okx k c (fst (fst (f c a b tt))) a b /\ tt_valid (snd (f c a b tt))) ->
  (forall c, In c l -> Q c) ->
  forall (D : pos -> Prop) alpha0 alpha beta best bpv tt,
    alpha = Z.max alpha0 best -> - W <= alpha0 -> alpha < beta -> beta <= W -> tt_valid tt ->
    (best < beta -> forall c, D c -> exists x, adm k c x /\ - x <= best) ->
    (alpha0 < best -> exists q rest x, bpv = q :: rest /\ Q q /\ adm k q x /\ best <= - x) ->
    let R := loop_tt f l alpha beta best bpv tt in
    (fst (fst R) < beta -> forall c, D c \/ In c l -> exists x, adm k c x /\ - x <= fst (fst R)) /\
    (alpha0 < fst (fst R) -> exists q rest x, snd (fst R) = q :: rest /\ Q q /\ adm k q x /\ fst (fst R) <= - x) /\
    tt_valid (snd R).
Proof.
  intros Hf HQ. induction l as [|c r IH]; intros D alpha0 alpha beta best bpv tt Ha Hlo Hab Hhi Hval HU HL;
    cbn [SearchCore.loop_tt]; cbv zeta.
  - cbn [fst snd]. split; [|split; [exact HL|exact Hval]].
    intros Hb c' [Hc'|[]]. now apply HU.
  - destruct (Hf c (- beta) (- alpha) tt (or_introl eq_refl)) as [[X1 X2] Hval1]; [lia|lia|lia|exact Hval|].
    remember (f c (- beta) (- alpha) tt) as cr eqn:Ecr. clear Ecr.
    destruct cr as [[vc pvc] tt1]. cbn [fst snd] in *.
    assert (IH' : forall (D : pos -> Prop) alpha0 alpha beta best bpv tt,
      alpha = Z.max alpha0 best -> - W <= alpha0 -> alpha < beta -> beta <= W -> tt_valid tt ->
      (best < beta -> forall c, D c -> exists x, adm k c x /\ - x <= best) ->
      (alpha0 < best -> exists q rest x, bpv = q :: rest /\ Q q /\ adm k q x /\ best <= - x) ->
      (fst (fst (loop_tt f r alpha beta best bpv tt)) < beta ->
         forall c, D c \/ In c r -> exists x, adm k c x /\ - x <= fst (fst (loop_tt f r alpha beta best bpv tt))) /\
      (alpha0 < fst (fst (loop_tt f r alpha beta best bpv tt)) ->
         exists q rest x, snd (fst (loop_tt f r alpha beta best bpv tt)) = q :: rest /\ Q q /\ adm k q x /\
                          fst (fst (loop_tt f r alpha beta best bpv tt)) <= - x) /\
      tt_valid (snd (loop_tt f r alpha beta best bpv tt))).
    { apply IH; intros; [apply Hf|apply HQ]; try assumption; now right. }
    assert (Qc : Q c) by (apply HQ; now left).
    destruct (Z.gtb_spec (- vc) best) as [Hv|Hv].
    + destruct (Z.geb_spec (Z.max alpha (- vc)) beta) as [Hcut|Hcut].
      * cbn [fst snd]. split; [intros; lia|]. split; [|exact Hval1].
        intros Hgt. destruct X2 as (x & Ax & Lx); [lia|]. exists c, pvc, x. repeat split; try assumption. lia.
      * destruct (IH' (fun c' => D c' \/ c' = c) alpha0 (Z.max alpha (- vc)) beta (- vc) (c :: pvc) tt1)
          as (I1 & I2 & I3); try lia; try assumption.
        { intros Hb c' [Hd | ->].
          - destruct (HU ltac:(lia) c' Hd) as (x & Ax & Lx). exists x. split; [exact Ax|lia].
          - destruct X1 as (x & Ax & Lx); [lia|]. exists x. split; [exact Ax|lia]. }
        { intros Hgt. destruct X2 as (x & Ax & Lx); [lia|]. exists c, pvc, x. repeat split; try assumption. lia. }
        split; [|split; [exact I2|exact I3]].
        intros Hb c' [Hd | [<- | Hd]]; apply I1; try exact Hb; [left; now left|left; now right|now right].
    + destruct (Z.geb_spec (Z.max alpha best) beta) as [Hcut|Hcut]; [exfalso; lia|].
      destruct (IH' (fun c' => D c' \/ c' = c) alpha0 (Z.max alpha best) beta best bpv tt1)
        as (I1 & I2 & I3); try lia; try assumption.
      { intros Hb c' [Hd | ->].
        - now apply HU.
        - destruct X1 as (x & Ax & Lx); [lia|]. exists x. split; [exact Ax|lia]. }
      split; [|split; [exact I2|exact I3]].
      intros Hb c' [Hd | [<- | Hd]]; apply I1; try exact Hb; [left; now left|left; now right|now right].
Qed.

(* ---- the store ---- *)
Lemma store_valid tt d p best a0 b0 beta bpv :
  node_ok d p -> a0 < b0 -> beta <= b0 -> tt_valid tt -> okx d p best a0 b0 ->
  tt_valid (store tt d p best a0 beta bpv).
Proof.
  intros Hnode Hab Hb Hval [X1 X2]. unfold SearchCore.store.
  destruct (SearchCore.is_mate_score W M best) eqn:Emate; [exact Hval|].
  split.
  2:{ intros k' e' Hget. apply tt_put_spec in Hget. destruct Hget as [[-> _]|Hold]; [|now apply (proj2 Hval k' e')].
      exists p. split; [exact (node_vis d p Hnode)|reflexivity]. }
  intros p' e' Hvis' Hget. apply tt_put_spec in Hget. destruct Hget as [[Hk ->]|Hold]; [|now apply (proj1 Hval p')].
  apply (entry_key _ p p' (node_vis d p Hnode) Hvis' (eq_sym Hk)); [exact Emate|].
  unfold entry_ok, SearchCore.node_type. cbn [e_type e_depth e_value].
  destruct (Z.leb_spec best a0) as [H1|H1]; [apply X2; lia|].
  destruct (Z.geb_spec best beta) as [H2|H2]; [apply X1; lia|].
  split; [apply X1; lia|apply X2; lia].
Qed.

(* ---- the node ---- *)
Theorem negamax_tt_generic : forall d path p a0 b0 tt,
  - W <= a0 -> a0 < b0 -> b0 <= W -> node_ok d p -> root_ok path p -> tt_valid tt ->
  let R := negamax_tt d path p a0 b0 tt in
  okx d p (fst (fst R)) a0 b0 /\ tt_valid (snd R).
Proof.
  induction d as [|k IH]; intros path p a0 b0 tt Hlo Hab Hhi Hnode Hroot Hval; cbv zeta;
    cbn [SearchCore.negamax_tt]; rewrite (AlphaBeta.rep_leaf_none pos rep no_rep);
    pose proof (probe_spec tt _ p a0 b0 Hab Hnode Hval) as HP;
    destruct (probe tt _ p a0 b0) as [r|[alpha beta]].
  - cbn [fst snd]. split; [exact HP|exact Hval].
  - destruct HP as (P1 & P2 & P3 & P4 & P5). rewrite (AlphaBeta.root_guard pos root_empty path p Hroot).
    cbn [fst snd]. split; [|exact Hval].
    apply (okx_widen 0 p _ a0 b0 alpha beta P1 P3 P4 P5).
    apply (ok_okx 0 p _ (nm 0 p)); [exact P2| |now apply adm_leaf].
    apply (AlphaBeta.horizon_ab_ok pos succs noisy_succs noisy_any static terminal qmeasure Hdec order_q order_q_perm).
    exact P2.
  - cbn [fst snd]. split; [exact HP|exact Hval].
  - destruct HP as (P1 & P2 & P3 & P4 & P5). rewrite (AlphaBeta.root_guard pos root_empty path p Hroot).
    destruct (succs p) as [|c0 r0] eqn:E.
    + cbn [fst snd]. split; [|exact Hval]. apply okx_exact. now apply adm_term.
    + assert (Hne : succs p <> []) by (rewrite E; discriminate). rewrite <- E.
      pose proof (order_perm path p (succs p)) as HPerm.
      destruct (loop_tt_ok k (fun c => In c (succs p)) (negamax_tt k (p :: path)) (order path p (succs p)))
        with (D := fun _ : pos => False) (alpha0 := alpha) (alpha := alpha) (beta := beta) (best := - W)
             (bpv := @nil pos) (tt := tt) as (L1 & L2 & L3).
      * intros c a b tt' Hc Ha1 Ha2 Ha3 Hv'. apply IH; try assumption.
        -- apply (node_step k p c Hnode). exact (Permutation_in _ (Permutation_sym HPerm) Hc).
        -- unfold AlphaBeta.root_ok. discriminate.
      * intros c Hc. exact (Permutation_in _ (Permutation_sym HPerm) Hc).
      * lia.
      * lia.
      * exact P2.
      * lia.
      * exact Hval.
      * intros _ c [].
      * intros H. exfalso. lia.
      * remember (loop_tt (negamax_tt k (p :: path)) (order path p (succs p)) alpha beta (- W) [] tt) as lr eqn:Elr.
        clear Elr. destruct lr as [[best bpv] tt1]. cbn [fst snd] in *.
        assert (HX : okx (S k) p best a0 b0).
        { apply (okx_widen (S k) p best a0 b0 alpha beta P1 P3 P4 P5). split; intros H.
          - destruct (L2 H) as (q & rest & x & _ & Hq & Ax & Lx).
            destruct (adm_lo k p q x Hnode Hq Ax) as (y & Ay & Ly). exists y. split; [exact Ay|lia].
          - destruct (adm_up k p best Hnode Hne) as (y & Ay & Ly).
            + intros q Hq. apply (L1 H). right. exact (Permutation_in _ HPerm Hq).
            + exists y. split; [exact Ay|exact Ly]. }
        split; [exact HX|]. apply (store_valid tt1 (S k) p best a0 b0 beta bpv); try assumption.
Qed.

(* at a node that is searched (no usable table entry), an in-window result comes with the move that attains it *)
Theorem negamax_tt_best_move : forall k path p a0 b0 tt,
  - W <= a0 -> a0 < b0 -> b0 <= W -> node_ok (S k) p -> root_ok path p -> tt_valid tt ->
  probe tt (S k) p a0 b0 = inr (a0, b0) -> succs p <> [] ->
  let R := negamax_tt (S k) path p a0 b0 tt in
  a0 < fst (fst R) ->
  exists q rest x, snd (fst R) = q :: rest /\ In q (succs p) /\ adm k q x /\ fst (fst R) <= - x.
Proof.
  intros k path p a0 b0 tt Hlo Hab Hhi Hnode Hroot Hval Hprobe Hne. cbv zeta.
  cbn [SearchCore.negamax_tt]. rewrite (AlphaBeta.rep_leaf_none pos rep no_rep), Hprobe.
  rewrite (AlphaBeta.root_guard pos root_empty path p Hroot).
  destruct (succs p) as [|c0 r0] eqn:E; [contradiction|]. rewrite <- E.
  pose proof (order_perm path p (succs p)) as HPerm.
  destruct (loop_tt_ok k (fun c => In c (succs p)) (negamax_tt k (p :: path)) (order path p (succs p)))
    with (D := fun _ : pos => False) (alpha0 := a0) (alpha := a0) (beta := b0) (best := - W)
         (bpv := @nil pos) (tt := tt) as (L1 & L2 & L3).
  - intros c a b tt' Hc Ha1 Ha2 Ha3 Hv'. apply negamax_tt_generic; try assumption.
    + apply (node_step k p c Hnode). exact (Permutation_in _ (Permutation_sym HPerm) Hc).
    + unfold AlphaBeta.root_ok. discriminate.
  - intros c Hc. exact (Permutation_in _ (Permutation_sym HPerm) Hc).
  - lia.
  - lia.
  - exact Hab.
  - lia.
  - exact Hval.
  - intros _ c [].
  - intros H. exfalso. lia.
  - cbn [fst snd]. exact L2.
Qed.

End Generic.

(* an injective key (no two visitable positions share a key) satisfies entry_key *)
Lemma key_inj_entry_key (pos : Type) (adm : nat -> pos -> Z -> Prop) (vis : pos -> Prop) (key : pos -> N) (W M : Z) :
  (forall p p', vis p -> vis p' -> key p = key p' -> p = p') ->
  forall e p p', vis p -> vis p' -> key p = key p' ->
  SearchCore.is_mate_score W M (e_value pos e) = false -> entry_ok pos adm e p -> entry_ok pos adm e p'.
Proof. intros Hinj e p p' Hp Hp' Hk _ He. now rewrite <- (Hinj p p' Hp Hp' Hk). Qed.

(* Proofs/C08History.v : the concrete C08 / C09 theorems "irrespective of what was searched before on the same engine
   instance".

   Proofs/C08Closed.v asks [history_fresh T h0 D root]: NO inspected entry of the history h0 the `go` starts from equals
   the key of the inspecting tree position.  After an earlier search of the same position on the same engine, h0 holds
   stale entries at indices ABOVE the root's ply clock (keys of the earlier tree), and they do equal keys of the new
   tree: history_fresh is false there.  Those entries are never read: search_negamax stores the key of a node at the
   node's ply clock BEFORE the repetition test, so when a node y at ply i runs its test every index that belongs to a
   ply j < i holds the key of y's ancestor at ply j; by ply_unique that key differs from the key of y.

   Part A   the premises  [history_fresh_below] (only inspected indices x < ply_clock_w root: the game history proper;
            the entry AT the root's clock is rewritten by the root visit of every iteration and is not constrained) and the
            weaker, exact  [history_fresh_path] (only inspected indices that are not the ply clock of a position at a ply
            j < i); [fresh_fresh_below], [fresh_below_path].  The invariant [HIB h0 D root i h] on `s_history` while a node
            at ply i is being searched: an entry is the one of h0 AND its index is not the clock of a ply j < i, or it is
            the key of a tree position stored at that position's ply clock.  [HIB_visit]: no node takes the repetition
            leaf.  [HIB_visit_1]: at depth 1 this needs no premise on keys at all (parity).
   Part B   the refinement of Proofs/C08Closed.v (Section RefineH) repeated with [HIB] in place of [HI]: [node_okB],
            [negamax_refineB], [go_refineB]; transfer [go_depth_concreteB] (every depth, ply_unique) and
            [depth1_concreteB] (depth 1, no premise on keys).
   Part C   closed forms: [negamax_refines_closedB], [go_depth_closedB], [go_depth_closed_tablesB], chess instances
            [go_depth_closed_chessB], [reported_score_exact_chessB], depth 1: [depth1_closedB], [depth1_reported_chessB].
   Part D   sessions.  `set_position_from` installs a NEW history (ZobristHistory::default() + the positions of the
            command): nothing of an earlier game survives ([position_history_fresh_start]).  A `go` (ANY oracle: aborted,
            stopped, ...) writes only at the ply clocks of the plies 0..depth below its root ([go_history_writes]); without a
            u16 wrap inside that range these are indices >= the root's clock ([go_history_below]), so
            history_fresh_below survives any number of searches of the position ([searches_keep_fresh_below]).
   Part E   C09: `go depth 1` on two engine states with the same board reports the same score
            ([depth1_score_state_independent], [depth1_after_searches]).
   Part F   boolean checker for history_fresh_below, the example (two consecutive `go depth 2`, half-move clock 40). *)
Require Import Ink.Lib.Str.
Require Import NArith ZArith List Bool Lia Arith Permutation.
Require Import ZifyBool ZifyN.
Require Import Ink.Lib.Bits Ink.Model.Tables Ink.Model.Board Ink.Model.Fen Ink.Model.Notation Ink.Model.History.
Require Import Ink.Model.Heuristic Ink.Model.UciTx Ink.Model.Search.
Require Ink.Model.HashTable.
Require Ink.Spec.Minimax Ink.Model.SearchCore Ink.Proofs.MinimaxProofs Ink.Proofs.AlphaBeta Ink.Proofs.AlphaBetaTT
        Ink.Proofs.AlphaBetaInst.
Require Ink.Proofs.ZobristProofs Ink.Proofs.HistoryProofs Ink.Spec.Draws Ink.Spec.FifoMap.
Require Import Ink.Proofs.HashTableProofs Ink.Proofs.SearchProofs Ink.Proofs.ChessGame Ink.Proofs.SearchRefine.
Require Ink.Proofs.RepetitionProofs.
Require Import Ink.Proofs.SessionProofs.
Require Import Ink.Proofs.ChessInstance Ink.Proofs.RepetitionInstance Ink.Proofs.C08Chess.
Require Import Ink.Proofs.C08Closed.
Import ListNotations.
Open Scope N_scope.

Arguments N.add : simpl never.
Arguments N.sub : simpl never.
Arguments N.mul : simpl never.
Arguments N.div : simpl never.
Arguments N.modulo : simpl never.
Arguments N.eqb : simpl never.
Arguments N.ltb : simpl never.
Arguments N.leb : simpl never.
Arguments Z.add : simpl never.
Arguments Z.mul : simpl never.
Arguments Z.opp : simpl never.
Arguments Z.max : simpl never.
Arguments Z.min : simpl never.
Arguments Z.ltb : simpl never.
Arguments Z.leb : simpl never.
Arguments Z.gtb : simpl never.
Arguments Z.geb : simpl never.

(* ================================================================== *)
(* Part A: the premises and the invariant                                                                           *)

(* consecutive ply clocks have different parities, also across the u16 wrap *)
Lemma parity_wrap c : (c mod 65536) mod 2 <> ((c + 1) mod 65536) mod 2.
Proof.
  pose proof (N.div_mod' c 65536) as A0. pose proof (N.mod_lt c 65536 ltac:(discriminate)) as B0.
  pose proof (N.div_mod' (c + 1) 65536) as A1. pose proof (N.mod_lt (c + 1) 65536 ltac:(discriminate)) as B1.
  pose proof (N.div_mod' (c mod 65536) 2) as A2. pose proof (N.mod_lt (c mod 65536) 2 ltac:(discriminate)) as B2.
  pose proof (N.div_mod' ((c + 1) mod 65536) 2) as A3. pose proof (N.mod_lt ((c + 1) mod 65536) 2 ltac:(discriminate)) as B3.
  lia.
Qed.
Section Below.
Variable T : Tables.t.
Local Notation succs := (ChessGame.succs T).
Local Notation at_ply := (Minimax.at_ply board succs).
Local Notation clock_ok := RepetitionProofs.clock_ok.
Local Notation ply_count := RepetitionProofs.ply_count.

(* THE PREMISE.  Like [history_fresh], but only for inspected indices strictly below the root's ply clock: the positions
   of the game before the root.  Nothing is asked of the entry at the root's clock (every iteration's root visit stores
   the root's key there before any other node runs its test) nor of any entry above it. *)
Definition history_fresh_below (h : hist) (D : nat) (root : board) : Prop :=
  forall i y x, (1 <= i <= D)%nat -> at_ply root i y ->
    Draws.in_window (ply_clock_w y) (half y mod 65536) x = true -> x < ply_clock_w root ->
    hget h x <> zobrist_hash T y.

(* the exact form: only inspected indices that are not the ply clock of a position at a smaller ply (with a u16 wrap of
   the ply clock between the root and y the indices below the root's clock are such clocks, too) *)
Definition history_fresh_path (h : hist) (D : nat) (root : board) : Prop :=
  forall i y x, (1 <= i <= D)%nat -> at_ply root i y ->
    Draws.in_window (ply_clock_w y) (half y mod 65536) x = true ->
    (forall j y', (j < i)%nat -> at_ply root j y' -> ply_clock_w y' <> x) ->
    hget h x <> zobrist_hash T y.

Lemma fresh_fresh_below h D root : history_fresh T h D root -> history_fresh_below h D root.
Proof. intros H i y x Hi Hy Hw _. exact (H i y x Hi Hy Hw). Qed.

Lemma fresh_fresh_path h D root : history_fresh T h D root -> history_fresh_path h D root.
Proof. intros H i y x Hi Hy Hw _. exact (H i y x Hi Hy Hw). Qed.

(* every ply below a reached ply is reached *)
Lemma at_ply_prefix root i y : at_ply root i y -> forall j, (j <= i)%nat -> exists y', at_ply root j y'.
Proof.
  intros H. induction H as [|i p q Hp IH Hq]; intros j Hj.
  - assert (j = 0%nat) by lia. subst j. exists root. constructor.
  - destruct (Nat.eq_dec j (S i)) as [->|Hne].
    + exists q. exact (Minimax.at_ply_S board succs root i p q Hp Hq).
    + apply IH. lia.
Qed.

Lemma at_ply_clock_w root i y : clock_ok root -> at_ply root i y ->
  ply_clock_w y = (ply_count root + N.of_nat i) mod 65536.
Proof.
  intros Hc Hy. destruct (at_ply_clock T root Hc i y Hy) as [_ E].
  now rewrite RepetitionProofs.ply_clock_w_count, E.
Qed.

(* an inspected index at or above the root's clock is the clock of a smaller ply *)
Lemma window_above_root root i y x : clock_ok root -> at_ply root i y ->
  Draws.in_window (ply_clock_w y) (half y mod 65536) x = true -> ply_clock_w root <= x ->
  exists j y', (j < i)%nat /\ at_ply root j y' /\ ply_clock_w y' = x.
Proof.
  intros Hc Hy Hw Hx. apply HistoryProofs.in_window_iff in Hw as (_ & Hw & _).
  pose proof (at_ply_clock_w root i y Hc Hy) as Ey.
  pose proof (RepetitionProofs.ply_clock_w_count root) as Er.
  assert (Hlt : ply_clock_w y < 65536) by apply RepetitionProofs.ply_clock_w_lt.
  assert (Hle : ply_clock_w y <= ply_clock_w root + N.of_nat i).
  { rewrite Ey, Er.
    rewrite <- (N.add_mod_idemp_l (ply_count root) (N.of_nat i) 65536) by discriminate.
    apply N.mod_le. discriminate. }
  set (j := N.to_nat (x - ply_clock_w root)).
  assert (Hj : (j < i)%nat) by (unfold j; lia).
  destruct (at_ply_prefix root i y Hy j ltac:(lia)) as (y' & Hy').
  exists j, y'. split; [exact Hj|]. split; [exact Hy'|].
  rewrite (at_ply_clock_w root j y' Hc Hy').
  rewrite <- (N.add_mod_idemp_l (ply_count root) (N.of_nat j) 65536) by discriminate.
  rewrite <- Er. unfold j. rewrite N2Nat.id.
  replace (ply_clock_w root + (x - ply_clock_w root)) with x by lia.
  apply N.mod_small. lia.
Qed.

Lemma fresh_below_path h D root : clock_ok root -> history_fresh_below h D root -> history_fresh_path h D root.
Proof.
  intros Hc H i y x Hi Hy Hw Hoff.
  destruct (N.lt_ge_cases x (ply_clock_w root)) as [Hlt|Hge]; [exact (H i y x Hi Hy Hw Hlt)|].
  destruct (window_above_root root i y x Hc Hy Hw Hge) as (j & y' & Hj & Hy' & E).
  exfalso. exact (Hoff j y' Hj Hy' E).
Qed.

(* THE INVARIANT of the search on `s_history` while a node at ply i is being searched (before that node stores its own
   key): an entry is still the one of h0 and its index is not the ply clock of a ply j < i -- or it is the key of a
   position of the tree (ply <= D), stored at the ply clock of that position.  Nothing is said about WHICH tree key an
   overwritten entry holds: any content of h0 at the indices of the plies 0..i-1 is allowed. *)
Definition HIB (h0 : hist) (D : nat) (root : board) (i : nat) (h : hist) : Prop :=
  forall x, (hget h x = hget h0 x /\ forall j y', (j < i)%nat -> at_ply root j y' -> ply_clock_w y' <> x) \/
            exists j y, (j <= D)%nat /\ at_ply root j y /\ ply_clock_w y = x /\ hget h x = zobrist_hash T y.

Lemma HIB_init h0 D root : HIB h0 D root 0 h0.
Proof. intros x. left. split; [reflexivity|]. intros j y' Hj. lia. Qed.

Lemma HIB_HI h0 D root i h : HIB h0 D root i h -> HI T h0 D root h.
Proof. intros H x. destruct (H x) as [[E _]|R]; [now left|now right]. Qed.

Lemma HI_HIB0 h0 D root h : HI T h0 D root h -> HIB h0 D root 0 h.
Proof. intros H x. destruct (H x) as [E|R]; [left|now right]. split; [exact E|]. intros j y' Hj. lia. Qed.

Lemma HIB_weaken h0 D root i j h : (j <= i)%nat -> HIB h0 D root i h -> HIB h0 D root j h.
Proof.
  intros Hji H x. destruct (H x) as [[E Hoff]|R]; [left|now right]. split; [exact E|].
  intros k y' Hk. apply Hoff. lia.
Qed.

(* the node at ply i stores its key: the invariant of the plies below it *)
Lemma HIB_set h0 D root i h y : clock_ok root -> HIB h0 D root i h -> (i <= D)%nat -> at_ply root i y ->
  HIB h0 D root (S i) (hset h (ply_clock_w y) (zobrist_hash T y)).
Proof.
  intros Hc H Hi Hy x. rewrite HistoryProofs.hget_hset. destruct (N.eqb_spec x (ply_clock_w y)) as [->|Hne].
  - right. exists i, y. repeat split; assumption.
  - destruct (H x) as [[E Hoff]|R]; [left|now right]. split; [exact E|].
    intros j y' Hj Hy'. destruct (Nat.eq_dec j i) as [->|Hji]; [|apply (Hoff j y'); [lia|exact Hy']].
    rewrite (at_ply_same_clock T root i y' y Hc Hy' Hy). intros E'. apply Hne. now symmetry.
Qed.

(* depth 1: only the root and its successors write, the successors inspect indices of their own parity below their
   clock; neither the root's index (other parity) nor their own is among them.  No premise on keys. *)
Lemma HIB_visit_1 h0 root h i y :
  clock_ok root -> history_fresh_path h0 1 root ->
  HIB h0 1 root i h -> (i <= 1)%nat -> at_ply root i y ->
  snd (visit h (N.of_nat i) (ply_clock_w y) (zobrist_hash T y) (half y)) = false.
Proof.
  intros Hc HF H Hi Hy. destruct i as [|i]; [apply HistoryProofs.visit_root|].
  assert (i = 0%nat) by lia. subst i.
  apply visit_fresh. intros x Hw E.
  destruct (H x) as [[E0 Hoff]|(j & y' & Hj & Hy' & Ex & Ek)].
  - apply (HF 1%nat y x ltac:(lia) Hy Hw Hoff). now rewrite <- E0.
  - apply HistoryProofs.in_window_iff in Hw as (Hpar & Hw & _).
    pose proof (at_ply_clock_w root 1 y Hc Hy) as Ey.
    pose proof (at_ply_clock_w root j y' Hc Hy') as Ey'.
    assert (Hj' : j = 0%nat \/ j = 1%nat) by lia. destruct Hj' as [-> | ->].
    + (* the root's index has the other parity *)
      change (N.of_nat 0) with 0 in Ey'. change (N.of_nat 1) with 1 in Ey. rewrite N.add_0_r in Ey'.
      rewrite Ey' in Ex. rewrite Ey, <- Ex in Hpar. exact (parity_wrap (ply_count root) Hpar).
    + rewrite Ey' in Ex. rewrite Ey in Hw. lia.
Qed.

Variable sim : nat -> board -> board -> Prop.

(* no node of the tree takes the repetition leaf, whatever h0 holds at the indices of the plies above the root *)
Lemma HIB_visit h0 D root h i y :
  clock_ok root -> Minimax.ply_unique board succs (zobrist_hash T) sim D root -> history_fresh_path h0 D root ->
  HIB h0 D root i h -> (i <= D)%nat -> at_ply root i y ->
  snd (visit h (N.of_nat i) (ply_clock_w y) (zobrist_hash T y) (half y)) = false.
Proof.
  intros Hc HU HF H Hi Hy. destruct i as [|i]; [apply HistoryProofs.visit_root|].
  apply visit_fresh. intros x Hw E.
  destruct (H x) as [[E0 Hoff]|(j & y' & Hj & Hy' & Ex & Ek)].
  - apply (HF (S i) y x ltac:(lia) Hy Hw Hoff). now rewrite <- E0.
  - rewrite E in Ek. destruct (HU (S i) j y y' Hi Hj Hy Hy' Ek) as [<- _].
    pose proof (at_ply_same_clock T root (S i) y y' Hc Hy Hy') as Ec.
    apply HistoryProofs.in_window_iff in Hw. lia.
Qed.

End Below.

(* ================================================================== *)
(* Part B: the refinement of Proofs/C08Closed.v (Section RefineH) with [HIB] in place of [HI].  The proofs are those of
   RefineH; what changes is the index of the invariant: a node at ply i receives HIB i, stores its key (HIB (S i)),
   searches its successors under HIB (S i) and hands HIB i back.                                                    *)
Section RefineB.
Variable T : Tables.t.
Hypothesis HT : ZobristProofs.gen_masks_ok T = true.
Variable good : nat -> board -> Prop.
Variable Q : nat.
Hypothesis inverse : forall n b m, good (S n) b -> In m (gen_pseudo T b) ->
  exists b', make b m = Some b' /\ unmake b' m = Some b /\ (is_valid T b' = true -> good n b').
Hypothesis good_mono : forall n b, good (S n) b -> good n b.
Hypothesis qfuel_bound : forall n b, good n b -> (qfuel b <= Q)%nat.
Hypothesis good_sane : forall n b, good n b -> sane b = true.

Local Notation succs := (ChessGame.succs T).
Local Notation noisy_succs := (ChessGame.noisy_succs T).
Local Notation noisy_any := (ChessGame.noisy_any T).
Variable stat : board -> Z.
Hypothesis stat_good : forall n b, good n b -> stat b = ChessGame.static T b.
Local Notation static := stat.
Local Notation terminal := (ChessGame.terminal T).
Local Notation children := (ChessGame.children T).
Local Notation Hdec := (chess_qmeasure_dec T HT).
Local Notation W := (SearchRefine.W T).
Local Notation Mx := (SearchRefine.Mx T).
Local Notation root_empty := (SearchRefine.root_empty T).
Local Notation order_q := (SearchRefine.order_q T).
Local Notation at_ply := (Minimax.at_ply board succs).

Hypothesis HK : ZobristProofs.keys_rows_ok T = true.
Variable orc : oracle.
Hypothesis quiet_abort : abort_at orc = None.
Hypothesis quiet_inbox : forall k, inbox orc k = [].

(* the tree, its depth, the history the `go` starts from *)
Variable root : board.
Variable D : nat.
Variable h0 : hist.
Hypothesis Hclock : RepetitionProofs.clock_ok root.

Local Notation HIh := (HIB T h0 D root).

(* what the premises on keys and on the history are used for (HIB_visit / HIB_visit_1 discharge it) *)
Hypothesis Hvis : forall h i y, HIh i h -> (i <= D)%nat -> at_ply root i y ->
  snd (visit h (N.of_nat i) (ply_clock_w y) (zobrist_hash T y) (half y)) = false.

Lemma wk i h : HIh (S i) h -> HIh i h.
Proof. apply HIB_weaken. lia. Qed.
Local Notation good_le' := (SearchRefine.good_le' good good_mono).

Local Notation nttC o :=
  (SearchCore.negamax_tt board succs noisy_succs noisy_any static terminal W qmeasure order_q o rep0 root_empty
     atable a_get a_put (zobrist_hash T) Mx).
Local Notation probeC := (SearchCore.probe board atable a_get (zobrist_hash T)).

Lemma node_prelude_refineB ply i d a0 b0 st at_ path :
  SI st -> TR (s_tt st) at_ -> ply = N.of_nat i -> (i <= D)%nat -> at_ply root i (s_board st) -> HIh i (s_history st) ->
  SearchCore.is_root board path = (ply =? 0) ->
  let r := node_prelude T orc ply (N.of_nat d) a0 b0 (zobrist_hash T (s_board st)) st in
  (s_board (snd r) = s_board st /\ s_tt (snd r) = s_tt st /\ s_stop (snd r) = s_stop st /\ s_go (snd r) = s_go st /\
   HIh (S i) (s_history (snd r))) /\
  match probeC at_ d (s_board st) a0 b0 with
  | inl res => exists v, fst r = PreReturn v /\ vm_value v = fst res
  | inr (alpha, beta) =>
      if SearchCore.is_root board path && root_empty (s_board st) then fst r = PreReturn (leaf 0)
      else exists ttm, fst r = PreGo alpha beta ttm (gen_pseudo T (s_board st))
  end.
Proof.
  intros (Hstop & Hmt & Hsm) HTR Hply Hi Hat HH Hroot. unfold node_prelude.
  destruct (poll_block_quiet T orc quiet_abort quiet_inbox st Hmt) as (Hp & B1 & T1 & S1 & G1).
  pose proof (RepetitionProofs.poll_block_hc T orc st) as [Hh1 _].
  destruct (poll_block T orc st) as [o st1]. cbn [fst snd] in Hp, B1, T1, S1, G1, Hh1. subst o.
  cbv zeta. sproj. rewrite B1, Hh1.
  pose proof (Hvis (s_history st) i (s_board st) HH Hi Hat) as Hv. rewrite <- Hply in Hv.
  assert (Hf : fst (visit (s_history st) ply (ply_clock_w (s_board st)) (zobrist_hash T (s_board st)) (half (s_board st))) =
               hset (s_history st) (ply_clock_w (s_board st)) (zobrist_hash T (s_board st))) by reflexivity.
  destruct (visit (s_history st) ply (ply_clock_w (s_board st)) (zobrist_hash T (s_board st)) (half (s_board st))) as [h' rp].
  cbn [fst snd] in Hv, Hf. subst rp.
  assert (HH' : HIh (S i) h') by (rewrite Hf; now apply (HIB_set T h0 D root i (s_history st))).
  set (st3 := set_history (set_nm_nodes st1 (s_nm_nodes st1 + 1)) h').
  assert (F3 : s_board st3 = s_board st /\ s_tt st3 = s_tt st /\ s_stop st3 = s_stop st /\ s_go st3 = s_go st /\ s_history st3 = h').
  { subst st3. sproj. repeat split; assumption. }
  destruct F3 as (B3 & T3 & S3 & G3 & H3).
  assert (HTR3 : TR (s_tt st3) at_) by (rewrite T3; exact HTR).
  pose proof (tt_probe_refine T HT HK st3 at_ d (s_board st) a0 b0 HTR3) as Hpr.
  destruct (tt_probe st3 (zobrist_hash T (s_board st)) (N.of_nat d) a0 b0) as [v|[[al be] ttm]],
           (probeC at_ d (s_board st) a0 b0) as [res|[al' be']]; try contradiction.
  - cbn [fst snd]. split; [rewrite H3; repeat split; assumption|]. exists v. split; [reflexivity|exact Hpr].
  - destruct Hpr as [-> ->]. rewrite (filter_search_moves_nil st3) by (rewrite G3; exact Hsm).
    rewrite Hroot. unfold SearchRefine.root_empty.
    assert (Eb : (if ply =? 0 then gen_pseudo T (s_board st) else gen_pseudo T (s_board st)) = gen_pseudo T (s_board st))
      by (destruct (ply =? 0); reflexivity).
    rewrite Eb.
    destruct ((ply =? 0) && is_nil (gen_pseudo T (s_board st))); cbn [fst snd];
      (split; [rewrite H3; repeat split; assumption|]); [reflexivity|]. exists ttm. reflexivity.
Qed.

(* "depth k refines", for nodes of the tree at a ply i with i + k <= D *)
Definition node_okB (k : nat) : Prop :=
  forall ply i path st a0 b0 ispv zph at_,
  good (k + S Q) (s_board st) -> SI st -> TR (s_tt st) at_ ->
  ply = N.of_nat i -> (i + k <= D)%nat -> at_ply root i (s_board st) -> HIh i (s_history st) ->
  SearchCore.is_root board path = (ply =? 0) ->
  exists o, (forall path' q l, Permutation l (o path' q l)) /\
    let r := negamax T orc k ply a0 b0 ispv (zobrist_hash T (s_board st)) zph st in
    let R := nttC o k path (s_board st) a0 b0 at_ in
    s_board (snd r) = s_board st /\ s_stop (snd r) = false /\ s_go (snd r) = s_go st /\
    vm_value (fst r) = fst (fst R) /\ TR (s_tt (snd r)) (snd R) /\ HIh i (s_history (snd r)) /\
    ((1 <= k)%nat -> forall n, tt_le n (s_tt st) -> n < N.of_nat k -> HRm (s_board st) (vm_mv (fst r)) (snd (fst R))).

Lemma do_unmake_hist st m : s_history (do_unmake st m) = s_history st.
Proof. exact (proj1 (RepetitionProofs.do_unmake_hc st m)). Qed.

Lemma nm_loop_refineB k (IHk : node_okB k) path0 b ply i :
  good (S (k + S Q)) b -> ply = N.of_nat i -> (i + S k <= D)%nat -> at_ply root i b ->
  forall moves, (forall m, In m moves -> In m (gen_pseudo T b)) -> (k = 0%nat \/ NoDup (children b moves)) ->
  forall ispv pvm zph rd beta alpha bv bm bc lg st at_ bpv,
  s_board st = b -> SI st -> TR (s_tt st) at_ -> HRm b bm bpv -> HIh (S i) (s_history st) ->
  exists o, (forall path' q l, Permutation l (o path' q l)) /\
    let r := nm_loop T (negamax T orc k (ply + 1)) moves ispv pvm (zobrist_hash T b) zph rd beta alpha bv bm bc lg st in
    let R := SearchCore.loop_tt board atable (nttC o k (b :: path0)) (children b moves) alpha beta bv bpv at_ in
    s_board (snd r) = b /\ s_stop (snd r) = false /\ s_go (snd r) = s_go st /\ TR (s_tt (snd r)) (snd R) /\
    HIh (S i) (s_history (snd r)) /\
    exists bm' bc' lg', fst r = LDone (fst (fst R)) bm' bc' lg' /\ lg' = lg || negb (is_nil (children b moves)) /\
                        HRm b bm' (snd (fst R)).
Proof.
  intros Hgood Hply Hik Hat moves. induction moves as [|mv rest IH];
    intros Hin Hnd ispv pvm zph rd beta alpha bv bm bc lg st at_ bpv Hb HSI HTR HH HHi.
  - exists (fun _ _ l => l). split; [intros; apply Permutation_refl|].
    cbn [nm_loop ChessGame.children SearchCore.loop_tt fst snd is_nil negb]. destruct HSI as (Hs & _).
    split; [exact Hb|split; [exact Hs|split; [reflexivity|split; [exact HTR|split; [exact HHi|]]]]].
    exists bm, bc, lg. rewrite orb_false_r. split; [reflexivity|split; [reflexivity|exact HH]].
  - subst b.
    assert (Hmv : In mv (gen_pseudo T (s_board st))) by (apply Hin; now left).
    assert (Hrest : forall m, In m rest -> In m (gen_pseudo T (s_board st))) by (intros; apply Hin; now right).
    destruct (inverse (k + S Q)%nat (s_board st) mv Hgood Hmv) as (b1 & Hmk & Hun & Hg1).
    cbn [nm_loop ChessGame.children]. cbn [ChessGame.children] in Hnd. rewrite Hmk. rewrite Hmk in Hnd.
    destruct HSI as (Hstop & Hmt & Hsm).
    destruct (is_valid T b1) eqn:Hv; cbn [negb].
    + (* a legal move *)
      assert (Hnd' : k = 0%nat \/ NoDup (children (s_board st) rest)).
      { destruct Hnd as [E|Hnd]; [now left|right]. now inversion Hnd. }
      assert (Hnotin : k = 0%nat \/ ~ In b1 (children (s_board st) rest)).
      { destruct Hnd as [E|Hnd]; [now left|right]. now inversion Hnd. }
      assert (Hsane : sane (s_board st) = true) by (eapply good_sane; exact Hgood).
      destruct (child_hash T HT HK (s_board st) mv b1 Hsane Hmv Hmk) as (zx & zpx & Hzx & Hzh).
      rewrite Hzx. rewrite <- Hzh.
      set (st1 := set_board st b1).
      assert (HSI1 : SI st1) by (repeat split; assumption).
      assert (Hat1 : at_ply root (S i) b1).
      { apply (Minimax.at_ply_S board succs root i (s_board st) b1 Hat). apply children_in. exists mv. auto. }
      assert (Hply1 : ply + 1 = N.of_nat (S i)) by (rewrite Nat2N.inj_succ; lia).
      destruct (IHk (ply + 1) (S i) (s_board st :: path0) st1 (- beta)%Z (- alpha)%Z (ispv && opt_move_eqb pvm mv) (N.lxor zph zpx) at_
                  (Hg1 eq_refl) HSI1 HTR Hply1 ltac:(lia) Hat1 HHi) as (oc & Hpc & Hc).
      { cbn [SearchCore.is_root]. symmetry. apply N.eqb_neq. lia. }
      cbv zeta in Hc. change (s_board st1) with b1 in Hc.
      destruct Hc as (B3 & S3 & G3 & V3 & T3 & HH3 & _).
      destruct (negamax T orc k (ply + 1) (- beta)%Z (- alpha)%Z (ispv && opt_move_eqb pvm mv) (zobrist_hash T b1) (N.lxor zph zpx) st1)
        as [child st3]. cbn [fst snd] in B3, S3, G3, V3, T3, HH3.
      rewrite S3.
      set (Rc := nttC oc k (s_board st :: path0) b1 (- beta)%Z (- alpha)%Z at_) in *.
      assert (B4 : s_board (do_unmake st3 mv) = s_board st) by (apply do_unmake_board; rewrite B3; exact Hun).
      destruct (do_unmake_frame st3 mv) as (T4 & S4 & G4).
      pose proof (do_unmake_hist st3 mv) as H4.
      set (cv := (- vm_value child)%Z).
      assert (Ecv : cv = (- fst (fst Rc))%Z) by (unfold cv; now rewrite V3).
      set (bv' := if (bv <? cv)%Z then cv else bv).
      set (bpv' := if (bv <? cv)%Z then b1 :: snd (fst Rc) else bpv).
      assert (Etriple : (if (bv <? cv)%Z then (cv, Some mv, Some child) else (bv, bm, bc)) =
                        (bv', (if (bv <? cv)%Z then Some mv else bm), (if (bv <? cv)%Z then Some child else bc))).
      { unfold bv'. destruct (bv <? cv)%Z; reflexivity. }
      rewrite Etriple. cbv beta iota zeta.
      assert (HH' : HRm (s_board st) (if (bv <? cv)%Z then Some mv else bm) bpv').
      { unfold bpv'. destruct (bv <? cv)%Z; [|exact HH]. cbn [HRm]. exists mv. split; [reflexivity|exact Hmk]. }
      destruct (beta <=? Z.max alpha bv')%Z eqn:Ecut.
      * (* cutoff *)
        exists oc. split; [exact Hpc|]. cbv zeta. rewrite loop_tt_cons. cbv zeta. fold Rc.
        rewrite <- Ecv, Zgtb_ltb. fold bv'. rewrite Zgeb_leb, Ecut.
        cbn [fst snd]. sproj. rewrite T4, S4, G4, H4.
        split; [exact B4|split; [exact S3|split; [exact G3|split; [exact T3|split; [exact HH3|]]]]].
        eexists _, _, _. split; [reflexivity|]. split; [now rewrite orb_true_r|]. exact HH'.
      * (* next move *)
        assert (HSI4 : SI (do_unmake st3 mv)).
        { split; [rewrite S4; exact S3|]. rewrite G4, G3. split; assumption. }
        assert (HTR4 : TR (s_tt (do_unmake st3 mv)) (snd Rc)) by (rewrite T4; exact T3).
        assert (HH4 : HIh (S i) (s_history (do_unmake st3 mv))) by (rewrite H4; exact HH3).
        destruct (IH Hrest Hnd' ispv pvm zph rd beta (Z.max alpha bv') bv' (if (bv <? cv)%Z then Some mv else bm)
                     (if (bv <? cv)%Z then Some child else bc) true (do_unmake st3 mv) (snd Rc) bpv' B4 HSI4 HTR4 HH' HH4)
          as (orr & Hpr & Hr).
        cbv zeta in Hr.
        set (o := fun path' q l => if under board board_eq_dec path0 b1 path' q then oc path' q l else orr path' q l).
        exists o. split; [intros path' q l; unfold o; destruct (under _ _ _ _ _ _); [apply Hpc|apply Hpr]|].
        cbv zeta. rewrite loop_tt_cons. cbv zeta.
        assert (Eoc : forall a be t, nttC o k (s_board st :: path0) b1 a be t = nttC oc k (s_board st :: path0) b1 a be t).
        { intros a be t. apply negamax_tt_ext. intros path' q l Hd. unfold o.
          now rewrite (under_desc board board_eq_dec path0 (s_board st) b1 path' q Hd). }
        rewrite Eoc. fold Rc. rewrite <- Ecv, Zgtb_ltb. fold bv'. fold bpv'. rewrite Zgeb_leb, Ecut.
        assert (Eor : forall al be bst pv t,
                  SearchCore.loop_tt board atable (nttC o k (s_board st :: path0)) (children (s_board st) rest) al be bst pv t =
                  SearchCore.loop_tt board atable (nttC orr k (s_board st :: path0)) (children (s_board st) rest) al be bst pv t).
        { intros al be bst pv t. apply loop_tt_ext. intros c Hc a be' t'. destruct Hnotin as [E0|Hnotin].
          - subst k. reflexivity.
          - apply negamax_tt_ext. intros path' q l Hd. unfold o.
            assert (Hne : c <> b1) by (intros ->; contradiction).
            now rewrite (under_other board board_eq_dec path0 (s_board st) b1 c path' q Hne Hd). }
        rewrite Eor.
        destruct Hr as (B5 & S5 & G5 & T5 & HH5 & bm' & bc' & lg' & E5 & L5 & H5).
        split; [exact B5|split; [exact S5|split; [rewrite G5, G4, G3; reflexivity|split; [exact T5|split; [exact HH5|]]]]].
        exists bm', bc', lg'. split; [exact E5|]. split; [|exact H5]. rewrite L5. cbn [is_nil negb orb]. now rewrite orb_true_r.
    + (* the move leaves the king in check: taken back at once *)
      assert (B1 : s_board (do_unmake (set_board st b1) mv) = s_board st) by (apply do_unmake_board; exact Hun).
      destruct (do_unmake_frame (set_board st b1) mv) as (T1 & S1 & G1).
      pose proof (do_unmake_hist (set_board st b1) mv) as H1.
      assert (HSI1 : SI (do_unmake (set_board st b1) mv)).
      { split; [rewrite S1; exact Hstop|]. rewrite G1. split; assumption. }
      assert (HTR1 : TR (s_tt (do_unmake (set_board st b1) mv)) at_) by (rewrite T1; exact HTR).
      assert (HH1 : HIh (S i) (s_history (do_unmake (set_board st b1) mv))) by (rewrite H1; exact HHi).
      destruct (IH Hrest Hnd ispv pvm zph rd beta alpha bv bm bc lg (do_unmake (set_board st b1) mv) at_ bpv B1 HSI1 HTR1 HH HH1)
        as (orr & Hpr & Hr).
      exists orr. split; [exact Hpr|]. cbv zeta in Hr |- *.
      destruct Hr as (B5 & S5 & G5 & T5 & Hrest').
      split; [exact B5|split; [exact S5|split; [rewrite G5, G1; reflexivity|split; [exact T5|exact Hrest']]]].
Qed.

Lemma node_okB_0 : node_okB 0.
Proof.
  intros ply i path st a0 b0 ispv zph at_ Hg HSI HTR Hply Hik Hat HHi Hroot.
  exists id_order. split; [intros; apply Permutation_refl|]. cbv zeta.
  cbn [negamax SearchCore.negamax_tt]. cbv zeta. rewrite rep_leaf0.
  destruct (node_prelude_refineB ply i 0 a0 b0 st at_ path HSI HTR Hply ltac:(lia) Hat HHi Hroot) as ((B3 & T3 & S3 & G3 & HH3) & Hpre).
  destruct HSI as (Hstop & Hmt & Hsm).
  change (N.of_nat 0) with 0 in *.
  destruct (node_prelude T orc ply 0 a0 b0 (zobrist_hash T (s_board st)) st) as [pr st3]. cbn [fst snd] in *.
  apply wk in HH3.
  destruct (probeC at_ 0 (s_board st) a0 b0) as [res|[alpha beta]].
  - destruct Hpre as (v & -> & Hv). cbn [fst snd].
    split; [exact B3|split; [congruence|split; [exact G3|split; [exact Hv|split; [rewrite T3; exact HTR|split; [exact HH3|lia]]]]]].
  - destruct (SearchCore.is_root board path && root_empty (s_board st)).
    + subst pr. cbn [fst snd vm_value leaf].
      split; [exact B3|split; [congruence|split; [exact G3|split; [reflexivity|split; [rewrite T3; exact HTR|split; [exact HH3|lia]]]]]].
    + destruct Hpre as (ttm & ->).
      assert (Hg3 : good (S Q) (s_board st3)) by (rewrite B3; exact Hg).
      destruct (leaf_node_refine T HT good Q inverse good_mono qfuel_bound good_sane stat stat_good alpha beta zph st3 Hg3) as [B4 V4].
      rewrite B3 in B4, V4.
      destruct (leaf_node_qframe T (turn (s_board st)) alpha beta zph (gen_pseudo T (s_board st)) st3) as (T4 & _ & S4 & G4).
      destruct (RepetitionProofs.leaf_node_hc T (turn (s_board st)) alpha beta zph (gen_pseudo T (s_board st)) st3) as [H4 _].
      cbn [fst snd].
      split; [exact B4|split; [congruence|split; [congruence|split; [exact V4|split; [rewrite T4, T3; exact HTR|split; [rewrite H4; exact HH3|lia]]]]]].
Qed.

Lemma node_okB_S k : (k = 0%nat \/ ND T good) -> node_okB k -> node_okB (S k).
Proof.
  intros HND IHk ply i path st a0 b0 ispv zph at_ Hg HSI HTR Hply Hik Hat HHi Hroot.
  destruct (node_prelude_refineB ply i (S k) a0 b0 st at_ path HSI HTR Hply ltac:(lia) Hat HHi Hroot) as ((B3 & T3 & S3 & G3 & HH3) & Hpre).
  assert (HSI0 := HSI). destruct HSI as (Hstop & Hmt & Hsm).
  cbn [negamax]. cbv zeta.
  destruct (node_prelude T orc ply (N.of_nat (S k)) a0 b0 (zobrist_hash T (s_board st)) st) as [pr st3] eqn:Epre.
  cbn [fst snd] in B3, T3, S3, G3, HH3, Hpre.
  pose proof (wk _ _ HH3) as HH3w.
  destruct (probeC at_ (S k) (s_board st) a0 b0) as [res|[alpha beta]] eqn:Eprobe.
  - (* the table answers *)
    exists id_order. split; [intros; apply Permutation_refl|].
    cbn [SearchCore.negamax_tt]. rewrite rep_leaf0, Eprobe.
    destruct Hpre as (v & -> & Hv). cbn [fst snd].
    split; [exact B3|split; [congruence|split; [exact G3|split; [exact Hv|split; [rewrite T3; exact HTR|split; [exact HH3w|]]]]]].
    intros _ n Hle Hn. rewrite (probe_miss_abs T HT HK _ _ (S k) (s_board st) a0 b0 n HTR Hle Hn) in Eprobe. discriminate.
  - destruct (SearchCore.is_root board path && root_empty (s_board st)) eqn:Eroot.
    + (* root without pseudo-legal move *)
      exists id_order. split; [intros; apply Permutation_refl|].
      cbn [SearchCore.negamax_tt]. rewrite rep_leaf0, Eprobe, Eroot. subst pr. cbn [fst snd vm_value vm_mv leaf HRm].
      split; [exact B3|split; [congruence|split; [exact G3|split; [reflexivity|split; [rewrite T3; exact HTR|split; [exact HH3w|]]]]]].
      intros; exact I.
    + destruct Hpre as (ttm & ->).
      unfold interior_node. cbv zeta.
      set (pvm := if ispv then match s_pv st3 with Some l => nth_error l (N.to_nat ply) | None => None end else None).
      set (kl := killer_get (s_killers st3) (N.of_nat (S k))).
      set (sorted := sort_moves (gen_pseudo T (s_board st)) pvm ttm kl).
      assert (Hperm : Permutation (succs (s_board st)) (children (s_board st) sorted)) by apply children_sorted_perm.
      assert (Hnd : k = 0%nat \/ NoDup (children (s_board st) sorted)).
      { destruct HND as [E|HND]; [now left|right]. eapply Permutation_NoDup; [exact Hperm|]. eapply HND. exact Hg. }
      assert (HSI3 : SI st3) by (split; [congruence|rewrite G3; split; assumption]).
      assert (HTR3 : TR (s_tt st3) at_) by (rewrite T3; exact HTR).
      destruct (nm_loop_refineB k IHk path (s_board st) ply i Hg Hply Hik Hat sorted
                  (fun m Hm => sort_moves_in _ _ _ _ _ Hm) Hnd ispv pvm zph (N.of_nat (S k)) beta alpha (loss_score T)
                  None None false st3 at_ [] B3 HSI3 HTR3 I HH3) as (ol & Hpl & Hl).
      cbv zeta in Hl.
      set (o := fun (path' : list board) (q : board) (l : list board) =>
                  if Nat.eqb (length path') (length path)
                  then (if list_eq_dec board_eq_dec l (succs (s_board st)) then children (s_board st) sorted else l)
                  else ol path' q l).
      exists o. split.
      { intros path' q l. unfold o. destruct (Nat.eqb _ _); [|apply Hpl].
        destruct (list_eq_dec board_eq_dec l (succs (s_board st))) as [->|_]; [exact Hperm|apply Permutation_refl]. }
      assert (Eo : forall X al be bst pv t,
                 SearchCore.loop_tt board atable (nttC o k (s_board st :: path)) X al be bst pv t =
                 SearchCore.loop_tt board atable (nttC ol k (s_board st :: path)) X al be bst pv t).
      { intros X al be bst pv t. apply loop_tt_ext. intros c _ a be' t'. apply negamax_tt_ext. intros path' q l Hd. unfold o.
        apply desc_length in Hd. cbn [length] in Hd.
        destruct (Nat.eqb_spec (length path') (length path)) as [E|_]; [lia|reflexivity]. }
      cbn [SearchCore.negamax_tt]. rewrite rep_leaf0, Eprobe, Eroot.
      destruct Hl as (B5 & S5 & G5 & T5 & HH5 & bm' & bc' & lg' & E5 & L5 & H5).
      destruct (nm_loop T (negamax T orc k (ply + 1)) sorted ispv pvm (zobrist_hash T (s_board st)) zph (N.of_nat (S k)) beta alpha
                  (loss_score T) None None false st3) as [lr st4]. cbn [fst snd] in B5, S5, G5, T5, HH5, E5. subst lr.
      destruct (succs (s_board st)) as [|c0 r0] eqn:Es.
      * (* no legal move *)
        apply Permutation_nil in Hperm. rewrite Hperm in L5, T5. cbn [is_nil negb orb] in L5. subst lg'. cbn [negb].
        cbn [SearchCore.loop_tt snd] in T5. cbn [fst snd vm_value vm_mv leaf HRm]. rewrite B5.
        split; [reflexivity|split; [exact S5|split; [congruence|split; [apply evaluate_for_terminal|split; [exact T5|split; [exact (wk _ _ HH5)|]]]]]].
        intros; exact I.
      * (* the move loop ran *)
        assert (Hne : children (s_board st) sorted <> []).
        { intros E. rewrite E in Hperm. apply Permutation_sym, Permutation_nil in Hperm. discriminate. }
        assert (Elg : lg' = true).
        { rewrite L5. destruct (children (s_board st) sorted); [contradiction|reflexivity]. }
        clear L5. subst lg'. cbn [negb].
        assert (Eord : o path (s_board st) (c0 :: r0) = children (s_board st) sorted).
        { unfold o. rewrite Nat.eqb_refl. destruct (list_eq_dec board_eq_dec (c0 :: r0) (c0 :: r0)); [reflexivity|contradiction]. }
        rewrite Eord, Eo. change (- W)%Z with (loss_score T).
        set (LR := SearchCore.loop_tt board atable (nttC ol k (s_board st :: path)) (children (s_board st) sorted) alpha beta
                     (loss_score T) [] at_) in *.
        rewrite is_mate_eq. unfold SearchCore.store.
        destruct (SearchCore.is_mate_score W Mx (fst (fst LR))); cbn [negb fst snd vm_value vm_mv].
        -- split; [exact B5|split; [exact S5|split; [congruence|split; [reflexivity|split; [exact T5|split; [exact (wk _ _ HH5)|]]]]]].
           intros; exact H5.
        -- sproj. split; [exact B5|split; [exact S5|split; [congruence|split; [reflexivity|split; [|split; [exact (wk _ _ HH5)|intros; exact H5]]]]]].
           apply (HR_put tt_entry aentry ER); [exact T5|].
           unfold ER. cbn [SearchCore.e_depth SearchCore.e_value SearchCore.e_type te_depth te_value te_type te_mv vm_value].
           split; [now rewrite Nat2N.id|split; [reflexivity|split; [|reflexivity]]].
           unfold SearchCore.node_type. rewrite Zgeb_leb.
           destruct (fst (fst LR) <=? a0)%Z; [reflexivity|]. destruct (beta <=? fst (fst LR))%Z; reflexivity.
Qed.

(* node level: the concrete search_negamax computes the table-using mirror, at every half-move clock *)
Theorem negamax_refineB K : ((K <= 1)%nat \/ ND T good) -> forall k, (k <= K)%nat -> node_okB k.
Proof.
  intros H. induction k as [|k IH]; intros Hk; [exact node_okB_0|].
  apply node_okB_S; [destruct H as [H|H]; [left; lia|right; exact H]|apply IH; lia].
Qed.

(* ---- iterative deepening ---- *)
Local Notation iterC oit :=
  (SearchCore.iteration board succs noisy_succs noisy_any static terminal W qmeasure order_q oit rep0 root_empty
     atable a_get a_put (zobrist_hash T) Mx).
Local Notation godC oit :=
  (SearchCore.go_depth board succs noisy_succs noisy_any static terminal W qmeasure order_q oit rep0 root_empty
     atable a_get a_put (zobrist_hash T) Mx).
Local Notation tt_at := (SearchRefine.tt_at T stat).
Local Notation log_ok := (SearchRefine.log_ok T stat).
Local Notation rec_ok := (SearchRefine.rec_ok T stat).

Lemma id_step_refineB a at_ :
  node_okB (id_fuel a) -> SI (id_st a) -> TR (s_tt (id_st a)) at_ -> good (id_fuel a + S Q) (s_board (id_st a)) ->
  s_board (id_st a) = root -> (id_fuel a <= D)%nat -> HIh 0 (s_history (id_st a)) ->
  exists o, (forall path' q l, Permutation l (o path' q l)) /\
    let R := nttC o (id_fuel a) [] (s_board (id_st a)) (- W)%Z W at_ in
    let a' := id_next T orc None a in
    (exists it, id_log a' = it :: id_log a /\ it_depth it = id_depth a /\ vm_value (it_result it) = fst (fst R) /\
       it_aborted it = (match vm_mv (it_result it) with Some _ => false | None => true end) /\
       ((1 <= id_fuel a)%nat -> forall n, tt_le n (s_tt (id_st a)) -> n < N.of_nat (id_fuel a) ->
          HRm (s_board (id_st a)) (vm_mv (it_result it)) (snd (fst R)))) /\
    id_fuel a' = S (id_fuel a) /\ id_depth a' = id_depth a + 1 /\
    s_board (id_st a') = s_board (id_st a) /\ SI (id_st a') /\ TR (s_tt (id_st a')) (snd R) /\
    HIh 0 (s_history (id_st a')) /\
    (forall n, N.of_nat (id_fuel a) <= n -> tt_le n (s_tt (id_st a)) -> tt_le n (s_tt (id_st a'))).
Proof.
  intros Hok HSI HTR Hg Hb Hfd HHi.
  assert (Hat : at_ply root 0 (s_board (id_st a))) by (rewrite Hb; constructor).
  destruct (Hok 0 0%nat [] (id_st a) (loss_score T) (win_score T)
              (match s_pv (id_st a) with Some _ => true | None => false end) (pawn_hash T (s_board (id_st a))) at_
              Hg HSI HTR eq_refl ltac:(lia) Hat HHi eq_refl) as (o & Hpo & Hr).
  exists o. split; [exact Hpo|]. cbv zeta in Hr |- *.
  change (loss_score T) with (- W)%Z in Hr. change (win_score T) with W in Hr.
  assert (Hinv : forall n, N.of_nat (id_fuel a) <= n -> tt_le n (s_tt (id_st a)) ->
            tt_le n (s_tt (snd (negamax T orc (id_fuel a) 0 (- W)%Z W (match s_pv (id_st a) with Some _ => true | None => false end)
                                    (zobrist_hash T (s_board (id_st a))) (pawn_hash T (s_board (id_st a))) (id_st a))))).
  { intros n Hn. exact (proj2 (negamax_inv2 T orc n (id_fuel a) 0 (- W)%Z W _ _ _ (id_st a) Hn)). }
  destruct Hr as (B1 & S1 & G1 & V1 & T1 & HH1 & H1).
  destruct HSI as (Hstop & Hmt & Hsm).
  unfold id_next, id_step. cbv zeta.
  change (loss_score T) with (- W)%Z. change (win_score T) with W.
  destruct (negamax T orc (id_fuel a) 0 (- W)%Z W (match s_pv (id_st a) with Some _ => true | None => false end)
              (zobrist_hash T (s_board (id_st a))) (pawn_hash T (s_board (id_st a))) (id_st a)) as [current st1].
  cbn [fst snd] in B1, S1, G1, V1, T1, HH1, H1, Hinv.
  unfold generate_info, read_clock. cbv beta iota zeta. sproj. rewrite S1. cbn [orb].
  destruct (vm_mv current) as [mv0|] eqn:Emv;
    cbn [negb orb]; cbv beta iota zeta; sproj; cbn [un id_log id_fuel id_depth id_st]; sproj;
    (split; [eexists; split; [reflexivity|]; cbn [it_depth it_result it_aborted]; rewrite ?Emv;
             split; [reflexivity|split; [exact V1|split; [reflexivity|exact H1]]]|]);
    (split; [reflexivity|split; [reflexivity|split; [exact B1|split; [|split; [exact T1|split; [exact HH1|exact Hinv]]]]]]);
    (unfold SI; sproj; split; [exact S1|rewrite G1; split; assumption]).
Qed.

Definition loop_okB (tt0 : atable) (a : idstate) : Prop :=
  (length (id_log a) <= D)%nat ->
  exists oit : oracle_it, (forall d path q l, Permutation l (oit d path q l)) /\
    id_fuel a = S (length (id_log a)) /\ id_depth a = N.of_nat (S (length (id_log a))) /\
    s_board (id_st a) = root /\ SI (id_st a) /\
    TR (s_tt (id_st a)) (tt_at oit root tt0 (length (id_log a))) /\
    tt_le (N.of_nat (length (id_log a))) (s_tt (id_st a)) /\
    (match id_log a with [] => True | it :: _ => it_depth it = N.of_nat (length (id_log a)) end) /\
    HIh 0 (s_history (id_st a)) /\
    Forall (log_ok D root tt0 oit (length (id_log a))) (id_log a).

Lemma loop_okB_step tt0 a :
  (forall k, (k <= D)%nat -> node_okB k) -> good (D + S Q) root ->
  loop_okB tt0 a -> loop_okB tt0 (id_next T orc None a).
Proof.
  intros Hok Hg Ha Hlen.
  assert (Hlog : exists it, id_log (id_next T orc None a) = it :: id_log a).
  { destruct (C03_family_empty T) as (E1 & E2 & E3).
    pose proof (id_step_spec T _ _ E1 E2 E3 orc None a) as Hs. cbv zeta in Hs.
    destruct Hs as ((it & Hl & _) & _). exists it. exact Hl. }
  destruct Hlog as (it0 & Hlog0). rewrite Hlog0 in Hlen. cbn [length] in Hlen.
  destruct Ha as (oit & Hp & Hf & Hd & Hb & HSI & HTR & Hle & _ & HHi & Hall); [lia|].
  set (j := length (id_log a)) in *.
  assert (Hg' : good (id_fuel a + S Q) (s_board (id_st a))).
  { rewrite Hf, Hb. eapply good_le'; [|exact Hg]. lia. }
  assert (Hokj : node_okB (id_fuel a)) by (apply Hok; rewrite Hf; lia).
  destruct (id_step_refineB a (tt_at oit root tt0 j) Hokj HSI HTR Hg' Hb ltac:(rewrite Hf; lia) HHi) as (o & Hpo & Hr).
  cbv zeta in Hr. destruct Hr as ((it & Hl & Hdep & Hv & Hab & HH) & Hf' & Hd' & Hb' & HSI' & HTR' & HHi' & Hinv).
  rewrite Hf, Hb in *.
  set (oit' := fun d : nat => if Nat.eqb d (S j) then o else oit d).
  assert (Eold : forall d, (1 <= d <= j)%nat -> oit d = oit' d).
  { intros d Hdj. unfold oit'. destruct (Nat.eqb_spec d (S j)); [lia|reflexivity]. }
  assert (Enew : oit' (S j) = o) by (unfold oit'; now rewrite Nat.eqb_refl).
  assert (Ett : forall d, (d <= j)%nat -> tt_at oit' root tt0 d = tt_at oit root tt0 d).
  { intros d Hdj. symmetry. apply (tt_at_ext T HT stat HK). intros d' Hd'j. apply Eold. lia. }
  assert (Eit : iterC oit' (S j) root (tt_at oit' root tt0 j) = nttC o (S j) [] root (- W)%Z W (tt_at oit root tt0 j)).
  { rewrite Ett by lia. unfold SearchCore.iteration. now rewrite Enew. }
  exists oit'. rewrite Hl. cbn [length]. fold j.
  split; [intros d path q l; unfold oit'; destruct (Nat.eqb d (S j)); [apply Hpo|apply Hp]|].
  split; [exact Hf'|]. split; [rewrite Hd', Hd, !Nat2N.inj_succ; lia|].
  split; [exact Hb'|]. split; [exact HSI'|].
  split; [cbn [SearchRefine.tt_at]; rewrite Eit; exact HTR'|].
  split.
  { apply Hinv; [lia|]. eapply tt_le_mono; [|exact Hle]. lia. }
  split; [rewrite Hdep; exact Hd|].
  split; [exact HHi'|].
  constructor.
  - exists j. split; [rewrite Hdep; exact Hd|]. split; [lia|]. split; [exact Hab|]. cbv zeta. rewrite Eit. split; [exact Hv|].
    apply (HH ltac:(lia) (N.of_nat j)); [exact Hle|lia].
  - eapply Forall_impl; [|exact Hall]. intros it' (d & H1 & H2 & H2' & H3). exists d. split; [exact H1|]. split; [lia|]. split; [exact H2'|].
    cbv zeta in H3 |- *. rewrite Ett by lia. rewrite <- (iter_ext T stat oit oit' (S d)) by (apply Eold; lia). exact H3.
Qed.

Lemma best_move_refineB st :
  (forall k, (k <= D)%nat -> node_okB k) -> s_stop st = false -> g_movetime (s_go st) = None -> g_wtime (s_go st) = None -> g_btime (s_go st) = None ->
  g_searchmoves (s_go st) = [] ->
  good (D + S Q) root -> s_board st = root -> HIh 0 (s_history st) ->
  let log := snd (fst (best_move T orc st)) in
  (length log <= D)%nat ->
  (exists oit : oracle_it, (forall d path q l, Permutation l (oit d path q l)) /\
    Forall (log_ok D root (tt0_of st) oit (length log)) log) /\
  (match log with [] => True | it :: _ => it_depth it = N.of_nat (length log) end).
Proof.
  intros Hok Hstop Hmt Hw Hb Hsm Hg Hbr HHi. unfold best_move. cbv zeta.
  set (st1 := set_killers _ _).
  set (st2 := if s_try_prev_pv st1 then try_set_pv_from_continuation st1 else st1).
  assert (F2 : s_board st2 = s_board st /\ s_go st2 = s_go st /\ s_tt st2 = HashTable.clear tt_entry (s_tt st) /\ s_stop st2 = false /\
               s_history st2 = s_history st).
  { subst st2. destruct (s_try_prev_pv st1); [|repeat split; assumption].
    destruct (try_set_pv_frame st1) as (B & _ & G & TT). rewrite (try_set_pv_stop st1), (try_set_pv_hist st1). repeat split; assumption. }
  destruct F2 as (B2 & G2 & T2 & S2 & H2).
  assert (Hmt2 : g_movetime (s_go st2) = None) by (rewrite G2; exact Hmt).
  rewrite Hmt2. rewrite (calc_time_none st2) by (rewrite G2; assumption). cbn [option_map].
  set (st3 := set_go st2 (set_movetime (s_go st2) None)).
  assert (F3 : s_board st3 = s_board st /\ SI st3 /\ s_tt st3 = HashTable.clear tt_entry (s_tt st) /\ s_history st3 = s_history st).
  { subst st3. sproj. split; [exact B2|]. split; [|split; [exact T2|exact H2]]. unfold SI. sproj. cbn [g_movetime g_searchmoves set_movetime].
    rewrite G2. repeat split; assumption. }
  destruct F3 as (B3 & HSI3 & T3 & H3).
  assert (Hmt3 : g_movetime (s_go st3) = None) by reflexivity. rewrite Hmt3.
  set (a0 := {| id_depth := 1; id_fuel := 1; id_best := None; id_uci_pv := None; id_score := None; id_log := []; id_st := st3 |}).
  set (p := match match g_depth (s_go st2) with Some dd => N.max dd 1 | None => 999999 end with Npos p => p | N0 => xH end).
  assert (I0 : loop_okB (tt0_of st) a0).
  { intros _. exists (fun _ => id_order). split; [intros; apply Permutation_refl|]. cbn [a0 id_log id_fuel id_depth id_st length SearchRefine.tt_at].
    split; [reflexivity|]. split; [reflexivity|]. split; [rewrite B3; exact Hbr|]. split; [exact HSI3|].
    split; [rewrite T3; split; [reflexivity|split; [reflexivity|constructor]]|]. split; [rewrite T3; apply tt_le_clear|]. split; [exact I|].
    split; [rewrite H3; exact HHi|constructor]. }
  pose proof (iter_until_ind (loop_okB (tt0_of st)) (loop_okB (tt0_of st))
                (id_step T orc None)) as HL.
  specialize (HL (fun a Ha => ltac:(
     pose proof (loop_okB_step (tt0_of st) a Hok Hg Ha) as Hn; unfold id_next in Hn;
     destruct (id_step T orc None a); exact Hn)) p a0 I0).
  unfold read_clock. cbv beta iota zeta.
  set (fin := match iter_until p (id_step T orc None) a0 with inl a => a | inr a => a end) in *.
  assert (Hfin : loop_okB (tt0_of st) fin).
  { subst fin. destruct (iter_until p (id_step T orc None) a0); exact HL. }
  cbn [fst snd]. intros Hlen. destruct (Hfin Hlen) as (oit & Hp & _ & _ & _ & _ & _ & _ & Hhd & _ & Hall).
  split; [exists oit; split; [exact Hp|exact Hall]|exact Hhd].
Qed.

(* the whole `go` *)
Theorem go_refineB g st :
  (forall k, (k <= D)%nat -> node_okB k) ->
  g_movetime g = None -> g_wtime g = None -> g_btime g = None -> g_searchmoves g = [] ->
  good (D + S Q) root -> s_board st = root -> HIh 0 (s_history st) ->
  (length (fst (go_full T orc g st)) <= D)%nat ->
  (exists oit : oracle_it, (forall d path q l, Permutation l (oit d path q l)) /\
     Forall (rec_ok D root (tt0_of st) oit) (fst (go_full T orc g st))) /\
  (match fst (go_full T orc g st) with [] => True | it :: _ => it_depth it = N.of_nat (length (fst (go_full T orc g st))) end).
Proof.
  intros Hok Hmt Hw Hb Hsm Hg Hbr HHi. unfold go_full. cbv zeta.
  set (st0 := set_reads (set_drains (set_go st g) 0) 0).
  destruct (reset_for_go_facts st0) as (B1 & G1 & S1 & E1).
  pose proof (reset_for_go_hist st0) as H1.
  change (s_board st0) with (s_board st) in B1. change (s_go st0) with g in G1. change (tt0_of st0) with (tt0_of st) in E1.
  change (s_history st0) with (s_history st) in H1.
  pose proof (best_move_refineB (reset_for_go st0) Hok S1) as HB.
  rewrite G1, B1, E1, H1 in HB. specialize (HB Hmt Hw Hb Hsm Hg Hbr HHi). cbv zeta in HB.
  destruct (best_move T orc (reset_for_go st0)) as [[[bm pm] log] st2]. cbn [fst snd] in HB |- *.
  intros Hlen. destruct (HB Hlen) as ((oit & Hp & Hall) & Hhd). split; [|exact Hhd]. exists oit. split; [exact Hp|].
  eapply Forall_impl; [|exact Hall]. intros it (d & H1' & H2 & H2' & H3). exists d. split; [exact H1'|]. split; [lia|]. split; [exact H2'|].
  cbv zeta in H3 |- *. rewrite god_tt_at. exact H3.
Qed.

(* ---- transfer of the abstract exactness theorem ---- *)
Hypothesis static_bound : forall p, (- W < static p < W)%Z.

Local Notation inb := (SearchRefine.inb T).
Local Notation exact_rec := (SearchRefine.exact_rec T stat).

(* (c) `go depth 1`: no hypothesis on position keys, none on the injectivity of make *)
Theorem depth1_concreteB g st :
  g_depth g = Some 1 -> D = 1%nat ->
  g_movetime g = None -> g_wtime g = None -> g_btime g = None -> g_searchmoves g = [] ->
  good (1 + S Q) root -> s_board st = root -> s_history st = h0 ->
  root_empty root = false -> inb 1 root ->
  Forall (exact_rec root 0) (fst (go_full T orc g st)) /\
  (succs root <> [] -> exists it, fst (go_full T orc g st) = [it] /\ exact_rec root 0 it).
Proof.
  intros Hd HD Hmt Hw Hb Hsm Hg Hbr Hh Hre Hinb.
  pose proof (go_full_len T good Q inverse good_mono qfuel_bound orc g st 1 Hd) as Hlen. change (Pos.to_nat _) with 1%nat in Hlen.
  assert (HHi : HIh 0 (s_history st)) by (rewrite Hh; apply HIB_init).
  assert (Hok : forall k, (k <= D)%nat -> node_okB k).
  { rewrite HD. exact (negamax_refineB 1 (or_introl (le_n 1))). }
  assert (Hg' : good (D + S Q) root) by (rewrite HD; exact Hg).
  assert (Hlen' : (length (fst (go_full T orc g st)) <= D)%nat) by (rewrite HD; exact Hlen).
  destruct (go_refineB g st Hok Hmt Hw Hb Hsm Hg' Hbr HHi Hlen') as ((oit & Hp & Hall) & Hhd).
  assert (HF : Forall (exact_rec root 0) (fst (go_full T orc g st))).
  { eapply Forall_impl; [|exact Hall]. intros it (d & H1 & H2 & Hab & H3). assert (d = 0%nat) by lia. subst d.
    cbv zeta in H3. destruct H3 as [V HH]. split; [exact H1|].
    unfold SearchCore.go_depth in V, HH. cbn [pred SearchCore.deepen] in V, HH. unfold SearchCore.iteration in V, HH.
    rewrite (negamax_tt_1_empty board succs noisy_succs noisy_any static terminal W qmeasure order_q rep0 root_empty
               atable a_get a_put (zobrist_hash T) Mx (oit 1%nat) root (- W)%Z W (tt0_of st) (tt0_empty st)) in V, HH.
    destruct (AlphaBeta.root_exact board succs noisy_succs noisy_any static terminal qmeasure W Hdec order_q (order_q_perm T)
                (oit 1%nat) (Hp 1%nat) rep0 root_empty (fun _ _ => eq_refl) static_bound inb (inb_step T) (inb_terminal T)
                1%nat root Hre Hinb) as [Ev _].
    split; [rewrite V; exact Ev|]. intros Hne.
    destruct (AlphaBeta.root_best_move board succs noisy_succs noisy_any static terminal qmeasure W Hdec order_q (order_q_perm T)
                (oit 1%nat) (Hp 1%nat) rep0 root_empty (fun _ _ => eq_refl) static_bound inb (inb_step T) (inb_terminal T)
                0%nat root Hre Hinb Hne) as (q & pv' & E1 & E2 & E3 & _).
    rewrite E1 in HH. destruct (HRm_cons _ _ _ _ HH) as (m & Hm & Hmk). rewrite Hab, Hm. split; [reflexivity|].
    exists m, q. repeat split; assumption. }
  split; [exact HF|]. intros Hne.
  assert (HF' : Forall (fun it => exists d, (S d <= depth_of 1)%nat /\ SearchRefine.exact_rec T stat (s_board st) d it) (fst (go_full T orc g st))).
  { rewrite Hbr. eapply Forall_impl; [|exact HF]. intros it H. exists 0%nat. split; [unfold depth_of; cbn; lia|exact H]. }
  rewrite <- Hbr in Hne.
  destruct (all_exact_full T HT stat HK orc g st 1 Hmt Hw Hb Hd HF' Hhd Hne) as (it & rest & E & Hex).
  exists it. split; [|rewrite <- Hbr; exact Hex]. rewrite E in Hlen |- *. destruct rest; [reflexivity|cbn [length] in Hlen; lia].
Qed.

(* (d) `go depth dd` *)
Variable sim : nat -> board -> board -> Prop.
Hypothesis sim_nm : forall r' r x y, sim r' x y -> (r <= r')%nat ->
  Minimax.nm board succs noisy_succs noisy_any static terminal qmeasure r x =
  Minimax.nm board succs noisy_succs noisy_any static terminal qmeasure r y.
Hypothesis sim_le : forall r r' x y, (r <= r')%nat -> sim r' x y -> sim r x y.
Hypothesis HU : Minimax.ply_unique board succs (zobrist_hash T) sim D root.

Theorem go_depth_concreteB g st dd :
  g_depth g = Some dd -> D = depth_of dd ->
  ((D <= 1)%nat \/ ND T good) ->
  g_movetime g = None -> g_wtime g = None -> g_btime g = None -> g_searchmoves g = [] ->
  good (D + S Q) root -> s_board st = root -> s_history st = h0 ->
  root_empty root = false -> inb D root ->
  Forall (fun it => exists d, (S d <= D)%nat /\ exact_rec root d it) (fst (go_full T orc g st)) /\
  (succs root <> [] ->
     exists it rest, fst (go_full T orc g st) = it :: rest /\ exact_rec root (pred D) it).
Proof.
  intros Hd HD HND Hmt Hw Hb Hsm Hg Hbr Hh Hre Hinb.
  pose proof (go_full_len T good Q inverse good_mono qfuel_bound orc g st dd Hd) as Hlen. fold (depth_of dd) in Hlen. rewrite <- HD in Hlen.
  assert (HHi : HIh 0 (s_history st)) by (rewrite Hh; apply HIB_init).
  destruct (go_refineB g st (negamax_refineB D HND) Hmt Hw Hb Hsm Hg Hbr HHi Hlen) as ((oit & Hp & Hall) & Hhd).
  assert (HF : Forall (fun it => exists d, (S d <= D)%nat /\ exact_rec root d it) (fst (go_full T orc g st))).
  { eapply Forall_impl; [|exact Hall]. intros it (d & H1 & H2 & Hab & H3). exists d. split; [exact H2|]. split; [exact H1|].
    cbv zeta in H3. destruct H3 as [V HH].
    assert (HU' : Minimax.ply_unique board succs (zobrist_hash T) sim (S d) root).
    { intros i j x y Hi Hj Hx Hy Hk. destruct (HU i j x y ltac:(lia) ltac:(lia) Hx Hy Hk) as [E S']. split; [exact E|].
      eapply sim_le; [|exact S']. lia. }
    destruct (AlphaBetaInst.go_depth_exact board succs noisy_succs noisy_any static terminal qmeasure W Hdec order_q (order_q_perm T)
                rep0 root_empty (fun _ _ => eq_refl) atable a_get a_put (zobrist_hash T) Mx a_put_spec static_bound
                inb (inb_step T) (inb_terminal T) root sim sim_nm sim_le oit Hp (S d) (tt0_of st) ltac:(lia) HU' (tt0_empty st) Hre
                (inb_le' T (S d) D _ H2 Hinb)) as [Ev Hbm].
    split; [rewrite V; exact Ev|]. intros Hne.
    destruct (Hbm Hne) as (q & rest & k & Ek & E1 & E2 & E3). injection Ek as <-.
    rewrite E1 in HH. destruct (HRm_cons _ _ _ _ HH) as (m & Hm & Hmk). rewrite Hab, Hm. split; [reflexivity|].
    exists m, q. repeat split; assumption. }
  split; [exact HF|]. intros Hne.
  assert (HF' : Forall (fun it => exists d, (S d <= depth_of dd)%nat /\ SearchRefine.exact_rec T stat (s_board st) d it) (fst (go_full T orc g st))).
  { rewrite Hbr, <- HD. exact HF. }
  assert (Hhd' : match fst (go_full T orc g st) with [] => True | it :: _ => it_depth it = N.of_nat (length (fst (go_full T orc g st))) end) by exact Hhd.
  rewrite <- Hbr in Hne.
  destruct (all_exact_full T HT stat HK orc g st dd Hmt Hw Hb Hd HF' Hhd' Hne) as (it & rest & E & Hex).
  exists it, rest. split; [exact E|]. rewrite HD, <- Hbr. exact Hex.
Qed.

End RefineB.

(* ================================================================== *)
(* Part C: closed forms                                                                                               *)
Section ClosedB.
Variable T : Tables.t.
Hypothesis HT : ZobristProofs.gen_masks_ok T = true.
Variable good : nat -> board -> Prop.
Variable Q : nat.
Hypothesis HF : C03_family T good Q.
Hypothesis good_sane : forall n b, good n b -> sane b = true.
Hypothesis good_full : forall n b, good n b -> 1 <= full b.
Hypothesis HK : ZobristProofs.keys_rows_ok T = true.
Hypothesis HW : (0 < win_score T)%Z.
Hypothesis good_static : forall n b, good n b -> (- win_score T < ChessGame.static T b < win_score T)%Z.

Local Notation succs := (ChessGame.succs T).
Local Notation noisy_succs := (ChessGame.noisy_succs T).
Local Notation noisy_any := (ChessGame.noisy_any T).
Local Notation terminal := (ChessGame.terminal T).
Local Notation stat := (static_sat T).
Local Notation nmC := (Minimax.nm board succs noisy_succs noisy_any stat terminal qmeasure).

(* node level: search_negamax computes the table-using mirror at every node of the depth-D tree below root, for ANY
   content of h0 at the indices of the plies above the root, the invariant [HIB] being handed on *)
Theorem negamax_refines_closedB : forall orc, quiet orc ->
  forall (sim : nat -> board -> board -> Prop) (root : board) (D : nat) (h0 : hist),
  RepetitionProofs.clock_ok root -> Minimax.ply_unique board succs (zobrist_hash T) sim D root ->
  history_fresh_path T h0 D root ->
  forall K, ((K <= 1)%nat \/ ND T good) -> forall k, (k <= K)%nat -> node_okB T good Q stat orc root D h0 k.
Proof.
  destruct HF as (H1 & H2 & H3). intros orc [Qa Qi] sim root D h0 Hc HU HFr.
  exact (negamax_refineB T HT good Q H1 H2 H3 good_sane stat (fun n b H => static_sat_eq T b (good_static n b H)) HK orc Qa Qi
           root D h0 Hc (fun h i y => HIB_visit T sim h0 D root h i y Hc HU HFr)).
Qed.

Theorem go_depth_closedB_path : forall orc, quiet orc ->
  forall sim : nat -> board -> board -> Prop,
  (forall r' r x y, sim r' x y -> (r <= r')%nat -> nmC r x = nmC r y) ->
  (forall r r' x y, (r <= r')%nat -> sim r' x y -> sim r x y) ->
  forall g st dd, g_depth g = Some dd -> ((depth_of dd <= 1)%nat \/ ND T good) -> plain_go g ->
  good (depth_of dd + S Q) (s_board st) ->
  Minimax.ply_unique board succs (zobrist_hash T) sim (depth_of dd) (s_board st) ->
  history_fresh_path T (s_history st) (depth_of dd) (s_board st) ->
  root_empty T (s_board st) = false -> inb T (depth_of dd) (s_board st) ->
  Forall (fun it => exists d, (S d <= depth_of dd)%nat /\ exact_rec T stat (s_board st) d it) (fst (go_full T orc g st)) /\
  (succs (s_board st) <> [] ->
     exists it rest, fst (go_full T orc g st) = it :: rest /\ exact_rec T stat (s_board st) (pred (depth_of dd)) it).
Proof.
  destruct HF as (H1 & H2 & H3). intros orc [Qa Qi] sim S1 S2 g st dd Hd HND (G1 & G2 & G3 & G4) Hg HU HFr Hre Hinb.
  pose proof (good_clock good good_sane good_full _ _ Hg) as Hc.
  exact (go_depth_concreteB T HT good Q H1 H2 H3 good_sane stat
           (fun n b H => static_sat_eq T b (good_static n b H)) HK orc Qa Qi (s_board st) (depth_of dd) (s_history st)
           Hc (fun h i y => HIB_visit T sim (s_history st) (depth_of dd) (s_board st) h i y Hc HU HFr)
           (static_sat_bound T HW) sim S1 S2 HU g st dd Hd eq_refl HND G1 G2 G3 G4 Hg eq_refl eq_refl Hre Hinb).
Qed.

Theorem go_depth_closedB : forall orc, quiet orc ->
  forall sim : nat -> board -> board -> Prop,
  (forall r' r x y, sim r' x y -> (r <= r')%nat -> nmC r x = nmC r y) ->
  (forall r r' x y, (r <= r')%nat -> sim r' x y -> sim r x y) ->
  forall g st dd, g_depth g = Some dd -> ((depth_of dd <= 1)%nat \/ ND T good) -> plain_go g ->
  good (depth_of dd + S Q) (s_board st) ->
  Minimax.ply_unique board succs (zobrist_hash T) sim (depth_of dd) (s_board st) ->
  history_fresh_below T (s_history st) (depth_of dd) (s_board st) ->
  root_empty T (s_board st) = false -> inb T (depth_of dd) (s_board st) ->
  Forall (fun it => exists d, (S d <= depth_of dd)%nat /\ exact_rec T stat (s_board st) d it) (fst (go_full T orc g st)) /\
  (succs (s_board st) <> [] ->
     exists it rest, fst (go_full T orc g st) = it :: rest /\ exact_rec T stat (s_board st) (pred (depth_of dd)) it).
Proof.
  intros orc Hq sim S1 S2 g st dd Hd HND Hp Hg HU HFr Hre Hinb.
  apply (go_depth_closedB_path orc Hq sim S1 S2 g st dd Hd HND Hp Hg HU); [|exact Hre|exact Hinb].
  apply fresh_below_path; [exact (good_clock good good_sane good_full _ _ Hg)|exact HFr].
Qed.

(* `go depth 1`: no premise on keys *)
Theorem depth1_closedB_path : forall orc, quiet orc ->
  forall g st, g_depth g = Some 1 -> plain_go g ->
  good (1 + S Q) (s_board st) -> history_fresh_path T (s_history st) 1 (s_board st) ->
  root_empty T (s_board st) = false -> inb T 1 (s_board st) ->
  Forall (exact_rec T stat (s_board st) 0) (fst (go_full T orc g st)) /\
  (succs (s_board st) <> [] -> exists it, fst (go_full T orc g st) = [it] /\ exact_rec T stat (s_board st) 0 it).
Proof.
  destruct HF as (H1 & H2 & H3). intros orc [Qa Qi] g st Hd (G1 & G2 & G3 & G4) Hg HFr Hre Hinb.
  pose proof (good_clock good good_sane good_full _ _ Hg) as Hc.
  exact (depth1_concreteB T HT good Q H1 H2 H3 good_sane stat
           (fun n b H => static_sat_eq T b (good_static n b H)) HK orc Qa Qi (s_board st) 1%nat (s_history st)
           Hc (fun h i y => HIB_visit_1 T (s_history st) (s_board st) h i y Hc HFr)
           (static_sat_bound T HW) g st Hd eq_refl G1 G2 G3 G4 Hg eq_refl eq_refl Hre Hinb).
Qed.

Theorem depth1_closedB : forall orc, quiet orc ->
  forall g st, g_depth g = Some 1 -> plain_go g ->
  good (1 + S Q) (s_board st) -> history_fresh_below T (s_history st) 1 (s_board st) ->
  root_empty T (s_board st) = false -> inb T 1 (s_board st) ->
  Forall (exact_rec T stat (s_board st) 0) (fst (go_full T orc g st)) /\
  (succs (s_board st) <> [] -> exists it, fst (go_full T orc g st) = [it] /\ exact_rec T stat (s_board st) 0 it).
Proof.
  intros orc Hq g st Hd Hp Hg HFr Hre Hinb.
  apply (depth1_closedB_path orc Hq g st Hd Hp Hg); [|exact Hre|exact Hinb].
  apply fresh_below_path; [exact (good_clock good good_sane good_full _ _ Hg)|exact HFr].
Qed.

End ClosedB.

(* ---- any table set that passes the regenerated obligations, any C03 family of sane boards: ND discharged ---- *)
Theorem go_depth_closed_tablesB (T : Tables.t) (good : nat -> board -> Prop) (Q : nat) :
  AttackProofs.tables_attacks_ok T = true -> MoveGenProofs.tables_movegen_ok T = true ->
  ZobristProofs.gen_masks_ok T = true -> ZobristProofs.keys_rows_ok T = true -> (0 < win_score T)%Z ->
  C03_family T good Q ->
  (forall n b, good n b -> sane b = true) -> (forall n b, good n b -> 1 <= full b) ->
  (forall n b, good n b -> (- win_score T < ChessGame.static T b < win_score T)%Z) ->
  forall orc, quiet orc ->
  forall sim : nat -> board -> board -> Prop,
  (forall r' r x y, sim r' x y -> (r <= r')%nat ->
     Minimax.nm board (ChessGame.succs T) (ChessGame.noisy_succs T) (ChessGame.noisy_any T) (static_sat T) (ChessGame.terminal T) qmeasure r x =
     Minimax.nm board (ChessGame.succs T) (ChessGame.noisy_succs T) (ChessGame.noisy_any T) (static_sat T) (ChessGame.terminal T) qmeasure r y) ->
  (forall r r' x y, (r <= r')%nat -> sim r' x y -> sim r x y) ->
  forall g st dd, g_depth g = Some dd -> plain_go g ->
  good (depth_of dd + S Q)%nat (s_board st) ->
  Minimax.ply_unique board (ChessGame.succs T) (zobrist_hash T) sim (depth_of dd) (s_board st) ->
  history_fresh_below T (s_history st) (depth_of dd) (s_board st) ->
  root_empty T (s_board st) = false -> inb T (depth_of dd) (s_board st) ->
  Forall (fun it => exists d, (S d <= depth_of dd)%nat /\ exact_rec T (static_sat T) (s_board st) d it) (fst (go_full T orc g st)) /\
  (ChessGame.succs T (s_board st) <> [] ->
     exists it rest, fst (go_full T orc g st) = it :: rest /\ exact_rec T (static_sat T) (s_board st) (pred (depth_of dd)) it).
Proof.
  intros OK MK HT HK HW HF Hsane Hfull Hstatic orc Hq sim S1 S2 g st dd Hd Hp Hg HU HFr Hre Hinb.
  exact (go_depth_closedB T HT good Q HF Hsane Hfull HK HW Hstatic orc Hq sim S1 S2 g st dd Hd
           (or_intror (ND_of_sane T good OK MK HT Hsane)) Hp Hg HU HFr Hre Hinb).
Qed.

(* the same with the exact premise [history_fresh_path] *)
Theorem go_depth_closed_tablesB_path (T : Tables.t) (good : nat -> board -> Prop) (Q : nat) :
  AttackProofs.tables_attacks_ok T = true -> MoveGenProofs.tables_movegen_ok T = true ->
  ZobristProofs.gen_masks_ok T = true -> ZobristProofs.keys_rows_ok T = true -> (0 < win_score T)%Z ->
  C03_family T good Q ->
  (forall n b, good n b -> sane b = true) -> (forall n b, good n b -> 1 <= full b) ->
  (forall n b, good n b -> (- win_score T < ChessGame.static T b < win_score T)%Z) ->
  forall orc, quiet orc ->
  forall sim : nat -> board -> board -> Prop,
  (forall r' r x y, sim r' x y -> (r <= r')%nat ->
     Minimax.nm board (ChessGame.succs T) (ChessGame.noisy_succs T) (ChessGame.noisy_any T) (static_sat T) (ChessGame.terminal T) qmeasure r x =
     Minimax.nm board (ChessGame.succs T) (ChessGame.noisy_succs T) (ChessGame.noisy_any T) (static_sat T) (ChessGame.terminal T) qmeasure r y) ->
  (forall r r' x y, (r <= r')%nat -> sim r' x y -> sim r x y) ->
  forall g st dd, g_depth g = Some dd -> plain_go g ->
  good (depth_of dd + S Q)%nat (s_board st) ->
  Minimax.ply_unique board (ChessGame.succs T) (zobrist_hash T) sim (depth_of dd) (s_board st) ->
  history_fresh_path T (s_history st) (depth_of dd) (s_board st) ->
  root_empty T (s_board st) = false -> inb T (depth_of dd) (s_board st) ->
  Forall (fun it => exists d, (S d <= depth_of dd)%nat /\ exact_rec T (static_sat T) (s_board st) d it) (fst (go_full T orc g st)) /\
  (ChessGame.succs T (s_board st) <> [] ->
     exists it rest, fst (go_full T orc g st) = it :: rest /\ exact_rec T (static_sat T) (s_board st) (pred (depth_of dd)) it).
Proof.
  intros OK MK HT HK HW HF Hsane Hfull Hstatic orc Hq sim S1 S2 g st dd Hd Hp Hg HU HFr Hre Hinb.
  exact (go_depth_closedB_path T HT good Q HF Hsane Hfull HK HW Hstatic orc Hq sim S1 S2 g st dd Hd
           (or_intror (ND_of_sane T good OK MK HT Hsane)) Hp Hg HU HFr Hre Hinb).
Qed.

(* ---- the tables of the current tree ---- *)
Local Notation nmG := (Minimax.nm board (ChessGame.succs GT) (ChessGame.noisy_succs GT) (ChessGame.noisy_any GT) (static_sat GT)
                         (ChessGame.terminal GT) qmeasure).

Theorem go_depth_closed_chessB :
  forall orc, quiet orc ->
  forall sim : nat -> board -> board -> Prop,
  (forall r' r x y, sim r' x y -> (r <= r')%nat -> nmG r x = nmG r y) ->
  (forall r r' x y, (r <= r')%nat -> sim r' x y -> sim r x y) ->
  forall g st dd, g_depth g = Some dd -> plain_go g ->
  goodC (depth_of dd + 130) (s_board st) ->
  Minimax.ply_unique board (ChessGame.succs GT) (zobrist_hash GT) sim (depth_of dd) (s_board st) ->
  history_fresh_below GT (s_history st) (depth_of dd) (s_board st) ->
  root_empty GT (s_board st) = false -> full (s_board st) + N.of_nat (depth_of dd) < 16777216 ->
  Forall (fun it => exists d, (S d <= depth_of dd)%nat /\ exact_rec GT (static_sat GT) (s_board st) d it)
         (fst (go_full GT orc g st)) /\
  (ChessGame.succs GT (s_board st) <> [] ->
   exists it rest, fst (go_full GT orc g st) = it :: rest /\
                   exact_rec GT (static_sat GT) (s_board st) (pred (depth_of dd)) it).
Proof.
  intros orc Hq sim S1 S2 g st dd Hd Hp Hg HU HFr Hre Hf.
  exact (go_depth_closedB GT GT_masks goodC 129 goodC_family goodC_sane goodC_full GT_rows GT_win goodC_static orc Hq sim S1 S2
           g st dd Hd (or_intror ND_chess) Hp Hg HU HFr Hre (goodC_inb _ _ _ Hg Hf)).
Qed.

(* what the engine prints, whatever was searched before on this engine instance *)
Theorem reported_score_exact_chessB :
  forall orc, quiet orc ->
  forall sim : nat -> board -> board -> Prop,
  (forall r' r x y, sim r' x y -> (r <= r')%nat -> nmG r x = nmG r y) ->
  (forall r r' x y, (r <= r')%nat -> sim r' x y -> sim r x y) ->
  forall g st dd, g_depth g = Some dd -> plain_go g ->
  goodC (depth_of dd + 130) (s_board st) ->
  Minimax.ply_unique board (ChessGame.succs GT) (zobrist_hash GT) sim (depth_of dd) (s_board st) ->
  history_fresh_below GT (s_history st) (depth_of dd) (s_board st) ->
  full (s_board st) + N.of_nat (depth_of dd) < 16777216 ->
  ChessGame.succs GT (s_board st) <> [] ->
  exists infos i ponder m q,
    go_msgs GT orc g st = infos ++ [OInfo i; OBestmove (Some (uci_of_move m)) ponder] /\
    forallb is_info infos = true /\
    i_depth i = Some (N.of_nat (depth_of dd)) /\
    i_score i = Some (score_from_value GT (nmG (depth_of dd) (s_board st)) (s_board st)) /\
    (exists pv, i_pv i = Some (uci_of_move m :: pv) /\ ponder = nth_error pv 0) /\
    make (s_board st) m = Some q /\ In q (ChessGame.succs GT (s_board st)) /\
    (- nmG (pred (depth_of dd)) q)%Z = nmG (depth_of dd) (s_board st).
Proof.
  intros orc Hq sim S1 S2 g st dd Hd Hp Hg HU HFr Hf Hne.
  assert (Hre : root_empty GT (s_board st) = false).
  { unfold SearchRefine.root_empty. destruct (gen_pseudo GT (s_board st)) as [|m0 r0] eqn:E; [|reflexivity].
    exfalso. apply Hne. unfold ChessGame.succs. rewrite E. reflexivity. }
  destruct (go_depth_closed_chessB orc Hq sim S1 S2 g st dd Hd Hp Hg HU HFr Hre Hf) as [_ Hex].
  destruct (Hex Hne) as (it & rest & Elog & (Hdep & Hval & Hmv)).
  destruct (Hmv Hne) as (Hab & m & q & Em & Hmk & Hqin & Hbest).
  assert (Hpos : (1 <= depth_of dd)%nat) by (unfold depth_of; lia).
  assert (ED : S (pred (depth_of dd)) = depth_of dd) by lia. rewrite ED in Hdep, Hval, Hbest.
  destruct (go_last_report GT orc g st it rest Elog Hab) as (infos & i & ponder & Hmsg & Hinf & Hd' & Hs & Hpv & Hpo).
  assert (Hb : s_board (snd (go_full GT orc g st)) = s_board st).
  { exact (C09_go_depth_board_thm GT goodC 129 goodC_family orc g st dd Hd Hg). }
  rewrite Hb, Hval in Hs. rewrite Em in Hmsg. cbn [option_map] in Hmsg.
  exists infos, i, ponder, m, q.
  split; [exact Hmsg|]. split; [exact Hinf|]. split; [rewrite Hd', Hdep; reflexivity|]. split; [exact Hs|].
  split.
  { destruct (calc_pv_head (it_result it) m Em) as (r & Er). rewrite Er in Hpv, Hpo. cbn [map] in Hpv, Hpo.
    exists (map uci_of_move r). split; [exact Hpv|]. rewrite Hpo. reflexivity. }
  split; [exact Hmk|]. split; [exact Hqin|exact Hbest].
Qed.

(* `go depth 1`: no premise on keys at all *)
Theorem depth1_closed_chessB :
  forall orc, quiet orc ->
  forall g st, g_depth g = Some 1 -> plain_go g ->
  goodC 131 (s_board st) -> history_fresh_below GT (s_history st) 1 (s_board st) ->
  full (s_board st) + 1 < 16777216 -> root_empty GT (s_board st) = false ->
  Forall (exact_rec GT (static_sat GT) (s_board st) 0) (fst (go_full GT orc g st)) /\
  (ChessGame.succs GT (s_board st) <> [] ->
   exists it, fst (go_full GT orc g st) = [it] /\ exact_rec GT (static_sat GT) (s_board st) 0 it).
Proof.
  intros orc Hq g st Hd Hp Hg HFr Hf Hre.
  exact (depth1_closedB GT GT_masks goodC 129 goodC_family goodC_sane goodC_full GT_rows GT_win goodC_static orc Hq g st Hd Hp Hg HFr
           Hre (goodC_inb 1 _ _ Hg Hf)).
Qed.

Theorem depth1_reported_chessB :
  forall orc, quiet orc ->
  forall g st, g_depth g = Some 1 -> plain_go g ->
  goodC 131 (s_board st) -> history_fresh_below GT (s_history st) 1 (s_board st) ->
  full (s_board st) + 1 < 16777216 -> ChessGame.succs GT (s_board st) <> [] ->
  exists infos i ponder m q,
    go_msgs GT orc g st = infos ++ [OInfo i; OBestmove (Some (uci_of_move m)) ponder] /\
    forallb is_info infos = true /\
    i_depth i = Some 1 /\
    i_score i = Some (score_from_value GT (nmG 1 (s_board st)) (s_board st)) /\
    (exists pv, i_pv i = Some (uci_of_move m :: pv) /\ ponder = nth_error pv 0) /\
    make (s_board st) m = Some q /\ In q (ChessGame.succs GT (s_board st)) /\
    (- nmG 0 q)%Z = nmG 1 (s_board st).
Proof.
  intros orc Hq g st Hd Hp Hg HFr Hf Hne.
  assert (Hre : root_empty GT (s_board st) = false).
  { unfold SearchRefine.root_empty. destruct (gen_pseudo GT (s_board st)) as [|m0 r0] eqn:E; [|reflexivity].
    exfalso. apply Hne. unfold ChessGame.succs. rewrite E. reflexivity. }
  destruct (depth1_closed_chessB orc Hq g st Hd Hp Hg HFr Hf Hre) as [_ Hex].
  destruct (Hex Hne) as (it & Elog & (Hdep & Hval & Hmv)).
  destruct (Hmv Hne) as (Hab & m & q & Em & Hmk & Hqin & Hbest).
  destruct (go_last_report GT orc g st it [] Elog Hab) as (infos & i & ponder & Hmsg & Hinf & Hd' & Hs & Hpv & Hpo).
  assert (Hb : s_board (snd (go_full GT orc g st)) = s_board st).
  { exact (C09_go_depth_board_thm GT goodC 129 goodC_family orc g st 1 Hd Hg). }
  rewrite Hb, Hval in Hs. rewrite Em in Hmsg. cbn [option_map] in Hmsg.
  exists infos, i, ponder, m, q.
  split; [exact Hmsg|]. split; [exact Hinf|]. split; [rewrite Hd', Hdep; reflexivity|]. split; [exact Hs|].
  split.
  { destruct (calc_pv_head (it_result it) m Em) as (r & Er). rewrite Er in Hpv, Hpo. cbn [map] in Hpv, Hpo.
    exists (map uci_of_move r). split; [exact Hpv|]. rewrite Hpo. reflexivity. }
  split; [exact Hmk|]. split; [exact Hqin|exact Hbest].
Qed.

(* ================================================================== *)
(* Part D: sessions -- what survives in the history                                                                   *)

(* D.1  `position fen X` (no move list), whatever the engine did before: the history is ZobristHistory::default() plus
   the root's key at the root's clock.  NOTHING of an earlier game or search survives, at any index (the Rust builds a
   fresh `ZobristHistory::default()` in set_position_from and assigns it to self.state.zobrist_history). *)
Lemma position_history_fresh_start (T : Tables.t) (f : fen) (st0 : sstate) :
  let st := set_position_from T f [] st0 in
  s_board st = board_of_fen f /\
  forall x, hget (s_history st) x = if x =? ply_clock_w (board_of_fen f) then zobrist_hash T (board_of_fen f) else 0.
Proof. split; reflexivity. Qed.

(* so every entry below the root's clock is 0, and the premise is "no inspecting tree position has key 0" *)
Lemma fresh_below_position_fen (T : Tables.t) (D : nat) (f : fen) (st0 : sstate) :
  let root := board_of_fen f in
  let st := set_position_from T f [] st0 in
  (forall i y, (1 <= i <= D)%nat -> Minimax.at_ply board (ChessGame.succs T) root i y -> zobrist_hash T y <> 0) ->
  s_board st = root /\ history_fresh_below T (s_history st) D (s_board st).
Proof.
  intros root st Hnz. destruct (position_history_fresh_start T f st0) as [Eb Eh]. fold st in Eb, Eh. fold root in Eb, Eh.
  split; [exact Eb|]. rewrite Eb. intros i y x Hi Hy _ Hx. rewrite Eh.
  destruct (N.eqb_spec x (ply_clock_w root)) as [E|_]; [lia|]. intros E. symmetry in E. exact (Hnz i y Hi Hy E).
Qed.

(* the premise only reads the entries below the root's clock *)
Lemma fresh_below_ext (T : Tables.t) h h' D root :
  (forall x, x < ply_clock_w root -> hget h' x = hget h x) ->
  history_fresh_below T h D root -> history_fresh_below T h' D root.
Proof. intros E H i y x Hi Hy Hw Hx. rewrite (E x Hx). exact (H i y x Hi Hy Hw Hx). Qed.

(* D.2  what a search writes.  [wr c d x]: x is the (u16) ply clock of one of the plies 0..d below a position whose
   un-cast ply count is c.  [hw c d st st']: from st to st' the history changed at such indices only. *)
Definition wr (c : N) (d : nat) (x : N) : Prop := exists j, (j <= d)%nat /\ x = (c + N.of_nat j) mod 65536.
Definition hw (c : N) (d : nat) (st st' : sstate) : Prop :=
  forall x, hget (s_history st') x = hget (s_history st) x \/ wr c d x.

Lemma hw_same c d st st' : s_history st' = s_history st -> hw c d st st'.
Proof. intros E x. left. now rewrite E. Qed.

Lemma hw_trans c d a b e : hw c d a b -> hw c d b e -> hw c d a e.
Proof. intros H1 H2 x. destruct (H2 x) as [E|W]; [|now right]. rewrite E. apply H1. Qed.

Lemma wr_up c d x : wr (c + 1) d x -> wr c (S d) x.
Proof. intros (j & Hj & ->). exists (S j). split; [lia|]. f_equal. lia. Qed.

Lemma wr_mono c d d' x : (d <= d')%nat -> wr c d x -> wr c d' x.
Proof. intros Hd (j & Hj & E). exists j. split; [lia|exact E]. Qed.

Lemma hw_mono c d d' a b : (d <= d')%nat -> hw c d a b -> hw c d' a b.
Proof. intros Hd H x. destruct (H x) as [E|W]; [now left|right]. eapply wr_mono; eassumption. Qed.

Section Writes.
Variable T : Tables.t.
Variable good : nat -> board -> Prop.
Variable Q : nat.
Hypothesis inverse : forall n b m, good (S n) b -> In m (gen_pseudo T b) ->
  exists b', make b m = Some b' /\ unmake b' m = Some b /\ (is_valid T b' = true -> good n b').
Hypothesis good_mono : forall n b, good (S n) b -> good n b.
Hypothesis qfuel_bound : forall n b, good n b -> (qfuel b <= Q)%nat.
Variable orc : oracle.

Local Notation clock_ok := RepetitionProofs.clock_ok.
Local Notation ply_count := RepetitionProofs.ply_count.

Lemma node_prelude_hw ply rd a0 b0 zh st :
  hw (ply_count (s_board st)) 0 st (snd (node_prelude T orc ply rd a0 b0 zh st)).
Proof.
  destruct (RepetitionProofs.node_prelude_hist T orc ply rd a0 b0 zh st) as (_ & [E|E] & _); [now apply hw_same|].
  intros x. rewrite E, HistoryProofs.hget_hset. destruct (N.eqb_spec x (ply_clock_w (s_board st))) as [->|_]; [right|now left].
  exists 0%nat. split; [lia|]. change (N.of_nat 0) with 0. rewrite N.add_0_r. apply RepetitionProofs.ply_clock_w_count.
Qed.

Lemma nm_loop_hw (rec : Z -> Z -> bool -> N -> N -> sstate -> vmove * sstate) n dd c :
  (forall a b pv z zp st, good n (s_board st) -> clock_ok (s_board st) -> ply_count (s_board st) = c + 1 ->
     s_board (snd (rec a b pv z zp st)) = s_board st /\ hw (c + 1) dd st (snd (rec a b pv z zp st))) ->
  forall moves b, good (S n) b -> clock_ok b -> ply_count b = c -> (forall m, In m moves -> In m (gen_pseudo T b)) ->
  forall ispv pvm zh zph rd beta alpha bv bm bc lg st, s_board st = b ->
  s_board (snd (nm_loop T rec moves ispv pvm zh zph rd beta alpha bv bm bc lg st)) = b /\
  hw c (S dd) st (snd (nm_loop T rec moves ispv pvm zh zph rd beta alpha bv bm bc lg st)).
Proof.
  intros Hrec moves b Hgood Hck Hpc. induction moves as [|mv rest IH]; intros Hin ispv pvm zh zph rd beta alpha bv bm bc lg st Hb; cbn [nm_loop].
  - split; [exact Hb|now apply hw_same].
  - assert (Hmv : In mv (gen_pseudo T b)) by (apply Hin; now left).
    assert (Hrest : forall m, In m rest -> In m (gen_pseudo T b)) by (intros; apply Hin; now right).
    destruct (inverse n b mv Hgood Hmv) as (b1 & Hmk & Hun & Hg1).
    rewrite Hb, Hmk.
    destruct (RepetitionProofs.ply_count_make b mv b1 Hck Hmk) as [Hck1 Hpc1].
    destruct (is_valid T b1) eqn:Hv; cbn [negb].
    + assert (E2 : exists zx zpx st2, (match zobrist_xor T mv with Some (x, p) => (x, p, set_board st b1) | None => (0, 0, set_panicked (set_board st b1) true) end) = (zx, zpx, st2)
                                   /\ s_board st2 = b1 /\ s_history st2 = s_history st).
      { destruct (zobrist_xor T mv) as [[x p]|]; do 3 eexists; (split; [reflexivity|split; reflexivity]). }
      destruct E2 as (zx & zpx & st2 & -> & B2 & H2).
      destruct (rec (- beta)%Z (- alpha)%Z (ispv && opt_move_eqb pvm mv) (N.lxor zh zx) (N.lxor zph zpx) st2) as [child st3] eqn:Er.
      assert (E3 : s_board st3 = b1 /\ hw (c + 1) dd st2 st3).
      { pose proof (Hrec (- beta)%Z (- alpha)%Z (ispv && opt_move_eqb pvm mv) (N.lxor zh zx) (N.lxor zph zpx) st2) as H.
        rewrite Er in H. cbn [snd] in H. rewrite B2 in H. apply H; [exact (Hg1 eq_refl)|exact Hck1|rewrite Hpc1, Hpc; reflexivity]. }
      destruct E3 as [B3 W3].
      assert (Hun3 : unmake (s_board st3) mv = Some b) by (rewrite B3; exact Hun).
      destruct (do_unmake_spec st3 mv b Hun3) as [B4 _].
      pose proof (do_unmake_hist st3 mv) as H4.
      assert (W4 : hw c (S dd) st (do_unmake st3 mv)).
      { intros x. rewrite H4. destruct (W3 x) as [E|W]; [left; rewrite E, H2; reflexivity|right; apply wr_up; exact W]. }
      destruct (s_stop st3); [split; [exact B4|exact W4]|].
      destruct (bv <? - vm_value child)%Z; cbv zeta iota beta.
      * destruct (beta <=? _)%Z.
        -- cbn [fst snd]. split; [exact B4|]. eapply hw_trans; [exact W4|now apply hw_same].
        -- destruct (IH Hrest ispv pvm zh zph rd beta (Z.max alpha (- vm_value child)) (- vm_value child)%Z (Some mv) (Some child) true (do_unmake st3 mv) B4) as [I1 I2].
           split; [exact I1|eapply hw_trans; [exact W4|exact I2]].
      * destruct (beta <=? _)%Z.
        -- cbn [fst snd]. split; [exact B4|]. eapply hw_trans; [exact W4|now apply hw_same].
        -- destruct (IH Hrest ispv pvm zh zph rd beta (Z.max alpha bv) bv bm bc true (do_unmake st3 mv) B4) as [I1 I2].
           split; [exact I1|eapply hw_trans; [exact W4|exact I2]].
    + assert (Hun1 : unmake (s_board (set_board st b1)) mv = Some b) by exact Hun.
      destruct (do_unmake_spec (set_board st b1) mv b Hun1) as [B1 _].
      pose proof (do_unmake_hist (set_board st b1) mv) as H1.
      destruct (IH Hrest ispv pvm zh zph rd beta alpha bv bm bc lg (do_unmake (set_board st b1) mv) B1) as [I1 I2].
      split; [exact I1|]. eapply hw_trans; [|exact I2]. apply hw_same. exact H1.
Qed.

Lemma interior_node_hw rec n dd c :
  (forall a b pv z zp st, good n (s_board st) -> clock_ok (s_board st) -> ply_count (s_board st) = c + 1 ->
     s_board (snd (rec a b pv z zp st)) = s_board st /\ hw (c + 1) dd st (snd (rec a b pv z zp st))) ->
  forall color ply rd a0 ispv zh zph alpha beta ttm buffer st,
  good (S n) (s_board st) -> clock_ok (s_board st) -> ply_count (s_board st) = c ->
  (forall m, In m buffer -> In m (gen_pseudo T (s_board st))) ->
  hw c (S dd) st (snd (interior_node T rec color ply rd a0 ispv zh zph alpha beta ttm buffer st)).
Proof.
  intros Hrec color ply rd a0 ispv zh zph alpha beta ttm buffer st Hg Hck Hpc Hin. unfold interior_node. cbv zeta.
  match goal with |- context [nm_loop T rec ?mv ?a ?b ?c' ?d ?e ?f ?g ?h ?i ?j ?k st] =>
    pose proof (nm_loop_hw rec n dd c Hrec mv (s_board st) Hg Hck Hpc) as HL; specialize (fun H => HL H a b c' d e f g h i j k st eq_refl);
    destruct (nm_loop T rec mv a b c' d e f g h i j k st) as [[r|bv bm bc lg] st4] end;
  cbn [fst snd] in HL.
  - destruct HL as [_ W4]; [intros m Hm; apply Hin; eapply sort_moves_in; exact Hm|]. exact W4.
  - destruct HL as [_ W4]; [intros m Hm; apply Hin; eapply sort_moves_in; exact Hm|].
    destruct (negb lg); [exact W4|].
    destruct (negb _); cbn [fst snd]; [|exact W4].
    eapply hw_trans; [exact W4|now apply hw_same].
Qed.

(* search_negamax, ANY oracle: the board comes back (C09) and the history changed only at the ply clocks of the plies
   0..d below the node *)
Lemma negamax_hw d : forall ply a0 b0 ispv zh zph st, good (d + S Q) (s_board st) -> clock_ok (s_board st) ->
  hw (ply_count (s_board st)) d st (snd (negamax T orc d ply a0 b0 ispv zh zph st)).
Proof.
  induction d as [|d' IH]; intros ply a0 b0 ispv zh zph st Hg Hck; cbn [negamax]; cbv zeta;
  (match goal with |- context [node_prelude T orc ply ?rd a0 b0 zh st] =>
     pose proof (node_prelude_ext T orc ply rd a0 b0 zh st) as [[B3 _] Hbuf];
     pose proof (node_prelude_hw ply rd a0 b0 zh st) as W3;
     destruct (node_prelude T orc ply rd a0 b0 zh st) as [[r|alpha beta ttm buffer] st3] end);
  cbn [fst snd] in B3, Hbuf, W3; try exact W3.
  - eapply hw_trans; [exact W3|]. apply hw_same. exact (proj1 (RepetitionProofs.leaf_node_hc T _ _ _ _ _ st3)).
  - eapply hw_mono; [apply Nat.le_0_l|exact W3].
  - eapply hw_trans; [eapply hw_mono; [apply Nat.le_0_l|exact W3]|].
    assert (W : hw (ply_count (s_board st3)) (S d') st3
                  (snd (interior_node T (negamax T orc d' (ply + 1)) (turn (s_board st)) ply (N.of_nat (S d')) a0 ispv zh zph alpha beta ttm buffer st3))).
    { apply (interior_node_hw (negamax T orc d' (ply + 1)) (d' + S Q)%nat d' (ply_count (s_board st3))).
      - intros a b pv z zp st' Hg' Hck' Hpc'. split.
        + exact (proj1 (negamax_ext T good Q inverse good_mono qfuel_bound orc d' (ply + 1) a b pv z zp st' Hg')).
        + rewrite <- Hpc'. apply IH; assumption.
      - rewrite B3. exact Hg.
      - rewrite B3. exact Hck.
      - reflexivity.
      - rewrite B3. intros m Hm. eapply Hbuf; [reflexivity|exact Hm]. }
    rewrite B3 in W. exact W.
Qed.

(* ---- iterative deepening ---- *)
Lemma id_step_hist mt a :
  s_history (id_st (id_next T orc mt a)) = s_history (snd (root_call T orc a)).
Proof.
  unfold id_next, id_step, root_call. cbv zeta.
  match goal with |- context [negamax T orc ?d ?p ?x ?y ?v ?z ?w (id_st a)] =>
    destruct (negamax T orc d p x y v z w (id_st a)) as [current st1] end.
  unfold read_clock, generate_info. cbv beta iota zeta. sproj.
  destruct (s_stop st1 || match vm_mv current with Some _ => false | None => true end) eqn:Eab;
    cbn [negb]; cbv beta iota zeta; unfold read_clock; cbv beta iota zeta; sproj;
    match goal with |- context [if ?c then inr ?x else inl ?y] =>
      replace (un (if c then inr x else inl y)) with x by (destruct c; reflexivity) end;
    cbn [id_st]; sproj; reflexivity.
Qed.

(* the invariant of the deepening loop: after n iterations the history changed only at the clocks of the plies 0..n *)
Definition LH (D : nat) (st3 : sstate) (a : idstate) : Prop :=
  (length (id_log a) <= D)%nat ->
  id_fuel a = S (length (id_log a)) /\ s_board (id_st a) = s_board st3 /\
  hw (ply_count (s_board st3)) (length (id_log a)) st3 (id_st a).

Lemma LH_step D mt st3 a : good (D + S Q) (s_board st3) -> clock_ok (s_board st3) ->
  LH D st3 a -> LH D st3 (id_next T orc mt a).
Proof.
  intros Hg Hck Ha Hlen.
  pose proof (id_step_spec T good Q inverse good_mono qfuel_bound orc mt a) as Hs. cbv zeta in Hs.
  destruct Hs as ((it & Hlog & _) & Hfuel & _ & Hboard & _).
  rewrite Hlog in Hlen |- *. cbn [length] in Hlen |- *.
  destruct Ha as (Hf & Hb & Hw); [lia|].
  assert (Hg' : good (id_fuel a + S Q) (s_board (id_st a))).
  { rewrite Hf, Hb. eapply (good_le good good_mono); [|exact Hg]. lia. }
  split; [rewrite Hfuel, Hf; reflexivity|]. split; [rewrite (Hboard Hg'); exact Hb|].
  eapply hw_trans; [eapply hw_mono; [|exact Hw]; lia|].
  intros x. rewrite id_step_hist. unfold root_call.
  assert (Hck' : clock_ok (s_board (id_st a))) by (rewrite Hb; exact Hck).
  pose proof (negamax_hw (id_fuel a) 0 (loss_score T) (win_score T)
                (match s_pv (id_st a) with Some _ => true | None => false end)
                (zobrist_hash T (s_board (id_st a))) (pawn_hash T (s_board (id_st a))) (id_st a) Hg' Hck' x) as W.
  rewrite Hb, Hf in W. rewrite Hb, Hf. exact W.
Qed.

Lemma best_move_hw st D :
  good (D + S Q) (s_board st) -> clock_ok (s_board st) ->
  (length (snd (fst (best_move T orc st))) <= D)%nat ->
  hw (ply_count (s_board st)) D st (snd (best_move T orc st)).
Proof.
  intros Hg Hck. unfold best_move. cbv zeta.
  set (st1 := set_killers _ _).
  set (st2 := if s_try_prev_pv st1 then try_set_pv_from_continuation st1 else st1).
  assert (F2 : s_board st2 = s_board st /\ s_history st2 = s_history st).
  { subst st2. destruct (s_try_prev_pv st1); [|split; reflexivity].
    destruct (try_set_pv_frame st1) as (B & _). rewrite (try_set_pv_hist st1). split; [exact B|reflexivity]. }
  set (st3 := match g_movetime (s_go st2) with None => _ | Some _ => st2 end).
  assert (F3 : s_board st3 = s_board st /\ s_history st3 = s_history st).
  { subst st3. destruct F2 as (B2 & H2). destruct (g_movetime (s_go st2)); [split; assumption|]. sproj. split; assumption. }
  destruct F3 as (B3 & H3). clearbody st3. clear F2.
  set (a0 := {| id_depth := 1; id_fuel := 1; id_best := None; id_uci_pv := None; id_score := None; id_log := []; id_st := st3 |}).
  set (p := match _ with Npos p => p | N0 => xH end).
  assert (I0 : LH D st3 a0).
  { intros _. cbn [a0 id_log id_fuel id_st length]. split; [reflexivity|]. split; [reflexivity|now apply hw_same]. }
  assert (Hg3 : good (D + S Q) (s_board st3)) by (rewrite B3; exact Hg).
  assert (Hck3 : clock_ok (s_board st3)) by (rewrite B3; exact Hck).
  pose proof (iter_until_ind (LH D st3) (LH D st3) (id_step T orc (g_movetime (s_go st3)))) as HL.
  specialize (HL (fun a Ha => ltac:(
     pose proof (LH_step D (g_movetime (s_go st3)) st3 a Hg3 Hck3 Ha) as Hn; unfold id_next in Hn;
     destruct (id_step T orc (g_movetime (s_go st3)) a); exact Hn)) p a0 I0).
  unfold read_clock. cbv beta iota zeta.
  set (fin := match iter_until p (id_step T orc (g_movetime (s_go st3))) a0 with inl a => a | inr a => a end) in *.
  assert (Hfin : LH D st3 fin).
  { subst fin. destruct (iter_until p (id_step T orc (g_movetime (s_go st3))) a0); exact HL. }
  cbn [fst snd]. intros Hlen. destruct (Hfin Hlen) as (_ & _ & Hw). sproj.
  intros x. destruct (Hw x) as [E|W]; [left; cbn [snd]; sproj; rewrite E, H3; reflexivity|right].
  rewrite <- B3. eapply wr_mono; [exact Hlen|exact W].
Qed.

(* a whole `go`, ANY oracle and ANY parameters, D = a bound on the number of iterations it runs *)
Lemma go_full_hw g st D :
  good (D + S Q) (s_board st) -> clock_ok (s_board st) ->
  (length (fst (go_full T orc g st)) <= D)%nat ->
  hw (ply_count (s_board st)) D st (snd (go_full T orc g st)).
Proof.
  intros Hg Hck. unfold go_full. cbv zeta.
  set (st0 := set_reads (set_drains (set_go st g) 0) 0).
  destruct (reset_for_go_frame st0) as (B1 & _ & _).
  pose proof (reset_for_go_hist st0) as H1.
  change (s_board st0) with (s_board st) in B1. change (s_history st0) with (s_history st) in H1.
  pose proof (best_move_hw (reset_for_go st0) D) as HB. rewrite B1 in HB. specialize (HB Hg Hck).
  destruct (best_move T orc (reset_for_go st0)) as [[[bm pm] log] st2]. cbn [fst snd] in HB |- *.
  intros Hlen x. sproj. destruct (HB Hlen x) as [E|W]; [left; rewrite E, H1; reflexivity|now right].
Qed.

End Writes.

(* D.3  the statements *)
Theorem go_history_writes (T : Tables.t) (good : nat -> board -> Prop) (Q : nat) : C03_family T good Q ->
  forall orc g st D, (length (fst (go_full T orc g st)) <= D)%nat -> good (D + S Q)%nat (s_board st) ->
  RepetitionProofs.clock_ok (s_board st) ->
  forall x, hget (s_history (go T orc g st)) x = hget (s_history st) x \/
            exists j, (j <= D)%nat /\ x = (RepetitionProofs.ply_count (s_board st) + N.of_nat j) mod 65536.
Proof.
  intros (H1 & H2 & H3) orc g st D Hlen Hg Hc. exact (go_full_hw T good Q H1 H2 H3 orc g st D Hg Hc Hlen).
Qed.

(* without a u16 wrap of the ply clock within the D plies below the root, the entries below the root's clock are not
   touched *)
Theorem go_history_below (T : Tables.t) (good : nat -> board -> Prop) (Q : nat) : C03_family T good Q ->
  forall orc g st D, (length (fst (go_full T orc g st)) <= D)%nat -> good (D + S Q)%nat (s_board st) ->
  RepetitionProofs.clock_ok (s_board st) -> ply_clock_w (s_board st) + N.of_nat D < 65536 ->
  forall x, x < ply_clock_w (s_board st) -> hget (s_history (go T orc g st)) x = hget (s_history st) x.
Proof.
  intros HF orc g st D Hlen Hg Hc Hnw x Hx.
  destruct (go_history_writes T good Q HF orc g st D Hlen Hg Hc x) as [E|(j & Hj & Ex)]; [exact E|exfalso].
  rewrite <- (N.add_mod_idemp_l (RepetitionProofs.ply_count (s_board st)) (N.of_nat j) 65536) in Ex by discriminate.
  rewrite <- RepetitionProofs.ply_clock_w_count in Ex. rewrite N.mod_small in Ex by lia. lia.
Qed.

(* a session of searches on one position: no `position` command; every `go` (any oracle: stop, quit, abort point, clock)
   ends within D iterations for a D with a good root and no u16 wrap.  Other commands are unrestricted. *)
Fixpoint searches_ok (T : Tables.t) (good : nat -> board -> Prop) (Q : nat) (root : board) (cmds : list cmd) (st : sstate) : Prop :=
  match cmds with
  | [] => True
  | c :: r =>
      (match c with
       | CPosition _ _ => False
       | CGo g o => exists D, (length (fst (go_full T o g st)) <= D)%nat /\ good (D + S Q)%nat root /\
                              ply_clock_w root + N.of_nat D < 65536
       | _ => True
       end) /\ searches_ok T good Q root r (run_command T st c)
  end.

(* a depth-limited go satisfies the clause in every state *)
Lemma depth_go_ok (T : Tables.t) (good : nat -> board -> Prop) (Q : nat) : C03_family T good Q ->
  forall o g st dd root, g_depth g = Some dd -> good (depth_of dd + S Q)%nat root ->
  ply_clock_w root + N.of_nat (depth_of dd) < 65536 ->
  exists D, (length (fst (go_full T o g st)) <= D)%nat /\ good (D + S Q)%nat root /\ ply_clock_w root + N.of_nat D < 65536.
Proof.
  intros (H1 & H2 & H3) o g st dd root Hd Hg Hw. exists (depth_of dd).
  split; [exact (go_full_len T good Q H1 H2 H3 o g st dd Hd)|]. split; assumption.
Qed.

Theorem searches_keep_below (T : Tables.t) (good : nat -> board -> Prop) (Q : nat) : C03_family T good Q ->
  forall root, RepetitionProofs.clock_ok root ->
  forall cmds st, s_board st = root -> searches_ok T good Q root cmds st ->
  s_board (run_commands T cmds st) = root /\
  forall x, x < ply_clock_w root -> hget (s_history (run_commands T cmds st)) x = hget (s_history st) x.
Proof.
  intros HF root Hc cmds. induction cmds as [|c r IH]; intros st Hb Hok; [split; [exact Hb|reflexivity]|].
  destruct Hok as [Hc1 Hr]. unfold run_commands in *. cbn [fold_left].
  assert (Hstep : s_board (run_command T st c) = root /\
                  forall x, x < ply_clock_w root -> hget (s_history (run_command T st c)) x = hget (s_history st) x).
  { unfold run_command. destruct (s_quit st); [split; [exact Hb|reflexivity]|].
    destruct c; try (split; [exact Hb|reflexivity]).
    - contradiction.
    - destruct Hc1 as (D & Hlen & Hg & Hw). rewrite <- Hb in Hg, Hw, Hc. split.
      + rewrite <- Hb. exact (C09_go_board_thm T good Q HF o g st D Hlen Hg).
      + intros x Hx. rewrite <- Hb in Hx. exact (go_history_below T good Q HF o g st D Hlen Hg Hc Hw x Hx).
    - destruct (print_fen (s_board st)); (split; [exact Hb|reflexivity]). }
  destruct Hstep as [Hb1 Hh1]. destruct (IH (run_command T st c) Hb1 Hr) as [Hb2 Hh2].
  split; [exact Hb2|]. intros x Hx. rewrite (Hh2 x Hx). exact (Hh1 x Hx).
Qed.

(* ... hence the premise of the concrete theorems survives any number of searches *)
Theorem searches_keep_fresh_below (T : Tables.t) (good : nat -> board -> Prop) (Q : nat) : C03_family T good Q ->
  forall root, RepetitionProofs.clock_ok root ->
  forall cmds st D, s_board st = root -> searches_ok T good Q root cmds st ->
  history_fresh_below T (s_history st) D root ->
  s_board (run_commands T cmds st) = root /\ history_fresh_below T (s_history (run_commands T cmds st)) D root.
Proof.
  intros HF root Hc cmds st D Hb Hok HFr. destruct (searches_keep_below T good Q HF root Hc cmds st Hb Hok) as [Hb' Hh].
  split; [exact Hb'|]. exact (fresh_below_ext T (s_history st) _ D root Hh HFr).
Qed.

(* `position fen X`, then any searches of X, on an engine with ANY past: the premise holds when no inspecting key is 0 *)
Theorem fresh_below_after_position_and_searches (T : Tables.t) (good : nat -> board -> Prop) (Q : nat) : C03_family T good Q ->
  forall (D : nat) (f : fen) (st0 : sstate) (cmds : list cmd),
  let root := board_of_fen f in
  let st := run_commands T cmds (set_position_from T f [] st0) in
  RepetitionProofs.clock_ok root ->
  searches_ok T good Q root cmds (set_position_from T f [] st0) ->
  (forall i y, (1 <= i <= D)%nat -> Minimax.at_ply board (ChessGame.succs T) root i y -> zobrist_hash T y <> 0) ->
  s_board st = root /\ history_fresh_below T (s_history st) D (s_board st).
Proof.
  intros HF D f st0 cmds root st Hc Hok Hnz.
  destruct (fresh_below_position_fen T D f st0 Hnz) as [Eb HFr]. fold root in Eb, HFr. rewrite Eb in HFr.
  destruct (searches_keep_fresh_below T good Q HF root Hc cmds _ D Eb Hok HFr) as [Eb' HFr'].
  fold st in Eb', HFr'. split; [exact Eb'|]. rewrite Eb'. exact HFr'.
Qed.

(* ================================================================== *)
(* Part E: C09 -- "a following go without a new position command ...: its depth-1 score equals that of a fresh engine
   given that position"                                                                                              *)
Local Notation nmG' := (Minimax.nm board (ChessGame.succs GT) (ChessGame.noisy_succs GT) (ChessGame.noisy_any GT) (static_sat GT)
                         (ChessGame.terminal GT) qmeasure).

Theorem depth1_score_state_independent :
  forall orc1 orc2, quiet orc1 -> quiet orc2 ->
  forall g1 g2 st1 st2, g_depth g1 = Some 1 -> plain_go g1 -> g_depth g2 = Some 1 -> plain_go g2 ->
  s_board st2 = s_board st1 ->
  goodC 131 (s_board st1) -> full (s_board st1) + 1 < 16777216 -> ChessGame.succs GT (s_board st1) <> [] ->
  history_fresh_below GT (s_history st1) 1 (s_board st1) ->
  history_fresh_below GT (s_history st2) 1 (s_board st1) ->
  exists infos1 i1 m1 p1 infos2 i2 m2 p2,
    go_msgs GT orc1 g1 st1 = infos1 ++ [OInfo i1; OBestmove (Some m1) p1] /\
    go_msgs GT orc2 g2 st2 = infos2 ++ [OInfo i2; OBestmove (Some m2) p2] /\
    forallb is_info infos1 = true /\ forallb is_info infos2 = true /\
    i_depth i1 = Some 1 /\ i_depth i2 = Some 1 /\
    i_score i1 = Some (score_from_value GT (nmG' 1 (s_board st1)) (s_board st1)) /\
    i_score i2 = i_score i1.
Proof.
  intros orc1 orc2 Hq1 Hq2 g1 g2 st1 st2 Hd1 Hp1 Hd2 Hp2 Hb Hg Hf Hne HF1 HF2.
  destruct (depth1_reported_chessB orc1 Hq1 g1 st1 Hd1 Hp1 Hg HF1 Hf Hne)
    as (infos1 & i1 & p1 & m1 & q1 & A1 & A2 & A3 & A4 & _).
  rewrite <- Hb in Hg, Hf, Hne, HF2.
  destruct (depth1_reported_chessB orc2 Hq2 g2 st2 Hd2 Hp2 Hg HF2 Hf Hne)
    as (infos2 & i2 & p2 & m2 & q2 & B1 & B2 & B3 & B4 & _).
  rewrite Hb in B4.
  exists infos1, i1, (uci_of_move m1), p1, infos2, i2, (uci_of_move m2), p2.
  repeat split; try assumption. now rewrite A4, B4.
Qed.

(* the history premise discharged: one engine right after `position fen X`, the other after `position fen X` and ANY
   searches of X (stopped, aborted, finished; any oracles), both with an arbitrary past before the position command *)
Theorem depth1_after_searches :
  forall orc1 orc2, quiet orc1 -> quiet orc2 ->
  forall g1 g2, g_depth g1 = Some 1 -> plain_go g1 -> g_depth g2 = Some 1 -> plain_go g2 ->
  forall (f : fen) (stA stB : sstate) (cmds : list cmd),
  let root := board_of_fen f in
  let st1 := set_position_from GT f [] stA in
  let st2 := run_commands GT cmds (set_position_from GT f [] stB) in
  goodC 131 root -> full root + 1 < 16777216 -> ChessGame.succs GT root <> [] ->
  searches_ok GT goodC 129 root cmds (set_position_from GT f [] stB) ->
  (forall i y, (1 <= i <= 1)%nat -> Minimax.at_ply board (ChessGame.succs GT) root i y -> zobrist_hash GT y <> 0) ->
  exists infos1 i1 m1 p1 infos2 i2 m2 p2,
    go_msgs GT orc1 g1 st1 = infos1 ++ [OInfo i1; OBestmove (Some m1) p1] /\
    go_msgs GT orc2 g2 st2 = infos2 ++ [OInfo i2; OBestmove (Some m2) p2] /\
    forallb is_info infos1 = true /\ forallb is_info infos2 = true /\
    i_depth i1 = Some 1 /\ i_depth i2 = Some 1 /\
    i_score i1 = Some (score_from_value GT (nmG' 1 root) root) /\
    i_score i2 = i_score i1.
Proof.
  intros orc1 orc2 Hq1 Hq2 g1 g2 Hd1 Hp1 Hd2 Hp2 f stA stB cmds root st1 st2 Hg Hf Hne Hok Hnz.
  assert (Hc : RepetitionProofs.clock_ok root) by exact (good_clock goodC goodC_sane goodC_full _ _ Hg).
  destruct (fresh_below_position_fen GT 1 f stA Hnz) as [Eb1 HF1]. fold st1 in Eb1, HF1. fold root in Eb1.
  destruct (fresh_below_after_position_and_searches GT goodC 129 goodC_family 1 f stB cmds Hc Hok Hnz) as [Eb2 HF2].
  fold st2 in Eb2, HF2. fold root in Eb2.
  rewrite Eb1 in HF1. rewrite Eb2 in HF2. rewrite <- Eb1 in Hg, Hf, Hne, HF1, HF2 |- *.
  apply (depth1_score_state_independent orc1 orc2 Hq1 Hq2 g1 g2 st1 st2 Hd1 Hp1 Hd2 Hp2); first [assumption|congruence].
Qed.

(* `position fen X`, then any searches of X, then `go depth dd`: the engine prints the exact value, whatever it searched
   before -- on this position or, before the position command, on any other *)
Theorem reported_score_after_position_and_searches :
  forall orc, quiet orc ->
  forall sim : nat -> board -> board -> Prop,
  (forall r' r x y, sim r' x y -> (r <= r')%nat -> nmG' r x = nmG' r y) ->
  (forall r r' x y, (r <= r')%nat -> sim r' x y -> sim r x y) ->
  forall g (f : fen) (st0 : sstate) (cmds : list cmd) dd, g_depth g = Some dd -> plain_go g ->
  let root := board_of_fen f in
  let st := run_commands GT cmds (set_position_from GT f [] st0) in
  goodC (depth_of dd + 130) root ->
  Minimax.ply_unique board (ChessGame.succs GT) (zobrist_hash GT) sim (depth_of dd) root ->
  searches_ok GT goodC 129 root cmds (set_position_from GT f [] st0) ->
  (forall i y, (1 <= i <= depth_of dd)%nat -> Minimax.at_ply board (ChessGame.succs GT) root i y -> zobrist_hash GT y <> 0) ->
  full root + N.of_nat (depth_of dd) < 16777216 ->
  ChessGame.succs GT root <> [] ->
  exists infos i ponder m q,
    go_msgs GT orc g st = infos ++ [OInfo i; OBestmove (Some (uci_of_move m)) ponder] /\
    forallb is_info infos = true /\
    i_depth i = Some (N.of_nat (depth_of dd)) /\
    i_score i = Some (score_from_value GT (nmG' (depth_of dd) root) root) /\
    (exists pv, i_pv i = Some (uci_of_move m :: pv) /\ ponder = nth_error pv 0) /\
    make root m = Some q /\ In q (ChessGame.succs GT root) /\
    (- nmG' (pred (depth_of dd)) q)%Z = nmG' (depth_of dd) root.
Proof.
  intros orc Hq sim S1 S2 g f st0 cmds dd Hd Hp root st Hg HU Hok Hnz Hf Hne.
  assert (Hc : RepetitionProofs.clock_ok root) by exact (good_clock goodC goodC_sane goodC_full _ _ Hg).
  destruct (fresh_below_after_position_and_searches GT goodC 129 goodC_family (depth_of dd) f st0 cmds Hc Hok Hnz) as [Eb HFr].
  fold st in Eb, HFr. fold root in Eb. rewrite <- Eb in Hg, HU, Hf, Hne |- *.
  exact (reported_score_exact_chessB orc Hq sim S1 S2 g st dd Hd Hp Hg HU HFr Hf Hne).
Qed.

(* for D <= 3 (and no u16 wrap) no inspected index reaches the root's clock: there the two premises say the same *)
Lemma fresh_below_fresh_small (T : Tables.t) h D root : RepetitionProofs.clock_ok root ->
  (D <= 3)%nat -> ply_clock_w root + N.of_nat D < 65536 ->
  history_fresh_below T h D root -> history_fresh T h D root.
Proof.
  intros Hc HD Hnw H i y x Hi Hy Hw. apply (H i y x Hi Hy Hw).
  apply HistoryProofs.in_window_iff in Hw as (_ & Hw & _).
  rewrite (at_ply_clock_w T root i y Hc Hy) in Hw.
  rewrite <- (N.add_mod_idemp_l (RepetitionProofs.ply_count root) (N.of_nat i) 65536) in Hw by discriminate.
  rewrite <- RepetitionProofs.ply_clock_w_count in Hw. rewrite N.mod_small in Hw by lia. lia.
Qed.

(* ================================================================== *)
(* Part F: a checker for history_fresh_below; the example                                                             *)
Definition fresh_below_check (T : Tables.t) (h : hist) (D : nat) (root : board) : bool :=
  forallb (fun a => Nat.eqb (fst (fst a)) 0 ||
                    forallb (fun x => negb (x <? ply_clock_w root) || negb (hget h x =? snd (fst a)))
                            (Draws.window (ply_clock_w (snd a)) (half (snd a) mod 65536)))
          (tree_nodes T D root).

Lemma fresh_below_check_sound (T : Tables.t) h D root :
  fresh_below_check T h D root = true -> history_fresh_below T h D root.
Proof.
  intros H i y x Hi Hy Hw Hx E. unfold fresh_below_check in H. rewrite forallb_forall in H.
  specialize (H _ (tree_nodes_in T D root i y ltac:(lia) Hy)). cbn [fst snd] in H.
  apply orb_true_iff in H as [H|H]; [apply Nat.eqb_eq in H; lia|].
  rewrite forallb_forall in H.
  assert (Hin : In x (Draws.window (ply_clock_w y) (half y mod 65536))).
  { apply HistoryProofs.window_In. apply HistoryProofs.in_window_iff. exact Hw. }
  specialize (H x Hin). apply orb_true_iff in H as [H|H].
  - apply negb_true_iff, N.ltb_ge in H. lia.
  - apply negb_true_iff, N.eqb_neq in H. contradiction.
Qed.

(* ---- the example of Proofs/C08Closed.v continued: K+R+P against K+P, half-move clock 40, ONE engine:
        position fen ..; go depth 2; go depth 2                                                                    ---- *)
Definition ex40_st1 : sstate := set_position_from GT ex40_fen [] (init_state GT).
Definition ex40_st2 : sstate := go GT RepetitionProofs.ex_orc ex40_go ex40_st1.        (* after the first search *)

Lemma ex_orc_quiet : quiet RepetitionProofs.ex_orc.
Proof. split; reflexivity. Qed.

(* the second search starts with the first one's entries above the root's clock (118) still in place; the premises of
   reported_score_exact_chessB hold for it, by computation *)
Lemma ex40_second_premises :
  s_board ex40_st2 = ex40_root /\ ply_clock_w ex40_root = 118 /\
  hget (s_history ex40_st2) 119 <> 0 /\ hget (s_history ex40_st2) 120 <> 0 /\
  RepetitionInstance.good_c10b GT 132 (s_board ex40_st2) = true /\
  ply_unique_check GT 2 (s_board ex40_st2) = true /\
  fresh_below_check GT (s_history ex40_st2) 2 (s_board ex40_st2) = true.
Proof. repeat split; vm_compute; try reflexivity; discriminate. Qed.

Lemma ex40_both_report :
  forall orc2, quiet orc2 ->
  exists infos1 i1 p1 m1 infos2 i2 p2 m2,
    go_msgs GT RepetitionProofs.ex_orc ex40_go ex40_st1 = infos1 ++ [OInfo i1; OBestmove (Some (uci_of_move m1)) p1] /\
    go_msgs GT orc2 ex40_go ex40_st2 = infos2 ++ [OInfo i2; OBestmove (Some (uci_of_move m2)) p2] /\
    i_depth i1 = Some 2 /\ i_depth i2 = Some 2 /\ i_score i1 = Some (Cp 430) /\ i_score i2 = Some (Cp 430).
Proof.
  intros orc2 Hq2.
  destruct (ex40_reported RepetitionProofs.ex_orc ex_orc_quiet (init_state GT))
    as (infos1 & i1 & p1 & m1 & q1 & A1 & _ & A3 & A4 & _).
  destruct ex40_second_premises as (Eb & _ & _ & _ & P1 & P2 & P3).
  destruct (reported_score_exact_chessB orc2 Hq2 sim_eq sim_eq_nm sim_eq_le ex40_go ex40_st2 2 eq_refl
              ltac:(repeat split)) as (infos2 & i2 & p2 & m2 & q2 & B1 & _ & B3 & B4 & _).
  - apply (good_c10b_spec GT). exact P1.
  - apply ply_unique_check_sound. exact P2.
  - apply fresh_below_check_sound. exact P3.
  - rewrite Eb. vm_compute. reflexivity.
  - rewrite Eb. vm_compute. discriminate.
  - rewrite Eb in B4. change (depth_of 2) with 2%nat in *.
    assert (E : nmG' 2 ex40_root = 430%Z) by (vm_compute; reflexivity). rewrite E in B4.
    assert (Es : score_from_value GT 430 ex40_root = Cp 430) by (vm_compute; reflexivity). rewrite Es in B4.
    exists infos1, i1, p1, m1, infos2, i2, p2, m2. repeat split; assumption.
Qed.

(* ---- stale entries above the root's clock DO break [history_fresh] at a depth that reaches them.  First search:
        `go depth 2 searchmoves d3d4`; its last ply-1 node (the position after Rd4) stays at index 119.  In the tree
        of a following search the position after  Rd4 .. 4 reversible plies  (ply 5, clock 123) has the same key and
        inspects index 119 = 123 - 4: history_fresh (depth 5) is false of that engine state, history_fresh_below is not
        affected (all entries below index 118 are still 0). ---- *)
Definition ex40_go_sm : go_params :=
  {| g_searchmoves := [(43, 35, 0)]; g_wtime := None; g_btime := None; g_winc := None; g_binc := None; g_depth := Some 2;
     g_movetime := None |}.
Definition ex40_st3 : sstate := go GT RepetitionProofs.ex_orc ex40_go_sm ex40_st1.

Definition kth_succ (k : nat) (p : board) : board := nth k (ChessGame.succs GT p) p.

Lemma kth_succ_in k p : Nat.ltb k (length (ChessGame.succs GT p)) = true -> In (kth_succ k p) (ChessGame.succs GT p).
Proof. intros H. apply Nat.ltb_lt in H. unfold kth_succ. now apply nth_In. Qed.

Definition ex40_y5 : board := kth_succ 10 (kth_succ 2 (kth_succ 0 (kth_succ 0 (kth_succ 4 ex40_root)))).

Lemma ex40_y5_at_ply : Minimax.at_ply board (ChessGame.succs GT) ex40_root 5 ex40_y5.
Proof.
  unfold ex40_y5.
  repeat (eapply Minimax.at_ply_S; [|apply kth_succ_in; vm_compute; reflexivity]).
  constructor.
Qed.

Lemma ex40_stale_breaks_history_fresh :
  s_board ex40_st3 = ex40_root /\
  ~ history_fresh GT (s_history ex40_st3) 5 ex40_root /\
  (forall x, x < ply_clock_w ex40_root -> hget (s_history ex40_st3) x = 0).
Proof.
  split; [vm_compute; reflexivity|]. split.
  - intros H. apply (H 5%nat ex40_y5 119 ltac:(lia) ex40_y5_at_ply); vm_compute; reflexivity.
  - intros x Hx.
    assert (Hg : goodC (2 + 130) (s_board ex40_st1)) by (apply (good_c10b_spec GT); vm_compute; reflexivity).
    assert (Hc : RepetitionProofs.clock_ok (s_board ex40_st1)) by exact (good_clock goodC goodC_sane goodC_full _ _ Hg).
    assert (Hlen : (length (fst (go_full GT RepetitionProofs.ex_orc ex40_go_sm ex40_st1)) <= 2)%nat).
    { destruct goodC_family as (H1 & H2 & H3).
      exact (go_full_len GT goodC 129 H1 H2 H3 RepetitionProofs.ex_orc ex40_go_sm ex40_st1 2 eq_refl). }
    unfold ex40_st3.
    rewrite (go_history_below GT goodC 129 goodC_family RepetitionProofs.ex_orc ex40_go_sm ex40_st1 2 Hlen Hg Hc
               ltac:(vm_compute; reflexivity) x Hx).
    change (s_history ex40_st1) with (hset hempty (ply_clock_w ex40_root) (zobrist_hash GT ex40_root)).
    rewrite HistoryProofs.hget_hset. destruct (N.eqb_spec x (ply_clock_w ex40_root)) as [E|_]; [lia|reflexivity].
Qed.

(* ================================================================== *)
(* Part G: the definitions, as statements                                                                           *)
Lemma history_fresh_below_iff T h D root : history_fresh_below T h D root <->
  forall i y x, (1 <= i <= D)%nat -> Minimax.at_ply board (ChessGame.succs T) root i y ->
    x mod 2 = ply_clock_w y mod 2 -> x + 4 <= ply_clock_w y -> ply_clock_w y - half y mod 65536 <= x ->
    x < ply_clock_w root ->
    hget h x <> zobrist_hash T y.
Proof.
  unfold history_fresh_below. split; intros H i y x Hi Hy.
  - intros A B C. apply (H i y x Hi Hy). apply HistoryProofs.in_window_iff. auto.
  - intros Hw. apply HistoryProofs.in_window_iff in Hw as (A & B & C). now apply (H i y x Hi Hy).
Qed.

Lemma history_fresh_path_iff T h D root : history_fresh_path T h D root <->
  forall i y x, (1 <= i <= D)%nat -> Minimax.at_ply board (ChessGame.succs T) root i y ->
    x mod 2 = ply_clock_w y mod 2 -> x + 4 <= ply_clock_w y -> ply_clock_w y - half y mod 65536 <= x ->
    (forall j y', (j < i)%nat -> Minimax.at_ply board (ChessGame.succs T) root j y' -> ply_clock_w y' <> x) ->
    hget h x <> zobrist_hash T y.
Proof.
  unfold history_fresh_path. split; intros H i y x Hi Hy.
  - intros A B C. apply (H i y x Hi Hy). apply HistoryProofs.in_window_iff. auto.
  - intros Hw. apply HistoryProofs.in_window_iff in Hw as (A & B & C). now apply (H i y x Hi Hy).
Qed.

Lemma HIB_def T h0 D root i h : HIB T h0 D root i h <->
  forall x, (hget h x = hget h0 x /\
             forall j y', (j < i)%nat -> Minimax.at_ply board (ChessGame.succs T) root j y' -> ply_clock_w y' <> x) \/
            exists (j : nat) (y : board), (j <= D)%nat /\ Minimax.at_ply board (ChessGame.succs T) root j y /\ ply_clock_w y = x /\
                                          hget h x = zobrist_hash T y.
Proof. reflexivity. Qed.

Lemma searches_ok_nil T good Q root st : searches_ok T good Q root [] st <-> True.
Proof. reflexivity. Qed.

Lemma searches_ok_cons T good Q root c r st : searches_ok T good Q root (c :: r) st <->
  (match c with
   | CPosition _ _ => False
   | CGo g o => exists D, (length (fst (go_full T o g st)) <= D)%nat /\ good (D + S Q)%nat root /\
                          ply_clock_w root + N.of_nat D < 65536
   | _ => True
   end) /\ searches_ok T good Q root r (run_command T st c).
Proof. reflexivity. Qed.

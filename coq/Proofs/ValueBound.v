(* Proofs/ValueBound.v : every value the search hands upwards lies strictly between loss_score and win_score, and the
   consequence for C07: a go on a position with a legal root move announces a move (never `bestmove 0000`).

   Part 1  tables and static evaluation.   [eval_tables_bounded T] (boolean, discharged for the regenerated tables):
             material  64 * (Q+R+B+N+P) < 2^31                        (the u32 sum of piece_value is its own `as i32`)
             |entry| <= B := pst_abs_max T for every piece-square entry, 64*(Q+R+B+N+P) + 768*B < win_score
             |draw_score| + |contempt| < win_score,  win_score <= 2^30  (so a full-move number < 2*win_score is its own i32)
           On a wf board:  |evaluate b true| < win_score  (ongoing evaluation and the fifty-move draw);
           evaluate b false (mate `loss + fullmove` for BOTH colours in the mover's view, stalemate draw) lies in
           (loss, win) iff  1 <= full b < 2 * win_score   [terminal_range_iff]: this is the WEAKEST range hypothesis.
           (The sign of a mate score flips at full = win_score = 2^24 -- finding D17 --, but the value only leaves the open
           interval at 2 * win_score = 2^25.)
   Part 2  the walk (abstract C03 family, as in Proofs/SearchProofs.v): quiescence, negamax at any depth, with
             window a b := loss <= a < win /\ loss < b <= win          (the root call has a = loss, b = win)
             tt_ok       every stored vmove has its value in range (a store is always in range, a hit returns the vmove)
             contempt_ok |draw_score| + |s_contempt st| < win_score    (repetition leaf)
           [nm_loop_val] also yields: a legal move seen <-> a best move exists, best value in range.
   Part 3  the chess family  good_vb T n b := good_chess T n b /\ (130 <= n -> 1 <= full b /\ full b + (n - 130) < 2*win)
           (the capture search never produces a mate score, so only the D plies of main search count for the range):
           [negamax_value_bounded_T], [quiescence_value_bounded_T].
   Part 4  C07, abstract family: [nm_loop_up] (children below win_score suffice), the root of iteration 1 takes a move
           ([negamax1_root_some]) and is not interrupted, iterative deepening keeps a move ([best_move_some]),
           [go_full_announces]; the log of a go is never empty.
   Part 5  |gen_pseudo T b| <= 41218 on wf boards (crude), so iteration 1 never reaches a poll of period 100000.
   Part 6  C07 for chess: [good_up] (only the children of the root need `full < 2*win`), [C07_bestmove_exists_T],
           [C07_answer_T], instances for the regenerated tables.
   Part 7  every iteration result in the log of a go is in range ([go_values_in_range_T]); sessions keep the contempt
           factor; witnesses by computation that the range hypotheses are sharp. *)
Require Import Ink.Lib.Str.
Require Import NArith ZArith List Bool Lia Arith ZifyBool ZifyN.
Require Import Ink.Lib.Bits Ink.Model.Tables Ink.Model.Board Ink.Model.Fen Ink.Model.Notation Ink.Model.History.
Require Import Ink.Model.Heuristic Ink.Model.UciTx Ink.Model.Search.
Require Ink.Model.HashTable.
Require Import Ink.Proofs.HashTableProofs Ink.Proofs.AbsProofs Ink.Proofs.BitFacts Ink.Proofs.GenShape.
Require Import Ink.Proofs.LayoutProofs Ink.Proofs.MakeUnmake Ink.Proofs.Preserve.
Require Import Ink.Proofs.SearchProofs Ink.Proofs.RepetitionProofs Ink.Proofs.ChessInstance.
Require Ink.Proofs.EvalProofs.
Require Ink.Gen.Tables.
Import ListNotations.
Open Scope N_scope.

Arguments N.add : simpl never.
Arguments N.sub : simpl never.
Arguments N.mul : simpl never.
Arguments N.div : simpl never.
Arguments N.modulo : simpl never.
Arguments N.eqb : simpl never.
Arguments N.ltb : simpl never.
Arguments N.leb : simpl never.
Arguments N.pow : simpl never.
Arguments Z.add : simpl never.
Arguments Z.mul : simpl never.
Arguments Z.opp : simpl never.
Arguments Z.max : simpl never.
Arguments Z.min : simpl never.
Arguments Z.ltb : simpl never.
Arguments Z.leb : simpl never.
Arguments Z.abs : simpl never.

(* ================================================================================================================ *)
(* Part 1: tables and static evaluation                                                                              *)
(* ================================================================================================================ *)

Definition in_range (T : Tables.t) (v : Z) : Prop := (loss_score T < v < win_score T)%Z.

Definition pst_le (B : Z) (ts : list (list (list Z))) : bool :=
  forallb (fun stg => forallb (fun row => forallb (fun v => (Z.abs v <=? B)%Z) row) stg) ts.
Definition pst_fold (ts : list (list (list Z))) : Z :=
  fold_right (fun stg acc => fold_right (fun row acc1 => fold_right (fun v acc2 => Z.max (Z.abs v) acc2) acc1 row) acc stg) 0%Z ts.
(* the largest |entry| of the twelve * three piece-square tables *)
Definition pst_abs_max (T : Tables.t) : Z := Z.max (pst_fold (pst_white T)) (pst_fold (pst_black T)).
Definition vsum (T : Tables.t) : N := val_q T + val_r T + val_b T + val_n T + val_p T.

Definition eval_tables_bounded (T : Tables.t) : bool :=
  let B := pst_abs_max T in
  (64 * vsum T <? 2147483648) && (0 <=? B)%Z && pst_le B (pst_white T) && pst_le B (pst_black T)
  && (Z.of_N (64 * vsum T) + 768 * B <? win_score T)%Z
  && (Z.abs (draw_score T) + Z.abs (contempt T) <? win_score T)%Z
  && (win_score T <=? 1073741824)%Z.

Lemma etb_elim T : eval_tables_bounded T = true ->
  64 * vsum T < 2147483648 /\ (0 <= pst_abs_max T)%Z /\
  pst_le (pst_abs_max T) (pst_white T) = true /\ pst_le (pst_abs_max T) (pst_black T) = true /\
  (Z.of_N (64 * vsum T) + 768 * pst_abs_max T < win_score T)%Z /\
  (Z.abs (draw_score T) + Z.abs (contempt T) < win_score T)%Z /\ (win_score T <= 1073741824)%Z.
Proof.
  unfold eval_tables_bounded. cbv zeta. rewrite !andb_true_iff.
  intros ((((((A & B) & C) & D) & E) & F) & G).
  apply N.ltb_lt in A. apply Z.leb_le in B. apply Z.ltb_lt in E. apply Z.ltb_lt in F. apply Z.leb_le in G.
  repeat split; assumption.
Qed.

Lemma etb_win_pos T : eval_tables_bounded T = true -> (0 < win_score T)%Z.
Proof. intro H. destruct (etb_elim T H) as (_ & _ & _ & _ & _ & F & _). lia. Qed.

Lemma etb_iff T : eval_tables_bounded T = true <->
  64 * vsum T < 2147483648 /\ (0 <= pst_abs_max T)%Z /\
  pst_le (pst_abs_max T) (pst_white T) = true /\ pst_le (pst_abs_max T) (pst_black T) = true /\
  (Z.of_N (64 * vsum T) + 768 * pst_abs_max T < win_score T)%Z /\
  (Z.abs (draw_score T) + Z.abs (contempt T) < win_score T)%Z /\ (win_score T <= 1073741824)%Z.
Proof.
  split; [apply etb_elim|]. intros (A & B & C & D & E & F & G).
  unfold eval_tables_bounded. cbv zeta. rewrite !andb_true_iff.
  apply N.ltb_lt in A. apply Z.leb_le in B. apply Z.ltb_lt in E. apply Z.ltb_lt in F. apply Z.leb_le in G.
  repeat split; assumption.
Qed.

Lemma nthN_forallb {A} (P : A -> bool) l i d : forallb P l = true -> P d = true -> P (nthN l i d) = true.
Proof.
  unfold nthN. intros Hl Hd. destruct (nth_in_or_default (N.to_nat i) l d) as [H|H]; [|now rewrite H].
  exact (proj1 (forallb_forall _ _) Hl _ H).
Qed.

Lemma zsum_bound B l : (0 <= B)%Z -> (forall x, In x l -> (Z.abs x <= B)%Z) ->
  (Z.abs (EvalProofs.zsum l) <= Z.of_nat (length l) * B)%Z.
Proof.
  intros HB. induction l as [|x r IH]; intros H; cbn [EvalProofs.zsum length]; [lia|].
  rewrite Nat2Z.inj_succ, Z.mul_succ_l. specialize (IH (fun y Hy => H y (or_intror Hy))).
  pose proof (H x (or_introl eq_refl)). lia.
Qed.

Lemma bits_of_length_64 occ : occ < 2 ^ 64 -> (length (bits_of occ) <= 64)%nat.
Proof. intro Hocc. pose proof (popcount_le_64 occ Hocc) as H. rewrite popcount_length in H. lia. Qed.

Section Static.
Variable T : Tables.t.
Hypothesis HE : eval_tables_bounded T = true.
Local Notation B := (pst_abs_max T).
Local Notation W := (win_score T).

Lemma pss_bound occ row : occ < 2 ^ 64 -> forallb (fun v => (Z.abs v <=? B)%Z) row = true ->
  (Z.abs (piece_square_sum occ row) <= 64 * B)%Z.
Proof.
  intros Hocc Hrow. destruct (etb_elim T HE) as (_ & HB & _).
  rewrite EvalProofs.piece_square_sum_as_sum.
  pose proof (zsum_bound B (map (fun s => nthN row s 0%Z) (bits_of occ)) HB) as Hz.
  rewrite map_length in Hz. pose proof (bits_of_length_64 occ Hocc) as HL.
  assert (H1 : (Z.abs (EvalProofs.zsum (map (fun s => nthN row s 0%Z) (bits_of occ))) <= Z.of_nat (length (bits_of occ)) * B)%Z).
  { apply Hz. intros x Hx. apply in_map_iff in Hx as (s & <- & _). apply Z.leb_le.
    apply (nthN_forallb (fun v => (Z.abs v <=? B)%Z)); [exact Hrow|]. apply Z.leb_le. lia. }
  nia.
Qed.

Lemma player_bound p tables : bb_bounded p ->
  forallb (fun row => forallb (fun v => (Z.abs v <=? B)%Z) row) tables = true ->
  (Z.abs (piece_square_sum_for_player p tables) <= 384 * B)%Z.
Proof.
  intros (H1 & H2 & H3 & H4 & H5 & H6) Ht. unfold piece_square_sum_for_player.
  assert (R : forall k, forallb (fun v => (Z.abs v <=? B)%Z) (nthN tables k []) = true).
  { intros k. apply (nthN_forallb (fun row => forallb (fun v => (Z.abs v <=? B)%Z) row)); [exact Ht|reflexivity]. }
  pose proof (pss_bound (pawns p) _ H1 (R (PAWN - 1))). pose proof (pss_bound (knights p) _ H2 (R (KNIGHT - 1))).
  pose proof (pss_bound (bishops p) _ H3 (R (BISHOP - 1))). pose proof (pss_bound (rooks p) _ H4 (R (ROOK - 1))).
  pose proof (pss_bound (queens p) _ H5 (R (QUEEN - 1))). pose proof (pss_bound (kings p) _ H6 (R (KING - 1))). lia.
Qed.

Lemma piece_value_bound p : bb_bounded p -> (0 <= piece_value T p <= Z.of_N (64 * vsum T))%Z.
Proof.
  intros (H1 & H2 & H3 & H4 & H5 & H6). destruct (etb_elim T HE) as (A & _). unfold piece_value.
  pose proof (popcount_le_64 _ H1). pose proof (popcount_le_64 _ H2). pose proof (popcount_le_64 _ H3).
  pose proof (popcount_le_64 _ H4). pose proof (popcount_le_64 _ H5).
  set (n := popcount (queens p) * val_q T + popcount (rooks p) * val_r T + popcount (bishops p) * val_b T
            + popcount (knights p) * val_n T + popcount (pawns p) * val_p T).
  assert (Hn : n <= 64 * vsum T) by (unfold n, vsum; nia).
  rewrite EvalProofs.to_i32_small by (change (2 ^ 31) with 2147483648; lia). lia.
Qed.

(* the ongoing evaluation and the fifty-move draw *)
Lemma evaluate_true_abs b : wf b = true -> (Z.abs (evaluate T b true) < W)%Z.
Proof.
  intros Hwf. destruct (wf_elim b Hwf) as (Bw & Bb & _).
  destruct (etb_elim T HE) as (_ & HB & Pw & Pb & E & D & _).
  unfold evaluate. destruct (max_half_moves T <=? half b); [lia|].
  unfold evaluate_ongoing, piece_square_value. cbv zeta.
  pose proof (piece_value_bound _ Bw). pose proof (piece_value_bound _ Bb).
  assert (Sw : forallb (fun row => forallb (fun v => (Z.abs v <=? B)%Z) row) (nthN (pst_white T) (game_stage b) []) = true).
  { apply (nthN_forallb (fun stg => forallb (fun row => forallb (fun v => (Z.abs v <=? B)%Z) row) stg)); [exact Pw|reflexivity]. }
  assert (Sb : forallb (fun row => forallb (fun v => (Z.abs v <=? B)%Z) row) (nthN (pst_black T) (game_stage b) []) = true).
  { apply (nthN_forallb (fun stg => forallb (fun row => forallb (fun v => (Z.abs v <=? B)%Z) row) stg)); [exact Pb|reflexivity]. }
  pose proof (player_bound _ _ Bw Sw). pose proof (player_bound _ _ Bb Sb). lia.
Qed.

Lemma factor_cases b : turn b < 2 -> heuristic_factor (turn b) = 1%Z \/ heuristic_factor (turn b) = (-1)%Z.
Proof. intro Ht. unfold heuristic_factor. assert (turn b = 0 \/ turn b = 1) as [-> | ->] by lia; [left|right]; reflexivity. Qed.

Lemma static_true_range b : wf b = true -> in_range T (evaluate_for T (turn b) b true).
Proof.
  intro Hwf. pose proof (evaluate_true_abs b Hwf) as H. destruct (wf_elim b Hwf) as (_ & _ & Ht & _).
  unfold in_range, evaluate_for, loss_score. destruct (factor_cases b Ht) as [-> | ->]; lia.
Qed.

(* no legal move, mover's view: loss_score + (fullmove as i32) when in check (for BOTH colours), else +-draw_score *)
Lemma static_false_value b : turn b < 2 ->
  evaluate_for T (turn b) b false =
  if is_current_in_check T b then (loss_score T + to_i32 (full b))%Z else (heuristic_factor (turn b) * draw_score T)%Z.
Proof.
  intro Ht. unfold evaluate_for, evaluate, heuristic_factor, loss_score.
  destruct (is_current_in_check T b); [|reflexivity].
  assert (turn b = 0 \/ turn b = 1) as [-> | ->] by lia;
    change (0 =? WHITE) with true; change (1 =? WHITE) with false; change (1 =? BLACK) with true; cbv iota; lia.
Qed.

Lemma draw_abs : (Z.abs (draw_score T) < W)%Z.
Proof. destruct (etb_elim T HE) as (_ & _ & _ & _ & _ & D & _). lia. Qed.

Lemma static_false_range b : turn b < 2 -> 1 <= full b -> (Z.of_N (full b) < 2 * W)%Z ->
  in_range T (evaluate_for T (turn b) b false).
Proof.
  intros Ht H1 H2. destruct (etb_elim T HE) as (_ & _ & _ & _ & _ & _ & G). pose proof draw_abs as D.
  rewrite (static_false_value b Ht). unfold in_range, loss_score.
  destruct (is_current_in_check T b).
  - rewrite EvalProofs.to_i32_small by (change (2 ^ 31) with 2147483648; lia). lia.
  - destruct (factor_cases b Ht) as [-> | ->]; lia.
Qed.

(* the upper half alone does not need  1 <= full b *)
Lemma static_false_upper b : turn b < 2 -> (Z.of_N (full b) < 2 * W)%Z ->
  (evaluate_for T (turn b) b false < W)%Z.
Proof.
  intros Ht H2. destruct (etb_elim T HE) as (_ & _ & _ & _ & _ & _ & G). pose proof draw_abs as D.
  rewrite (static_false_value b Ht). unfold loss_score.
  destruct (is_current_in_check T b).
  - rewrite EvalProofs.to_i32_small by (change (2 ^ 31) with 2147483648; lia). lia.
  - destruct (factor_cases b Ht) as [-> | ->]; lia.
Qed.

(* ... and the range hypothesis is the weakest possible: for a mated side the value is in range IFF the full-move
   number (a u32) is in 1 .. 2*win_score - 1 *)
Lemma terminal_range_iff b : turn b < 2 -> full b < 4294967296 -> is_current_in_check T b = true ->
  (in_range T (evaluate_for T (turn b) b false) <-> 1 <= full b /\ (Z.of_N (full b) < 2 * W)%Z).
Proof.
  intros Ht Hu Hc. destruct (etb_elim T HE) as (_ & _ & _ & _ & _ & _ & G). pose proof (etb_win_pos T HE) as HW.
  rewrite (static_false_value b Ht), Hc. unfold in_range, loss_score, to_i32. cbv zeta.
  rewrite (N.mod_small (full b)) by exact Hu.
  destruct (N.ltb_spec (full b) 2147483648); lia.
Qed.

End Static.

(* ================================================================================================================ *)
(* Part 2: the walk                                                                                                   *)
(* ================================================================================================================ *)

(* the alpha-beta window of every call: alpha may sit ON loss_score and beta ON win_score (the root call), never
   beyond, and never on the other end *)
Definition window (T : Tables.t) (a b : Z) : Prop :=
  (loss_score T <= a < win_score T)%Z /\ (loss_score T < b <= win_score T)%Z.

(* every stored principal variation carries a value in range (a table hit returns the stored vmove itself) *)
Definition tt_ok (T : Tables.t) (t : HashTable.ht tt_entry) : Prop :=
  forall k e, HashTable.get tt_entry t k = Some e -> in_range T (vm_value (te_mv e)).

(* the repetition leaf: draw_score +- contempt factor *)
Definition contempt_ok (T : Tables.t) (st : sstate) : Prop :=
  (Z.abs (draw_score T) + Z.abs (s_contempt st) < win_score T)%Z.

Definition SOK (T : Tables.t) (st : sstate) : Prop := tt_ok T (s_tt st) /\ contempt_ok T st.

Lemma tt_ok_clear T t : tt_ok T (HashTable.clear tt_entry t).
Proof. intros k e. unfold HashTable.get, HashTable.clear. cbn. discriminate. Qed.

Lemma tt_ok_put T t k e : tt_ok T t -> in_range T (vm_value (te_mv e)) -> tt_ok T (tt_put t k e).
Proof. intros Ht He k' e' H. apply get_tt_put in H as [->|H]; [exact He|exact (Ht k' e' H)]. Qed.

Lemma SOK_frame T st st' : s_tt st' = s_tt st -> s_contempt st' = s_contempt st -> SOK T st -> SOK T st'.
Proof. intros H1 H2 [A B]. split; [rewrite H1; exact A|unfold contempt_ok; rewrite H2; exact B]. Qed.

Lemma window_neg T a b : (loss_score T <= a < win_score T)%Z -> (loss_score T < b <= win_score T)%Z -> window T (- b) (- a).
Proof. unfold window, loss_score. lia. Qed.

Lemma do_unmake_SOK T st m : SOK T st -> SOK T (do_unmake st m).
Proof.
  apply SOK_frame.
  - destruct (do_unmake_qframe st m) as (H & _). exact H.
  - destruct (do_unmake_hc st m) as (_ & H). exact H.
Qed.

Section Walk.
Variable T : Tables.t.
Variable good : nat -> board -> Prop.
Variable Q : nat.
Hypothesis inverse : forall n b m, good (S n) b -> In m (gen_pseudo T b) ->
  exists b', make b m = Some b' /\ unmake b' m = Some b /\ (is_valid T b' = true -> good n b').
Hypothesis good_mono : forall n b, good (S n) b -> good n b.
Hypothesis qfuel_bound : forall n b, good n b -> (qfuel b <= Q)%nat.
Hypothesis HW : (0 < win_score T)%Z.
(* the static evaluation with legal moves remaining: on every board of the family *)
Hypothesis st_true : forall n b, good n b -> in_range T (evaluate_for T (turn b) b true).

Lemma zero_in_range : in_range T 0.
Proof. unfold in_range, loss_score. lia. Qed.

(* ---------- the capture search ---------- *)
Lemma qs_loop_val (rec : Z -> Z -> N -> sstate -> vmove * sstate) n :
  (forall a b z st, good n (s_board st) -> ext st (snd (rec a b z st))) ->
  (forall a b z st, good n (s_board st) -> window T a b -> in_range T (vm_value (fst (rec a b z st)))) ->
  forall moves b, good (S n) b -> (forall m, In m moves -> In m (gen_pseudo T b)) ->
  forall beta zph alpha bm bc st, s_board st = b ->
  (loss_score T < beta <= win_score T)%Z -> in_range T alpha ->
  in_range T (vm_value (fst (qs_loop T rec moves beta zph alpha bm bc st))).
Proof.
  intros Hext Hval moves b Hgood. induction moves as [|mv rest IH]; intros Hin beta zph alpha bm bc st Hb Hbeta Halpha; cbn [qs_loop].
  - cbn [fst vm_value]. exact Halpha.
  - assert (Hmv : In mv (gen_pseudo T b)) by (apply Hin; now left).
    assert (Hrest : forall m, In m rest -> In m (gen_pseudo T b)) by (intros; apply Hin; now right).
    destruct (inverse n b mv Hgood Hmv) as (b1 & Hmk & Hun & Hg1).
    rewrite Hb, Hmk.
    destruct (is_valid T b1) eqn:Hv; cbn [negb].
    + set (st2 := set_q_nodes (set_board st b1) (s_q_nodes (set_board st b1) + 1)).
      assert (E2 : exists zpx st3, (match zobrist_xor T mv with Some (_, p) => (p, st2) | None => (0, set_panicked st2 true) end) = (zpx, st3)
                                   /\ s_board st3 = b1).
      { destruct (zobrist_xor T mv) as [[x p]|]; eexists; eexists; (split; reflexivity). }
      destruct E2 as (zpx & st3 & -> & B3).
      assert (G3 : good n (s_board st3)) by (rewrite B3; exact (Hg1 eq_refl)).
      pose proof (Hext (- beta)%Z (- alpha)%Z (N.lxor zph zpx) st3 G3) as E4.
      assert (Hwin : window T (- beta) (- alpha)) by (apply window_neg; [unfold in_range in Halpha; lia|exact Hbeta]).
      pose proof (Hval (- beta)%Z (- alpha)%Z (N.lxor zph zpx) st3 G3 Hwin) as V4.
      destruct (rec (- beta)%Z (- alpha)%Z (N.lxor zph zpx) st3) as [child st4]. cbn [fst snd] in E4, V4.
      destruct E4 as [B4 _].
      assert (Hun4 : unmake (s_board st4) mv = Some b) by (rewrite B4, B3; exact Hun).
      destruct (do_unmake_spec st4 mv b Hun4) as [B5 _].
      assert (Vn : in_range T (- vm_value child)) by (unfold in_range, loss_score in *; lia).
      destruct (beta <=? - vm_value child)%Z eqn:Ec.
      * cbn [fst vm_value]. apply Z.leb_le in Ec. unfold in_range in *. lia.
      * destruct (alpha <? - vm_value child)%Z; apply IH; assumption.
    + assert (Hun1 : unmake (s_board (set_board st b1)) mv = Some b) by exact Hun.
      destruct (do_unmake_spec (set_board st b1) mv b Hun1) as [B1 _].
      apply IH; assumption.
Qed.

Lemma quiescence_val fuel : forall alpha beta zph st, good fuel (s_board st) -> window T alpha beta ->
  in_range T (vm_value (fst (quiescence T fuel alpha beta zph st))).
Proof.
  induction fuel as [|k IH]; intros alpha beta zph st Hg Hw; cbn [quiescence].
  - cbn [fst leaf vm_value]. apply zero_in_range.
  - cbv zeta. pose proof (st_true _ _ Hg) as Hsp.
    destruct (beta <=? _)%Z eqn:Eb.
    + cbn [fst leaf vm_value]. apply Z.leb_le in Eb. unfold window, in_range in *. lia.
    + apply Z.leb_gt in Eb.
      apply (qs_loop_val (quiescence T k) k) with (b := s_board st).
      * intros a b z s Hs. apply (quiescence_ext T good inverse). exact Hs.
      * intros a b z s Hs Hwab. apply IH; assumption.
      * exact Hg.
      * intros m Hm. apply gen_nonquiet_incl. eapply sort_moves_in. exact Hm.
      * reflexivity.
      * destruct Hw as [_ Hb]. exact Hb.
      * unfold window, in_range in *. lia.
Qed.

Section WithOracle.
Variable orc : oracle.

(* ---------- the node prelude ---------- *)
Lemma poll_block_leaf0 st r : fst (poll_block T orc st) = Some r -> r = leaf 0.
Proof.
  unfold poll_block, generate_info, read_clock. cbv zeta.
  destruct (should_check_flags orc st); [|discriminate].
  unfold check_messages.
  destruct (abort_at orc) as [[n mode]|]; [destruct (n =? _); [destruct (mode =? 1)|]|]; cbv beta iota zeta; sproj;
  try (destruct (g_movetime _) as [mt|]; [destruct (mt <? _)|]); cbn [fst snd]; try discriminate; intros [= <-]; reflexivity.
Qed.

Lemma tt_probe_val st zh rd a b : window T a b -> tt_ok T (s_tt st) ->
  match tt_probe st zh rd a b with
  | inl r => in_range T (vm_value r)
  | inr (a', b', _) => window T a' b'
  end.
Proof.
  intros Hw Ht. unfold tt_probe. destruct (HashTable.get tt_entry (s_tt st) zh) as [e|] eqn:Eg; [|exact Hw].
  specialize (Ht zh e Eg). destruct (rd <=? te_depth e); [|exact Hw].
  destruct (te_type e); [exact Ht| |].
  - destruct (b <=? Z.max a (te_value e))%Z eqn:Ec; [exact Ht|]. apply Z.leb_gt in Ec. unfold window in *. lia.
  - destruct (Z.min b (te_value e) <=? a)%Z eqn:Ec; [exact Ht|]. apply Z.leb_gt in Ec. unfold window in *. lia.
Qed.

Lemma node_prelude_val ply rd a0 b0 zh st : window T a0 b0 -> SOK T st ->
  let r := node_prelude T orc ply rd a0 b0 zh st in
  SOK T (snd r) /\
  match fst r with PreReturn v => in_range T (vm_value v) | PreGo alpha beta _ _ => window T alpha beta end.
Proof.
  intros Hw Hsok. cbv zeta. split.
  - pose proof (node_prelude_spec2 T orc ply rd a0 b0 zh st) as (Ht & _).
    pose proof (node_prelude_hist T orc ply rd a0 b0 zh st) as (Hc & _).
    cbv zeta in Ht, Hc. revert Hsok. apply SOK_frame; assumption.
  - destruct Hsok as [Htt Hct]. unfold node_prelude.
    pose proof (poll_block_leaf0 st) as Hl. pose proof (poll_block_frame2 T orc st) as (Ht1 & _).
    pose proof (poll_block_hc T orc st) as [_ Hc1].
    destruct (poll_block T orc st) as [[r|] st1]; cbn [fst snd] in *.
    + rewrite (Hl r eq_refl). cbn [leaf vm_value]. apply zero_in_range.
    + cbv zeta. sproj. destruct (visit _ _ _ _ _) as [h' rep]. destruct rep.
      * cbn [fst leaf vm_value]. sproj. rewrite Hc1. unfold contempt_ok in Hct. unfold in_range, loss_score.
        destruct (N.even ply); lia.
      * match goal with |- context [tt_probe ?s zh rd a0 b0] =>
          pose proof (tt_probe_val s zh rd a0 b0 Hw) as Hp; destruct (tt_probe s zh rd a0 b0) as [r|[[alpha beta] ttm]] end.
        -- cbn [fst]. apply Hp. sproj. rewrite Ht1. exact Htt.
        -- destruct ((ply =? 0) && is_nil _); cbn [fst].
           ++ cbn [leaf vm_value]. apply zero_in_range.
           ++ apply Hp. sproj. rewrite Ht1. exact Htt.
Qed.

(* ---------- the horizon node: everything but the no-legal-move evaluation is in range ---------- *)
Lemma leaf_node_val color alpha beta zph buffer st :
  good (S Q) (s_board st) -> (forall m, In m buffer -> In m (gen_pseudo T (s_board st))) ->
  color = turn (s_board st) -> window T alpha beta ->
  in_range T (vm_value (fst (leaf_node T color alpha beta zph buffer st))) \/
  vm_value (fst (leaf_node T color alpha beta zph buffer st)) = evaluate_for T color (s_board st) false.
Proof.
  intros Hg Hin Hcol Hw. unfold leaf_node.
  assert (Hg1 : good 1 (s_board st)) by (eapply (good_le good good_mono); [|exact Hg]; lia).
  pose proof (any_move_legal_ext T good inverse buffer (s_board st) Hg1 Hin st eq_refl) as [B1 _].
  destruct (any_move_legal T buffer st) as [legal st1]. cbn [snd] in B1.
  destruct legal; cbn [andb].
  - left. destruct (is_any_move_non_quiescent buffer).
    + apply quiescence_val; [|exact Hw]. rewrite B1.
      eapply (good_le good good_mono); [|exact Hg]. pose proof (qfuel_bound _ _ Hg). lia.
    + cbn [fst leaf vm_value]. rewrite B1, Hcol. apply (st_true _ _ Hg).
  - right. cbn [fst leaf vm_value]. rewrite B1. reflexivity.
Qed.

Lemma leaf_node_SOK color alpha beta zph buffer st : SOK T st -> SOK T (snd (leaf_node T color alpha beta zph buffer st)).
Proof.
  apply SOK_frame.
  - destruct (leaf_node_qframe T color alpha beta zph buffer st) as (H & _). exact H.
  - destruct (leaf_node_hc T color alpha beta zph buffer st) as (_ & H). exact H.
Qed.

(* ---------- the move loop ---------- *)
(* what the loop knows when it ends: no legal move seen <-> best value still loss_score, no move, every move illegal;
   a legal move seen -> best value in range AND a best move *)
Definition loop_post (b : board) (moves : list move) (lg : bool) (r : loop_res) : Prop :=
  match r with
  | LReturn v => in_range T (vm_value v)
  | LDone bv' bm' _ lg' =>
      (lg' = false -> bv' = loss_score T /\ lg = false /\ forall m, In m moves -> is_move_legal T b m = false) /\
      (lg' = true -> in_range T bv' /\ bm' <> None)
  end.

Lemma loop_post_cons_legal b mv rest lg r : loop_post b rest true r -> loop_post b (mv :: rest) lg r.
Proof.
  destruct r as [v|bv' bm' bc' lg']; cbn [loop_post]; [tauto|]. intros [P1 P2]. split; [|exact P2].
  intro E. destruct (P1 E) as (_ & X & _). discriminate.
Qed.

Lemma loop_post_cons_illegal b mv rest lg r : is_move_legal T b mv = false -> loop_post b rest lg r -> loop_post b (mv :: rest) lg r.
Proof.
  intro Hil. destruct r as [v|bv' bm' bc' lg']; cbn [loop_post]; [tauto|]. intros [P1 P2]. split; [|exact P2].
  intro E. destruct (P1 E) as (X1 & X2 & X3). split; [exact X1|split; [exact X2|]].
  intros m [<-|Hm]; [exact Hil|exact (X3 m Hm)].
Qed.

Lemma nm_loop_val (rec : Z -> Z -> bool -> N -> N -> sstate -> vmove * sstate) n :
  (forall a b pv z zp st, good n (s_board st) -> ext st (snd (rec a b pv z zp st))) ->
  (forall a b pv z zp st, good n (s_board st) -> window T a b -> SOK T st ->
     in_range T (vm_value (fst (rec a b pv z zp st))) /\ SOK T (snd (rec a b pv z zp st))) ->
  forall moves b, good (S n) b -> (forall m, In m moves -> In m (gen_pseudo T b)) ->
  forall ispv pvm zh zph rd beta alpha bv bm bc lg st, s_board st = b -> SOK T st ->
  (loss_score T <= alpha < win_score T)%Z -> (loss_score T < beta <= win_score T)%Z ->
  (lg = false -> bv = loss_score T) -> (lg = true -> in_range T bv /\ bm <> None) ->
  SOK T (snd (nm_loop T rec moves ispv pvm zh zph rd beta alpha bv bm bc lg st)) /\
  loop_post b moves lg (fst (nm_loop T rec moves ispv pvm zh zph rd beta alpha bv bm bc lg st)).
Proof.
  intros Hext Hval moves b Hgood.
  induction moves as [|mv rest IH]; intros Hin ispv pvm zh zph rd beta alpha bv bm bc lg st Hb Hsok Ha Hbe Hlf Hlt; cbn [nm_loop].
  - cbn [fst snd loop_post]. split; [exact Hsok|]. split; [|exact Hlt].
    intro E. split; [exact (Hlf E)|split; [exact E|intros m []]].
  - assert (Hmv : In mv (gen_pseudo T b)) by (apply Hin; now left).
    assert (Hrest : forall m, In m rest -> In m (gen_pseudo T b)) by (intros; apply Hin; now right).
    destruct (inverse n b mv Hgood Hmv) as (b1 & Hmk & Hun & Hg1).
    rewrite Hb, Hmk.
    destruct (is_valid T b1) eqn:Hv; cbn [negb].
    + assert (E2 : exists zx zpx st2, (match zobrist_xor T mv with Some (x, p) => (x, p, set_board st b1) | None => (0, 0, set_panicked (set_board st b1) true) end) = (zx, zpx, st2)
                                   /\ s_board st2 = b1 /\ s_tt st2 = s_tt st /\ s_contempt st2 = s_contempt st).
      { destruct (zobrist_xor T mv) as [[x p]|]; do 3 eexists; (split; [reflexivity|repeat split]). }
      destruct E2 as (zx & zpx & st2 & -> & B2 & T2 & C2).
      assert (G2 : good n (s_board st2)) by (rewrite B2; exact (Hg1 eq_refl)).
      assert (S2 : SOK T st2) by (revert Hsok; apply SOK_frame; assumption).
      assert (Hwin : window T (- beta) (- alpha)) by (apply window_neg; assumption).
      pose proof (Hext (- beta)%Z (- alpha)%Z (ispv && opt_move_eqb pvm mv) (N.lxor zh zx) (N.lxor zph zpx) st2 G2) as E3.
      pose proof (Hval (- beta)%Z (- alpha)%Z (ispv && opt_move_eqb pvm mv) (N.lxor zh zx) (N.lxor zph zpx) st2 G2 Hwin S2) as V3.
      destruct (rec (- beta)%Z (- alpha)%Z (ispv && opt_move_eqb pvm mv) (N.lxor zh zx) (N.lxor zph zpx) st2) as [child st3].
      cbn [fst snd] in E3, V3. destruct E3 as [B3 _]. destruct V3 as [V3 S3].
      assert (Hun3 : unmake (s_board st3) mv = Some b) by (rewrite B3, B2; exact Hun).
      destruct (do_unmake_spec st3 mv b Hun3) as [B4 _].
      pose proof (do_unmake_SOK T st3 mv S3) as S4.
      assert (Vn : in_range T (- vm_value child)) by (unfold in_range, loss_score in *; lia).
      destruct (s_stop st3); [cbn [fst snd loop_post vm_value]; split; [exact S4|apply zero_in_range]|].
      destruct (bv <? - vm_value child)%Z eqn:Eb; cbv zeta iota beta.
      * destruct (beta <=? _)%Z eqn:Ec.
        -- cbn [fst snd loop_post]. split; [revert S4; apply SOK_frame; reflexivity|].
           split; [discriminate|]. intros _. split; [exact Vn|discriminate].
        -- apply Z.leb_gt in Ec.
           destruct (IH Hrest ispv pvm zh zph rd beta (Z.max alpha (- vm_value child)) (- vm_value child)%Z (Some mv) (Some child) true
                        (do_unmake st3 mv) B4 S4) as [I1 I2].
           ++ unfold in_range in Vn. lia.
           ++ exact Hbe.
           ++ discriminate.
           ++ intros _. split; [exact Vn|discriminate].
           ++ split; [exact I1|]. apply loop_post_cons_legal. exact I2.
      * apply Z.ltb_ge in Eb.
        assert (Hlt' : in_range T bv /\ bm <> None).
        { destruct lg; [apply Hlt; reflexivity|]. exfalso. rewrite (Hlf eq_refl) in Eb. unfold in_range in Vn. lia. }
        destruct (beta <=? _)%Z eqn:Ec.
        -- cbn [fst snd loop_post]. split; [revert S4; apply SOK_frame; reflexivity|].
           split; [discriminate|]. intros _. exact Hlt'.
        -- apply Z.leb_gt in Ec.
           destruct (IH Hrest ispv pvm zh zph rd beta (Z.max alpha bv) bv bm bc true (do_unmake st3 mv) B4 S4) as [I1 I2].
           ++ destruct Hlt' as [Hr _]. unfold in_range in Hr. lia.
           ++ exact Hbe.
           ++ discriminate.
           ++ intros _. exact Hlt'.
           ++ split; [exact I1|]. apply loop_post_cons_legal. exact I2.
    + assert (Hun1 : unmake (s_board (set_board st b1)) mv = Some b) by exact Hun.
      destruct (do_unmake_spec (set_board st b1) mv b Hun1) as [B1 _].
      assert (S1 : SOK T (do_unmake (set_board st b1) mv)).
      { apply do_unmake_SOK. revert Hsok. apply SOK_frame; reflexivity. }
      destruct (IH Hrest ispv pvm zh zph rd beta alpha bv bm bc lg (do_unmake (set_board st b1) mv) B1 S1 Ha Hbe Hlf Hlt) as [I1 I2].
      split; [exact I1|]. apply loop_post_cons_illegal; [|exact I2].
      unfold is_move_legal. rewrite Hmk. exact Hv.
Qed.

Lemma interior_node_val rec n :
  (forall a b pv z zp st, good n (s_board st) -> ext st (snd (rec a b pv z zp st))) ->
  (forall a b pv z zp st, good n (s_board st) -> window T a b -> SOK T st ->
     in_range T (vm_value (fst (rec a b pv z zp st))) /\ SOK T (snd (rec a b pv z zp st))) ->
  forall color ply rd a0 ispv zh zph alpha beta ttm buffer st,
  good (S n) (s_board st) -> (forall m, In m buffer -> In m (gen_pseudo T (s_board st))) ->
  SOK T st -> window T alpha beta -> in_range T (evaluate_for T color (s_board st) false) ->
  in_range T (vm_value (fst (interior_node T rec color ply rd a0 ispv zh zph alpha beta ttm buffer st))) /\
  SOK T (snd (interior_node T rec color ply rd a0 ispv zh zph alpha beta ttm buffer st)).
Proof.
  intros Hext Hval color ply rd a0 ispv zh zph alpha beta ttm buffer st Hg Hin Hsok [Ha Hb] Hterm.
  unfold interior_node. cbv zeta.
  match goal with |- context [nm_loop T rec ?mv ?a ?b ?c ?d ?e ?f ?g ?h ?i ?j ?k st] =>
    assert (Hin' : forall m, In m mv -> In m (gen_pseudo T (s_board st))) by (intros m Hm; apply Hin; eapply sort_moves_in; exact Hm);
    pose proof (nm_loop_val rec n Hext Hval mv (s_board st) Hg Hin' a b c d e f g h i j k st eq_refl Hsok Ha Hb) as HL;
    pose proof (nm_loop_ext T good inverse rec n (fun _ => True) Hext mv (s_board st) Hg
                  (fun m Hm => conj (Hin' m Hm) I) a b c d e f g h i j k st eq_refl I) as [[B4 _] _];
    destruct (nm_loop T rec mv a b c d e f g h i j k st) as [[r|bv bm bc lg] st4] end;
  cbn [fst snd] in HL, B4; (destruct HL as [S4 P4]; [reflexivity|discriminate|]); cbn [loop_post] in P4.
  - cbn [fst snd]. split; assumption.
  - destruct lg; cbn [negb].
    + destruct P4 as [_ P4]. destruct (P4 eq_refl) as [Vb _].
      destruct (negb (is_checkmate T bv)); cbn [fst snd vm_value]; (split; [exact Vb|]); [|exact S4].
      destruct S4 as [A4 C4]. split; [|exact C4]. sproj. apply tt_ok_put; [exact A4|exact Vb].
    + cbn [fst snd leaf vm_value]. rewrite B4. split; assumption.
Qed.

(* depth 0: the value is in range, or it is the no-legal-move evaluation of the node's own board *)
Lemma negamax0_val_or ply a0 b0 ispv zh zph st :
  good (S Q) (s_board st) -> window T a0 b0 -> SOK T st ->
  (in_range T (vm_value (fst (negamax T orc 0 ply a0 b0 ispv zh zph st))) \/
   vm_value (fst (negamax T orc 0 ply a0 b0 ispv zh zph st)) = evaluate_for T (turn (s_board st)) (s_board st) false) /\
  SOK T (snd (negamax T orc 0 ply a0 b0 ispv zh zph st)).
Proof.
  intros Hg Hw Hsok. cbn [negamax]. cbv zeta.
  pose proof (node_prelude_ext T orc ply (N.of_nat 0) a0 b0 zh st) as [[B3 _] Hbuf].
  pose proof (node_prelude_val ply (N.of_nat 0) a0 b0 zh st Hw Hsok) as [S3 V3].
  destruct (node_prelude T orc ply (N.of_nat 0) a0 b0 zh st) as [[r|alpha beta ttm buffer] st3]; cbn [fst snd] in *.
  - split; [left; exact V3|exact S3].
  - split; [|apply leaf_node_SOK; exact S3].
    rewrite <- B3. apply leaf_node_val.
    + rewrite B3. exact Hg.
    + rewrite B3. eapply Hbuf. reflexivity.
    + rewrite B3. reflexivity.
    + exact V3.
Qed.

(* the no-legal-move evaluation (mate score / stalemate) on the boards of the main search *)
Hypothesis st_false : forall n b, good (n + S Q) b -> in_range T (evaluate_for T (turn b) b false).

Theorem negamax_val d : forall ply a0 b0 ispv zh zph st, good (d + S Q) (s_board st) -> window T a0 b0 -> SOK T st ->
  in_range T (vm_value (fst (negamax T orc d ply a0 b0 ispv zh zph st))) /\
  SOK T (snd (negamax T orc d ply a0 b0 ispv zh zph st)).
Proof.
  induction d as [|d' IH]; intros ply a0 b0 ispv zh zph st Hg Hw Hsok.
  - destruct (negamax0_val_or ply a0 b0 ispv zh zph st Hg Hw Hsok) as [[V|V] S0]; (split; [|exact S0]); [exact V|].
    rewrite V. apply (st_false 0). exact Hg.
  - cbn [negamax]. cbv zeta.
    pose proof (node_prelude_ext T orc ply (N.of_nat (S d')) a0 b0 zh st) as [[B3 _] Hbuf].
    pose proof (node_prelude_val ply (N.of_nat (S d')) a0 b0 zh st Hw Hsok) as [S3 V3].
    destruct (node_prelude T orc ply (N.of_nat (S d')) a0 b0 zh st) as [[r|alpha beta ttm buffer] st3]; cbn [fst snd] in *.
    + split; assumption.
    + apply (interior_node_val (negamax T orc d' (ply + 1)) (d' + S Q)%nat).
      * intros a b pv z zp s Hs. apply (negamax_ext T good Q inverse good_mono qfuel_bound). exact Hs.
      * intros a b pv z zp s Hs Hwab Hss. apply IH; assumption.
      * rewrite B3. exact Hg.
      * rewrite B3. eapply Hbuf. reflexivity.
      * exact S3.
      * exact V3.
      * rewrite B3. apply (st_false (S d')). exact Hg.
Qed.

End WithOracle.
End Walk.

(* ================================================================================================================ *)
(* Part 3: the chess family                                                                                          *)
(* ================================================================================================================ *)

(* good_chess plus the full-move range.  The index n counts plies still to come: D of main search + 130; mate scores are
   only produced by the main search, so the range hypothesis only has to cover the plies above 130. *)
Definition good_vb (T : Tables.t) (n : nat) (b : board) : Prop :=
  good_chess T n b /\
  ((130 <= n)%nat -> 1 <= full b /\ (Z.of_N (full b) + Z.of_nat (n - 130) < 2 * win_score T)%Z).

Section ChessVB.
Variable T : Tables.t.
Hypothesis HT : tables_chess_ok T = true.
Hypothesis HE : eval_tables_bounded T = true.

Lemma good_vb_family : C03_family T (good_vb T) 129.
Proof.
  destruct (chess_C03_family T HT) as (F1 & F2 & F3). split; [|split].
  - intros n b m [Hg Hf] Hin. destruct (F1 n b m Hg Hin) as (b' & Hmk & Hun & Hg'). exists b'.
    split; [exact Hmk|split; [exact Hun|]]. intro Hv. split; [exact (Hg' Hv)|]. intro Hn.
    assert (Hn' : (130 <= S n)%nat) by lia. destruct (Hf Hn') as [H1 H2].
    destruct (make_fields b m b' Hmk) as (_ & Ef & _). destruct Hg as (Hwf & _).
    destruct (wf_elim b Hwf) as (_ & _ & Ht & _). rewrite Ef. split; lia.
  - intros n b [Hg Hf]. split; [exact (F2 n b Hg)|]. intro Hn.
    assert (Hn' : (130 <= S n)%nat) by lia. destruct (Hf Hn') as [H1 H2]. split; lia.
  - intros n b [Hg _]. exact (F3 n b Hg).
Qed.

Lemma good_vb_true n b : good_vb T n b -> in_range T (evaluate_for T (turn b) b true).
Proof. intros [(Hwf & _) _]. apply static_true_range; assumption. Qed.

Lemma good_vb_false n b : good_vb T (n + 130) b -> in_range T (evaluate_for T (turn b) b false).
Proof.
  intros [(Hwf & _) Hf]. destruct (wf_elim b Hwf) as (_ & _ & Ht & _).
  assert (Hn : (130 <= n + 130)%nat) by lia. destruct (Hf Hn) as [H1 H2].
  apply static_false_range; [exact HE|exact Ht|exact H1|lia].
Qed.

Lemma good_vb_intro d b : good_chess T (d + 130) b -> 1 <= full b -> (Z.of_N (full b) + Z.of_nat d < 2 * win_score T)%Z ->
  good_vb T (d + 130) b.
Proof. intros Hg H1 H2. split; [exact Hg|]. intros _. split; [exact H1|]. replace (d + 130 - 130)%nat with d by lia. exact H2. Qed.

Lemma good_chess_true n b : good_chess T n b -> in_range T (evaluate_for T (turn b) b true).
Proof. intros (Hwf & _). apply static_true_range; assumption. Qed.

(* the value bound, negamax at any depth: D = d plies of main search *)
Theorem negamax_value_bounded_T orc d ply a0 b0 ispv zh zph st :
  good_chess T (d + 130) (s_board st) ->
  1 <= full (s_board st) -> (Z.of_N (full (s_board st)) + Z.of_nat d < 2 * win_score T)%Z ->
  window T a0 b0 -> tt_ok T (s_tt st) -> contempt_ok T st ->
  in_range T (vm_value (fst (negamax T orc d ply a0 b0 ispv zh zph st))) /\
  tt_ok T (s_tt (snd (negamax T orc d ply a0 b0 ispv zh zph st))) /\
  contempt_ok T (snd (negamax T orc d ply a0 b0 ispv zh zph st)).
Proof.
  intros Hg H1 H2 Hw Ht Hc. destruct good_vb_family as (F1 & F2 & F3).
  destruct (negamax_val T (good_vb T) 129 F1 F2 F3 (etb_win_pos T HE) good_vb_true orc good_vb_false
              d ply a0 b0 ispv zh zph st) as [V [S1 S2]].
  - apply good_vb_intro; assumption.
  - exact Hw.
  - split; assumption.
  - split; [exact V|split; [exact S1|exact S2]].
Qed.

(* the capture search: no range hypothesis on the full-move number at all *)
Theorem quiescence_value_bounded_T fuel alpha beta zph st :
  good_chess T fuel (s_board st) -> window T alpha beta ->
  in_range T (vm_value (fst (quiescence T fuel alpha beta zph st))).
Proof.
  intros Hg Hw. destruct (chess_C03_family T HT) as (F1 & F2 & F3).
  exact (quiescence_val T (good_chess T) 129 F1 F2 F3 (etb_win_pos T HE) good_chess_true fuel alpha beta zph st Hg Hw).
Qed.

End ChessVB.

(* ================================================================================================================ *)
(* Part 4: C07 -- a legal root move is answered by a move                                                            *)
(* ================================================================================================================ *)

Lemma insert_desc_in key x l m : m = x \/ In m l -> In m (insert_desc key x l).
Proof.
  induction l as [|y r IH]; cbn [insert_desc]; [intros [->|[]]; now left|].
  destruct (key x <? key y)%Z.
  - intros [->|[->|H]]; [right; apply IH; now left|now left|right; apply IH; now right].
  - intros [->|H]; [now left|now right].
Qed.

Lemma sort_moves_in_rev l pv tt k m : In m l -> In m (sort_moves l pv tt k).
Proof.
  unfold sort_moves. generalize (order_key pv tt k). intro key.
  induction l as [|x r IH]; cbn [fold_right]; [tauto|].
  intros [->|H]; apply insert_desc_in; [now left|right; auto].
Qed.

(* the loop only returns early with the stop flag raised *)
Lemma nm_loop_return_stop T (rec : Z -> Z -> bool -> N -> N -> sstate -> vmove * sstate) :
  forall moves ispv pvm zh zph rd beta alpha bv bm bc lg st r,
  fst (nm_loop T rec moves ispv pvm zh zph rd beta alpha bv bm bc lg st) = LReturn r ->
  s_stop (snd (nm_loop T rec moves ispv pvm zh zph rd beta alpha bv bm bc lg st)) = true.
Proof.
  induction moves as [|mv rest IH]; intros ispv pvm zh zph rd beta alpha bv bm bc lg st r; cbn [nm_loop]; [discriminate|].
  destruct (make (s_board st) mv) as [b1|]; [|apply IH].
  destruct (is_valid T b1); cbn [negb]; [|apply IH].
  destruct (zobrist_xor T mv) as [[x p]|]; cbv beta iota zeta;
  (match goal with |- context [rec ?a ?b ?c ?d ?e ?f] => destruct (rec a b c d e f) as [child st3] end);
  (destruct (s_stop st3) eqn:Es;
   [intros _; cbn [snd]; destruct (do_unmake_qframe st3 mv) as (_ & _ & S & _); rewrite S; exact Es|]);
  (destruct (bv <? _)%Z; cbv zeta iota beta; (destruct (beta <=? _)%Z; [discriminate|apply IH])).
Qed.

Section C07.
Variable T : Tables.t.
Variable good : nat -> board -> Prop.
Variable Q : nat.
Hypothesis inverse : forall n b m, good (S n) b -> In m (gen_pseudo T b) ->
  exists b', make b m = Some b' /\ unmake b' m = Some b /\ (is_valid T b' = true -> good n b').
Hypothesis good_mono : forall n b, good (S n) b -> good n b.
Hypothesis qfuel_bound : forall n b, good n b -> (qfuel b <= Q)%nat.
Hypothesis HW : (0 < win_score T)%Z.
Hypothesis st_true : forall n b, good n b -> in_range T (evaluate_for T (turn b) b true).
(* only the UPPER half of the range is needed for the children of the root *)
Hypothesis st_false_up : forall b, good (S Q) b -> (evaluate_for T (turn b) b false < win_score T)%Z.

(* one-sided variant of [nm_loop_val]: children below win_score are enough for "a legal move seen -> a best move" *)
Lemma nm_loop_up (rec : Z -> Z -> bool -> N -> N -> sstate -> vmove * sstate) n :
  (forall a b pv z zp st, good n (s_board st) -> ext st (snd (rec a b pv z zp st))) ->
  (forall a b pv z zp st, good n (s_board st) -> window T a b -> SOK T st ->
     (vm_value (fst (rec a b pv z zp st)) < win_score T)%Z /\ SOK T (snd (rec a b pv z zp st))) ->
  forall moves b, good (S n) b -> (forall m, In m moves -> In m (gen_pseudo T b)) ->
  forall ispv pvm zh zph rd beta alpha bv bm bc lg st, s_board st = b -> SOK T st ->
  (loss_score T <= alpha < beta)%Z -> (beta <= win_score T)%Z ->
  (lg = false -> bv = loss_score T) -> (lg = true -> bm <> None) ->
  match fst (nm_loop T rec moves ispv pvm zh zph rd beta alpha bv bm bc lg st) with
  | LReturn _ => True
  | LDone _ bm' _ lg' =>
      (lg' = false -> lg = false /\ forall m, In m moves -> is_move_legal T b m = false) /\ (lg' = true -> bm' <> None)
  end.
Proof.
  intros Hext Hval moves b Hgood.
  induction moves as [|mv rest IH]; intros Hin ispv pvm zh zph rd beta alpha bv bm bc lg st Hb Hsok Ha Hbe Hlf Hlt; cbn [nm_loop].
  - cbn [fst]. split; [|exact Hlt]. intro E. split; [exact E|intros m []].
  - assert (Hmv : In mv (gen_pseudo T b)) by (apply Hin; now left).
    assert (Hrest : forall m, In m rest -> In m (gen_pseudo T b)) by (intros; apply Hin; now right).
    destruct (inverse n b mv Hgood Hmv) as (b1 & Hmk & Hun & Hg1).
    rewrite Hb, Hmk.
    destruct (is_valid T b1) eqn:Hv; cbn [negb].
    + assert (E2 : exists zx zpx st2, (match zobrist_xor T mv with Some (x, p) => (x, p, set_board st b1) | None => (0, 0, set_panicked (set_board st b1) true) end) = (zx, zpx, st2)
                                   /\ s_board st2 = b1 /\ s_tt st2 = s_tt st /\ s_contempt st2 = s_contempt st).
      { destruct (zobrist_xor T mv) as [[x p]|]; do 3 eexists; (split; [reflexivity|repeat split]). }
      destruct E2 as (zx & zpx & st2 & -> & B2 & T2 & C2).
      assert (G2 : good n (s_board st2)) by (rewrite B2; exact (Hg1 eq_refl)).
      assert (S2 : SOK T st2) by (revert Hsok; apply SOK_frame; assumption).
      assert (Hwin : window T (- beta) (- alpha)) by (unfold window, loss_score in *; lia).
      pose proof (Hext (- beta)%Z (- alpha)%Z (ispv && opt_move_eqb pvm mv) (N.lxor zh zx) (N.lxor zph zpx) st2 G2) as E3.
      pose proof (Hval (- beta)%Z (- alpha)%Z (ispv && opt_move_eqb pvm mv) (N.lxor zh zx) (N.lxor zph zpx) st2 G2 Hwin S2) as V3.
      destruct (rec (- beta)%Z (- alpha)%Z (ispv && opt_move_eqb pvm mv) (N.lxor zh zx) (N.lxor zph zpx) st2) as [child st3].
      cbn [fst snd] in E3, V3. destruct E3 as [B3 _]. destruct V3 as [V3 S3].
      assert (Hun3 : unmake (s_board st3) mv = Some b) by (rewrite B3, B2; exact Hun).
      destruct (do_unmake_spec st3 mv b Hun3) as [B4 _].
      pose proof (do_unmake_SOK T st3 mv S3) as S4.
      destruct (s_stop st3); [cbn [fst]; exact I|].
      destruct (bv <? - vm_value child)%Z eqn:Eb; cbv zeta iota beta.
      * destruct (beta <=? _)%Z eqn:Ec.
        -- cbn [fst]. split; [discriminate|]. intros _. discriminate.
        -- apply Z.leb_gt in Ec.
           pose proof (IH Hrest ispv pvm zh zph rd beta (Z.max alpha (- vm_value child)) (- vm_value child)%Z (Some mv) (Some child) true
                        (do_unmake st3 mv) B4 S4) as I2.
           match type of I2 with _ -> _ -> _ -> _ -> match fst ?r with _ => _ end => destruct (fst r) as [v|bv' bm' bc' lg'] end; [exact I|].
           destruct I2 as [P1 P2]; [lia|exact Hbe|discriminate|intros _; discriminate|].
           split; [|exact P2]. intro E. destruct (P1 E) as [X _]. discriminate.
      * apply Z.ltb_ge in Eb.
        assert (Hbm : bm <> None).
        { destruct lg; [apply Hlt; reflexivity|]. exfalso. rewrite (Hlf eq_refl) in Eb. unfold loss_score in *. lia. }
        destruct (beta <=? _)%Z eqn:Ec.
        -- cbn [fst]. split; [discriminate|]. intros _. exact Hbm.
        -- apply Z.leb_gt in Ec.
           pose proof (IH Hrest ispv pvm zh zph rd beta (Z.max alpha bv) bv bm bc true (do_unmake st3 mv) B4 S4) as I2.
           match type of I2 with _ -> _ -> _ -> _ -> match fst ?r with _ => _ end => destruct (fst r) as [v|bv' bm' bc' lg'] end; [exact I|].
           destruct I2 as [P1 P2]; [lia|exact Hbe|discriminate|intros _; exact Hbm|].
           split; [|exact P2]. intro E. destruct (P1 E) as [X _]. discriminate.
    + assert (Hun1 : unmake (s_board (set_board st b1)) mv = Some b) by exact Hun.
      destruct (do_unmake_spec (set_board st b1) mv b Hun1) as [B1 _].
      assert (S1 : SOK T (do_unmake (set_board st b1) mv)).
      { apply do_unmake_SOK. revert Hsok. apply SOK_frame; reflexivity. }
      pose proof (IH Hrest ispv pvm zh zph rd beta alpha bv bm bc lg (do_unmake (set_board st b1) mv) B1 S1 Ha Hbe Hlf Hlt) as I2.
      match type of I2 with match fst ?r with _ => _ end => destruct (fst r) as [v|bv' bm' bc' lg'] end; [exact I|].
      destruct I2 as [P1 P2]. split; [|exact P2]. intro E. destruct (P1 E) as [X1 X2]. split; [exact X1|].
      intros m [<-|Hm]; [|exact (X2 m Hm)]. unfold is_move_legal. rewrite Hmk. exact Hv.
Qed.

Section WithOracle.
Variable orc : oracle.

Lemma negamax0_up p a b pv z zp st : good (S Q) (s_board st) -> window T a b -> SOK T st ->
  (vm_value (fst (negamax T orc 0 p a b pv z zp st)) < win_score T)%Z /\ SOK T (snd (negamax T orc 0 p a b pv z zp st)).
Proof.
  intros Hg Hw Hs.
  destruct (negamax0_val_or T good Q inverse good_mono qfuel_bound HW st_true orc p a b pv z zp st Hg Hw Hs) as [[V|V] S0];
    (split; [|exact S0]).
  - unfold in_range in V. lia.
  - rewrite V. apply st_false_up. exact Hg.
Qed.

(* the root prelude of the first iteration: node count 0 (no poll), ply 0 (no repetition leaf), empty table (no hit),
   a searched move exists (no `leaf 0`) *)
Lemma node_prelude_root rd a0 b0 zh st :
  s_nm_nodes st = 0 -> (forall k, HashTable.get tt_entry (s_tt st) k = None) ->
  filter_search_moves st (gen_pseudo T (s_board st)) <> [] ->
  exists st3, node_prelude T orc 0 rd a0 b0 zh st = (PreGo a0 b0 None (filter_search_moves st (gen_pseudo T (s_board st))), st3).
Proof.
  intros Hn0 Hempty Hne.
  assert (Hf : should_check_flags orc st = false).
  { unfold should_check_flags. rewrite Hn0. rewrite andb_false_r. reflexivity. }
  pose proof (poll_block_frame2 T orc st) as (_ & _ & _ & Hno). specialize (Hno Hf).
  unfold node_prelude. rewrite Hno. cbv zeta. sproj. unfold visit. cbv zeta.
  change (0 <? 0) with false. cbn [andb fst snd]. sproj.
  unfold tt_probe. sproj. rewrite Hempty. change (0 =? 0) with true. cbn [andb]. cbv iota.
  match goal with |- context [is_nil (filter_search_moves ?s ?l)] =>
    replace (filter_search_moves s l) with (filter_search_moves st l) by (apply filter_search_moves_go; reflexivity) end.
  destruct (filter_search_moves st (gen_pseudo T (s_board st))) as [|x l] eqn:El; [contradiction|].
  cbn [is_nil]. eexists. reflexivity.
Qed.

Lemma negamax1_root_some ispv zh zph st :
  s_nm_nodes st = 0 -> s_stop st = false -> N.of_nat (length (gen_pseudo T (s_board st))) < poll orc ->
  good (1 + S Q) (s_board st) -> (forall k, HashTable.get tt_entry (s_tt st) k = None) -> contempt_ok T st ->
  (exists m, In m (filter_search_moves st (gen_pseudo T (s_board st))) /\ is_move_legal T (s_board st) m = true) ->
  vm_mv (fst (negamax T orc 1 0 (loss_score T) (win_score T) ispv zh zph st)) <> None.
Proof.
  intros Hn0 Hs0 Hlen Hg Hempty Hct (m & Hin & Hleg).
  assert (Hne : filter_search_moves st (gen_pseudo T (s_board st)) <> []) by (intro E; rewrite E in Hin; exact Hin).
  destruct (node_prelude_root (N.of_nat 1) (loss_score T) (win_score T) zh st Hn0 Hempty Hne) as (st3 & Hnp).
  pose proof (node_prelude_ext T orc 0 (N.of_nat 1) (loss_score T) (win_score T) zh st) as [[B3 _] _].
  pose proof (node_prelude_spec2 T orc 0 (N.of_nat 1) (loss_score T) (win_score T) zh st) as (T3 & _ & _ & _ & Hc).
  pose proof (node_prelude_hist T orc 0 (N.of_nat 1) (loss_score T) (win_score T) zh st) as (C3 & _).
  rewrite Hnp in B3, T3, Hc, C3. cbn [fst snd] in B3, T3, Hc, C3.
  assert (Hf : should_check_flags orc st = false).
  { unfold should_check_flags. rewrite Hn0. rewrite andb_false_r. reflexivity. }
  destruct (Hc Hf) as [N3 S3]. clear Hc.
  assert (Hsok3 : SOK T st3).
  { split; [rewrite T3; intros k e He; rewrite Hempty in He; discriminate|unfold contempt_ok; rewrite C3; exact Hct]. }
  cbn [negamax]. cbv zeta. rewrite Hnp. unfold interior_node. cbv zeta.
  match goal with |- context [nm_loop T ?rec ?mv ?a ?b ?c ?d ?e ?f ?g ?h ?i ?j ?k st3] =>
    assert (Hin' : forall x, In x mv -> In x (gen_pseudo T (s_board st3)))
      by (intros x Hx; rewrite B3; eapply filter_search_moves_in; eapply sort_moves_in; exact Hx);
    assert (Hm' : In m mv) by (apply sort_moves_in_rev; exact Hin);
    pose proof (nm_loop_up rec (0 + S Q)%nat
                  (fun a' b' pv z zp s Hs => negamax_ext T good Q inverse good_mono qfuel_bound orc 0 (0 + 1) a' b' pv z zp s Hs)
                  (fun a' b' pv z zp s Hs Hw Hk => negamax0_up (0 + 1) a' b' pv z zp s Hs Hw Hk)
                  mv (s_board st3) ltac:(rewrite B3; exact Hg) Hin' a b c d e f g h i j k st3 eq_refl Hsok3) as HU;
    pose proof (nm_loop_count T orc rec (fun a' b' pv z zp s Hs => negamax0_count T orc (0 + 1) a' b' pv z zp s Hs)
                  mv a b c d e f g h i j k st3) as HC;
    pose proof (nm_loop_return_stop T rec mv a b c d e f g h i j k st3) as HR;
    destruct (nm_loop T rec mv a b c d e f g h i j k st3) as [[r|bv bm bc lg] st4] end;
  cbn [fst snd] in HU, HC, HR.
  - exfalso. rewrite (HR r eq_refl) in HC. rewrite S3, Hs0 in HC.
    assert (X : true = false); [|discriminate]. apply HC; [rewrite N3, Hn0; lia|].
    rewrite sort_moves_length, N3, Hn0. pose proof (filter_search_moves_length st (gen_pseudo T (s_board st))). lia.
  - destruct HU as [P1 P2]; [unfold loss_score; lia|lia|reflexivity|discriminate|].
    destruct lg; cbn [negb].
    + specialize (P2 eq_refl). destruct (negb (is_checkmate T bv)); cbn [fst vm_mv]; exact P2.
    + exfalso. destruct (P1 eq_refl) as [_ X]. specialize (X m Hm'). rewrite B3 in X. rewrite X in Hleg. discriminate.
Qed.


(* ---------- iterative deepening keeps a move once it has one ---------- *)
Definition has_move (a : idstate) : Prop := exists vm m, id_best a = Some vm /\ vm_mv vm = Some m.

Lemma id_step_best mt a :
  id_best (un (id_step T orc mt a)) =
  if s_stop (snd (root_call T orc a)) || match vm_mv (fst (root_call T orc a)) with None => true | Some _ => false end
  then id_best a else Some (fst (root_call T orc a)).
Proof.
  unfold id_step, root_call. cbv zeta.
  match goal with |- context [negamax T orc ?d ?p ?x ?y ?v ?z ?w (id_st a)] =>
    destruct (negamax T orc d p x y v z w (id_st a)) as [current st1] end.
  cbn [fst snd]. unfold read_clock. cbv beta iota zeta. sproj.
  destruct (s_stop st1 || match vm_mv current with Some _ => false | None => true end) eqn:Eab;
    cbn [negb orb]; cbv beta iota zeta;
    (match goal with |- context [generate_info T orc ?s] => destruct (generate_info T orc s) as [[nodes hf] st4] end).
  - cbn [un id_best]. reflexivity.
  - match goal with |- context [if ?c then inr ?x else inl ?y] =>
      replace (un (if c then inr x else inl y)) with x by (destruct c; reflexivity) end.
    reflexivity.
Qed.

Lemma id_step_keeps mt a : has_move a -> has_move (un (id_step T orc mt a)).
Proof.
  intro H. unfold has_move. rewrite id_step_best.
  destruct (s_stop _ || _) eqn:E; [exact H|].
  apply orb_false_iff in E as [_ E]. destruct (vm_mv (fst (root_call T orc a))) as [m|] eqn:Em; [|discriminate].
  eexists. exists m. split; [reflexivity|exact Em].
Qed.

Lemma id_step_first mt a : s_stop (snd (root_call T orc a)) = false -> vm_mv (fst (root_call T orc a)) <> None ->
  has_move (un (id_step T orc mt a)).
Proof.
  intros Hs Hm. unfold has_move. rewrite id_step_best, Hs.
  destruct (vm_mv (fst (root_call T orc a))) as [m|] eqn:Em; [|contradiction]. cbn [orb].
  eexists. exists m. split; [reflexivity|exact Em].
Qed.

Lemma iter_until_ind1 {A B} (PA : A -> Prop) (PB : B -> Prop) (step : A -> A + B) :
  (forall a, PA a -> match step a with inl a' => PA a' | inr b => PB b end) ->
  forall p a0, match step a0 with inl a' => PA a' | inr b => PB b end ->
  match iter_until p step a0 with inl a' => PA a' | inr b => PB b end.
Proof.
  intros Hs. induction p as [q IH|q IH|]; intros a0 H0; cbn [iter_until].
  - destruct (step a0) as [a1|b1]; [|exact H0].
    pose proof (iter_until_ind PA PB step Hs q a1 H0) as H2. destruct (iter_until q step a1) as [a2|b2]; [|exact H2].
    apply (iter_until_ind PA PB step Hs). exact H2.
  - pose proof (IH a0 H0) as H1. destruct (iter_until q step a0) as [a1|b1]; [|exact H1].
    apply (iter_until_ind PA PB step Hs). exact H1.
  - exact H0.
Qed.

Lemma try_set_pv_frame2 st :
  s_nm_nodes (try_set_pv_from_continuation st) = s_nm_nodes st /\ s_stop (try_set_pv_from_continuation st) = s_stop st
  /\ s_contempt (try_set_pv_from_continuation st) = s_contempt st.
Proof.
  unfold try_set_pv_from_continuation.
  repeat (match goal with |- context [match ?x with _ => _ end] => destruct x end); repeat split; reflexivity.
Qed.

Lemma best_move_some st :
  s_nm_nodes st = 0 -> s_stop st = false -> N.of_nat (length (gen_pseudo T (s_board st))) < poll orc ->
  good (1 + S Q) (s_board st) -> contempt_ok T st ->
  (exists m, In m (root_moves T (s_go st) (s_board st)) /\ is_move_legal T (s_board st) m = true) ->
  fst (fst (fst (best_move T orc st))) <> None.
Proof.
  intros Hn0 Hs0 Hlen Hg Hct Hex. unfold best_move. cbv zeta.
  set (st1 := set_killers _ _).
  set (st2 := if s_try_prev_pv st1 then try_set_pv_from_continuation st1 else st1).
  assert (F2 : s_board st2 = s_board st /\ s_go st2 = s_go st /\ s_tt st2 = HashTable.clear tt_entry (s_tt st) /\
               s_nm_nodes st2 = s_nm_nodes st /\ s_stop st2 = s_stop st /\ s_contempt st2 = s_contempt st).
  { subst st2. destruct (s_try_prev_pv st1); [|repeat split; reflexivity].
    destruct (try_set_pv_frame st1) as (B & _ & G & TT). destruct (try_set_pv_frame2 st1) as (N1 & S1 & C1).
    repeat split; assumption. }
  set (st3 := match g_movetime (s_go st2) with None => _ | Some _ => st2 end).
  assert (F3 : s_board st3 = s_board st /\ (forall b, root_moves T (s_go st3) b = root_moves T (s_go st) b) /\
               s_tt st3 = HashTable.clear tt_entry (s_tt st) /\
               s_nm_nodes st3 = s_nm_nodes st /\ s_stop st3 = s_stop st /\ s_contempt st3 = s_contempt st).
  { subst st3. destruct F2 as (B2 & G2 & T2 & N2 & S2 & C2).
    destruct (g_movetime (s_go st2)); [repeat split; try assumption; intro; rewrite G2; reflexivity|].
    sproj. repeat split; try assumption. intro b. rewrite <- G2. reflexivity. }
  destruct F3 as (B3 & G3 & T3 & N3 & S3 & C3). clearbody st3. clear F2.
  set (a0 := {| id_depth := 1; id_fuel := 1; id_best := None; id_uci_pv := None; id_score := None; id_log := []; id_st := st3 |}).
  set (p := match _ with Npos p => p | N0 => xH end).
  set (mt := g_movetime (s_go st3)).
  assert (H1 : has_move (un (id_step T orc mt a0))).
  { apply id_step_first; unfold root_call; cbn [a0 id_fuel id_st].
    - rewrite negamax1_not_interruptible; [rewrite S3; exact Hs0|rewrite N3; exact Hn0|rewrite B3; exact Hlen].
    - apply negamax1_root_some.
      + rewrite N3; exact Hn0.
      + rewrite S3; exact Hs0.
      + rewrite B3; exact Hlen.
      + rewrite B3; exact Hg.
      + intro k. rewrite T3. reflexivity.
      + unfold contempt_ok. rewrite C3. exact Hct.
      + rewrite filter_root_moves, G3, B3. exact Hex. }
  assert (HL : match iter_until p (id_step T orc mt) a0 with inl a' => has_move a' | inr b => has_move b end).
  { apply iter_until_ind1.
    - intros a Ha. pose proof (id_step_keeps mt a Ha) as H. destruct (id_step T orc mt a); exact H.
    - destruct (id_step T orc mt a0); exact H1. }
  unfold read_clock. cbv beta iota zeta.
  destruct (iter_until p (id_step T orc mt) a0) as [x|x]; cbn [fst]; destruct HL as (vm & m & E1 & E2);
    rewrite E1, E2; discriminate.
Qed.

(* the whole go: reset_for_go zeroes the node count and the stop flag, so there is NO precondition on s_nm_nodes *)
Theorem go_full_announces g st :
  N.of_nat (length (gen_pseudo T (s_board st))) < poll orc -> good (1 + S Q) (s_board st) -> contempt_ok T st ->
  (exists m, In m (root_moves T g (s_board st)) /\ is_move_legal T (s_board st) m = true) ->
  announced (fst (go_full T orc g st)) <> None.
Proof.
  intros Hlen Hg Hct Hex. unfold go_full. cbv zeta. set (st0 := set_reads _ _).
  assert (F : s_board (reset_for_go st0) = s_board st /\ s_go (reset_for_go st0) = g /\ s_nm_nodes (reset_for_go st0) = 0 /\
              s_stop (reset_for_go st0) = false /\ s_contempt (reset_for_go st0) = s_contempt st).
  { unfold reset_for_go. destruct (s_reset_next st0); repeat split; reflexivity. }
  destruct F as (B1 & G1 & N1 & S1 & C1).
  pose proof (best_move_some (reset_for_go st0)) as HB.
  pose proof (best_move_spec T good Q inverse good_mono qfuel_bound orc (reset_for_go st0) 0) as HS.
  destruct (best_move T orc (reset_for_go st0)) as [[[bm pm] log] st2]. cbn [fst snd] in *.
  destruct HS as (_ & _ & E & _). rewrite <- E. apply HB.
  - exact N1.
  - exact S1.
  - rewrite B1. exact Hlen.
  - rewrite B1. exact Hg.
  - unfold contempt_ok. rewrite C1. exact Hct.
  - rewrite G1, B1. exact Hex.
Qed.


(* the log is never empty: the loop body runs at least once *)
Lemma id_step_log mt a : id_log (un (id_step T orc mt a)) <> [].
Proof.
  unfold id_step. cbv zeta.
  match goal with |- context [negamax T orc ?d ?p ?x ?y ?v ?z ?w (id_st a)] =>
    destruct (negamax T orc d p x y v z w (id_st a)) as [current st1] end.
  unfold read_clock. cbv beta iota zeta. sproj.
  destruct (s_stop st1 || match vm_mv current with Some _ => false | None => true end) eqn:Eab;
    cbn [negb orb]; cbv beta iota zeta;
    (match goal with |- context [generate_info T orc ?s] => destruct (generate_info T orc s) as [[nodes hf] st4] end).
  - cbn [un id_log]. discriminate.
  - match goal with |- context [if ?c then inr ?x else inl ?y] =>
      replace (un (if c then inr x else inl y)) with x by (destruct c; reflexivity) end.
    cbn [id_log]. discriminate.
Qed.

Lemma go_full_log_ne g st : fst (go_full T orc g st) <> [].
Proof.
  unfold go_full, best_move. cbv zeta.
  match goal with |- context [iter_until ?p ?step ?a0] =>
    assert (HL : match iter_until p step a0 with inl a' => id_log a' <> [] | inr b => id_log b <> [] end);
    [apply iter_until_ind1;
     [intros a _; match goal with |- match ?stp a with _ => _ end =>
                    pose proof (id_step_log (g_movetime (s_go (id_st a0))) a) as H end;
                  destruct (id_step T orc _ a); exact H
     |pose proof (id_step_log (g_movetime (s_go (id_st a0))) a0) as H; destruct (id_step T orc _ a0); exact H]
    |destruct (iter_until p step a0) as [x|x]; unfold read_clock; cbv beta iota zeta; cbn [fst]; exact HL] end.
Qed.

End WithOracle.
End C07.

(* ================================================================================================================ *)
(* Part 5: a (crude) bound on the number of pseudo-legal moves                                                       *)
(* ================================================================================================================ *)

Lemma flat_map_length_le {A B} (f : A -> list B) k l :
  (forall x, In x l -> (length (f x) <= k)%nat) -> (length (flat_map f l) <= length l * k)%nat.
Proof.
  induction l as [|a l IH]; cbn [flat_map length]; intros H; [lia|]. rewrite app_length.
  pose proof (H a (or_introl eq_refl)). specialize (IH (fun x Hx => H x (or_intror Hx))). lia.
Qed.

Lemma clear_lt x m k : x < 2 ^ k -> clear x m < 2 ^ k.
Proof.
  intro Hx. apply (sub_lt (clear x m) x k); [|exact Hx]. intros i Hi. rewrite clear_testbit in Hi.
  apply andb_true_iff in Hi. tauto.
Qed.

Lemma land_lt_r x y k : y < 2 ^ k -> N.land x y < 2 ^ k.
Proof.
  intro Hy. apply (sub_lt (N.land x y) y k); [|exact Hy]. intros i Hi. rewrite N.land_spec in Hi.
  apply andb_true_iff in Hi. tauto.
Qed.

Section GenLength.
Variable T : Tables.t.
Hypothesis HB : tables_bounded T = true.

Lemma make_move_length b nq s t p c e pr epo : (length (make_move T b nq s t p c e pr epo) <= 1)%nat.
Proof.
  unfold make_move. cbv zeta.
  match goal with |- context [if ?c then [] else _] => destruct c end; cbn [length]; lia.
Qed.

Lemma gen_attacks_length b nq s occ p : occ < 2 ^ 64 -> (length (gen_attacks T b nq s occ p) <= 64)%nat.
Proof.
  intro Hocc. unfold gen_attacks.
  pose proof (flat_map_length_le (fun target => make_move T b nq s target p false false NO_PIECE NO_SQUARE) 1 (bits_of occ)
                (fun x _ => make_move_length b nq s x p false false NO_PIECE NO_SQUARE)) as H.
  pose proof (bits_of_length_64 occ Hocc). lia.
Qed.

Lemma tb_elim : forallb lt64 (king_tbl T) = true /\ forallb lt64 (knight_tbl T) = true /\
  forallb (fun c => forallb lt64 (mg_attacks c)) (rook_magics T) = true /\
  forallb (fun c => forallb lt64 (mg_attacks c)) (bishop_magics T) = true.
Proof. unfold tables_bounded in HB. rewrite !andb_true_iff in HB. tauto. Qed.

Lemma sliding_length b nq po ao fo lk pc : po < 2 ^ 64 -> (forall s o, lk s o < 2 ^ 64) ->
  N.of_nat (length (sliding_moves T b nq po ao fo lk pc)) <= 4096.
Proof.
  intros Hpo Hlk. unfold sliding_moves.
  pose proof (flat_map_length_le (fun source => gen_attacks T b nq source (clear (lk source fo) ao) pc) 64 (bits_of po)
                (fun x _ => gen_attacks_length b nq x _ pc (clear_lt _ ao 64 (Hlk x fo)))) as H.
  pose proof (bits_of_length_64 po Hpo). lia.
Qed.

Lemma single_length b nq po ao tbl pc : po < 2 ^ 64 -> forallb lt64 tbl = true ->
  N.of_nat (length (single_moves T b nq po ao tbl pc)) <= 4096.
Proof.
  intros Hpo Htbl. unfold single_moves.
  pose proof (flat_map_length_le (fun source => gen_attacks T b nq source (clear (leaper tbl source) ao) pc) 64 (bits_of po)
                (fun x _ => gen_attacks_length b nq x _ pc (clear_lt _ ao 64 (leaper_lt tbl x Htbl)))) as H.
  pose proof (bits_of_length_64 po Hpo). lia.
Qed.

Lemma pawn_promotions_length b s t : (length (pawn_promotions T b s t) <= 4)%nat.
Proof.
  unfold pawn_promotions. rewrite !app_length.
  pose proof (make_move_length b false s t PAWN false false QUEEN NO_SQUARE).
  pose proof (make_move_length b false s t PAWN false false ROOK NO_SQUARE).
  pose proof (make_move_length b false s t PAWN false false BISHOP NO_SQUARE).
  pose proof (make_move_length b false s t PAWN false false KNIGHT NO_SQUARE). lia.
Qed.

Lemma gen_pawn_attacks_length b occ s : occ < 2 ^ 64 -> (length (gen_pawn_attacks T b occ s) <= 256)%nat.
Proof.
  intro Hocc. unfold gen_pawn_attacks.
  match goal with |- context [flat_map ?f _] =>
    pose proof (flat_map_length_le f 4 (bits_of occ)) as H end.
  pose proof (bits_of_length_64 occ Hocc).
  match type of H with ?P -> _ => assert (X : P) end.
  { intros x _. cbv beta zeta. destruct (_ || _); [apply pawn_promotions_length|].
    match goal with |- (length (make_move T b false s x PAWN false ?e NO_PIECE NO_SQUARE) <= _)%nat =>
      pose proof (make_move_length b false s x PAWN false e NO_PIECE NO_SQUARE) end. lia. }
  specialize (H X).
  lia.
Qed.

Lemma pawn_attacks_length b po ao pso : po < 2 ^ 64 -> pso < 2 ^ 64 -> ep b < 64 ->
  N.of_nat (length (pawn_attacks T b po ao pso)) <= 16384.
Proof.
  intros Hpo Hpso Hep. unfold pawn_attacks. cbv zeta.
  match goal with |- context [flat_map ?f _] =>
    pose proof (flat_map_length_le f 256 (bits_of po)) as H end.
  pose proof (bits_of_length_64 po Hpo).
  match type of H with ?P -> _ => assert (X : P) end.
  { intros x _. apply gen_pawn_attacks_length. apply clear_lt. apply land_lt_r. apply lor_lt; [exact Hpso|].
    apply clear_lt. apply bit_lt. exact Hep. }
  specialize (H X). lia.
Qed.

Lemma pawn_moves_length b nq po fo : po < 2 ^ 64 -> (length (pawn_moves T b nq po fo) <= 256)%nat.
Proof.
  intros Hpo. unfold pawn_moves. cbv zeta.
  match goal with |- context [flat_map ?f _] =>
    pose proof (flat_map_length_le f 4 (bits_of po)) as H end.
  pose proof (bits_of_length_64 po Hpo).
  match type of H with ?P -> _ => assert (X : P) end.
  { intros x _. destruct (nz _); [cbn [length]; lia|]. destruct (nz _); [apply pawn_promotions_length|].
    rewrite app_length.
    match goal with |- (length (make_move T b nq x ?t PAWN false false NO_PIECE NO_SQUARE) + _ <= _)%nat =>
      pose proof (make_move_length b nq x t PAWN false false NO_PIECE NO_SQUARE) end.
    destruct (_ && _); [|cbn [length]; lia].
    match goal with |- (_ + length (make_move T b nq x ?t PAWN false false NO_PIECE ?e) <= _)%nat =>
      pose proof (make_move_length b nq x t PAWN false false NO_PIECE e) end. lia. }
  specialize (H X). lia.
Qed.

Lemma castle_moves_length b fo : (length (castle_moves T b fo) <= 2)%nat.
Proof.
  unfold castle_moves.
  destruct (is_white_turn b); rewrite app_length;
  repeat match goal with |- context [if ?c then make_move T b false ?s ?t KING true false NO_PIECE NO_SQUARE else []] =>
    pose proof (make_move_length b false s t KING true false NO_PIECE NO_SQUARE); destruct c end; cbn [length] in *; lia.
Qed.

Theorem gen_pseudo_length b : wf b = true -> N.of_nat (length (gen_pseudo T b)) <= 41218.
Proof.
  intro Hwf. destruct tb_elim as (Hk & Hn & Hr & Hb). destruct (wf_elim b Hwf) as (_ & _ & _ & Hep & _).
  pose proof (active_bounded b Hwf) as (A1 & A2 & A3 & A4 & A5 & A6).
  pose proof (full_occ_lt _ (passive_bounded b Hwf)) as Hpso.
  unfold gen_pseudo, gen_common. cbv zeta. rewrite !app_length.
  set (ao := full_occ (active b)). set (po := full_occ (passive b)). set (fo := N.lor ao po).
  pose proof (sliding_length b false (queens (active b)) ao fo (rook_attacks T) QUEEN A5 (fun s o => magic_lookup_lt _ s o Hr)).
  pose proof (sliding_length b false (queens (active b)) ao fo (bishop_attacks T) QUEEN A5 (fun s o => magic_lookup_lt _ s o Hb)).
  pose proof (sliding_length b false (bishops (active b)) ao fo (bishop_attacks T) BISHOP A3 (fun s o => magic_lookup_lt _ s o Hb)).
  pose proof (sliding_length b false (rooks (active b)) ao fo (rook_attacks T) ROOK A4 (fun s o => magic_lookup_lt _ s o Hr)).
  pose proof (single_length b false (knights (active b)) ao (knight_tbl T) KNIGHT A2 Hn).
  pose proof (single_length b false (kings (active b)) ao (king_tbl T) KING A6 Hk).
  pose proof (pawn_attacks_length b (pawns (active b)) ao po A1 Hpso Hep).
  pose proof (pawn_moves_length b false (pawns (active b)) fo A1).
  pose proof (castle_moves_length b fo). lia.
Qed.

End GenLength.

(* ================================================================================================================ *)
(* Part 6: C07 for chess                                                                                             *)
(* ================================================================================================================ *)

(* the family for the `exists` direction: only the children of the root (index 130 = S Q) have to keep their mate score
   below win_score; a child of the root has full-move number  full b + turn b *)
Definition good_up (T : Tables.t) (n : nat) (b : board) : Prop :=
  good_chess T n b /\
  (n = 130%nat -> (Z.of_N (full b) < 2 * win_score T)%Z) /\
  ((131 <= n)%nat -> (Z.of_N (full b) + Z.of_N (turn b) + Z.of_nat (n - 131) < 2 * win_score T)%Z).

Section ChessC07.
Variable T : Tables.t.
Hypothesis HT : tables_chess_ok T = true.
Hypothesis HE : eval_tables_bounded T = true.

Lemma good_up_family : C03_family T (good_up T) 129.
Proof.
  destruct (chess_C03_family T HT) as (F1 & F2 & F3). split; [|split].
  - intros n b m (Hg & Hf0 & Hf) Hin. destruct (F1 n b m Hg Hin) as (b' & Hmk & Hun & Hg'). exists b'.
    split; [exact Hmk|split; [exact Hun|]]. intro Hv. split; [exact (Hg' Hv)|].
    destruct (make_fields b m b' Hmk) as (Et & Ef & _). destruct Hg as (Hwf & _).
    destruct (wf_elim b Hwf) as (_ & _ & Ht & _). unfold opposite in Et. split.
    + intros ->. assert (Hn' : (131 <= 131)%nat) by lia. specialize (Hf Hn'). rewrite Ef. lia.
    + intro Hn. assert (Hn' : (131 <= S n)%nat) by lia. specialize (Hf Hn'). rewrite Ef, Et. lia.
  - intros n b (Hg & Hf0 & Hf). split; [exact (F2 n b Hg)|]. split.
    + intros ->. assert (Hn' : (131 <= 131)%nat) by lia. specialize (Hf Hn'). lia.
    + intro Hn. assert (Hn' : (131 <= S n)%nat) by lia. specialize (Hf Hn'). lia.
  - intros n b (Hg & _). exact (F3 n b Hg).
Qed.

Lemma good_up_true n b : good_up T n b -> in_range T (evaluate_for T (turn b) b true).
Proof. intros ((Hwf & _) & _). apply static_true_range; assumption. Qed.

Lemma good_up_false_up b : good_up T 130 b -> (evaluate_for T (turn b) b false < win_score T)%Z.
Proof.
  intros ((Hwf & _) & Hf0 & _). destruct (wf_elim b Hwf) as (_ & _ & Ht & _).
  apply static_false_upper; [exact HE|exact Ht|exact (Hf0 eq_refl)].
Qed.

(* C07_bestmove_exists.  Hypotheses:
     poll          more pseudo-legal moves than any position has (41218, crude) fit into one poll period: 100000 in the
                   product build.  NO hypothesis on s_nm_nodes: reset_for_go zeroes it at the start of every go.
     good_chess    index 131 = one ply of main search + 130: half-move clock + 131 < 4096
     full-move     full b + turn b < 2 * win_score = 2^25: the mate score of a child of the root stays below win_score
     contempt      |draw_score| + |contempt factor of the state| < win_score (repetition leaf at ply 1) *)
Theorem C07_bestmove_exists_T orc g st :
  41218 < poll orc -> good_chess T 131 (s_board st) ->
  (Z.of_N (full (s_board st)) + Z.of_N (turn (s_board st)) < 2 * win_score T)%Z -> contempt_ok T st ->
  (exists m, In m (root_moves T g (s_board st)) /\ is_move_legal T (s_board st) m = true) ->
  announced (fst (go_full T orc g st)) <> None.
Proof.
  intros Hpoll Hg Hfull Hct Hex. destruct good_up_family as (F1 & F2 & F3).
  apply (go_full_announces T (good_up T) 129 F1 F2 F3 (etb_win_pos T HE) good_up_true good_up_false_up orc g st).
  - destruct (tables_chess_ok_elim T HT) as (_ & _ & HB & _). destruct Hg as (Hwf & _).
    pose proof (gen_pseudo_length T HB (s_board st) Hwf). lia.
  - split; [exact Hg|]. split; [intro E; discriminate E|]. intros _. cbn [Nat.sub]. lia.
  - exact Hct.
  - exact Hex.
Qed.

(* "exactly one bestmove; it is legal and one of the searched moves; it is the null move iff no searched move is legal" *)
Theorem C07_answer_T orc g st D :
  (length (fst (go_full T orc g st)) <= D)%nat -> good_chess T (D + 130) (s_board st) ->
  41218 < poll orc ->
  (Z.of_N (full (s_board st)) + Z.of_N (turn (s_board st)) < 2 * win_score T)%Z -> contempt_ok T st ->
  count_bestmove (s_out (go T orc g st)) = S (count_bestmove (s_out st)) /\
  ((exists m, In m (root_moves T g (s_board st)) /\ is_move_legal T (s_board st) m = true) ->
   exists m, announced (fst (go_full T orc g st)) = Some (uci_of_move m) /\ In m (gen_pseudo T (s_board st)) /\
             is_move_legal T (s_board st) m = true /\
             (g_searchmoves g = [] \/ existsb (umove_eqb (uci_of_move m)) (g_searchmoves g) = true)) /\
  ((forall m, In m (root_moves T g (s_board st)) -> is_move_legal T (s_board st) m = false) ->
   announced (fst (go_full T orc g st)) = None).
Proof.
  intros Hle Hg Hpoll Hfull Hct. split; [apply C07_one_bestmove_thm|]. split.
  - intro Hex.
    assert (HD : (1 <= D)%nat).
    { destruct (chess_C03_family T HT) as (F1 & F2 & F3).
      pose proof (go_full_log_ne T orc g st) as Hne. destruct (fst (go_full T orc g st)); [contradiction|]. cbn [length] in Hle. lia. }
    assert (Hg1 : good_chess T 131 (s_board st)) by (apply (good_chess_le T (D + 130)); [lia|exact Hg]).
    pose proof (C07_bestmove_exists_T orc g st Hpoll Hg1 Hfull Hct Hex) as Hsome.
    destruct (announced (fst (go_full T orc g st))) as [u|] eqn:Eu; [|contradiction].
    destruct (C07_bestmove_legal_chess_T T HT orc g st D Hle Hg u Eu) as (m & -> & H1 & H2 & H3).
    exists m. repeat split; assumption.
  - exact (C07_no_legal_move_null_chess_T T HT orc g st D Hle Hg).
Qed.

End ChessC07.

(* ================= the tables of the current /repo ================= *)
Lemma gen_eval_tables_bounded : eval_tables_bounded gen_tables = true.
Proof. vm_compute. reflexivity. Qed.

Lemma gen_in_range v : in_range gen_tables v <-> (-16777216 < v < 16777216)%Z.
Proof. unfold in_range, loss_score. change (win_score gen_tables) with 16777216%Z. lia. Qed.

Lemma gen_window a b : window gen_tables a b <-> (-16777216 <= a < 16777216)%Z /\ (-16777216 < b <= 16777216)%Z.
Proof. unfold window, loss_score. change (win_score gen_tables) with 16777216%Z. lia. Qed.

Lemma gen_contempt_ok st : contempt_ok gen_tables st <-> (Z.abs (s_contempt st) < 16777216)%Z.
Proof. unfold contempt_ok. change (win_score gen_tables) with 16777216%Z. change (draw_score gen_tables) with 0%Z. lia. Qed.

Theorem negamax_value_bounded_chess : forall orc d ply a0 b0 ispv zh zph st,
  good_chess gen_tables (d + 130) (s_board st) ->
  1 <= full (s_board st) -> full (s_board st) + N.of_nat d < 33554432 ->
  (-16777216 <= a0 < 16777216)%Z -> (-16777216 < b0 <= 16777216)%Z ->
  tt_ok gen_tables (s_tt st) -> (Z.abs (s_contempt st) < 16777216)%Z ->
  (-16777216 < vm_value (fst (negamax gen_tables orc d ply a0 b0 ispv zh zph st)) < 16777216)%Z /\
  tt_ok gen_tables (s_tt (snd (negamax gen_tables orc d ply a0 b0 ispv zh zph st))).
Proof.
  intros orc d ply a0 b0 ispv zh zph st Hg H1 H2 Ha Hb Ht Hc.
  destruct (negamax_value_bounded_T gen_tables gen_tables_chess_ok gen_eval_tables_bounded orc d ply a0 b0 ispv zh zph st Hg H1)
    as (V & S1 & _).
  - change (win_score gen_tables) with 16777216%Z. lia.
  - apply gen_window. split; assumption.
  - exact Ht.
  - apply gen_contempt_ok. exact Hc.
  - split; [apply gen_in_range; exact V|exact S1].
Qed.

Theorem quiescence_value_bounded_chess : forall fuel alpha beta zph st,
  good_chess gen_tables fuel (s_board st) ->
  (-16777216 <= alpha < 16777216)%Z -> (-16777216 < beta <= 16777216)%Z ->
  (-16777216 < vm_value (fst (quiescence gen_tables fuel alpha beta zph st)) < 16777216)%Z.
Proof.
  intros fuel alpha beta zph st Hg Ha Hb. apply gen_in_range.
  apply (quiescence_value_bounded_T gen_tables gen_tables_chess_ok gen_eval_tables_bounded); [exact Hg|].
  apply gen_window. split; assumption.
Qed.

Theorem C07_bestmove_exists_chess : forall orc g st,
  41218 < poll orc -> good_chess gen_tables 131 (s_board st) ->
  full (s_board st) + turn (s_board st) < 33554432 -> (Z.abs (s_contempt st) < 16777216)%Z ->
  (exists m, In m (root_moves gen_tables g (s_board st)) /\ is_move_legal gen_tables (s_board st) m = true) ->
  announced (fst (go_full gen_tables orc g st)) <> None.
Proof.
  intros orc g st Hp Hg Hf Hc Hex.
  apply (C07_bestmove_exists_T gen_tables gen_tables_chess_ok gen_eval_tables_bounded orc g st Hp Hg); [| |exact Hex].
  - change (win_score gen_tables) with 16777216%Z. lia.
  - apply gen_contempt_ok. exact Hc.
Qed.

Theorem C07_answer_chess : forall orc g st D,
  (length (fst (go_full gen_tables orc g st)) <= D)%nat -> good_chess gen_tables (D + 130) (s_board st) ->
  41218 < poll orc -> full (s_board st) + turn (s_board st) < 33554432 -> (Z.abs (s_contempt st) < 16777216)%Z ->
  count_bestmove (s_out (go gen_tables orc g st)) = S (count_bestmove (s_out st)) /\
  ((exists m, In m (root_moves gen_tables g (s_board st)) /\ is_move_legal gen_tables (s_board st) m = true) ->
   exists m, announced (fst (go_full gen_tables orc g st)) = Some (uci_of_move m) /\ In m (gen_pseudo gen_tables (s_board st)) /\
             is_move_legal gen_tables (s_board st) m = true /\
             (g_searchmoves g = [] \/ existsb (umove_eqb (uci_of_move m)) (g_searchmoves g) = true)) /\
  ((forall m, In m (root_moves gen_tables g (s_board st)) -> is_move_legal gen_tables (s_board st) m = false) ->
   announced (fst (go_full gen_tables orc g st)) = None).
Proof.
  intros orc g st D Hle Hg Hp Hf Hc.
  apply (C07_answer_T gen_tables gen_tables_chess_ok gen_eval_tables_bounded orc g st D Hle Hg Hp).
  - change (win_score gen_tables) with 16777216%Z. lia.
  - apply gen_contempt_ok. exact Hc.
Qed.

Theorem gen_pseudo_length_chess : forall b, wf b = true -> N.of_nat (length (gen_pseudo gen_tables b)) <= 41218.
Proof. intros b Hwf. destruct (tables_chess_ok_elim _ gen_tables_chess_ok) as (_ & _ & HB & _). exact (gen_pseudo_length gen_tables HB b Hwf). Qed.


(* ================================================================================================================ *)
(* Part 7: the value bound along a whole go -- every iteration result in the log is in range                          *)
(* ================================================================================================================ *)
Section GoValues.
Variable T : Tables.t.
Variable good : nat -> board -> Prop.
Variable Q : nat.
Hypothesis inverse : forall n b m, good (S n) b -> In m (gen_pseudo T b) ->
  exists b', make b m = Some b' /\ unmake b' m = Some b /\ (is_valid T b' = true -> good n b').
Hypothesis good_mono : forall n b, good (S n) b -> good n b.
Hypothesis qfuel_bound : forall n b, good n b -> (qfuel b <= Q)%nat.
Hypothesis HW : (0 < win_score T)%Z.
Hypothesis st_true : forall n b, good n b -> in_range T (evaluate_for T (turn b) b true).
Hypothesis st_false : forall n b, good (n + S Q) b -> in_range T (evaluate_for T (turn b) b false).
Variable orc : oracle.

Lemma id_step_tt mt a :
  s_tt (id_st (un (id_step T orc mt a))) = s_tt (snd (root_call T orc a)) /\
  s_contempt (id_st (un (id_step T orc mt a))) = s_contempt (snd (root_call T orc a)).
Proof.
  unfold id_step, root_call. cbv zeta.
  match goal with |- context [negamax T orc ?d ?p ?x ?y ?v ?z ?w (id_st a)] =>
    destruct (negamax T orc d p x y v z w (id_st a)) as [current st1] end.
  cbn [fst snd]. unfold read_clock. cbv beta iota zeta. sproj.
  destruct (s_stop st1 || match vm_mv current with Some _ => false | None => true end) eqn:Eab;
    cbn [negb orb]; cbv beta iota zeta;
    (match goal with |- context [generate_info T orc ?s] =>
       pose proof (generate_info_frame2 T orc s) as [T4 _];
       assert (C4 : s_contempt (snd (generate_info T orc s)) = s_contempt s) by (unfold generate_info, read_clock; sproj; reflexivity);
       destruct (generate_info T orc s) as [[nodes hf] st4] end);
    cbn [snd] in T4, C4; sproj.
  - cbn [un id_st]. sproj. split; assumption.
  - match goal with |- context [if ?c then inr ?x else inl ?y] =>
      replace (un (if c then inr x else inl y)) with x by (destruct c; reflexivity) end.
    cbn [id_st]. sproj. split; assumption.
Qed.

Definition log_in_range (log : list iter_rec) : Prop := Forall (fun it => in_range T (vm_value (it_result it))) log.

Record vinv (D : nat) (b0 : board) (a : idstate) : Prop := {
  vi_fl : id_fuel a = S (length (id_log a));
  vi_ok : (length (id_log a) <= D)%nat -> s_board (id_st a) = b0 /\ SOK T (id_st a) /\ log_in_range (id_log a)
}.

Lemma vinv_step D b0 mt a : good (D + S Q) b0 -> vinv D b0 a -> vinv D b0 (un (id_step T orc mt a)).
Proof.
  intros Hg [Hfl Hok].
  pose proof (id_step_spec T good Q inverse good_mono qfuel_bound orc mt a) as Hs. unfold id_next in Hs. cbv zeta in Hs.
  destruct Hs as ((it & Hlog & Hres & _ & _) & Hfuel & _ & Hboard & _).
  destruct (id_step_tt mt a) as [Htt Hct].
  split.
  - rewrite Hfuel, Hlog, Hfl. reflexivity.
  - rewrite Hlog. cbn [length]. intro Hle.
    destruct Hok as (B & S0 & L); [lia|].
    assert (Hgf : good (id_fuel a + S Q) (s_board (id_st a))).
    { rewrite B. eapply (good_le good good_mono); [|exact Hg]. lia. }
    assert (Hwin : window T (loss_score T) (win_score T)) by (unfold window, loss_score; lia).
    destruct (negamax_val T good Q inverse good_mono qfuel_bound HW st_true orc st_false (id_fuel a) 0 (loss_score T) (win_score T)
                (match s_pv (id_st a) with Some _ => true | None => false end)
                (zobrist_hash T (s_board (id_st a))) (pawn_hash T (s_board (id_st a))) (id_st a) Hgf Hwin S0) as [V S1].
    fold (root_call T orc a) in V, S1.
    split; [rewrite (Hboard Hgf); exact B|]. split.
    + revert S1. apply SOK_frame; assumption.
    + constructor; [rewrite Hres; exact V|exact L].
Qed.

Lemma best_move_values st D : good (D + S Q) (s_board st) -> contempt_ok T st ->
  (length (snd (fst (best_move T orc st))) <= D)%nat -> log_in_range (snd (fst (best_move T orc st))).
Proof.
  intros Hg Hct. unfold best_move. cbv zeta.
  set (st1 := set_killers _ _).
  set (st2 := if s_try_prev_pv st1 then try_set_pv_from_continuation st1 else st1).
  assert (F2 : s_board st2 = s_board st /\ s_tt st2 = HashTable.clear tt_entry (s_tt st) /\ s_contempt st2 = s_contempt st).
  { subst st2. destruct (s_try_prev_pv st1); [|repeat split; reflexivity].
    destruct (try_set_pv_frame st1) as (B & _ & _ & TT). destruct (try_set_pv_frame2 st1) as (_ & _ & C1).
    repeat split; assumption. }
  set (st3 := match g_movetime (s_go st2) with None => _ | Some _ => st2 end).
  assert (F3 : s_board st3 = s_board st /\ s_tt st3 = HashTable.clear tt_entry (s_tt st) /\ s_contempt st3 = s_contempt st).
  { subst st3. destruct (g_movetime (s_go st2)); [exact F2|]. sproj. exact F2. }
  destruct F3 as (B3 & T3 & C3). clearbody st3. clear F2.
  set (a0 := {| id_depth := 1; id_fuel := 1; id_best := None; id_uci_pv := None; id_score := None; id_log := []; id_st := st3 |}).
  set (p := match _ with Npos p => p | N0 => xH end).
  set (mt := g_movetime (s_go st3)).
  assert (I0 : vinv D (s_board st) a0).
  { split; [reflexivity|]. intros _. cbn [a0 id_st id_log]. split; [exact B3|]. split; [|constructor].
    split; [rewrite T3; apply tt_ok_clear|unfold contempt_ok; rewrite C3; exact Hct]. }
  assert (HL : match iter_until p (id_step T orc mt) a0 with inl a' => vinv D (s_board st) a' | inr b => vinv D (s_board st) b end).
  { apply (iter_until_ind (vinv D (s_board st)) (vinv D (s_board st))); [|exact I0].
    intros a Ha. pose proof (vinv_step D (s_board st) mt a Hg Ha) as H. destruct (id_step T orc mt a); exact H. }
  unfold read_clock. cbv beta iota zeta.
  destruct (iter_until p (id_step T orc mt) a0) as [x|x]; cbn [fst snd]; intro Hle; destruct HL as [_ Hok];
    destruct (Hok Hle) as (_ & _ & L); exact L.
Qed.

Theorem go_full_values g st D : (length (fst (go_full T orc g st)) <= D)%nat -> good (D + S Q) (s_board st) -> contempt_ok T st ->
  log_in_range (fst (go_full T orc g st)).
Proof.
  intros Hle Hg Hct. revert Hle. unfold go_full. cbv zeta. set (st0 := set_reads _ _).
  assert (F : s_board (reset_for_go st0) = s_board st /\ s_contempt (reset_for_go st0) = s_contempt st).
  { unfold reset_for_go. destruct (s_reset_next st0); split; reflexivity. }
  destruct F as (B1 & C1).
  pose proof (best_move_values (reset_for_go st0) D) as HB.
  destruct (best_move T orc (reset_for_go st0)) as [[[bm pm] log] st2]. cbn [fst snd] in *.
  intro Hle. apply HB; [rewrite B1; exact Hg|unfold contempt_ok; rewrite C1; exact Hct|exact Hle].
Qed.

End GoValues.

(* every iteration of a go reports a value strictly inside (loss_score, win_score) *)
Theorem go_values_in_range_T T : tables_chess_ok T = true -> eval_tables_bounded T = true ->
  forall orc g st D, (length (fst (go_full T orc g st)) <= D)%nat -> good_chess T (D + 130) (s_board st) ->
  1 <= full (s_board st) -> (Z.of_N (full (s_board st)) + Z.of_nat D < 2 * win_score T)%Z -> contempt_ok T st ->
  Forall (fun it => in_range T (vm_value (it_result it))) (fst (go_full T orc g st)).
Proof.
  intros HT HE orc g st D Hle Hg H1 H2 Hct. destruct (good_vb_family T HT) as (F1 & F2 & F3).
  apply (go_full_values T (good_vb T) 129 F1 F2 F3 (etb_win_pos T HE) (good_vb_true T HE) (good_vb_false T HE) orc g st D Hle);
    [|exact Hct].
  apply good_vb_intro; assumption.
Qed.

Theorem go_values_in_range_chess : forall orc g st D,
  (length (fst (go_full gen_tables orc g st)) <= D)%nat -> good_chess gen_tables (D + 130) (s_board st) ->
  1 <= full (s_board st) -> full (s_board st) + N.of_nat D < 33554432 -> (Z.abs (s_contempt st) < 16777216)%Z ->
  Forall (fun it => (-16777216 < vm_value (it_result it) < 16777216)%Z) (fst (go_full gen_tables orc g st)).
Proof.
  intros orc g st D Hle Hg H1 H2 Hc.
  eapply Forall_impl; [|apply (go_values_in_range_T gen_tables gen_tables_chess_ok gen_eval_tables_bounded orc g st D Hle Hg H1)].
  - intros it H. apply gen_in_range. exact H.
  - change (win_score gen_tables) with 16777216%Z. lia.
  - apply gen_contempt_ok. exact Hc.
Qed.

(* the contempt hypothesis holds in every state a session can reach: the factor is never written after Search::new *)
Lemma contempt_ok_sessions T : eval_tables_bounded T = true ->
  forall cmds, contempt_ok T (run_commands T cmds (init_state T)).
Proof.
  intros HE cmds. unfold contempt_ok. rewrite (contempt_fixed T cmds).
  destruct (etb_elim T HE) as (_ & _ & _ & _ & _ & F & _). exact F.
Qed.

(* the product build: poll period 100000 *)
Theorem C07_bestmove_exists_product : forall orc g st,
  poll orc = poll_period gen_tables -> good_chess gen_tables 131 (s_board st) ->
  full (s_board st) + turn (s_board st) < 33554432 -> (Z.abs (s_contempt st) < 16777216)%Z ->
  (exists m, In m (root_moves gen_tables g (s_board st)) /\ is_move_legal gen_tables (s_board st) m = true) ->
  announced (fst (go_full gen_tables orc g st)) <> None.
Proof.
  intros orc g st Hp. apply C07_bestmove_exists_chess. rewrite Hp. reflexivity.
Qed.

(* ================= witnesses: the range hypotheses are sharp ================= *)
Definition vb_state (b : board) : sstate :=
  {| s_board := b; s_tt := HashTable.new tt_entry 4096; s_killers := []; s_history := hempty; s_pv := None;
     s_nm_nodes := 0; s_q_nodes := 0; s_stop := false; s_quit := false; s_reset_next := false; s_ponder_hit := false;
     s_go := go_default; s_pmoves := []; s_debug := false; s_try_prev_pv := true; s_contempt := contempt gen_tables;
     s_out := []; s_drains := O; s_reads := O; s_panicked := false; s_fuel_out := false |}.
Definition vb_orc : oracle := {| abort_at := None; poll := 100000; inbox := fun _ => []; elapsed := fun _ => 0 |}.
Definition vb_go (d : N) : go_params :=
  {| g_searchmoves := []; g_wtime := None; g_btime := None; g_winc := None; g_binc := None; g_depth := Some d; g_movetime := None |}.

(* White is in check by the rook d1 and has exactly ONE legal move, Ba4xd1, a discovered checkmate (Ra3 against Ka8).
   Full-move number 2^25: the mated child returns loss_score + 2^25 = win_score, the root sees -win_score = loss_score, which
   is not greater than the initial best value, so NO move is taken: `bestmove 0000` with a mate in one on the board. *)
Definition vb_forced_mate_2p25 : board := board_of_text (lit "kr6/1p6/8/8/B7/R7/5PPP/3r2K1 w - - 0 33554432").
Definition vb_forced_mate_below : board := board_of_text (lit "kr6/1p6/8/8/B7/R7/5PPP/3r2K1 w - - 0 33554431").

Lemma bestmove_exists_refuted_at_2p25 : exists orc g st,
  41218 < poll orc /\ good_chess gen_tables 131 (s_board st) /\
  full (s_board st) + turn (s_board st) = 33554432 /\ (Z.abs (s_contempt st) < 16777216)%Z /\
  (exists m, In m (root_moves gen_tables g (s_board st)) /\ is_move_legal gen_tables (s_board st) m = true) /\
  announced (fst (go_full gen_tables orc g st)) = None.
Proof.
  exists vb_orc, (vb_go 1), (vb_state vb_forced_mate_2p25).
  split; [vm_compute; reflexivity|]. split; [apply good_chessb_spec; vm_compute; reflexivity|].
  split; [vm_compute; reflexivity|]. split; [vm_compute; reflexivity|].
  split; [|vm_compute; reflexivity].
  apply existsb_exists. vm_compute. reflexivity.
Qed.

(* one full move earlier the same position is answered by the mating move a4d1 = (32, 59, no promotion), at every depth tried *)
Lemma bestmove_exists_just_below_2p25 :
  good_chess gen_tables 133 vb_forced_mate_below /\ full vb_forced_mate_below + turn vb_forced_mate_below = 33554431 /\
  announced (fst (go_full gen_tables vb_orc (vb_go 3) (vb_state vb_forced_mate_below))) = Some (32, 59, 0) /\
  map (fun it => vm_value (it_result it)) (fst (go_full gen_tables vb_orc (vb_go 3) (vb_state vb_forced_mate_below)))
    = [-16777215; -16777215; -16777215]%Z.
Proof.
  split; [apply good_chessb_spec; vm_compute; reflexivity|]. split; [vm_compute; reflexivity|].
  split; vm_compute; reflexivity.
Qed.

(* the LOWER half of the two-sided bound needs 1 <= full: a mated side with full-move number 0 (accepted by the model's
   FEN reader) is valued exactly loss_score *)
Definition vb_mated_full0 : board := board_of_text (lit "kr6/1p6/8/8/8/R7/5PPP/3B2K1 b - - 0 0").
Lemma value_bound_needs_full_ge_1 :
  good_chess gen_tables 130 vb_mated_full0 /\ full vb_mated_full0 = 0 /\
  is_current_in_check gen_tables vb_mated_full0 = true /\
  evaluate_for gen_tables (turn vb_mated_full0) vb_mated_full0 false = loss_score gen_tables.
Proof.
  split; [apply good_chessb_spec; vm_compute; reflexivity|]. split; [vm_compute; reflexivity|].
  split; vm_compute; reflexivity.
Qed.

Print Assumptions negamax_value_bounded_chess.
Print Assumptions C07_bestmove_exists_chess.
Print Assumptions C07_answer_chess.
Print Assumptions go_values_in_range_chess.

(* Family `session`: a whole UCI session on one engine instance; mirrors harness/src/fam_engine.rs::session for the
   DETERMINISTIC cases (no `@sleep`, no `go infinite` / `go ponder`, no message arriving during a search).
   case: TAB-separated fields; a field starting with `@` is a directive, any other field is a UCI command line
   parsed like uci/src/uci/parser.rs (CommandParser) does.  Supported commands: uci, isready, ucinewgame, stop,
   ponderhit, debug on|off, position startpos|fen ... [moves ...], go [searchmoves ...] [wtime N] [btime N] [winc N]
   [binc N] [depth N] [movetime N], quit (ends the session).  A command the real parser rejects prints
   `@parse-error` (as the harness does); a command it accepts but this driver does not model prints `@unsupported`.
   Directives: `@poll K`, `@abort N M`, `@noabort`, `@fen`, `@wait` (nothing is ever pending), and `@elapsed NANOS`
   (model only: every clock reading returns NANOS, default 1; the harness answers `@bad-directive`, so does the
   model).  obs: the lines joined by ` ;; `. *)
Require Import Ink.Lib.Str.
Require Import NArith ZArith List Bool.
Require Import Ink.Lib.Bits Ink.Model.Tables Ink.Model.Board Ink.Model.Fen Ink.Model.Notation.
Require Import Ink.Model.Heuristic Ink.Model.UciTx Ink.Model.Search.
Import ListNotations.
Open Scope N_scope.

(* UciMove::from_str *)
Definition parse_square (f r : N) : option N :=
  if (97 <=? f) && (f - 97 <? 8) && is_ascii_digit r then
    let i := digit_val r in
    if (1 <=? i) && (i <=? 8) then Some ((f - 97) + 8 * (8 - i)) else None
  else None.
Definition piece_from_char (c : N) : option N :=
  let l := to_ascii_lower c in
  if l =? 107 then Some KING else if l =? 113 then Some QUEEN else if l =? 114 then Some ROOK
  else if l =? 98 then Some BISHOP else if l =? 110 then Some KNIGHT else if l =? 112 then Some PAWN else None.
Definition parse_umove (s : str) : option umove :=
  match s with
  | [f1; r1; f2; r2] =>
      match parse_square f1 r1, parse_square f2 r2 with Some a, Some b => Some (a, b, 0) | _, _ => None end
  | [f1; r1; f2; r2; p] =>
      match parse_square f1 r1, parse_square f2 r2, piece_from_char p with
      | Some a, Some b, Some q => Some (a, b, q) | _, _, _ => None end
  | _ => None
  end.

Fixpoint parse_umoves (l : list str) : option (list umove) :=
  match l with
  | [] => Some []
  | x :: r => match parse_umove x, parse_umoves r with Some u, Some us => Some (u :: us) | _, _ => None end
  end.

Definition GO_TOKENS : list str :=
  map lit ["searchmoves"; "ponder"; "wtime"; "btime"; "winc"; "binc"; "movestogo"; "depth"; "nodes"; "mate"; "movetime"; "infinite"]%string.

(* tokens up to the first stop token *)
Fixpoint span_until (stops : list str) (l : list str) : list str * list str :=
  match l with
  | [] => ([], [])
  | x :: r => if mem_str x stops then ([], l) else let '(a, b) := span_until stops r in (x :: a, b)
  end.

(* parse_duration: i64, max(d, 0) as u64 milliseconds -> nanoseconds *)
Definition parse_duration (s : str) : option N :=
  match parse_i64 s with Some z => Some (Z.to_N (Z.max z 0) * 1000000) | None => None end.

Inductive parsed :=
| PCmd (c : cmd)                (* CGo carries a dummy oracle, replaced by the driver *)
| PGo (g : go_params)
| PQuit | PParseError | PUnsupported.

(* parse_go; fuel = number of tokens *)
Fixpoint parse_go (fuel : nat) (toks : list str) (visited : list str) (g : go_params) : parsed :=
  match fuel with
  | O => PGo g
  | S k =>
      match toks with
      | [] => PGo g
      | t :: r =>
          if mem_str t visited then PParseError
          else
            let dur (upd : option N -> go_params) :=
              match r with
              | v :: r' => match parse_duration v with Some d => parse_go k r' (t :: visited) (upd (Some d)) | None => PParseError end
              | [] => PParseError end in
            if str_eqb t (lit "searchmoves") then
              let '(ms, r') := span_until GO_TOKENS r in
              match parse_umoves ms with
              | Some us => parse_go k r' (t :: visited)
                             {| g_searchmoves := us; g_wtime := g_wtime g; g_btime := g_btime g; g_winc := g_winc g; g_binc := g_binc g;
                                g_depth := g_depth g; g_movetime := g_movetime g |}
              | None => PParseError end
            else if str_eqb t (lit "wtime") then
              dur (fun v => {| g_searchmoves := g_searchmoves g; g_wtime := v; g_btime := g_btime g; g_winc := g_winc g; g_binc := g_binc g;
                               g_depth := g_depth g; g_movetime := g_movetime g |})
            else if str_eqb t (lit "btime") then
              dur (fun v => {| g_searchmoves := g_searchmoves g; g_wtime := g_wtime g; g_btime := v; g_winc := g_winc g; g_binc := g_binc g;
                               g_depth := g_depth g; g_movetime := g_movetime g |})
            else if str_eqb t (lit "winc") then
              dur (fun v => {| g_searchmoves := g_searchmoves g; g_wtime := g_wtime g; g_btime := g_btime g; g_winc := v; g_binc := g_binc g;
                               g_depth := g_depth g; g_movetime := g_movetime g |})
            else if str_eqb t (lit "binc") then
              dur (fun v => {| g_searchmoves := g_searchmoves g; g_wtime := g_wtime g; g_btime := g_btime g; g_winc := g_winc g; g_binc := v;
                               g_depth := g_depth g; g_movetime := g_movetime g |})
            else if str_eqb t (lit "movetime") then dur (fun v => set_movetime g v)
            else if str_eqb t (lit "depth") then
              match r with
              | v :: r' => match parse_u64 v with
                           | Some d => parse_go k r' (t :: visited)
                                         {| g_searchmoves := g_searchmoves g; g_wtime := g_wtime g; g_btime := g_btime g; g_winc := g_winc g;
                                            g_binc := g_binc g; g_depth := Some d; g_movetime := g_movetime g |}
                           | None => PParseError end
              | [] => PParseError end
            else if mem_str t GO_TOKENS then PUnsupported          (* ponder movestogo nodes mate infinite *)
            else PParseError
      end
  end.

Definition parse_position (toks : list str) : parsed :=
  let fen_and_rest : option (fen_err + fen) * list str :=
    match toks with
    | t :: r =>
        if str_eqb t (lit "fen") then
          match r with
          | [] => (None, [])                                       (* UnexpectedEndOfCommand *)
          | x :: r1 => let '(more, r2) := span_until [lit "moves"] r1 in (Some (fen_from_str (join [32] (x :: more))), r2)
          end
        else if str_eqb t (lit "startpos") then (Some (fen_from_str STARTPOS), r)
        else (None, [])
    | [] => (None, [])
    end in
  match fen_and_rest with
  | (Some (inr f), rest) =>
      match rest with
      | [] => PCmd (CPosition f [])
      | t :: ms => if str_eqb t (lit "moves") then
                     match parse_umoves ms with
                     | Some us => PCmd (CPosition f (map show_umove us))
                     | None => PParseError end
                   else PParseError
      end
  | _ => PParseError
  end.

(* CommandParser::new(line).parse(): trim, split on ' ', drop empty tokens *)
Definition parse_command (line : str) : parsed :=
  match words (trim line) with
  | [] => PParseError
  | root :: r =>
      if str_eqb root (lit "uci") then PCmd CUci
      else if str_eqb root (lit "isready") then PCmd CIsReady
      else if str_eqb root (lit "ucinewgame") then PCmd CNewGame
      else if str_eqb root (lit "stop") then PCmd CStop
      else if str_eqb root (lit "ponderhit") then PCmd CPonderHit
      else if str_eqb root (lit "quit") then PQuit
      else if str_eqb root (lit "go") then parse_go (S (length r)) r [] go_default
      else if str_eqb root (lit "position") then parse_position r
      else if str_eqb root (lit "debug") then
        match r with
        | t :: _ => if str_eqb t (lit "on") then PCmd (CDebug true) else if str_eqb t (lit "off") then PCmd (CDebug false) else PParseError
        | [] => PParseError end
      else if str_eqb root (lit "register") || str_eqb root (lit "setoption") then PUnsupported
      else PParseError
  end.

(* driver state: the engine, the hook settings, the lines printed so far (newest first) *)
Record dstate := { d_st : sstate; d_poll : N; d_abort : option (N * N); d_elapsed : N; d_lines : list str; d_done : bool }.

(* move the messages of the engine to the line list *)
Definition flush (st : sstate) (lines : list str) : sstate * list str :=
  let new := fold_right (fun m acc => match render m with Some l => l :: acc | None => acc end) [] (s_out st) in
  (set_out st [], new ++ lines).

Definition finish (d : dstate) (st : sstate) (extra : list str) : dstate :=
  let '(st1, lines) := flush st (d_lines d) in
  let lines1 := (if s_fuel_out st1 then [lit "FUEL"] else []) ++ (if s_panicked st1 then [lit "PANIC"] else []) ++ lines in
  {| d_st := set_fuel_out (set_panicked st1 false) false; d_poll := d_poll d; d_abort := d_abort d; d_elapsed := d_elapsed d;
     d_lines := extra ++ lines1; d_done := d_done d |}.

Definition U64MAX : N := 18446744073709551615.

Section WithTables.
Variable T : Tables.t.

Definition driver_oracle (d : dstate) : oracle :=
  {| abort_at := d_abort d; poll := d_poll d; inbox := fun _ => []; elapsed := fun _ => d_elapsed d |}.

Definition step_field (d : dstate) (field : str) : dstate :=
  if d_done d then d else
  let f := trim (unescape field) in
  match f with
  | [] => d
  | 64 :: rest =>                                                  (* '@' *)
      let w := words rest in
      let arg (i : nat) (dflt : N) := match nth_error w i with Some s => match parse_u64 s with Some v => v | None => dflt end | None => dflt end in
      let upd p a e extra := {| d_st := d_st d; d_poll := p; d_abort := a; d_elapsed := e; d_lines := extra ++ d_lines d; d_done := false |} in
      match w with
      | k :: _ =>
          if str_eqb k (lit "poll") then upd (N.max (arg 1%nat 100000) 1) (d_abort d) (d_elapsed d) []
          else if str_eqb k (lit "abort") then
            upd (d_poll d) (let n := arg 1%nat 1 in if n =? U64MAX then None else Some (n, arg 2%nat 0)) (d_elapsed d) []
          else if str_eqb k (lit "noabort") then upd (d_poll d) None (d_elapsed d) []
          else if str_eqb k (lit "wait") then d
          else if str_eqb k (lit "fen") then finish d (run_command T (d_st d) CDumpFen) []
          else if str_eqb k (lit "elapsed") then upd (d_poll d) (d_abort d) (arg 1%nat 1) [lit "@bad-directive"]
          else if str_eqb k (lit "sleep") then upd (d_poll d) (d_abort d) (d_elapsed d) [lit "@unsupported"]
          else upd (d_poll d) (d_abort d) (d_elapsed d) [lit "@bad-directive"]
      | [] => upd (d_poll d) (d_abort d) (d_elapsed d) [lit "@bad-directive"]
      end
  | _ =>
      match parse_command f with
      | PCmd c => finish d (run_command T (d_st d) c) []
      | PGo g => finish d (run_command T (d_st d) (CGo g (driver_oracle d))) []
      | PQuit => {| d_st := d_st d; d_poll := d_poll d; d_abort := d_abort d; d_elapsed := d_elapsed d; d_lines := d_lines d; d_done := true |}
      | PParseError => finish d (d_st d) [lit "@parse-error"]
      | PUnsupported => finish d (d_st d) [lit "@unsupported"]
      end
  end.

Definition run_session (line : str) : str :=
  let d0 := {| d_st := init_state T; d_poll := 100000; d_abort := None; d_elapsed := 1; d_lines := []; d_done := false |} in
  let d := fold_left step_field (fields line) d0 in
  join (lit " ;; ") (rev (d_lines d)).

End WithTables.

(* Family `eval`: case `<fen> TAB <0|1>`, observation `<value> <cp N|mate N> <is_checkmate 0/1>`;
   mirrors harness/src/fam_engine.rs::eval (hook `verif::static_eval`). *)
Require Import Ink.Lib.Str.
Require Import NArith ZArith List Bool.
Require Import Ink.Lib.Bits Ink.Model.Tables Ink.Model.Board Ink.Model.Fen Ink.Model.Heuristic.
Import ListNotations.
Open Scope N_scope.

Definition show_score (s : score) : str :=
  match s with Cp v => lit "cp " ++ show_Z v | Mate n => lit "mate " ++ show_Z n end.

Definition run_eval (T : Tables.t) (line : str) : str :=
  match fields line with
  | [f; lr] =>
      match from_fen_string (unescape f) with
      | inl _ => lit "BADFEN"
      | inr b =>
          if negb (wf b) then lit "UNSAFE"
          else
            let v := evaluate T b (str_eqb lr (lit "1")) in
            show_Z v ++ [32] ++ show_score (score_from_value T v b) ++ [32]
            ++ (if is_checkmate T v then lit "1" else lit "0")
      end
  | _ => lit "BADCASE"
  end.

(* Case line -> observation line for the board-level families; mirrors harness/src/fam_board.rs. *)
Require Import Ink.Lib.Str.
Require Import NArith ZArith List Bool.
Require Import Ink.Lib.Bits Ink.Model.Tables Ink.Model.Board Ink.Model.Fen Ink.Model.Notation.
Require Import Ink.Spec.Rules Ink.Spec.FenSpec Ink.Proofs.Abs.
Import ListNotations.
Open Scope N_scope.

(* lexicographic order on code-point lists (= Rust's String order for the ASCII we print) *)
Fixpoint str_leb (a b : str) : bool :=
  match a, b with
  | [], _ => true
  | _ :: _, [] => false
  | x :: a', y :: b' => if x <? y then true else if y <? x then false else str_leb a' b'
  end.
Fixpoint insert_str (x : str) (l : list str) : list str :=
  match l with [] => [x] | y :: r => if str_leb x y then x :: l else y :: insert_str x r end.
Definition sort_strs (l : list str) : list str := fold_right insert_str [] l.

Definition comma := lit ",".
Definition sp := lit " ".
Definition b01 (b : bool) : str := if b then lit "1" else lit "0".

Section WithTables.
Variable T : Tables.t.

Definition sorted_ucis (ms : list move) : str := join comma (sort_strs (map to_uci ms)).
Definition snapshot (b : board) : str :=
  match print_fen b with
  | None => lit "PANIC"
  | Some f => f ++ flat_map (fun x => 32 :: show_hex x) (bbs b) ++ [32] ++ show_hex (zobrist_hash T b) ++ [32] ++ show_hex (pawn_hash T b)
  end.
Definition fen_text (b : board) : str := match print_fen b with Some f => f | None => lit "PANIC" end.

Definition with_board (line : str) (k : board -> str) : str :=
  match from_fen_string (unescape line) with
  | inl _ => lit "BADFEN"
  | inr b => if wf b then k b else lit "UNSAFE"
  end.

Definition make_dbg (b : board) (m : move) : option board := if make_overflows b m then None else make b m.

Definition run_movegen (line : str) : str :=
  with_board line (fun b =>
    let pseudo := gen_pseudo T b in
    let filt := filter (fun m => match make b m with Some b' => is_valid T b' | None => false end) pseudo in
    lit "L " ++ sorted_ucis (gen_legal T b) ++ lit "|F " ++ sorted_ucis filt ++ lit "|Q " ++ sorted_ucis (gen_nonquiet T b)
    ++ lit "|P " ++ sorted_ucis pseudo).

Definition colon := lit ":".
Definition move_fields (m : move) : str :=
  join colon [to_uci m; show_N (piece_moved m); show_N (piece_attacked m);
              b01 (self_lost_ks m) ++ b01 (self_lost_qs m) ++ b01 (opp_lost_ks m) ++ b01 (opp_lost_qs m) ++ b01 (castle m) ++ b01 (ep_attack m);
              show_N (src m); show_N (dst m); b01 (half_reset m); show_N (prev_half m); show_N (prev_ep m); show_N (next_ep m);
              show_N (promo m); show_N (side m); show_Z (mvvlva m)].
Definition run_movelist (line : str) : str :=
  with_board line (fun b =>
    join sp (map move_fields (gen_pseudo T b)) ++ lit " # " ++ join sp (map to_uci (gen_nonquiet T b))).

Definition find_pseudo (b : board) (u : str) : option move := find_first (fun m => str_eqb (to_uci m) u) (gen_pseudo T b).

Definition run_make (line : str) : str :=
  match fields line with
  | [f; u] =>
      with_board f (fun b =>
        match find_pseudo b u with
        | None => lit "NOMOVE"
        | Some m =>
            match make_dbg b m, zobrist_xor T m with
            | Some b', Some (dx, dp) =>
                if negb (wf b') then fen_text b' ++ lit " KINGLESS"
                else join sp [fen_text b'; b01 (is_valid T b'); show_hex (zobrist_hash T b'); show_hex (pawn_hash T b');
                              show_hex (N.lxor (zobrist_hash T b) dx); show_hex (N.lxor (pawn_hash T b) dp);
                              b01 (in_check_by_bits T b' WHITE); b01 (in_check_by_bits T b' BLACK)]
            | _, _ => lit "PANIC"
            end
        end)
  | _ => lit "BADCASE"
  end.

Fixpoint make_line (b : board) (us : list str) (i : N) (made : list move) : str + (board * list move) :=
  match us with
  | [] => inr (b, made)
  | u :: r =>
      match find_pseudo b u with
      | None => inl (lit "NOMOVE " ++ show_N i)
      | Some m =>
          match make_dbg b m with
          | None => inl (lit "PANIC")
          | Some b' =>
              match r with
              | [] => inr (b', m :: made)
              | _ => if wf b' && is_valid T b' then make_line b' r (i + 1) (m :: made) else inl (lit "ILLEGAL " ++ show_N i)
              end
          end
      end
  end.

Definition run_unmake (line : str) : str :=
  match fields line with
  | [f; us] =>
      with_board f (fun b =>
        match make_line b (words us) 0 [] with
        | inl e => e
        | inr (b', made) =>
            match unmake_all (Some b') made with
            | Some b'' => snapshot b ++ lit " | " ++ snapshot b' ++ lit " | " ++ snapshot b''
            | None => lit "PANIC"
            end
        end)
  | _ => lit "BADCASE"
  end.

Definition run_check (line : str) : str :=
  with_board line (fun b =>
    let v := is_valid T b in
    lit "W" ++ b01 (in_check_by_bits T b WHITE) ++ lit " B" ++ b01 (in_check_by_bits T b BLACK) ++ lit " C" ++ b01 (is_current_in_check T b)
    ++ lit " V" ++ b01 v ++ lit " E" ++ (if v then b01 (match gen_legal T b with [] => true | _ => false end) else lit "-")).

Definition cell_char (b : board) (sq : N) : N :=
  let pw := piece_at (white b) sq in let pk := piece_at (black b) sq in
  if negb (pw =? 0) && negb (pk =? 0) then 33
  else if negb (pw =? 0) then piece_char pw - 32 else if negb (pk =? 0) then piece_char pk else 46.

Definition run_fen (line : str) : str :=
  match from_fen_string (unescape line) with
  | inl _ => lit "err"
  | inr b =>
      lit "ok " ++ map (fun i => cell_char b (N.of_nat i)) (seq 0 64) ++ sp ++ (if turn b =? 0 then lit "w" else lit "b") ++ sp
      ++ b01 (ks (white b)) ++ b01 (qs (white b)) ++ b01 (ks (black b)) ++ b01 (qs (black b)) ++ sp
      ++ show_N (ep b) ++ sp ++ show_N (half b) ++ sp ++ show_N (full b) ++ sp ++ fen_text b
  end.

Definition uci_err_text (e : uci_err) : str := match e with MoveDoesNotExist => lit "dne" | MoveIsNotValid => lit "inv" end.
Definition after (res : str) (ob : option board) : str :=
  match ob with
  | None => lit "PANIC"
  | Some b => if wf b then res ++ lit " | " ++ snapshot b else res ++ lit " | KINGLESS " ++ fen_text b
  end.
Definition find_res (r : uci_err + move) : str := match r with inr m => lit "ok:" ++ to_uci m | inl e => uci_err_text e end.

Definition run_ucistr (line : str) : str :=
  match fields line with
  | [f; api; t] =>
      with_board f (fun b =>
        let text := unescape t in
        if str_eqb api (lit "find") then let '(r, ob) := find_uci T b text in after (find_res r) ob
        else if str_eqb api (lit "twice") then
          let '(r1, ob1) := find_uci T b text in
          match ob1 with
          | None => lit "PANIC"
          | Some b1 => if negb (wf b1) then find_res r1 ++ lit " | KINGLESS"
                       else let '(r2, ob2) := find_uci T b1 text in after (find_res r1 ++ lit "/" ++ find_res r2) ob2
          end
        else if str_eqb api (lit "make") then
          let '(r, ob) := make_uci T b text in after (match r with inr _ => lit "ok" | inl e => uci_err_text e end) ob
        else if str_eqb api (lit "pgn") then
          let '(r, ob) := uci_to_pgn T b text in after (match r with inr s => lit "ok:" ++ escape s | inl e => uci_err_text e end) ob
        else if str_eqb api (lit "san") then
          (* pgn_to_bb runs is_move_legal (make; is_valid; unmake) over the generated moves: the board it leaves is the
             result of those make/unmake pairs (identical to b whenever half b < 4096, by C03) *)
          after (match pgn_to_bb T b text with Some m => lit "ok:" ++ to_uci m | None => lit "err" end)
                (match pgn_regex text with
                 | None => Some b
                 | Some _ => fold_left (fun ob m => match ob with
                                                     | Some b0 => match make b0 m with Some b1 => unmake b1 m | None => None end
                                                     | None => None end) (gen_pseudo T b) (Some b)
                 end)
        else if str_eqb api (lit "makeall") then
          let '(r, ob) := make_all_uci T b (words text) in after (match r with inr _ => lit "ok" | inl e => uci_err_text e end) ob
        else lit "BADAPI")
  | _ => lit "BADCASE"
  end.

Definition run_perft (line : str) : str :=
  match fields line with
  | [f; d] =>
      with_board f (fun b =>
        let depth := match parse_dec d with Some n => N.to_nat (N.max n 1) | None => 1%nat end in
        let items := flat_map (fun m => match make b m with
                                         | Some b' => if is_valid T b' then [to_uci m ++ colon ++ show_N (Board.perft T (pred depth) b')] else []
                                         | None => [] end) (gen_pseudo T b) in
        join sp (sort_strs items))
  | _ => lit "BADCASE"
  end.

Definition run_magic (line : str) : str :=
  match fields line with
  | [k; s; o] =>
      match parse_dec k, parse_dec s, parse_hex o with
      | Some kind, Some sq, Some occ =>
          if 64 <=? sq then lit "BADSQ" else
          let cfgs := if kind =? 0 then rook_magics T else bishop_magics T in
          let c := nthN cfgs sq empty_cfg in
          show_N (magic_index c occ) ++ sp ++
          match magic_lookup_opt cfgs sq occ with Some a => show_hex a | None => lit "OOR" end
      | _, _, _ => lit "BADCASE"
      end
  | _ => lit "BADCASE"
  end.

End WithTables.

(* ---------- Spec-side families (the oracle; no tables, no bitboards) ---------- *)
Definition with_pos (line : str) (k : pos -> str) : str :=
  match FenSpec.read (unescape line) with
  | None => lit "BADFEN"
  | Some p => if legal_pos p then k p else lit "NOTLEGAL"
  end.

Definition spec_sorted (ms : list mv) : str := join comma (sort_strs (map uci ms)).

(* L: legal moves; LQ: the legal captures/promotions *)
Definition run_spec_movegen (line : str) : str :=
  with_pos line (fun p =>
    let l := legal_moves p in
    lit "L " ++ spec_sorted l ++ lit "|LQ " ++ spec_sorted (filter (capture_or_promotion p) l)).

Definition find_mv (p : pos) (u : str) : option mv := find (fun m => str_eqb (uci m) u) (legal_moves p).

(* successor FEN, and whether each side is in check afterwards *)
Definition run_spec_make (line : str) : str :=
  match fields line with
  | [f; u] =>
      with_pos f (fun p =>
        match find_mv p u with
        | None => lit "ILLEGAL"
        | Some m => let p' := apply p m in
                    FenSpec.render p' ++ sp ++ b01 (in_check p' White) ++ sp ++ b01 (in_check p' Black)
        end)
  | _ => lit "BADCASE"
  end.

Definition run_spec_check (line : str) : str :=
  with_pos line (fun p =>
    lit "W" ++ b01 (in_check p White) ++ lit " B" ++ b01 (in_check p Black) ++ lit " M" ++ b01 (checkmate p) ++ lit " S" ++ b01 (stalemate p)).

Definition run_spec_fen (line : str) : str :=
  match FenSpec.read (unescape line) with
  | None => lit "err"
  | Some p =>
      lit "ok " ++ map (fun c => match c with Some pc => char_of_piece pc | None => 46 end) (cells p) ++ sp
      ++ (match to_move p with White => lit "w" | Black => lit "b" end) ++ sp
      ++ b01 (wk p) ++ b01 (wq p) ++ b01 (bk p) ++ b01 (bq p) ++ sp
      ++ (match epsq p with Some e => show_Z e | None => lit "0" end) ++ sp ++ show_N (halfc p) ++ sp ++ show_N (fullc p) ++ sp ++ FenSpec.render p
  end.

Definition run_spec_perft (line : str) : str :=
  match fields line with
  | [f; d] =>
      with_pos f (fun p =>
        let depth := match parse_dec d with Some n => N.to_nat (N.max n 1) | None => 1%nat end in
        join sp (sort_strs (map (fun m => uci m ++ colon ++ show_N (Rules.perft (pred depth) (apply p m))) (legal_moves p))))
  | _ => lit "BADCASE"
  end.

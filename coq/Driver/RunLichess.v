(* Family `lichess` (C19).  Case line:  kind TAB text
     kind = game  : text is a JSON document (field-escaped), decoded with BotGameState_schema
     kind = event : ... with BotEvent_schema
     kind = uci   : text is a move text, parsed with the model of UciMove::from_str
   Observation:  `ok <canonical JSON of the normal form>` | `ok <move text>` | `err` | `PANIC`
   (PANIC only for game / event: from_csv unwraps an unknown rule name; the move parser never panics). *)
Require Import Ink.Lib.Str.
Require Import NArith List Bool.
Import ListNotations.
Require Import Ink.Model.Json Ink.Model.Serde Ink.Gen.LichessSchema.

Definition show_res (r : res str) : str :=
  match r with Ok s => lit "ok " ++ s | Err => lit "err" | Panic => lit "PANIC" end.

Definition run_doc (s : schema) (text : str) : str :=
  match parse_json text with
  | None => lit "err"
  | Some j => show_res (match decode s j with Ok v => Ok (render v) | Err => Err | Panic => Panic end)
  end.

Definition run_lichess (line : str) : str :=
  match fields line with
  | kind :: text :: _ =>
    let t := unescape text in
    if str_eqb kind (lit "game") then run_doc BotGameState_schema t
    else if str_eqb kind (lit "event") then run_doc BotEvent_schema t
    else if str_eqb kind (lit "uci") then show_res (uci_move_parse t)
    else lit "err"
  | [kind] => if str_eqb kind (lit "uci") then show_res (uci_move_parse []) else lit "err"
  | [] => lit "err"
  end.

(* Driver/RunHistory.v : family `history`.
   Case line (TAB separated):
     field 1  space separated `index:hashhex` pairs, applied in order with `set` (index decimal u16, hash hex u64;
              the field may be empty)
     field 2  start index, decimal u16
     field 3  half-move clock, decimal u32 as held by the board; the `as u16` cast of search.rs is applied
   Observation: the count in decimal, or PANIC (array index out of bounds in `set` or `count_repetitions`).
   A malformed case line gives BADCASE. *)
Require Import Ink.Lib.Str.
Require Import NArith List Bool.
Import ListNotations.
Require Import Ink.Model.History.
Open Scope N_scope.

Inductive outcome := Bad | Panicked | Done (h : hist).

Definition parse_pair (w : str) : option (N * N) :=
  match split_on 58 w with                                   (* ':' *)
  | [a; b] =>
      match parse_digits 65535 0 a, parse_hex b with
      | Some i, Some v =>
          if nonempty a && (v <=? 18446744073709551615) then Some (i, v) else None
      | _, _ => None
      end
  | _ => None
  end.

Fixpoint apply_sets (h : hist) (ws : list str) : outcome :=
  match ws with
  | [] => Done h
  | w :: r =>
      match parse_pair w with
      | None => Bad
      | Some (i, v) => match hset h i v with None => Panicked | Some h' => apply_sets h' r end
      end
  end.

(* every pair is parsed before anything runs, so that BADCASE does not depend on where a panic happens *)
Definition all_parse (ws : list str) : bool :=
  forallb (fun w => match parse_pair w with Some _ => true | None => false end) ws.

Definition run_history (line : str) : str :=
  match fields line with
  | [f1; f2; f3] =>
      let ws := words f1 in
      match nonempty f2, parse_digits 65535 0 f2, nonempty f3, parse_digits 4294967295 0 f3 with
      | true, Some start, true, Some half =>
          if all_parse ws then
            match apply_sets hempty ws with
            | Bad => lit "BADCASE"
            | Panicked => lit "PANIC"
            | Done h =>
                match count_repetitions_u32 h start half with
                | None => lit "PANIC"
                | Some c => show_N c
                end
            end
          else lit "BADCASE"
      | _, _, _, _ => lit "BADCASE"
      end
  | _ => lit "BADCASE"
  end.

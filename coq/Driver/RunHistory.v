(* Driver/RunHistory.v : family `history`.
   Case line (TAB separated):
     field 1  space separated `index:hashhex` pairs, applied in order with `set` (index decimal u16, hash hex u64;
              the field may be empty)
     field 2  start index, decimal u16
     field 3  half-move clock, decimal u32 as held by the board; the `as u16` cast of search.rs is applied
   Observation: the count in decimal.  (The code cannot panic since fix aca2b0d; the Rust side still prints PANIC
   if it ever does, which would then be a mismatch.)  A malformed case line gives BADCASE. *)
Require Import Ink.Lib.Str.
Require Import NArith List Bool.
Import ListNotations.
Require Import Ink.Model.History.
Open Scope N_scope.

Definition parse_pair (w : str) : option (N * N) :=
  match split_on 58 w with                                   (* ':' *)
  | [a; b] =>
      match parse_digits 65535 0 a, parse_hex b with
      | Some i, Some v =>
          if nonempty a && (v <=? 18446744073709551615) then Some (i, v) else None
      | _, _ => None
      end
  | _ => None
  end.

(* None = malformed pair *)
Fixpoint apply_sets (h : hist) (ws : list str) : option hist :=
  match ws with
  | [] => Some h
  | w :: r =>
      match parse_pair w with
      | None => None
      | Some (i, v) => apply_sets (hset h i v) r
      end
  end.

Definition run_history (line : str) : str :=
  match fields line with
  | [f1; f2; f3] =>
      match nonempty f2, parse_digits 65535 0 f2, nonempty f3, parse_digits 4294967295 0 f3 with
      | true, Some start, true, Some half =>
          match apply_sets hempty (words f1) with
          | None => lit "BADCASE"
          | Some h => show_N (count_repetitions_u32 h start half)
          end
      | _, _, _, _ => lit "BADCASE"
      end
  | _ => lit "BADCASE"
  end.

(* Driver/RunUci.v : families `uciparse` and `ucimove` (property C15).

   uciparse   case line   = the command text, escaped per CONVENTIONS (one field; `unescape` gives the text handed to
                            `CommandParser::new(text).parse()`)
              observation = canonical rendering of the result (T = a TAB, <x> = escaped text):
                ok uci | ok isready | ok ucinewgame | ok stop | ok ponderhit | ok quit | ok registerlater
                ok debug on|off
                ok setoption <name>            ok setoptionvalue <name>T<value>         ok register <name>T<code>
                ok position <fen text> | m1 m2 ...            (moves in Display form, separated by one space)
                ok go sm=[m1 m2 ...] ponder=0|1 wtime=N|- btime=N|- winc=N|- binc=N|- mtg=N|- depth=N|- nodes=N|-
                      mate=N|- movetime=N|- inf=0|1           (durations in milliseconds)
                err unknown <w> | err eoc | err token <actual> | err fen | err int | err dup <w> | err move <s>
              The real parser additionally may print PANIC (never produced here).
   ucimove    case line   = a move text, escaped;  observation = `ok <Display form>` | `err`. *)
Require Import Ink.Lib.Str.
Require Import NArith List Bool.
Import ListNotations.
Require Import Ink.Model.UciParser.
Open Scope N_scope.

Definition show_opt (o : option N) : str := match o with Some n => show_N n | None => lit "-" end.
Definition show_flag (b : bool) : str := if b then lit "1" else lit "0".
Definition show_moves (ms : list uci_move) : str := join [32] (map show_move ms).

Definition show_go (g : go) : str :=
  lit "sm=[" ++ show_moves (search_moves g) ++ lit "] ponder=" ++ show_flag (ponder g) ++
  lit " wtime=" ++ show_opt (wtime g) ++ lit " btime=" ++ show_opt (btime g) ++
  lit " winc=" ++ show_opt (winc g) ++ lit " binc=" ++ show_opt (binc g) ++
  lit " mtg=" ++ show_opt (moves_to_go g) ++ lit " depth=" ++ show_opt (depth g) ++
  lit " nodes=" ++ show_opt (nodes g) ++ lit " mate=" ++ show_opt (mate g) ++
  lit " movetime=" ++ show_opt (movetime g) ++ lit " inf=" ++ show_flag (infinite g).

Definition show_command (c : command) : str :=
  match c with
  | Uci => lit "ok uci"
  | SetDebug b => lit "ok debug " ++ (if b then lit "on" else lit "off")
  | IsReady => lit "ok isready"
  | SetOption name => lit "ok setoption " ++ escape name
  | SetOptionValue name value => lit "ok setoptionvalue " ++ escape name ++ [tab] ++ escape value
  | RegisterLater => lit "ok registerlater"
  | Register name code => lit "ok register " ++ escape name ++ [tab] ++ escape code
  | UciNewGame => lit "ok ucinewgame"
  | PositionFrom fen ms => lit "ok position " ++ escape fen ++ lit " | " ++ show_moves ms
  | Go g => lit "ok go " ++ show_go g
  | Stop => lit "ok stop"
  | PonderHit => lit "ok ponderhit"
  | Quit => lit "ok quit"
  end.

Definition show_error (e : parser_error) : str :=
  match e with
  | UnknownCommand w => lit "err unknown " ++ escape w
  | UnexpectedEndOfCommand => lit "err eoc"
  | UnexpectedToken a => lit "err token " ++ escape a
  | InvalidFen => lit "err fen"
  | InvalidInt => lit "err int"
  | DuplicatedToken w => lit "err dup " ++ escape w
  | InvalidUciMove s => lit "err move " ++ escape s
  end.

Definition run_uciparse (line : str) : str :=
  match parse_command (unescape line) with
  | inr c => show_command c
  | inl e => show_error e
  end.

Definition run_ucimove (line : str) : str :=
  match parse_move (unescape line) with
  | Some m => lit "ok " ++ show_move m
  | None => lit "err"
  end.

(* Family dispatcher used by the extracted OCaml driver and by the in-Coq (vm_compute) cross-check. *)
Require Import Ink.Lib.Str.
Require Import NArith List Bool.
Require Import Ink.Model.Tables.
Require Import Ink.Driver.RunBoard Ink.Driver.RunTable Ink.Driver.RunHistory Ink.Driver.RunPgn Ink.Driver.RunLichess Ink.Driver.RunUci Ink.Driver.RunUciOut Ink.Driver.RunSan Ink.Driver.RunEval Ink.Driver.RunSearch.
Import ListNotations.

Definition families : list (str * (Tables.t -> str -> str)) :=
  [ (lit "movegen", run_movegen); (lit "movelist", run_movelist); (lit "make", run_make); (lit "unmake", run_unmake);
    (lit "check", run_check); (lit "fen", fun _ => run_fen); (lit "ucistr", run_ucistr); (lit "perft", run_perft);
    (lit "magic", run_magic);
    (lit "spec-movegen", fun _ => run_spec_movegen); (lit "spec-make", fun _ => run_spec_make);
    (lit "spec-check", fun _ => run_spec_check); (lit "spec-fen", fun _ => run_spec_fen); (lit "spec-perft", fun _ => run_spec_perft);
    (lit "table", fun _ => run_table); (lit "history", fun _ => run_history);
    (lit "pgn", fun _ => run_pgn);
    (lit "lichess", fun _ => run_lichess);
    (lit "uciparse", fun _ => run_uciparse); (lit "ucimove", fun _ => run_ucimove);
    (lit "spec-engineline", fun _ => run_spec_engineline); (lit "consoletx", fun _ => run_consoletx); (lit "consoletx-ok", fun _ => run_consoletx_ok);
    (lit "spec-san", fun _ => run_spec_san); (lit "spec-sanparse", fun _ => run_spec_sanparse);
    (lit "eval", run_eval); (lit "session", run_session) ].

Fixpoint lookup_family (name : str) (l : list (str * (Tables.t -> str -> str))) : option (Tables.t -> str -> str) :=
  match l with [] => None | (n, f) :: r => if str_eqb n name then Some f else lookup_family name r end.

Definition run (T : Tables.t) (family line : str) : str :=
  match lookup_family family families with Some f => f T line | None => lit "NOFAMILY" end.

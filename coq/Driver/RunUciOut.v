(* Driver/RunUciOut.v : families of property C16 (output side).

   spec-engineline   (Spec/UciOut.v only)
     case         one line written by the engine, escaped as ONE field (CONVENTIONS: \\ \t \n \r \s \u{HEX})
     observation  `bad`  |  `ok <summary>` with summary =
                    info depth=<D|-> nodes=<N|-> time=<T|-> score=<cp:X|mate:Y|-> pv=<m1,m2,..|->
                    bestmove best=<m|0000> ponder=<m|->
                    id | uciok | readyok | copyprotection | registration | option

   consoletx         (Model/ConsoleTx.v; Rust side harness/src/fam_consoletx.rs)
     case         TAB separated fields, every field escaped on its own; field 1 is the `UciTx` method:
                    idname <text> | idauthor <text> | uciok | readyok | debug <text>
                    bestmove <move|-> <move|->
                    copyprotection <checking|ok|error> | registration <checking|ok|error>
                    info <key>=<value> ...        any subset, any order, each key at most once; keys and values:
                        depth seldepth multipv currmovenumber hashfull tbhits sbhits cpuload   u32 decimal
                        nodes nps  u64 decimal        time  u64 decimal (milliseconds)
                        pv refutation  moves separated by `,` (an empty value is Some(empty list))
                        currmove  move        currline  <u32>:<moves>
                        score  cp:<i32> | cpl:<i32> (lower bound) | cpu:<i32> (upper bound) | mate:<i32>
                        string  text
                    optioncheck <name> <true|false> | optionspin <name> <i32> <i32> <i32>
                    optioncombo <name> <default> <var>* | optionbutton <name> | optionstring <name> <default>
                  move = [a-h][1-8][a-h][1-8][pnbrqk]?   (king and pawn promotions are representable in `UciMove`)
     observation  the rendered line (escaped), `NONE` (nothing on stdout), `PANIC`, or `BADCASE`

   consoletx-ok      (model only) same case; observation `ok` / `notok` = msg_ok of Proofs/ConsoleOk.v, or `BADCASE` *)
Require Import Ink.Lib.Str.
Require Import NArith ZArith List Bool.
Import ListNotations.
Require Import Ink.Spec.UciOut Ink.Model.ConsoleTx Ink.Proofs.ConsoleOk.
Open Scope N_scope.

(* ------------------------------------------------------------------ spec-engineline *)
Definition show_opt_N (o : option N) : str := match o with Some n => show_N n | None => [45] end.
Definition show_score_summary (o : option out_score) : str :=
  match o with
  | Some (SCp x _) => lit "cp:" ++ show_Z x
  | Some (SMate y _) => lit "mate:" ++ show_Z y
  | None => [45]
  end.
Definition show_pv_summary (o : option (list move_text)) : str :=
  match o with Some ms => join [44] ms | None => [45] end.

Definition summary (m : out_msg) : str :=
  match m with
  | OId _ _ => lit "id"
  | OUciOk => lit "uciok"
  | OReadyOk => lit "readyok"
  | OBestMove b p =>
      lit "bestmove best=" ++ match b with Some x => x | None => lit "0000" end
      ++ lit " ponder=" ++ match p with Some x => x | None => [45] end
  | OCopyProtection _ => lit "copyprotection"
  | ORegistration _ => lit "registration"
  | OInfo items =>
      lit "info depth=" ++ show_opt_N (info_depth items) ++ lit " nodes=" ++ show_opt_N (info_nodes items)
      ++ lit " time=" ++ show_opt_N (info_time items) ++ lit " score=" ++ show_score_summary (info_score items)
      ++ lit " pv=" ++ show_pv_summary (info_pv items)
  | OOption _ _ _ => lit "option"
  end.

Definition run_spec_engineline (line : str) : str :=
  match parse_engine_line (unescape line) with
  | Some m => lit "ok " ++ summary m
  | None => lit "bad"
  end.

(* ------------------------------------------------------------------ consoletx: decoding of a case *)
Definition U32MAX : N := 4294967295.
Definition U64MAX : N := 18446744073709551615.

Definition case_num (maxv : N) (x : str) : option N := if nonempty x then parse_digits maxv 0 x else None.
Definition case_int (x : str) : option Z :=
  match x with
  | [] => None
  | c :: r =>
      if c =? 45 then match case_num 2147483648 r with Some n => Some (- Z.of_N n)%Z | None => None end
      else match case_num 2147483647 x with Some n => Some (Z.of_N n) | None => None end
  end.

Definition case_square (f r : N) : option N :=
  if is_file_chr f && is_rank_chr r then Some ((f - 97) + 8 * (56 - r)) else None.
Definition case_piece (c : N) : option N :=
  if c =? 112 then Some 1 else if c =? 110 then Some 2 else if c =? 98 then Some 3
  else if c =? 114 then Some 4 else if c =? 113 then Some 5 else if c =? 107 then Some 6 else None.
Definition case_move (x : str) : option mv :=
  match x with
  | [a; b; c; d] =>
      match case_square a b, case_square c d with Some s, Some t => Some (s, t, None) | _, _ => None end
  | [a; b; c; d; e] =>
      match case_square a b, case_square c d, case_piece e with
      | Some s, Some t, Some p => Some (s, t, Some p)
      | _, _, _ => None
      end
  | _ => None
  end.
Definition case_moves (x : str) : option (list mv) :=
  match x with [] => Some [] | _ => all_some (map case_move (split_on 44 x)) end.
Definition case_opt_move (x : str) : option (option mv) :=
  if str_eqb x [45] then Some None else option_map Some (case_move x).

Definition case_score (x : str) : option score :=
  match split_on 58 x with
  | [k; v] =>
      match case_int v with
      | Some z =>
          if str_eqb k (lit "cp") then Some (Centipawn z)
          else if str_eqb k (lit "cpl") then Some (CentipawnBounded z LOWER)
          else if str_eqb k (lit "cpu") then Some (CentipawnBounded z UPPER)
          else if str_eqb k (lit "mate") then Some (Mate z)
          else None
      | None => None
      end
  | _ => None
  end.

Definition case_currline (x : str) : option (N * list mv) :=
  match split_on 58 x with
  | [n; ms] => match case_num U32MAX n, case_moves ms with Some a, Some b => Some (a, b) | _, _ => None end
  | _ => None
  end.

Definition case_protection (x : str) : option protection :=
  if str_eqb x (lit "checking") then Some CHECKING
  else if str_eqb x (lit "ok") then Some OK
  else if str_eqb x (lit "error") then Some ERROR
  else None.

Definition case_bool (x : str) : option bool :=
  if str_eqb x (lit "true") then Some true else if str_eqb x (lit "false") then Some false else None.

(* key=value: split at the first '=' (the key is plain, the value is unescaped afterwards) *)
Fixpoint split_kv (x : str) : option (str * str) :=
  match x with
  | [] => None
  | c :: r => if c =? 61 then Some ([], r)
              else match split_kv r with Some (k, v) => Some (c :: k, v) | None => None end
  end.

Definition case_keys : list str :=
  [lit "depth"; lit "seldepth"; lit "time"; lit "nodes"; lit "pv"; lit "multipv"; lit "score"; lit "currmove";
   lit "currmovenumber"; lit "hashfull"; lit "nps"; lit "tbhits"; lit "sbhits"; lit "cpuload"; lit "string";
   lit "refutation"; lit "currline"].

Fixpoint nodup_str (l : list str) : bool :=
  match l with [] => true | x :: r => negb (mem_str x r) && nodup_str r end.

Fixpoint lookup_kv (k : str) (l : list (str * str)) : option str :=
  match l with [] => None | (a, v) :: r => if str_eqb a k then Some v else lookup_kv k r end.

(* Some None = key absent, Some (Some x) = present, None = malformed value *)
Definition fieldv {A : Type} (kvs : list (str * str)) (k : str) (p : str -> option A) : option (option A) :=
  match lookup_kv k kvs with
  | None => Some None
  | Some v => match p v with Some x => Some (Some x) | None => None end
  end.

Local Notation "'do' x <- e ; k" := (match e with Some x => k | None => None end) (at level 200, x name, e at level 100, k at level 200).

Definition case_info (fs : list str) : option info_record :=
  do kvs <- all_some (map split_kv fs);
  if forallb (fun kv => mem_str (fst kv) case_keys) kvs && nodup_str (map fst kvs) then
    let kvs := map (fun kv => (fst kv, unescape (snd kv))) kvs in
    do a1 <- fieldv kvs (lit "depth") (case_num U32MAX);
    do a2 <- fieldv kvs (lit "seldepth") (case_num U32MAX);
    do a3 <- fieldv kvs (lit "time") (case_num U64MAX);
    do a4 <- fieldv kvs (lit "nodes") (case_num U64MAX);
    do a5 <- fieldv kvs (lit "pv") case_moves;
    do a6 <- fieldv kvs (lit "multipv") (case_num U32MAX);
    do a7 <- fieldv kvs (lit "score") case_score;
    do a8 <- fieldv kvs (lit "currmove") case_move;
    do a9 <- fieldv kvs (lit "currmovenumber") (case_num U32MAX);
    do a10 <- fieldv kvs (lit "hashfull") (case_num U32MAX);
    do a11 <- fieldv kvs (lit "nps") (case_num U64MAX);
    do a12 <- fieldv kvs (lit "tbhits") (case_num U32MAX);
    do a13 <- fieldv kvs (lit "sbhits") (case_num U32MAX);
    do a14 <- fieldv kvs (lit "cpuload") (case_num U32MAX);
    do a15 <- fieldv kvs (lit "string") (fun v => Some v);
    do a16 <- fieldv kvs (lit "refutation") case_moves;
    do a17 <- fieldv kvs (lit "currline") case_currline;
    Some {| i_depth := a1; i_selective_depth := a2; i_time := a3; i_nodes := a4; i_principal_variation := a5;
            i_multi_pv := a6; i_score := a7; i_current_move := a8; i_current_move_number := a9; i_hash_full := a10;
            i_nps := a11; i_table_hits := a12; i_shredder_table_hits := a13; i_cpu_load := a14; i_string := a15;
            i_refutation := a16; i_current_line := a17 |}
  else None.

Definition case_msg (line : str) : option tx_msg :=
  match fields line with
  | [] => None
  | m :: raw =>
      let args := map unescape raw in
      if str_eqb m (lit "info") then option_map Info (case_info raw)          (* values are unescaped after the key split *)
      else if str_eqb m (lit "idname") then match args with [t] => Some (IdName t) | _ => None end
      else if str_eqb m (lit "idauthor") then match args with [t] => Some (IdAuthor t) | _ => None end
      else if str_eqb m (lit "uciok") then match args with [] => Some UciOk | _ => None end
      else if str_eqb m (lit "readyok") then match args with [] => Some ReadyOk | _ => None end
      else if str_eqb m (lit "debug") then match args with [t] => Some (Debug t) | _ => None end
      else if str_eqb m (lit "bestmove") then
        match args with
        | [b; p] => match case_opt_move b, case_opt_move p with Some b', Some p' => Some (BestMove b' p') | _, _ => None end
        | _ => None
        end
      else if str_eqb m (lit "copyprotection") then
        match args with [p] => option_map CopyProtection (case_protection p) | _ => None end
      else if str_eqb m (lit "registration") then
        match args with [p] => option_map Registration (case_protection p) | _ => None end
      else if str_eqb m (lit "optioncheck") then
        match args with [n; d] => option_map (OptionCheck n) (case_bool d) | _ => None end
      else if str_eqb m (lit "optionspin") then
        match args with
        | [n; d; mn; mx] =>
            match case_int d, case_int mn, case_int mx with
            | Some d', Some mn', Some mx' => Some (OptionSpin n d' mn' mx')
            | _, _, _ => None
            end
        | _ => None
        end
      else if str_eqb m (lit "optioncombo") then
        match args with n :: d :: vars => Some (OptionCombo n d vars) | _ => None end
      else if str_eqb m (lit "optionbutton") then match args with [n] => Some (OptionButton n) | _ => None end
      else if str_eqb m (lit "optionstring") then match args with [n; d] => Some (OptionString n d) | _ => None end
      else None
  end.

Definition run_consoletx (line : str) : str :=
  match case_msg line with
  | None => lit "BADCASE"
  | Some m =>
      match tx m with
      | Panic => lit "PANIC"
      | Silent => lit "NONE"
      | Line s => escape s
      end
  end.

Definition run_consoletx_ok (line : str) : str :=
  match case_msg line with
  | None => lit "BADCASE"
  | Some m => if msg_ok m then lit "ok" else lit "notok"
  end.

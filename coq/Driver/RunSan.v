(* Spec-side families of property C14 (SAN): the oracle for Bitboard::uci_to_pgn / pgn_to_bb.
     spec-san       case <fen> TAB <uci>             obs  the standard SAN text of that legal move | ILLEGAL | BADFEN | NOTLEGAL
     spec-sanparse  case <fen> TAB <text, escaped>   obs  ok:<uci> | err | ambiguous | BADFEN | NOTLEGAL
   To be compared with family `ucistr` (api `pgn` resp. `san`) of harness/src/fam_board.rs: its observation is
   `<result> | <snapshot>`; `ok:<escaped san>` must equal `ok:` ++ spec-san, `ok:<uci>` must equal spec-sanparse,
   `err` must meet `err` or `ambiguous`. *)
Require Import Ink.Lib.Str.
Require Import NArith ZArith List Bool.
Require Import Ink.Spec.Rules Ink.Spec.FenSpec Ink.Spec.SanSpec.
Require Import Ink.Driver.RunBoard.
Import ListNotations.
Open Scope N_scope.

Definition run_spec_san (line : str) : str :=
  match fields line with
  | [f; u] =>
      with_pos f (fun p =>
        match find_mv p (trim (unescape u)) with
        | None => lit "ILLEGAL"
        | Some m => escape (san p m)
        end)
  | _ => lit "BADCASE"
  end.

Definition run_spec_sanparse (line : str) : str :=
  match fields line with
  | [f; t] =>
      with_pos f (fun p =>
        match parse_san p (unescape t) with
        | POk m => lit "ok:" ++ uci m
        | PErr => lit "err"
        | PAmbiguous => lit "ambiguous"
        end)
  | _ => lit "BADCASE"
  end.

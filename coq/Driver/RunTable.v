(* Family `table` (C18): case line -> observation line, on the MODEL of table.rs.
   case  : <capacity> TAB <ops>     ops = space separated  p<key>:<value> | g<key> | c | l
   obs   : one token per op, space separated:  - (put, clear) | S<value> | N (get) | L<len>
           PANIC if the model takes the panic branch, ERR on a malformed line.
   The queue order is not observable through the Rust API and is not printed. *)
Require Import Ink.Lib.Str.
Require Import NArith List Bool.
Import ListNotations.
Require Import Ink.Spec.FifoMap Ink.Model.HashTable.
Open Scope N_scope.

Definition parse_table_op (w : str) : option (op N) :=
  match w with
  | 112 (* p *) :: r =>
      match split_on 58 (* : *) r with
      | [ks; vs] =>
          match parse_u64 ks, parse_u64 vs with
          | Some k, Some v => Some (Put k v)
          | _, _ => None
          end
      | _ => None
      end
  | 103 (* g *) :: r => match parse_u64 r with Some k => Some (Get k) | None => None end
  | [99] (* c *) => Some Clear
  | [108] (* l *) => Some Len
  | _ => None
  end.

Fixpoint parse_table_ops (ws : list str) : option (list (op N)) :=
  match ws with
  | [] => Some []
  | w :: r =>
      match parse_table_op w, parse_table_ops r with
      | Some o, Some os => Some (o :: os)
      | _, _ => None
      end
  end.

Definition show_table_out (o : out N) : str :=
  match o with
  | OUnit => lit "-"
  | OGet (Some v) => lit "S" ++ show_N v
  | OGet None => lit "N"
  | OLen n => lit "L" ++ show_N (N.of_nat n)
  end.

Definition run_table (line : str) : str :=
  match fields line with
  | [capf; opsf] =>
      match parse_u64 capf, parse_table_ops (words opsf) with
      | Some c, Some ops =>
          match HashTable.run N (HashTable.new N (N.to_nat c)) ops with
          | Some (_, outs) => join (lit " ") (map show_table_out outs)
          | None => lit "PANIC"
          end
      | _, _ => lit "ERR"
      end
  | _ => lit "ERR"
  end.

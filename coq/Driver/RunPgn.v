(* Family `pgn` (property C17): case line -> observation line, mirrored by /verif/harness/src/fam_pgn.rs.

   Case line (TAB fields):
     1. chunk size (decimal, >= 1)
     2. fragmentation list: space separated decimals (k-th `read` returns min(max(1,frag[k]), buf.len(), remaining);
        once the list is used up the buffer is filled)
     3. file content, escaped (code points are taken modulo 256 = bytes)
   Observation: items separated by ` || `; a game is `T k=v;k=v M san{comment}|san|...` (tags sorted by key, all
   texts escaped), an error item is `ERR:closed|consume|symbol`.  At most 1000 items.
   A fragment size larger than the chunk size behaves like the chunk size (buf.len() <= chunk size), so sizes are
   clamped before they become `nat`.  Numbers are read like Rust's usize::from_str (`parse_u64`). *)
Require Import Ink.Lib.Str.
Require Import NArith List Bool.
Import ListNotations.
Require Import Ink.Model.PgnReader.
Local Open Scope N_scope.

Fixpoint str_leb (a b : str) : bool :=
  match a, b with
  | [], _ => true
  | _ :: _, [] => false
  | x :: a', y :: b' => if x <? y then true else if y <? x then false else str_leb a' b'
  end.

Fixpoint insert_tag (kv : str * str) (l : list (str * str)) : list (str * str) :=
  match l with
  | [] => [kv]
  | kv' :: r => if str_leb (fst kv) (fst kv') then kv :: l else kv' :: insert_tag kv r
  end.
Definition sort_tags (l : list (str * str)) : list (str * str) := fold_right insert_tag [] l.

Definition show_tag (kv : str * str) : str := escape (fst kv) ++ [61] ++ escape (snd kv).
Definition show_move (m : raw_move) : str :=
  match snd m with
  | Some a => escape (fst m) ++ [123] ++ escape a ++ [125]
  | None => escape (fst m)
  end.
Definition show_game (g : raw_game) : str :=
  lit "T " ++ join [59] (map show_tag (sort_tags (fst g))) ++ lit " M " ++ join [124] (map show_move (snd g)).

Definition show_item (r : res raw_game) : str :=
  match r with
  | Ok g => show_game g
  | Err EClosed => lit "ERR:closed"
  | Err (EConsume _ _) => lit "ERR:consume"
  | Err (ESymbol _) => lit "ERR:symbol"
  | Err EPanic => lit "PANIC"
  | Err EFuel => lit "FUEL"
  end.

Fixpoint map_filter {A B : Type} (f : A -> option B) (l : list A) : list B :=
  match l with
  | [] => []
  | x :: r => match f x with Some y => y :: map_filter f r | None => map_filter f r end
  end.

Definition run_with (runner : nat -> list nat -> list N -> list (res raw_game)) (line : str) : str :=
  match fields line with
  | f1 :: f2 :: f3 :: _ =>
      match parse_u64 f1 with
      | Some chunk =>
          if chunk =? 0 then lit "BADCASE"
          else
            let frag := map (fun f => N.to_nat (N.min f chunk)) (map_filter parse_u64 (words f2)) in
            let bytes := map (fun c => c mod 256) (unescape f3) in
            join (lit " || ") (map show_item (firstn 1000%nat (runner (N.to_nat chunk) frag bytes)))
      | None => lit "BADCASE"
      end
  | _ => lit "BADCASE"
  end.

Definition run_pgn : str -> str := run_with run_concrete.
(* the frozen model of the pinned (unfixed) reader, for the record of the findings D13-D15 *)
Definition run_pgn_pinned : str -> str := run_with run_pinned.

(* Spec: a bounded map with first-in-first-out eviction.  Oldest entry first.
   Written independently of the implementation model (Model/HashTable.v). *)
Require Import NArith List Bool Arith.
Import ListNotations.

Section FifoMap.
Variable V : Type.
Definition K := N.

Inductive op := Put (k : K) (v : V) | Get (k : K) | Clear | Len.
Inductive out := OUnit | OGet (r : option V) | OLen (n : nat).

Definition fifo := list (K * V).

Fixpoint lookup (k : K) (s : fifo) : option V :=
  match s with
  | [] => None
  | (k', v) :: r => if N.eqb k k' then Some v else lookup k r
  end.

(* replace the value stored under k, keeping its place (age) in the queue *)
Fixpoint update (k : K) (v : V) (s : fifo) : option fifo :=
  match s with
  | [] => None
  | (k', v') :: r =>
      if N.eqb k k' then Some ((k', v) :: r)
      else match update k v r with Some r' => Some ((k', v') :: r') | None => None end
  end.

Definition put (cap : nat) (s : fifo) (k : K) (v : V) : fifo :=
  let s1 := match update k v s with Some s' => s' | None => s ++ [(k, v)] end in
  if Nat.ltb cap (length s1) then tl s1 else s1.

Definition step (cap : nat) (s : fifo) (o : op) : fifo * out :=
  match o with
  | Put k v => (put cap s k v, OUnit)
  | Get k => (s, OGet (lookup k s))
  | Clear => ([], OUnit)
  | Len => (s, OLen (length s))
  end.

Fixpoint run (cap : nat) (s : fifo) (ops : list op) : fifo * list out :=
  match ops with
  | [] => (s, [])
  | o :: r => let (s1, x) := step cap s o in let (s2, xs) := run cap s1 r in (s2, x :: xs)
  end.

End FifoMap.
Arguments Put {V}. Arguments Get {V}. Arguments Clear {V}. Arguments Len {V}.
Arguments OUnit {V}. Arguments OGet {V}. Arguments OLen {V}.

(* The Lichess PGN export layout, as a renderer from game collections to bytes.

     [Event "Rated Blitz game"]           one line per tag pair:  [Name "Value"]
     [Site "https://lichess.org/abc"]
     ...
                                          a blank line
     1. e4 { [%clk 0:03:00] } 1... c5 { [%clk 0:03:00] } 2. Nf3 ... 1-0      the movetext, ONE line
                                          a blank line between games

   White moves always carry their move number `N.`, black moves carry `N...` or nothing (a per-game flag:
   Lichess prints `N...` after a comment, i.e. in exports with clock/eval comments), a comment `{text}` follows
   its move after one space, the result token ends the line.  The last line may or may not end with newlines.

   What a reader has to return for such a file is `raw_of`: the tag pairs as a finite map (a later duplicate of
   a tag name overrides the earlier value) and the SAN tokens in order, each with its comment text (everything
   between the braces, so ` [%clk 0:03:00] ` keeps its blanks). *)
Require Import Ink.Lib.Str.
Require Import NArith List Bool.
Import ListNotations.
Local Open Scope N_scope.

Inductive game_result : Type := WhiteWins | BlackWins | Drawn | Unfinished.
Definition result_token (r : game_result) : str :=
  match r with
  | WhiteWins => lit "1-0"
  | BlackWins => lit "0-1"
  | Drawn => lit "1/2-1/2"
  | Unfinished => lit "*"
  end.
Definition all_results : list game_result := [WhiteWins; BlackWins; Drawn; Unfinished].

Record game : Type := {
  g_tags : list (str * str);              (* (name, value) in file order *)
  g_moves : list (str * option str);      (* (SAN, comment text between the braces) *)
  g_black_numbers : bool;                 (* `N...` before black moves *)
  g_result : game_result
}.

(* ---- rendering ---- *)
Definition render_tag (kv : str * str) : str :=
  [91] ++ fst kv ++ [32; 34] ++ snd kv ++ [34; 93; 10].           (* [name "value"]\n *)
Definition render_tags (tags : list (str * str)) : str := flat_map render_tag tags.

(* ply 0 is White's first move *)
Definition move_number (black_numbers : bool) (ply : N) : str :=
  if N.even ply then show_N (ply / 2 + 1) ++ [46; 32]                        (* "N. " *)
  else if black_numbers then show_N (ply / 2 + 1) ++ [46; 46; 46; 32]        (* "N... " *)
  else [].

Definition render_comment (c : option str) : str :=
  match c with
  | None => []
  | Some text => [32; 123] ++ text ++ [125]                                  (* " {text}" *)
  end.

(* every move is followed by one space; the result token comes directly after the last one *)
Fixpoint render_moves (black_numbers : bool) (ply : N) (ms : list (str * option str)) : str :=
  match ms with
  | [] => []
  | (san, c) :: r =>
      move_number black_numbers ply ++ san ++ render_comment c ++ [32]
      ++ render_moves black_numbers (ply + 1) r
  end.

(* a game WITHOUT the newline that ends its movetext line *)
Definition render_game (g : game) : str :=
  render_tags (g_tags g) ++ [10]
  ++ render_moves (g_black_numbers g) 0 (g_moves g) ++ result_token (g_result g).

(* games are separated by end-of-line + blank line; the file ends with [trailing] newlines *)
Fixpoint render_n (gs : list game) (trailing : nat) : str :=
  match gs with
  | [] => repeat 10 trailing
  | g :: r =>
      render_game g ++
      match r with
      | [] => repeat 10 trailing
      | _ :: _ => [10; 10] ++ render_n r trailing
      end
  end.

Definition render (gs : list game) (trailing_newline : bool) : str :=
  render_n gs (if trailing_newline then 1%nat else 0%nat).

(* ---- what has to come out ---- *)
Fixpoint tag_set (k v : str) (m : list (str * str)) : list (str * str) :=
  match m with
  | [] => [(k, v)]
  | (k', v') :: r => if str_eqb k k' then (k', v) :: r else (k', v') :: tag_set k v r
  end.
Definition tags_of (tags : list (str * str)) : list (str * str) :=
  fold_left (fun m kv => tag_set (fst kv) (snd kv) m) tags [].

Definition raw_of (g : game) : list (str * str) * list (str * option str) :=
  (tags_of (g_tags g), g_moves g).

(* ---- side conditions: the texts must not contain their own delimiters ---- *)
(* tag name: no space; tag value: no double quote *)
Definition tag_okb (kv : str * str) : bool :=
  negb (contains_chr 32 (fst kv)) && negb (contains_chr 34 (snd kv)).

(* SAN token: not empty; no space, newline or `.`; does not start with `{` or `;`; is not a result token.
   (`O-O`, `O-O-O`, `e8=Q+`, `Nbxd2#`, ... all qualify.) *)
Definition san_char_okb (c : N) : bool := negb (c =? 32) && negb (c =? 10) && negb (c =? 46).
Definition san_okb (san : str) : bool :=
  match san with
  | [] => false
  | c :: _ => negb (c =? 123) && negb (c =? 59)
  end
  && forallb san_char_okb san
  && negb (mem_str san (map result_token all_results)).

(* comment text: no closing brace *)
Definition comment_okb (c : option str) : bool :=
  match c with None => true | Some text => negb (contains_chr 125 text) end.

Definition move_okb (m : str * option str) : bool := san_okb (fst m) && comment_okb (snd m).

(* at least one tag pair (every Lichess game has the seven-tag roster) *)
Definition game_okb (g : game) : bool :=
  match g_tags g with [] => false | _ :: _ => true end && forallb tag_okb (g_tags g) && forallb move_okb (g_moves g).

Definition layout_ok (gs : list game) : Prop := forallb game_okb gs = true.

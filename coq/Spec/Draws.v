(* Spec for the repetition part of C10, written without reference to the implementation's array/loop.

   Index level.  A history is any total function k : N -> N (index = ply clock, value = position key).
   [window i hm]       the indices the engine is supposed to inspect for the entry at index i when hm
                       reversible plies led to it: same parity as i, at least 4 below i, not below i - hm
                       (nor below 0), listed in descending order.
   [occurrences]       how many of them hold the same key as index i.
   [all_occurrences]   how many of ALL earlier indices within hm plies hold the same key as index i.

   Chess level.  [earlier_equal keys hm]: keys = position keys of the game, oldest first, the last one is the
   current position; hm = its half-move clock.  Number of positions among the hm preceding ones (the ones
   reached since the last capture / pawn move) that equal the current one.  The current position has then
   occurred [1 + earlier_equal keys hm] times, and [threefold keys hm] says this is at least three.

   Two facts of chess are NOT proved here but stated as hypotheses on the key sequence:
   [parity_ok]  positions at odd distance have the other side to move, hence differ;
   [no_dist2]   the position two plies ago differs (both sides would have to take their move back, which
                needs two further plies). *)
Require Import NArith List Bool.
Import ListNotations.
Open Scope N_scope.

(* [n-1; n-2; ...; 0] *)
Definition below (n : N) : list N := N.peano_rect (fun _ => list N) [] (fun k acc => k :: acc) n.

Fixpoint countb (f : N -> bool) (l : list N) : N :=
  match l with [] => 0 | x :: r => (if f x then 1 else 0) + countb f r end.

Definition in_window (i hm j : N) : bool :=
  (j mod 2 =? i mod 2) && (j + 4 <=? i) && (i - hm <=? j).      (* i - hm is truncated: max 0 (i - hm) *)

Definition window (i hm : N) : list N := filter (in_window i hm) (below i).

Definition occurrences (k : N -> N) (i hm : N) : N := countb (fun j => k j =? k i) (window i hm).

Definition all_occurrences (k : N -> N) (i hm : N) : N :=
  countb (fun j => k j =? k i) (filter (fun j => i - hm <=? j) (below i)).

(* hypotheses on the key sequence, index level *)
Definition parity_ok (k : N -> N) (i hm : N) : Prop :=
  forall j, j < i -> i - hm <= j -> (i - j) mod 2 = 1 -> k j <> k i.
Definition no_dist2 (k : N -> N) (i hm : N) : Prop :=
  forall j, j + 2 = i -> 2 <= hm -> k j <> k i.

(* ---- chess level: lists of keys ---- *)
Fixpoint take (n : N) (l : list N) : list N :=
  match l with [] => [] | x :: r => if n =? 0 then [] else x :: take (n - 1) r end.

Fixpoint nth_errorN (n : N) (l : list N) : option N :=
  match l with [] => None | x :: r => if n =? 0 then Some x else nth_errorN (n - 1) r end.

Definition lenN (l : list N) : N := N.of_nat (length l).

(* cur = current key, prevs = earlier keys, NEWEST first (distance d+1 at position d) *)
Definition earlier_equal_rev (cur : N) (prevs : list N) (hm : N) : N := countb (N.eqb cur) (take hm prevs).

Definition earlier_equal (keys : list N) (hm : N) : N :=
  match rev keys with [] => 0 | cur :: prevs => earlier_equal_rev cur prevs hm end.

Definition threefold (keys : list N) (hm : N) : Prop := 2 <= earlier_equal keys hm.

Definition parity_ok_rev (cur : N) (prevs : list N) : Prop :=
  forall d x, nth_errorN d prevs = Some x -> d mod 2 = 0 -> x <> cur.      (* distance d+1 is odd *)
Definition no_dist2_rev (cur : N) (prevs : list N) : Prop :=
  forall x, nth_errorN 1 prevs = Some x -> x <> cur.                       (* distance 2 *)

Definition parity_ok_keys (keys : list N) : Prop :=
  match rev keys with [] => True | cur :: prevs => parity_ok_rev cur prevs end.
Definition no_dist2_keys (keys : list N) : Prop :=
  match rev keys with [] => True | cur :: prevs => no_dist2_rev cur prevs end.

(* the history function k holds the game [keys] such that the current (last) key sits at index i *)
Definition holds_game (k : N -> N) (i : N) (keys : list N) : Prop :=
  lenN keys <= i + 1 /\ forall d x, nth_errorN d (rev keys) = Some x -> k (i - d) = x.

(* The rules of chess (FIDE Laws, articles 3 and 5.2/9 as far as move legality, check, mate and stalemate go)
   on a mailbox position.  Written without reference to bitboards or to the implementation.
   Squares are numbered 0..63 with 0 = a8, 7 = h8, 56 = a1, 63 = h1: file = sq mod 8 (0 = a), row = sq / 8 (0 = rank 8). *)
Require Import Ink.Lib.Str.
Require Import NArith ZArith List Bool.
Import ListNotations.
Open Scope Z_scope.

Inductive color := White | Black.
Inductive kind := Pawn | Knight | Bishop | Rook | Queen | King.
Definition piece := (color * kind)%type.

Record pos := {
  cells : list (option piece);          (* 64 entries *)
  to_move : color;
  wk : bool; wq : bool; bk : bool; bq : bool;    (* castling rights: white/black king-/queen-side *)
  epsq : option Z;                      (* en-passant target square, if the last move was a double pawn push *)
  halfc : N; fullc : N
}.

Record mv := { from : Z; to : Z; prom : option kind }.

Definition color_eqb (a b : color) := match a, b with White, White | Black, Black => true | _, _ => false end.
Definition kind_eqb (a b : kind) :=
  match a, b with Pawn, Pawn | Knight, Knight | Bishop, Bishop | Rook, Rook | Queen, Queen | King, King => true | _, _ => false end.
Definition opp (c : color) := match c with White => Black | Black => White end.

Definition fileZ (s : Z) := s mod 8.
Definition rowZ (s : Z) := s / 8.
Definition sq_of (f r : Z) := f + 8 * r.
Definition on_board (f r : Z) := (0 <=? f) && (f <? 8) && (0 <=? r) && (r <? 8).
Definition get (p : pos) (s : Z) : option piece := nth (Z.to_nat s) (cells p) None.

Fixpoint set_nth {A} (l : list A) (i : nat) (v : A) : list A :=
  match l, i with
  | [], _ => []
  | _ :: r, O => v :: r
  | x :: r, S k => x :: set_nth r k v
  end.
Definition put (cs : list (option piece)) (s : Z) (v : option piece) := set_nth cs (Z.to_nat s) v.

Definition squares : list Z := map Z.of_nat (seq 0 64).

Definition orth : list (Z * Z) := [(0,-1); (1,0); (0,1); (-1,0)].
Definition diag : list (Z * Z) := [(1,-1); (1,1); (-1,1); (-1,-1)].
Definition knight_steps : list (Z * Z) := [(1,-2); (2,-1); (2,1); (1,2); (-1,2); (-2,1); (-2,-1); (-1,-2)].
Definition forward (c : color) : Z := match c with White => -1 | Black => 1 end.   (* row delta of a pawn advance *)
Definition start_row (c : color) : Z := match c with White => 6 | Black => 1 end.
Definition last_row (c : color) : Z := match c with White => 0 | Black => 7 end.

(* squares reached by sliding from (f,r) in direction d: empty squares, then the first occupied one *)
Fixpoint slide (p : pos) (n : nat) (f r : Z) (d : Z * Z) : list Z :=
  match n with
  | O => []
  | S k =>
      let f' := f + fst d in let r' := r + snd d in
      if on_board f' r' then
        match get p (sq_of f' r') with
        | None => sq_of f' r' :: slide p k f' r' d
        | Some _ => [sq_of f' r']
        end
      else []
  end.

Definition step_targets (f r : Z) (ds : list (Z * Z)) : list Z :=
  flat_map (fun d => let f' := f + fst d in let r' := r + snd d in if on_board f' r' then [sq_of f' r'] else []) ds.

(* squares a piece standing on s attacks (pawns: the two diagonal squares ahead) *)
Definition attacked_from (p : pos) (s : Z) (pc : piece) : list Z :=
  let f := fileZ s in let r := rowZ s in
  match snd pc with
  | Pawn => step_targets f r [(-1, forward (fst pc)); (1, forward (fst pc))]
  | Knight => step_targets f r knight_steps
  | King => step_targets f r (orth ++ diag)
  | Bishop => flat_map (slide p 7 f r) diag
  | Rook => flat_map (slide p 7 f r) orth
  | Queen => flat_map (slide p 7 f r) (orth ++ diag)
  end.

Definition zmem (x : Z) (l : list Z) := existsb (Z.eqb x) l.

(* is square t attacked by some piece of colour c? *)
Definition attacked (p : pos) (t : Z) (c : color) : bool :=
  existsb (fun s => match get p s with
                    | Some pc => color_eqb (fst pc) c && zmem t (attacked_from p s pc)
                    | None => false end) squares.

Definition king_sq (p : pos) (c : color) : option Z :=
  find (fun s => match get p s with Some (c', King) => color_eqb c c' | _ => false end) squares.
Definition in_check (p : pos) (c : color) : bool :=
  match king_sq p c with Some k => attacked p k (opp c) | None => false end.

Definition own (p : pos) (c : color) (s : Z) := match get p s with Some (c', _) => color_eqb c c' | None => false end.
Definition enemy (p : pos) (c : color) (s : Z) := match get p s with Some (c', _) => negb (color_eqb c c') | None => false end.
Definition empty (p : pos) (s : Z) := match get p s with None => true | Some _ => false end.

Definition promo_kinds : list kind := [Queen; Rook; Bishop; Knight].
Definition pawn_to (c : color) (s t : Z) : list mv :=
  if rowZ t =? last_row c then map (fun k => {| from := s; to := t; prom := Some k |}) promo_kinds
  else [{| from := s; to := t; prom := None |}].

Definition home_row (c : color) : Z := match c with White => 7 | Black => 0 end.

(* moves that obey the movement rules of the pieces, ignoring whether the own king is left in check *)
Definition piece_moves (p : pos) (s : Z) (pc : piece) : list mv :=
  let c := fst pc in let f := fileZ s in let r := rowZ s in
  match snd pc with
  | Pawn =>
      let r1 := r + forward c in
      let push := if on_board f r1 && empty p (sq_of f r1) then
                    pawn_to c s (sq_of f r1) ++
                    (if (r =? start_row c) && empty p (sq_of f (r1 + forward c))
                     then [{| from := s; to := sq_of f (r1 + forward c); prom := None |}] else [])
                  else [] in
      let caps := flat_map (fun t => if enemy p c t || (match epsq p with Some e => e =? t | None => false end)
                                     then pawn_to c s t else [])
                           (attacked_from p s pc) in
      push ++ caps
  | King =>
      map (fun t => {| from := s; to := t; prom := None |}) (filter (fun t => negb (own p c t)) (attacked_from p s pc)) ++
      (let h := home_row c in
       let e := sq_of 4 h in
       if (s =? e) && negb (attacked p e (opp c)) then
         (if (match c with White => wk p | Black => bk p end)
             && empty p (sq_of 5 h) && empty p (sq_of 6 h)
             && negb (attacked p (sq_of 5 h) (opp c)) && negb (attacked p (sq_of 6 h) (opp c))
          then [{| from := s; to := sq_of 6 h; prom := None |}] else []) ++
         (if (match c with White => wq p | Black => bq p end)
             && empty p (sq_of 3 h) && empty p (sq_of 2 h) && empty p (sq_of 1 h)
             && negb (attacked p (sq_of 3 h) (opp c)) && negb (attacked p (sq_of 2 h) (opp c))
          then [{| from := s; to := sq_of 2 h; prom := None |}] else [])
       else [])
  | _ => map (fun t => {| from := s; to := t; prom := None |}) (filter (fun t => negb (own p c t)) (attacked_from p s pc))
  end.

Definition pseudo_moves (p : pos) : list mv :=
  flat_map (fun s => match get p s with
                     | Some pc => if color_eqb (fst pc) (to_move p) then piece_moves p s pc else []
                     | None => [] end) squares.

Definition is_castling (p : pos) (m : mv) : bool :=
  match get p (from m) with Some (_, King) => Z.abs (fileZ (to m) - fileZ (from m)) =? 2 | _ => false end.
Definition is_ep_capture (p : pos) (m : mv) : bool :=
  match get p (from m), epsq p with
  | Some (_, Pawn), Some e => (to m =? e) && negb (fileZ (to m) =? fileZ (from m))
  | _, _ => false end.
Definition is_capture (p : pos) (m : mv) : bool := negb (empty p (to m)) || is_ep_capture p m.
Definition is_pawn_move (p : pos) (m : mv) : bool := match get p (from m) with Some (_, Pawn) => true | _ => false end.

(* the successor position *)
Definition apply (p : pos) (m : mv) : pos :=
  let c := to_move p in
  match get p (from m) with
  | None => p
  | Some pc =>
      let cs0 := put (cells p) (from m) None in
      let placed := match prom m with Some k => Some (c, k) | None => Some pc end in
      let cs1 := put cs0 (to m) placed in
      let cs2 := if is_ep_capture p m then put cs1 (sq_of (fileZ (to m)) (rowZ (from m))) None else cs1 in
      let cs3 := if is_castling p m then
                   let h := rowZ (from m) in
                   if fileZ (to m) =? 6 then put (put cs2 (sq_of 7 h) None) (sq_of 5 h) (Some (c, Rook))
                   else put (put cs2 (sq_of 0 h) None) (sq_of 3 h) (Some (c, Rook))
                 else cs2 in
      let touches s := (from m =? s) || (to m =? s) in
      {| cells := cs3; to_move := opp c;
         wk := wk p && negb (touches 60) && negb (touches 63);
         wq := wq p && negb (touches 60) && negb (touches 56);
         bk := bk p && negb (touches 4) && negb (touches 7);
         bq := bq p && negb (touches 4) && negb (touches 0);
         epsq := if is_pawn_move p m && (Z.abs (rowZ (to m) - rowZ (from m)) =? 2)
                 then Some (sq_of (fileZ (from m)) ((rowZ (from m) + rowZ (to m)) / 2)) else None;
         halfc := if is_pawn_move p m || is_capture p m then 0%N else (halfc p + 1)%N;
         fullc := match c with Black => (fullc p + 1)%N | White => fullc p end |}
  end.

Definition legal (p : pos) (m : mv) : bool := negb (in_check (apply p m) (to_move p)).
Definition legal_moves (p : pos) : list mv := filter (legal p) (pseudo_moves p).
Definition capture_or_promotion (p : pos) (m : mv) : bool := is_capture p m || match prom m with Some _ => true | None => false end.

Definition checkmate (p : pos) : bool := match legal_moves p with [] => in_check p (to_move p) | _ => false end.
Definition stalemate (p : pos) : bool := match legal_moves p with [] => negb (in_check p (to_move p)) | _ => false end.

Fixpoint perft (d : nat) (p : pos) : N :=
  match d with
  | O => 1%N
  | S k => fold_left (fun acc m => (acc + perft k (apply p m))%N) (legal_moves p) 0%N
  end.

(* ---------- text ---------- *)
Definition kind_letter (k : kind) : N :=
  match k with Pawn => 112 | Knight => 110 | Bishop => 98 | Rook => 114 | Queen => 113 | King => 107 end%N.
Definition sq_text (s : Z) : str := [(97 + Z.to_N (fileZ s))%N; (48 + (8 - Z.to_N (rowZ s)))%N].
Definition uci (m : mv) : str := sq_text (from m) ++ sq_text (to m) ++ match prom m with Some k => [kind_letter k] | None => [] end.

(* a position is "legal" in the sense the properties use: one king each, side not to move not in check,
   no pawns on the first/last row, rights consistent with king/rook placement, e.p. target consistent *)
Definition count_kind (p : pos) (c : color) (k : kind) : nat :=
  length (filter (fun s => match get p s with Some (c', k') => color_eqb c c' && kind_eqb k k' | None => false end) squares).
Definition is_piece (p : pos) (s : Z) (c : color) (k : kind) : bool :=
  match get p s with Some (c', k') => color_eqb c c' && kind_eqb k k' | None => false end.
Definition ep_consistent (p : pos) : bool :=
  match epsq p with
  | None => true
  | Some e =>
      let mover := opp (to_move p) in      (* the side that just double-pushed *)
      (rowZ e =? (match mover with White => 5 | Black => 2 end)) &&
      is_piece p (sq_of (fileZ e) (rowZ e + forward mover)) mover Pawn &&
      empty p e && empty p (sq_of (fileZ e) (rowZ e - forward mover))
  end.
Definition legal_pos (p : pos) : bool :=
  Nat.eqb (length (cells p)) 64 && Nat.eqb (count_kind p White King) 1 && Nat.eqb (count_kind p Black King) 1
  && negb (in_check p (opp (to_move p)))
  && forallb (fun s => negb (is_piece p s White Pawn || is_piece p s Black Pawn)) (map Z.of_nat (seq 0 8 ++ seq 56 8))
  && (negb (wk p) || (is_piece p 60 White King && is_piece p 63 White Rook))
  && (negb (wq p) || (is_piece p 60 White King && is_piece p 56 White Rook))
  && (negb (bk p) || (is_piece p 4 Black King && is_piece p 7 Black Rook))
  && (negb (bq p) || (is_piece p 4 Black King && is_piece p 0 Black Rook))
  && ep_consistent p.

(* Spec/Minimax.v : what "the exact minimax value of a fixed-depth search" MEANS (property C08), on an
   abstract two-player zero-sum game.  Nothing here looks at alpha-beta windows, move ordering or the
   transposition table.

   All values are from the point of view of the side to move at the position they are attached to
   (negamax convention; search.rs `evaluate` multiplies the white-view heuristic by +1/-1).

   pos           positions (for chess: board incl. clocks, see Model/Board.v)
   succs p       positions reached by the LEGAL moves of p
   noisy_succs p positions reached by the legal captures / promotions of p   (sub-list of succs p)
   noisy_any p   the test the code uses to decide whether quiescence is entered at the horizon: "some
                 PSEUDO-legal move is a capture / promotion" (Bitboard::is_any_move_non_quiescent)
   static p      static evaluation, mover's view: `evaluate(.., legal_moves_remaining = true)`
   terminal p    value of a position without legal move (mate / stalemate), mover's view:
                 `evaluate(.., legal_moves_remaining = false)`
   qmeasure p    a number that strictly decreases along noisy_succs (chess: number of pieces, with
                 promotions counted suitably) - makes capture resolution terminate. *)
Require Import NArith ZArith List Bool Permutation.
Import ListNotations.
Open Scope Z_scope.

Section Game.
Variable pos : Type.
Variable succs : pos -> list pos.
Variable noisy_succs : pos -> list pos.
Variable noisy_any : pos -> bool.
Variable static : pos -> Z.
Variable terminal : pos -> Z.
Variable qmeasure : pos -> nat.

(* ---- what an instance has to satisfy (used as hypotheses by the files in Proofs) ---- *)
Definition noisy_sub : Prop := forall p q, In q (noisy_succs p) -> In q (succs p).
Definition qmeasure_dec : Prop := forall p q, In q (noisy_succs p) -> (qmeasure q < qmeasure p)%nat.
Definition noisy_any_ok : Prop := forall p, noisy_any p = false -> noisy_succs p = [].

(* max (acc, max over c in l of - f c) *)
Fixpoint maxneg (f : pos -> Z) (l : list pos) (acc : Z) : Z :=
  match l with [] => acc | c :: r => maxneg f r (Z.max acc (- f c)) end.

Definition nomoves (p : pos) : bool := match succs p with [] => true | _ :: _ => false end.

(* ---- exhaustive capture / promotion resolution with stand pat ---- *)
(* qs p = max (static p) (max over q in noisy_succs p of - qs q); recursion on fuel, [qs] uses fuel = qmeasure p,
   which is enough by qmeasure_dec (Proofs/MinimaxProofs.v: qs_unfold, qs_fuel_enough). *)
Fixpoint qs_fuel (fuel : nat) (p : pos) : Z :=
  match fuel with
  | O => static p
  | S k => maxneg (qs_fuel k) (noisy_succs p) (static p)
  end.
Definition qs (p : pos) : Z := qs_fuel (qmeasure p) p.

(* ---- value of a position at the search horizon ---- *)
Definition horizon (p : pos) : Z :=
  if nomoves p then terminal p else if noisy_any p then qs p else static p.

(* ---- exact negamax value of depth d ---- *)
Fixpoint nm (d : nat) (p : pos) : Z :=
  match succs p with
  | [] => terminal p
  | c :: r => match d with
              | O => horizon p
              | S k => maxneg (nm k) r (- nm k c)
              end
  end.

(* ---- forced mate ---- *)
Variable checkmated : pos -> bool.                 (* no legal move and in check *)
Definition checkmated_ok : Prop := forall p, checkmated p = true -> succs p = [].

(* win_in n p  : the side to move at p can force checkmate with at most n of its own moves.
   lose_in k q : the side to move at q is checkmated now, or has moves and every one of them leads to a
                 position where the opponent wins in at most k. *)
Fixpoint win_in (n : nat) (p : pos) : bool :=
  match n with
  | O => false
  | S k => existsb (fun q => checkmated q || (negb (nomoves q) && forallb (win_in k) (succs q))) (succs p)
  end.
Definition lose_in (k : nat) (q : pos) : bool :=
  checkmated q || (negb (nomoves q) && forallb (win_in k) (succs q)).

(* exactly n: a forced mate in n moves and no shorter one *)
Definition mate_in (n : nat) (p : pos) : Prop := win_in n p = true /\ win_in (pred n) p = false.

(* ---- the engine's mate scores ---- *)
(* heuristic.rs: a checkmated side to move gets  -(W - fullmove)  (white: loss_score + fullmove, black, after the
   sign flip of `evaluate`: -(win_score - fullmove)).  So nearer mates score better for the winner. *)
Variable W : Z.                      (* win_score = 2^24 *)
Variable M : Z.                      (* MAX_FULL_MOVES = 2^20 : width of the mate band *)
Variable movenum : pos -> Z.         (* fullmove clock *)
Variable black : pos -> bool.        (* black to move *)

Definition bump (p : pos) : Z := if black p then 1 else 0.

Definition terminal_mate : Prop := forall q, checkmated q = true -> terminal q = - (W - movenum q).
Definition clock_step : Prop := forall p q, In q (succs p) ->
  movenum q = movenum p + bump p /\ black q = negb (black p).
(* everything that is not a mate score stays out of the mate band *)
Definition quiet_static : Prop := forall p, - (W - M) <= static p <= W - M.
Definition quiet_terminal : Prop := forall p, succs p = [] -> checkmated p = false -> - (W - M) <= terminal p <= W - M.

(* value (mover's view) of "I mate with my n-th move from p": the mated position has full-move number
   movenum p + (n - 1) + bump p. *)
Definition mate_value (n : nat) (p : pos) : Z := W - (movenum p + Z.of_nat n - 1 + bump p).
(* heuristic.rs is_checkmate *)
Definition is_mate_score (v : Z) : bool := (v >? W - M) || (v <? - W + M).

End Game.

(* ------------------------------------------------------------------ *)
(* Extension trees: what a search that may re-use DEEPER stored results can legitimately be valued against.
   A tree rooted at p is "expanded at least to remaining depth r" when every inner node lists all legal successors
   and leaves occur only at remaining depth 0 (valued by the horizon value nm 0) or at positions without legal move;
   nodes may be expanded further than r. *)
Section ExtensionTrees.
Variable pos : Type.
Variable succs : pos -> list pos.
Variable noisy_succs : pos -> list pos.
Variable noisy_any : pos -> bool.
Variable static : pos -> Z.
Variable terminal : pos -> Z.
Variable qmeasure : pos -> nat.

Inductive tree : Type :=
| Leaf (p : pos)
| Node (p : pos) (ts : list tree).

Definition root (t : tree) : pos := match t with Leaf p => p | Node p _ => p end.

(* exact negamax value of the tree *)
Fixpoint val (t : tree) : Z :=
  match t with
  | Leaf p => nm pos succs noisy_succs noisy_any static terminal qmeasure 0 p
  | Node p ts =>
      match ts with
      | [] => terminal p
      | c :: r =>
          (fix go (l : list tree) (acc : Z) {struct l} : Z :=
             match l with [] => acc | t' :: l' => go l' (Z.max acc (- val t')) end) r (- val c)
      end
  end.

Inductive ext : nat -> tree -> Prop :=
| ext_leaf0 : forall p, ext 0 (Leaf p)
| ext_term : forall r p, succs p = [] -> ext r (Leaf p)
| ext_node : forall r p ts, succs p <> [] -> Permutation (map root ts) (succs p) ->
    Forall (ext (pred r)) ts -> ext r (Node p ts).

(* every position occurring in the tree satisfies G *)
Fixpoint allpos (G : pos -> Prop) (t : tree) : Prop :=
  match t with
  | Leaf p => G p
  | Node p ts => G p /\ (fix go (l : list tree) : Prop := match l with [] => True | c :: l' => allpos G c /\ go l' end) ts
  end.

(* the nominal tree: expanded exactly to depth r *)
Fixpoint nomtree (r : nat) (p : pos) : tree :=
  match r with
  | O => Leaf p
  | S k => match succs p with [] => Leaf p | l => Node p (map (nomtree k) l) end
  end.

End ExtensionTrees.

(* ------------------------------------------------------------------ *)
(* "no position key occurs at two different plies <= D below the root" - then every usable table entry has exactly
   the remaining draft of the node that finds it.  Two positions at the SAME ply i with the same key must be similar
   for searches of the remaining depth D - i: [sim r x y] is any relation under which the values of depth <= r agree
   (equality; or, for chess, "same board, castling rights, e.p. square and full-move number, half-move clocks possibly
   different but both more than r plies away from the limit").
   This includes: no key collision between dissimilar positions within D plies of the root. *)
Section Plies.
Variable pos : Type.
Variable succs : pos -> list pos.
Variable key : pos -> N.
Variable sim : nat -> pos -> pos -> Prop.

Inductive at_ply (root0 : pos) : nat -> pos -> Prop :=
| at_ply_0 : at_ply root0 0 root0
| at_ply_S : forall i p q, at_ply root0 i p -> In q (succs p) -> at_ply root0 (S i) q.

Definition ply_unique (D : nat) (root0 : pos) : Prop :=
  forall i j x y, (i <= D)%nat -> (j <= D)%nat -> at_ply root0 i x -> at_ply root0 j y -> key x = key y ->
  i = j /\ sim (D - i) x y.

End Plies.

(* Forsyth-Edwards Notation, as a reader and a renderer on Spec positions (Rules.pos).  Independent of the model.
   grammar: 8 ranks separated by '/', each a string over PNBRQKpnbrqk and 1-8 describing exactly 8 files with no two
   adjacent digits; side w|b; castling KQkq subset in that order or '-'; e.p. square or '-'; optionally two decimal
   clocks (missing: 0 and 1).  Fields are separated by single spaces. *)
Require Import Ink.Lib.Str.
Require Import NArith ZArith List Bool.
Require Import Ink.Spec.Rules.
Import ListNotations.
Open Scope N_scope.

Definition piece_of_char (c : N) : option piece :=
  if c =? 80 then Some (White, Pawn) else if c =? 78 then Some (White, Knight) else if c =? 66 then Some (White, Bishop)
  else if c =? 82 then Some (White, Rook) else if c =? 81 then Some (White, Queen) else if c =? 75 then Some (White, King)
  else if c =? 112 then Some (Black, Pawn) else if c =? 110 then Some (Black, Knight) else if c =? 98 then Some (Black, Bishop)
  else if c =? 114 then Some (Black, Rook) else if c =? 113 then Some (Black, Queen) else if c =? 107 then Some (Black, King)
  else None.
Definition char_of_piece (p : piece) : N :=
  let l := kind_letter (snd p) in match fst p with White => l - 32 | Black => l end.

(* one rank: the 8 cells, or None if the text is not a well-formed rank *)
Fixpoint read_rank (g : str) (prev_digit : bool) : option (list (option piece)) :=
  match g with
  | [] => Some []
  | c :: r =>
      if (49 <=? c) && (c <=? 56) then
        if prev_digit then None
        else match read_rank r true with Some cs => Some (repeat None (N.to_nat (c - 48)) ++ cs) | None => None end
      else match piece_of_char c, read_rank r false with
           | Some p, Some cs => Some (Some p :: cs)
           | _, _ => None end
  end.
Fixpoint read_ranks (gs : list str) : option (list (option piece)) :=
  match gs with
  | [] => Some []
  | g :: r => match read_rank g false, read_ranks r with
              | Some cs, Some rest => if Nat.eqb (length cs) 8 then Some (cs ++ rest) else None
              | _, _ => None end
  end.

Definition rights_of (s : str) : option (bool * bool * bool * bool) :=   (* K Q k q *)
  if str_eqb s (lit "-") then Some (false, false, false, false)
  else
    let k1 := contains_chr 75 s in let q1 := contains_chr 81 s in let k2 := contains_chr 107 s in let q2 := contains_chr 113 s in
    let canon := (if k1 then [75] else []) ++ (if q1 then [81] else []) ++ (if k2 then [107] else []) ++ (if q2 then [113] else []) in
    if nonempty s && str_eqb s canon then Some (k1, q1, k2, q2) else None.

Definition square_of (s : str) : option Z :=
  match s with
  | [f; r] => if (97 <=? f) && (f <=? 104) && (49 <=? r) && (r <=? 56)
              then Some (Z.of_N (f - 97) + 8 * (8 - Z.of_N (r - 48)))%Z else None
  | _ => None end.

Definition digits_only (s : str) : bool := nonempty s && forallb is_ascii_digit s.

Definition read (s : str) : option pos :=
  let build p c k e (h f : N) :=
    match (if Nat.eqb (length (split_on 47 p)) 8 then read_ranks (split_on 47 p) else None), rights_of k with
    | Some cs, Some (k1, q1, k2, q2) =>
        let side := if str_eqb c (lit "w") then Some White else if str_eqb c (lit "b") then Some Black else None in
        let ep := if str_eqb e (lit "-") then Some None else match square_of e with Some x => Some (Some x) | None => None end in
        match side, ep with
        | Some sd, Some ep' => Some {| cells := cs; to_move := sd; wk := k1; wq := q1; bk := k2; bq := q2; epsq := ep'; halfc := h; fullc := f |}
        | _, _ => None end
    | _, _ => None end in
  match split_on 32 s with
  | [p; c; k; e] => build p c k e 0 1
  | [p; c; k; e; h; f] =>
      if digits_only h && digits_only f then
        match parse_dec h, parse_dec f with Some hn, Some fn => build p c k e hn fn | _, _ => None end
      else None
  | _ => None
  end.
Definition grammatical (s : str) : bool := match read s with Some _ => true | None => false end.

Fixpoint render_row (cs : list (option piece)) (empty : N) : str :=
  match cs with
  | [] => if 0 <? empty then [48 + empty] else []
  | Some p :: r => (if 0 <? empty then [48 + empty] else []) ++ [char_of_piece p] ++ render_row r 0
  | None :: r => render_row r (empty + 1)
  end.
Fixpoint rows (n : nat) (cs : list (option piece)) : list (list (option piece)) :=
  match n with O => [] | S k => firstn 8 cs :: rows k (skipn 8 cs) end.

Definition render (p : pos) : str :=
  let castle := (if wk p then [75] else []) ++ (if wq p then [81] else []) ++ (if bk p then [107] else []) ++ (if bq p then [113] else []) in
  join [47] (map (fun r => render_row r 0) (rows 8 (cells p))) ++ [32] ++ (match to_move p with White => [119] | Black => [98] end) ++ [32] ++
  (match castle with [] => [45] | _ => castle end) ++ [32] ++
  (match epsq p with None => [45] | Some e => sq_text e end) ++ [32] ++ show_N (halfc p) ++ [32] ++ show_N (fullc p).

(* Standard Algebraic Notation of a move (FIDE Laws of Chess, appendix C; PGN standard 8.2.3), on Rules.pos / Rules.mv.
   Written from the standards, not from the implementation.

   Writer, [san p m] (export format, PGN 8.2.3):
     castling            O-O (king side) / O-O-O (queen side), letter O
     piece letter        K Q R B N, nothing for a pawn                                            (C.2, C.3)
     origin              among the OTHER LEGAL moves of a piece of the same kind and colour to the same square
                         ("rivals"): no rival -> nothing; no rival stands on the mover's file -> the file letter;
                         else no rival stands on the mover's rank -> the rank digit; else file and rank       (C.10)
                         a pawn that captures is always prefixed by its file, and nothing else               (C.9)
     capture             x, en passant included (no "e.p.")                                                  (C.9)
     target square                                                                                           (C.7)
     promotion           =Q =R =B =N                                                                   (PGN 8.2.3.3)
     suffix              # if the move checkmates, else + if it checks, else nothing (in particular nothing for a
                         stalemating move)                                                              (PGN 8.2.3.5)

   Reader, [denotes p s m] ("s is an acceptable SAN text for the legal move m", import format, PGN 8.2.3 last par.):
     s = body tail, where body is the longest prefix of s free of the four characters + # ! ? and
     * body is the standard body of m with the optional parts relaxed: ANY origin hint that is true of m (nothing,
       file, rank, file+rank -- for pawns too), capture mark x present or absent on a capture (never on a non-capture);
       piece letter upper case, target and =X promotion mandatory, castling with letter O only (0-0 is not SAN);
     * tail is an optional single + or # followed by any run of ! and ?.
     DECISION: the check/mate mark of the tail is NOT verified against the position (PGN readers do not; the mark is
     redundant), so "Nf3", "Nf3+" and "Nf3#" denote the same moves.  Nothing else is tolerated: no "e.p.", no lower
     case piece letters, no missing "=".
   A text may denote several moves ("Nd2" with knights on b1 and f3); the reader [parse_san] answers [PAmbiguous] then. *)
Require Import Ink.Lib.Str.
Require Import NArith ZArith List Bool.
Require Import Ink.Spec.Rules.
Import ListNotations.
Open Scope Z_scope.

(* ---------- characters ---------- *)
Definition kind_upper (k : kind) : N := (kind_letter k - 32)%N.                (* K Q R B N (P) *)
Definition file_chr (s : Z) : N := (97 + Z.to_N (fileZ s))%N.                 (* a..h *)
Definition rank_chr (s : Z) : N := (48 + (8 - Z.to_N (rowZ s)))%N.            (* 1..8; Rules.sq_text s = [file_chr s; rank_chr s] *)

(* ---------- rivals and the origin rule ---------- *)
Definition piece_eqb (a b : piece) : bool := color_eqb (fst a) (fst b) && kind_eqb (snd a) (snd b).
Definition same_piece (p : pos) (s s' : Z) : bool :=
  match get p s, get p s' with Some a, Some b => piece_eqb a b | _, _ => false end.

(* the other legal moves of a like piece to the same square *)
Definition rivals (p : pos) (m : mv) : list mv :=
  filter (fun r => same_piece p (from r) (from m) && (to r =? to m) && negb (from r =? from m)) (legal_moves p).

Definition disamb (p : pos) (m : mv) : str :=
  match rivals p m with
  | [] => []
  | rs => if negb (existsb (fun r => fileZ (from r) =? fileZ (from m)) rs) then [file_chr (from m)]
          else if negb (existsb (fun r => rowZ (from r) =? rowZ (from m)) rs) then [rank_chr (from m)]
          else [file_chr (from m); rank_chr (from m)]
  end.

(* ---------- the parts of a move text ---------- *)
Definition letter (p : pos) (m : mv) : str :=
  match get p (from m) with Some (_, Pawn) => [] | Some (_, k) => [kind_upper k] | None => [] end.
Definition origin (p : pos) (m : mv) : str :=
  match get p (from m) with
  | Some (_, Pawn) => if is_capture p m then [file_chr (from m)] else []
  | _ => disamb p m
  end.
Definition capture_mark (p : pos) (m : mv) : str := if is_capture p m then [120%N] else [].
Definition promo_text (m : mv) : str := match prom m with Some k => [61%N; kind_upper k] | None => [] end.
Definition castle_text (m : mv) : str := if fileZ (from m) <? fileZ (to m) then lit "O-O" else lit "O-O-O".

Definition body (p : pos) (m : mv) : str :=
  if is_castling p m then castle_text m
  else letter p m ++ origin p m ++ capture_mark p m ++ sq_text (to m) ++ promo_text m.

Definition gives_check (p : pos) (m : mv) : bool := let p' := apply p m in in_check p' (to_move p').
Definition gives_mate (p : pos) (m : mv) : bool := checkmate (apply p m).
Definition check_mark (p : pos) (m : mv) : str := if gives_mate p m then [35%N] else if gives_check p m then [43%N] else [].

(* THE standard text of move m in position p *)
Definition san (p : pos) (m : mv) : str := body p m ++ check_mark p m.

(* ---------- reader direction ---------- *)
Definition hints (s : Z) : list str := [[]; [file_chr s]; [rank_chr s]; [file_chr s; rank_chr s]].
Definition marks (p : pos) (m : mv) : list str := if is_capture p m then [[120%N]; []] else [[]].

(* every acceptable body of m *)
Definition bodies (p : pos) (m : mv) : list str :=
  if is_castling p m then [castle_text m]
  else flat_map (fun h => map (fun x => letter p m ++ h ++ x ++ sq_text (to m) ++ promo_text m) (marks p m)) (hints (from m)).

Definition is_mark (c : N) : bool := ((c =? 43) || (c =? 35) || (c =? 33) || (c =? 63))%N.      (* + # ! ? *)
Fixpoint split_marks (s : str) : str * str :=
  match s with
  | [] => ([], [])
  | c :: r => if is_mark c then ([], s) else let (a, b) := split_marks r in (c :: a, b)
  end.
Definition tail_ok (t : str) : bool :=
  let t1 := match t with c :: r => if ((c =? 43) || (c =? 35))%N then r else t | [] => t end in
  forallb (fun c => ((c =? 33) || (c =? 63))%N) t1.

Definition kind_opt_eqb (a b : option kind) : bool :=
  match a, b with Some x, Some y => kind_eqb x y | None, None => true | _, _ => false end.
Definition mv_eqb (a b : mv) : bool := (from a =? from b) && (to a =? to b) && kind_opt_eqb (prom a) (prom b).

Definition denotes (p : pos) (s : str) (m : mv) : bool :=
  existsb (mv_eqb m) (legal_moves p) &&
  (let (b, t) := split_marks s in mem_str b (bodies p m) && tail_ok t).

Fixpoint dedup (l : list mv) : list mv :=
  match l with [] => [] | x :: r => if existsb (mv_eqb x) r then dedup r else x :: dedup r end.

Inductive parse_result := POk (m : mv) | PErr | PAmbiguous.

(* the move a SAN text denotes in p: the unique legal move it is acceptable for *)
Definition parse_san (p : pos) (s : str) : parse_result :=
  match dedup (filter (denotes p s) (legal_moves p)) with
  | [] => PErr
  | [m] => POk m
  | _ => PAmbiguous
  end.

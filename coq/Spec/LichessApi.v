(* C19 - what "a Lichess bot-stream payload decodes to the data it carries" MEANS.

   Part 1 (generic): [conforms s doc v] - the JSON value [doc] is a rendering of the data [v] (a normal
   form: object with the fields of the shape in declaration order, absent optionals as null, a move string
   as the array of its tokens) according to the shape [s]:
     - object keys in ANY order, ANY additional keys with arbitrary values,
     - every optional field absent, or null, or present,
     - each declared key at most once,
     - free text may be written with or without JSON escapes; the move string is escape-free and is the
       tokens joined by single spaces (no token => empty string).
   [carries v v'] - everything the data v holds is found, unchanged, in v'.

   Part 2: the documented message shapes of the Lichess Bot API (game stream, incoming-event stream),
   transcribed from the published API description WITHOUT looking at the Rust types, in the schema universe
   of Model/Serde.v with the documented (camelCase) wire names.  No network was available: a field whose
   documented type I was not sure of is not given a shape; if the implementation nevertheless has a field of
   that name it is listed as [SNever] ("documents containing this key are outside the statement") - see the
   list at the end of the file. *)
Require Import Ink.Lib.Str.
Require Import NArith ZArith List Bool.
Import ListNotations.
Require Import Ink.Model.Json Ink.Model.Serde.
Open Scope N_scope.

(* ------------------------------------------------------------------ Part 1 *)
(* a move token: non-empty, no white space (in particular no space) *)
Definition token_ok (t : str) : bool := nonempty t && forallb (fun c => negb (is_whitespace c)) t.
Definition uci_token (t : str) : Prop := token_ok t = true.

(* the texts of UCI moves: [a-h][1-8][a-h][1-8][qrbn]? *)
Definition uci_files : str := lit "abcdefgh".
Definition uci_ranks : str := lit "12345678".
Definition uci_promos : list str := [[]; lit "q"; lit "r"; lit "b"; lit "n"].
Definition uci_wellformed (s : str) : Prop :=
  exists a b c d p, s = [a; b; c; d] ++ p /\ In a uci_files /\ In b uci_ranks /\ In c uci_files /\ In d uci_ranks
                    /\ In p uci_promos.

Definition conf := json -> json -> Prop.

(* the field is present exactly once with a conforming value, or absent where absence is allowed *)
Definition field_ok (m : fmeta) (C : conf) (doc : list (str * json)) (v : json) : Prop :=
  match lookup_all (mwire m) doc with
  | [] => absent_value m = Some v
  | [d] => C d v
  | _ => False
  end.

Fixpoint conf_fields (cs : list (fmeta * conf)) (doc collected vs : list (str * json)) : Prop :=
  match cs with
  | [] => vs = []
  | (m, C) :: r =>
    if mflat m then
      exists inner rest, vs = inner ++ rest /\ C (JObj collected) (JObj inner) /\ conf_fields r doc collected rest
    else
      exists v rest, vs = (mwire m, v) :: rest /\ field_ok m C doc v /\ conf_fields r doc collected rest
  end.

Definition conf_struct (cs : list (fmeta * conf)) (doc v : json) : Prop :=
  match doc, v with
  | JObj d, JObj vs => conf_fields cs d (collect cs d) vs
  | _, _ => False
  end.

Definition conf_tagged (tag : str) (vs : list (str * list (fmeta * conf))) (doc v : json) : Prop :=
  match doc, v with
  | JObj d, JObj ((t, JStr n false) :: fields) =>
    t = tag /\
    exists e cs, lookup_all tag d = [JStr n e] /\ lookup n vs = Some cs /\
                 conf_fields cs (remove_key tag d) (collect cs (remove_key tag d)) fields
  | _, _ => False
  end.

Definition conf_int (lo hi : Z) (d v : json) : Prop :=
  exists z, d = JNum z /\ v = JNum z /\ (lo <= z <= hi)%Z.

Fixpoint conforms (s : schema) {struct s} : json -> json -> Prop :=
  match s with
  | SStr => fun d v => exists x e, d = JStr x e /\ v = JStr x false
  | SU32 => conf_int 0 4294967295
  | SI32 => conf_int (-2147483648) 2147483647
  | SU64 => conf_int 0 18446744073709551615
  | SBool => fun d v => exists b, d = JBool b /\ v = JBool b
  | SNever => fun _ _ => False
  | SOpt s' => fun d v => match d with JNull => v = JNull | _ => conforms s' d v end
  | SStruct fs =>
    conf_struct ((fix go (fs : list field) : list (fmeta * conf) :=
                    match fs with [] => [] | f :: r => (meta_of f, conforms (fsch f)) :: go r end) fs)
  | SUnitEnum names => fun d v => exists n e, d = JStr n e /\ v = JStr n false /\ mem_str n names = true
  | STagged tag vs =>
    conf_tagged tag
      ((fix gov (vs : list (str * list field)) : list (str * list (fmeta * conf)) :=
          match vs with
          | [] => []
          | (n, fs) :: r =>
            (n, (fix go (fs : list field) : list (fmeta * conf) :=
                   match fs with [] => [] | f :: r => (meta_of f, conforms (fsch f)) :: go r end) fs)
            :: gov r
          end) vs)
  | SSpaceSV => fun d v =>
    exists ms, Forall uci_token ms /\ d = JStr (join [32] ms) false /\ v = JArr (map (fun m => JStr m false) ms)
  | SCsvRules names => fun d v =>
    exists ws, d = JStr (join [44] (map fst ws)) false /\ ws <> [] /\
               Forall (fun w => lookup (lower (fst w)) names = Some (snd w)) ws /\
               Forall (fun w => contains_chr 44 (fst w) = false) ws /\
               v = JArr (map (fun w => JStr (snd w) false) ws)
  end.

Fixpoint carries (v v' : json) {struct v} : Prop :=
  match v with
  | JNull => True                                             (* nothing carried *)
  | JObj l =>
    match v' with
    | JObj l' =>
      (fix go (l : list (str * json)) : Prop :=
         match l with
         | [] => True
         | (k, x) :: r => (x = JNull \/ exists y, lookup k l' = Some y /\ carries x y) /\ go r
         end) l
    | _ => False
    end
  | _ => v = v'
  end.

(* ------------------------------------------------------------------ Part 2 *)
Definition R (w : String.string) (s : schema) : field := mkField (lit w) s false false.          (* always present *)
Definition O (w : String.string) (s : schema) : field := mkField (lit w) (SOpt s) false false.   (* absent | null | value *)
Definition N (w : String.string) : field := mkField (lit w) SNever true false.                   (* left out, see below *)
Definition keys (l : list String.string) : schema := SUnitEnum (map lit l).

Definition status_keys := keys ["created"; "started"; "aborted"; "mate"; "resign"; "stalemate"; "timeout"; "draw";
                                "outoftime"; "cheat"; "noStart"; "unknownFinish"; "variantEnd"]%string.
Definition variant_keys := keys ["standard"; "chess960"; "crazyhouse"; "antichess"; "atomic"; "horde"; "kingOfTheHill";
                                 "racingKings"; "threeCheck"; "fromPosition"]%string.
Definition speed_keys := keys ["ultraBullet"; "bullet"; "blitz"; "rapid"; "classical"; "correspondence"]%string.
Definition color_keys := keys ["white"; "black"]%string.
Definition color_choice_keys := keys ["white"; "black"; "random"]%string.
(* game sources: `arena` / `tournament` left out (not sure which spelling is documented) *)
Definition source_keys := keys ["lobby"; "friend"; "ai"; "api"; "position"; "import"; "importlive"; "simul"; "relay";
                                "pool"; "swiss"]%string.
(* PerfType keys; the documented list also contains "horde" - see the end of the file *)
Definition perf_keys_covered := keys ["ultraBullet"; "bullet"; "blitz"; "rapid"; "classical"; "correspondence"; "chess960";
                                      "crazyhouse"; "antichess"; "atomic"; "kingOfTheHill"; "racingKings"; "threeCheck"]%string.
Definition challenge_status_keys := keys ["created"; "offline"; "canceled"; "declined"; "accepted"]%string.

Definition variant_full := SStruct [R "key" variant_keys; R "name" SStr; R "short" SStr].
Definition clock := SStruct [R "initial" SU32; R "increment" SU32].
Definition player :=
  SStruct [O "aiLevel" SU32; R "id" SStr; O "name" SStr; O "title" SStr; O "rating" SU32; O "provisional" SBool].

Definition game_state_fields : list field :=
  [R "moves" SSpaceSV; R "wtime" SU32; R "btime" SU32; R "winc" SU32; R "binc" SU32; R "status" status_keys;
   O "winner" color_keys; O "wdraw" SBool; O "bdraw" SBool; O "wtakeback" SBool; O "btakeback" SBool;
   N "rematch"].

Definition game_full_fields : list field :=
  [R "id" SStr; R "variant" variant_full; O "clock" clock; R "speed" speed_keys; R "perf" (SStruct [R "name" SStr]);
   R "rated" SBool; R "createdAt" SU64; R "white" player; R "black" player; R "initialFen" SStr;
   R "state" (SStruct game_state_fields); O "daysPerTurn" SU32; O "tournamentId" SStr].

Definition game_stream : schema :=
  STagged (lit "type")
    [(lit "gameFull", game_full_fields);
     (lit "gameState", game_state_fields);
     (lit "chatLine", [R "room" (keys ["player"; "spectator"]%string); R "username" SStr; R "text" SStr]);
     (lit "opponentGone", [R "gone" SBool; O "claimWinInSeconds" SU32])].

Definition compat_info := SStruct [R "bot" SBool; R "board" SBool].

Definition game_event_info :=
  SStruct [R "fullId" SStr; R "gameId" SStr; R "fen" SStr; R "color" color_keys; R "lastMove" SStr;
           R "source" source_keys; R "status" (SStruct [R "id" SU32; R "name" status_keys]);
           R "variant" (SStruct [R "key" variant_keys; R "name" SStr]); R "speed" speed_keys;
           R "perf" perf_keys_covered; R "rated" SBool; R "hasMoved" SBool;
           R "opponent" (SStruct [R "id" SStr; R "username" SStr; O "rating" SU32; O "ratingDiff" SI32; O "ai" SU32]);
           O "secondsLeft" SU32; O "tournamentId" SStr; O "swissId" SStr; O "winner" color_keys;
           O "ratingDiff" SI32; O "compat" compat_info; N "orientation"].

Definition challenge_user :=
  SStruct [R "id" SStr; R "name" SStr; O "title" SStr; R "rating" SU32; O "provisional" SBool; O "patron" SBool;
           O "online" SBool; O "lag" SU32].

Definition time_control :=
  STagged (lit "type")
    [(lit "clock", [R "limit" SU32; R "increment" SU32; R "show" SStr]);
     (lit "correspondence", [R "daysPerTurn" SU32]);
     (lit "unlimited", [])].

Definition challenge_info :=
  SStruct [R "id" SStr; R "url" SStr; R "status" challenge_status_keys; O "challenger" challenge_user;
           O "destUser" challenge_user; R "variant" variant_full; R "rated" SBool; R "speed" speed_keys;
           R "timeControl" time_control; R "color" color_choice_keys; R "finalColor" color_keys;
           R "perf" (SStruct [R "icon" SStr; R "name" SStr]); O "direction" (keys ["in"; "out"]%string);
           O "initialFen" SStr; O "rematchOf" SStr; N "declineReason"; N "rules"].

Definition event_stream : schema :=
  STagged (lit "type")
    [(lit "gameStart", [R "game" game_event_info]);
     (lit "gameFinish", [R "game" game_event_info]);
     (lit "challenge", [R "challenge" challenge_info; O "compat" compat_info]);
     (lit "challengeCanceled", [R "challenge" challenge_info]);
     (lit "challengeDeclined", [R "challenge" challenge_info])].

(* ------------------------------------------------------------------ what is NOT in the shapes above
   (a) keys given as [N] (the implementation has a field of that name; I am not sure of the documented type,
       so documents that contain the key are outside C19_compat_sound):
         gameState.rematch, gameFull.state.rematch   - not sure it is documented at all
         gameStart/gameFinish game.orientation       - not sure it is documented for the event stream
         challenge.rules            - documented, I believe, as an ARRAY of rule names; the Rust type reads a
                                      comma-separated STRING (the request format)
         challenge.declineReason    - documented, I believe, as free human-readable text, with the machine key in
                                      `declineReasonKey`; the Rust type reads it as an 11-key enum
   (b) documented keys that are simply not listed (treated as "unknown extra keys", which [conforms] allows
       anywhere and the implementation ignores): gameFull.state.type, gameState.expiration,
       game.isMyTurn, game.id, challenge.declineReasonKey, challenger.flair / player.flair,
       gameFull.white/black.{ratingDiff?}, any newer additions.
   (c) enumerated keys left out of a key set: source `arena` / `tournament` (spelling unsure);
       perf key `horde` (I believe it is a documented PerfType key; the Rust PerfKey enum has no Horde, so a
       gameStart event of a Horde game would not decode - reported as a suspected mismatch, kept out of the
       shapes so that C19_schemas isolates D22).
   (d) requiredness I was not sure of and chose to state as in the published examples: player.id present
       (an AI opponent may be sent as {"aiLevel":n} only), challenger.rating present. *)
Definition left_out_never : list (String.string * String.string) :=
  [("gameState / gameFull.state", "rematch"); ("gameStart.game / gameFinish.game", "orientation");
   ("challenge*.challenge", "rules"); ("challenge*.challenge", "declineReason")]%string.

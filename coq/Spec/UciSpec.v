(* The GUI-to-engine half of the UCI protocol as a RENDERER: `render c lay` is a command line that spells the command
   `c`; the `layout` ranges over every freedom the grammar leaves: the amount of blank space (>= 1 space between two
   words, any White_Space around the line), the two spellings of the start position, a `moves` keyword without
   moves, for `go` the order of its parameters and the spelling of each number (sign, leading zeros; a negative
   remaining time spells the time 0).
   `cmd_ok c` says that the values of `c` can be spelled at all (numbers in range, free text made of words, FEN
   accepted).  Written against the command vocabulary only (types `command`, `go`, `uci_move`, and the Display form
   `show_move` of a move: file letter 'a' + sq mod 8, rank digit '8' - sq / 8, promotion letter of "pnbrqk"), not
   against the parser. *)
Require Import Ink.Lib.Str.
Require Import NArith List Bool.
Require Import Ink.Model.Fen Ink.Model.UciParser.
Import ListNotations.
Open Scope N_scope.

(* ---------- words ---------- *)
(* a word: non-empty, no White_Space character in it (in particular no U+0020) *)
Definition clean (t : str) : bool := forallb (fun c => negb (is_whitespace c)) t.
Definition tok_ok (t : str) : Prop := t <> [] /\ clean t = true.

(* free text of a name / value / code / FEN field: one or more words separated by single spaces; after the first
   word, none is a keyword that ends the field *)
Definition text_ok (stops : list str) (txt : str) : Prop :=
  let ts := words txt in
  ts <> [] /\ join [32] ts = txt /\ Forall (fun t => clean t = true) ts /\
  Forall (fun t => mem_str t stops = false) (tl ts).

Definition all_ws (x : str) : Prop := Forall (fun c => is_whitespace c = true) x.

(* ---------- moves ---------- *)
Definition move_ok (m : uci_move) : Prop :=
  um_src m < 64 /\ um_dst m < 64 /\ match um_promo m with None => True | Some p => 1 <= p <= 6 end.

(* ---------- go parameters ---------- *)
Inductive gokey :=
| KSearchMoves | KPonder | KWtime | KBtime | KWinc | KBinc | KMovesToGo | KDepth | KNodes | KMate | KMoveTime | KInfinite.

Definition key_token (k : gokey) : str :=
  match k with
  | KSearchMoves => lit "searchmoves" | KPonder => lit "ponder" | KWtime => lit "wtime" | KBtime => lit "btime"
  | KWinc => lit "winc" | KBinc => lit "binc" | KMovesToGo => lit "movestogo" | KDepth => lit "depth"
  | KNodes => lit "nodes" | KMate => lit "mate" | KMoveTime => lit "movetime" | KInfinite => lit "infinite"
  end.

Definition is_duration (k : gokey) : bool :=
  match k with KWtime | KBtime | KWinc | KBinc | KMoveTime => true | _ => false end.

(* the number carried by a numeric parameter *)
Definition go_value (g : go) (k : gokey) : option N :=
  match k with
  | KWtime => wtime g | KBtime => btime g | KWinc => winc g | KBinc => binc g | KMovesToGo => moves_to_go g
  | KDepth => depth g | KNodes => nodes g | KMate => mate g | KMoveTime => movetime g
  | KSearchMoves | KPonder | KInfinite => None
  end.

(* a parameter must be written / may be written.  `searchmoves` may be written with no move after it. *)
Definition key_required (g : go) (k : gokey) : Prop :=
  match k with
  | KSearchMoves => search_moves g <> []
  | KPonder => ponder g = true
  | KInfinite => infinite g = true
  | _ => go_value g k <> None
  end.
Definition key_allowed (g : go) (k : gokey) : Prop :=
  match k with KSearchMoves => True | _ => key_required g k end.

(* spelling of a number: optional '+', leading zeros; `ns_neg = Some n` spells "-n" (a duration 0 only) *)
Record num_style := { ns_plus : bool; ns_zeros : nat; ns_neg : option N }.
Definition plain : num_style := {| ns_plus := false; ns_zeros := 0; ns_neg := None |}.
Definition num_text (st : num_style) (v : N) : str :=
  match ns_neg st with
  | Some n => [45] ++ repeat 48 (ns_zeros st) ++ show_N n
  | None => (if ns_plus st then [43] else []) ++ repeat 48 (ns_zeros st) ++ show_N v
  end.
Definition num_style_ok (dur : bool) (st : num_style) (v : N) : Prop :=
  match ns_neg st with
  | Some n => dur = true /\ v = 0 /\ n <= 9223372036854775808
  | None => True
  end.

(* ---------- layout ---------- *)
Record layout := {
  lay_lead : str;                 (* White_Space before the first word *)
  lay_trail : str;                (* White_Space after the last word *)
  lay_gaps : list nat;            (* i-th gap: this many spaces in addition to the mandatory one (missing: 0) *)
  lay_startpos : bool;            (* write `startpos` for the start position instead of `fen <its FEN>` *)
  lay_moves_kw : bool;            (* write `moves` although the move list is empty *)
  lay_order : list gokey;         (* go: the parameters in the order in which they are written *)
  lay_num : gokey -> num_style    (* go: spelling of the number of a parameter *)
}.

Definition item_tokens (lay : layout) (g : go) (k : gokey) : list str :=
  match k with
  | KSearchMoves => key_token k :: map show_move (search_moves g)
  | KPonder | KInfinite => [key_token k]
  | _ => match go_value g k with
         | Some v => [key_token k; num_text (lay_num lay k) v]
         | None => [key_token k]
         end
  end.

Definition moves_tokens (lay : layout) (ms : list uci_move) : list str :=
  match ms with
  | [] => if lay_moves_kw lay then [lit "moves"] else []
  | _ => lit "moves" :: map show_move ms
  end.

Definition tokens (c : command) (lay : layout) : list str :=
  match c with
  | Uci => [lit "uci"]
  | SetDebug b => [lit "debug"; if b then lit "on" else lit "off"]
  | IsReady => [lit "isready"]
  | SetOption name => [lit "setoption"; lit "name"] ++ words name
  | SetOptionValue name value => [lit "setoption"; lit "name"] ++ words name ++ [lit "value"] ++ words value
  | RegisterLater => [lit "register"; lit "later"]
  | Register name code => [lit "register"; lit "name"] ++ words name ++ [lit "code"] ++ words code
  | UciNewGame => [lit "ucinewgame"]
  | PositionFrom t ms =>
      lit "position" ::
      (if lay_startpos lay && str_eqb t STARTPOS then [lit "startpos"] else lit "fen" :: words t) ++
      moves_tokens lay ms
  | Go g => lit "go" :: flat_map (item_tokens lay g) (lay_order lay)
  | Stop => [lit "stop"]
  | PonderHit => [lit "ponderhit"]
  | Quit => [lit "quit"]
  end.

Fixpoint spaced (toks : list str) (gaps : list nat) : str :=
  match toks with
  | [] => []
  | [t] => t
  | t :: rest => t ++ repeat 32 (S (hd 0%nat gaps)) ++ spaced rest (tl gaps)
  end.

Definition render (c : command) (lay : layout) : str :=
  lay_lead lay ++ spaced (tokens c lay) (lay_gaps lay) ++ lay_trail lay.

Definition go_layout_ok (lay : layout) (g : go) : Prop :=
  NoDup (lay_order lay) /\
  (forall k, key_required g k -> In k (lay_order lay)) /\
  (forall k, In k (lay_order lay) -> key_allowed g k) /\
  (forall k v, go_value g k = Some v -> num_style_ok (is_duration k) (lay_num lay k) v).

Definition layout_ok (lay : layout) (c : command) : Prop :=
  all_ws (lay_lead lay) /\ all_ws (lay_trail lay) /\
  match c with Go g => go_layout_ok lay g | _ => True end.

(* ---------- commands whose values can be spelled ---------- *)
Definition U64_MAX : N := 18446744073709551615.
Definition I64_MAX : N := 9223372036854775807.
Definition opt_le (o : option N) (m : N) : Prop := match o with Some v => v <= m | None => True end.

Definition go_ok (g : go) : Prop :=
  Forall move_ok (search_moves g) /\
  opt_le (wtime g) I64_MAX /\ opt_le (btime g) I64_MAX /\ opt_le (winc g) I64_MAX /\ opt_le (binc g) I64_MAX /\
  opt_le (movetime g) I64_MAX /\
  opt_le (moves_to_go g) U64_MAX /\ opt_le (depth g) U64_MAX /\ opt_le (nodes g) U64_MAX /\ opt_le (mate g) U64_MAX.

Definition cmd_ok (c : command) : Prop :=
  match c with
  | SetOption name => text_ok [lit "value"] name
  | SetOptionValue name value => text_ok [lit "value"] name /\ text_ok [] value
  | Register name code => text_ok [lit "code"] name /\ text_ok [] code
  | PositionFrom t ms =>
      (exists f, fen_from_str t = inr f /\ f_text f = t) /\ text_ok [lit "moves"] t /\ Forall move_ok ms
  | Go g => go_ok g
  | _ => True
  end.

Definition COMMANDS : list str :=
  map lit ["uci"; "debug"; "isready"; "setoption"; "register"; "ucinewgame"; "position"; "go"; "stop"; "ponderhit";
           "quit"]%string.

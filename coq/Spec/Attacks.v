(* Geometric meaning of "attack set" (property C04), written without the lookup tables.
   Squares: shift 0 = a8 ... 7 = h8, 56 = a1 ... 63 = h1; file = sq mod 8, rank index = sq / 8 (0 = rank 8).
   A direction is (delta_file, delta_rank_index); NORTH = (0,-1) as in core/src/constants/direction.rs.
   Square sets are N bitboards (bit i = square i). *)
Require Import NArith ZArith List Bool.
Import ListNotations.
Open Scope N_scope.

Definition dir : Type := (Z * Z)%type.

Definition dplus (a b : dir) : dir := (fst a + fst b, snd a + snd b)%Z.   (* Direction::from_directions *)

Definition NORTH : dir := (0, -1)%Z.
Definition EAST : dir := (1, 0)%Z.
Definition SOUTH : dir := (0, 1)%Z.
Definition WEST : dir := (-1, 0)%Z.
Definition NORTH_EAST : dir := dplus NORTH EAST.
Definition SOUTH_EAST : dir := dplus SOUTH EAST.
Definition SOUTH_WEST : dir := dplus SOUTH WEST.
Definition NORTH_WEST : dir := dplus NORTH WEST.
Definition NORTH_NORTH_EAST : dir := dplus NORTH NORTH_EAST.
Definition EAST_NORTH_EAST : dir := dplus EAST NORTH_EAST.
Definition EAST_SOUTH_EAST : dir := dplus EAST SOUTH_EAST.
Definition SOUTH_SOUTH_EAST : dir := dplus SOUTH SOUTH_EAST.
Definition SOUTH_SOUTH_WEST : dir := dplus SOUTH SOUTH_WEST.
Definition WEST_SOUTH_WEST : dir := dplus WEST SOUTH_WEST.
Definition WEST_NORTH_WEST : dir := dplus WEST NORTH_WEST.
Definition NORTH_NORTH_WEST : dir := dplus NORTH NORTH_WEST.

(* ORTHOGONAL_, DIAGONAL_, CARDINAL_, KNIGHT_DIRECTIONS of direction.rs; pawn lists of nonmagic.rs *)
Definition ORTH : list dir := [NORTH; EAST; SOUTH; WEST].
Definition DIAG : list dir := [NORTH_EAST; SOUTH_EAST; SOUTH_WEST; NORTH_WEST].
Definition KING_DIRS : list dir := [NORTH; EAST; SOUTH; WEST; NORTH_EAST; SOUTH_EAST; SOUTH_WEST; NORTH_WEST].
Definition KNIGHT_DIRS : list dir :=
  [NORTH_NORTH_EAST; EAST_NORTH_EAST; EAST_SOUTH_EAST; SOUTH_SOUTH_EAST;
   SOUTH_SOUTH_WEST; WEST_SOUTH_WEST; WEST_NORTH_WEST; NORTH_NORTH_WEST].
Definition WPAWN_DIRS : list dir := [NORTH_WEST; NORTH_EAST].
Definition BPAWN_DIRS : list dir := [SOUTH_WEST; SOUTH_EAST].

(* one step, clipped at the board edge (Square::translate) *)
Definition translate (sq : N) (d : dir) : option N :=
  let f := (Z.of_N (sq mod 8) + fst d)%Z in
  let r := (Z.of_N (sq / 8) + snd d)%Z in
  if ((0 <=? f) && (f <? 8) && (0 <=? r) && (r <? 8))%Z then Some (Z.to_N (f + 8 * r)) else None.

(* the k-th square from sq in direction d, if the board does not end before *)
Fixpoint walk (sq : N) (d : dir) (k : nat) : option N :=
  match k with
  | O => Some sq
  | S k' => match translate sq d with Some s => walk s d k' | None => None end
  end.

Definition sqbit (s : N) : N := N.shiftl 1 s.

(* slide from sq in direction d: every square up to and including the first occupied one *)
Fixpoint ray (fuel : nat) (sq : N) (d : dir) (occ : N) : N :=
  match fuel with
  | O => 0
  | S k =>
    match translate sq d with
    | None => 0
    | Some s => if N.testbit occ s then sqbit s else N.lor (sqbit s) (ray k s d occ)
    end
  end.

Definition ray_attacks (dirs : list dir) (sq occ : N) : N :=
  fold_right (fun d acc => N.lor (ray 7 sq d occ) acc) 0 dirs.

Definition step_attacks (dirs : list dir) (sq : N) : N :=
  fold_right (fun d acc => match translate sq d with Some t => N.lor (sqbit t) acc | None => acc end) 0 dirs.

(* the squares whose occupancy can influence the slide: all but the last square of each ray *)
Fixpoint relevant_ray (fuel : nat) (sq : N) (d : dir) : list N :=
  match fuel with
  | O => []
  | S k =>
    match translate sq d with
    | None => []
    | Some s => match translate s d with None => [] | Some _ => s :: relevant_ray k s d end
    end
  end.

Definition relevant (dirs : list dir) (sq : N) : list N := flat_map (relevant_ray 7 sq) dirs.

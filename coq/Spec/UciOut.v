(* Spec/UciOut.v : the engine-to-GUI half of the UCI protocol (property C16), written from the UCI specification
   (Huber / Meyer-Kahlen, April 2006, section "Engine to GUI"), not from uci/src/uci/console.rs.

   A line is a sequence of tokens separated by SINGLE spaces (this is stricter than the protocol text, which lets a
   GUI skip arbitrary white space; an engine that only ever produces the strict form is valid under both readings).
   No token-level white space is tolerated: a doubled, leading or trailing space yields an empty token, which no
   production accepts - except inside the free-text positions (`id name|author <text>`, `info string <text>`), which
   run to the end of the line.  CR and LF never occur inside a line.

     uciok | readyok
     id name <text> | id author <text>                       text contains at least one non-space character
     bestmove <move|0000> [ponder <move>]
     copyprotection checking|ok|error      registration checking|ok|error
     info <item>+                                            every key at most once, `string` last
        depth N | seldepth N | time N | nodes N | multipv N | currmovenumber N | nps N | tbhits N | sbhits N | cpuload N
        hashfull N            (permill: 0..1000)
        pv m+ | refutation m+ | currline [cpunr] m+          (moves up to the next key)
        score cp X [lowerbound|upperbound] | score mate Y [lowerbound|upperbound]      (X, Y may be negative)
        currmove m
        string <rest of the line, verbatim>
     option name <id> type check|spin|combo|button|string [default v] [min n] [max n] [var v]*
   move = [a-h][1-8][a-h][1-8][qrbn]?  (lower case).

   `parse_engine_line` is the parser into a small AST, `engine_line` the recogniser derived from it; the accessors
   at the end are what the session-level checks of C16 use. *)
Require Import Ink.Lib.Str.
Require Import NArith ZArith List Bool.
Import ListNotations.
Open Scope N_scope.

(* ------------------------------------------------------------------ lexical level *)
Definition is_eol (c : N) : bool := (c =? 10) || (c =? 13).
Definition single_line (x : str) : bool := forallb (fun c => negb (is_eol c)) x.
Definition out_tokens (x : str) : list str := split_on 32 x.
Definition untokens (l : list str) : str := join [32] l.

(* one or more ASCII digits, any length *)
Fixpoint dec_digits (acc : N) (x : str) : option N :=
  match x with
  | [] => Some acc
  | c :: r => if is_ascii_digit c then dec_digits (acc * 10 + (c - 48)) r else None
  end.
Definition dec_number (x : str) : option N := match x with [] => None | _ => dec_digits 0 x end.
(* optional '-' then a number *)
Definition dec_integer (x : str) : option Z :=
  match x with
  | c :: r => if c =? 45 then option_map (fun n => (- Z.of_N n)%Z) (dec_number r)
              else option_map Z.of_N (dec_number x)
  | [] => None
  end.

Definition is_file_chr (c : N) : bool := (97 <=? c) && (c <=? 104).      (* a..h *)
Definition is_rank_chr (c : N) : bool := (49 <=? c) && (c <=? 56).       (* 1..8 *)
Definition is_promo_chr (c : N) : bool := mem_chr c (lit "qrbn").
Definition is_move_text (x : str) : bool :=
  match x with
  | [a; b; c; d] => is_file_chr a && is_rank_chr b && is_file_chr c && is_rank_chr d
  | [a; b; c; d; e] => is_file_chr a && is_rank_chr b && is_file_chr c && is_rank_chr d && is_promo_chr e
  | _ => false
  end.

Definition move_text := str.          (* invariant of parsed values: is_move_text *)

Fixpoint all_some {A : Type} (l : list (option A)) : option (list A) :=
  match l with
  | [] => Some []
  | None :: _ => None
  | Some a :: r => match all_some r with Some r' => Some (a :: r') | None => None end
  end.

Definition move_of (x : str) : option move_text := if is_move_text x then Some x else None.
(* one or more moves *)
Definition moves_of (l : list str) : option (list move_text) :=
  match l with [] => None | _ => all_some (map move_of l) end.

(* ------------------------------------------------------------------ AST *)
Inductive id_kind := IdKName | IdKAuthor.
Inductive prot_status := PsChecking | PsOk | PsError.
Inductive bound_kind := BdLower | BdUpper.
Inductive out_score :=
| SCp (x : Z) (b : option bound_kind)
| SMate (y : Z) (b : option bound_kind).

Inductive info_item :=
| IDepth (n : N) | ISelDepth (n : N) | ITime (n : N) | INodes (n : N)
| IPv (ms : list move_text) | IMultiPv (n : N) | IScore (s : out_score)
| ICurrMove (m : move_text) | ICurrMoveNumber (n : N) | IHashFull (n : N) | INps (n : N)
| ITbHits (n : N) | ISbHits (n : N) | ICpuLoad (n : N)
| IRefutation (ms : list move_text) | ICurrLine (cpu : option N) (ms : list move_text)
| IString (s : str).

Inductive opt_type := TCheck | TSpin | TCombo | TButton | TString.
Inductive opt_attr := ADefault (v : str) | AMin (z : Z) | AMax (z : Z) | AVar (v : str).

Inductive out_msg :=
| OId (k : id_kind) (text : str)
| OUciOk
| OReadyOk
| OBestMove (best : option move_text) (ponder : option move_text)      (* best = None for 0000 *)
| OCopyProtection (st : prot_status)
| ORegistration (st : prot_status)
| OInfo (items : list info_item)
| OOption (name : str) (typ : opt_type) (rest : list opt_attr).

(* ------------------------------------------------------------------ key/value grouping *)
(* Split a token list at its key words: every key word opens a group that runs up to the next key word.
   Result: the tokens before the first key word, and the groups (key, arguments) in order. *)
Fixpoint group_by_keys (kw : str -> bool) (toks : list str) : list str * list (str * list str) :=
  match toks with
  | [] => ([], [])
  | t :: r =>
      let (lead, gs) := group_by_keys kw r in
      if kw t then ([], (t, lead) :: gs) else (t :: lead, gs)
  end.

(* Split at the first token equal to [w]: tokens before it, and (if present) the tokens after it. *)
Fixpoint break_at (w : str) (toks : list str) : list str * option (list str) :=
  match toks with
  | [] => ([], None)
  | t :: r =>
      if str_eqb t w then ([], Some r)
      else let (a, b) := break_at w r in (t :: a, b)
  end.

Fixpoint distinct (l : list N) : bool :=
  match l with [] => true | x :: r => negb (mem_chr x r) && distinct r end.

(* ------------------------------------------------------------------ info *)
Definition info_keys : list str :=
  [lit "depth"; lit "seldepth"; lit "time"; lit "nodes"; lit "pv"; lit "multipv"; lit "score"; lit "currmove";
   lit "currmovenumber"; lit "hashfull"; lit "nps"; lit "tbhits"; lit "sbhits"; lit "cpuload"; lit "refutation";
   lit "currline"; lit "string"].
Definition is_info_key (t : str) : bool := mem_str t info_keys.

Definition item_tag (i : info_item) : N :=
  match i with
  | IDepth _ => 0 | ISelDepth _ => 1 | ITime _ => 2 | INodes _ => 3 | IPv _ => 4 | IMultiPv _ => 5 | IScore _ => 6
  | ICurrMove _ => 7 | ICurrMoveNumber _ => 8 | IHashFull _ => 9 | INps _ => 10 | ITbHits _ => 11 | ISbHits _ => 12
  | ICpuLoad _ => 13 | IRefutation _ => 14 | ICurrLine _ _ => 15 | IString _ => 16
  end.

Definition one_number (f : N -> info_item) (args : list str) : option info_item :=
  match args with [v] => option_map f (dec_number v) | _ => None end.

Definition bound_of (l : list str) : option (option bound_kind) :=
  match l with
  | [] => Some None
  | [b] => if str_eqb b (lit "lowerbound") then Some (Some BdLower)
           else if str_eqb b (lit "upperbound") then Some (Some BdUpper) else None
  | _ => None
  end.

Definition score_of (args : list str) : option out_score :=
  match args with
  | k :: v :: r =>
      match dec_integer v, bound_of r with
      | Some z, Some b =>
          if str_eqb k (lit "cp") then Some (SCp z b)
          else if str_eqb k (lit "mate") then Some (SMate z b) else None
      | _, _ => None
      end
  | _ => None
  end.

Definition currline_of (args : list str) : option info_item :=
  match args with
  | [] => None
  | a :: r =>
      match dec_number a with
      | Some n => option_map (ICurrLine (Some n)) (moves_of r)
      | None => option_map (ICurrLine None) (moves_of args)
      end
  end.

Definition item_of_group (key : str) (args : list str) : option info_item :=
  if str_eqb key (lit "depth") then one_number IDepth args
  else if str_eqb key (lit "seldepth") then one_number ISelDepth args
  else if str_eqb key (lit "time") then one_number ITime args
  else if str_eqb key (lit "nodes") then one_number INodes args
  else if str_eqb key (lit "pv") then option_map IPv (moves_of args)
  else if str_eqb key (lit "multipv") then one_number IMultiPv args
  else if str_eqb key (lit "score") then option_map IScore (score_of args)
  else if str_eqb key (lit "currmove") then match args with [m] => option_map ICurrMove (move_of m) | _ => None end
  else if str_eqb key (lit "currmovenumber") then one_number ICurrMoveNumber args
  else if str_eqb key (lit "hashfull") then
    match one_number IHashFull args with
    | Some (IHashFull n) => if n <=? 1000 then Some (IHashFull n) else None
    | _ => None
    end
  else if str_eqb key (lit "nps") then one_number INps args
  else if str_eqb key (lit "tbhits") then one_number ITbHits args
  else if str_eqb key (lit "sbhits") then one_number ISbHits args
  else if str_eqb key (lit "cpuload") then one_number ICpuLoad args
  else if str_eqb key (lit "refutation") then option_map IRefutation (moves_of args)
  else if str_eqb key (lit "currline") then currline_of args
  else None.

(* the tokens after `info` *)
Definition parse_info (toks : list str) : option (list info_item) :=
  let (pre, st) := break_at (lit "string") toks in
  match group_by_keys is_info_key pre with
  | ([], gs) =>
      match all_some (map (fun g => item_of_group (fst g) (snd g)) gs) with
      | Some items =>
          let items' := items ++ match st with Some r => [IString (untokens r)] | None => [] end in
          match items' with
          | [] => None                                               (* a bare `info` says nothing *)
          | _ => if distinct (map item_tag items') then Some items' else None
          end
      | None => None
      end
  | _ => None                                                        (* something before the first key *)
  end.

(* ------------------------------------------------------------------ option *)
Definition option_keys : list str := [lit "default"; lit "min"; lit "max"; lit "var"].
Definition is_option_key (t : str) : bool := mem_str t option_keys.

(* a value made of one or more non-empty tokens *)
Definition text_value (args : list str) : option str :=
  match args with [] => None | _ => if forallb nonempty args then Some (untokens args) else None end.

Definition attr_of_group (key : str) (args : list str) : option opt_attr :=
  if str_eqb key (lit "default") then option_map ADefault (text_value args)
  else if str_eqb key (lit "var") then option_map AVar (text_value args)
  else if str_eqb key (lit "min") then match args with [v] => option_map AMin (dec_integer v) | _ => None end
  else if str_eqb key (lit "max") then match args with [v] => option_map AMax (dec_integer v) | _ => None end
  else None.

Definition type_of (t : str) : option opt_type :=
  if str_eqb t (lit "check") then Some TCheck
  else if str_eqb t (lit "spin") then Some TSpin
  else if str_eqb t (lit "combo") then Some TCombo
  else if str_eqb t (lit "button") then Some TButton
  else if str_eqb t (lit "string") then Some TString
  else None.

Definition is_default (a : opt_attr) : bool := match a with ADefault _ => true | _ => false end.
Definition is_min (a : opt_attr) : bool := match a with AMin _ => true | _ => false end.
Definition is_max (a : opt_attr) : bool := match a with AMax _ => true | _ => false end.

Definition attr_allowed (ty : opt_type) (a : opt_attr) : bool :=
  match ty, a with
  | TCheck, ADefault v => str_eqb v (lit "true") || str_eqb v (lit "false")
  | TSpin, ADefault v => match dec_integer v with Some _ => true | None => false end
  | TSpin, AMin _ => true
  | TSpin, AMax _ => true
  | TCombo, ADefault _ => true
  | TCombo, AVar _ => true
  | TString, ADefault _ => true
  | _, _ => false
  end.

Definition attrs_ok (ty : opt_type) (l : list opt_attr) : bool :=
  forallb (attr_allowed ty) l
  && (length (filter is_default l) <=? 1)%nat
  && (length (filter is_min l) <=? 1)%nat
  && (length (filter is_max l) <=? 1)%nat.

(* the tokens after `option` *)
Definition parse_option (toks : list str) : option out_msg :=
  match toks with
  | n :: r =>
      if str_eqb n (lit "name") then
        match break_at (lit "type") r with
        | (nm, Some (ty :: attrs)) =>
            match text_value nm, type_of ty, group_by_keys is_option_key attrs with
            | Some name, Some typ, ([], gs) =>
                match all_some (map (fun g => attr_of_group (fst g) (snd g)) gs) with
                | Some l => if attrs_ok typ l then Some (OOption name typ l) else None
                | None => None
                end
            | _, _, _ => None
            end
        | _ => None
        end
      else None
  | [] => None
  end.

(* ------------------------------------------------------------------ the other messages *)
Definition status_of (t : str) : option prot_status :=
  if str_eqb t (lit "checking") then Some PsChecking
  else if str_eqb t (lit "ok") then Some PsOk
  else if str_eqb t (lit "error") then Some PsError
  else None.

Definition parse_id (toks : list str) : option out_msg :=
  match toks with
  | k :: text =>
      if existsb nonempty text then
        if str_eqb k (lit "name") then Some (OId IdKName (untokens text))
        else if str_eqb k (lit "author") then Some (OId IdKAuthor (untokens text))
        else None
      else None
  | [] => None
  end.

Definition best_of (t : str) : option (option move_text) :=
  if str_eqb t (lit "0000") then Some None else option_map Some (move_of t).

Definition parse_bestmove (toks : list str) : option out_msg :=
  match toks with
  | [b] => option_map (fun b' => OBestMove b' None) (best_of b)
  | [b; k; p] =>
      if str_eqb k (lit "ponder") then
        match best_of b, move_of p with
        | Some b', Some p' => Some (OBestMove b' (Some p'))
        | _, _ => None
        end
      else None
  | _ => None
  end.

Definition parse_tokens (toks : list str) : option out_msg :=
  match toks with
  | [] => None
  | t :: r =>
      if str_eqb t (lit "uciok") then match r with [] => Some OUciOk | _ => None end
      else if str_eqb t (lit "readyok") then match r with [] => Some OReadyOk | _ => None end
      else if str_eqb t (lit "id") then parse_id r
      else if str_eqb t (lit "bestmove") then parse_bestmove r
      else if str_eqb t (lit "copyprotection") then match r with [s] => option_map OCopyProtection (status_of s) | _ => None end
      else if str_eqb t (lit "registration") then match r with [s] => option_map ORegistration (status_of s) | _ => None end
      else if str_eqb t (lit "info") then option_map OInfo (parse_info r)
      else if str_eqb t (lit "option") then parse_option r
      else None
  end.

Definition parse_engine_line (x : str) : option out_msg :=
  if single_line x then parse_tokens (out_tokens x) else None.

Definition engine_line (x : str) : bool :=
  match parse_engine_line x with Some _ => true | None => false end.

(* ------------------------------------------------------------------ accessors used by the session checks *)
Fixpoint info_depth (l : list info_item) : option N :=
  match l with [] => None | IDepth n :: _ => Some n | _ :: r => info_depth r end.
Fixpoint info_nodes (l : list info_item) : option N :=
  match l with [] => None | INodes n :: _ => Some n | _ :: r => info_nodes r end.
Fixpoint info_time (l : list info_item) : option N :=
  match l with [] => None | ITime n :: _ => Some n | _ :: r => info_time r end.
Fixpoint info_pv (l : list info_item) : option (list move_text) :=
  match l with [] => None | IPv ms :: _ => Some ms | _ :: r => info_pv r end.
Fixpoint info_score (l : list info_item) : option out_score :=
  match l with [] => None | IScore s :: _ => Some s | _ :: r => info_score r end.

(* Bit-level toolkit: u64/u32 wrap, set-bit enumeration, field extraction. *)
Require Import NArith List Lia Bool.
Import ListNotations.
Open Scope N_scope.

Definition w64 (n : N) : N := n mod 18446744073709551616.
Definition w32 (n : N) : N := n mod 4294967296.
Definition bit (i : N) : N := N.shiftl 1 i.
Definition M64 : N := 18446744073709551615.
Definition not64 (n : N) : N := N.lxor n M64.         (* !x on u64, for x < 2^64 *)
Definition clear (x m : N) : N := N.ldiff x m.       (* x & !m *)

(* ascending list of the positions of the set bits (the `while x != 0 { lowest bit; clear }` loops) *)
Fixpoint bits_pos (p : positive) (i : N) : list N :=
  match p with
  | xH => [i]
  | xO q => bits_pos q (N.succ i)
  | xI q => i :: bits_pos q (N.succ i)
  end.
Definition bits_of (n : N) : list N := match n with N0 => [] | Npos p => bits_pos p 0 end.

Fixpoint popcount_pos (p : positive) : N :=
  match p with xH => 1 | xO q => popcount_pos q | xI q => N.succ (popcount_pos q) end.
Definition popcount (n : N) : N := match n with N0 => 0 | Npos p => popcount_pos p end.

(* trailing_zeros on u64: 64 for 0 *)
Fixpoint ctz_pos (p : positive) : N := match p with xO q => N.succ (ctz_pos q) | _ => 0 end.
Definition ctz64 (n : N) : N := match n with N0 => 64 | Npos p => ctz_pos p end.

Definition field (sh w bits : N) : N := N.land (N.shiftr bits sh) (N.ones w).

Lemma bits_pos_spec p : forall i j, In j (bits_pos p i) <-> (i <= j /\ Pos.testbit p (j - i) = true).
Proof.
  induction p as [q IH|q IH|]; intros i j; cbn [bits_pos In].
  - rewrite IH. split.
    + intros [<-|[H1 H2]].
      * split; [lia|]. now rewrite N.sub_diag.
      * split; [lia|]. replace (j - i) with (N.succ (j - N.succ i)) by lia.
        destruct (j - N.succ i) eqn:E; cbn; [exact H2|]. rewrite Pos.pred_N_succ. exact H2.
    + intros [H1 H2]. destruct (N.eq_dec i j) as [->|Hne]; [now left|right].
      split; [lia|]. replace (j - i) with (N.succ (j - N.succ i)) in H2 by lia.
      destruct (j - N.succ i) eqn:E; cbn in H2; [exact H2|]. rewrite Pos.pred_N_succ in H2. exact H2.
  - rewrite IH. split.
    + intros [H1 H2]. split; [lia|]. replace (j - i) with (N.succ (j - N.succ i)) by lia.
      destruct (j - N.succ i) eqn:E; cbn; [exact H2|]. rewrite Pos.pred_N_succ. exact H2.
    + intros [H1 H2]. destruct (N.eq_dec i j) as [->|Hne].
      * rewrite N.sub_diag in H2. discriminate.
      * split; [lia|]. replace (j - i) with (N.succ (j - N.succ i)) in H2 by lia.
        destruct (j - N.succ i) eqn:E; cbn in H2; [exact H2|]. rewrite Pos.pred_N_succ in H2. exact H2.
  - split.
    + intros [<-|[]]. split; [lia|]. now rewrite N.sub_diag.
    + intros [H1 H2]. left. destruct (j - i) eqn:E; [lia|discriminate].
Qed.

Lemma bits_of_spec n j : In j (bits_of n) <-> N.testbit n j = true.
Proof.
  destruct n as [|p]; cbn [bits_of].
  - rewrite N.bits_0. split; [intros []|discriminate].
  - rewrite bits_pos_spec, N.sub_0_r. cbn [N.testbit]. split; [intros [_ H]; exact H| intros H; split; [lia|exact H]].
Qed.

Lemma bit_spec b i : N.testbit (bit b) i = (i =? b).
Proof.
  unfold bit. destruct (N.eqb_spec i b) as [->|Hne].
  - rewrite N.shiftl_spec_high by lia. now rewrite N.sub_diag.
  - destruct (N.lt_ge_cases i b).
    + now rewrite N.shiftl_spec_low.
    + rewrite N.shiftl_spec_high by lia. replace (i - b) with (N.succ (N.pred (i - b))) by lia.
      destruct (N.pred (i-b)); reflexivity.
Qed.

Lemma field_lor_shift v sh w rest : v < 2^w ->
  (forall i, sh <= i < sh + w -> N.testbit rest i = false) ->
  field sh w (N.lor rest (N.shiftl v sh)) = v.
Proof.
  intros Hv Hrest. unfold field. apply N.bits_inj. intro i.
  rewrite N.land_spec, N.shiftr_spec by lia. rewrite N.lor_spec, N.shiftl_spec_high by lia.
  replace (i + sh - sh) with i by lia.
  destruct (N.ltb_spec i w) as [Hi|Hi].
  - rewrite N.ones_spec_low by lia. rewrite Hrest by lia. cbn. now rewrite andb_true_r.
  - rewrite N.ones_spec_high by lia. rewrite andb_false_r. symmetry.
    destruct v as [|pv]; [apply N.bits_0|]. apply N.bits_above_log2.
    apply N.log2_lt_pow2; [lia|]. eapply N.lt_le_trans; [exact Hv|]. apply N.pow_le_mono_r; lia.
Qed.

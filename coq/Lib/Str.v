(* Text as lists of Unicode scalar values (Rust &str / char). Pure definitions, no proofs. *)
Require Export Ascii String.
Require Import NArith ZArith List Bool.
Import ListNotations.
Open Scope N_scope.

Definition str := list N.

Definition lit (x : String.string) : str := map N_of_ascii (String.list_ascii_of_string x).
Definition chr (x : String.string) : N := match lit x with c :: _ => c | [] => 0 end.
Arguments lit _%string.
Arguments chr _%string.

Fixpoint str_eqb (a b : str) : bool :=
  match a, b with
  | [], [] => true
  | x :: a', y :: b' => N.eqb x y && str_eqb a' b'
  | _, _ => false
  end.

Definition mem_str (x : str) (l : list str) : bool := existsb (str_eqb x) l.
Definition mem_chr (c : N) (l : str) : bool := existsb (N.eqb c) l.

(* Rust str::split(c): n separators give n+1 pieces, "" gives [""] *)
Fixpoint split_on (c : N) (x : str) : list str :=
  match x with
  | [] => [[]]
  | y :: r =>
      if N.eqb y c then [] :: split_on c r
      else match split_on c r with
           | p :: ps => (y :: p) :: ps
           | [] => [[y]]          (* unreachable: split_on never returns [] *)
           end
  end.

Fixpoint join (sep : str) (l : list str) : str :=
  match l with
  | [] => []
  | [x] => x
  | x :: r => x ++ sep ++ join sep r
  end.

Definition nonempty (x : str) : bool := match x with [] => false | _ => true end.

(* Unicode White_Space property (char::is_whitespace), used by str::trim *)
Definition is_whitespace (c : N) : bool :=
  ((9 <=? c) && (c <=? 13)) || (c =? 32) || (c =? 133) || (c =? 160) || (c =? 5760)
  || ((8192 <=? c) && (c <=? 8202)) || (c =? 8232) || (c =? 8233) || (c =? 8239) || (c =? 8287) || (c =? 12288).

Fixpoint trim_start (x : str) : str :=
  match x with c :: r => if is_whitespace c then trim_start r else x | [] => [] end.
Definition trim_end (x : str) : str := rev (trim_start (rev x)).
Definition trim (x : str) : str := trim_end (trim_start x).

Definition is_ascii_digit (c : N) : bool := (48 <=? c) && (c <=? 57).
Definition digit_val (c : N) : N := c - 48.
Definition is_ascii_upper (c : N) : bool := (65 <=? c) && (c <=? 90).
Definition is_ascii_lower (c : N) : bool := (97 <=? c) && (c <=? 122).
Definition to_ascii_lower (c : N) : N := if is_ascii_upper c then c + 32 else c.

(* accumulate decimal digits; None on a non-digit or when the value exceeds [maxv] *)
Fixpoint parse_digits (maxv : N) (acc : N) (x : str) : option N :=
  match x with
  | [] => Some acc
  | c :: r =>
      if is_ascii_digit c then
        let acc' := acc * 10 + digit_val c in
        if acc' <=? maxv then parse_digits maxv acc' r else None
      else None
  end.

(* Rust <unsigned>::from_str: optional '+', at least one ASCII digit, overflow is an error *)
Definition parse_unsigned (maxv : N) (x : str) : option N :=
  match x with
  | [] => None
  | c :: r =>
      if N.eqb c 43 (* + *) then match r with [] => None | _ => parse_digits maxv 0 r end
      else parse_digits maxv 0 x
  end.
Definition parse_u32 := parse_unsigned 4294967295.
Definition parse_u64 := parse_unsigned 18446744073709551615.

(* Rust i64::from_str: optional '+' or '-', at least one digit, range -2^63 .. 2^63-1 *)
Definition parse_i64 (x : str) : option Z :=
  match x with
  | [] => None
  | c :: r =>
      if N.eqb c 45 (* - *) then
        match r with [] => None | _ =>
          match parse_digits 9223372036854775808 0 r with Some n => Some (- Z.of_N n)%Z | None => None end end
      else if N.eqb c 43 then
        match r with [] => None | _ =>
          match parse_digits 9223372036854775807 0 r with Some n => Some (Z.of_N n) | None => None end end
      else match parse_digits 9223372036854775807 0 x with Some n => Some (Z.of_N n) | None => None end
  end.

(* decimal rendering; fuel = bit size bounds the number of digits *)
Fixpoint show_N_aux (fuel : nat) (n : N) (acc : str) : str :=
  match fuel with
  | O => acc
  | S k =>
      let acc' := (48 + n mod 10) :: acc in
      if n / 10 =? 0 then acc' else show_N_aux k (n / 10) acc'
  end.
Definition show_N (n : N) : str := show_N_aux (S (N.to_nat (N.size n))) n [].
Definition show_Z (z : Z) : str :=
  match z with
  | Z0 => [48]
  | Zpos p => show_N (Npos p)
  | Zneg p => 45 :: show_N (Npos p)
  end.

Definition hex_digit (d : N) : N := if d <? 10 then 48 + d else 87 + d.
Fixpoint show_hex_aux (fuel : nat) (n : N) (acc : str) : str :=
  match fuel with
  | O => acc
  | S k =>
      let acc' := hex_digit (n mod 16) :: acc in
      if n / 16 =? 0 then acc' else show_hex_aux k (n / 16) acc'
  end.
Definition show_hex (n : N) : str := show_hex_aux (S (N.to_nat (N.size n))) n [].

Definition hex_val (c : N) : option N :=
  if is_ascii_digit c then Some (c - 48)
  else if (97 <=? c) && (c <=? 102) then Some (c - 87)
  else None.
Fixpoint parse_hex_aux (acc : N) (x : str) : option N :=
  match x with [] => Some acc | c :: r => match hex_val c with Some d => parse_hex_aux (acc * 16 + d) r | None => None end end.
Definition parse_hex (x : str) : option N := match x with [] => None | _ => parse_hex_aux 0 x end.
Definition parse_dec (x : str) : option N := match x with [] => None | _ => parse_digits (2^200) 0 x end.

Definition starts_with (p x : str) : bool := str_eqb p (firstn (length p) x).
Fixpoint contains_chr (c : N) (x : str) : bool := match x with [] => false | y :: r => N.eqb y c || contains_chr c r end.

(* tokens of a harness case line: split on TAB *)
Definition fields (x : str) : list str := split_on 9 x.
Definition words (x : str) : list str := filter nonempty (split_on 32 x).

(* field escaping of the harness line protocol: \\ \t \n \r \s \u{HEX} *)
Fixpoint take_hex (x : str) (acc : N) : N * str :=
  match x with
  | [] => (acc, [])
  | c :: r => if N.eqb c 125 (* } *) then (acc, r)
              else match hex_val c with Some d => take_hex r (acc * 16 + d) | None => (acc, r) end
  end.
Fixpoint unescape_aux (fuel : nat) (x : str) : str :=
  match fuel with
  | O => []
  | S k =>
    match x with
    | [] => []
    | 92 :: 92 :: r => 92 :: unescape_aux k r
    | 92 :: 116 :: r => 9 :: unescape_aux k r
    | 92 :: 110 :: r => 10 :: unescape_aux k r
    | 92 :: 114 :: r => 13 :: unescape_aux k r
    | 92 :: 115 :: r => 32 :: unescape_aux k r
    | 92 :: 117 :: 123 :: r => let (v, r') := take_hex r 0 in v :: unescape_aux k r'
    | c :: r => c :: unescape_aux k r
    end
  end.
Definition unescape (x : str) : str := unescape_aux (S (length x)) x.

Definition escape_chr (c : N) : str :=
  if N.eqb c 92 then [92; 92]
  else if N.eqb c 9 then [92; 116]
  else if N.eqb c 10 then [92; 110]
  else if N.eqb c 13 then [92; 114]
  else if (c <? 32) || (126 <? c) then [92; 117; 123] ++ show_hex c ++ [125]
  else [c].
Definition escape (x : str) : str := flat_map escape_chr x.
Definition tab : N := 9.
Definition join_tab (l : list str) : str := join [tab] l.

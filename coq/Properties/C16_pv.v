(* C16, "every reported principal variation is a legal line from the searched position, and the announced bestmove and
   ponder move are its first two moves" -- with the [key_family] hypothesis of C16_pv_legal (Properties/C16.v) discharged
   for concrete searches.  Lemmas: Proofs/PvLegalClosed.v.  Only pinned statements.

   [key_family] asks for NO COLLISION among the boards the search may visit: one key, one board.  That is false from depth 3
   on (clock twins: same placement, different half-move clock, same key; C16_twin_moves_differ) and again from depth 4 on
   (the root placement recurs after a 4-ply shuffle with clock + 4 and move number + 2; C16_root_recurs_at_ply_4).
   What the legality of the reported line really needs:

     ctwin x y            :=  x and y agree in the bitboards and castling rights of both sides, side to move and e.p. square
                              (they differ at most in the half-move clock and the full-move number)
     key_family_twin T K  :=  key_family T K with the last clause weakened to  K n1 zh b1 -> K n2 zh b2 -> ctwin b1 b2

   because a chain stored for one board is a legal line of every ctwin of it UP TO the prev_half field of the Move records
   (line_legal_ph; the generator copies the clock into that field, `make` and the printed move do not read it), and a line
   that is legal up to prev_half prints exactly like a legal line (C16_line_legal_of_ph).  Neither "same ply", nor the
   clock margin of sim_clock (C08), nor the full-move number is needed.

   The family: tree_K T root D n zh b := zh = zobrist_hash T b /\ b occurs below root at some ply i with i + n <= D.
   The premise on keys becomes the boolean
     key_twin_check T root D  :  for all tree nodes x, y within D plies:  key x = key y  ->  ctwinb x y
   (implied by ply_unique_check and by ply_unique_clock_check of C08; key_twin_fast is a one-pass form of it).
   It fails only on a genuine 64-bit collision between two boards that are not ctwins.
   The other premise, good_c10b GT (D + 130) root, asks that the root is well formed, not in check for the side that moved,
   has consistent castling rights / e.p. square, full-move number >= 1, and half-move clock + D + 130 < 4096. *)
Require Import Ink.Lib.Str.
Require Import NArith ZArith List Bool.
Import ListNotations.
Require Import Ink.Lib.Bits Ink.Model.Tables Ink.Model.Board Ink.Model.Fen Ink.Model.UciTx Ink.Model.Search.
Require Ink.Model.HashTable Ink.Model.ConsoleTx Ink.Spec.UciOut Ink.Spec.Minimax Ink.Proofs.ConsoleOk.
Require Import Ink.Proofs.SearchProofs Ink.Proofs.SessionProofs Ink.Proofs.ChessInstance Ink.Proofs.ChessGame Ink.Proofs.SearchRefine.
Require Import Ink.Proofs.RepetitionProofs Ink.Proofs.RepetitionInstance Ink.Proofs.C08Chess Ink.Proofs.C08Closed Ink.Proofs.C08Sim.
Require Import Ink.Proofs.PvLegalClosed.
Open Scope N_scope.

(* ================================================================== *)
(* 1. boards up to the counters, lines up to prev_half                 *)

Theorem C16_ctwin_def : forall x y : board,
  ctwin x y <-> white x = white y /\ black x = black y /\ turn x = turn y /\ ep x = ep y.
Proof. reflexivity. Qed.
Print Assumptions C16_ctwin_def.

(* the table cannot tell them apart, for every table set *)
Theorem C16_ctwin_same_key : forall (T : Tables.t) (x y : board), ctwin x y -> zobrist_hash T x = zobrist_hash T y.
Proof. exact ctwin_same_key. Qed.
Print Assumptions C16_ctwin_same_key.

Theorem C16_ctwinb_spec : forall x y : board, ctwinb x y = true <-> ctwin x y.
Proof. exact ctwinb_spec. Qed.
Print Assumptions C16_ctwinb_spec.

(* [line_legal] up to the prev_half field of the moves *)
Theorem C16_line_legal_ph_def : forall (T : Tables.t) (b : board) (m : move) (r : list move),
  (line_legal_ph T b [] <-> True) /\
  (line_legal_ph T b (m :: r) <->
     (exists p, In (set_ph p m) (gen_pseudo T b)) /\
     exists b', make b m = Some b' /\ is_valid T b' = true /\ line_legal_ph T b' r).
Proof. intros T b m r. split; reflexivity. Qed.
Print Assumptions C16_line_legal_ph_def.

Theorem C16_line_legal_to_ph : forall (T : Tables.t) (l : list move) (b : board), line_legal T b l -> line_legal_ph T b l.
Proof. exact line_legal_to_ph. Qed.
Print Assumptions C16_line_legal_to_ph.

(* a line that is legal up to prev_half prints like a legal line: relabel every move with the clock of its position *)
Theorem C16_line_legal_of_ph : forall (T : Tables.t) (l : list move) (b : board), line_legal_ph T b l ->
  exists l', map uci_of_move l' = map uci_of_move l /\ line_legal T b l'.
Proof. exact line_legal_of_ph. Qed.
Print Assumptions C16_line_legal_of_ph.

(* the invariance that replaces no_collision: whatever the two clocks and move numbers are *)
Theorem C16_ctwin_lines : forall (T : Tables.t) (l : list move) (x y : board),
  ctwin x y -> line_legal_ph T x l -> line_legal_ph T y l.
Proof. exact line_legal_ph_ctwin. Qed.
Print Assumptions C16_ctwin_lines.

(* ================================================================== *)
(* 2. C16_pv_legal and C16_one_go_output_shape under the weaker hypothesis *)

Theorem C16_key_family_twin_def : forall (T : Tables.t) (K : nat -> N -> board -> Prop),
  key_family_twin T K <->
  (forall n zh b m b', K (S n) zh b -> In m (gen_pseudo T b) -> make b m = Some b' -> is_valid T b' = true ->
     K n (N.lxor zh (zx_of T m)) b') /\
  (forall n zh b, K (S n) zh b -> K n zh b) /\
  (forall n1 n2 zh b1 b2, K n1 zh b1 -> K n2 zh b2 -> ctwin b1 b2).
Proof. reflexivity. Qed.
Print Assumptions C16_key_family_twin_def.

Theorem C16_key_family_is_twin : forall (T : Tables.t) (K : nat -> N -> board -> Prop), key_family T K -> key_family_twin T K.
Proof. exact key_family_is_twin. Qed.
Print Assumptions C16_key_family_is_twin.

(* C16_pv_legal, same conclusion *)
Theorem C16_pv_legal_twin : forall T good Q, C03_family T good Q -> forall K, key_family_twin T K ->
  forall orc g st D, (length (fst (go_full T orc g st)) <= D)%nat -> good (D + S Q)%nat (s_board st) ->
  K D (zobrist_hash T (s_board st)) (s_board st) ->
  forall i pv, In (OInfo i) (go_msgs T orc g st) -> i_pv i = Some pv ->
  exists line, pv = map uci_of_move line /\ line <> [] /\ line_legal T (s_board st) line.
Proof. exact pv_legal_twin_thm. Qed.
Print Assumptions C16_pv_legal_twin.

(* C16_one_go_output_shape, same conclusion *)
Theorem C16_one_go_output_shape_twin : forall T good Q, C03_family T good Q -> forall K, key_family_twin T K ->
  tables_chess_ok T = true ->
  forall orc g st D, (length (fst (go_full T orc g st)) <= D)%nat -> good (D + S Q)%nat (s_board st) ->
  K D (zobrist_hash T (s_board st)) (s_board st) -> pos_ok T (s_board st) ->
  N.of_nat (HashTable.cap tt_entry (s_tt st)) <= tt_capacity T ->
  exists infos best ponder,
    go_msgs T orc g st = infos ++ [OBestmove best ponder] /\ forallb is_info infos = true /\
    forall m, In m (go_msgs T orc g st) -> forall nps dbg, UciOut.single_line dbg = true ->
      exists tm line, to_tx nps dbg m = Some tm /\ ConsoleOk.msg_ok tm = true /\
                      ConsoleTx.render tm = Some line /\ UciOut.engine_line line = true.
Proof. exact one_go_output_shape_twin_thm. Qed.
Print Assumptions C16_one_go_output_shape_twin.

(* ================================================================== *)
(* 3. the family of the search tree and its checker                    *)

Theorem C16_tree_K_def : forall (T : Tables.t) (root : board) (D n : nat) (zh : N) (b : board),
  tree_K T root D n zh b <->
  zh = zobrist_hash T b /\ exists i, Minimax.at_ply board (ChessGame.succs T) root i b /\ (i + n <= D)%nat.
Proof. reflexivity. Qed.
Print Assumptions C16_tree_K_def.

Theorem C16_tree_K_root : forall (T : Tables.t) (root : board) (D : nat), tree_K T root D D (zobrist_hash T root) root.
Proof. exact tree_K_root. Qed.
Print Assumptions C16_tree_K_root.

(* the boards of the tree stay in the C03 family, one unit of budget per ply *)
Theorem C16_tree_boards_good : forall T good Q, search_family T good Q -> forall (root : board) (D : nat),
  good (D + S Q)%nat root ->
  forall i b, Minimax.at_ply board (ChessGame.succs T) root i b -> (i <= D)%nat -> good (D + S Q - i)%nat b.
Proof. exact at_ply_good. Qed.
Print Assumptions C16_tree_boards_good.

(* the key family of the tree: closure under the search's own key update (C06_incremental on the tree boards), monotone,
   and collision-free up to the counters as soon as equal keys in the tree belong to ctwins *)
Theorem C16_tree_key_family : forall T good Q, search_family T good Q -> forall (root : board) (D : nat),
  good (D + S Q)%nat root ->
  (forall i j x y, (i <= D)%nat -> (j <= D)%nat ->
     Minimax.at_ply board (ChessGame.succs T) root i x -> Minimax.at_ply board (ChessGame.succs T) root j y ->
     zobrist_hash T x = zobrist_hash T y -> ctwin x y) ->
  key_family_twin T (tree_K T root D).
Proof. exact tree_key_family. Qed.
Print Assumptions C16_tree_key_family.

Theorem C16_key_twin_check_def : forall (T : Tables.t) (root : board) (D : nat),
  key_twin_check T root D =
  forallb (fun a => forallb (fun b => if snd (fst a) =? snd (fst b) then ctwinb (snd a) (snd b) else true)
                            (tree_nodes T D root)) (tree_nodes T D root).
Proof. reflexivity. Qed.
Print Assumptions C16_key_twin_check_def.

Theorem C16_key_twin_check_sound : forall (T : Tables.t) (root : board) (D : nat), key_twin_check T root D = true ->
  forall i j x y, (i <= D)%nat -> (j <= D)%nat ->
    Minimax.at_ply board (ChessGame.succs T) root i x -> Minimax.at_ply board (ChessGame.succs T) root j y ->
    zobrist_hash T x = zobrist_hash T y -> ctwin x y.
Proof. exact key_twin_check_sound. Qed.
Print Assumptions C16_key_twin_check_sound.

(* the two checkers of C08 imply it; the one-pass form implies it *)
Theorem C16_key_twin_check_of_clock : forall (T : Tables.t) (root : board) (D : nat),
  ply_unique_clock_check T D root = true -> key_twin_check T root D = true.
Proof. exact key_twin_check_of_clock. Qed.
Print Assumptions C16_key_twin_check_of_clock.

Theorem C16_key_twin_check_of_eq : forall (T : Tables.t) (root : board) (D : nat),
  ply_unique_check T D root = true -> key_twin_check T root D = true.
Proof. exact key_twin_check_of_eq. Qed.
Print Assumptions C16_key_twin_check_of_eq.

Theorem C16_key_twin_fast_check : forall (T : Tables.t) (root : board) (D : nat),
  key_twin_fast T root D = true -> key_twin_check T root D = true.
Proof. exact key_twin_fast_check. Qed.
Print Assumptions C16_key_twin_fast_check.

(* ================================================================== *)
(* 4. the closed theorems                                              *)

(* the conclusion: every reported pv is a non-empty legal line from root; the output is info* bestmove; bestmove / ponder
   are the first / second move of the last reported pv, which is such a line (without any reported pv: bestmove 0000) *)
Theorem C16_pv_lines_legal_def : forall (T : Tables.t) (root : board) (msgs : list omsg),
  pv_lines_legal T root msgs <->
  (forall i pv, In (OInfo i) msgs -> i_pv i = Some pv ->
     exists line, pv = map uci_of_move line /\ line <> [] /\ line_legal T root line) /\
  exists infos best ponder,
    msgs = infos ++ [OBestmove best ponder] /\ forallb is_info infos = true /\
    match last_pv infos with
    | Some pv => best = nth_error pv 0 /\ ponder = nth_error pv 1 /\ best <> None /\
                 exists line, pv = map uci_of_move line /\ line <> [] /\ line_legal T root line
    | None => best = None /\ ponder = None
    end.
Proof. reflexivity. Qed.
Print Assumptions C16_pv_lines_legal_def.

(* any table set and board family satisfying [search_family] (C03 + well-formedness + the two Zobrist table checks),
   any engine state, any go parameters, EVERY oracle (abort point, inbox, clock); D bounds the number of iterations *)
Theorem C16_pv_legal_tables : forall T good Q, search_family T good Q ->
  forall orc g st D, (length (fst (go_full T orc g st)) <= D)%nat -> good (D + S Q)%nat (s_board st) ->
  key_twin_check T (s_board st) D = true ->
  pv_lines_legal T (s_board st) (go_msgs T orc g st).
Proof. exact pv_legal_tables. Qed.
Print Assumptions C16_pv_legal_tables.

(* the tables of the current tree; `go` with a depth limit dd, any other go parameter, every oracle, any engine state *)
Theorem C16_pv_legal_closed_state :
  forall orc g st dd, g_depth g = Some dd ->
  good_c10b GT (depth_of dd + 130) (s_board st) = true ->
  key_twin_check GT (s_board st) (depth_of dd) = true ->
  pv_lines_legal GT (s_board st) (go_msgs GT orc g st).
Proof. exact pv_legal_closed_state. Qed.
Print Assumptions C16_pv_legal_closed_state.

(* `position fen X` (no move list) from any prior state st0, then `go ... depth dd ...`: every premise is a boolean computed
   from X and dd; the oracle stays universally quantified (interrupted or not, any clock, any inbox) *)
Theorem C16_pv_legal_closed :
  forall orc g f st0 dd, g_depth g = Some dd ->
  let root := board_of_fen f in
  let st := set_position_from GT f [] st0 in
  good_c10b GT (depth_of dd + 130) root = true ->
  key_twin_check GT root (depth_of dd) = true ->
  pv_lines_legal GT root (go_msgs GT orc g st).
Proof. exact pv_legal_closed. Qed.
Print Assumptions C16_pv_legal_closed.

(* with the checkers of C08: the clock checker (passes at depth 3 on clock twins) and the equality checker (depth <= 2) *)
Theorem C16_pv_legal_closed_clock :
  forall orc g f st0 dd, g_depth g = Some dd ->
  let root := board_of_fen f in
  let st := set_position_from GT f [] st0 in
  good_c10b GT (depth_of dd + 130) root = true ->
  ply_unique_clock_check GT (depth_of dd) root = true ->
  pv_lines_legal GT root (go_msgs GT orc g st).
Proof. exact pv_legal_closed_clock. Qed.
Print Assumptions C16_pv_legal_closed_clock.

Theorem C16_pv_legal_closed_eq :
  forall orc g f st0 dd, g_depth g = Some dd ->
  let root := board_of_fen f in
  let st := set_position_from GT f [] st0 in
  good_c10b GT (depth_of dd + 130) root = true ->
  ply_unique_check GT (depth_of dd) root = true ->
  pv_lines_legal GT root (go_msgs GT orc g st).
Proof. exact pv_legal_closed_eq. Qed.
Print Assumptions C16_pv_legal_closed_eq.

(* C16_one_go_output_shape, closed: every message of the go is a `UciTx` call satisfying the side conditions of the
   renderer and its line is in the UCI output grammar.  The remaining non-boolean premise is about the prior state: its
   table was created with at most the capacity `hashfull` is printed against *)
Theorem C16_output_shape_closed :
  forall orc g f st0 dd, g_depth g = Some dd ->
  let root := board_of_fen f in
  let st := set_position_from GT f [] st0 in
  good_c10b GT (depth_of dd + 130) root = true ->
  key_twin_check GT root (depth_of dd) = true ->
  N.of_nat (HashTable.cap tt_entry (s_tt st0)) <= tt_capacity GT ->
  exists infos best ponder,
    go_msgs GT orc g st = infos ++ [OBestmove best ponder] /\ forallb is_info infos = true /\
    forall m, In m (go_msgs GT orc g st) -> forall nps dbg, UciOut.single_line dbg = true ->
      exists tm line, to_tx nps dbg m = Some tm /\ ConsoleOk.msg_ok tm = true /\
                      ConsoleTx.render tm = Some line /\ UciOut.engine_line line = true.
Proof. exact output_shape_closed. Qed.
Print Assumptions C16_output_shape_closed.

(* ================================================================== *)
(* 5. why the hypothesis had to be weakened: witnesses                 *)

(* [key_family]'s no_collision fails on the tree of a depth-3 search (two boards at ply 3 below the example root of C08, same
   key, clocks 2 and 0), and the chain stored for one is not literally generated in the other: only a relabelling is *)
Theorem C16_twin_moves_differ : exists x y m,
  In x (level GT 3 ex40_root) /\ In y (level GT 3 ex40_root) /\ zobrist_hash GT x = zobrist_hash GT y /\ x <> y /\ twin x y /\
  In m (gen_pseudo GT x) /\ ~ In m (gen_pseudo GT y) /\ exists p, In (set_ph p m) (gen_pseudo GT y).
Proof. exact twin_moves_differ. Qed.
Print Assumptions C16_twin_moves_differ.

(* "same ply" and "same move number" (ply_unique_clock_check) fail from depth 4 on: the root recurs at ply 4 *)
Theorem C16_root_recurs_at_ply_4 :
  In ex40_again (level GT 4 ex40_root) /\ zobrist_hash GT ex40_again = zobrist_hash GT ex40_root /\
  ctwin ex40_root ex40_again /\ ~ twin ex40_root ex40_again /\
  Minimax.at_ply board (ChessGame.succs GT) ex40_root 0 ex40_root.
Proof. exact root_recurs_at_ply_4. Qed.
Print Assumptions C16_root_recurs_at_ply_4.

(* ================================================================== *)
(* 6. the hypotheses are satisfiable: K+R+P against K+P, half-move clock 40 (the example of C08_closed.v)              *)

(* depth 3: the equality checker fails (clock twins), the new one passes *)
Example C16_pv_checks_depth3 :
  good_c10b GT (depth_of 3 + 130) (board_of_fen ex40_fen) = true /\
  ply_unique_check GT 3 (board_of_fen ex40_fen) = false /\
  key_twin_check GT (board_of_fen ex40_fen) 3 = true /\
  key_twin_fast GT (board_of_fen ex40_fen) 3 = true.
Proof. vm_compute. repeat split. Qed.

(* depth 4 (21489 tree nodes): the one-pass checker passes although the root recurs at ply 4 *)
Example C16_pv_checks_depth4 :
  good_c10b GT (depth_of 4 + 130) (board_of_fen ex40_fen) = true /\ key_twin_fast GT (board_of_fen ex40_fen) 4 = true /\
  N.of_nat (length (tree_nodes GT 4 (board_of_fen ex40_fen))) = 21489.
Proof. vm_compute. repeat split. Qed.

Definition c16pv_go (d : N) : go_params :=
  {| g_searchmoves := []; g_wtime := None; g_btime := None; g_winc := None; g_binc := None; g_depth := Some d; g_movetime := None |}.

(* hence: `position fen 8/5p2/8/4k3/8/3R4/4P3/4K3 w - - 40 60`, `go depth 4`, whatever happens during the search *)
Example C16_pv_legal_ex40_depth4 : forall orc st0,
  pv_lines_legal GT ex40_root (go_msgs GT orc (c16pv_go 4) (set_position_from GT ex40_fen [] st0)).
Proof.
  intros orc st0. destruct C16_pv_checks_depth4 as (G & F & _).
  exact (C16_pv_legal_closed orc (c16pv_go 4) ex40_fen st0 4 eq_refl G (C16_key_twin_fast_check _ _ _ F)).
Qed.

(* two concrete runs of that session from the initial engine state:
   (a) nothing happens: four iterations;
   (b) polling every 25 nodes, abort hook at node 600 (inside the fourth iteration): the third line is reported again
       under depth 3 and bestmove / ponder are its first two moves *)
Definition c16pv_orc_a : oracle :=
  {| abort_at := None; poll := 100000; inbox := fun _ => []; elapsed := fun k => N.of_nat k * 1000000 |}.
Definition c16pv_orc_b : oracle :=
  {| abort_at := Some (600, 1); poll := 25; inbox := fun _ => []; elapsed := fun k => N.of_nat k * 1500000 |}.
Definition c16pv_pvs (msgs : list omsg) : list (option N * str) :=
  flat_map (fun m => match m with
                     | OInfo i => match i_pv i with Some pv => [(i_depth i, move_array_to_string pv)] | None => [] end
                     | OBestmove b p => [(None, render_bestmove b p)]
                     | _ => []
                     end) msgs.

Example C16_pv_demo_a :
  c16pv_pvs (go_msgs GT c16pv_orc_a (c16pv_go 4) (set_position_from GT ex40_fen [] (init_state GT))) =
  [(Some 1, lit "e1d2"); (Some 2, lit "e1d2 e5e4"); (Some 3, lit "e1d2 e5e4 d2c3"); (Some 4, lit "e1d2 e5e4 d2c3 e4e5");
   (None, lit "bestmove e1d2 ponder e5e4")].
Proof. vm_compute. reflexivity. Qed.

Example C16_pv_demo_b :
  c16pv_pvs (go_msgs GT c16pv_orc_b (c16pv_go 4) (set_position_from GT ex40_fen [] (init_state GT))) =
  [(Some 1, lit "e1d2"); (Some 2, lit "e1d2 e5e4"); (Some 3, lit "e1d2 e5e4 d2c3"); (Some 3, lit "e1d2 e5e4 d2c3");
   (None, lit "bestmove e1d2 ponder e5e4")].
Proof. vm_compute. reflexivity. Qed.

(* C07, the missing direction: "a go on a position with a legal root move never answers with the null move", and the
   value bound it rests on.  Model: Model/Search.v, Model/Heuristic.v.  Proofs: Proofs/ValueBound.v.
   All statements hold for every oracle (any stop/quit timing, any clock, any abort point). *)
Require Import Ink.Lib.Str.
Require Import NArith ZArith List Bool.
Require Import Ink.Model.Tables Ink.Model.Board Ink.Model.Fen Ink.Model.Heuristic Ink.Model.UciTx Ink.Model.Search.
Require Ink.Model.HashTable.
Require Import Ink.Proofs.SearchProofs Ink.Proofs.LayoutProofs Ink.Proofs.MakeUnmake Ink.Proofs.ChessInstance.
Require Import Ink.Proofs.ValueBound.
Require Ink.Gen.Tables.
Import ListNotations.
Open Scope N_scope.

(* ================================================================================================================
   1. vocabulary
   ================================================================================================================ *)
Theorem C07_in_range_meaning : forall (T : Tables.t) v, in_range T v <-> (loss_score T < v < win_score T)%Z.
Proof. exact (fun T v => iff_refl _). Qed.
Print Assumptions C07_in_range_meaning.

(* the alpha-beta window of a call: alpha may sit ON loss_score, beta ON win_score (the root call), not beyond *)
Theorem C07_window_meaning : forall (T : Tables.t) a b,
  window T a b <-> (loss_score T <= a < win_score T)%Z /\ (loss_score T < b <= win_score T)%Z.
Proof. exact (fun T a b => iff_refl _). Qed.
Print Assumptions C07_window_meaning.

(* every principal variation stored in the transposition table carries a value in range *)
Theorem C07_tt_ok_meaning : forall (T : Tables.t) t,
  tt_ok T t <-> forall k e, HashTable.get tt_entry t k = Some e -> in_range T (vm_value (te_mv e)).
Proof. exact (fun T t => iff_refl _). Qed.
Print Assumptions C07_tt_ok_meaning.

(* the repetition leaf is valued draw_score +- the contempt factor of the state *)
Theorem C07_contempt_ok_meaning : forall (T : Tables.t) st,
  contempt_ok T st <-> (Z.abs (draw_score T) + Z.abs (s_contempt st) < win_score T)%Z.
Proof. exact (fun T st => iff_refl _). Qed.
Print Assumptions C07_contempt_ok_meaning.

(* the boolean side condition on the evaluation tables; B = pst_abs_max T is the largest |piece-square entry| *)
Theorem C07_eval_tables_bounded_meaning : forall T : Tables.t, eval_tables_bounded T = true <->
  64 * (val_q T + val_r T + val_b T + val_n T + val_p T) < 2147483648 /\ (0 <= pst_abs_max T)%Z /\
  pst_le (pst_abs_max T) (pst_white T) = true /\ pst_le (pst_abs_max T) (pst_black T) = true /\
  (Z.of_N (64 * (val_q T + val_r T + val_b T + val_n T + val_p T)) + 768 * pst_abs_max T < win_score T)%Z /\
  (Z.abs (draw_score T) + Z.abs (contempt T) < win_score T)%Z /\ (win_score T <= 1073741824)%Z.
Proof. exact etb_iff. Qed.
Print Assumptions C07_eval_tables_bounded_meaning.

Theorem C07_pst_le_meaning : forall B ts,
  pst_le B ts = forallb (fun stg => forallb (fun row => forallb (fun v => (Z.abs v <=? B)%Z) row) stg) ts.
Proof. exact (fun B ts => eq_refl). Qed.
Print Assumptions C07_pst_le_meaning.

(* discharged for the tables regenerated from the current /repo *)
Theorem C07_gen_eval_tables_bounded : eval_tables_bounded Ink.Gen.Tables.tables = true.
Proof. exact gen_eval_tables_bounded. Qed.
Print Assumptions C07_gen_eval_tables_bounded.

(* ================================================================================================================
   2. the static evaluation (mover's view)
   ================================================================================================================ *)
(* legal moves remaining (ongoing evaluation, fifty-move draw): in range on every well-formed board *)
Theorem C07_static_in_range : forall T : Tables.t, eval_tables_bounded T = true ->
  forall b, wf b = true -> in_range T (evaluate_for T (turn b) b true).
Proof. exact static_true_range. Qed.
Print Assumptions C07_static_in_range.

(* no legal move: loss_score + (fullmove as i32) when in check -- for BOTH colours --, else +- draw_score *)
Theorem C07_terminal_value : forall (T : Tables.t) b, turn b < 2 ->
  evaluate_for T (turn b) b false =
  if is_current_in_check T b then (loss_score T + to_i32 (full b))%Z else (heuristic_factor (turn b) * draw_score T)%Z.
Proof. exact static_false_value. Qed.
Print Assumptions C07_terminal_value.

(* THE RANGE HYPOTHESIS IS THE WEAKEST POSSIBLE: the value of a mated side is in range IFF 1 <= fullmove < 2*win_score
   (= 2^25 for the current constants; known finding D17 is the special case fullmove >= 2^24: sign flip) *)
Theorem C07_terminal_in_range_iff : forall T : Tables.t, eval_tables_bounded T = true ->
  forall b, turn b < 2 -> full b < 4294967296 -> is_current_in_check T b = true ->
  (in_range T (evaluate_for T (turn b) b false) <-> 1 <= full b /\ (Z.of_N (full b) < 2 * win_score T)%Z).
Proof. exact terminal_range_iff. Qed.
Print Assumptions C07_terminal_in_range_iff.

(* ================================================================================================================
   3. the value bound: capture search, main search at any depth, every iteration of a go
   ================================================================================================================ *)
(* the capture search never produces a mate score: no hypothesis on the full-move number *)
Theorem C07_quiescence_value_bounded : forall T : Tables.t, tables_chess_ok T = true -> eval_tables_bounded T = true ->
  forall fuel alpha beta zph st, good_chess T fuel (s_board st) -> window T alpha beta ->
  in_range T (vm_value (fst (quiescence T fuel alpha beta zph st))).
Proof. exact quiescence_value_bounded_T. Qed.
Print Assumptions C07_quiescence_value_bounded.

(* search_negamax with remaining draft d, at any ply, any window inside the bounds, any oracle: static evaluation,
   mate scores, draw/contempt (repetition leaf), fifty-move draw, table hits, poll returns.
   RANGE: 1 <= full b and full b + d < 2 * win_score (d plies of main search; the 130 plies of good_chess cover the
   capture search, which does not count for the full-move range). *)
Theorem C07_negamax_value_bounded : forall T : Tables.t, tables_chess_ok T = true -> eval_tables_bounded T = true ->
  forall orc d ply a0 b0 ispv zh zph st,
  good_chess T (d + 130) (s_board st) ->
  1 <= full (s_board st) -> (Z.of_N (full (s_board st)) + Z.of_nat d < 2 * win_score T)%Z ->
  window T a0 b0 -> tt_ok T (s_tt st) -> contempt_ok T st ->
  in_range T (vm_value (fst (negamax T orc d ply a0 b0 ispv zh zph st))) /\
  tt_ok T (s_tt (snd (negamax T orc d ply a0 b0 ispv zh zph st))) /\
  contempt_ok T (snd (negamax T orc d ply a0 b0 ispv zh zph st)).
Proof. exact negamax_value_bounded_T. Qed.
Print Assumptions C07_negamax_value_bounded.

(* a whole go (the table is cleared at its start, so no table hypothesis): every iteration reports a value in range *)
Theorem C07_go_values_in_range : forall T : Tables.t, tables_chess_ok T = true -> eval_tables_bounded T = true ->
  forall orc g st D, (length (fst (go_full T orc g st)) <= D)%nat -> good_chess T (D + 130) (s_board st) ->
  1 <= full (s_board st) -> (Z.of_N (full (s_board st)) + Z.of_nat D < 2 * win_score T)%Z -> contempt_ok T st ->
  Forall (fun it => in_range T (vm_value (it_result it))) (fst (go_full T orc g st)).
Proof. exact go_values_in_range_T. Qed.
Print Assumptions C07_go_values_in_range.

(* ================================================================================================================
   4. the polling period: a position has at most 41218 pseudo-legal moves (crude: 64 sources x 64 targets per piece
      kind), so iteration 1 (node counts 0 .. #moves) never reaches a poll of the product build (period 100000)
   ================================================================================================================ *)
Theorem C07_gen_pseudo_length : forall T : Tables.t, tables_bounded T = true ->
  forall b, wf b = true -> N.of_nat (length (gen_pseudo T b)) <= 41218.
Proof. exact gen_pseudo_length. Qed.
Print Assumptions C07_gen_pseudo_length.

(* ================================================================================================================
   5. C07_bestmove_exists and the combined statement
   ================================================================================================================ *)
(* Preconditions, all on the state at the START of the go:
     * NONE on s_nm_nodes or the stop flag: reset_for_go zeroes the node count and clears the flag, and the root of
       iteration 1 is node 0 -> 1, its children see counts 1 .. #moves < poll (C07_first_iteration_not_interruptible);
     * 41218 < poll orc  (true for the product period 100000; with C07_gen_pseudo_length this is "|gen_pseudo| < poll");
     * good_chess T 131: half-move clock + 131 < 4096 (one ply of main search + capture search);
     * full b + turn b < 2 * win_score: the full-move number OF A CHILD of the root -- the weakest range that works,
       see C07_bestmove_exists_refuted_at_2p25;  NO lower bound on the full-move number is needed here;
     * the contempt factor of the state is small (it is `contempt T` in every reachable state: C10 contempt_fixed). *)
Theorem C07_bestmove_exists : forall T : Tables.t, tables_chess_ok T = true -> eval_tables_bounded T = true ->
  forall orc g st,
  41218 < poll orc -> good_chess T 131 (s_board st) ->
  (Z.of_N (full (s_board st)) + Z.of_N (turn (s_board st)) < 2 * win_score T)%Z -> contempt_ok T st ->
  (exists m, In m (root_moves T g (s_board st)) /\ is_move_legal T (s_board st) m = true) ->
  announced (fst (go_full T orc g st)) <> None.
Proof. exact C07_bestmove_exists_T. Qed.
Print Assumptions C07_bestmove_exists.

(* exactly one bestmove; with a legal searched move it is a legal pseudo-legal move of the position (one of the
   searchmoves when given), never the null move; without one it is the null move *)
Theorem C07_answer : forall T : Tables.t, tables_chess_ok T = true -> eval_tables_bounded T = true ->
  forall orc g st D,
  (length (fst (go_full T orc g st)) <= D)%nat -> good_chess T (D + 130) (s_board st) ->
  41218 < poll orc ->
  (Z.of_N (full (s_board st)) + Z.of_N (turn (s_board st)) < 2 * win_score T)%Z -> contempt_ok T st ->
  count_bestmove (s_out (go T orc g st)) = S (count_bestmove (s_out st)) /\
  ((exists m, In m (root_moves T g (s_board st)) /\ is_move_legal T (s_board st) m = true) ->
   exists m, announced (fst (go_full T orc g st)) = Some (uci_of_move m) /\ In m (gen_pseudo T (s_board st)) /\
             is_move_legal T (s_board st) m = true /\
             (g_searchmoves g = [] \/ existsb (umove_eqb (uci_of_move m)) (g_searchmoves g) = true)) /\
  ((forall m, In m (root_moves T g (s_board st)) -> is_move_legal T (s_board st) m = false) ->
   announced (fst (go_full T orc g st)) = None).
Proof. exact C07_answer_T. Qed.
Print Assumptions C07_answer.

(* ================================================================================================================
   6. the same for the tables regenerated from the current /repo: win_score = 2^24, draw_score = 0
   ================================================================================================================ *)
Theorem C07_negamax_value_bounded_chess : forall orc d ply a0 b0 ispv zh zph st,
  good_chess Ink.Gen.Tables.tables (d + 130) (s_board st) ->
  1 <= full (s_board st) -> full (s_board st) + N.of_nat d < 33554432 ->
  (-16777216 <= a0 < 16777216)%Z -> (-16777216 < b0 <= 16777216)%Z ->
  tt_ok Ink.Gen.Tables.tables (s_tt st) -> (Z.abs (s_contempt st) < 16777216)%Z ->
  (-16777216 < vm_value (fst (negamax Ink.Gen.Tables.tables orc d ply a0 b0 ispv zh zph st)) < 16777216)%Z /\
  tt_ok Ink.Gen.Tables.tables (s_tt (snd (negamax Ink.Gen.Tables.tables orc d ply a0 b0 ispv zh zph st))).
Proof. exact negamax_value_bounded_chess. Qed.
Print Assumptions C07_negamax_value_bounded_chess.

Theorem C07_quiescence_value_bounded_chess : forall fuel alpha beta zph st,
  good_chess Ink.Gen.Tables.tables fuel (s_board st) ->
  (-16777216 <= alpha < 16777216)%Z -> (-16777216 < beta <= 16777216)%Z ->
  (-16777216 < vm_value (fst (quiescence Ink.Gen.Tables.tables fuel alpha beta zph st)) < 16777216)%Z.
Proof. exact quiescence_value_bounded_chess. Qed.
Print Assumptions C07_quiescence_value_bounded_chess.

Theorem C07_go_values_in_range_chess : forall orc g st D,
  (length (fst (go_full Ink.Gen.Tables.tables orc g st)) <= D)%nat -> good_chess Ink.Gen.Tables.tables (D + 130) (s_board st) ->
  1 <= full (s_board st) -> full (s_board st) + N.of_nat D < 33554432 -> (Z.abs (s_contempt st) < 16777216)%Z ->
  Forall (fun it => (-16777216 < vm_value (it_result it) < 16777216)%Z) (fst (go_full Ink.Gen.Tables.tables orc g st)).
Proof. exact go_values_in_range_chess. Qed.
Print Assumptions C07_go_values_in_range_chess.

Theorem C07_gen_pseudo_length_chess : forall b, wf b = true -> N.of_nat (length (gen_pseudo Ink.Gen.Tables.tables b)) <= 41218.
Proof. exact gen_pseudo_length_chess. Qed.
Print Assumptions C07_gen_pseudo_length_chess.

Theorem C07_bestmove_exists_chess : forall orc g st,
  41218 < poll orc -> good_chess Ink.Gen.Tables.tables 131 (s_board st) ->
  full (s_board st) + turn (s_board st) < 33554432 -> (Z.abs (s_contempt st) < 16777216)%Z ->
  (exists m, In m (root_moves Ink.Gen.Tables.tables g (s_board st)) /\ is_move_legal Ink.Gen.Tables.tables (s_board st) m = true) ->
  announced (fst (go_full Ink.Gen.Tables.tables orc g st)) <> None.
Proof. exact ValueBound.C07_bestmove_exists_chess. Qed.
Print Assumptions C07_bestmove_exists_chess.

(* the product build: the oracle's polling period is the constant 100000 of verif_control / should_check_flags *)
Theorem C07_bestmove_exists_product : forall orc g st,
  poll orc = poll_period Ink.Gen.Tables.tables -> good_chess Ink.Gen.Tables.tables 131 (s_board st) ->
  full (s_board st) + turn (s_board st) < 33554432 -> (Z.abs (s_contempt st) < 16777216)%Z ->
  (exists m, In m (root_moves Ink.Gen.Tables.tables g (s_board st)) /\ is_move_legal Ink.Gen.Tables.tables (s_board st) m = true) ->
  announced (fst (go_full Ink.Gen.Tables.tables orc g st)) <> None.
Proof. exact ValueBound.C07_bestmove_exists_product. Qed.
Print Assumptions C07_bestmove_exists_product.

(* the contempt hypothesis holds in every state a session reaches from Search::new *)
Theorem C07_contempt_ok_sessions : forall T : Tables.t, eval_tables_bounded T = true ->
  forall cmds, contempt_ok T (run_commands T cmds (init_state T)).
Proof. exact contempt_ok_sessions. Qed.
Print Assumptions C07_contempt_ok_sessions.

Theorem C07_answer_chess : forall orc g st D,
  (length (fst (go_full Ink.Gen.Tables.tables orc g st)) <= D)%nat -> good_chess Ink.Gen.Tables.tables (D + 130) (s_board st) ->
  41218 < poll orc -> full (s_board st) + turn (s_board st) < 33554432 -> (Z.abs (s_contempt st) < 16777216)%Z ->
  count_bestmove (s_out (go Ink.Gen.Tables.tables orc g st)) = S (count_bestmove (s_out st)) /\
  ((exists m, In m (root_moves Ink.Gen.Tables.tables g (s_board st)) /\ is_move_legal Ink.Gen.Tables.tables (s_board st) m = true) ->
   exists m, announced (fst (go_full Ink.Gen.Tables.tables orc g st)) = Some (uci_of_move m) /\
             In m (gen_pseudo Ink.Gen.Tables.tables (s_board st)) /\
             is_move_legal Ink.Gen.Tables.tables (s_board st) m = true /\
             (g_searchmoves g = [] \/ existsb (umove_eqb (uci_of_move m)) (g_searchmoves g) = true)) /\
  ((forall m, In m (root_moves Ink.Gen.Tables.tables g (s_board st)) -> is_move_legal Ink.Gen.Tables.tables (s_board st) m = false) ->
   announced (fst (go_full Ink.Gen.Tables.tables orc g st)) = None).
Proof. exact ValueBound.C07_answer_chess. Qed.
Print Assumptions C07_answer_chess.

(* ================================================================================================================
   7. sharpness (witnesses by computation)
   ================================================================================================================ *)
(* OUTSIDE the range, at the first excluded value: White is in check, has exactly one legal move, and it mates
   (kr6/1p6/8/8/B7/R7/5PPP/3r2K1 w - - 0 33554432, Ba4xd1#); every other hypothesis of C07_bestmove_exists_chess
   holds, full b + turn b = 2^25, and the answer is the null move. *)
Theorem C07_bestmove_exists_refuted_at_2p25 : exists orc g st,
  41218 < poll orc /\ good_chess Ink.Gen.Tables.tables 131 (s_board st) /\
  full (s_board st) + turn (s_board st) = 33554432 /\ (Z.abs (s_contempt st) < 16777216)%Z /\
  (exists m, In m (root_moves Ink.Gen.Tables.tables g (s_board st)) /\ is_move_legal Ink.Gen.Tables.tables (s_board st) m = true) /\
  announced (fst (go_full Ink.Gen.Tables.tables orc g st)) = None.
Proof. exact bestmove_exists_refuted_at_2p25. Qed.
Print Assumptions C07_bestmove_exists_refuted_at_2p25.

(* the same position one full move earlier (inside the range): `go depth 3` answers a4d1, value loss_score + 1 *)
Theorem C07_bestmove_exists_just_below_2p25 :
  good_chess Ink.Gen.Tables.tables 133 vb_forced_mate_below /\
  full vb_forced_mate_below + turn vb_forced_mate_below = 33554431 /\
  announced (fst (go_full Ink.Gen.Tables.tables vb_orc (vb_go 3) (vb_state vb_forced_mate_below))) = Some (32, 59, 0) /\
  map (fun it => vm_value (it_result it)) (fst (go_full Ink.Gen.Tables.tables vb_orc (vb_go 3) (vb_state vb_forced_mate_below)))
    = [-16777215; -16777215; -16777215]%Z.
Proof. exact bestmove_exists_just_below_2p25. Qed.
Print Assumptions C07_bestmove_exists_just_below_2p25.

(* the two-sided bound needs 1 <= full: a mated side with full-move number 0 is valued exactly loss_score *)
Theorem C07_value_bound_needs_full_ge_1 :
  good_chess Ink.Gen.Tables.tables 130 vb_mated_full0 /\ full vb_mated_full0 = 0 /\
  is_current_in_check Ink.Gen.Tables.tables vb_mated_full0 = true /\
  evaluate_for Ink.Gen.Tables.tables (turn vb_mated_full0) vb_mated_full0 false = loss_score Ink.Gen.Tables.tables.
Proof. exact value_bound_needs_full_ge_1. Qed.
Print Assumptions C07_value_bound_needs_full_ge_1.

(* ================================================================================================================
   8. the hypotheses are satisfiable: the start position, generated tables, `go depth 1`, product polling period
   ================================================================================================================ *)
Example C07_exists_startpos_hypotheses :
  41218 < poll vb_orc /\ good_chess Ink.Gen.Tables.tables 131 (s_board (vb_state (board_of_text STARTPOS))) /\
  full (s_board (vb_state (board_of_text STARTPOS))) + turn (s_board (vb_state (board_of_text STARTPOS))) < 33554432 /\ (Z.abs (s_contempt (vb_state (board_of_text STARTPOS))) < 16777216)%Z /\
  1 <= full (s_board (vb_state (board_of_text STARTPOS))) /\ (length (fst (go_full Ink.Gen.Tables.tables vb_orc (vb_go 1) (vb_state (board_of_text STARTPOS)))) <= 1)%nat /\
  existsb (is_move_legal Ink.Gen.Tables.tables (s_board (vb_state (board_of_text STARTPOS)))) (root_moves Ink.Gen.Tables.tables (vb_go 1) (s_board (vb_state (board_of_text STARTPOS)))) = true.
Proof.
  split; [vm_compute; reflexivity|]. split; [apply good_chessb_spec; vm_compute; reflexivity|].
  split; [vm_compute; reflexivity|]. split; [vm_compute; reflexivity|]. split; [vm_compute; discriminate|].
  split; [vm_compute; apply le_n|vm_compute; reflexivity].
Qed.

(* what the model answers: b1c3 = (57, 42, no promotion), value 50, one non-aborted iteration; 20 legal root moves *)
Example C07_exists_startpos_answer :
  announced (fst (go_full Ink.Gen.Tables.tables vb_orc (vb_go 1) (vb_state (board_of_text STARTPOS)))) = Some (57, 42, 0) /\
  map (fun it => (it_depth it, vm_value (it_result it), it_aborted it)) (fst (go_full Ink.Gen.Tables.tables vb_orc (vb_go 1) (vb_state (board_of_text STARTPOS))))
    = [(1, 50%Z, false)] /\
  length (filter (is_move_legal Ink.Gen.Tables.tables (s_board (vb_state (board_of_text STARTPOS)))) (root_moves Ink.Gen.Tables.tables (vb_go 1) (s_board (vb_state (board_of_text STARTPOS))))) = 20%nat.
Proof. vm_compute. repeat split; reflexivity. Qed.

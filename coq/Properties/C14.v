(* Property C14: SAN output is standard, unambiguous and round-trips through the SAN parser.
   Spec: Ink.Spec.SanSpec (san, denotes, parse_san) on Ink.Spec.Rules; model: Ink.Model.Notation (uci_to_pgn);
   proofs: Ink.Proofs.SanProofs (spec level), Ink.Proofs.SanModelProofs (model level).
   The tie  implementation = model  and  model = spec  on concrete inputs is the differential check (families ucistr,
   spec-san, spec-sanparse). *)
Require Import Ink.Lib.Str.
Require Import NArith ZArith List Bool.
Require Import Ink.Lib.Bits Ink.Model.Tables Ink.Model.Board Ink.Model.Fen Ink.Model.Notation.
Require Import Ink.Spec.Rules Ink.Spec.SanSpec Ink.Proofs.Abs.
Require Import Ink.Proofs.SanProofs Ink.Proofs.SanModelProofs.
Import ListNotations.

(* ---------------------------------------------------------------- spec level (complete) *)

(* two different legal moves never get the same SAN text *)
Theorem C14_unambiguous : forall p m m', legal_pos p = true -> In m (legal_moves p) -> In m' (legal_moves p) ->
  san p m = san p m' -> m = m'.
Proof. exact san_unambiguous. Qed.
Print Assumptions C14_unambiguous.

(* the standard text is an acceptable text of its move ... *)
Theorem C14_san_denotes : forall p m, In m (legal_moves p) -> denotes p (san p m) m = true.
Proof. exact san_denotes. Qed.
Print Assumptions C14_san_denotes.

(* ... and of no other move, even under the reader's relaxations (optional x, optional hints, unverified + / #):
   the minimal disambiguation is sufficient *)
Theorem C14_denotes_unique : forall p m m', legal_pos p = true -> In m (legal_moves p) ->
  denotes p (san p m) m' = true -> m' = m.
Proof. exact denotes_unique. Qed.
Print Assumptions C14_denotes_unique.

(* the spec reader applied to the standard text returns exactly the move *)
Theorem C14_roundtrip_spec : forall p m, legal_pos p = true -> In m (legal_moves p) -> parse_san p (san p m) = POk m.
Proof. exact roundtrip_spec. Qed.
Print Assumptions C14_roundtrip_spec.

(* meaning of the spec reader's answers *)
Theorem C14_parse_ok : forall p s m, parse_san p s = POk m ->
  In m (legal_moves p) /\ denotes p s m = true /\ forall m', denotes p s m' = true -> m' = m.
Proof. exact parse_san_ok. Qed.
Print Assumptions C14_parse_ok.

Theorem C14_parse_err : forall p s, parse_san p s = PErr -> forall m, denotes p s m = false.
Proof. exact parse_san_err. Qed.
Print Assumptions C14_parse_err.

(* ---------------------------------------------------------------- model level, unconditional *)

(* shape of a successful uci_to_pgn: the move found, the successor, the board left behind, text = core ++ mark *)
Theorem C14_model_output_shape : forall T b s text ob, uci_to_pgn T b s = (inr text, ob) ->
  exists r b1,
    find_first (fun m => str_eqb (to_uci m) (trim s)) (gen_pseudo T b) = Some r /\
    make b r = Some b1 /\ is_valid T b1 = true /\ ob = unmake b1 r /\
    text = m_core T b r ++ m_mark T b1 /\
    split_marks text = (m_core T b r, m_mark T b1).
Proof. exact model_output_shape. Qed.
Print Assumptions C14_model_output_shape.

(* `#` iff the successor has no legal reply AND its side to move is in check (never for stalemate);
   `+` iff in check with a reply; no mark iff not in check *)
Theorem C14_model_mate_mark : forall T b s text ob, uci_to_pgn T b s = (inr text, ob) ->
  exists r b1, make b r = Some b1 /\
    (snd (split_marks text) = [35%N] <-> (is_any_move_legal T b1 (gen_pseudo T b1) = false /\ is_current_in_check T b1 = true)) /\
    (snd (split_marks text) = [43%N] <-> (is_any_move_legal T b1 (gen_pseudo T b1) = true /\ is_current_in_check T b1 = true)) /\
    (snd (split_marks text) = [] <-> is_current_in_check T b1 = false).
Proof. exact model_mate_mark. Qed.
Print Assumptions C14_model_mate_mark.

(* castling text iff the king goes from the e-file to the g- / c-file *)
Theorem C14_model_castle_text : forall T b r,
  (m_core T b r = lit "O-O" <-> m_is_short r = true) /\
  (m_core T b r = lit "O-O-O" <-> (m_is_short r = false /\ m_is_long r = true)).
Proof. exact model_castle_text. Qed.
Print Assumptions C14_model_castle_text.

(* the argument board is what is left behind, provided unmake undoes make on it (property C02) *)
Theorem C14_model_board : forall T b s res ob,
  (forall m b1, make b m = Some b1 -> unmake b1 m = Some b) ->
  uci_to_pgn T b s = (res, ob) -> ob = Some b \/ (res = inl MoveIsNotValid /\ ob = None).
Proof. exact uci_to_pgn_board. Qed.
Print Assumptions C14_model_board.

(* the implementation's three-flag table (shares file / shares rank / any other) is the standard origin rule *)
Theorem C14_table_is_standard : forall s srcs, impl_disamb_srcs s srcs = std_disamb_srcs s srcs.
Proof. exact table_is_standard. Qed.
Print Assumptions C14_table_is_standard.

Theorem C14_model_disamb_standard : forall T b r, N.eqb (piece_moved r) PAWN = false ->
  m_disamb T b r = std_disamb_srcs (src r) (map src (m_same T b r)).
Proof. exact model_disamb_standard. Qed.
Print Assumptions C14_model_disamb_standard.

(* ---------------------------------------------------------------- model output = spec, CONDITIONAL
   gen_ok b  : the legal moves of the model on b, with their attributes, are those of the rules on abs b   (C01)
   succ_ok   : make = apply (C02), check detection = in_check (C03), "some legal reply" = legal_moves <> [] (C01 at b1)
   These are hypotheses of the theorem, not axioms; they are discharged by the move-generation properties. *)
Theorem C14_output : forall T b s text ob,
  gen_ok T b -> (forall r b1, In r (m_legal T b) -> make b r = Some b1 -> succ_ok T b r b1) ->
  uci_to_pgn T b s = (inr text, ob) ->
  exists r, In r (m_legal T b) /\ to_uci r = trim s /\ text = san (abs b) (uci_of r).
Proof. exact model_uci_to_pgn_is_san. Qed.
Print Assumptions C14_output.

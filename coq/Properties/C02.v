(* C02 - Playing a move produces exactly the successor position the rules define.
   Model: Model/Board.v (`make`, `gen_pseudo`, `make_overflows`; board/src/board.rs), Model/Fen.v (`print_fen`).
   Spec: Spec/Rules.v (`apply`: cells, side, four rights, e.p. target, both clocks), Spec/FenSpec.v (`render`).
   Abstraction: Proofs/Abs.v (`abs : board -> pos`, `uci_of : move -> mv`; NO_SQUARE = 0 is mapped to "no e.p. target").
   Proofs: Proofs/MakeProofs.v (on top of AbsProofs, GenShape, MakeUnmake, AttackProofs, CheckProofs, FenProofs, Preserve).
   Only pinned statements here.

   Quantifier: every board b satisfying the position invariant and EVERY pseudo-legal move of the generator (legal or
   not), any half-move clock and any full-move number (no bound for exactness; below u32::MAX for "no overflow").

   Side conditions
     tables_attacks_ok T   C04; Gen tables: SweepAll.tables_ok
     tables_castle_ok T    C03; Gen tables: MakeUnmake.gen_tables_castle_ok
     tables_ranks_ok T     RANK_1/2/7/8 masks; Gen tables: MakeProofs.gen_tables_ranks_ok
     wf b, rights_wf b     as in C03 (rights_wf: a held right implies king and rook at home)
     ep_ok b               := ep_consistent (abs b) = true  -- necessary, see C02_needs_ep_ok
     is_valid T b = true   the side not to move is not in check -- necessary, see C02_needs_valid
   All four board conditions together are `pos_inv T b`; on well-formed boards they are exactly `legal_pos (abs b)`
   (C02_legal_pos_iff), they hold in the start position and are preserved by legal moves (C02_invariant_preserved). *)
Require Import Ink.Lib.Str.
Require Import NArith ZArith List Bool.
Import ListNotations.
Require Import Ink.Lib.Bits Ink.Model.Tables Ink.Model.Board Ink.Model.Fen Ink.Spec.Rules Ink.Spec.FenSpec.
Require Import Ink.Proofs.Abs Ink.Proofs.AttackProofs Ink.Proofs.MakeUnmake.
Require Ink.Proofs.UciMovesProofs.
Require Ink.Proofs.MakeProofs.
Require Ink.Gen.Tables Ink.Gen.SweepAll.
Import Ink.Proofs.MakeProofs.
Open Scope N_scope.

(* ---- main theorem: the whole `pos` record (64 cells, side, 4 rights, e.p. target, both clocks) ---- *)
Theorem C02_make_exact : forall (T : Tables.t),
  tables_attacks_ok T = true -> tables_castle_ok T = true -> tables_ranks_ok T = true ->
  forall (b : board) (m : move) (b' : board),
  wf b = true -> rights_wf b = true -> ep_ok b -> is_valid T b = true -> In m (gen_pseudo T b) ->
  make b m = Some b' -> abs b' = Rules.apply (abs b) (uci_of m).
Proof. exact MakeProofs.C02_make_exact. Qed.
Print Assumptions C02_make_exact.

(* ---- one step of a game: successor exists, is the rules' successor, and satisfies the invariants again ---- *)
Theorem C02_step : forall (T : Tables.t),
  tables_attacks_ok T = true -> tables_castle_ok T = true -> tables_ranks_ok T = true ->
  forall (b : board) (m : move),
  wf b = true -> rights_wf b = true -> ep_ok b -> is_valid T b = true -> In m (gen_pseudo T b) ->
  exists b', make b m = Some b' /\ abs b' = Rules.apply (abs b) (uci_of m) /\
             wf b' = true /\ rights_wf b' = true /\ ep_ok b'.
Proof. exact MakeProofs.C02_step. Qed.
Print Assumptions C02_step.

(* ---- no panic: `make` returns and the u32 clocks do not overflow (clocks below u32::MAX) ---- *)
Theorem C02_make_total : forall (T : Tables.t), tables_castle_ok T = true ->
  forall (b : board) (m : move),
  wf b = true -> rights_wf b = true -> In m (gen_pseudo T b) ->
  half b < 2 ^ 32 - 1 -> full b < 2 ^ 32 - 1 ->
  exists b', make b m = Some b' /\ make_overflows b m = false.
Proof. exact (fun T HC => MakeProofs.C02_make_total T HC). Qed.
Print Assumptions C02_make_total.

Theorem C02_make_overflows_iff : forall (b : board) (m : move),
  make_overflows b m = true <-> 2 ^ 32 <= full b + turn b \/ (half_reset m = false /\ 2 ^ 32 <= half b + 1).
Proof. exact MakeProofs.make_overflows_iff. Qed.
Print Assumptions C02_make_overflows_iff.

(* ---- known finding D19: at u32::MAX the clock increment overflows (half-move clock; full-move number) ---- *)
Theorem C02_clocks_refuted_at_max :
  (exists b m, wf b = true /\ rights_wf b = true /\ ep_ok b /\ is_valid Ink.Gen.Tables.tables b = true /\
               In m (gen_pseudo Ink.Gen.Tables.tables b) /\ half b = 2 ^ 32 - 1 /\ make_overflows b m = true) /\
  (exists b m, wf b = true /\ rights_wf b = true /\ ep_ok b /\ is_valid Ink.Gen.Tables.tables b = true /\
               In m (gen_pseudo Ink.Gen.Tables.tables b) /\ full b = 2 ^ 32 - 1 /\ make_overflows b m = true).
Proof. exact MakeProofs.C02_clocks_refuted_at_max. Qed.
Print Assumptions C02_clocks_refuted_at_max.

(* ---- as rendered in FEN ---- *)
Theorem C02_fen_observed : forall (T : Tables.t),
  tables_attacks_ok T = true -> tables_castle_ok T = true -> tables_ranks_ok T = true ->
  forall (b : board) (m : move) (b' : board),
  wf b = true -> rights_wf b = true -> ep_ok b -> is_valid T b = true -> In m (gen_pseudo T b) ->
  make b m = Some b' -> print_fen b' = Some (FenSpec.render (Rules.apply (abs b) (uci_of m))).
Proof. exact MakeProofs.C02_fen_observed. Qed.
Print Assumptions C02_fen_observed.

(* ---- invariant preservation ---- *)
Theorem C02_make_inv : forall (T : Tables.t),
  tables_attacks_ok T = true -> tables_castle_ok T = true -> tables_ranks_ok T = true ->
  forall (b : board) (m : move) (b' : board),
  wf b = true -> rights_wf b = true -> ep_ok b -> is_valid T b = true -> In m (gen_pseudo T b) ->
  make b m = Some b' -> wf b' = true /\ rights_wf b' = true /\ ep_ok b'.
Proof. exact MakeProofs.C02_make_inv. Qed.
Print Assumptions C02_make_inv.

(* pos_inv T b := wf b = true /\ rights_wf b = true /\ ep_ok b /\ is_valid T b = true *)
Theorem C02_invariant_preserved : forall (T : Tables.t),
  tables_attacks_ok T = true -> tables_castle_ok T = true -> tables_ranks_ok T = true ->
  forall (b : board) (m : move) (b' : board),
  pos_inv T b -> In m (gen_pseudo T b) -> make b m = Some b' -> is_valid T b' = true -> pos_inv T b'.
Proof. exact MakeProofs.C02_invariant_preserved. Qed.
Print Assumptions C02_invariant_preserved.

(* on well-formed boards the invariant is `legal_pos` of the rules *)
Theorem C02_legal_pos_iff : forall (T : Tables.t), tables_attacks_ok T = true ->
  forall b, wf b = true ->
  (legal_pos (abs b) = true <-> rights_wf b = true /\ ep_ok b /\ is_valid T b = true).
Proof. exact MakeProofs.legal_pos_iff. Qed.
Print Assumptions C02_legal_pos_iff.

(* spec-level form (C01_reachable of the design): legal positions stay legal along legal moves *)
Theorem C02_legal_pos_preserved : forall (T : Tables.t),
  tables_attacks_ok T = true -> tables_castle_ok T = true -> tables_ranks_ok T = true ->
  forall (b : board) (m : move) (b' : board),
  wf b = true -> legal_pos (abs b) = true -> In m (gen_pseudo T b) -> make b m = Some b' -> is_valid T b' = true ->
  wf b' = true /\ legal_pos (abs b') = true.
Proof. exact MakeProofs.C02_legal_pos_preserved. Qed.
Print Assumptions C02_legal_pos_preserved.

(* ---- arbitrarily long games: legal_line T b ms = each move is generated in the position where it is played and
        leaves the mover's king out of check; spec_line folds Rules.apply over the UCI moves ---- *)
Theorem C02_game : forall (T : Tables.t),
  tables_attacks_ok T = true -> tables_castle_ok T = true -> tables_ranks_ok T = true ->
  forall (ms : list move) (b b' : board),
  pos_inv T b -> legal_line T b ms -> make_all b ms = Some b' ->
  pos_inv T b' /\ abs b' = spec_line (abs b) ms.
Proof. exact MakeProofs.C02_game. Qed.
Print Assumptions C02_game.

(* ---- the hypothesis Hpres of Proofs/UciMovesProofs.v: false as stated, and what holds instead ---- *)
Theorem C02_Hpres_as_stated_is_false :
  ~ (forall b m b1, UciMovesProofs.good b -> In m (gen_pseudo Ink.Gen.Tables.tables b) -> make b m = Some b1 ->
                    is_valid Ink.Gen.Tables.tables b1 = true -> UciMovesProofs.good b1).
Proof. exact MakeProofs.C02_Hpres_as_stated_is_false. Qed.
Print Assumptions C02_Hpres_as_stated_is_false.

Theorem C02_Hpres_fixed : forall (T : Tables.t),
  tables_attacks_ok T = true -> tables_castle_ok T = true -> tables_ranks_ok T = true ->
  forall b m b1, pos_inv T b -> In m (gen_pseudo T b) -> make b m = Some b1 -> is_valid T b1 = true ->
  pos_inv T b1 /\ half b1 <= half b + 1.
Proof. exact MakeProofs.C02_Hpres_fixed. Qed.
Print Assumptions C02_Hpres_fixed.

(* ---- the board hypotheses are necessary ---- *)
Theorem C02_needs_ep_ok : exists b m b',
  wf b = true /\ rights_wf b = true /\ is_valid Ink.Gen.Tables.tables b = true /\ ep_consistent (abs b) = false /\
  In m (gen_pseudo Ink.Gen.Tables.tables b) /\ make b m = Some b' /\
  wf b' = false /\ abs b' <> Rules.apply (abs b) (uci_of m).
Proof. exact MakeProofs.C02_needs_ep_ok. Qed.
Print Assumptions C02_needs_ep_ok.

Theorem C02_needs_valid : exists b m b',
  wf b = true /\ rights_wf b = true /\ ep_ok b /\ is_valid Ink.Gen.Tables.tables b = false /\
  In m (gen_pseudo Ink.Gen.Tables.tables b) /\ make b m = Some b' /\
  wf b' = false /\ bk (abs b') = true /\ bk (Rules.apply (abs b) (uci_of m)) = false.
Proof. exact MakeProofs.C02_needs_valid. Qed.
Print Assumptions C02_needs_valid.

(* ================================================================== *)
(* the tables of the current /repo: no table condition left             *)
(* ================================================================== *)
Theorem C02_tables_ranks_ok : tables_ranks_ok Ink.Gen.Tables.tables = true.
Proof. exact gen_tables_ranks_ok. Qed.
Print Assumptions C02_tables_ranks_ok.

Theorem C02_make_exact_gen : forall (b : board) (m : move) (b' : board),
  wf b = true -> rights_wf b = true -> ep_ok b -> is_valid Ink.Gen.Tables.tables b = true ->
  In m (gen_pseudo Ink.Gen.Tables.tables b) -> make b m = Some b' ->
  abs b' = Rules.apply (abs b) (uci_of m).
Proof.
  exact (MakeProofs.C02_make_exact Ink.Gen.Tables.tables Ink.Gen.SweepAll.tables_ok gen_tables_castle_ok gen_tables_ranks_ok).
Qed.
Print Assumptions C02_make_exact_gen.

Theorem C02_step_gen : forall (b : board) (m : move),
  wf b = true -> rights_wf b = true -> ep_ok b -> is_valid Ink.Gen.Tables.tables b = true ->
  In m (gen_pseudo Ink.Gen.Tables.tables b) ->
  exists b', make b m = Some b' /\ abs b' = Rules.apply (abs b) (uci_of m) /\
             wf b' = true /\ rights_wf b' = true /\ ep_ok b'.
Proof.
  exact (MakeProofs.C02_step Ink.Gen.Tables.tables Ink.Gen.SweepAll.tables_ok gen_tables_castle_ok gen_tables_ranks_ok).
Qed.
Print Assumptions C02_step_gen.

Theorem C02_make_total_gen : forall (b : board) (m : move),
  wf b = true -> rights_wf b = true -> In m (gen_pseudo Ink.Gen.Tables.tables b) ->
  half b < 2 ^ 32 - 1 -> full b < 2 ^ 32 - 1 ->
  exists b', make b m = Some b' /\ make_overflows b m = false.
Proof. exact (MakeProofs.C02_make_total Ink.Gen.Tables.tables gen_tables_castle_ok). Qed.
Print Assumptions C02_make_total_gen.

Theorem C02_fen_observed_gen : forall (b : board) (m : move) (b' : board),
  wf b = true -> rights_wf b = true -> ep_ok b -> is_valid Ink.Gen.Tables.tables b = true ->
  In m (gen_pseudo Ink.Gen.Tables.tables b) -> make b m = Some b' ->
  print_fen b' = Some (FenSpec.render (Rules.apply (abs b) (uci_of m))).
Proof.
  exact (MakeProofs.C02_fen_observed Ink.Gen.Tables.tables Ink.Gen.SweepAll.tables_ok gen_tables_castle_ok gen_tables_ranks_ok).
Qed.
Print Assumptions C02_fen_observed_gen.

Theorem C02_game_gen : forall (ms : list move) (b b' : board),
  pos_inv Ink.Gen.Tables.tables b -> legal_line Ink.Gen.Tables.tables b ms -> make_all b ms = Some b' ->
  pos_inv Ink.Gen.Tables.tables b' /\ abs b' = spec_line (abs b) ms.
Proof.
  exact (MakeProofs.C02_game Ink.Gen.Tables.tables Ink.Gen.SweepAll.tables_ok gen_tables_castle_ok gen_tables_ranks_ok).
Qed.
Print Assumptions C02_game_gen.

(* the start position satisfies the invariant *)
Theorem C02_startpos_inv : pos_inv Ink.Gen.Tables.tables (board_of_text STARTPOS).
Proof. repeat split; vm_compute; reflexivity. Qed.
Print Assumptions C02_startpos_inv.

(* ================================================================== *)
(* concrete positions (vm_compute): model text = expected text = rules' text *)
(* ================================================================== *)
Definition played (fen : str) (pick : move -> bool) : option str * option str :=
  let b := board_of_text fen in
  let m := pick_move b pick in
  (print_fen (after_make b m), Some (FenSpec.render (Rules.apply (abs b) (uci_of m)))).
Definition both (s : str) : option str * option str := (Some s, Some s).

(* castling: the rook is relocated, both white rights go, clocks: half +1, full unchanged after White *)
Example C02_ex_castle_short :
  played (lit "r3k2r/8/8/8/8/8/8/R3K2R w KQkq - 0 1") (fun m => castle m && (dst m =? G1))
  = both (lit "r3k2r/8/8/8/8/8/8/R4RK1 b kq - 1 1").
Proof. vm_compute. reflexivity. Qed.

Example C02_ex_castle_long_black :
  played (lit "r3k2r/8/8/8/8/8/8/R3K2R b KQkq - 7 12") (fun m => castle m && (dst m =? C8))
  = both (lit "2kr3r/8/8/8/8/8/8/R3K2R w KQ - 8 13").
Proof. vm_compute. reflexivity. Qed.

(* en passant: the captured pawn disappears from d5, not from the target square *)
Example C02_ex_en_passant :
  played (lit "4k3/8/8/3pP3/8/8/8/4K3 w - d6 0 1") ep_attack
  = both (lit "4k3/8/3P4/8/8/8/8/4K3 b - - 0 1").
Proof. vm_compute. reflexivity. Qed.

(* double push sets the e.p. target *)
Example C02_ex_double_push :
  played (lit "4k3/8/8/8/8/8/4P3/4K3 w - - 5 9") (fun m => (piece_moved m =? PAWN) && (dst m =? 36))
  = both (lit "4k3/8/8/8/4P3/8/8/4K3 b - e3 0 9").
Proof. vm_compute. reflexivity. Qed.

(* promotion with capture on a rook home square: the opponent's right is lost *)
Example C02_ex_promotion_capture :
  played (lit "r3k3/1P6/8/8/8/8/8/4K3 w q - 3 20") (fun m => (promo m =? QUEEN) && (dst m =? A8))
  = both (lit "Q3k3/8/8/8/8/8/8/4K3 b - - 0 20").
Proof. vm_compute. reflexivity. Qed.

(* clocks with half = 130 (above 100): increment on a quiet move, reset on a pawn move; full +1 after Black *)
Example C02_ex_clock_increment :
  played (lit "4k3/8/8/8/8/8/4P3/4K3 w - - 130 70") (fun m => (piece_moved m =? KING) && (dst m =? D1))
  = both (lit "4k3/8/8/8/8/8/4P3/3K4 b - - 131 70").
Proof. vm_compute. reflexivity. Qed.

Example C02_ex_clock_reset :
  played (lit "4k3/8/8/8/8/8/4P3/4K3 w - - 130 70") (fun m => (piece_moved m =? PAWN) && (dst m =? 44))
  = both (lit "4k3/8/8/8/8/4P3/8/4K3 b - - 0 70").
Proof. vm_compute. reflexivity. Qed.

Example C02_ex_fullmove_after_black :
  played (lit "4k3/8/8/8/8/8/4P3/4K3 b - - 130 70") (fun m => (piece_moved m =? KING) && (dst m =? D8))
  = both (lit "3k4/8/8/8/8/8/4P3/4K3 w - - 131 71").
Proof. vm_compute. reflexivity. Qed.

(* a rook leaving its home square loses exactly that right *)
Example C02_ex_rook_move_loses_right :
  played (lit "r3k2r/8/8/8/8/8/8/R3K2R w KQkq - 0 1") (fun m => (piece_moved m =? ROOK) && (src m =? H1) && (dst m =? 55))
  = both (lit "r3k2r/8/8/8/8/8/7R/R3K3 b Qkq - 1 1").
Proof. vm_compute. reflexivity. Qed.

(* C09 — "An interrupted search leaves the engine's position untouched".
   Model: Model/Search.v (tied to engine_core/src/engine/search.rs by the `session` correspondence family).
   Every statement quantifies over ALL oracles: any abort test point, any content of the message channel at any
   poll (stop, quit, ...), any clock.  The inverse property of make/unmake (C03) enters as the hypothesis
   [C03_family T good Q] on an indexed family of boards (Proofs/SearchProofs.v explains why an index is needed:
   the 12-bit previous-half-move field makes C03 false for a half-move clock >= 4096). *)
Require Import Ink.Lib.Str.
Require Import NArith ZArith List Bool.
Require Import Ink.Model.Tables Ink.Model.Board Ink.Model.UciTx Ink.Model.Search Ink.Proofs.SearchProofs.
Import ListNotations.
Open Scope N_scope.

(* search_negamax gives the board back, whatever happens during the search *)
Theorem C09_negamax_board : forall (T : Tables.t) good Q, C03_family T good Q ->
  forall orc d ply alpha beta is_pv zh zph st, good (d + S Q)%nat (s_board st) ->
  s_board (snd (negamax T orc d ply alpha beta is_pv zh zph st)) = s_board st.
Proof. exact C09_negamax_board_thm. Qed.
Print Assumptions C09_negamax_board.

(* so does search_quiescence *)
Theorem C09_quiescence_board : forall (T : Tables.t) good Q, C03_family T good Q ->
  forall fuel alpha beta zph st, good fuel (s_board st) ->
  s_board (snd (quiescence T fuel alpha beta zph st)) = s_board st.
Proof. exact C09_quiescence_board_thm. Qed.
Print Assumptions C09_quiescence_board.

(* a whole `go` (any number of iterations D, the last one possibly aborted) gives the board back *)
Theorem C09_go_board : forall (T : Tables.t) good Q, C03_family T good Q ->
  forall orc g st D, (length (fst (go_full T orc g st)) <= D)%nat -> good (D + S Q)%nat (s_board st) ->
  s_board (go T orc g st) = s_board st.
Proof. exact C09_go_board_thm. Qed.
Print Assumptions C09_go_board.

(* with `go depth dd` the number of iterations is at most max(dd, 1) *)
Theorem C09_go_depth_board : forall (T : Tables.t) good Q, C03_family T good Q ->
  forall orc g st dd, g_depth g = Some dd ->
  good (Pos.to_nat (match N.max dd 1 with Npos q => q | N0 => xH end) + S Q)%nat (s_board st) ->
  s_board (go T orc g st) = s_board st.
Proof. exact C09_go_depth_board_thm. Qed.
Print Assumptions C09_go_depth_board.

(* after any sequence of commands (with any number of interrupted searches) the board is the one set by the last
   successful `position` command; [session_ok]: every search that is run starts on a good board *)
Theorem C09_sessions : forall (T : Tables.t) good Q, C03_family T good Q ->
  forall cmds st, session_ok T good Q cmds st -> s_quit (run_commands T cmds st) = false ->
  s_board (run_commands T cmds st) = fold_left (track T) cmds (s_board st).
Proof. exact C09_sessions_thm. Qed.
Print Assumptions C09_sessions.

(* a go writes `info` lines and then exactly one bestmove: the move of the most recent iteration that was not
   aborted ([announced]); only the last iteration of a go can be an aborted one.  No hypothesis at all. *)
Theorem C09_bestmove_from_last_completed : forall (T : Tables.t) orc g st,
  let log := fst (go_full T orc g st) in
  (exists pm l, s_out (go T orc g st) = OBestmove (announced log) pm :: l ++ s_out st /\ forallb is_info l = true) /\
  forallb non_aborted (tl log) = true.
Proof. exact C09_bestmove_from_last_completed_thm. Qed.
Print Assumptions C09_bestmove_from_last_completed.
